import Exetera.Lemmas.GroupByCheck
import Exetera.Lemmas.GroupByStable
import Exetera.Props.C08
/-!
  C07 helper lemmas, part 3: the span stage on a sorted frame — spans of the stacked keys, the written key columns and
  the span reductions are the adjacent groups of the sorted frame.
-/
namespace Exetera.GroupBy
open Exetera Exetera.Spec Exetera.Spans Exetera.SortIndex List

/-- columns read along an index -/
def colsAlong (cols : List (List Int)) (idx : List Nat) : List (List Int) := cols.map (fun c => idx.map (c.getD · 0))

def keysAlong (keys : List KeyCol) (idx : List Nat) : List KeyCol := keys.map (fun k => ⟨k.cast, idx.map (k.data.getD · 0)⟩)

theorem keysAlong_data (keys : List KeyCol) (idx : List Nat) :
    (keysAlong keys idx).map (·.data) = colsAlong (keys.map (·.data)) idx := by
  simp [keysAlong, colsAlong]

theorem rect_colsAlong (cols : List (List Int)) (idx : List Nat) : Rect idx.length (colsAlong cols idx) := by
  intro c hc
  simp only [colsAlong, mem_map] at hc
  obtain ⟨c', _, rfl⟩ := hc
  simp

theorem faithful_keysAlong {keys : List KeyCol} {n : Nat} (h : Faithful keys) (hrect : Rect n (keys.map (·.data)))
    (idx : List Nat) (hidx : ∀ i ∈ idx, i < n) : Faithful (keysAlong keys idx) := by
  intro k hk
  simp only [keysAlong, mem_map] at hk
  obtain ⟨k', hk', rfl⟩ := hk
  have hlen : k'.data.length = n := hrect k'.data (mem_map.2 ⟨k', hk', rfl⟩)
  intro a ha b hb hab
  simp only [mem_map] at ha hb
  obtain ⟨i, hi, rfl⟩ := ha
  obtain ⟨j, hj, rfl⟩ := hb
  exact h k' hk' _ (getD_mem (by have := hidx i hi; omega)) _ (getD_mem (by have := hidx j hj; omega)) hab

theorem gatherKeys_ok (n : Nat) (idx : List Nat) (hidx : ∀ i ∈ idx, i < n) : ∀ (keys : List KeyCol),
    Rect n (keys.map (·.data)) → gatherKeys keys idx = .ok (keysAlong keys idx)
  | [], _ => rfl
  | k :: ks, h => by
    have hk : k.data.length = n := h k.data (by simp)
    have ih := gatherKeys_ok n idx hidx ks (fun c hc => h c (by simp at hc ⊢; exact Or.inr hc))
    simp only [gatherKeys, gather_ok k.data 0 idx (fun i hi => by rw [hk]; exact hidx i hi), ih, SortIndex.consE_ok]
    rfl

theorem keyAt_colsAlong (cols : List (List Int)) (idx : List Nat) (i : Nat) (hi : i < idx.length) :
    keyAt (colsAlong cols idx) i = keyAt cols idx[i] := by
  simp only [keyAt, colsAlong, map_map]
  apply map_congr_left
  intro c _
  simp [List.getD_eq_getElem?_getD, List.getElem?_eq_getElem hi]

theorem rowsBy_colsAlong (cols : List (List Int)) (idx : List Nat) :
    rowsBy (colsAlong cols idx) idx.length = idx.map (keyAt cols) := by
  apply List.ext_getElem
  · simp [rowsBy]
  · intro i h1 h2
    simp only [rowsBy, length_map, length_range] at h1
    simp [rowsBy, keyAt_colsAlong cols idx i h1]

theorem map_getD_range (c : List Int) : (List.range c.length).map (c.getD · 0) = c := by
  apply List.ext_getElem
  · simp
  · intro i h1 h2
    simp only [length_map, length_range] at h1
    simp [List.getD_eq_getElem?_getD, List.getElem?_eq_getElem h1]

theorem colsAlong_range (cols : List (List Int)) (n : Nat) (h : Rect n cols) : colsAlong cols (List.range n) = cols := by
  unfold colsAlong
  conv => rhs; rw [← map_id cols]
  apply map_congr_left
  intro c hc
  rw [← h c hc]; exact map_getD_range c

/-! ### spans of the stacked keys -/

theorem isBoundary_congr_rows {α β} (ne : α → α → Bool) (ne' : β → β → Bool) (X : List α) (Y : List β)
    (hl : X.length = Y.length)
    (h : ∀ i (h0 : 0 < i) (hi : i < X.length), ne (X[i - 1]'(by omega)) X[i] = ne' (Y[i - 1]'(by omega)) (Y[i]'(by omega))) :
    ∀ i, isBoundary ne X i = isBoundary ne' Y i := by
  intro i
  by_cases hi : 0 < i ∧ i < X.length
  · rw [isBoundary_eq ne X i hi.1 hi.2, isBoundary_eq ne' Y i hi.1 (by omega)]
    exact h i hi.1 hi.2
  · have h1 : isBoundary ne X i = false := by
      cases hb : isBoundary ne X i with
      | false => rfl
      | true => exact absurd (isBoundary_lt hb) hi
    have h2 : isBoundary ne' Y i = false := by
      cases hb : isBoundary ne' Y i with
      | false => rfl
      | true => have := isBoundary_lt hb; exact absurd (by omega : 0 < i ∧ i < X.length) hi
    rw [h1, h2]

/-- `_get_spans_for_multi_fields` on the stacked keys of a frame = spans of its key rows (faithful casts) -/
theorem spans_stacked (k0 : KeyCol) (ks : List KeyCol) (n : Nat) (hrect : Rect n ((k0 :: ks).map (·.data)))
    (hf : Faithful (k0 :: ks)) :
    getSpansForMultiFields .repaired ((k0 :: ks).map (fun k => k.data.map k.cast)) =
      .ok (spans neq (rowsBy ((k0 :: ks).map (·.data)) n)) := by
  have hst := rect_stacked (k0 :: ks) n hrect
  have h0 : (k0.data.map k0.cast).length = n := hst _ (by simp)
  have := Exetera.Props.C08.get_spans_multi_fields_eq_spec (k0.data.map k0.cast) (ks.map (fun k => k.data.map k.cast))
    (by intro f hf'; rw [h0]; exact hst f (by simpa using hf'))
  simp only [map_cons] at this ⊢
  rw [this, h0]
  congr 1
  apply spans_congr
  · simp [jointRows_length, rowsBy]
  · refine isBoundary_congr_rows _ _ _ _ (by simp [jointRows_length, rowsBy]) ?_
    · intro i h0' hi
      rw [jointRows_length] at hi
      have e1 : (jointRows (k0.data.map k0.cast :: ks.map (fun k => k.data.map k.cast)) n)[i - 1]'(by rw [jointRows_length]; omega) =
          ((k0 :: ks).map (fun k => k.cast (k.data.getD (i - 1) 0))).map some := by
        have := getElem?_jointRows (k0.data.map k0.cast :: ks.map (fun k => k.data.map k.cast)) n (i - 1) (by omega)
        rw [List.getElem?_eq_getElem (by rw [jointRows_length]; omega)] at this
        rw [Option.some.inj this, ← map_cons (f := fun k : KeyCol => k.data.map k.cast),
          keyAt_eq_of_lt hst (by omega : i - 1 < n), keyAt_stacked (k0 :: ks) n (i - 1) hrect (by omega)]
      have e2 : (jointRows (k0.data.map k0.cast :: ks.map (fun k => k.data.map k.cast)) n)[i]'(by rw [jointRows_length]; omega) =
          ((k0 :: ks).map (fun k => k.cast (k.data.getD i 0))).map some := by
        have := getElem?_jointRows (k0.data.map k0.cast :: ks.map (fun k => k.data.map k.cast)) n i hi
        rw [List.getElem?_eq_getElem (by rw [jointRows_length]; omega)] at this
        rw [Option.some.inj this, ← map_cons (f := fun k : KeyCol => k.data.map k.cast),
          keyAt_eq_of_lt hst hi, keyAt_stacked (k0 :: ks) n i hrect hi]
      rw [e1, e2]
      simp only [rowsBy, getElem_map, getElem_range, keyAt_data]
      have hinj : ∀ (a b : List Int), (a.map some == b.map some) = (a == b) := by
        intro a b
        by_cases hab : a = b
        · simp [hab]
        · have : ¬ a.map some = b.map some := fun hc => hab ((map_inj_right (fun _ _ h => Option.some.inj h)).1 hc)
          rw [beq_eq_false_iff_ne.2 hab, beq_eq_false_iff_ne.2 this]
      have hk : ∀ j, keyAt (k0.data :: map (fun x => x.data) ks) j = (k0 :: ks).map (fun k => k.data.getD j 0) :=
        fun j => by simp [keyAt]
      simp only [neq, bne, hinj, hk]
      congr 1
      have := eq_stacked n (k0 :: ks) hrect hf (i - 1) i (by omega) hi
      by_cases hc : (k0 :: ks).map (fun k => k.data.getD (i - 1) 0) = (k0 :: ks).map (fun k => k.data.getD i 0)
      · rw [beq_iff_eq.2 hc, beq_iff_eq.2 (this.2 hc)]
      · rw [beq_eq_false_iff_ne.2 hc, beq_eq_false_iff_ne.2 (fun h => hc (this.1 h))]

end Exetera.GroupBy
