import Exetera.Model.IndexedWriter
import Exetera.Model.Storage
import Exetera.Spec.Storage
import Exetera.Lemmas.Storage
import Exetera.Lemmas.Offsets
import Exetera.Lemmas.IndexedWriter
import Exetera.Lemmas.IndexedReader
import Exetera.Lemmas.Variants
import Exetera.Model.Reader
import Exetera.Spec.PySlice
import Exetera.Lemmas.PySlice
import Exetera.Lemmas.ReaderItems
import Exetera.Gen.FieldTypeMap
/-!
  C01 — field storage round-trip: what is written is what is read.

  All theorems are about the definitions the driver runs (`Exetera.IndexedWriter.writeField / writeOnto / getSlice /
  getAll / getItem`, `Exetera.Storage.writeParts / storeKeyValues / readDtype / reopenClass`), in the `repaired` variant
  (ExeTera with the fix: patches D1, D2, D32, NC01a of /verif/fixes applied); the `asFound` variants are refuted on
  their witnesses in `Witness/C01.lean`.  Every `… = .ok …` carries memory safety of the staging buffers (each buffer
  write is a checked `setE`, each offset read a checked `getE`) and termination (the model is structurally recursive).
-/
namespace Exetera.Props.C01

open Exetera Exetera.Storage Exetera.IndexedWriter Exetera.Spec Exetera.Reader

/-! ### (a) the indexed-string writer stores exactly the written sequence -/

/-- Writing any list of `write_part` calls, with any chunk size `c ≥ 1`, through a new writer onto a well-formed field
    holding the entries `xs0` (either backend for either array) and calling `complete()` succeeds, and afterwards the
    values array is the concatenation of all entries' bytes, the index array is exactly `offsets` of all entries, and
    both staging buffers are drained. -/
theorem indexed_append (c : Nat) (hc : 1 ≤ c) (ix : Arr Nat) (vals : Arr Byte) (xs0 : List Bytes)
    (hv : vals.contents = xs0.flatten) (hi : ix.contents = offsets xs0 ∨ (ix.contents = [] ∧ xs0 = []))
    (parts : List (List Bytes)) :
    ∃ s, writeOnto .repaired c ix vals parts = .ok s ∧
      s.values.contents = (xs0 ++ written parts).flatten ∧
      s.indices.contents = offsets (xs0 ++ written parts) ∧
      s.valueIndex = 0 ∧ s.indexIndex = 0 := by
  obtain ⟨s, h, hC, _⟩ := writeRound_inv (init_inv c hc ix vals xs0 hv hi) parts
  exact ⟨s, by simpa [writeOnto] using h, hC.values, hC.indices, hC.valueIndex, hC.indexIndex⟩

/-- The round trip on a fresh field (memory-backed or HDF5): for every chunk size `c ≥ 1` and every partition of the
    sequence into `write_part` calls (empty parts and the empty sequence included), the stored bytes are the
    concatenation of the written entries and the stored offsets are `offsets` of the written sequence. -/
theorem indexed_roundtrip (c : Nat) (hc : 1 ≤ c) (h5 : Bool) (parts : List (List Bytes)) :
    ∃ s, writeField .repaired c h5 parts = .ok s ∧
      s.values.contents = (written parts).flatten ∧
      s.indices.contents = offsets (written parts) ∧
      s.valueIndex = 0 ∧ s.indexIndex = 0 := by
  have := indexed_append c hc (Arr.fresh h5) (Arr.fresh h5) [] (by simp) (Or.inr ⟨by simp, rfl⟩) parts
  simpa [writeField] using this

example : ∃ s, writeField .repaired 2 true [[[97, 98], [], [195, 169]], [], [[120, 121, 122]]] = .ok s ∧
    s.values.contents = [97, 98, 195, 169, 120, 121, 122] ∧ s.indices.contents = [0, 2, 2, 4, 7] :=
  ⟨_, rfl, rfl, rfl⟩

example : ∃ s, writeField .repaired 3 false [] = .ok s ∧ s.values.contents = [] ∧ s.indices.contents = [0] :=
  ⟨_, rfl, rfl, rfl⟩

/-- Histories: any number of rounds (each a list of `write_part` calls closed by `complete()`), either going on with the
    same writer object or taking a new one on the field's arrays for every round (`field.writeable()`, a reopened
    dataset), leave the concatenation of everything written, with its offsets. -/
theorem indexed_rounds (c : Nat) (hc : 1 ≤ c) (h5 rewrap : Bool) (rounds : List (List (List Bytes))) (hne : rounds ≠ []) :
    ∃ s, writeRounds .repaired c h5 rewrap rounds = .ok s ∧
      s.values.contents = (written (rounds.map written)).flatten ∧
      s.indices.contents = offsets (written (rounds.map written)) ∧
      s.valueIndex = 0 ∧ s.indexIndex = 0 := by
  obtain ⟨s, h, _, hC⟩ := writeRounds_inv c hc h5 rewrap rounds
  have hC := hC hne
  exact ⟨s, h, hC.values, hC.indices, hC.valueIndex, hC.indexIndex⟩

example : ∃ s, writeRounds .repaired 2 true true [[[[97, 98]]], [], [[[99]], [[], [100]]]] = .ok s ∧
    s.values.contents = [97, 98, 99, 100] ∧ s.indices.contents = [0, 2, 3, 3, 4] :=
  ⟨_, rfl, rfl, rfl⟩

/-- The stored offsets start at 0, never decrease, end at the number of stored bytes and number one more than the
    entries — for every chunk size, partition and backend, the empty sequence included. -/
theorem offsets_invariants (c : Nat) (hc : 1 ≤ c) (h5 : Bool) (parts : List (List Bytes)) :
    ∃ s, writeField .repaired c h5 parts = .ok s ∧
      s.indices.contents.head? = some 0 ∧
      s.indices.contents.Pairwise (· ≤ ·) ∧
      s.indices.contents.getLast? = some s.values.contents.length ∧
      s.indices.contents.length = (written parts).length + 1 := by
  obtain ⟨s, hs, hv, hi, _, _⟩ := indexed_roundtrip c hc h5 parts
  refine ⟨s, hs, ?_, ?_, ?_, ?_⟩
  · rw [hi]; exact offsets_head? _
  · rw [hi]; exact offsets_pairwise _
  · rw [hi, hv]; exact offsets_getLast? _
  · rw [hi]; exact length_offsets _

example : ∃ s, writeField .repaired 1 false [[[], [97]], [[]]] = .ok s ∧ s.indices.contents = [0, 0, 1, 1] :=
  ⟨_, rfl, rfl⟩

/-! ### (b) partition, chunk-size and backend independence -/

/-- Two runs that write the same sequence — through any two partitions into `write_part` calls, any two chunk sizes
    `≥ 1`, memory-backed or HDF5 — end with the same stored bytes and the same stored offsets. -/
theorem representation_independent (c₁ c₂ : Nat) (h₁ : 1 ≤ c₁) (h₂ : 1 ≤ c₂) (b₁ b₂ : Bool)
    (parts₁ parts₂ : List (List Bytes)) (hsame : written parts₁ = written parts₂) :
    ∃ s₁ s₂, writeField .repaired c₁ b₁ parts₁ = .ok s₁ ∧ writeField .repaired c₂ b₂ parts₂ = .ok s₂ ∧
      s₁.values.contents = s₂.values.contents ∧ s₁.indices.contents = s₂.indices.contents := by
  obtain ⟨s₁, e₁, v₁, i₁, _, _⟩ := indexed_roundtrip c₁ h₁ b₁ parts₁
  obtain ⟨s₂, e₂, v₂, i₂, _, _⟩ := indexed_roundtrip c₂ h₂ b₂ parts₂
  exact ⟨s₁, s₂, e₁, e₂, by rw [v₁, v₂, hsame], by rw [i₁, i₂, hsame]⟩

/-- any two partitions of the same sequence (same chunk size, same backend) -/
theorem partition_irrelevant (c : Nat) (hc : 1 ≤ c) (h5 : Bool) (parts₁ parts₂ : List (List Bytes))
    (hsame : written parts₁ = written parts₂) :
    ∃ s₁ s₂, writeField .repaired c h5 parts₁ = .ok s₁ ∧ writeField .repaired c h5 parts₂ = .ok s₂ ∧
      s₁.values.contents = s₂.values.contents ∧ s₁.indices.contents = s₂.indices.contents :=
  representation_independent c c hc hc h5 h5 parts₁ parts₂ hsame

/-- any two chunk sizes `≥ 1` (same partition, same backend) -/
theorem chunksize_irrelevant (c₁ c₂ : Nat) (h₁ : 1 ≤ c₁) (h₂ : 1 ≤ c₂) (h5 : Bool) (parts : List (List Bytes)) :
    ∃ s₁ s₂, writeField .repaired c₁ h5 parts = .ok s₁ ∧ writeField .repaired c₂ h5 parts = .ok s₂ ∧
      s₁.values.contents = s₂.values.contents ∧ s₁.indices.contents = s₂.indices.contents :=
  representation_independent c₁ c₂ h₁ h₂ h5 h5 parts parts rfl

example : written [[[1], [2, 3]], [], [[4]]] = written [[[1]], [[2, 3], [4]]] (α := Bytes) := rfl

/-! ### (c) reading back: slices, the whole field, single entries — both readers -/

/-- On a well-formed field (`indices = offsets xs`, `values = xs.flatten` — what `indexed_roundtrip` establishes and
    what a reopened dataset hands back under the persistence assumption) both `WriteableIndexedFieldArray.__getitem__`
    (`writeable = true`) and `ReadOnlyIndexedFieldArray.__getitem__` return exactly `xs[a:b]` for every
    `0 ≤ a ≤ b ≤ n`, no place left `None`, no offset read out of bounds. -/
theorem slice_read (writeable : Bool) (xs : List Bytes) (a b : Nat) (hab : a ≤ b) (hb : b ≤ xs.length) :
    getSlice writeable (offsets xs) xs.flatten a b = .ok ((pySlice xs a b).map some) :=
  getSlice_wellformed writeable xs a b hab hb

/-- `data[:]` returns the whole sequence, both readers -/
theorem all_read (writeable : Bool) (xs : List Bytes) :
    getAll writeable (offsets xs) xs.flatten = .ok (xs.map some) :=
  getAll_wellformed writeable xs

/-- `data[i]` returns the `i`-th entry for every `i < n` -/
theorem item_read (xs : List Bytes) (i : Nat) (hi : i < xs.length) :
    getItem (offsets xs) xs.flatten i = .ok xs[i] :=
  getItem_wellformed xs i hi

/-- `len(field)` is the number of entries -/
theorem len_read (xs : List Bytes) : fieldLen (offsets xs) = xs.length := by simp [fieldLen]

example : getSlice false (offsets [[97], [], [98, 99]]) [97, 98, 99] 1 3 = .ok [some [], some [98, 99]] := rfl
example : getItem (offsets [[97], [], [98, 99]]) [97, 98, 99] 2 = .ok [98, 99] := rfl

/-- End to end: write the sequence through any partition / chunk size / backend, then read any in-range slice, the
    whole field, any entry and the length through either reader: the written sequence comes back. -/
theorem write_then_read (c : Nat) (hc : 1 ≤ c) (h5 : Bool) (parts : List (List Bytes)) (writeable : Bool) :
    ∃ s, writeField .repaired c h5 parts = .ok s ∧
      (∀ a b, a ≤ b → b ≤ (written parts).length →
        getSlice writeable s.indices.contents s.values.contents a b = .ok ((pySlice (written parts) a b).map some)) ∧
      getAll writeable s.indices.contents s.values.contents = .ok ((written parts).map some) ∧
      (∀ i (hi : i < (written parts).length),
        getItem s.indices.contents s.values.contents i = .ok (written parts)[i]) ∧
      fieldLen s.indices.contents = (written parts).length := by
  obtain ⟨s, hs, hv, hi, _, _⟩ := indexed_roundtrip c hc h5 parts
  refine ⟨s, hs, ?_, ?_, ?_, ?_⟩
  · intro a b hab hb; rw [hi, hv]; exact slice_read writeable _ a b hab hb
  · rw [hi, hv]; exact all_read writeable _
  · intro i hlt; rw [hi, hv]; exact item_read _ i hlt
  · rw [hi]; exact len_read _

/-! ### (d) plain fields (numeric of any dtype, fixed string, categorical, timestamp): append is concatenation -/

/-- Any list of `write_part` calls on a field array fresh from its constructor — `MemoryFieldArray` (with its
    reallocate-and-copy append) or the HDF5 dataset (`DataWriter.write`: resize, assign the tail) — succeeds and leaves
    exactly the concatenation of the parts; polymorphic in the element type, so it holds for every dtype whose values
    are written as that dtype. Empty parts anywhere are harmless (D1 repaired). -/
theorem plain_append {α} (z : α) (h5 : Bool) (parts : List (List α)) :
    ∃ a, writeParts .repaired z (Arr.fresh h5) parts = .ok a ∧ a.contents = written parts := by
  obtain ⟨a, h, hc⟩ := writeParts_repaired z (Arr.fresh h5 : Arr α) parts
  exact ⟨a, h, by simpa [written] using hc⟩

/-- …and appending to an array that already holds data -/
theorem plain_append_onto {α} (z : α) (a : Arr α) (parts : List (List α)) :
    ∃ a', writeParts .repaired z a parts = .ok a' ∧ a'.contents = a.contents ++ written parts :=
  writeParts_repaired z a parts

/-- partition and backend independence for plain fields -/
theorem plain_partition_irrelevant {α} (z : α) (b₁ b₂ : Bool) (parts₁ parts₂ : List (List α))
    (hsame : written parts₁ = written parts₂) :
    ∃ a₁ a₂, writeParts .repaired z (Arr.fresh b₁) parts₁ = .ok a₁ ∧ writeParts .repaired z (Arr.fresh b₂) parts₂ = .ok a₂ ∧
      a₁.contents = a₂.contents := by
  obtain ⟨a₁, e₁, c₁⟩ := plain_append z b₁ parts₁
  obtain ⟨a₂, e₂, c₂⟩ := plain_append z b₂ parts₂
  exact ⟨a₁, a₂, e₁, e₂, by rw [c₁, c₂, hsame]⟩

example : ∃ a, writeParts .repaired (0 : Int) (Arr.fresh false) [[1, 2], [], [3]] = .ok a ∧ a.contents = [1, 2, 3] :=
  ⟨_, rfl, rfl⟩
example : ∃ a, writeParts .repaired (0 : Int) (Arr.fresh true) [[], [1, 2], [3]] = .ok a ∧ a.contents = [1, 2, 3] :=
  ⟨_, rfl, rfl⟩

/-! ### (d') what holds for the code as found (without the D1 / D2 patches) -/

/-- The as-found indexed writer equals the repaired one whenever at least one entry is written (every chunk size `≥ 1`,
    partition — empty parts included — and backend): D1 cannot be reached through the indexed writer, and D2 is confined
    to `complete()` on a field without entries. All theorems above therefore hold for the unpatched writer on every
    non-empty sequence. -/
theorem indexed_asFound_agrees (c : Nat) (hc : 1 ≤ c) (h5 : Bool) (parts : List (List Bytes))
    (hne : written parts ≠ []) :
    writeField .asFound c h5 parts = writeField .repaired c h5 parts :=
  writeField_asFound_eq c hc h5 parts hne

/-- the round trip for the code as found, excluding the D2 witness shape by the explicit hypothesis `written parts ≠ []`.
    (Full statement without that hypothesis: `indexed_roundtrip`, which needs the D2 patch —
    `Witness.C01.d2_empty_field_has_no_offset` refutes it for the code as found.) -/
theorem indexed_roundtrip_asFound_partial (c : Nat) (hc : 1 ≤ c) (h5 : Bool) (parts : List (List Bytes))
    (hne : written parts ≠ []) :
    ∃ s, writeField .asFound c h5 parts = .ok s ∧
      s.values.contents = (written parts).flatten ∧ s.indices.contents = offsets (written parts) := by
  obtain ⟨s, hs, hv, hi, _, _⟩ := indexed_roundtrip c hc h5 parts
  exact ⟨s, by rw [indexed_asFound_agrees c hc h5 parts hne]; exact hs, hv, hi⟩

example : written [[[97]], ([] : List Bytes)] ≠ [] := by decide

/-- plain fields as found: when no `write_part` call is empty the as-found append equals the repaired one (D1 is the
    empty part after data: `Witness.C01.d1_empty_part_raises`). -/
theorem plain_append_asFound_partial {α} (z : α) (h5 : Bool) (parts : List (List α)) (hne : ∀ p ∈ parts, p ≠ []) :
    ∃ a, writeParts .asFound z (Arr.fresh h5) parts = .ok a ∧ a.contents = written parts := by
  rw [writeParts_asFound_of_nonempty z _ parts hne]
  exact plain_append z h5 parts

example : ∀ p ∈ [[1, 2], [3]], p ≠ ([] : List Int) := by decide

/-! ### (e) dtype, categorical key, reopen dispatch -/

/-- `data[:]` has the declared dtype, also for a memory field nothing was ever written to (NC01a repaired) -/
theorem dtype_read (h5 : Bool) (declared : String) (everWritten : Bool) :
    readDtype .repaired h5 declared everWritten = declared := by
  cases h5 <;> cases everWritten <;> rfl

/-- A non-empty categorical key whose values are representable in the field's own `nformat` is stored unchanged
    (D32 repaired: not only values in `[-128, 127]`). -/
theorem key_roundtrip (nformat : String) (lo hi : Int) (hfmt : intRange nformat = some (lo, hi))
    (kv : List Int) (hne : kv ≠ []) (hin : ∀ x ∈ kv, lo ≤ x ∧ x ≤ hi) :
    storeKeyValues .repaired nformat kv = .ok kv := by
  have h1 : kv.isEmpty = false := by cases kv <;> simp_all
  have h2 : (kv.all fun x => decide (lo ≤ x) && decide (x ≤ hi)) = true := by
    simp only [List.all_eq_true, Bool.and_eq_true, decide_eq_true_eq]
    exact hin
  simp [storeKeyValues, storeInts, h1, hfmt, h2]

example : storeKeyValues .repaired "int32" [1000, -5] = .ok [1000, -5] :=
  key_roundtrip "int32" _ _ rfl _ (by simp) (by decide)

/-- Every field constructor writes a `fieldtype` attribute that `Session.get` maps back to the class the field was
    created as: a reopened group is wrapped as the type that wrote it. -/
theorem reopen_dispatch (k : Kind) : reopenClass k = .ok k.cls := by
  cases k <;> rfl

example : reopenClass (.fixedString 5) = .ok .FixedStringField := rfl

/-! The same over the tables that `tools/translate.py` regenerates from the source text of session.py / fields.py /
    dataframe.py on every run (`Gen/FieldTypeMap.lean`): these theorems are re-checked against what the code says now. -/

/-- Source level: for every `HDF5DataFrame.create_*` method, the constructor it calls writes a `fieldtype` attribute
    whose head `Session.get`'s `fieldtype_map` maps to the very class the method wrapped the new group in. -/
theorem reopen_dispatch_source :
    Gen.FieldTypeMap.createMethods.all (fun m =>
      Gen.FieldTypeMap.constructorAttr.any (fun a =>
        a.1 == m.2.1 && Gen.FieldTypeMap.fieldtypeMap.lookup a.2.1 == some m.2.2)) = true := by decide

/-- The hand-written dispatch table of the model agrees with the source's `fieldtype_map` on every key of the source, -/
theorem model_fieldtypeMap_matches_source :
    Gen.FieldTypeMap.fieldtypeMap.all (fun p => (fieldtypeMap p.1).map FieldClass.name == some p.2) = true := by decide

/-- and every attribute head the model's constructors write is one a source constructor writes. -/
theorem model_fieldtypeHead_in_source (k : Kind) :
    Gen.FieldTypeMap.constructorAttr.any (fun a => a.2.1 == k.fieldtypeHead) = true := by
  cases k <;> simp only [Kind.fieldtypeHead] <;> decide

/-- Source level (D32): the categorical constructor passes the field's own `nformat` as dtype of `key_values`. -/
theorem key_values_dtype_source : Gen.FieldTypeMap.keyValuesDtype = "nformat" := by decide
example : readDtype .repaired false "int32" false = "int32" := rfl
example : fieldLen (offsets [[97], [], [98, 99]]) = 3 := rfl

/-! ### (f) EVERY item: negative indices, `None` / negative / out-of-range bounds, steps of either sign

  The SPEC is Python's own sequence indexing (`Spec/PySlice.lean`: `pySliceG xs start stop step` = `xs[start:stop:step]`,
  `pyIndex xs i` = `xs[i]`, built on `sliceIndices` = `slice.indices` and `pyRange` = `range`; compared with Python itself on
  an exhaustive small scope by the harness). The theorems are about the readers WITH the patches NC01b / NC01c
  (`Variant.repaired`); the readers as found are refuted on their witnesses in `Witness/C01.lean` and keep the `_partial`
  theorems at the end of this section. -/

/-- Spec sanity (no totalisation at work): every position `range(*slice(start, stop, step).indices(n))` visits is a row,
    `0 ≤ r < n` — so `pySliceG`, which looks rows up with `xs[r]?`, never drops or wraps one … -/
theorem pyslice_visits_rows {n : Nat} {start stop step : Option Int} {a b st : Int}
    (h : sliceIndices n start stop step = .ok (a, b, st)) {r : Int} (hr : r ∈ pyRange a b st) : 0 ≤ r ∧ r < n :=
  pyRange_rows h hr

/-- … and `xs[start:stop:step]` has exactly `len(range(…))` entries. -/
theorem pyslice_length {α} (xs : List α) (start stop step : Option Int) {a b st : Int}
    (h : sliceIndices xs.length start stop step = .ok (a, b, st)) :
    ∃ ys, pySliceG xs start stop step = .ok ys ∧ ys.length = rangeLen a b st :=
  pySliceG_length xs start stop step h

/-- The general slice restricted to natural bounds without a step is the `pySlice` the theorems of section (c) use. -/
theorem pyslice_nat {α} (xs : List α) (a b : Nat) :
    pySliceG xs (some (a : Int)) (some (b : Int)) none = .ok (pySlice xs a b) :=
  pySliceG_nat xs a b

example : pySliceG [10, 20, 30, 40, 50] (some (-2)) none none = .ok [40, 50] := rfl
example : pySliceG [10, 20, 30, 40, 50] none (some (-1)) none = .ok [10, 20, 30, 40] := rfl
example : pySliceG [10, 20, 30, 40, 50] (some 1) (some 4) (some 2) = .ok [20, 40] := rfl
example : pySliceG [10, 20, 30, 40, 50] none none (some (-1)) = .ok [50, 40, 30, 20, 10] := rfl
example : pySliceG [10, 20, 30, 40, 50] (some 3) (some (-9)) (some (-2)) = .ok [40, 20] := rfl
example : pySliceG [10, 20, 30, 40, 50] (some 7) (some 9) none = .ok [] := rfl
example : pySliceG [10, 20, 30] none none (some 0) = .error (.valueError "slice step cannot be zero") := rfl
example : pyIndex [10, 20, 30] (-1) = .ok 30 ∧ pyIndex [10, 20, 30] (-3) = .ok 10 := ⟨rfl, rfl⟩
example : pyIndex [10, 20, 30] (-4) = .error (.oob "list index out of range") := rfl
example : sliceIndices 5 (some (-2)) none (some (-1)) = .ok (3, -1, -1) := rfl

/-- `data[start:stop:step]` on a well-formed indexed string field, the writeable and the read-only reader, for EVERY
    combination of `None`, negative, out-of-range start / stop and any step: exactly Python's `xs[start:stop:step]`
    (ValueError for step 0 included), no place left `None`, no offset read out of bounds. -/
theorem slice_read_any (writeable : Bool) (xs : List Bytes) (start stop step : Option Int) :
    getIndexed .repaired writeable (offsets xs) xs.flatten (.slice start stop step)
      = (match pySliceG xs start stop step with
         | .ok ys => .ok (.rows (ys.map some))
         | .error e => .error e) := by
  simp only [getIndexed, getSliceRepaired_wellformed]
  cases pySliceG xs start stop step <;> rfl

/-- `data[i]` for EVERY Python int: row `i` for `0 ≤ i < n`, row `n + i` for `-n ≤ i < 0`; outside `[-n, n)` the field
    raises (ValueError, where a list raises IndexError). -/
theorem item_read_any (writeable : Bool) (xs : List Bytes) (i : Int) :
    getIndexed .repaired writeable (offsets xs) xs.flatten (.int i)
      = (match pyIndex xs i with
         | .ok x => .ok (.entry x)
         | .error _ => .error (.valueError "Index is out of range")) := by
  simp only [getIndexed, getIntRepaired_wellformed]
  cases pyIndex xs i <;> rfl

example : getIndexed .repaired false (offsets [[97], [], [98, 99], [100]]) [97, 98, 99, 100] (.slice (some (-3)) none (some 2))
    = .ok (.rows [some [], some [100]]) := rfl
example : getIndexed .repaired true (offsets [[97], [], [98, 99], [100]]) [97, 98, 99, 100] (.slice none none (some (-1)))
    = .ok (.rows [some [100], some [98, 99], some [], some [97]]) := rfl
example : getIndexed .repaired false (offsets [[97], [], [98, 99], [100]]) [97, 98, 99, 100] (.int (-2))
    = .ok (.entry [98, 99]) := rfl

/-- End to end: write the sequence through any partition / chunk size ≥ 1 / backend, then read it with ANY int or slice
    item through either reader: Python's answer on the written sequence. -/
theorem write_then_read_any (c : Nat) (hc : 1 ≤ c) (h5 : Bool) (parts : List (List Bytes)) (writeable : Bool) :
    ∃ s, writeField .repaired c h5 parts = .ok s ∧
      (∀ start stop step,
        getIndexed .repaired writeable s.indices.contents s.values.contents (.slice start stop step)
          = (match pySliceG (written parts) start stop step with
             | .ok ys => .ok (.rows (ys.map some))
             | .error e => .error e)) ∧
      (∀ i, getIndexed .repaired writeable s.indices.contents s.values.contents (.int i)
          = (match pyIndex (written parts) i with
             | .ok x => .ok (.entry x)
             | .error _ => .error (.valueError "Index is out of range"))) := by
  obtain ⟨s, hs, hv, hi, _, _⟩ := indexed_roundtrip c hc h5 parts
  refine ⟨s, hs, ?_, ?_⟩
  · intro start stop step; rw [hi, hv]; exact slice_read_any writeable _ start stop step
  · intro i; rw [hi, hv]; exact item_read_any writeable _ i

/-- Plain fields (numeric of any dtype, fixed string, categorical, timestamp), either backing: after any list of
    `write_part` calls on a field fresh from its constructor — an HDF5 field, or a memory field with at least one call —
    `data[item]` is numpy's = Python's answer on the written sequence for EVERY int / slice item; in particular an
    HDF5-backed array answers a negative step (h5py itself refuses it: NC01c). -/
theorem plain_read_any {α} (z : α) (h5 : Bool) (parts : List (List α)) (hw : h5 = true ∨ parts ≠ []) (item : Item) :
    ∃ a, writeParts .repaired z (Arr.fresh h5) parts = .ok a ∧ plainGet .repaired a item = numpyGet (written parts) item := by
  obtain ⟨a, ha, hc, hn⟩ := writeParts_written z h5 parts hw
  exact ⟨a, ha, by rw [plainGet_written a hn item, hc]; rfl⟩

/-- A memory field to which nothing was written answers every slice (step ≠ 0) as the empty sequence does. -/
theorem plain_unwritten_read {α} (start stop step : Option Int) (hstep : step ≠ some 0) :
    plainGet .repaired (.mem none : Arr α) (.slice start stop step) = numpyGet ([] : List α) (.slice start stop step) :=
  plainGet_unwritten start stop step hstep

example : ∃ a, writeParts .repaired (0 : Int) (Arr.fresh true) [[10, 20], [30]] = .ok a ∧
    plainGet .repaired a (.slice none none (some (-1))) = .ok (.array [30, 20, 10]) := ⟨.h5 [10, 20, 30], rfl, rfl⟩
example : ∃ a, writeParts .repaired (0 : Int) (Arr.fresh false) [[10, 20], [30]] = .ok a ∧
    plainGet .repaired a (.int (-3)) = .ok (.scalar 10) := ⟨.mem (some [10, 20, 30]), rfl, rfl⟩
example : (true = true ∨ ([] : List (List Int)) ≠ []) := Or.inl rfl

/-! #### what holds for the readers as found (without NC01b / NC01c) -/

/-- The indexed readers as found agree with Python on the items whose bounds are both given, non-negative, ordered and
    in range, with no step or step 1, and on ints `0 ≤ i < n`.
    (Full statement: `slice_read_any` / `item_read_any`, which need the patch NC01b; `Witness.C01.nc01b_*` refute them for the
    code as found: negative index, negative bound, any other step, and — read-only reader — `start > stop`.) -/
theorem indexed_read_asFound_partial (writeable : Bool) (xs : List Bytes) (a b : Nat) (hab : a ≤ b) (hb : b ≤ xs.length)
    (step : Option Int) (hstep : step = none ∨ step = some 1) (i : Nat) (hi : i < xs.length) :
    getIndexed .asFound writeable (offsets xs) xs.flatten (.slice (some (a : Int)) (some (b : Int)) step)
      = (match pySliceG xs (some (a : Int)) (some (b : Int)) step with
         | .ok ys => .ok (.rows (ys.map some))
         | .error e => .error e) ∧
    getIndexed .asFound writeable (offsets xs) xs.flatten (.int (i : Int))
      = (match pyIndex xs (i : Int) with
         | .ok x => .ok (.entry x)
         | .error _ => .error (.valueError "Index is out of range")) := by
  constructor
  · have hsame : pySliceG xs (some (a : Int)) (some (b : Int)) step = pySliceG xs (some (a : Int)) (some (b : Int)) none := by
      rcases hstep with h | h <;> subst h <;> rfl
    rw [hsame, pySliceG_nat]
    simp only [getIndexed, getSliceAsFound_nat, getSlice_wellformed writeable xs a b hab hb]
  · have h1 := pyIndex_in_range xs (i : Int) (by omega) (by omega)
    rw [h1]
    simp only [getIndexed, getIntAsFound_nat, getItem_wellformed xs i hi]
    have e : ¬ ((i : Int) < 0) := by omega
    simp only [e, if_false, Int.toNat_natCast]

example : (1 : Nat) ≤ 3 ∧ 3 ≤ [[97], [], [98, 99], [100]].length ∧ ((some 1 : Option Int) = none ∨ (some 1 : Option Int) = some 1) := by
  decide

/-- An HDF5-backed plain array as found answers every item except a slice with a negative step as numpy does.
    (Full statement: `plain_read_any`, which needs NC01c; `Witness.C01.nc01c_negative_step_refused`.) -/
theorem h5_read_asFound_partial {α} (xs : List α) (item : Item)
    (hstep : ∀ start stop st, item = .slice start stop (some st) → 0 ≤ st) :
    h5Get .asFound xs item = numpyGet xs item := by
  cases item with
  | int i => rfl
  | slice start stop step =>
    cases step with
    | none => rfl
    | some st =>
      have := hstep start stop st rfl
      have hn : ¬ (st < 0) := by omega
      simp only [h5Get, hn, if_false]

example : ∀ start stop st, (Item.slice (some 1) none (some 2)) = .slice start stop (some st) → 0 ≤ st := by
  intro _ _ st h; injection h with _ _ h; injection h with h; omega

end Exetera.Props.C01
