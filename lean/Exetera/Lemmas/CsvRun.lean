import Exetera.Lemmas.CsvStep
/-! Runs of bytes inside one cell (C05): bare text, and the content of a quoted cell. -/
namespace Exetera.Csv
open Exetera

/-- iterations of the kernel loop -/
abbrev KSteps (src : Bytes) (offs : List Nat) (maxrow : Nat) := StepsN kguard (step src offs maxrow)

/-- `bs` is stored in `vals` from position `off` on -/
def At (vals : List Nat) (off : Nat) (bs : Bytes) : Prop := ∀ k, k < bs.length → vals[off + k]? = bs[k]?

/-- `vals'` is `vals` with `w` written at `p` -/
structure Wrote (vals vals' : List Nat) (p : Nat) (w : Bytes) : Prop where
  len : vals'.length = vals.length
  at_ : At vals' p w
  frame : ∀ i, (i < p ∨ p + w.length ≤ i) → vals'[i]? = vals[i]?

theorem Wrote.nil (vals : List Nat) (p : Nat) : Wrote vals vals p [] :=
  ⟨rfl, fun k hk => by simp at hk, fun _ _ => rfl⟩

theorem Wrote.set_cons {vals v2 : List Nat} {p : Nat} {b : Nat} {w : Bytes} (hp : p < vals.length)
    (h : Wrote (vals.set p b) v2 (p + 1) w) : Wrote vals v2 p (b :: w) := by
  refine ⟨by simpa using h.len, ?_, ?_⟩
  · intro k hk
    cases k with
    | zero =>
      have := h.frame p (Or.inl (by omega))
      simp [this, hp]
    | succ k =>
      have := h.at_ k (by simpa using hk)
      simpa [Nat.add_assoc, Nat.add_comm 1 k] using this
  · intro i hi
    have := h.frame i (by simp at hi; omega)
    rw [this, List.getElem?_set]
    have : p ≠ i := by simp at hi; omega
    simp [this]

theorem Wrote.snoc {vals v1 : List Nat} {p : Nat} {b : Nat} {w : Bytes} (h : Wrote vals v1 p w)
    (hp : p + w.length < vals.length) : Wrote vals (v1.set (p + w.length) b) p (w ++ [b]) := by
  have hl := h.len
  refine ⟨by simpa using hl, ?_, ?_⟩
  · intro k hk
    simp at hk
    rw [List.getElem?_set]
    by_cases hkw : k = w.length
    · subst hkw
      simp [hl, hp]
    · have : p + w.length ≠ p + k := by omega
      simp only [this, if_false]
      rw [h.at_ k (by omega), List.getElem?_append_left (by omega)]
  · intro i hi
    simp at hi
    rw [List.getElem?_set]
    have : p + w.length ≠ i := by omega
    simp only [this, if_false]
    exact h.frame i (by omega)

theorem ctx_eq {s s' : KS} (h : s'.ctx = s.ctx) :
    s'.nextPos = s.nextPos ∧ s'.col = s.col ∧ s'.hdr = s.hdr ∧ s'.row = s.row ∧ s'.vfc = s.vfc ∧ s'.cstart = s.cstart ∧
    s'.ics = s.ics ∧ s'.indsFull = s.indsFull ∧ s'.valsFull = s.valsFull ∧ s'.colOff = s.colOff ∧ s'.colCnt = s.colCnt ∧
    s'.inds = s.inds := by
  simpa [KS.ctx, Prod.ext_iff] using h

/-- what a run of written bytes does to the cell under construction: nothing while the header is read (`hdr`),
    otherwise `w` is appended at `colOff + cstart + count` -/
def RunEffect (s s' : KS) (w : Bytes) : Prop :=
  s'.ctx = s.ctx ∧ s'.done = false ∧
  (if s.hdr then s'.count = s.count ∧ s'.vals = s.vals
   else s'.count = s.count + w.length ∧ Wrote s.vals s'.vals (s.colOff + s.cstart + s.count) w)

/-- room for `n` more bytes in the current cell -/
def Room (s : KS) (n : Nat) : Prop :=
  s.hdr = false → s.colOff + s.cstart + s.count + n ≤ s.vals.length ∧ s.cstart + s.count + n < s.colCnt

/-- a run of bare text (no quote, separator or line break), something still following it -/
theorem run_plain {src : Bytes} {offs : List Nat} {maxrow : Nat} (w : Bytes) :
    ∀ (A R : Bytes) (s : KS), src = A ++ (w ++ R) → R ≠ [] → s.index = A.length → s.done = false →
      s.indsFull = false → s.valsFull = false →
      (∀ b ∈ w, b ≠ QUOTE ∧ b ≠ SEP ∧ b ≠ NL) → Room s w.length →
      ∃ n s', KSteps src offs maxrow n s s' ∧ s'.index = A.length + w.length ∧ s'.escaped = s.escaped ∧ s'.cand = s.cand ∧
        RunEffect s s' w := by
  induction w with
  | nil =>
    intro A R s _ _ hi hd _ _ _ _
    refine ⟨0, s, .refl _, by simpa using hi, rfl, rfl, rfl, hd, ?_⟩
    cases s.hdr <;> simp [Wrote.nil]
  | cons b w ih =>
    intro A R s hsrc hR hi hd hif hvf hw hroom
    have hb := hw b (by simp)
    have hc : src[s.index]? = some b := by
      rw [hsrc, hi, getElem?_append_len0]; simp
    have hlen : s.index + 1 < src.length := by
      rw [hsrc, hi]
      have : 0 < R.length := List.length_pos_iff.mpr hR
      simp; omega
    obtain ⟨s1, hstep, hi1, he1, hc1, hd1, hctx1, hcnt1, hv1⟩ :=
      step_write (offs := offs) (maxrow := maxrow) hc (lex_plain hb.2.1 hb.2.2 hb.1) hlen hif hvf
        (by intro hh; have := hroom hh; simp at this; omega)
    obtain ⟨_, _, hh1, _, _, hcs1, _, hif1, hvf1, hco1, hcc1, _⟩ := ctx_eq hctx1
    have hsrc1 : src = (A ++ [b]) ++ (w ++ R) := by simp [hsrc]
    obtain ⟨n, s2, hsteps, hi2, he2, hc2, hctx2, hd2, heff⟩ :=
      ih (A ++ [b]) R s1 hsrc1 hR (by simp [hi1, hi]) hd1 (by rw [hif1, hif]) (by rw [hvf1, hvf])
        (fun x hx => hw x (by simp [hx]))
        (by
          intro hh
          rw [hh1] at hh
          have := hroom hh
          simp [hh] at hcnt1 hv1
          rw [hcs1, hco1, hcc1, hcnt1, hv1]
          simp at this ⊢
          omega)
    refine ⟨n + 1, s2, ?_, by simp [hi2]; omega, by rw [he2, he1], by rw [hc2, hc1], by rw [hctx2, hctx1], hd2, ?_⟩
    · have := StepsN.trans (StepsN.one (g := kguard) (by simp [kguard, hd]) hstep) hsteps
      rwa [Nat.add_comm] at this
    · rw [hh1] at heff
      cases hh : s.hdr with
      | true =>
        simp [hh] at heff hcnt1 hv1 ⊢
        exact ⟨by rw [heff.1, hcnt1], by rw [heff.2, hv1]⟩
      | false =>
        simp [hh] at heff hcnt1 hv1 ⊢
        refine ⟨by rw [heff.1, hcnt1]; omega, ?_⟩
        have hroom' := hroom hh
        simp at hroom'
        apply Wrote.set_cons (by omega)
        have := heff.2
        rw [hv1, hco1, hcs1, hcnt1] at this
        simpa [Nat.add_assoc] using this

theorem runEffect_cons {s s1 s2 : KS} {b : Nat} {w : Bytes} (hctx1 : s1.ctx = s.ctx)
    (hcnt1 : s1.count = if s.hdr then s.count else s.count + 1)
    (hv1 : s1.vals = if s.hdr then s.vals else s.vals.set (s.colOff + s.cstart + s.count) b)
    (hroom : Room s (w.length + 1)) (h2 : RunEffect s1 s2 w) : RunEffect s s2 (b :: w) := by
  obtain ⟨_, _, hh1, _, _, hcs1, _, _, _, hco1, _, _⟩ := ctx_eq hctx1
  obtain ⟨hctx2, hd2, heff⟩ := h2
  refine ⟨by rw [hctx2, hctx1], hd2, ?_⟩
  rw [hh1] at heff
  cases hh : s.hdr with
  | true =>
    simp [hh] at heff hcnt1 hv1 ⊢
    exact ⟨by rw [heff.1, hcnt1], by rw [heff.2, hv1]⟩
  | false =>
    simp [hh] at heff hcnt1 hv1 ⊢
    refine ⟨by rw [heff.1, hcnt1]; omega, ?_⟩
    have hroom' := hroom hh
    apply Wrote.set_cons (by omega)
    have := heff.2
    rw [hv1, hco1, hcs1, hcnt1] at this
    simpa [Nat.add_assoc] using this

open Spec in
/-- the content of a quoted cell: every byte is written, a doubled quote once; the closing quote still follows -/
theorem run_quoted {src : Bytes} {offs : List Nat} {maxrow : Nat} (w : Bytes) :
    ∀ (A R : Bytes) (s : KS), src = A ++ (escape w ++ R) → R ≠ [] → s.index = A.length → s.done = false →
      s.indsFull = false → s.valsFull = false → s.escaped = true → s.cand = false → Room s w.length →
      ∃ n s', KSteps src offs maxrow n s s' ∧ s'.index = A.length + (escape w).length ∧ s'.escaped = true ∧ s'.cand = false ∧
        RunEffect s s' w := by
  induction w with
  | nil =>
    intro A R s _ _ hi hd _ _ he hcd _
    refine ⟨0, s, .refl _, by simpa [escape] using hi, he, hcd, rfl, hd, ?_⟩
    cases s.hdr <;> simp [Wrote.nil]
  | cons b w ih =>
    intro A R s hsrc hR hi hd hif hvf he hcd hroom
    have hRpos : 0 < R.length := List.length_pos_iff.mpr hR
    by_cases hb : b = QUOTE
    · -- a doubled quote: the first one only sets the candidate flag, the second one is written
      subst hb
      have hsrc' : src = A ++ (QUOTE :: QUOTE :: (escape w ++ R)) := by simp [hsrc, escape]
      have hc : src[s.index]? = some QUOTE := by rw [hsrc', hi, getElem?_append_len0]; simp
      have hnx : src[s.index + 1]? = some QUOTE := by rw [hsrc', hi, getElem?_append_len]; simp
      have hlen : s.index + 1 < src.length := by rw [hsrc', hi]; simp
      obtain ⟨s1, hstep1, hi1, he1, hc1, hd1, hctx1, hcnt1, hv1⟩ :=
        step_skip (offs := offs) (maxrow := maxrow) hc (by rw [hnx, he, hcd]; exact lex_pair1 _) hlen hif hvf
      obtain ⟨_, _, hh1, _, _, hcs1, _, hif1, hvf1, hco1, hcc1, _⟩ := ctx_eq hctx1
      have hc' : src[s1.index]? = some QUOTE := by rw [hi1, hnx]
      have hlen1 : s1.index + 1 < src.length := by rw [hi1, hsrc', hi]; simp; omega
      obtain ⟨s2, hstep2, hi2, he2, hc2, hd2, hctx2, hcnt2, hv2⟩ :=
        step_write (offs := offs) (maxrow := maxrow) hc' (by rw [he1, hc1]; exact lex_pair2 _ _) hlen1
          (by rw [hif1, hif]) (by rw [hvf1, hvf])
          (by
            intro hh
            rw [hh1] at hh
            have := hroom hh
            rw [hco1, hcs1, hcc1, hcnt1, hv1]
            simp at this ⊢
            omega)
      obtain ⟨_, _, hh2, _, _, hcs2, _, hif2, hvf2, hco2, hcc2, _⟩ := ctx_eq hctx2
      have hsrc2 : src = (A ++ [QUOTE, QUOTE]) ++ (escape w ++ R) := by simp [hsrc']
      have hctx12 : s2.ctx = s.ctx := by rw [hctx2, hctx1]
      have hroom2 : Room s2 w.length := by
        intro hh
        rw [hh2, hh1] at hh
        have := hroom hh
        simp [hh1, hh] at hcnt2 hv2
        rw [hcs2, hco2, hcc2, hcnt2, hv2, hcs1, hco1, hcc1, hcnt1, hv1]
        simp at this ⊢
        omega
      obtain ⟨n, s3, hsteps, hi3, he3, hc3, heff⟩ :=
        ih (A ++ [QUOTE, QUOTE]) R s2 hsrc2 hR (by simp [hi2, hi1, hi]) hd2 (by rw [hif2, hif1, hif])
          (by rw [hvf2, hvf1, hvf]) he2 hc2 hroom2
      refine ⟨n + 2, s3, ?_, by simp [hi3, escape]; omega, he3, hc3, ?_⟩
      · have h12 := StepsN.trans (StepsN.one (g := kguard) (by simp [kguard, hd]) hstep1)
          (StepsN.one (g := kguard) (by simp [kguard, hd1]) hstep2)
        have := StepsN.trans h12 hsteps
        rwa [Nat.add_comm] at this
      · apply runEffect_cons hctx12 (by rw [hcnt2, hh1, hcnt1]) (by rw [hv2, hh1, hv1, hco1, hcs1, hcnt1]) hroom heff
    · have hsrc' : src = A ++ (b :: (escape w ++ R)) := by simp [hsrc, escape, hb]
      have hc : src[s.index]? = some b := by rw [hsrc', hi, getElem?_append_len0]; simp
      have hlen : s.index + 1 < src.length := by rw [hsrc', hi]; simp; omega
      obtain ⟨s1, hstep1, hi1, he1, hc1, hd1, hctx1, hcnt1, hv1⟩ :=
        step_write (offs := offs) (maxrow := maxrow) hc (by rw [he]; exact lex_esc_nonquote hb) hlen hif hvf
          (by intro hh; have := hroom hh; simp at this; omega)
      obtain ⟨_, _, hh1, _, _, hcs1, _, hif1, hvf1, hco1, hcc1, _⟩ := ctx_eq hctx1
      have hsrc1 : src = (A ++ [b]) ++ (escape w ++ R) := by simp [hsrc']
      have hroom1 : Room s1 w.length := by
        intro hh
        rw [hh1] at hh
        have := hroom hh
        simp [hh] at hcnt1 hv1
        rw [hcs1, hco1, hcc1, hcnt1, hv1]
        simp at this ⊢
        omega
      obtain ⟨n, s2, hsteps, hi2, he2, hc2, heff⟩ :=
        ih (A ++ [b]) R s1 hsrc1 hR (by simp [hi1, hi]) hd1 (by rw [hif1, hif]) (by rw [hvf1, hvf]) he1
          (by rw [hc1, hcd]) hroom1
      refine ⟨n + 1, s2, ?_, by simp [hi2, escape, hb]; omega, he2, hc2, ?_⟩
      · have := StepsN.trans (StepsN.one (g := kguard) (by simp [kguard, hd]) hstep1) hsteps
        rwa [Nat.add_comm] at this
      · exact runEffect_cons hctx1 hcnt1 hv1 hroom heff

end Exetera.Csv
