import Exetera.Gen.Kernels
import Exetera.Model.JoinOld
import Exetera.Lemmas.While
import Exetera.Lemmas.GenKernels
/-!
  The TRANSLATED generator `chunks(length, chunksize)` (the chunk ranges every legacy streamed driver iterates over) against the
  hand model `JoinOld.nextRange` (`next(it)` on the generator whose next chunk starts at `cur`).

  A generator is translated as the function that returns the lists of the values it yields until exhaustion (`y0` = the starts,
  `y1` = the ends). `chunkList` iterates `nextRange`; `chunks_run_eq`: for `chunksize ≥ 1` the translated generator yields
  exactly `chunksOf length chunksize`, within `length` iterations; `chunkList_partition` / `chunkList_bounds`: the ranges are
  consecutive, non-empty, at most `chunksize` long and cover `[0, length)` exactly.
-/
namespace Exetera.GenK

open Exetera Exetera.PyRt Exetera.Gen.Kernels Exetera.JoinOld

/-- the ranges `next(it)` returns one after the other, from the generator position `cur` (at most `n` of them) -/
def chunkList (len cs : Nat) : Nat → Nat → List (Nat × Nat)
  | 0, _ => []
  | n + 1, cur =>
    match nextRange cur len cs with
    | none => []
    | some (a, b) => (a, b) :: chunkList len cs n b

/-- `list(chunks(length, chunksize))` -/
def chunksOf (len cs : Nat) : List (Nat × Nat) := chunkList len cs len 0

namespace Chunks

abbrev St := chunks.St

abbrev mk (len cs cur nxt : Int) (y0 y1 : List Int) : St := ⟨len, cs, cur, nxt, y0, y1⟩

theorem loop (len cs : Nat) (hcs : 1 ≤ cs) :
    ∀ (n cur : Nat) (nxt : Int) (y0 y1 : List Int), len - cur ≤ n →
      ∃ s', whileE chunks.guard_L1 chunks.body_L1 n (mk len cs cur nxt y0 y1) = .ok s' ∧
        s'.y0 = y0 ++ (chunkList len cs n cur).map (fun p => (p.1 : Int)) ∧
        s'.y1 = y1 ++ (chunkList len cs n cur).map (fun p => (p.2 : Int)) := by
  intro n
  induction n with
  | zero =>
    intro cur nxt y0 y1 h
    have hg : chunks.guard_L1 (mk len cs cur nxt y0 y1) = false := by
      simp only [chunks.guard_L1, decide_eq_false_iff_not]; omega
    exact ⟨mk len cs cur nxt y0 y1, by simp [whileE, hg], by simp [chunkList], by simp [chunkList]⟩
  | succ n ih =>
    intro cur nxt y0 y1 h
    by_cases hlt : cur < len
    · have hg : chunks.guard_L1 (mk len cs cur nxt y0 y1) = true := by
        simp only [chunks.guard_L1, decide_eq_true_eq]; omega
      have hmin : min (len : Int) ((cur : Int) + (cs : Int)) = ((min len (cur + cs) : Nat) : Int) := by omega
      have hb : chunks.body_L1 (mk len cs cur nxt y0 y1)
          = .ok (mk len cs ((min len (cur + cs) : Nat) : Int) ((min len (cur + cs) : Nat) : Int)
              (y0 ++ [(cur : Int)]) (y1 ++ [((min len (cur + cs) : Nat) : Int)])) := by
        simp only [chunks.body_L1, hmin]
      obtain ⟨s', hw, h0, h1⟩ := ih (min len (cur + cs)) ((min len (cur + cs) : Nat) : Int) (y0 ++ [(cur : Int)])
        (y1 ++ [((min len (cur + cs) : Nat) : Int)]) (by omega)
      refine ⟨s', by rw [whileE, hg, if_pos rfl, hb]; exact hw, ?_, ?_⟩
      · rw [h0]; simp [chunkList, nextRange, hlt]
      · rw [h1]; simp [chunkList, nextRange, hlt]
    · have hg : chunks.guard_L1 (mk len cs cur nxt y0 y1) = false := by
        simp only [chunks.guard_L1, decide_eq_false_iff_not]; omega
      exact ⟨mk len cs cur nxt y0 y1, by simp [whileE, hg], by simp [chunkList, nextRange, hlt],
        by simp [chunkList, nextRange, hlt]⟩

end Chunks

/-- **the translated generator**: for `chunksize ≥ 1` it is exhausted within `length` iterations and yields exactly the ranges
    `chunksOf length chunksize` (starts, ends) -/
theorem chunks_run_eq (len cs : Nat) (hcs : 1 ≤ cs) (fuel : Nat) (hf : len ≤ fuel) :
    chunks.run (len : Int) (cs : Int) fuel
      = .ok ((chunksOf len cs).map (fun p => (p.1 : Int)), (chunksOf len cs).map (fun p => (p.2 : Int))) := by
  obtain ⟨s', hw, h0, h1⟩ := Chunks.loop len cs hcs len 0 0 [] [] (by omega)
  have hw' := whileE_mono _ _ _ _ _ hw fuel hf
  unfold chunks.run
  simp only [Chunks.mk, Int.natCast_zero] at hw'
  simp only [hw', bindE_ok, h0, h1, chunksOf, List.nil_append]

/-- a length that is not positive: nothing is yielded, whatever the chunk size -/
theorem chunks_run_empty (len cs : Int) (hlen : len ≤ 0) (fuel : Nat) : chunks.run len cs fuel = .ok ([], []) := by
  have hg : chunks.guard_L1 ⟨len, cs, 0, 0, [], []⟩ = false := by
    simp only [chunks.guard_L1, decide_eq_false_iff_not]; omega
  unfold chunks.run
  cases fuel <;> simp [whileE, hg]

/-- the ranges are consecutive and cover `[cur, length)`: concatenating the row numbers of the ranges gives `cur, …, length - 1` -/
theorem chunkList_partition (len cs : Nat) (hcs : 1 ≤ cs) :
    ∀ (n cur : Nat), cur ≤ len → len - cur ≤ n →
      (chunkList len cs n cur).flatMap (fun p => List.range' p.1 (p.2 - p.1)) = List.range' cur (len - cur) := by
  intro n
  induction n with
  | zero =>
    intro cur _ h
    have : len - cur = 0 := by omega
    simp [chunkList, this]
  | succ n ih =>
    intro cur hle h
    by_cases hlt : cur < len
    · have := ih (min len (cur + cs)) (by omega) (by omega)
      simp only [chunkList, nextRange, hlt, if_true, List.flatMap_cons, this]
      have e : len - cur = (min len (cur + cs) - cur) + (len - min len (cur + cs)) := by omega
      have e2 : min len (cur + cs) = cur + (min len (cur + cs) - cur) := by omega
      rw [e]
      conv => lhs; arg 2; rw [e2]
      rw [List.range'_append_1]
      congr 1
      omega
    · have : len - cur = 0 := by omega
      simp [chunkList, nextRange, hlt, this]

/-- every range is non-empty, at most `chunksize` long and inside the column -/
theorem chunkList_bounds (len cs : Nat) (hcs : 1 ≤ cs) :
    ∀ (n cur : Nat) (p : Nat × Nat), p ∈ chunkList len cs n cur → cur ≤ p.1 ∧ p.1 < p.2 ∧ p.2 ≤ p.1 + cs ∧ p.2 ≤ len := by
  intro n
  induction n with
  | zero => intro cur p h; simp [chunkList] at h
  | succ n ih =>
    intro cur p h
    by_cases hlt : cur < len
    · simp only [chunkList, nextRange, hlt, if_true, List.mem_cons] at h
      rcases h with rfl | h
      · simp only; omega
      · have := ih _ p h
        omega
    · simp [chunkList, nextRange, hlt] at h

end Exetera.GenK
