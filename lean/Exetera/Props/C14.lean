import Exetera.Model.Unique
import Exetera.Spec.Unique
import Exetera.Lemmas.UniqueOrder
import Exetera.Lemmas.UniqueIsin
import Exetera.Lemmas.UniquePost
import Exetera.Lemmas.UniqueSpecFacts
/-!
  C14 — `isin` and `unique` have exact set semantics (indexed strings: proved about the model the driver runs;
  non-indexed field types are numpy calls, i.e. parameters of `applyIsin` / `applyUnique`, tied by the harness only).

  Notation: `encode col = (indices, values)` is the stored form of the column whose rows are the byte strings `col`;
  `bytesLe` / `lexCmp` the lexicographic order of UTF-8 bytes; `Spec.isin`, `Spec.uniques`, `Spec.uniqueIndex`,
  `Spec.uniqueInverse`, `Spec.uniqueCounts` the specification (Spec/Unique.lean).
-/
namespace Exetera.Props.C14
open Exetera Exetera.Unique Exetera.Spec

/-! ## compare_arrays -/

/-- `compare_arrays(a, b)` reads no subscript out of range and returns the three-way lexicographic comparison -/
theorem compare_arrays_is_lex (a b : Bytes) : compareArrays a b = .ok (lexCmp a b) := compareArrays_eq a b

example : compareArrays [97, 98] [97] = .ok 1 ∧ compareArrays [97] [195, 169] = .ok (-1) ∧ compareArrays [] [] = .ok 0 := by
  simp [compare_arrays_is_lex, lexCmp]

/-- `lexCmp` is a total order on byte strings: values in {-1,0,1}, `0` exactly on equal strings, antisymmetric,
    transitive -/
theorem lexCmp_total_order (a b c : Bytes) :
    (lexCmp a b = -1 ∨ lexCmp a b = 0 ∨ lexCmp a b = 1) ∧ (lexCmp a b = 0 ↔ a = b) ∧
    lexCmp b a = - lexCmp a b ∧ (lexCmp a b ≤ 0 → lexCmp b c ≤ 0 → lexCmp a c ≤ 0) :=
  ⟨lexCmp_range a b, lexCmp_eq_zero, lexCmp_swap a b, lexCmp_le_trans a b c⟩

/-- … and it is Lean's own lexicographic order `<` on `List UInt8` (a proper prefix is smaller) -/
theorem lexCmp_lt_iff (a b : Bytes) : lexCmp a b = -1 ↔ a < b := by
  fun_induction lexCmp a b with
  | case1 => simp
  | case2 => simp
  | case3 => simp
  | case4 x xs y ys h => simp only [true_iff]; exact List.cons_lt_cons_iff.mpr (Or.inl h)
  | case5 x xs y ys h1 h2 =>
    have hne : x ≠ y := fun e => by subst e; exact UInt8.lt_irrefl _ h2
    simp [List.cons_lt_cons_iff, h1, hne]
  | case6 x xs y ys h1 h2 ih =>
    have : x = y := UInt8.le_antisymm (UInt8.not_lt.mp h2) (UInt8.not_lt.mp h1)
    subst this
    simp [ih]

example : lexCmp [97] [97, 98] = -1 ∧ ([97] : Bytes) < [97, 98] := by
  constructor
  · decide
  · exact (lexCmp_lt_iff _ _).mp (by decide)

/-! ## isin -/

/-- on a sorted test list the binary search terminates within `len(tests)` iterations, reads no subscript out of
    range and finds `v` iff `v ∈ tests` -/
theorem binary_search_complete (tests : List Bytes) (v : Bytes) (hs : SortedLe tests) :
    isinRow tests v = .ok (decide (v ∈ tests)) := isinRow_eq tests v hs

example : SortedLe [[], [97], [97, 98], [98]] := by
  simp [SortedLe, bytesLe, lexCmp]

/-- **isin_eq_mem**: `Field.isin(tests)` on an indexed string column (through `apply_isin`,
    `isin_for_indexed_string_field`, the sort, and the binary-search kernel) returns, for every row, whether the row's value
    is a member of `tests` (`None` entries ignored) — for every column, every test list in any order, with duplicates,
    with strings ending in U+0000 (fix NC14b) -/
theorem isin_eq_mem (col : List Bytes) (ts : List (Option Bytes)) :
    applyIsin refNpIsin id (.indexed (encode col).1 (encode col).2) (some ts)
      = .ok (Spec.isin col (ts.filterMap id)) := by
  have hmap : (ts.map (fun t => t.map id)) = ts := by simp
  simp only [applyIsin, Option.map_some, hmap, isinForIndexedString]
  split
  · rename_i h
    have h0 : ts.filterMap id = [] := List.eq_nil_of_length_eq_zero (by simpa using h)
    simp [h0, Spec.isin, encode_rows, List.map_const']
  · rw [isinSpeedup_encode _ col (sortedStr_sorted _)]
    simp only [Spec.isin]
    congr 1
    apply List.map_congr_left
    intro x _
    rw [Bool.eq_iff_iff]; simp [mem_sortedStr]

/-- the Spec says what the property says: row `r` is `true` iff the row's value is a member of the test set -/
theorem isin_row_iff {α : Type} [BEq α] [LawfulBEq α] (col tests : List α) (r : Nat) (h : r < col.length) :
    (Spec.isin col tests)[r]'(by simpa [Spec.isin] using h) = true ↔ col[r] ∈ tests := by
  simp [Spec.isin]

/-- `isin(None)` on an indexed string field is the explicit `TypeError` -/
theorem isin_none_raises (indices : List Nat) (values : Bytes) :
    applyIsin (α := Bytes) refNpIsin id (.indexed indices values) none = .error (.typeError "isin: NoneType") := rfl

example : applyIsin refNpIsin id (.indexed (encode [[98], [], [195, 169], [97, 98]]).1 (encode [[98], [], [195, 169], [97, 98]]).2)
    (some [some [195, 169], none, some [], some [97]]) = .ok [false, true, true, false] := by
  rw [isin_eq_mem]; exact congrArg _ (by decide)

/-! ## unique -/

/-- **unique = Spec** (functional correctness of `get_indexed_string_unique` + `unique_for_indexed_string` with fix
    D21, through `apply_unique`): for every column none of whose strings ends in U+0000 and every combination of the
    three flags, the call reads no subscript out of range and returns exactly the sorted distinct values and, for the
    requested flags, `uniqueIndex`, `uniqueInverse`, `uniqueCounts`.

    Full statement (without `hn`) is FALSE for the code as it stands — finding NC14a, `Witness.C14`:
      theorem unique_eq_spec (col) (ri rv rc) :
        applyUnique (refNpUnique bytesLe) id (.indexed (encode col).1 (encode col).2) ri rv rc
          = .ok (refNpUnique bytesLe col ri rv rc)
    What is missing: numpy's `<U` result array cannot hold trailing U+0000 (API-level limitation). -/
theorem unique_eq_spec_partial (col : List Bytes) (hn : NoTrailingNul col) (ri rv rc : Bool) :
    applyUnique (refNpUnique bytesLe) id (.indexed (encode col).1 (encode col).2) ri rv rc
      = .ok (refNpUnique bytesLe col ri rv rc) := by
  simp only [applyUnique, uniqueForIndexedString_encode col hn, List.map_id_fun, id_eq]

example : NoTrailingNul [[98], [99], [97], [98], [], [195, 169]] := by
  simp [NoTrailingNul]

/-- the D21 witness column `["b","c","a"]`: the repaired model returns inverse `[1,2,0]` (as found: `[2,0,1]`) -/
example : applyUnique (refNpUnique bytesLe) id (.indexed (encode [[98], [99], [97]]).1 (encode [[98], [99], [97]]).2) true true true
    = .ok ⟨[[97], [98], [99]], some [2, 0, 1], some [1, 2, 0], some [1, 1, 1]⟩ := by
  rw [unique_eq_spec_partial _ (by simp [NoTrailingNul])]; exact congrArg _ (by decide)

/-- the kernel alone: distinct values in discovery order, first rows, row → discovery position, counts; no
    out-of-bounds access (this part needs no hypothesis on U+0000) -/
theorem unique_kernel_discovery_order (col : List Bytes) (ri rv rc : Bool) :
    getIndexedStringUnique (encode col).1 (encode col).2 ri rv rc = .ok (discOut ri rv rc col) :=
  getIndexedStringUnique_encode ri rv rc col

example : discOut true true true [[98], [99], [97], [98]]
    = ⟨[[98], [99], [97]], some [0, 1, 2], some [0, 1, 2, 0], some [2, 1, 1]⟩ := by decide

/-! ### what the Spec's four results are, in the words of the property (any ordered value type) -/

section
variable {α : Type} [BEq α] [LawfulBEq α] {le : α → α → Bool}

/-- **unique_sorted_nodup_same_set**: strictly ascending (hence duplicate-free) and the same set as the column -/
theorem unique_sorted_nodup_same_set (ho : IsOrder le) (col : List α) :
    (uniques le col).Pairwise (fun a b => le a b = true ∧ a ≠ b) ∧ (uniques le col).Nodup ∧
    ∀ x, x ∈ uniques le col ↔ x ∈ col :=
  ⟨uniques_strict ho col, uniques_nodup ho col, mem_uniques col⟩

/-- **unique_index_first_occurrence**: entry `k` of the index is a row holding the `k`-th unique value, and no
    earlier row holds it -/
theorem unique_index_first_occurrence (col : List α) (k : Nat) (hk : k < (uniques le col).length) :
    ∃ (i : Nat) (hi : i < col.length), (uniqueIndex le col)[k]? = some i ∧ col[i] = (uniques le col)[k] ∧
      ∀ (j : Nat) (hj : j < col.length), j < i → col[j] ≠ (uniques le col)[k] := by
  have hmem : (uniques le col)[k] ∈ col := (mem_uniques col _).mp (List.getElem_mem hk)
  have hi : col.idxOf (uniques le col)[k] < col.length := List.idxOf_lt_length_iff.mpr hmem
  refine ⟨_, hi, by simp [uniqueIndex, hk], List.getElem_idxOf hi, ?_⟩
  intro j hj hlt
  exact not_eq_of_lt_idxOf col _ j hj hlt

/-- **unique_inverse_reconstructs**: `uniques[inverse[i]] = col[i]` for every row `i` -/
theorem unique_inverse_reconstructs (col : List α) (i : Nat) (hi : i < col.length) :
    ∃ (k : Nat) (hk : k < (uniques le col).length), (uniqueInverse le col)[i]? = some k ∧ (uniques le col)[k] = col[i] := by
  have hmem : col[i] ∈ uniques le col := (mem_uniques col _).mpr (List.getElem_mem hi)
  have hk : (uniques le col).idxOf col[i] < (uniques le col).length := List.idxOf_lt_length_iff.mpr hmem
  exact ⟨_, hk, by simp [uniqueInverse, hi], List.getElem_idxOf hk⟩

/-- **unique_counts_sum**: entry `k` counts the rows holding the `k`-th unique value, and the counts add up to the
    number of rows -/
theorem unique_counts_sum (ho : IsOrder le) (col : List α) :
    uniqueCounts le col = (uniques le col).map (fun u => col.count u) ∧ (uniqueCounts le col).sum = col.length :=
  ⟨rfl, sum_counts _ (uniques_nodup ho col) col (fun x hx => (mem_uniques col x).mpr hx)⟩

end

/-- the order used for strings satisfies the order axioms the four theorems above ask for -/
theorem bytesLe_is_order : IsOrder bytesLe := bytesLe_isOrder

example : uniques bytesLe [[98], [99], [97], [98]] = [[97], [98], [99]] ∧
    uniqueIndex bytesLe [[98], [99], [97], [98]] = [2, 0, 1] ∧
    uniqueInverse bytesLe [[98], [99], [97], [98]] = [1, 2, 0, 1] ∧
    uniqueCounts bytesLe [[98], [99], [97], [98]] = [1, 2, 1] := by decide

/-- the property for the model, all in one: for every column without trailing U+0000 and every flag combination the
    call succeeds, the uniques are strictly ascending and are the column's set of values, exactly the requested
    companions are returned, the index gives first occurrences, the inverse reconstructs the column and the counts
    are per-value occurrence counts adding up to the row count -/
theorem unique_properties_partial (col : List Bytes) (hn : NoTrailingNul col) (ri rv rc : Bool) :
    ∃ r, applyUnique (refNpUnique bytesLe) id (.indexed (encode col).1 (encode col).2) ri rv rc = .ok r ∧
      r.uniques.Pairwise (fun a b => bytesLe a b = true ∧ a ≠ b) ∧ (∀ x, x ∈ r.uniques ↔ x ∈ col) ∧
      r.index.isSome = ri ∧ r.inverse.isSome = rv ∧ r.counts.isSome = rc ∧
      (∀ idx, r.index = some idx → ∀ (k : Nat) (hk : k < r.uniques.length),
        ∃ (i : Nat) (hi : i < col.length), idx[k]? = some i ∧ col[i] = r.uniques[k] ∧
          ∀ (j : Nat) (hj : j < col.length), j < i → col[j] ≠ r.uniques[k]) ∧
      (∀ inv, r.inverse = some inv → ∀ (i : Nat) (hi : i < col.length),
        ∃ (k : Nat) (hk : k < r.uniques.length), inv[i]? = some k ∧ r.uniques[k] = col[i]) ∧
      (∀ cnt, r.counts = some cnt → cnt = r.uniques.map (fun u => col.count u) ∧ cnt.sum = col.length) := by
  refine ⟨_, unique_eq_spec_partial col hn ri rv rc, ?_⟩
  have h1 := unique_sorted_nodup_same_set bytesLe_isOrder col
  refine ⟨h1.1, h1.2.2, by cases ri <;> simp [refNpUnique], by cases rv <;> simp [refNpUnique],
    by cases rc <;> simp [refNpUnique], ?_, ?_, ?_⟩
  · intro idx hidx k hk
    cases ri <;> simp only [refNpUnique, if_true, Option.some.injEq] at hidx
    · cases hidx
    · subst hidx; exact unique_index_first_occurrence col k hk
  · intro inv hinv i hi
    cases rv <;> simp only [refNpUnique, if_true, Option.some.injEq] at hinv
    · cases hinv
    · subst hinv; exact unique_inverse_reconstructs col i hi
  · intro cnt hcnt
    cases rc <;> simp only [refNpUnique, if_true, Option.some.injEq] at hcnt
    · cases hcnt
    · subst hcnt; exact unique_counts_sum bytesLe_isOrder col

/-! ## degenerate storage and the non-indexed dispatch -/

/-- an indexed string field that was never written stores `indices = []` (not `[0]`, DESIGN D2): same results -/
theorem isin_empty_storage (ts : List (Option Bytes)) :
    applyIsin refNpIsin id (.indexed [] []) (some ts) = .ok [] := by
  simp only [applyIsin, Option.map_some, isinForIndexedString, isinSpeedup, List.length_nil, Nat.zero_sub, isinLoop,
    List.replicate_zero, ite_self]

theorem unique_empty_storage (ri rv rc : Bool) :
    applyUnique (refNpUnique bytesLe) id (.indexed [] []) ri rv rc
      = .ok ⟨[], if ri then some [] else none, if rv then some [] else none, if rc then some [] else none⟩ := by
  cases ri <;> cases rv <;> cases rc <;>
    simp [applyUnique, uniqueForIndexedString, getIndexedStringUnique, uniqueLoop, npSortStr, npArgsortStr, gatherOpt,
      gather, remapInverse]

/-- non-indexed field types: `apply_isin` / `apply_unique` are exactly the numpy call (a parameter of the model; the
    harness compares numpy with the Spec's reference semantics, no theorem speaks about numpy) -/
theorem apply_isin_plain_delegates {α : Type} (npIsin : List α → Option (List (Option α)) → Except Err (List Bool))
    (dec : α → Bytes) (data : List α) (tests : Option (List (Option α))) :
    applyIsin npIsin dec (.plain data) tests = npIsin data tests := rfl

theorem apply_unique_plain_delegates {α : Type} (npUnique : List α → Bool → Bool → Bool → UniqueResult α)
    (ofBytes : Bytes → α) (data : List α) (ri rv rc : Bool) :
    applyUnique npUnique ofBytes (.plain data) ri rv rc = .ok (npUnique data ri rv rc) := rfl

example : ∃ r, applyUnique (refNpUnique bytesLe) id
      (.indexed (encode [[98], [], [195, 169], [98]]).1 (encode [[98], [], [195, 169], [98]]).2) false true true = .ok r ∧
    r.uniques = [[], [98], [195, 169]] ∧ r.index = none ∧ r.inverse = some [1, 0, 2, 1] ∧ r.counts = some [1, 2, 1] := by
  refine ⟨_, unique_eq_spec_partial _ (by simp [NoTrailingNul]) false true true, ?_⟩
  decide

end Exetera.Props.C14
