import Exetera.Model.FilterIndex
import Exetera.Spec.FilterIndex
/-!
  `Session.dataset_sort_index`: iterated stable single-key sorts (least significant key first) equal ONE stable sort by the
  lexicographic order of the key tuples.
-/
namespace Exetera.FilterIndex
open Exetera Exetera.Spec

/-! ### one pass = a stable merge sort of the accumulated index by that key -/

theorem takeE_ok {α β} (xs : List α) (f : β → α) (g : β → Nat) (l : List β)
    (h : ∀ b ∈ l, xs[g b]? = some (f b)) : takeE xs (l.map g) = .ok (l.map f) := by
  induction l with
  | nil => simp [takeE]
  | cons b l ih =>
    have hb := h b (by simp)
    have ih' := ih (fun c hc => h c (by simp [hc]))
    simp only [List.map_cons, takeE, getE, hb, ih']

/-- the key of row `a` in column `r` (used only for rows inside the column) -/
def keyAt (r : List Int) (a : Nat) : Int := r.getD a 0

def leBy (r : List Int) (a b : Nat) : Bool := decide (keyAt r a ≤ keyAt r b)

theorem leBy_trans (r : List Int) : ∀ a b c, leBy r a b = true → leBy r b c = true → leBy r a c = true := by
  intro a b c; simp only [leBy, decide_eq_true_eq]; omega

theorem leBy_total (r : List Int) : ∀ a b, (leBy r a b || leBy r b a) = true := by
  intro a b; simp only [leBy, Bool.or_eq_true, decide_eq_true_eq]; omega

theorem getElem?_keyAt (r : List Int) (a : Nat) (h : a < r.length) : r[a]? = some (keyAt r a) := by
  simp [keyAt, List.getD, List.getElem?_eq_getElem h]

/-- `acc[argsort(raw[acc])]` is `acc` stably sorted by the key each element has in `raw` -/
theorem sortPass_eq (raw : List Int) (acc : List Nat) (h : ∀ a ∈ acc, a < raw.length) :
    sortPass raw acc = .ok (acc.mergeSort (leBy raw)) := by
  have h1 : takeE raw acc = .ok (acc.map (keyAt raw)) := by
    have := takeE_ok raw (keyAt raw) id acc (fun a ha => getElem?_keyAt raw a (h a ha))
    simpa using this
  -- the positions sorted by the value they hold
  let ws := acc.zipIdx
  let le' : Nat × Nat → Nat × Nat → Bool := fun p q => leBy raw p.1 q.1
  have h2 : argsortStable (acc.map (keyAt raw)) = (ws.mergeSort le').map (·.2) := by
    unfold argsortStable
    rw [List.zipIdx_map]
    rw [← List.map_mergeSort (r := le') (f := Prod.map (keyAt raw) id) (l := ws)]
    · simp [Function.comp_def]
    · intro a _ b _; rfl
  have h3 : takeE acc ((ws.mergeSort le').map (·.2)) = .ok ((ws.mergeSort le').map (·.1)) := by
    apply takeE_ok
    intro p hp
    rw [List.mem_mergeSort] at hp
    exact List.mem_zipIdx_iff_getElem?.mp hp
  have h4 : (ws.mergeSort le').map (·.1) = acc.mergeSort (leBy raw) := by
    rw [List.map_mergeSort (s := leBy raw) (f := Prod.fst)]
    · simp [ws, List.zipIdx_map_fst]
    · intro a _ b _; rfl
  simp only [sortPass, h1, bind, Except.bind, h2, h3, h4]

/-! ### stability as a refinement of the order the list already has -/

/-- ordered by `le`; where `le` ties, ordered by `T` -/
def Refine {α} (le : α → α → Bool) (T : α → α → Prop) (a b : α) : Prop :=
  le a b = true ∧ (le b a = true → T a b)

theorem pair_sublist_of_mem {α} {l : List α} {a b : α} (ha : a ∈ l) (hb : b ∈ l) (hab : a ≠ b) :
    [a, b].Sublist l ∨ [b, a].Sublist l := by
  induction l with
  | nil => simp at ha
  | cons x t ih =>
    by_cases hxa : x = a
    · subst hxa
      have : b ∈ t := by
        rcases List.mem_cons.mp hb with h | h
        · exact absurd h.symm hab
        · exact h
      exact Or.inl (List.Sublist.cons_cons _ (List.singleton_sublist.mpr this))
    · by_cases hxb : x = b
      · subst hxb
        have : a ∈ t := by
          rcases List.mem_cons.mp ha with h | h
          · exact absurd h.symm hxa
          · exact h
        exact Or.inr (List.Sublist.cons_cons _ (List.singleton_sublist.mpr this))
      · have ha' : a ∈ t := by
          rcases List.mem_cons.mp ha with h | h
          · exact absurd h.symm hxa
          · exact h
        have hb' : b ∈ t := by
          rcases List.mem_cons.mp hb with h | h
          · exact absurd h.symm hxb
          · exact h
        rcases ih ha' hb' with h | h
        · exact Or.inl (h.cons _)
        · exact Or.inr (h.cons _)

theorem pair_sublist_cons {α} {x a b : α} {t : List α} (h : [a, b].Sublist (x :: t)) :
    [a, b].Sublist t ∨ (x = a ∧ b ∈ t) := by
  cases h with
  | cons _ h => exact Or.inl h
  | cons_cons _ h => exact Or.inr ⟨rfl, List.singleton_sublist.mp h⟩

theorem pair_sublist_asymm {α} {l : List α} (hnd : l.Nodup) {a b : α}
    (h1 : [a, b].Sublist l) (h2 : [b, a].Sublist l) : False := by
  induction l with
  | nil => simp at h1
  | cons x t ih =>
    have hx : x ∉ t := (List.nodup_cons.mp hnd).1
    have ht : t.Nodup := (List.nodup_cons.mp hnd).2
    rcases pair_sublist_cons h1 with h1' | ⟨rfl, hb⟩
    · rcases pair_sublist_cons h2 with h2' | ⟨rfl, ha⟩
      · exact ih ht h1' h2'
      · exact hx (h1'.mem (by simp))
    · rcases pair_sublist_cons h2 with h2' | ⟨rfl, ha⟩
      · exact hx (h2'.mem (by simp))
      · exact hx ha

/-- a stable sort of a duplicate-free list that is already `T`-ordered is ordered by `le`, ties by `T` -/
theorem mergeSort_refines {α} (le : α → α → Bool)
    (trans : ∀ a b c, le a b = true → le b c = true → le a c = true)
    (total : ∀ a b, (le a b || le b a) = true)
    (l : List α) (hnd : l.Nodup) (T : α → α → Prop) (hT : l.Pairwise T) :
    (l.mergeSort le).Pairwise (Refine le T) := by
  have hperm := List.mergeSort_perm l le
  have hnd' : (l.mergeSort le).Nodup := (hperm.nodup_iff).mpr hnd
  have hsorted := List.pairwise_mergeSort trans total l
  rw [List.pairwise_iff_forall_sublist] at hsorted hT ⊢
  intro a b hab
  refine ⟨hsorted hab, fun hba => ?_⟩
  have ha : a ∈ l := hperm.subset (hab.mem (by simp))
  have hb : b ∈ l := hperm.subset (hab.mem (by simp))
  have hne : a ≠ b := by
    intro h; subst h
    have : ¬ [a, a].Nodup := by simp
    exact this (hnd'.sublist hab)
  rcases pair_sublist_of_mem ha hb hne with h | h
  · exact hT h
  · exact (pair_sublist_asymm hnd' hab (List.pair_sublist_mergeSort trans total hba h)).elim

/-! ### all passes -/

/-- the order produced by the passes `rs` (in this order) on a list ordered by `T` -/
def PassRel : List (List Int) → (Nat → Nat → Prop) → Nat → Nat → Prop
  | [], T => T
  | r :: rs, T => PassRel rs (Refine (leBy r) T)

theorem PassRel_append_singleton (rs : List (List Int)) (k : List Int) (T : Nat → Nat → Prop) :
    PassRel (rs ++ [k]) T = Refine (leBy k) (PassRel rs T) := by
  induction rs generalizing T with
  | nil => rfl
  | cons r rs ih => simp only [List.cons_append, PassRel, ih]

theorem sortPasses_spec (n : Nat) (rs : List (List Int)) (hrs : ∀ r ∈ rs, r.length = n)
    (acc : List Nat) (hacc : ∀ a ∈ acc, a < n) (hnd : acc.Nodup) (T : Nat → Nat → Prop) (hT : acc.Pairwise T) :
    ∃ out, sortPasses rs acc = .ok out ∧ out.Perm acc ∧ out.Pairwise (PassRel rs T) := by
  induction rs generalizing acc T with
  | nil => exact ⟨acc, rfl, List.Perm.refl _, hT⟩
  | cons r rs ih =>
    have hr : r.length = n := hrs r (by simp)
    have hp : sortPass r acc = .ok (acc.mergeSort (leBy r)) :=
      sortPass_eq r acc (fun a ha => by rw [hr]; exact hacc a ha)
    have hperm := List.mergeSort_perm acc (leBy r)
    obtain ⟨out, ho, hperm', hpw⟩ := ih (fun r' hr' => hrs r' (by simp [hr'])) (acc.mergeSort (leBy r))
      (fun a ha => hacc a (hperm.subset ha)) ((hperm.nodup_iff).mpr hnd) (Refine (leBy r) T)
      (mergeSort_refines (leBy r) (leBy_trans r) (leBy_total r) acc hnd T hT)
    exact ⟨out, by simp only [sortPasses, hp, ho], hperm'.trans hperm, hpw⟩

/-! ### the lexicographic reading of the pass order -/

/-- most significant key first: ordered by `k₁`, ties by `k₂`, …, remaining ties by row number -/
def KeyRel : List (List Int) → Nat → Nat → Prop
  | [] => fun a b => a < b
  | k :: ks => Refine (leBy k) (KeyRel ks)

theorem PassRel_reverse (keys : List (List Int)) :
    PassRel keys.reverse (fun a b => a < b) = KeyRel keys := by
  induction keys with
  | nil => rfl
  | cons k ks ih => rw [List.reverse_cons, PassRel_append_singleton, ih]; rfl

def lexRowLE (keys : List (List Int)) (a b : Nat) : Bool := lexLE (keyRow keys a) (keyRow keys b)

theorem keyRow_cons (k : List Int) (ks : List (List Int)) (a : Nat) (h : a < k.length) :
    keyRow (k :: ks) a = keyAt k a :: keyRow ks a := by
  simp [keyRow, getElem?_keyAt k a h]

theorem KeyRel_imp_lex (n : Nat) (keys : List (List Int)) (hk : ∀ k ∈ keys, k.length = n) (a b : Nat)
    (ha : a < n) (hb : b < n) (h : KeyRel keys a b) : Refine (lexRowLE keys) (fun a b => a < b) a b := by
  induction keys generalizing a b with
  | nil => exact ⟨by simp [lexRowLE, keyRow, lexLE], fun _ => h⟩
  | cons k ks ih =>
    have hkl : k.length = n := hk k (by simp)
    obtain ⟨h1, h2⟩ := h
    have ih' := ih (fun k' hk' => hk k' (by simp [hk']))
    simp only [leBy, decide_eq_true_eq] at h1 h2
    simp only [Refine, lexRowLE, keyRow_cons k ks a (by omega), keyRow_cons k ks b (by omega), lexLE,
      Bool.or_eq_true, decide_eq_true_eq, Bool.and_eq_true, beq_iff_eq]
    constructor
    · by_cases hlt : keyAt k a < keyAt k b
      · exact Or.inl hlt
      · have heq : keyAt k a = keyAt k b := by omega
        exact Or.inr ⟨heq, (ih' a b ha hb (h2 (by omega))).1⟩
    · intro hba
      rcases hba with hlt | ⟨heq, hle⟩
      · omega
      · exact (ih' a b ha hb (h2 (by omega))).2 hle

theorem lexLE_trans : ∀ (x y z : List Int), lexLE x y = true → lexLE y z = true → lexLE x z = true
  | [], _, _, _, _ => by simp [lexLE]
  | _ :: _, [], _, h, _ => by simp [lexLE] at h
  | _ :: _, _ :: _, [], _, h => by simp [lexLE] at h
  | a :: as, b :: bs, c :: cs, h1, h2 => by
    simp only [lexLE, Bool.or_eq_true, decide_eq_true_eq, Bool.and_eq_true, beq_iff_eq] at h1 h2 ⊢
    rcases h1 with h1 | ⟨e1, h1⟩
    · rcases h2 with h2 | ⟨e2, h2⟩
      · exact Or.inl (by omega)
      · exact Or.inl (by omega)
    · rcases h2 with h2 | ⟨e2, h2⟩
      · exact Or.inl (by omega)
      · exact Or.inr ⟨by omega, lexLE_trans as bs cs h1 h2⟩

theorem lexLE_total : ∀ (x y : List Int), (lexLE x y || lexLE y x) = true
  | [], _ => by simp [lexLE]
  | _ :: _, [] => by simp [lexLE]
  | a :: as, b :: bs => by
    have ih := lexLE_total as bs
    simp only [lexLE, Bool.or_eq_true, decide_eq_true_eq, Bool.and_eq_true, beq_iff_eq] at ih ⊢
    by_cases h1 : a < b
    · exact Or.inl (Or.inl h1)
    · by_cases h2 : b < a
      · exact Or.inr (Or.inl h2)
      · have : a = b := by omega
        rcases ih with ih | ih
        · exact Or.inl (Or.inr ⟨this, ih⟩)
        · exact Or.inr (Or.inr ⟨this.symm, ih⟩)

theorem keyRow_length (keys : List (List Int)) (a : Nat) : (keyRow keys a).length ≤ keys.length := by
  simp only [keyRow]; exact List.length_filterMap_le _ _

theorem sortPerm_eq_mergeSort (keys : List (List Int)) (n : Nat) :
    sortPerm keys n = (List.range n).mergeSort (lexRowLE keys) := rfl

/-- the spec permutation is ordered by key tuple, ties by row number -/
theorem sortPerm_refines (keys : List (List Int)) (n : Nat) :
    (sortPerm keys n).Pairwise (Refine (lexRowLE keys) (fun a b => a < b)) := by
  rw [sortPerm_eq_mergeSort]
  exact mergeSort_refines (lexRowLE keys) (fun a b c => lexLE_trans _ _ _) (fun a b => lexLE_total _ _)
    (List.range n) List.nodup_range _ List.pairwise_lt_range

theorem sortPasses_reverse_eq (keys : List (List Int)) (n : Nat) (hk : ∀ k ∈ keys, k.length = n) :
    sortPasses keys.reverse (List.range n) = .ok (sortPerm keys n) := by
  obtain ⟨out, ho, hperm, hpw⟩ := sortPasses_spec n keys.reverse (fun r hr => hk r (List.mem_reverse.mp hr))
    (List.range n) (fun a ha => List.mem_range.mp ha) List.nodup_range (fun a b => a < b) List.pairwise_lt_range
  rw [PassRel_reverse] at hpw
  have hmem : ∀ a ∈ out, a < n := fun a ha => List.mem_range.mp (hperm.subset ha)
  have hpw' : out.Pairwise (Refine (lexRowLE keys) (fun a b => a < b)) :=
    hpw.imp_of_mem (fun {a b} ha hb h => KeyRel_imp_lex n keys hk a b (hmem a ha) (hmem b hb) h)
  have hperm2 : out.Perm (sortPerm keys n) := by
    rw [sortPerm_eq_mergeSort]
    exact hperm.trans (List.mergeSort_perm _ _).symm
  have : out = sortPerm keys n :=
    List.Perm.eq_of_pairwise (le := Refine (lexRowLE keys) (fun a b => a < b))
      (fun a b _ _ h1 h2 => by
        have := h1.2 h2.1
        have := h2.2 h1.1
        omega)
      hpw' (sortPerm_refines keys n) hperm2
  rw [ho, this]

/-- `Session.dataset_sort_index` on key columns of `n` rows (most significant first), started from `arange(n)` or from
    no index at all, is the stable lexicographic sort permutation -/
theorem datasetSortIndex_eq (keys : List (List Int)) (n : Nat) (hne : keys ≠ []) (hk : ∀ k ∈ keys, k.length = n) :
    datasetSortIndex keys none = .ok (sortPerm keys n) ∧
    datasetSortIndex keys (some (List.range n)) = .ok (sortPerm keys n) := by
  have h := sortPasses_reverse_eq keys n hk
  cases hr : keys.reverse with
  | nil => exact absurd (List.reverse_eq_nil_iff.mp hr) hne
  | cons r0 rs =>
    have hr0 : r0.length = n := hk r0 (List.mem_reverse.mp (by rw [hr]; simp))
    rw [hr] at h
    simp only [datasetSortIndex, hr, hr0, h, and_self]

end Exetera.FilterIndex
