import Exetera.Lemmas.JoinFlatSize
/-!
  `ordered_merge_inner(left_unique=False, right_unique=True)` calls
  `ordered_inner_map_left_unique(right_data, left_data, right_to_inner, left_to_inner)` — the left-unique kernel with the
  two sides swapped. Its output, read back with the sides swapped again, is the relational inner join of (left, right) in
  (left, right) order: the duplicate-free side is the outer loop, so the pairs come out ordered by key and then by left
  row, which is the order of `Spec.innerJoin` (C19).
-/
namespace Exetera.JoinFlat
open Exetera Exetera.Spec Exetera.Join

theorem encL_blockRows_one (i : Nat) : ∀ m j, encL (blockRows j i 1 m) = (List.range' j m).map (fun (x : Nat) => (x : Int))
  | 0, _ => by simp [blockRows, encL]
  | m + 1, j => by
    have ih := encL_blockRows_one i m (j + 1)
    simp only [encL] at ih
    simp only [blockRows, encL, List.map_append, ih, blockRow, List.range'_succ]
    simp

theorem encR_blockRows_one (inv : Int) (i : Nat) : ∀ m j, encR inv (blockRows j i 1 m) = List.replicate m (i : Int)
  | 0, _ => by simp [blockRows, encR]
  | m + 1, j => by
    have ih := encR_blockRows_one inv i m (j + 1)
    simp only [encR] at ih
    simp only [blockRows, encR, List.map_append, ih, blockRow, List.replicate_succ]
    simp [encCell]

/-- invariant of the swapped run: `s.i` walks the (duplicate-free) right column, `s.j` the left column -/
structure SInv (L R : List Int) (s : IS) : Prop where
  ile : s.i ≤ R.length
  jle : s.j ≤ L.length
  llen : s.lo.length = s.ro.length
  outL : s.ro ++ encL (irest L R s.j) = encL (irest L R 0)
  outR : s.lo ++ encR 0 (irest L R s.j) = encR 0 (irest L R 0)
  below : Below L R s.j s.i

theorem swapBody_step {L R : List Int} {cap : Nat} {s : IS} (hL : Sorted L) (hR : R.Pairwise (· < ·))
    (hcap : (irest L R 0).length ≤ cap) (hinv : SInv L R s) (hg : innerGuard R L s = true) :
    ∃ s', innerBody false true R L cap s = .ok s' ∧ SInv L R s' ∧ imu R L s'.i s'.j < imu R L s.i s.j := by
  have hRs := RU.sorted_of_strict hR
  simp only [innerGuard, Bool.and_eq_true, decide_eq_true_eq] at hg
  obtain ⟨hi, hj⟩ := hg
  have ha := get?_some_of_lt hi      -- R[s.i]
  have hb := get?_some_of_lt hj      -- L[s.j]
  simp only [innerBody, getE_of_lt _ hi, getE_of_lt _ hj]
  by_cases hlt : R[s.i] < L[s.j]
  · simp only [hlt, if_true]
    refine ⟨_, rfl, ⟨by simp only []; omega, hinv.jle, hinv.llen, hinv.outL, hinv.outR, ?_⟩, by simp only [imu]; omega⟩
    apply Below.step_right hinv.below
    intro a b ha' hb'
    rw [hb] at ha'; rw [ha] at hb'; cases ha'; cases hb'; exact hlt
  · simp only [hlt, if_false]
    by_cases hgt : R[s.i] > L[s.j]
    · simp only [hgt, if_true]
      have hr := irest_unmatched hRs hinv.below hb (by omega) (fun b hb' => by rw [ha] at hb'; cases hb'; exact hgt)
      refine ⟨_, rfl, ⟨hinv.ile, by simp only []; omega, hinv.llen, ?_, ?_, Below.step_left hL hinv.below⟩,
        by simp only [imu]; omega⟩
      · simp only []; rw [← hr]; exact hinv.outL
      · simp only []; rw [← hr]; exact hinv.outR
    · simp only [hgt, if_false]
      have heq : R[s.i] = L[s.j] := by omega
      have ha' : R[s.i]? = some L[s.j] := by rw [ha, heq]
      obtain ⟨m, hm, hlm⟩ := runLen_isRun true hL (by simp) hb
      have hr1 : IsRun R s.i 1 L[s.j] := by
        refine ⟨by omega, by omega, ?_, ?_⟩
        · intro t ht
          have : t = 0 := by omega
          subst this; exact ha'
        · intro b hb'
          exact RU.strict_get? hR (i := s.i) (j := s.i + 1) (by omega) ha' hb'
      have hrun := irest_run hL hRs hinv.below hlm hr1
      have hbel := (rest_run hL hRs hinv.below hlm hr1).2
      have hoL := hinv.outL
      have hoR := hinv.outR
      rw [hrun, encL_append, encL_blockRows_one] at hoL
      rw [hrun, encR_append, encR_blockRows_one] at hoR
      have hlenL := congrArg List.length hinv.outL
      rw [hrun] at hlenL
      simp only [List.length_append, encL_length, blockRows_length] at hlenL
      have hfit : s.lo.length + 1 * m ≤ cap := by
        have h5 := hinv.llen
        rw [Nat.mul_one] at hlenL
        rw [Nat.one_mul, h5]
        have h6 : s.ro.length + m ≤ (irest L R 0).length := by omega
        exact Nat.le_trans h6 hcap
      have h1 : runLen false R s.i = .ok 1 := rfl
      simp only [h1, hm, hfit, if_true]
      have hmp := hlm.pos
      have hml := hlm.le
      refine ⟨_, rfl, ⟨by simp only []; omega, by simp only []; omega, ?_, ?_, ?_, hbel⟩, by simp only [imu]; omega⟩
      · have h2 := congrArg List.length hoL
        have h3 := congrArg List.length hoR
        have := hinv.llen
        simp only [List.length_append, encL_length, encR_length, blockL, blockR, List.length_replicate, List.length_map,
          List.length_range', List.length_nil] at h2 h3 ⊢
        omega
      · simpa [blockR] using hoL
      · simpa [blockL] using hoR

/-- **the swapped left-unique kernel, read back swapped, lists the matching pairs in (left, right) order** -/
theorem orderedInnerMap_swapped {L R : List Int} (hL : Sorted L) (hR : R.Pairwise (· < ·)) :
    orderedInnerMap false true R L (List.replicate (innerJoin L R).length 0) (List.replicate (innerJoin L R).length 0)
      = .ok ((encodeInner (innerJoin L R)).2, (encodeInner (innerJoin L R)).1) := by
  have hRs := RU.sorted_of_strict hR
  have hspec := inner_eq_sel_left R L 0
  simp only [encodeInner, Prod.mk.injEq] at hspec
  have hir : irest L R 0 = sel false (leftJoinFrom R L 0) := by simp [irest, rest]
  have hlen := irest_zero_length L R
  have h0 : SInv L R ({} : IS) := ⟨by simp, by simp, rfl, by simp, by simp, Below.zero L R 0⟩
  obtain ⟨s1, hw1, hI1, hg1⟩ := whileE_rule (innerGuard R L)
    (innerBody false true R L (min (List.replicate (innerJoin L R).length (0 : Int)).length
      (List.replicate (innerJoin L R).length (0 : Int)).length))
    (SInv L R) (fun s => imu R L s.i s.j)
    (fun s hI hg => swapBody_step hL hR (by rw [hlen]; simp) hI hg) (R.length + L.length) {} h0 (by simp [imu])
  have hrest : irest L R s1.j = [] := by
    have h1 := hI1.ile
    have h2 := hI1.jle
    simp only [innerGuard, Bool.and_eq_false_iff, decide_eq_false_iff_not] at hg1
    by_cases hj : s1.j < L.length
    · have hi : s1.i = R.length := by omega
      have hb := hI1.below
      rw [hi] at hb
      exact irest_exhausted hL hRs (L.length - s1.j) s1.j (by omega) hb
    · simp [irest, rest_of_ge L R (by omega : L.length ≤ s1.j), sel_nil]
  have hoL := hI1.outL
  have hoR := hI1.outR
  rw [hrest] at hoL hoR
  simp only [encL, encR, List.map_nil, List.append_nil] at hoL hoR
  have eL : s1.ro = (innerJoin L R).map (fun p => (p.1 : Int)) := by
    rw [hoL, hir]; exact hspec.1.symm
  have eR : s1.lo = (innerJoin L R).map (fun p => (p.2 : Int)) := by
    rw [hoR, hir]; exact hspec.2.symm
  simp only [orderedInnerMap, hw1, encodeInner]
  rw [eL, eR]
  simp
