import Exetera.Gen.Kernels
import Exetera.Model.MapValid
import Exetera.Lemmas.GenKernels
/-!
  The TRANSLATED `map_valid` and `ordered_map_valid_partial` (C04) against the hand-written models of `Model/MapValid.lean`.

  The model lets a negative source subscript count from the end (`getI`); the translation makes it an error branch.  The tie is
  therefore the transfer of every success:  model = .ok r, and no valid map entry addresses a negative source position
  →  translated kernel = .ok r   (for ALL inputs, any fuel ≥ the trip count).
-/
namespace Exetera.GenK

open Exetera Exetera.PyRt Exetera.Gen.Kernels
open Exetera.MapValid (forE getI mapValidStep mapValid mapPartialStep orderedMapValidPartial)

theorem getI_nonneg {α} (xs : List α) (k : Int) (site site' : String) (v : α) (hk : 0 ≤ k)
    (h : getI xs k site = .ok v) : idxE xs k site' = .ok v := by
  unfold getI at h
  rw [if_pos hk] at h
  unfold idxE
  rw [if_pos hk]
  simp only [getE] at h ⊢
  cases hx : xs[k.toNat]? with
  | none => simp [hx] at h
  | some x => simp [hx] at h ⊢; exact h

theorem setE_ok_site {α} {xs r : List α} {i : Nat} {v : α} {s1 : String} (s2 : String)
    (h : setE xs i v s1 = .ok r) : setE xs i v s2 = .ok r := by
  simp only [setE] at h ⊢
  split at h <;> simp_all

/-! ### map_valid -/

namespace MV

abbrev St := map_valid.St

theorem step (data m : List Int) (inv : Int) (i : Nat) (res res' : List Int) (s : St)
    (h0 : s.p0 = data) (h1 : s.p1 = m) (h2 : s.p2 = res) (h3 : s.p3 = inv)
    (hpos : ∀ k, m[i]? = some k → k ≠ inv → 0 ≤ k)
    (h : mapValidStep data m inv i res = .ok res') :
    map_valid.body_L1 { s with v0 := (i : Int) } = .ok { s with v0 := (i : Int), p2 := res' } := by
  unfold mapValidStep at h
  cases hm : m[i]? with
  | none => simp [hm] at h
  | some k =>
    simp only [hm] at h
    have hget : ∀ site, getE m i site = .ok k := fun site => by simp [getE, hm]
    simp only [map_valid.body_L1, h0, h1, h2, h3, idxE_nat, hget, bindE_ok]
    by_cases hk : k = inv
    · subst hk
      simp only [bne_self_eq_false, Bool.false_eq_true, if_false, Except.ok.injEq] at h ⊢
      subst h
      cases s; simp_all
    · have hne : (k != inv) = true := by simp [hk]
      simp only [hne, if_true] at h ⊢
      cases hg : getI data k "data_field[map_field[i]]" with
      | error e => simp [hg] at h
      | ok v =>
        simp only [hg] at h
        rw [getI_nonneg data k _ "p0[p1[v0]]" v (hpos k hm hk) hg]
        simp only [bindE_ok, setIdxE_nat]
        rw [setE_ok_site "p2[v0]" h]
        rfl

theorem loop (data m : List Int) (inv : Int)
    (hpos : ∀ (i : Nat) (k : Int), m[i]? = some k → k ≠ inv → 0 ≤ k) :
    ∀ (n i : Nat) (res r : List Int) (s : St), s.p0 = data → s.p1 = m → s.p2 = res → s.p3 = inv →
      forE (mapValidStep data m inv) i n res = .ok r →
      ∃ s', forRangeAux (fun _ => false) (fun k s => map_valid.body_L1 { s with v0 := k }) n (i : Int) s = .ok s' ∧
        s'.p2 = r := by
  intro n
  induction n with
  | zero =>
    intro i res r s _ _ h2 _ h
    simp only [forE, Except.ok.injEq] at h
    exact ⟨s, rfl, by rw [h2, h]⟩
  | succ n ih =>
    intro i res r s h0 h1 h2 h3 h
    simp only [forE] at h
    cases hs : mapValidStep data m inv i res with
    | error e => simp [hs] at h
    | ok res' =>
      simp only [hs] at h
      have hb := step data m inv i res res' s h0 h1 h2 h3 (hpos i) hs
      have hc : ((i : Int) + 1) = ((i + 1 : Nat) : Int) := by omega
      simp only [forRangeAux, hb, Bool.false_eq_true, if_false, hc]
      exact ih (i + 1) res' r { s with v0 := (i : Int), p2 := res' } h0 h1 rfl h3 h

end MV

theorem map_valid_ok (data m : List Int) (result : Option (List Int)) (inv : Int) (r : List Int)
    (hpos : ∀ (i : Nat) (k : Int), m[i]? = some k → k ≠ inv → 0 ≤ k)
    (h : mapValid data m result inv 0 = .ok r) :
    map_valid.run data m result inv = .ok r := by
  unfold mapValid at h
  unfold map_valid.run
  cases result with
  | none =>
    simp only [Option.getD_none] at h
    simp only [bindE_ok, forRangeE, pyLen, Int.sub_zero, Int.toNat_natCast]
    obtain ⟨s', hrun, hp2⟩ := MV.loop data m inv hpos m.length 0 _ r
      (⟨data, m, List.replicate m.length 0, inv, 0⟩ : MV.St) rfl rfl rfl rfl h
    have hrun' : forRangeAux (fun _ => false) (fun k s => map_valid.body_L1 { s with v0 := k }) m.length (0 : Int)
        (⟨data, m, List.replicate m.length 0, inv, 0⟩ : MV.St) = .ok s' := hrun
    simp only [hrun', bindE_ok, hp2]
  | some a =>
    simp only [Option.getD_some] at h
    simp only [bindE_ok, forRangeE, pyLen, Int.sub_zero, Int.toNat_natCast]
    obtain ⟨s', hrun, hp2⟩ := MV.loop data m inv hpos m.length 0 _ r
      (⟨data, m, a, inv, 0⟩ : MV.St) rfl rfl rfl rfl h
    have hrun' : forRangeAux (fun _ => false) (fun k s => map_valid.body_L1 { s with v0 := k }) m.length (0 : Int)
        (⟨data, m, a, inv, 0⟩ : MV.St) = .ok s' := hrun
    simp only [hrun', bindE_ok, hp2]

/-! ### ordered_map_valid_partial -/

namespace OMV

abbrev St := ordered_map_valid_partial.St

theorem step (values m : List Int) (dStart inv empty : Int) (sm : Nat) (res res' : List Int) (s : St)
    (h0 : s.p0 = values) (h1 : s.p1 = m) (h4 : s.p4 = dStart) (h5 : s.p5 = res) (h6 : s.p6 = inv) (h7 : s.p7 = empty)
    (hv : s.v0 = (sm : Int))
    (hpos : ∀ k, m[sm]? = some k → k ≠ inv → 0 ≤ k - dStart)
    (h : mapPartialStep values m dStart inv empty sm res = .ok res') :
    ordered_map_valid_partial.body_L1 s = .ok { s with p5 := res', v0 := ((sm + 1 : Nat) : Int) } := by
  unfold mapPartialStep at h
  cases hm : m[sm]? with
  | none => simp [hm] at h
  | some k =>
    simp only [hm] at h
    have hget : ∀ site, getE m sm site = .ok k := fun site => by simp [getE, hm]
    have hc : ((sm : Int) + 1) = ((sm + 1 : Nat) : Int) := by omega
    simp only [ordered_map_valid_partial.body_L1, h0, h1, h4, h5, h6, h7, hv, idxE_nat, hget, bindE_ok]
    by_cases hk : k = inv
    · subst hk
      simp only [beq_self_eq_true, if_true] at h ⊢
      simp only [setIdxE_nat, setE_ok_site "p5[v0]" h, bindE_ok, hc]
    · have hne : (k == inv) = false := by simp [hk]
      simp only [hne, Bool.false_eq_true, if_false] at h ⊢
      cases hg : getI values (k - dStart) "values[map_values[sm]-d_start]" with
      | error e => simp [hg] at h
      | ok v =>
        simp only [hg] at h
        rw [getI_nonneg values (k - dStart) _ "p0[p1[v0] - p4]" v (hpos k hm hk) hg]
        simp only [bindE_ok, setIdxE_nat, setE_ok_site "p5[v0]" h, hc]

theorem loop (values m : List Int) (dStart inv empty : Int) (lo smEnd : Nat)
    (hpos : ∀ (sm : Nat) (k : Int), lo ≤ sm → sm < smEnd → m[sm]? = some k → k ≠ inv → 0 ≤ k - dStart) :
    ∀ (n fuel sm : Nat) (res r : List Int) (s : St), lo ≤ sm → sm + n = smEnd → n ≤ fuel →
      s.p0 = values → s.p1 = m → s.p3 = (smEnd : Int) → s.p4 = dStart → s.p5 = res → s.p6 = inv → s.p7 = empty →
      s.v0 = (sm : Int) →
      forE (mapPartialStep values m dStart inv empty) sm n res = .ok r →
      ∃ s', whileE ordered_map_valid_partial.guard_L1 ordered_map_valid_partial.body_L1 fuel s = .ok s' ∧
        s'.p5 = r ∧ s'.v0 = (smEnd : Int) := by
  intro n
  induction n with
  | zero =>
    intro fuel sm res r s _ hsm _ _ _ h3 _ h5 _ _ hv h
    simp only [forE, Except.ok.injEq] at h
    have hg : ordered_map_valid_partial.guard_L1 s = false := by
      simp only [ordered_map_valid_partial.guard_L1, h3, hv, decide_eq_false_iff_not]; omega
    refine ⟨s, ?_, by rw [h5, h], by rw [hv]; omega⟩
    cases fuel <;> simp [whileE, hg]
  | succ n ih =>
    intro fuel sm res r s hlo hsm hf h0 h1 h3 h4 h5 h6 h7 hv h
    simp only [forE] at h
    cases hs : mapPartialStep values m dStart inv empty sm res with
    | error e => simp [hs] at h
    | ok res' =>
      simp only [hs] at h
      have hg : ordered_map_valid_partial.guard_L1 s = true := by
        simp only [ordered_map_valid_partial.guard_L1, h3, hv, decide_eq_true_eq]; omega
      have hb := step values m dStart inv empty sm res res' s h0 h1 h4 h5 h6 h7 hv (fun k => hpos sm k hlo (by omega)) hs
      obtain ⟨f, rfl⟩ : ∃ f, fuel = f + 1 := ⟨fuel - 1, by omega⟩
      simp only [whileE, hg, if_true, hb]
      exact ih f (sm + 1) res' r { s with p5 := res', v0 := ((sm + 1 : Nat) : Int) } (by omega) (by omega) (by omega)
        h0 h1 h3 h4 rfl h6 h7 rfl h

end OMV

theorem ordered_map_valid_partial_ok (values m : List Int) (smStart smEnd : Nat) (dStart : Int) (res : List Int)
    (inv empty : Int) (r : List Int) (fuel : Nat) (hse : smStart ≤ smEnd) (hf : smEnd - smStart ≤ fuel)
    (hpos : ∀ (sm : Nat) (k : Int), smStart ≤ sm → sm < smEnd → m[sm]? = some k → k ≠ inv → 0 ≤ k - dStart)
    (h : orderedMapValidPartial values m smStart smEnd dStart res inv empty = .ok r) :
    ordered_map_valid_partial.run values m smStart smEnd dStart res inv empty fuel = .ok ((smEnd : Int), r) := by
  unfold orderedMapValidPartial at h
  unfold ordered_map_valid_partial.run
  obtain ⟨s', hrun, hp5, hv0⟩ := OMV.loop values m dStart inv empty smStart smEnd hpos (smEnd - smStart) fuel smStart res r
    (⟨values, m, smStart, smEnd, dStart, res, inv, empty, smStart⟩ : OMV.St) (Nat.le_refl _) (by omega) hf rfl rfl rfl rfl rfl rfl rfl rfl h
  have hrun' : whileE ordered_map_valid_partial.guard_L1 ordered_map_valid_partial.body_L1 fuel
      (⟨values, m, smStart, smEnd, dStart, res, inv, empty, smStart⟩ : OMV.St) = .ok s' := hrun
  simp only [hrun', bindE_ok, hp5, hv0]

end Exetera.GenK
