import Exetera.Lemmas.UniqueSort
import Exetera.Lemmas.UniqueKernel
import Exetera.Lemmas.UniqueOrder
/-! `unique_for_indexed_string` = the Spec, by composing the kernel theorem with the sorting facts. -/
namespace Exetera.Unique
open Exetera Exetera.Spec

theorem bytesLe_isOrder : IsOrder bytesLe :=
  ⟨bytesLe_trans, bytesLe_total, fun _ _ => bytesLe_antisymm⟩

section
variable (col : List Bytes) (hn : NoTrailingNul col)
include hn

theorem disc_strip : (disc col).map stripNul = disc col :=
  map_stripNul_eq (fun x hx => hn x (mem_disc.mp hx))

theorem npSortStr_disc : npSortStr (disc col) = uniques bytesLe col := by
  unfold npSortStr
  rw [disc_strip col hn]
  exact mergeSort_eq_uniques bytesLe_isOrder col (disc col) (disc_nodup col) (fun _ => mem_disc)

theorem npArgsortStr_disc :
    npArgsortStr (disc col) = (uniques bytesLe col).map (fun u => (disc col).idxOf u) := by
  unfold npArgsortStr
  rw [disc_strip col hn, argsort_eq bytesLe_isOrder (disc col) (disc_nodup col),
    mergeSort_eq_uniques bytesLe_isOrder col (disc col) (disc_nodup col) (fun _ => mem_disc)]

end

theorem getElem?_idxOf_disc (col : List Bytes) {a : Bytes} (ha : a ∈ col) :
    (disc col)[(disc col).idxOf a]? = some a := by
  have h : (disc col).idxOf a < (disc col).length := List.idxOf_lt_length_iff.mpr (mem_disc.mpr ha)
  rw [List.getElem?_eq_getElem h, List.getElem_idxOf h]

/-- gathering a per-discovered-value table through the sort permutation gives the per-sorted-value table -/
theorem gather_through_perm (col : List Bytes) (site : String) (f : Bytes → Nat) :
    gather ((disc col).map f) site ((uniques bytesLe col).map (fun u => (disc col).idxOf u))
      = .ok ((uniques bytesLe col).map f) := by
  apply gather_map
  intro a ha
  have ha' : a ∈ col := (mem_uniques col a).mp ha
  rw [List.getElem?_map, getElem?_idxOf_disc col ha']
  rfl

/-- the sort permutation is a permutation of `range n` -/
theorem perm_is_perm (col : List Bytes) :
    ((uniques bytesLe col).map (fun u => (disc col).idxOf u)).Perm
      (List.range ((uniques bytesLe col).map (fun u => (disc col).idxOf u)).length) := by
  have hp : (uniques bytesLe col).Perm (disc col) :=
    (List.perm_ext_iff_of_nodup (uniques_nodup bytesLe_isOrder col) (disc_nodup col)).mpr
      (fun a => by rw [mem_uniques, mem_disc])
  have h1 := hp.map (fun u => (disc col).idxOf u)
  rw [map_idxOf_self _ (disc_nodup col)] at h1
  simpa [hp.length_eq] using h1

/-- **D21 repaired**: mapping the discovery-order inverse through `argsort` of the sort permutation gives, for every
    row, the position of its value among the sorted uniques -/
theorem gather_inverse (col : List Bytes) (site : String) :
    gather (npArgsortNat ((uniques bytesLe col).map (fun u => (disc col).idxOf u))) site
        (col.map (fun x => (disc col).idxOf x))
      = .ok (col.map (fun x => (uniques bytesLe col).idxOf x)) := by
  rw [npArgsortNat_perm _ (perm_is_perm col)]
  apply gather_map
  intro a ha
  have hlen : (uniques bytesLe col).length = (disc col).length := by
    have hp : (uniques bytesLe col).Perm (disc col) :=
      (List.perm_ext_iff_of_nodup (uniques_nodup bytesLe_isOrder col) (disc_nodup col)).mpr
        (fun a => by rw [mem_uniques, mem_disc])
    exact hp.length_eq
  have hlt : (disc col).idxOf a < (disc col).length := List.idxOf_lt_length_iff.mpr (mem_disc.mpr ha)
  rw [List.getElem?_map, List.length_map, hlen, List.getElem?_range hlt]
  simp only [Option.map_some, Option.some.injEq]
  refine idxOf_map_of_inj (fun u => (disc col).idxOf u) a (uniques bytesLe col) ?_
  intro y hy he
  have hy' : y ∈ col := (mem_uniques col y).mp hy
  have h1 := getElem?_idxOf_disc col hy'
  have h2 := getElem?_idxOf_disc col ha
  rw [he, h2] at h1
  exact (Option.some.inj h1).symm

/-- **functional correctness of `unique_for_indexed_string`** (with fix D21), for every flag combination -/
theorem uniqueForIndexedString_encode (col : List Bytes) (hn : NoTrailingNul col) (ri rv rc : Bool) :
    uniqueForIndexedString (encode col).1 (encode col).2 ri rv rc = .ok (refNpUnique bytesLe col ri rv rc) := by
  unfold uniqueForIndexedString
  rw [getIndexedStringUnique_encode]
  simp only [discOut, npSortStr_disc col hn, npArgsortStr_disc col hn]
  cases ri <;> cases rv <;> cases rc <;>
    simp [refNpUnique, gatherOpt, remapInverse, gather_through_perm, gather_inverse, uniqueIndex, uniqueInverse, uniqueCounts]

end Exetera.Unique
