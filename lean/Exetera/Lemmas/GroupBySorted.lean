import Exetera.Lemmas.GroupByRuns
/-! On a key-sorted list the adjacent groups are the distinct keys in ascending order, each with all values of its key. -/
namespace Exetera.GroupBy
open Exetera Exetera.Spec List

/-- the keys of a list of (key, value) rows are non-decreasing -/
def KeysSorted {V} (L : List (List Int × V)) : Prop := (L.map (·.1)).Pairwise (fun a b => tupleLt b a = false)

/-- the values of the rows of `L` whose key is `k`, in order -/
def valuesOf {V} (L : List (List Int × V)) (k : List Int) : List V := (L.filter (fun p => p.1 == k)).map (·.2)

theorem valuesOf_cons_self {V} (k : List Int) (v : V) (L : List (List Int × V)) :
    valuesOf ((k, v) :: L) k = v :: valuesOf L k := by simp [valuesOf]

theorem valuesOf_cons_ne {V} {k k' : List Int} (v : V) (L : List (List Int × V)) (h : k ≠ k') :
    valuesOf ((k, v) :: L) k' = valuesOf L k' := by simp [valuesOf, h]

theorem valuesOf_eq_nil {V} (L : List (List Int × V)) (k : List Int) (h : k ∉ L.map (·.1)) : valuesOf L k = [] := by
  simp only [valuesOf, map_eq_nil_iff, filter_eq_nil_iff]
  intro p hp heq
  apply h
  simp only [beq_iff_eq] at heq
  exact mem_map.2 ⟨p, hp, heq⟩

theorem groupAdj_sorted {V} : ∀ (L : List (List Int × V)), KeysSorted L →
    ((groupAdj L).map (·.1)).Pairwise (fun a b => tupleLt a b = true) ∧
    (∀ k, k ∈ (groupAdj L).map (·.1) ↔ k ∈ L.map (·.1)) ∧
    (groupAdj L).map (·.2) = ((groupAdj L).map (·.1)).map (valuesOf L)
  | [], _ => by simp [groupAdj]
  | (k, v) :: rest, hs => by
    have hs' : KeysSorted rest := by
      unfold KeysSorted at hs ⊢
      rw [map_cons, pairwise_cons] at hs
      exact hs.2
    have hle : ∀ k' ∈ rest.map (·.1), tupleLt k' k = false := by
      unfold KeysSorted at hs
      rw [map_cons, pairwise_cons] at hs
      exact hs.1
    obtain ⟨ih1, ih2, ih3⟩ := groupAdj_sorted rest hs'
    cases hg : groupAdj rest with
    | nil =>
      have := groupAdj_eq_nil rest hg
      subst this
      simp [groupAdj, valuesOf]
    | cons g gs =>
      obtain ⟨k', vs⟩ := g
      rw [hg] at ih1 ih2 ih3
      simp only [map_cons, pairwise_cons] at ih1
      have hk'mem : k' ∈ rest.map (·.1) := (ih2 k').1 (by simp)
      have hkk' : tupleLt k' k = false := hle k' hk'mem
      have hgt : ∀ a ∈ gs.map (·.1), tupleLt k' a = true := ih1.1
      simp only [map_cons, cons.injEq] at ih3
      by_cases hkeq : k = k'
      · subst hkeq
        have hG : groupAdj ((k, v) :: rest) = (k, v :: vs) :: gs := by simp [groupAdj, hg]
        rw [hG]
        refine ⟨by simpa using ih1, ?_, ?_⟩
        · intro a
          have := ih2 a
          simp only [map_cons, mem_cons] at this ⊢
          constructor
          · rintro (h | h)
            · exact Or.inl h
            · exact Or.inr (this.1 (Or.inr h))
          · rintro (h | h)
            · exact Or.inl h
            · exact this.2 h
        · simp only [map_cons, cons.injEq]
          refine ⟨by rw [valuesOf_cons_self, ← ih3.1], ?_⟩
          rw [ih3.2]
          apply map_congr_left
          intro a ha
          rw [valuesOf_cons_ne]
          exact tupleLt_ne (hgt a ha)
      · have hlt : tupleLt k k' = true := tupleLt_of_le_of_ne hkk' hkeq
        have hG : groupAdj ((k, v) :: rest) = (k, [v]) :: (k', vs) :: gs := by simp [groupAdj, hg, hkeq]
        rw [hG]
        have hall : ∀ a ∈ ((k', vs) :: gs).map (·.1), tupleLt k a = true := by
          intro a ha
          simp only [map_cons, mem_cons] at ha
          rcases ha with rfl | ha
          · exact hlt
          · exact tupleLt_trans hlt (hgt a ha)
        have hknot : k ∉ rest.map (·.1) := by
          intro hmem
          have := hall k ((ih2 k).2 hmem)
          rw [tupleLt_irrefl] at this; cases this
        refine ⟨?_, ?_, ?_⟩
        · simp only [map_cons, pairwise_cons]
          refine ⟨?_, ih1⟩
          intro a ha
          exact hall a (by simpa using ha)
        · intro a
          have := ih2 a
          simp only [map_cons, mem_cons] at this ⊢
          constructor
          · rintro (h | h)
            · exact Or.inl h
            · exact Or.inr (this.1 h)
          · rintro (h | h)
            · exact Or.inl h
            · exact Or.inr (this.2 h)
        · simp only [map_cons, cons.injEq]
          refine ⟨by rw [valuesOf_cons_self, valuesOf_eq_nil rest k hknot], ?_, ?_⟩
          · rw [valuesOf_cons_ne _ _ hkeq]; exact ih3.1
          · rw [ih3.2]
            apply map_congr_left
            intro a ha
            rw [valuesOf_cons_ne]
            exact tupleLt_ne (hall a (by simp [ha]))

end Exetera.GroupBy
