import Exetera.Gen.Kernels
import Exetera.Model.Csv
import Exetera.Lemmas.GenKernels
import Exetera.Lemmas.GenKernelsSpans
/-!
  The TRANSLATED `fast_csv_reader` (exetera/core/csv_reader_speedup.py — the byte-level CSV state machine property C05 rests
  on) against the hand model `Csv.fastCsvReader`, part 1: the two blank-skipping `while` loops (their conditions subscript
  `source`: `whileG`) compute `Csv.skipFrom` / `Csv.skipAfter`, and the loop body of `while True:` split into the four phases
  the model's `step` is made of (`lexByte` ; `writeChar` ; `endCell` ; advance and test for the end).
-/
namespace Exetera.GenK.CsvK

open Exetera Exetera.PyRt Exetera.Csv Exetera.Gen.Kernels
open Exetera.Gen.Kernels.fast_csv_reader (guardE_L3 body_L3)

abbrev St := fast_csv_reader.St

abbrev ints2 (m : List (List Nat)) : List (List Int) := m.map ints

theorem idx_src (src : Bytes) (j x : Nat) (h : src[j]? = some x) (site : String) :
    idxE (ints src) (j : Int) site = .ok (x : Int) := by
  simp [idxE_nat, getE, List.getElem?_map, h]

theorem beq_cast (a b : Nat) : (((a : Nat) : Int) == ((b : Nat) : Int)) = decide (a = b) := by
  by_cases h : a = b
  · simp [h]
  · have : ((a : Nat) : Int) ≠ ((b : Nat) : Int) := by omega
    simp [h, this]

theorem leadWs_step (src : Bytes) (j : Nat) (hw : src[j]? = some WS) :
    leadWs (src.drop j) = leadWs (src.drop (j + 1)) + 1 := by
  have hj : j < src.length := by
    rcases Nat.lt_or_ge j src.length with h | h
    · exact h
    · simp [List.getElem?_eq_none h] at hw
  have hx : src[j] = WS := by
    have := List.getElem?_eq_getElem hj
    rw [this] at hw; exact Option.some.inj hw
  rw [List.drop_eq_getElem_cons hj, hx]
  simp [leadWs, List.takeWhile]

theorem leadWs_stop (src : Bytes) (j : Nat) (hw : src[j]? ≠ some WS) : leadWs (src.drop j) = 0 := by
  rcases Nat.lt_or_ge j src.length with hj | hj
  · rw [List.drop_eq_getElem_cons hj]
    have hx : src[j] ≠ WS := by
      intro h; apply hw; rw [List.getElem?_eq_getElem hj, h]
    have hb : (src[j] == WS) = false := by simp [hx]
    simp [leadWs, List.takeWhile, hb]
  · simp [leadWs, List.drop_eq_nil_of_le hj]

/-- the test `j < len(source) and source[j] == whitespace_value` on the bytes of `src` -/
theorem wsTest (src : Bytes) (j : Nat) (site : String) :
    (if decide (((j : Nat) : Int) < pyLen (ints src)) then
        bindE (idxE (ints src) ((j : Nat) : Int) site) fun t => .ok (t == ((WS : Nat) : Int))
      else .ok false) = (.ok (decide (src[j]? = some WS)) : Except Err Bool) := by
  by_cases hj : j < src.length
  · have hlen : (((j : Nat) : Int) < pyLen (ints src)) := by simp [pyLen]; omega
    have hx : src[j]? = some src[j] := List.getElem?_eq_getElem hj
    simp only [hlen, decide_true, if_true, idx_src src j _ hx, bindE_ok, beq_cast, hx, Option.some.injEq]
  · have hlen : ¬ (((j : Nat) : Int) < pyLen (ints src)) := by simp [pyLen]; omega
    have hx : src[j]? = none := List.getElem?_eq_none (by omega)
    simp [hlen, hx]

theorem guardL3_eval (src : Bytes) (i : Nat) (s : St) (h0 : s.p0 = ints src) (h9 : s.p9 = ((WS : Nat) : Int))
    (h2 : s.v2 = (i : Int)) : fast_csv_reader.guardE_L3 s = .ok (decide (src[i + 1]? = some WS)) := by
  have hcast : ((i : Int) + 1) = ((i + 1 : Nat) : Int) := by omega
  simp only [fast_csv_reader.guardE_L3, h0, h9, h2, hcast]
  exact wsTest src (i + 1) _

theorem guardL1_eval (src : Bytes) (i : Nat) (s : St) (h0 : s.p0 = ints src) (h9 : s.p9 = ((WS : Nat) : Int))
    (h2 : s.v2 = (i : Int)) : fast_csv_reader.guardE_L1 s = .ok (decide (src[i]? = some WS)) := by
  simp only [fast_csv_reader.guardE_L1, h0, h9, h2]
  exact wsTest src i _

theorem set_v2_self (s : St) (i : Int) (h : s.v2 = i) : ({ s with v2 := i } : St) = s := by
  cases s; simp_all

/-- `while index + 1 < len(source) and source[index + 1] == whitespace_value: index += 1` is `Csv.skipAfter` -/
theorem skipAfter_loop (src : Bytes) :
    ∀ (F i : Nat) (s : St), s.p0 = ints src → s.p9 = ((WS : Nat) : Int) → s.v2 = (i : Int) → src.length ≤ F + (i + 1) →
      whileG fast_csv_reader.guardE_L3 fast_csv_reader.body_L3 F s = .ok { s with v2 := ((skipAfter src i : Nat) : Int) } := by
  intro F
  induction F with
  | zero =>
    intro i s h0 h9 h2 hF
    have hw : src[i + 1]? ≠ some WS := by simp [List.getElem?_eq_none (show src.length ≤ i + 1 by omega)]
    have hs : skipAfter src i = i := by simp [skipAfter, leadWs_stop src (i + 1) hw]
    simp only [whileG, guardL3_eval src i s h0 h9 h2, hw, decide_false, Bool.false_eq_true, if_false, hs,
      set_v2_self s _ h2]
  | succ F ih =>
    intro i s h0 h9 h2 hF
    by_cases hw : src[i + 1]? = some WS
    · have hs : skipAfter src i = skipAfter src (i + 1) := by
        simp only [skipAfter, leadWs_step src (i + 1) hw]; omega
      have := ih (i + 1) { s with v2 := s.v2 + 1 } h0 h9 (by show s.v2 + 1 = _; rw [h2]; omega) (by omega)
      simp only [whileG, guardL3_eval src i s h0 h9 h2, hw, decide_true, if_true, fast_csv_reader.body_L3, this, hs]
    · have hs : skipAfter src i = i := by simp [skipAfter, leadWs_stop src (i + 1) hw]
      simp only [whileG, guardL3_eval src i s h0 h9 h2, hw, decide_false, Bool.false_eq_true, if_false, hs,
        set_v2_self s _ h2]

/-- (entry) `while index < len(source) and source[index] == whitespace_value: index += 1` is `Csv.skipFrom` -/
theorem skipFrom_loop (src : Bytes) :
    ∀ (F i : Nat) (s : St), s.p0 = ints src → s.p9 = ((WS : Nat) : Int) → s.v2 = (i : Int) → src.length ≤ F + i →
      whileG fast_csv_reader.guardE_L1 fast_csv_reader.body_L1 F s = .ok { s with v2 := ((skipFrom src i : Nat) : Int) } := by
  intro F
  induction F with
  | zero =>
    intro i s h0 h9 h2 hF
    have hw : src[i]? ≠ some WS := by simp [List.getElem?_eq_none (show src.length ≤ i by omega)]
    have hs : skipFrom src i = i := by simp [skipFrom, leadWs_stop src i hw]
    simp only [whileG, guardL1_eval src i s h0 h9 h2, hw, decide_false, Bool.false_eq_true, if_false, hs,
      set_v2_self s _ h2]
  | succ F ih =>
    intro i s h0 h9 h2 hF
    by_cases hw : src[i]? = some WS
    · have hs : skipFrom src i = skipFrom src (i + 1) := by
        simp only [skipFrom, leadWs_step src i hw]; omega
      have := ih (i + 1) { s with v2 := s.v2 + 1 } h0 h9 (by show s.v2 + 1 = _; rw [h2]; omega) (by omega)
      simp only [whileG, guardL1_eval src i s h0 h9 h2, hw, decide_true, if_true, fast_csv_reader.body_L1, this, hs]
    · have hs : skipFrom src i = i := by simp [skipFrom, leadWs_stop src i hw]
      simp only [whileG, guardL1_eval src i s h0 h9 h2, hw, decide_false, Bool.false_eq_true, if_false, hs,
        set_v2_self s _ h2]

/-! ### the loop body of `while True:` in four phases (the text of `fast_csv_reader.body_L2`, cut at its top-level `bindE`s) -/

/-- classify the byte `c = source[index]` (the `if c == separator_value … elif … else` chain): the model's `lexByte` -/
def ph1 (s : St) : Except Err St :=
  if (s.v19 == s.p7) then
      if (!s.v7) then
        let s := { s with v8 := true }
        .ok s
      else
        let s := { s with v18 := true }
        .ok s
    else
      if (s.v19 == s.p8) then
        if (!s.v7) then
          let s := { s with v8 := true }
          let s := { s with v9 := true }
          let s := { s with v3 := s.v2 }
          .ok s
        else
          let s := { s with v18 := true }
          .ok s
      else
        if (s.v19 == s.p6) then
          if (!s.v7) then
            bindE (if (s.v2 != s.v17) then
                .error (.other "Exception")
              else
                .ok s) fun s =>
            let s := { s with v7 := true }
            .ok s
          else
            if s.v10 then
              let s := { s with v18 := true }
              let s := { s with v10 := false }
              .ok s
            else
              bindE (if (decide ((s.v2 + 1) < (pyLen s.p0))) then
                  bindE (idxE s.p0 (s.v2 + 1) "p0[v2 + 1]") fun t9 =>
                  .ok (t9 == s.p6)
                else .ok false) fun t10 =>
              if t10 then
                let s := { s with v10 := true }
                .ok s
              else
                bindE (if (decide ((s.v2 + 1) < (pyLen s.p0))) then
                    bindE (idxE s.p0 (s.v2 + 1) "p0[v2 + 1]") fun t11 =>
                    if (t11 == s.p7) then .ok true else
                        bindE (idxE s.p0 (s.v2 + 1) "p0[v2 + 1]") fun t12 =>
                        .ok (t12 == s.p8)
                  else .ok false) fun t14 =>
                if t14 then
                  let s := { s with v7 := false }
                  .ok s
                else
                  if ((s.v2 + 1) == (pyLen s.p0)) then
                    .ok s
                  else
                    .error (.other "Exception")
        else
          let s := { s with v18 := true }
          .ok s

/-- `if write_char and row_index >= 0:` — the model's `writeChar` -/
def ph2 (s : St) : Except Err St :=
  if (s.v18 && (decide (s.v5 ≥ 0))) then
      bindE (setIdxE s.p3 ((s.v15 + s.v12) + s.v11) s.v19 "p3[v15 + v12 + v11]") fun t15 =>
      let s := { s with p3 := t15 }
      let s := { s with v11 := (s.v11 + 1) }
      if (decide ((s.v12 + s.v11) ≥ s.v16)) then
        let s := { s with v14 := true }
        let s := { s with v6 := s.v4 }
        .ok s
      else
        .ok s
    else
      .ok s

/-- `if end_cell:` — the model's `endCell` -/
def ph3 (fuel : Nat) (s : St) : Except Err St :=
  if s.v8 then
      bindE (if (decide (s.v5 ≥ 0)) then
          bindE (setIdx2WE s.p2 s.v4 (s.v5 + 1) (s.v12 + s.v11) "p2[v4, v5 + 1]") fun t16 =>
          let s := { s with p2 := t16 }
          .ok s
        else
          .ok s) fun s =>
      bindE (if s.v9 then
          let s := { s with v5 := (s.v5 + 1) }
          let s := { s with v4 := 0 }
          bindE (idxE s.p4 s.v4 "p4[v4]") fun t17 =>
          let s := { s with v15 := t17 }
          bindE (idxE s.p4 (s.v4 + 1) "p4[v4 + 1]") fun t18 =>
          let s := { s with v16 := (t18 - s.v15) }
          if (s.v5 == s.v1) then
            let s := { s with v13 := true }
            .ok s
          else
            .ok s
        else
          let s := { s with v4 := (s.v4 + 1) }
          bindE (idxE s.p4 s.v4 "p4[v4]") fun t19 =>
          let s := { s with v15 := t19 }
          bindE (idxE s.p4 (s.v4 + 1) "p4[v4 + 1]") fun t20 =>
          let s := { s with v16 := (t20 - s.v15) }
          .ok s) fun s =>
      bindE (idxWE s.p2 s.v4 "p2[v4, v5]") fun t21 =>
      bindE (idxWE t21 s.v5 "p2[v4, v5]") fun t22 =>
      let s := { s with v12 := t22 }
      let s := { s with v11 := 0 }
      bindE (whileG guardE_L3 (body_L3) fuel s) fun s =>
      let s := { s with v17 := (s.v2 + 1) }
      .ok s
    else
      .ok s

/-- `index += 1` and the test for the end of the call -/
def ph4 (s : St) : Except Err St :=
  let s := { s with v2 := (s.v2 + 1) }
  if ((s.v2 == (pyLen s.p0)) || (s.v13 || s.v14)) then
    let s := { s with v20 := (s.v3 + 1) }
    let s := { s with v21 := s.v5 }
    let s := { s with ret := true, rv0 := s.v20, rv1 := s.v21, rv2 := s.v13, rv3 := s.v14, rv4 := s.v6 }
    .ok s
  else
    .ok s

/-- the state at the start of an iteration, after `c = source[index]` -/
def pre (s : St) (c : Int) : St := { s with v18 := false, v8 := false, v9 := false, v19 := c }

theorem body_split (fuel : Nat) (s : St) : fast_csv_reader.body_L2 fuel s =
    bindE (idxE s.p0 s.v2 "p0[v2]") fun c =>
      bindE (ph1 (pre s c)) fun s => bindE (ph2 s) fun s => bindE (ph3 fuel s) fun s => ph4 s := rfl

/-! ### phase 1: `lexByte` -/

theorem pyLen_ints (src : Bytes) : pyLen (ints src) = ((src.length : Nat) : Int) := by simp [pyLen]

theorem byteTest (src : Bytes) (j b : Nat) (site : String) :
    (if decide (((j : Nat) : Int) < ((src.length : Nat) : Int)) then
        bindE (idxE (ints src) ((j : Nat) : Int) site) fun t => .ok (t == ((b : Nat) : Int))
      else .ok false) = (.ok (decide (src[j]? = some b)) : Except Err Bool) := by
  by_cases hj : j < src.length
  · have hlen : (((j : Nat) : Int) < ((src.length : Nat) : Int)) := by omega
    have hx : src[j]? = some src[j] := List.getElem?_eq_getElem hj
    simp only [hlen, decide_true, if_true, idx_src src j _ hx, bindE_ok, beq_cast, hx, Option.some.injEq]
  · have hlen : ¬ (((j : Nat) : Int) < ((src.length : Nat) : Int)) := by omega
    have hx : src[j]? = none := List.getElem?_eq_none (by omega)
    simp [hlen, hx]

theorem byteTest2 (src : Bytes) (j a b : Nat) (site : String) :
    (if decide (((j : Nat) : Int) < ((src.length : Nat) : Int)) then
        bindE (idxE (ints src) ((j : Nat) : Int) site) fun t =>
        if (t == ((a : Nat) : Int)) then .ok true else
            bindE (idxE (ints src) ((j : Nat) : Int) site) fun t' => .ok (t' == ((b : Nat) : Int))
      else .ok false) = (.ok (decide (src[j]? = some a ∨ src[j]? = some b)) : Except Err Bool) := by
  by_cases hj : j < src.length
  · have hlen : (((j : Nat) : Int) < ((src.length : Nat) : Int)) := by omega
    have hx : src[j]? = some src[j] := List.getElem?_eq_getElem hj
    simp only [hlen, decide_true, if_true, idx_src src j _ hx, bindE_ok, beq_cast, hx, Option.some.injEq]
    by_cases ha : src[j] = a
    · simp [ha]
    · simp [ha]
  · have hlen : ¬ (((j : Nat) : Int) < ((src.length : Nat) : Int)) := by omega
    have hx : src[j]? = none := List.getElem?_eq_none (by omega)
    simp [hlen, hx]

/-- what the classification of one byte does to the translated state -/
def upd1 (s : St) (lx : Lex) : St :=
  match lx.ev with
  | .write => { s with v18 := true, v7 := lx.escaped, v10 := lx.cand }
  | .endCell => { s with v8 := true, v7 := lx.escaped, v10 := lx.cand }
  | .endLine => { s with v8 := true, v9 := true, v3 := s.v2, v7 := lx.escaped, v10 := lx.cand }
  | .skip => { s with v7 := lx.escaped, v10 := lx.cand }

theorem ph1_eq (src : Bytes) (i ics c : Nat) (s : St) (h0 : s.p0 = ints src) (h2 : s.v2 = (i : Int))
    (h17 : s.v17 = (ics : Int)) (h19 : s.v19 = (c : Int)) (h6 : s.p6 = ((QUOTE : Nat) : Int))
    (h7 : s.p7 = ((SEP : Nat) : Int)) (h8 : s.p8 = ((NL : Nat) : Int)) (hc : src[i]? = some c) {lx : Lex}
    (hl : lexByte src[i + 1]? (i == ics) s.v7 s.v10 c = .ok lx) : ph1 s = .ok (upd1 s lx) := by
  have hcast : ((i : Int) + 1) = ((i + 1 : Nat) : Int) := by omega
  have hi : i < src.length := by
    rcases Nat.lt_or_ge i src.length with h | h
    · exact h
    · simp [List.getElem?_eq_none h] at hc
  have d1 : NL ≠ SEP := by decide
  have d2 : QUOTE ≠ SEP := by decide
  have d3 : QUOTE ≠ NL := by decide
  unfold ph1
  simp only [h19, h7, h8, h6, h0, h2, h17, hcast, pyLen_ints, beq_cast, bne, byteTest, byteTest2, bindE_ok]
  unfold lexByte at hl
  by_cases c1 : c = SEP
  · subst c1
    cases he : s.v7 <;> simp [he] at hl ⊢ <;> subst hl <;> simp [upd1, he] <;> cases s <;> simp_all
  · by_cases c2 : c = NL
    · subst c2
      cases he : s.v7 <;> simp [d1, he] at hl ⊢ <;> subst hl <;> simp [upd1, he] <;> cases s <;> simp_all
    · by_cases c3 : c = QUOTE
      · subst c3
        cases he : s.v7
        · by_cases hs : i = ics
          · simp [d2, d3, he, hs] at hl ⊢
            subst hl
            simp [upd1, he]
          · simp [d2, d3, he, hs] at hl
        · cases hcd : s.v10
          · cases hn : src[i + 1]? with
            | none =>
              have hlen : i + 1 = src.length := by
                have := List.getElem?_eq_none_iff.mp hn
                omega
              simp [d2, d3, he, hcd, hn] at hl ⊢
              subst hl
              simp [upd1, he, hcd, hlen]
              cases s; simp_all
            | some n =>
              have hlen : i + 1 ≠ src.length := by
                intro h
                have := List.getElem?_eq_none (show src.length ≤ i + 1 by omega)
                rw [this] at hn; cases hn
              by_cases n1 : n = QUOTE
              · subst n1
                simp [d2, d3, he, hcd, hn] at hl ⊢
                subst hl
                simp [upd1, he, hcd]
                cases s; simp_all
              · by_cases n2 : n = SEP ∨ n = NL
                · simp [d2, d3, he, hcd, hn, n1, n2] at hl ⊢
                  subst hl
                  simp [upd1, he, hcd]
                  cases s; simp_all
                · simp [d2, d3, he, hcd, hn, n1, n2] at hl
          · simp [d2, d3, he, hcd] at hl ⊢
            subst hl
            simp [upd1, he, hcd]
            cases s; simp_all
      · simp [c1, c2, c3] at hl ⊢
        subst hl
        simp [upd1]
        cases s; simp_all

/-! ### phase 2: `writeChar` -/

theorem ph2_skip (s : St) (h : s.v18 = false ∨ s.v5 < 0) : ph2 s = .ok s := by
  unfold ph2
  rcases h with h | h
  · simp [h]
  · have : ¬ (s.v5 ≥ 0) := by omega
    simp [this]

theorem ints_set (vals : List Nat) (k c : Nat) : (ints vals).set k (c : Int) = ints (vals.set k c) := by
  simp [List.map_set]

theorem ph2_write (vals vals' : List Nat) (colOff cstart count c : Nat) (s : St) (h18 : s.v18 = true) (h5 : 0 ≤ s.v5)
    (h3 : s.p3 = ints vals) (h15 : s.v15 = (colOff : Int)) (h12 : s.v12 = (cstart : Int)) (h11 : s.v11 = (count : Int))
    (h19 : s.v19 = (c : Int)) (hset : setE vals (colOff + cstart + count) c "column_vals[col_offset+cur_cell_start+cur_cell_char_count]" = .ok vals') :
    ph2 s = .ok { s with p3 := ints vals', v11 := ((count + 1 : Nat) : Int),
                         v14 := s.v14 || decide (s.v16 ≤ ((cstart + count + 1 : Nat) : Int)),
                         v6 := if decide (s.v16 ≤ ((cstart + count + 1 : Nat) : Int)) then s.v4 else s.v6 } := by
  have hk : ((colOff : Int) + (cstart : Int)) + (count : Int) = ((colOff + cstart + count : Nat) : Int) := by omega
  have hge : (s.v5 ≥ 0) := h5
  unfold setE at hset
  by_cases hlt : colOff + cstart + count < vals.length
  · simp only [hlt, if_true, Except.ok.injEq] at hset
    subst hset
    have hlt' : colOff + cstart + count < (ints vals).length := by simpa using hlt
    unfold ph2
    simp only [h18, hge, decide_true, Bool.and_self, if_true, h3, h15, h12, h11, h19, hk, setIdxE_nat, setE, hlt',
      bindE_ok, ints_set]
    have e2 : ((count : Int) + 1) = ((count + 1 : Nat) : Int) := by omega
    simp only [e2]
    by_cases hf : s.v16 ≤ ((cstart + count + 1 : Nat) : Int)
    · have hf' : ((cstart : Int) + ((count + 1 : Nat) : Int) ≥ s.v16) := by omega
      simp only [hf', hf, decide_true, if_true, Bool.or_true]
    · have hf' : ¬ ((cstart : Int) + ((count + 1 : Nat) : Int) ≥ s.v16) := by omega
      simp only [hf', hf, decide_false, Bool.false_eq_true, if_false, Bool.or_false]
  · simp [hlt] at hset

/-! ### phase 3: `endCell` -/

theorem idxWE_nat {α} (xs : List α) (i : Nat) (site : String) : idxWE xs (i : Int) site = getE xs i site := by
  simp [idxWE]

theorem setIdxWE_nat {α} (xs : List α) (i : Nat) (v : α) (site : String) : setIdxWE xs (i : Int) v site = setE xs i v site := by
  simp [setIdxWE]

theorem idxWE_last {α} (r : List α) (L : Nat) (h : r.length = L + 1) (site : String) :
    idxWE r (-1) site = getE r L site := by
  have h1 : ¬ ((0 : Int) ≤ -1) := by omega
  have h2 : (-(-1 : Int) ≤ (r.length : Int)) := by omega
  have h3 : r.length - (-(-1 : Int)).toNat = L := by omega
  simp only [idxWE, h1, if_false, h2, if_true, h3]

/-- `column_inds[col, row]` for a row number that is a natural -/
theorem get2W_nat (inds : List (List Nat)) (col row cs : Nat) (site0 site : String)
    (h : get2 inds col row site0 = .ok cs) :
    ∀ {β} (K : Int → Except Err β),
      bindE (idxWE (ints2 inds) (col : Int) site) (fun t => bindE (idxWE t (row : Int) site) K) = K (cs : Int) := by
  intro β K
  unfold get2 at h
  cases hr : inds[col]? with
  | none => simp [hr] at h
  | some r =>
    simp only [hr, getE_eq_ok] at h
    simp [idxWE_nat, getE, List.getElem?_map, hr, h]

/-- `column_inds[col, -1]` (numpy wraps around): the last slot of the row, `maxrow` -/
theorem get2W_neg (inds : List (List Nat)) (L col cs : Nat) (hrect : ∀ r ∈ inds, r.length = L + 1) (site0 site : String)
    (h : get2 inds col L site0 = .ok cs) :
    ∀ {β} (K : Int → Except Err β),
      bindE (idxWE (ints2 inds) (col : Int) site) (fun t => bindE (idxWE t (-1) site) K) = K (cs : Int) := by
  intro β K
  unfold get2 at h
  cases hr : inds[col]? with
  | none => simp [hr] at h
  | some r =>
    simp only [hr, getE_eq_ok] at h
    have hlen : (ints r).length = L + 1 := by simpa using hrect r (List.mem_of_getElem? hr)
    simp [idxWE_nat, getE, List.getElem?_map, hr, idxWE_last _ L hlen, h]

theorem set2W (inds inds' : List (List Nat)) (col row v : Nat) (site0 site : String)
    (h : set2 inds col row v site0 = .ok inds') :
    setIdx2WE (ints2 inds) (col : Int) (row : Int) (v : Int) site = .ok (ints2 inds') := by
  unfold set2 at h
  cases hr : inds[col]? with
  | none => simp [hr] at h
  | some r =>
    have hcol : col < inds.length := by
      rcases Nat.lt_or_ge col inds.length with hh | hh
      · exact hh
      · simp [List.getElem?_eq_none hh] at hr
    have hr' : inds[col] = r := by
      have := List.getElem?_eq_getElem hcol
      rw [this] at hr; exact Option.some.inj hr
    by_cases hlt : row < r.length
    · simp only [hr, hlt, if_true, Except.ok.injEq] at h
      subst h
      subst hr'
      simp [setIdx2WE, idxWE_nat, setIdxWE_nat, getE, setE, List.getElem?_map, hlt, hcol, List.map_set]
    · simp [hr, hlt] at h

theorem set2_rect (inds inds' : List (List Nat)) (L col row v : Nat) (site0 : String)
    (hrect : ∀ r ∈ inds, r.length = L + 1) (h : set2 inds col row v site0 = .ok inds') : ∀ r ∈ inds', r.length = L + 1 := by
  unfold set2 at h
  cases hr : inds[col]? with
  | none => simp [hr] at h
  | some r0 =>
    by_cases hlt : row < r0.length
    · simp only [hr, hlt, if_true, Except.ok.injEq] at h
      subst h
      intro r hmem
      rcases List.mem_or_eq_of_mem_set hmem with h1 | h1
      · exact hrect r h1
      · subst h1
        simpa using hrect r0 (List.mem_of_getElem? hr)
    · simp [hr, hlt] at h

theorem ph3_cell (src : Bytes) (offs : List Nat) (L fuel : Nat) (hf : src.length ≤ fuel)
    (inds inds' : List (List Nat)) (hdr : Bool) (row col cstart count index o o1 cs : Nat) (s : St)
    (h8 : s.v8 = true) (h9 : s.v9 = false) (h5 : s.v5 = if hdr then (-1 : Int) else (row : Int)) (h4 : s.v4 = (col : Int))
    (hp2 : s.p2 = ints2 inds) (h12 : s.v12 = (cstart : Int)) (h11 : s.v11 = (count : Int)) (hp4 : s.p4 = ints offs)
    (h0 : s.p0 = ints src) (hp9 : s.p9 = ((WS : Nat) : Int)) (h2 : s.v2 = (index : Int))
    (hrect : ∀ r ∈ inds, r.length = L + 1)
    (hset : (if hdr then Except.ok inds else set2 inds col (row + 1) (cstart + count) "column_inds[col_index,row_index+1]") = .ok inds')
    (ho : offs[col + 1]? = some o) (ho1 : offs[col + 1 + 1]? = some o1)
    (hcs : get2 inds' (col + 1) (if hdr then L else row) "column_inds[col_index,row_index]" = .ok cs) :
    ph3 fuel s = .ok { s with p2 := ints2 inds', v4 := ((col + 1 : Nat) : Int), v15 := (o : Int), v16 := (o1 : Int) - (o : Int),
                              v12 := (cs : Int), v11 := 0, v2 := ((skipAfter src index : Nat) : Int),
                              v17 := ((skipAfter src index : Nat) : Int) + 1 } := by
  have hcast1 : ((col : Int) + 1) = ((col + 1 : Nat) : Int) := by omega
  have hcast2 : (((col + 1 : Nat) : Int) + 1) = ((col + 1 + 1 : Nat) : Int) := by omega
  have hv : ((cstart : Int) + (count : Int)) = ((cstart + count : Nat) : Int) := by omega
  cases hdr with
  | true =>
    simp only [if_true] at hset h5 hcs
    cases hset
    have hneg : ¬ (s.v5 ≥ 0) := by rw [h5]; omega
    unfold ph3
    simp only [h8, if_true, hneg, decide_false, Bool.false_eq_true, if_false, bindE_ok]
    simp only [h9, Bool.false_eq_true, if_false, h4, hcast1, hcast2, hp4,
      idx_src offs (col + 1) o ho, idx_src offs (col + 1 + 1) o1 ho1, bindE_ok]
    simp only [hp2, h5, get2W_neg inds L (col + 1) cs hrect _ _ hcs]
    rw [skipAfter_loop src fuel index _ (by first | rfl | exact h0) (by first | rfl | exact hp9) (by first | rfl | exact h2) (by omega)]
    simp only [bindE_ok]
    try (cases s; simp_all)
  | false =>
    simp only [Bool.false_eq_true, if_false] at hset h5 hcs
    have hpos : (s.v5 ≥ 0) := by rw [h5]; omega
    have hcastr : ((row : Int) + 1) = ((row + 1 : Nat) : Int) := by omega
    have hrect' := set2_rect inds inds' L col (row + 1) (cstart + count) _ hrect hset
    unfold ph3
    simp only [h8, if_true, hpos, decide_true]
    simp only [hp2, h4, h5, hcastr, h12, h11, hv, set2W inds inds' col (row + 1) (cstart + count) _ _ hset, bindE_ok]
    simp only [h9, Bool.false_eq_true, if_false, h4, hcast1, hcast2, hp4,
      idx_src offs (col + 1) o ho, idx_src offs (col + 1 + 1) o1 ho1, bindE_ok]
    simp only [h5, get2W_nat inds' (col + 1) row cs _ _ hcs]
    rw [skipAfter_loop src fuel index _ (by first | rfl | exact h0) (by first | rfl | exact hp9) (by first | rfl | exact h2) (by omega)]
    simp only [bindE_ok]
    try (cases s; simp_all)

theorem idx0 (offs : List Nat) (o : Nat) (h : offs[0]? = some o) (site : String) :
    idxE (ints offs) 0 site = .ok (o : Int) := by simpa using idx_src offs 0 o h site

theorem idx01 (offs : List Nat) (o1 : Nat) (h : offs[0 + 1]? = some o1) (site : String) :
    idxE (ints offs) (0 + 1) site = .ok (o1 : Int) := by simpa using idx_src offs 1 o1 h site

theorem get2W_nat0 (inds : List (List Nat)) (row cs : Nat) (site0 site : String)
    (h : get2 inds 0 row site0 = .ok cs) :
    ∀ {β} (K : Int → Except Err β),
      bindE (idxWE (ints2 inds) 0 site) (fun t => bindE (idxWE t (row : Int) site) K) = K (cs : Int) := by
  intro β K
  simpa using get2W_nat inds 0 row cs site0 site h K

theorem ph3_line (src : Bytes) (offs : List Nat) (L fuel : Nat) (hf : src.length ≤ fuel)
    (inds inds' : List (List Nat)) (hdr : Bool) (row col cstart count index o o1 cs : Nat) (s : St)
    (h8 : s.v8 = true) (h9 : s.v9 = true) (h5 : s.v5 = if hdr then (-1 : Int) else (row : Int)) (h4 : s.v4 = (col : Int))
    (h1 : s.v1 = (L : Int))
    (hp2 : s.p2 = ints2 inds) (h12 : s.v12 = (cstart : Int)) (h11 : s.v11 = (count : Int)) (hp4 : s.p4 = ints offs)
    (h0 : s.p0 = ints src) (hp9 : s.p9 = ((WS : Nat) : Int)) (h2 : s.v2 = (index : Int))
    (hset : (if hdr then Except.ok inds else set2 inds col (row + 1) (cstart + count) "column_inds[col_index,row_index+1]") = .ok inds')
    (ho : offs[0]? = some o) (ho1 : offs[0 + 1]? = some o1)
    (hcs : get2 inds' 0 (if hdr then 0 else row + 1) "column_inds[col_index,row_index]" = .ok cs) :
    ph3 fuel s = .ok { s with p2 := ints2 inds', v5 := (((if hdr then 0 else row + 1 : Nat)) : Int), v4 := 0, v15 := (o : Int),
                              v16 := (o1 : Int) - (o : Int), v13 := s.v13 || decide ((if hdr then 0 else row + 1) = L),
                              v12 := (cs : Int), v11 := 0, v2 := ((skipAfter src index : Nat) : Int),
                              v17 := ((skipAfter src index : Nat) : Int) + 1 } := by
  have hv : ((cstart : Int) + (count : Int)) = ((cstart + count : Nat) : Int) := by omega
  cases hdr with
  | true =>
    simp only [if_true] at hset h5 hcs ⊢
    cases hset
    have hneg : ¬ (s.v5 ≥ 0) := by rw [h5]; omega
    have e0 : ((-1 : Int) + 1) = ((0 : Nat) : Int) := by omega
    unfold ph3
    simp only [h8, if_true, hneg, decide_false, Bool.false_eq_true, if_false, bindE_ok]
    simp only [h9, if_true, hp4, idx0 offs o ho, idx01 offs o1 ho1, bindE_ok]
    simp only [h5, h1, e0, beq_cast]
    by_cases hL : 0 = L
    · have hd : decide (0 = L) = true := by simp [hL]
      simp only [hd, if_true, bindE_ok, hp2, get2W_nat0 inds 0 cs _ _ hcs]
      rw [skipAfter_loop src fuel index _ (by first | rfl | exact h0) (by first | rfl | exact hp9) (by first | rfl | exact h2) (by omega)]
      simp only [bindE_ok]
      try (cases s; simp_all)
    · have hd : decide (0 = L) = false := by simp [hL]
      simp only [hd, Bool.false_eq_true, if_false, bindE_ok, hp2, get2W_nat0 inds 0 cs _ _ hcs]
      rw [skipAfter_loop src fuel index _ (by first | rfl | exact h0) (by first | rfl | exact hp9) (by first | rfl | exact h2) (by omega)]
      simp only [bindE_ok]
      try (cases s; simp_all)
  | false =>
    simp only [Bool.false_eq_true, if_false] at hset h5 hcs ⊢
    have hpos : (s.v5 ≥ 0) := by rw [h5]; omega
    have hcastr : ((row : Int) + 1) = ((row + 1 : Nat) : Int) := by omega
    unfold ph3
    simp only [h8, if_true, hpos, decide_true]
    simp only [hp2, h4, h5, hcastr, h12, h11, hv, set2W inds inds' col (row + 1) (cstart + count) _ _ hset, bindE_ok]
    simp only [h9, if_true, hp4, idx0 offs o ho, idx01 offs o1 ho1, bindE_ok]
    simp only [h5, h1, hcastr, beq_cast]
    by_cases hL : row + 1 = L
    · have hd : decide (row + 1 = L) = true := by simp [hL]
      simp only [hd, if_true, bindE_ok, get2W_nat0 inds' (row + 1) cs _ _ hcs]
      rw [skipAfter_loop src fuel index _ (by first | rfl | exact h0) (by first | rfl | exact hp9) (by first | rfl | exact h2) (by omega)]
      simp only [bindE_ok]
      try (cases s; simp_all)
    · have hd : decide (row + 1 = L) = false := by simp [hL]
      simp only [hd, Bool.false_eq_true, if_false, bindE_ok, get2W_nat0 inds' (row + 1) cs _ _ hcs]
      rw [skipAfter_loop src fuel index _ (by first | rfl | exact h0) (by first | rfl | exact hp9) (by first | rfl | exact h2) (by omega)]
      simp only [bindE_ok]
      try (cases s; simp_all)

theorem ph3_skip (fuel : Nat) (s : St) (h : s.v8 = false) : ph3 fuel s = .ok s := by
  unfold ph3; simp [h]

/-! ### phase 4: advance, test for the end of the call -/

def fin (s : St) : St :=
  if ((s.v2 + 1 == pyLen s.p0) || (s.v13 || s.v14)) then
    { s with v2 := s.v2 + 1, v20 := s.v3 + 1, v21 := s.v5, ret := true, rv0 := s.v3 + 1, rv1 := s.v5, rv2 := s.v13, rv3 := s.v14,
             rv4 := s.v6 }
  else { s with v2 := s.v2 + 1 }

theorem ph4_eq (s : St) : ph4 s = .ok (fin s) := by
  unfold ph4 fin
  by_cases h : ((s.v2 + 1 == pyLen s.p0) || (s.v13 || s.v14)) = true
  · simp only [h, if_true]
  · simp only [h, Bool.false_eq_true, if_false]

end Exetera.GenK.CsvK
