import Exetera.Model.StreamFuel
import Exetera.Lemmas.WhileFuel
import Exetera.Lemmas.MapValidBasic
/-! C12, `ordered_map_valid_indexed_stream`: raising the fuel of the driver loops does not change a run that did not run out of
    fuel (`indexedStream_agree`), and every iteration of the `while sm < sm_end` loop makes progress (`innerBody_progress`). -/
namespace Exetera.MapValid
open Exetera

theorem foldE_agree {σ γ} (b bF : γ → σ → Except Err σ) :
    ∀ (xs : List γ) (s : σ), (∀ x ∈ xs, ∀ s, FuelAgree (b x s) (bF x s)) → FuelAgree (foldE b xs s) (foldE bF xs s)
  | [], s, _ => Or.inr rfl
  | x :: xs, s, h => by
    rcases h x (by simp) s with h1 | h1
    · left; simp [foldE, h1]
    · cases hb : b x s with
      | error e => right; simp [foldE, h1, hb]
      | ok s1 =>
        rcases foldE_agree b bF xs s1 (fun y hy => h y (by simp [hy])) with h2 | h2
        · left; simp [foldE, hb, h2]
        · right; simp [foldE, h1, hb, h2]

/-- the decomposition of `[s, e)` has at most `max 1 (e - s)` pieces, and `e` is a position of `indices` -/
theorem chunkDecompF_length (indices : List Int) (budget : Int) :
    ∀ (f s e : Nat) (subs : List (Nat × Nat)), chunkDecompF indices budget f s e = .ok subs →
      subs.length ≤ max 1 (e - s) ∧ e < indices.length := by
  intro f
  induction f with
  | zero => intro s e subs h; simp [chunkDecompF] at h
  | succ f ih =>
    intro s e subs h
    unfold chunkDecompF at h
    cases hie : indices[e]? with
    | none => simp [hie] at h
    | some ie =>
      have hel : e < indices.length := by
        rcases List.getElem?_eq_some_iff.mp hie with ⟨hl, _⟩; exact hl
      cases his : indices[s]? with
      | none => simp [hie, his] at h
      | some is_ =>
        simp only [hie, his] at h
        split at h
        · rename_i hsplit
          cases h1 : chunkDecompF indices budget f s (s + (e - s) / 2) with
          | error er => simp [h1] at h
          | ok l1 =>
            cases h2 : chunkDecompF indices budget f (s + (e - s) / 2) e with
            | error er => simp [h1, h2] at h
            | ok l2 =>
              simp only [h1, h2, Except.ok.injEq] at h
              subst h
              have a1 := (ih _ _ _ h1).1
              have a2 := (ih _ _ _ h2).1
              simp only [List.length_append]
              omega
        · simp only [Except.ok.injEq] at h
          subst h
          simp
          omega

theorem pySlice_length_le {α} (xs : List α) (a b : Int) : (pySlice xs a b).length ≤ xs.length := by
  simp only [pySlice, slice_length]; omega

/-- the loop `while sm < sm_end` of one sub-chunk: any fuel covering the sub-chunk and the source offsets agrees -/
theorem indexedSubBody_agree {β} (fuel : Nat) (indices : List Int) (values : List β) (map_ : List Int) (inv : Int)
    (cs vf : Nat) (se : Nat × Nat) (o : IO β) (hfuel : se.2 - se.1 + indices.length ≤ fuel) :
    FuelAgree (indexedSubBody indices values map_ inv cs vf se o) (indexedSubBodyF fuel indices values map_ inv cs vf se o) := by
  unfold indexedSubBody indexedSubBodyF
  cases getValidValueExtents map_ se.1 se.2 inv with
  | error e => exact Or.inr rfl
  | ok lim =>
    simp only []
    split
    · exact Or.inr rfl
    · cases hd : chunkDecomp (pySlice indices lim.1 (lim.2 + 2)) ((cs * vf : Nat) : Int) 0 (lim.2 - lim.1 + 1).toNat with
      | error e => exact Or.inr rfl
      | ok subs =>
        simp only []
        cases getE subs 0 "sub_chunks[0]" with
        | error e => exact Or.inr rfl
        | ok sc =>
          simp only []
          cases valueWindow (pySlice indices lim.1 (lim.2 + 2)) values sc with
          | error e => exact Or.inr rfl
          | ok vals =>
            simp only []
            obtain ⟨hlen, hE⟩ := chunkDecompF_length _ _ _ _ _ _ hd
            have hpl := pySlice_length_le indices lim.1 (lim.2 + 2)
            have hbud : se.2 - se.1 + subs.length ≤ fuel := by omega
            rcases whileE_agree (fun w : IW β => decide (w.sm < se.2))
                (innerBody map_ se.2 (pySlice indices lim.1 (lim.2 + 2)) values subs lim.1 cs (cs * vf) inv) _
                (fun _ => Or.inr rfl) (se.2 - se.1 + subs.length)
                ⟨se.1, 0, sc, vals, [], [], o.accum, o.outI, o.outV⟩ fuel hbud with h | h
            · left; rw [h]
            · right; rw [h]; rfl

theorem Tiles.mem_bounds : ∀ {subs : List (Nat × Nat)} {a b : Nat}, Tiles subs a b →
    ∀ se ∈ subs, a ≤ se.1 ∧ se.1 < se.2 ∧ se.2 ≤ b
  | [], _, _, _ => by simp
  | t :: rest, a, b, h => by
    obtain ⟨h1, h2, h3⟩ := h
    intro se hse
    rcases List.mem_cons.mp hse with rfl | hm
    · exact ⟨by omega, by omega, Tiles.le h3⟩
    · have := Tiles.mem_bounds h3 se hm
      omega

theorem indexedChunkBody_agree {β} (fuel : Nat) (indices : List Int) (values : List β) (m : List Int) (inv : Int)
    (cs vf : Nat) (hcs : 1 ≤ cs) (hfuel : m.length + indices.length ≤ fuel) (s : ISt β) :
    FuelAgree (indexedChunkBody indices values m inv cs vf s) (indexedChunkBodyF fuel indices values m inv cs vf s) := by
  unfold indexedChunkBody indexedChunkBodyF
  simp only []
  obtain ⟨subs, hsub, htiles⟩ := subchunks_tiles (slice m s.lo s.hi) inv cs hcs
  rw [hsub]
  simp only []
  have hml : (slice m s.lo s.hi).length ≤ m.length := by simp only [slice_length]; omega
  rcases foldE_agree (indexedSubBody indices values (slice m s.lo s.hi) inv cs vf)
      (indexedSubBodyF fuel indices values (slice m s.lo s.hi) inv cs vf) subs s.io
      (fun se hse o => indexedSubBody_agree fuel indices values _ inv cs vf se o (by
        have := Tiles.mem_bounds htiles se hse
        omega)) with h | h
  · left; rw [h]
  · right; rw [h]; rfl

/-- **the tie of the fuel-parametrised indexed stream to the model**: with any fuel `≥ |map| + |indices|` for the loop over map
    chunks and for every `while sm < sm_end` loop, the result is the model's — unless the model itself ran out of fuel -/
theorem indexedStream_agree {β} (fuel : Nat) (indices : List Int) (values : List β) (m : List Int) (inv : Int)
    (cs vf : Nat) (hcs : 1 ≤ cs) (hfuel : m.length + indices.length ≤ fuel) :
    FuelAgree (orderedMapValidIndexedStream indices values m inv cs vf)
      (orderedMapValidIndexedStreamF fuel indices values m inv cs vf) := by
  unfold orderedMapValidIndexedStream orderedMapValidIndexedStreamF
  simp only []
  rcases whileE_agree (fun s : ISt β => decide (s.lo < m.length)) (indexedChunkBody indices values m inv cs vf)
      (indexedChunkBodyF fuel indices values m inv cs vf)
      (indexedChunkBody_agree fuel indices values m inv cs vf hcs hfuel) m.length
      ⟨(Join.nextChunk 0 m.length cs).1, (Join.nextChunk 0 m.length cs).2, ⟨0, List.replicate (min 1 cs) 0, []⟩⟩ fuel
      (by omega) with h | h
  · left; rw [h]
  · right; rw [h]; rfl

/-! ### progress of the `while sm < sm_end` loop -/

theorem ipBody_sm {β} (p : IPar β) (s s' : IP β) (h : ipBody p s = .ok s') : s.sm ≤ s'.sm := by
  unfold ipBody at h
  split at h
  · cases h
  · split at h
    · split at h
      · cases h; simp
      · cases h
    · simp only [] at h
      split at h
      · cases h; simp
      · split at h
        · split at h
          · cases h; simp
          · split at h
            · cases h
            · split at h
              · cases h; simp
              · cases h
        · cases h
        · cases h

theorem indexedPartial_sm {β} {map_ : List Int} {smEnd : Nat} {indices : List Int} {iStart iMax : Nat} {values : List β}
    {mvStart : Int} {capI capV : Nat} {inv : Int} {sm : Nat} {ri : List Int} {rv : List β} {accum : Int} {p : IP β}
    (h : indexedPartial map_ smEnd indices iStart iMax values mvStart capI capV inv sm ri rv accum = .ok p) :
    sm ≤ p.sm := by
  unfold indexedPartial at h
  split at h
  · cases h
  · exact whileE_invariant _ _ (fun s : IP β => sm ≤ s.sm)
      (fun s s' hs _ hb => Nat.le_trans hs (ipBody_sm _ s s' hb)) _ _ _ (Nat.le_refl _) h

/-- **every iteration of `while sm < sm_end` consumes a map entry or moves to the next value sub-chunk** (D5 repaired): the
    measure `(sm_end - sm) + (len(sub_chunks) - s)` strictly decreases over every successful iteration -/
theorem innerBody_progress {β} (map_ : List Int) (smEnd : Nat) (indices_ : List Int) (values : List β)
    (subs : List (Nat × Nat)) (mvStart : Int) (capI capV : Nat) (inv : Int) (w w' : IW β)
    (hg : w.sm < smEnd) (hs : w.s < subs.length) (hsm' : w'.sm ≤ smEnd)
    (h : innerBody map_ smEnd indices_ values subs mvStart capI capV inv w = .ok w') :
    (smEnd - w'.sm) + (subs.length - w'.s) < (smEnd - w.sm) + (subs.length - w.s) ∧ w'.s < subs.length ∧
      w.sm ≤ w'.sm ∧ w.s ≤ w'.s := by
  unfold innerBody at h
  cases hp : indexedPartial map_ smEnd indices_ w.sc.1 w.sc.2 w.vals mvStart capI capV inv w.sm w.ri w.rv w.accum with
  | error e => simp [hp] at h
  | ok p =>
    have hge := indexedPartial_sm hp
    simp only [hp] at h
    split at h
    · cases h
    · rename_i hno
      split at h
      · rename_i hneed
        cases hsc : getE subs (w.s + 1) "sub_chunks[s]" with
        | error e => simp [hsc] at h
        | ok sc =>
          have hlt : w.s + 1 < subs.length := by
            rw [getE_eq_ok] at hsc
            rcases List.getElem?_eq_some_iff.mp hsc with ⟨hl, _⟩; exact hl
          simp only [hsc] at h
          split at h
          · cases h
          · simp only [Except.ok.injEq] at h
            subst h
            simp only [] at hsm' ⊢
            omega
      · rename_i hneed
        simp only [Except.ok.injEq] at h
        subst h
        simp only [] at hsm' ⊢
        have : p.sm ≠ w.sm := by
          intro heq
          apply hno
          simp [heq, hneed]
        omega

end Exetera.MapValid
