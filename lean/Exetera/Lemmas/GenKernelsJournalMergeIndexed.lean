import Exetera.Gen.Kernels
import Exetera.Model.Journal
import Exetera.Lemmas.GenKernels
import Exetera.Lemmas.GenKernelsLoops
import Exetera.Lemmas.GenKernelsSpans
import Exetera.Lemmas.GenKernelsSpansIndex
import Exetera.Lemmas.GenKernelsJournal
import Exetera.Lemmas.GenKernelsJournalMerge
/-!
  The TRANSLATED `merge_indexed_journalled_entries` (a `for` loop around a `while` loop whose condition subscripts; offsets written
  one by one, bytes copied by slice assignment) against `Journal.mergeIndexedEntries` — transfer form: every `.ok` run of the model is
  a run of the translated kernel on zero-filled destinations of the same capacities, with the same final destinations, for every
  fuel that covers the old offsets. Kept slots must have a non-negative `new_map` entry (the model wraps a negative subscript, the
  translation rejects it).
-/
namespace Exetera.GenK

open Exetera Exetera.PyRt Exetera.Journal Exetera.Gen.Kernels

/-- the model's clamped slice assignment (sizes must agree) is an instance of numpy's rule -/
theorem setSliceE_journal (dst src v : List Int) (lo hi : Nat) (h : Journal.setSliceE dst lo hi src = .ok v) :
    PyRt.setSliceE dst (some (lo : Int)) (some (hi : Int)) src = .ok v := by
  simp only [Journal.setSliceE] at h
  split at h
  · rename_i heq
    simp only [Except.ok.injEq] at h
    subst h
    have h1 : ¬ ((lo : Int) < 0) := by omega
    have h2 : ¬ ((hi : Int) < 0) := by omega
    have heq' : min hi dst.length - min lo dst.length = src.length := by simpa using heq
    simp only [PyRt.setSliceE, normBound, h1, h2, if_false, Int.toNat_natCast]
    have hb : max (min lo dst.length) (min hi dst.length) - min lo dst.length = src.length := by omega
    simp [broadcastTo, hb]
  · simp at h

namespace MI

abbrev St := merge_indexed_journalled_entries.St

def destI (capI : Nat) (ib : List Nat) : List Int := ints (ib ++ List.replicate (capI - ib.length) 0)

def R (om nm : List Int) (tk : List Bool) (oi : List Nat) (ov : List Int) (ni : List Nat) (nv : List Int) (capI : Nat)
    (t : IS) (s : St) : Prop :=
  s.p0 = om ∧ s.p1 = nm ∧ s.p2 = tk ∧ s.p3 = ints oi ∧ s.p4 = ov ∧ s.p5 = ints ni ∧ s.p6 = nv ∧ s.p7 = destI capI t.ib ∧
    s.p8 = t.vals ∧ s.v0 = (t.cur : Int) ∧ s.v1 = (t.ib.length : Int) ∧ s.v2 = (t.acc : Int) ∧ t.ib.length ≤ capI

theorem pushI_sim (capI : Nat) (t t' : IS) (v : Nat) (site : String) (h : pushI capI t v = .ok t') :
    setIdxE (destI capI t.ib) (t.ib.length : Int) (v : Int) site = .ok (destI capI t'.ib) ∧ t'.ib.length = t.ib.length + 1 ∧
      t'.ib.length ≤ capI ∧ t'.cur = t.cur ∧ t'.acc = t.acc ∧ t'.vals = t.vals := by
  simp only [pushI] at h
  split at h
  · rename_i hlt
    simp only [Except.ok.injEq] at h
    subst h
    refine ⟨?_, by simp, by simp; omega, rfl, rfl, rfl⟩
    rw [setIdxE_nat]
    simp only [setE, destI, ints_length, List.length_append, List.length_replicate]
    have : t.ib.length < t.ib.length + (capI - t.ib.length) := by omega
    simp only [this, if_true, Except.ok.injEq]
    have hrep : List.replicate (capI - t.ib.length) (0 : Nat) = 0 :: List.replicate (capI - (t.ib.length + 1)) 0 := by
      have : capI - t.ib.length = (capI - (t.ib.length + 1)) + 1 := by omega
      rw [this, List.replicate_succ]
    rw [hrep]
    simp only [ints, List.map_append, List.map_cons, List.length_singleton]
    rw [List.set_append_right _ _ (by simp)]
    simp
  · simp at h

/-- `copyRow` against the translated block `ind_delta = b - a; ind_acc += ind_delta; dest_inds[cur_dest] = ind_acc; if ind_delta > 0:
    dest_vals[ind_acc - ind_delta : ind_acc] = src[a:b]` -/
theorem copyRow_sim (capI : Nat) (t t' : IS) (a b : Nat) (src : List Int) (site : String)
    (h : copyRow capI t a b src = .ok t') :
    ∃ d : Nat, (b : Int) - (a : Int) = (d : Int) ∧ t'.acc = t.acc + d ∧ t'.cur = t.cur ∧
      setIdxE (destI capI t.ib) (t.ib.length : Int) ((t.acc + d : Nat) : Int) site = .ok (destI capI t'.ib) ∧
      t'.ib.length = t.ib.length + 1 ∧ t'.ib.length ≤ capI ∧
      (if d > 0 then PyRt.setSliceE t.vals (some (((t.acc + d : Nat) : Int) - (d : Int))) (some ((t.acc + d : Nat) : Int)) (slice src a b)
          = .ok t'.vals
       else t'.vals = t.vals) := by
  simp only [copyRow, bind, Except.bind, pure, Except.pure] at h
  cases hd : deltaE a b with
  | error e => rw [hd] at h; simp at h
  | ok d =>
    rw [hd] at h
    simp only [] at h
    cases hp : pushI capI t (t.acc + d) with
    | error e => rw [hp] at h; simp at h
    | ok t1 =>
      rw [hp] at h
      simp only [] at h
      obtain ⟨hset, hlen, hle, hcur, hacc, hvals⟩ := pushI_sim capI t t1 (t.acc + d) site hp
      by_cases hd0 : d > 0
      · simp only [hd0, if_true] at h
        cases hss : Journal.setSliceE t1.vals (t.acc + d - d) (t.acc + d) (slice src a b) with
        | error e => rw [hss] at h; simp at h
        | ok v =>
          rw [hss] at h
          simp only [Except.ok.injEq] at h
          subst h
          refine ⟨d, MC.deltaE_ok hd, rfl, hcur, hset, hlen, hle, ?_⟩
          simp only [hd0, if_true]
          have := setSliceE_journal _ _ _ _ _ hss
          rw [hvals] at this
          have e : (((t.acc + d - d : Nat)) : Int) = ((t.acc + d : Nat) : Int) - (d : Int) := by omega
          rw [e] at this
          exact this
      · simp only [hd0, if_false, Except.ok.injEq] at h
        subst h
        refine ⟨d, MC.deltaE_ok hd, rfl, hcur, hset, hlen, hle, ?_⟩
        simp only [hd0, if_false]
        exact hvals

/-- the translated copy block, run on a state related to `t`, given the facts `copyRow_sim` delivers -/
theorem while_sim (om nm : List Int) (tk : List Bool) (oi : List Nat) (ov : List Int) (ni : List Nat) (nv : List Int) (capI i : Nat)
    (o : Int) (ho : om[i]? = some o) (n : Nat) (t t' : IS) (s : St) (hR : R om nm tk oi ov ni nv capI t s) (hi : s.v3 = (i : Int))
    (h : whileE (fun s => decide ((s.cur : Int) ≤ o)) (copyOldRowBody capI oi ov) n t = .ok t') (F : Nat) (hF : oi.length ≤ F) :
    ∃ s', whileG merge_indexed_journalled_entries.guardE_L2 merge_indexed_journalled_entries.body_L2 F s = .ok s' ∧
      R om nm tk oi ov ni nv capI t' s' ∧ s'.v3 = (i : Int) := by
  have := whileG_of_whileE (fun (s : St) (t : IS) => R om nm tk oi ov ni nv capI t s ∧ s.v3 = (i : Int))
    merge_indexed_journalled_entries.guardE_L2 merge_indexed_journalled_entries.body_L2
    (fun s => decide ((s.cur : Int) ≤ o)) (copyOldRowBody capI oi ov) (fun t => oi.length - t.cur)
    (by
      rintro s t ⟨⟨h0, _, _, _, _, _, _, _, _, hv0, _, _, _⟩, hv3⟩
      simp only [merge_indexed_journalled_entries.guardE_L2, h0, hv3, hv0, idxE_nat, getE, ho, bindE_ok])
    (by
      rintro s t t' ⟨⟨h0, h1, h2, h3, h4, h5, h6, h7, h8, hv0, hv1, hv2, hle⟩, hv3⟩ _ hb
      simp only [copyOldRowBody] at hb
      have hc1 : ((t.cur : Int) + 1) = ((t.cur + 1 : Nat) : Int) := by omega
      cases hgb : oi[t.cur + 1]? with
      | none => simp [getE, hgb] at hb
      | some b =>
        cases hga : oi[t.cur]? with
        | none => simp [getE, hgb, hga] at hb
        | some a =>
          simp only [getE, hgb, hga] at hb
          cases hcr : copyRow capI t a b ov with
          | error e => rw [hcr] at hb; simp at hb
          | ok t1 =>
            rw [hcr] at hb
            simp only [Except.ok.injEq] at hb
            subst hb
            obtain ⟨d, hd, hacc, hcur, hset, hlen, hle', hvals⟩ := copyRow_sim capI t t1 a b ov "p7[v1]" hcr
            have hlt : t.cur + 1 < oi.length := (List.getElem?_eq_some_iff.mp hgb).1
            have hacc' : (t.acc : Int) + (d : Int) = ((t.acc + d : Nat) : Int) := by omega
            simp only [merge_indexed_journalled_entries.body_L2, h3, h4, h7, h8, hv0, hv1, hv2, hc1, idxE_nat,
              getE_ints _ _ _ hgb, getE_ints _ _ _ hga, bindE_ok, hd, hacc', hset, pySlice_nat]
            by_cases hd0 : d > 0
            · have hd0' : decide ((d : Int) > 0) = true := decide_eq_true (by omega)
              simp only [hd0, if_true] at hvals
              simp only [hd0', if_true, hvals, bindE_ok]
              refine ⟨_, rfl, ⟨⟨h0, h1, h2, rfl, rfl, h5, h6, rfl, rfl, ?_, ?_, ?_, hle'⟩, hv3⟩, ?_⟩
              · simp
              · simp only [hlen]; omega
              · simp only [hacc]
              · show oi.length - (t.cur + 1) < oi.length - t.cur; omega
            · have hd0' : decide ((d : Int) > 0) = false := decide_eq_false (by omega)
              simp only [hd0, if_false] at hvals
              simp only [hd0', Bool.false_eq_true, if_false, bindE_ok]
              refine ⟨_, rfl, ⟨⟨h0, h1, h2, rfl, rfl, h5, h6, rfl, hvals.symm, ?_, ?_, ?_, hle'⟩, hv3⟩, ?_⟩
              · simp
              · simp only [hlen]; omega
              · simp only [hacc]
              · show oi.length - (t.cur + 1) < oi.length - t.cur; omega)
    n s t t' ⟨hR, hi⟩ h F (by omega)
  obtain ⟨s', hw, hR', hi'⟩ := this
  exact ⟨s', hw, hR', hi'⟩

/-- one iteration of `for i in range(len(old_map))` -/
theorem step (om nm : List Int) (tk : List Bool) (oi : List Nat) (ov : List Int) (ni : List Nat) (nv : List Int) (capI fuel : Nat)
    (hfuel : oi.length ≤ fuel) (hnn : ∀ (i : Nat) (n : Int), tk[i]? = some true → nm[i]? = some n → 0 ≤ n)
    (i : Nat) (t t' : IS) (s : St) (hR : R om nm tk oi ov ni nv capI t s)
    (h : mergeIndexedBody om nm tk oi ov ni nv capI i t = .ok t') :
    ∃ s', merge_indexed_journalled_entries.body_L1 fuel { s with v3 := (i : Int) } = .ok s' ∧ R om nm tk oi ov ni nv capI t' s' := by
  simp only [mergeIndexedBody, bind, Except.bind, pure, Except.pure] at h
  cases ho : getE om i "old_map[i]" with
  | error e => rw [ho] at h; simp at h
  | ok o =>
    rw [ho] at h
    simp only [] at h
    cases hw : whileE (fun s => decide ((s.cur : Int) ≤ o)) (copyOldRowBody capI oi ov) (o + 1 - (t.cur : Int)).toNat t with
    | error e => rw [hw] at h; simp at h
    | ok t1 =>
      rw [hw] at h
      simp only [] at h
      obtain ⟨s1, hs1, hR1, hi1⟩ := while_sim om nm tk oi ov ni nv capI i o (getE_eq_ok.mp ho) _ t t1
        { s with v3 := (i : Int) } hR rfl hw fuel hfuel
      obtain ⟨h0, h1, h2, h3, h4, h5, h6, h7, h8, hv0, hv1, hv2, hle⟩ := hR1
      simp only [merge_indexed_journalled_entries.body_L1, hs1, bindE_ok, h2, h1, h5, h6, h7, h8, hi1, hv1, hv2, idxE_nat]
      cases hk : getE tk i "to_keep[i]" with
      | error e => rw [hk] at h; simp at h
      | ok k =>
        rw [hk] at h
        simp only [] at h
        rw [getE_site_j "p2[v3]" hk]
        simp only [bindE_ok]
        cases k with
        | false =>
          simp only [Bool.false_eq_true, if_false, Except.ok.injEq] at h ⊢
          subst h
          exact ⟨_, rfl, h0, h1, h2, h3, h4, h5, h6, h7, h8, hv0, hv1, hv2, hle⟩
        | true =>
          simp only [if_true, beq_self_eq_true] at h ⊢
          cases hn : getE nm i "new_map[i]" with
          | error e => rw [hn] at h; simp at h
          | ok n =>
            rw [hn] at h
            simp only [] at h
            rw [getE_site_j "p1[v3]" hn]
            simp only [bindE_ok]
            have hn0 : 0 ≤ n := hnn i n (getE_eq_ok.mp hk) (getE_eq_ok.mp hn)
            rw [getI_nonneg_j _ _ _ (by omega : 0 ≤ n + 1), getI_nonneg_j _ _ _ hn0] at h
            cases hgb : ni[(n + 1).toNat]? with
            | none => simp [getE, hgb] at h
            | some b =>
              cases hga : ni[n.toNat]? with
              | none => simp [getE, hgb, hga] at h
              | some a =>
                simp only [getE, hgb, hga] at h
                obtain ⟨d, hd, hacc, hcur, hset, hlen, hle', hvals⟩ := copyRow_sim capI t1 t' a b nv "p7[v1]" h
                have hb' : ∀ site, idxE (ints ni) (n + 1) site = .ok (b : Int) := by
                  intro site; simp only [idxE, (by omega : 0 ≤ n + 1), if_true]; exact getE_ints _ _ _ hgb
                have ha' : ∀ site, idxE (ints ni) n site = .ok (a : Int) := by
                  intro site; simp only [idxE, hn0, if_true]; exact getE_ints _ _ _ hga
                have hacc' : (t1.acc : Int) + (d : Int) = ((t1.acc + d : Nat) : Int) := by omega
                simp only [hb', ha', bindE_ok, hd, hacc', hset, pySlice_nat]
                by_cases hd0 : d > 0
                · have hd0' : decide ((d : Int) > 0) = true := decide_eq_true (by omega)
                  simp only [hd0, if_true] at hvals
                  simp only [hd0', if_true, hvals, bindE_ok]
                  refine ⟨_, rfl, h0, rfl, rfl, h3, h4, rfl, rfl, rfl, rfl, ?_, ?_, ?_, hle'⟩
                  · simp only [hv0, hcur]
                  · simp only [hlen]; omega
                  · simp only [hacc]
                · have hd0' : decide ((d : Int) > 0) = false := decide_eq_false (by omega)
                  simp only [hd0, if_false] at hvals
                  simp only [hd0', Bool.false_eq_true, if_false, bindE_ok]
                  refine ⟨_, rfl, h0, rfl, rfl, h3, h4, rfl, rfl, rfl, hvals.symm, ?_, ?_, ?_, hle'⟩
                  · simp only [hv0, hcur]
                  · simp only [hlen]; omega
                  · simp only [hacc]

end MI

theorem destI_init (capI : Nat) (h : capI ≠ 0) : MI.destI capI [0] = List.replicate capI 0 := by
  cases capI with
  | zero => exact absurd rfl h
  | succ k => simp [MI.destI, ints, List.replicate_succ]

/-- every `.ok` run of the model is a run of the translated kernel on zero-filled destinations of the same capacities, with the
    same final destinations; any fuel that covers the old offsets -/
theorem merge_indexed_journalled_entries_ok (om nm : List Int) (tk : List Bool) (oi : List Nat) (ov : List Int) (ni : List Nat)
    (nv : List Int) (capI capV fuel : Nat) (ri : List Nat) (rv : List Int) (hfuel : oi.length ≤ fuel)
    (hnn : ∀ (i : Nat) (n : Int), tk[i]? = some true → nm[i]? = some n → 0 ≤ n)
    (h : mergeIndexedEntries om nm tk oi ov ni nv capI capV = .ok (ri, rv)) :
    merge_indexed_journalled_entries.run om nm tk (ints oi) ov (ints ni) nv (List.replicate capI 0) (List.replicate capV 0) fuel
      = .ok (ints ri, rv) := by
  unfold mergeIndexedEntries at h
  split at h
  · simp at h
  · rename_i hcap
    cases hf : forE (mergeIndexedBody om nm tk oi ov ni nv capI) om.length 0
        { cur := 0, acc := 0, ib := [0], vals := List.replicate capV 0 } with
    | error e => rw [hf] at h; simp at h
    | ok t' =>
      rw [hf] at h
      simp only [Except.ok.injEq, Prod.mk.injEq] at h
      obtain ⟨hri, hrv⟩ := h
      obtain ⟨s', hs, _, _, _, _, _, _, _, h7, h8, _⟩ := forRange_forE_ok
        (fun (t : IS) (s : MI.St) => MI.R om nm tk oi ov ni nv capI t s)
        (mergeIndexedBody om nm tk oi ov ni nv capI)
        (fun k s => merge_indexed_journalled_entries.body_L1 fuel { s with v3 := k })
        (fun i t t' s hR hb => MI.step om nm tk oi ov ni nv capI fuel hfuel hnn i t t' s hR hb) om.length 0
        { cur := 0, acc := 0, ib := [0], vals := List.replicate capV 0 } t'
        { p0 := om, p1 := nm, p2 := tk, p3 := ints oi, p4 := ov, p5 := ints ni, p6 := nv, p7 := List.replicate capI 0,
          p8 := List.replicate capV 0, v0 := 0, v1 := 1, v2 := 0, v3 := 0, v4 := 0 }
        ⟨rfl, rfl, rfl, rfl, rfl, rfl, rfl, (destI_init capI hcap).symm, rfl, rfl, rfl, rfl, by simp; omega⟩ hf
      unfold merge_indexed_journalled_entries.run forRangeE
      have hn : (pyLen om - 0).toNat = om.length := by simp [pyLen]
      have hset0 : setIdxE (List.replicate capI (0 : Int)) 0 0 "p7[0]" = .ok (List.replicate capI 0) := by
        have : setIdxE (List.replicate capI (0 : Int)) ((0 : Nat) : Int) 0 "p7[0]" = .ok ((List.replicate capI 0).set 0 0) :=
          setIdxE_of_lt _ _ (by simp; omega)
        have z : ((0 : Nat) : Int) = 0 := rfl
        rw [z] at this
        rw [this]
        congr 1
        cases capI with
        | zero => rfl
        | succ k => simp [List.replicate_succ]
      simp only [hn, hset0, bindE_ok]
      have hs' : forRangeAux (fun _ => false) (fun k s => merge_indexed_journalled_entries.body_L1 fuel { s with v3 := k })
          om.length 0
          { p0 := om, p1 := nm, p2 := tk, p3 := ints oi, p4 := ov, p5 := ints ni, p6 := nv, p7 := List.replicate capI 0,
            p8 := List.replicate capV 0, v0 := 0, v1 := 1, v2 := 0, v3 := 0, v4 := 0 } = .ok s' := hs
      simp only [hs', bindE_ok, h7, h8, MI.destI, hri, hrv]

end Exetera.GenK
