import Driver.Util
import Exetera.Model.IndexedWriter
import Exetera.Model.Reader
open Lean Exetera Exetera.Storage Exetera.IndexedWriter Exetera.Reader
namespace Driver.C01

def hexDigit (n : Nat) : Char := if n < 10 then Char.ofNat (48 + n) else Char.ofNat (87 + n)

def hex (bs : Bytes) : String :=
  String.ofList (bs.foldr (fun b acc => hexDigit (b.toNat / 16) :: hexDigit (b.toNat % 16) :: acc) [])

def variantOf (j : Json) : Variant :=
  match j.getObjValAs? String "variant" with
  | .ok "asFound" => .asFound
  | _ => .repaired

def readJson : Except Err (List (Option Bytes)) → Json
  | .ok rs => Json.arr (rs.map (fun r => match r with | some b => Json.str (hex b) | none => Json.null)).toArray
  | .error e => Driver.errJson e

def itemJson : Except Err Bytes → Json
  | .ok b => Json.str (hex b)
  | .error e => Driver.errJson e

/-- the reader variant of a case: `"reader": "asFound"` runs the readers as they were before NC01b / NC01c -/
def readerOf (j : Json) : Variant :=
  match j.getObjValAs? String "reader" with
  | .ok "asFound" => .asFound
  | _ => .repaired

/-- a slice item `[start, stop]` or `[start, stop, step]`, each an int or null -/
def sliceOf : List (Option Int) → Except String Item
  | [a, b] => .ok (.slice a b none)
  | [a, b, c] => .ok (.slice a b c)
  | _ => .error "slice must be [start,stop] or [start,stop,step]"

def readG : Except Err Read → Json
  | .ok (.entry b) => Json.str (hex b)
  | .ok (.rows rs) => readJson (.ok rs)
  | .error e => Driver.errJson e

def readsJson (v : Variant) (writeable : Bool) (ix : List Nat) (vals : Bytes) (slices : List Item) (items : List Int) : Json :=
  Json.mkObj [
    ("all", readG (getIndexed v writeable ix vals (.slice none none none))),
    ("slices", Json.arr (slices.map (fun it => readG (getIndexed v writeable ix vals it))).toArray),
    ("items", Json.arr (items.map (fun i => readG (getIndexed v writeable ix vals (.int i)))).toArray)]

def preadJson : Except Err (PRead Int) → Json
  | .ok (.scalar x) => Json.num (JsonNumber.fromInt x)
  | .ok (.array xs) => Driver.ints xs
  | .error e => Driver.errJson e

def kindOf (kind dtype : String) (len : Nat) : Option Kind :=
  match kind with
  | "indexed" => some .indexedString
  | "fixed" => some (.fixedString len)
  | "numeric" => some (.numeric dtype)
  | "categorical" => some (.categorical dtype)
  | "timestamp" => some .timestamp
  | _ => none

def clsName (c : FieldClass) : String := c.name

def handle : Driver.Handler := fun op j =>
  match op with
  | "c01_indexed" => some do
    let c ← Driver.get? Nat j "c"
    let h5 ← Driver.get? Bool j "h5"
    let parts ← Driver.get? (List (List String)) j "parts"
    let slices ← (← Driver.get? (List (List (Option Int))) j "slices").mapM sliceOf
    let items ← Driver.get? (List Int) j "items"
    let rv := readerOf j
    let enc : List (List String) → List (List Bytes) := fun ps => ps.map (fun p => p.map (fun s => s.toUTF8.data.toList))
    let bparts : List (List Bytes) := enc parts
    -- optional history: several write_part…complete rounds, with or without a new writer object per round
    let rounds : Option (List (List (List String))) := (j.getObjValAs? (List (List (List String))) "rounds").toOption
    let rewrap : Bool := (j.getObjValAs? Bool "rewrap").toOption.getD false
    let run : Except Err WState := match rounds with
      | some rs => writeRounds (variantOf j) c h5 rewrap (rs.map enc)
      | none => writeField (variantOf j) c h5 bparts
    pure <| Driver.outE (fun (s : WState) =>
      let ix := s.indices.contents
      let vals := s.values.contents
      Json.mkObj [("indices", Driver.nats ix), ("values", Json.str (hex vals)), ("len", toJson (fieldLen ix)),
                  ("staged", Driver.nats [s.valueIndex, s.indexIndex]),
                  ("w", readsJson rv true ix vals slices items), ("ro", readsJson rv false ix vals slices items)])
      run
  | "c01_plain" => some do
    let h5 ← Driver.get? Bool j "h5"
    let kind ← Driver.get? String j "kind"
    let dtype ← Driver.get? String j "dtype"
    let parts ← Driver.get? (List (List Int)) j "parts"
    let slices ← (← Driver.get? (List (List (Option Int))) j "slices").mapM sliceOf
    let items ← Driver.get? (List Int) j "items"
    let v := variantOf j
    let rv := readerOf j
    let keyRes : Except Err (List Int) ←
      if kind == "categorical" then do
        let kv ← Driver.get? (List Int) j "key_values"
        pure (if h5 then storeKeyValues v dtype kv else .ok kv)
      else pure (.ok [])
    let res : Except Err (List Int × Arr Int) :=
      match keyRes with
      | .error e => .error e
      | .ok kv =>
        match writeParts v (0 : Int) (Arr.fresh h5) parts with
        | .error e => .error e
        | .ok a => .ok (kv, a)
    pure <| Driver.outE (fun (r : List Int × Arr Int) =>
      let xs := r.2.contents
      Json.mkObj [("data", Driver.ints xs), ("len", toJson xs.length),
                  ("dtype", Json.str (readDtype v h5 dtype (!parts.isEmpty))),
                  ("key_values", Driver.ints r.1),
                  ("slices", Json.arr (slices.map (fun it => preadJson (plainGet rv r.2 it))).toArray),
                  ("items", Json.arr (items.map (fun i => preadJson (plainGet rv r.2 (.int i)))).toArray)]) res
  | "c01_pyslice" => some do
    -- the SPEC itself (Spec/PySlice.lean), compared by the harness with Python's own list.__getitem__
    let xs ← Driver.get? (List Int) j "xs"
    let slices ← (← Driver.get? (List (List (Option Int))) j "slices").mapM sliceOf
    let items ← Driver.get? (List Int) j "items"
    pure <| Driver.okJson <| Json.mkObj [
      ("slices", Json.arr (slices.map (fun it => preadJson (numpyGet xs it))).toArray),
      ("items", Json.arr (items.map (fun i => preadJson (numpyGet xs (.int i)))).toArray)]
  | "c01_dispatch" => some do
    let kind ← Driver.get? String j "kind"
    let dtype ← Driver.get? String j "dtype"
    let len ← Driver.get? Nat j "strlen"
    let some k := kindOf kind dtype len | throw s!"bad kind {kind}"
    pure <| Driver.outE (fun (c : FieldClass) =>
      Json.mkObj [("attr", Json.str k.fieldtypeAttr), ("cls", Json.str (clsName c)), ("created", Json.str (clsName k.cls))])
      (reopenClass k)
  | _ => none

end Driver.C01
