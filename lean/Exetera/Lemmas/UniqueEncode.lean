import Exetera.Model.Unique
/-! The stored form `(indices, values)` of an indexed string column: row `i` is `values[indices[i]:indices[i+1]]`. -/
namespace Exetera.Unique
open Exetera

theorem offsetsFrom_length (col : List Bytes) : ∀ base, (offsetsFrom col base).length = col.length + 1 := by
  induction col with
  | nil => intro _; rfl
  | cons x xs ih => intro base; simp [offsetsFrom, ih]

theorem offsetsFrom_zero (col : List Bytes) (base : Nat) : (offsetsFrom col base)[0]? = some base := by
  cases col <;> simp [offsetsFrom]

theorem slice_append_left {α} (pre x rest : List α) :
    slice (pre ++ (x ++ rest)) pre.length (pre.length + x.length) = x := by
  simp [slice]

/-- row `i` of the stored column -/
theorem row_at (col : List Bytes) : ∀ (base : Nat) (pre : Bytes), pre.length = base → ∀ (i : Nat) (h : i < col.length),
    ∃ lo hi, (offsetsFrom col base)[i]? = some lo ∧ (offsetsFrom col base)[i + 1]? = some hi ∧
      slice (pre ++ col.flatten) lo hi = col[i] ∧ hi = lo + col[i].length := by
  induction col with
  | nil => intro _ _ _ i h; simp at h
  | cons x xs ih =>
    intro base pre hpre i h
    cases i with
    | zero =>
      refine ⟨base, base + x.length, by simp [offsetsFrom], by simp [offsetsFrom, offsetsFrom_zero], ?_⟩
      subst hpre
      simp only [List.flatten_cons, List.getElem_cons_zero]
      exact ⟨slice_append_left pre x xs.flatten, trivial⟩
    | succ j =>
      obtain ⟨lo, hi, h1, h2, h3, h4⟩ := ih (base + x.length) (pre ++ x) (by simp [hpre]) j (by simpa using h)
      refine ⟨lo, hi, by simpa [offsetsFrom] using h1, by simpa [offsetsFrom] using h2, ?_, by simpa using h4⟩
      simpa using h3

theorem encode_row (col : List Bytes) (i : Nat) (h : i < col.length) :
    ∃ lo hi, (∀ site, getE (encode col).1 i site = .ok lo) ∧ (∀ site, getE (encode col).1 (i + 1) site = .ok hi) ∧
      slice (encode col).2 lo hi = col[i] ∧ hi = lo + col[i].length := by
  obtain ⟨lo, hi, h1, h2, h3, h4⟩ := row_at col 0 [] rfl i h
  exact ⟨lo, hi, by intro _; simp [encode, getE_eq_ok, h1], by intro _; simp [encode, getE_eq_ok, h2],
    by simpa [encode] using h3, h4⟩

theorem encode_rows (col : List Bytes) : (encode col).1.length - 1 = col.length := by
  simp [encode, offsetsFrom_length]

end Exetera.Unique
