import Exetera.Model.Basic
import Exetera.Gen.KernelShape
import Exetera.Gen.KernelPaths
import Exetera.Lemmas.NoOob
/-! C10 — shared vocabulary of the per-family files: the look-ups into the regenerated kernel tables (`Gen.kernelShape`: loop
    guards and subscripts; `Gen.kernelPaths`: the path condition of every subscript occurrence). -/
namespace Exetera.Props.C10
open Exetera

/-- the entry of the regenerated table `Gen.kernelShape` for the compiled kernel `name` -/
def lookup (name : String) : Option (String × List String × List String) :=
  Gen.kernelShape.find? (fun k => k.1 == name)

/-- the entry of the regenerated table `Gen.kernelPaths` for the compiled kernel `name`: every subscript occurrence with the
    tests that dominate it -/
def lookupPaths (name : String) : Option (String × List (String × List String)) :=
  Gen.kernelPaths.find? (fun k => k.1 == name)

/-- the two regenerated tables speak about the same kernels, in the same order, and about the same subscripts: the sites
    that carry a path condition in `Gen.kernelPaths` are, kernel by kernel, exactly the subscripts of `Gen.kernelShape` (no
    subscript of the source is without a path condition, none is invented) -/
theorem kernel_paths_sites_match_shape :
    Gen.kernelPaths.map (fun k => (k.1, (k.2.map (·.1)).eraseDups)) = Gen.kernelShape.map (fun k => (k.1, k.2.2)) := by
  decide +kernel

/-- a checked write `xs[i] = v` is refused exactly when `i` is not below the array's length -/
theorem setE_oob_iff {α} (xs : List α) (i : Nat) (v : α) (site : String) :
    (∃ e, setE xs i v site = .error e) ↔ xs.length ≤ i := by
  unfold setE
  split
  · constructor
    · rintro ⟨e, h⟩; cases h
    · intro h; omega
  · constructor
    · intro _; omega
    · intro _; exact ⟨_, rfl⟩

/-- a checked read `xs[i]` is refused exactly when `i` is not below the array's length -/
theorem getE_oob_iff {α} (xs : List α) (i : Nat) (site : String) :
    (∃ e, getE xs i site = .error e) ↔ xs.length ≤ i := by
  unfold getE
  split
  · rename_i x hx
    constructor
    · rintro ⟨e, h⟩; cases h
    · intro h
      have := List.getElem?_eq_none h
      rw [this] at hx; cases hx
  · rename_i hx
    constructor
    · intro _; exact List.getElem?_eq_none_iff.mp hx
    · intro _; exact ⟨_, rfl⟩

end Exetera.Props.C10
