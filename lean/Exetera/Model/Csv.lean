import Exetera.Model.Basic
import Exetera.Model.Transforms
import Exetera.Gen.CsvConstants
/-!
  Model of the CSV reader (with the fixes D26, NC05a, NC05b, D27 applied — see fixes/):

    exetera/core/csv_reader_speedup.py   fast_csv_reader (the byte-level FSM, `@exetera_njit`)          → `fastCsvReader`
                                         read_file_using_fast_csv_reader (re-entrant window driver)     → `readFile`
    exetera/io/field_importers.py        every importer's import_part (typed ones: Model/Transforms.lean) → `Imp.importPart`
    exetera/io/parsers.py                read_csv_with_schema_dict (budgets, include/exclude, index_map) → `readCsv`

  Conventions.
  * bytes are `Nat`; the four special bytes come from `Gen/CsvConstants.lean` (regenerated from the source text).
  * `column_inds` is `List (List Nat)` (one list of `maxrow + 1` entries per column), `column_vals` the flat `List Nat`,
    `column_offsets` a `List Nat`; every subscript of the compiled kernel goes through `getE`/`setE`/`get2`/`set2`.
  * `row_index` is `-1` while the header line is being read: modelled as `hdr = true` (then `row` is unused);
    `column_inds[col, -1]` (numpy wrap-around, read but never used while `hdr`) is the read of slot `maxrow`.
  * `index_for_end_line` only ever occurs as `index_for_end_line + 1`: the model keeps `nextPos = index_for_end_line + 1`.
  * one loop iteration of the kernel is `step = lexByte (classify the byte, update escaped/candidate) ; effects`, exactly the
    two halves of the Python loop body; the `while True … if …: return` loop is `whileE (¬ done) step`.
-/
namespace Exetera.Csv
open Exetera

abbrev Bytes := List Nat
abbrev QUOTE : Nat := Gen.Csv.ESCAPE_VALUE
abbrev SEP : Nat := Gen.Csv.SEPARATOR_VALUE
abbrev NL : Nat := Gen.Csv.NEWLINE_VALUE
abbrev WS : Nat := Gen.Csv.WHITE_SPACE_VALUE

/-- `m[i, j]` -/
def get2 (m : List (List Nat)) (i j : Nat) (site : String := "") : Except Err Nat :=
  match m[i]? with
  | some r => getE r j site
  | none => .error (.oob site)

/-- `m[i, j] = v` -/
def set2 (m : List (List Nat)) (i j v : Nat) (site : String := "") : Except Err (List (List Nat)) :=
  match m[i]? with
  | some r => if j < r.length then .ok (m.set i (r.set j v)) else .error (.oob site)
  | none => .error (.oob site)

/-- number of blanks at the front of `bs` -/
def leadWs (bs : Bytes) : Nat := (bs.takeWhile (fun b => b == WS)).length

/-- `while index + 1 < len(source) and source[index + 1] == whitespace_value: index += 1` -/
def skipAfter (src : Bytes) (i : Nat) : Nat := i + leadWs (src.drop (i + 1))

/-- (entry, NC05a) `while index < len(source) and source[index] == whitespace_value: index += 1` -/
def skipFrom (src : Bytes) (i : Nat) : Nat := i + leadWs (src.drop i)

/-- what one byte does -/
inductive Ev where
  | write | endCell | endLine | skip
  deriving Repr, DecidableEq, Inhabited

structure Lex where
  ev : Ev
  escaped : Bool
  cand : Bool
  deriving Repr, DecidableEq, Inhabited

/-- first half of the loop body: classify byte `c` (`next = source[index+1]` if `index + 1 < len(source)`),
    `atStart` is `index == index_for_cur_cell_start`. The two `raise Exception(...)` are `Err.other "Exception"`. -/
def lexByte (next : Option Nat) (atStart escaped cand : Bool) (c : Nat) : Except Err Lex :=
  if c = SEP then .ok ⟨if escaped then .write else .endCell, escaped, cand⟩
  else if c = NL then .ok ⟨if escaped then .write else .endLine, escaped, cand⟩
  else if c = QUOTE then
    if !escaped then
      if atStart then .ok ⟨.skip, true, cand⟩ else .error (.other "Exception")
    else if cand then .ok ⟨.write, true, false⟩
    else
      match next with
      | none => .ok ⟨.skip, true, false⟩             -- end of source: retried in the next chunk
      | some n =>
        if n = QUOTE then .ok ⟨.skip, true, true⟩
        else if n = SEP ∨ n = NL then .ok ⟨.skip, false, false⟩
        else .error (.other "Exception")
  else .ok ⟨.write, escaped, cand⟩

/-- loop state of `fast_csv_reader` -/
structure KS where
  index : Nat
  nextPos : Nat            -- index_for_end_line + 1
  col : Nat
  hdr : Bool               -- row_index == -1
  row : Nat                -- row_index (when ¬ hdr)
  vfc : Option Nat         -- val_full_col_idx (-1 = none)
  escaped : Bool
  cand : Bool
  count : Nat              -- cur_cell_char_count
  cstart : Nat             -- cur_cell_start
  ics : Nat                -- index_for_cur_cell_start
  indsFull : Bool
  valsFull : Bool
  colOff : Nat
  colCnt : Nat             -- col_val_count
  inds : List (List Nat)
  vals : List Nat
  done : Bool
  deriving Repr, DecidableEq, Inhabited

/-- `if write_char and row_index >= 0:` block -/
def writeChar (s : KS) (c : Nat) : Except Err KS :=
  if s.hdr then .ok s
  else
    match setE s.vals (s.colOff + s.cstart + s.count) c "column_vals[col_offset+cur_cell_start+cur_cell_char_count]" with
    | .error e => .error e
    | .ok vals =>
      let full := decide (s.colCnt ≤ s.cstart + s.count + 1)
      .ok { s with vals := vals, count := s.count + 1, valsFull := s.valsFull || full, vfc := if full then some s.col else s.vfc }

/-- `if end_cell:` block (`endLine` = `end_line`) -/
def endCell (src : Bytes) (offs : List Nat) (maxrow : Nat) (s : KS) (endLine : Bool) : Except Err KS :=
  match (if s.hdr then .ok s.inds else set2 s.inds s.col (s.row + 1) (s.cstart + s.count) "column_inds[col_index,row_index+1]") with
  | .error e => .error e
  | .ok inds =>
    let hdr' := if endLine then false else s.hdr
    let row' := if endLine then (if s.hdr then 0 else s.row + 1) else s.row
    let col' := if endLine then 0 else s.col + 1
    match getE offs col' "column_offsets[col_index]" with
    | .error e => .error e
    | .ok o =>
      match getE offs (col' + 1) "column_offsets[col_index+1]" with
      | .error e => .error e
      | .ok o1 =>
        match get2 inds col' (if hdr' then maxrow else row') "column_inds[col_index,row_index]" with
        | .error e => .error e
        | .ok cs =>
          let j := skipAfter src s.index
          .ok { s with inds := inds, hdr := hdr', row := row', col := col', colOff := o, colCnt := o1 - o, indsFull := s.indsFull || (endLine && row' == maxrow), cstart := cs, count := 0, index := j, ics := j + 1 }

/-- one iteration of the `while True:` loop -/
def step (src : Bytes) (offs : List Nat) (maxrow : Nat) (s : KS) : Except Err KS :=
  match getE src s.index "source[index]" with
  | .error e => .error e
  | .ok c =>
    match lexByte src[s.index + 1]? (s.index == s.ics) s.escaped s.cand c with
    | .error e => .error e
    | .ok lx =>
      let s1 : KS := { s with escaped := lx.escaped, cand := lx.cand, nextPos := if lx.ev = .endLine then s.index + 1 else s.nextPos }
      match (match lx.ev with
             | .write => writeChar s1 c
             | .endCell => endCell src offs maxrow s1 false
             | .endLine => endCell src offs maxrow s1 true
             | .skip => .ok s1) with
      | .error e => .error e
      | .ok s2 =>
        let i := s2.index + 1
        .ok { s2 with index := i, done := (i == src.length) || s2.indsFull || s2.valsFull }

/-- what `fast_csv_reader` returns, plus the two arrays it writes in place -/
structure KOut where
  nextPos : Nat
  written : Int
  indsFull : Bool
  valsFull : Bool
  vfc : Option Nat
  inds : List (List Nat)
  vals : List Nat
  deriving Repr, DecidableEq, Inhabited

def KS.out (s : KS) : KOut :=
  ⟨s.nextPos, if s.hdr then -1 else (s.row : Int), s.indsFull, s.valsFull, s.vfc, s.inds, s.vals⟩

/-- loop state on entry (after the blank skip that put `index` on `i`) -/
def initKS (start i : Nat) (hasHeader : Bool) (cstart colCnt : Nat) (inds : List (List Nat)) (vals : List Nat) : KS :=
  { index := i, nextPos := start, col := 0, hdr := hasHeader, row := 0, vfc := none, escaped := false, cand := false, count := 0, cstart := cstart, ics := i, indsFull := false, valsFull := false, colOff := 0, colCnt := colCnt, inds := inds, vals := vals, done := false }

/-- `fast_csv_reader(source, start_index, column_inds, column_vals, column_offsets, hasHeader, …)` -/
def fastCsvReader (src : Bytes) (start : Nat) (inds : List (List Nat)) (vals : List Nat) (offs : List Nat)
    (hasHeader : Bool) : Except Err KOut :=
  match getE inds 0 "column_inds.shape" with
  | .error e => .error e
  | .ok r0 =>
    let maxrow := r0.length - 1
    match (if hasHeader then .ok 0 else get2 inds 0 0 "column_inds[col_index,row_index]"), getE offs 1 "column_offsets[1]" with
    | .error e, _ => .error e
    | _, .error e => .error e
    | .ok cs, .ok cnt =>
      let i := skipFrom src start
      if i == src.length then
        .ok ⟨start, if hasHeader then -1 else 0, false, false, none, inds, vals⟩
      else
        match whileE (fun s => !s.done) (step src offs maxrow) (src.length + 1) (initKS start i hasHeader cs cnt inds vals) with
        | .error e => .error e
        | .ok s => .ok s.out

/-! ### field importers

    Every importer of `field_importers.py` is driven through the same `import_part(column_inds, column_vals, column_offsets,
    col_idx, written_row_count)` call, once per kernel call. `IndexedStringImporter` is modelled here; every schema-typed
    importer is the corresponding model of `Model/Transforms.lean` (property C06) applied to the `Chunk` that this call
    hands it: row `col_idx` of `column_inds`, the flat `column_vals`, `column_offsets[col_idx]`, the column's budget and
    `written_row_count`. -/

/-- the text → number conversion of a numeric column, as data: Python `int()` followed by the dtype's range (modelled,
    `Transforms.parseIntRange`), or a finite table `text ↦ value token` (what `float()` / numpy `astype` return on the texts
    of the case; texts not listed are not numbers) -/
inductive NumParser where
  | intRange (lo hi : Int)
  | table (t : List (Bytes × Option String))
  deriving Repr, DecidableEq, Inhabited

/-- a stored number: an integer, or the token of a float -/
inductive NumVal where
  | int (v : Int)
  | tok (s : String)
  deriving Repr, DecidableEq, Inhabited

def NumParser.parse : NumParser → Bytes → Transforms.Parsed NumVal
  | .intRange lo hi, bs =>
    match Transforms.parseIntRange lo hi bs with
    | .val v => .val (.int v)
    | .bad => .bad
    | .overflow => .overflow
  | .table t, bs =>
    match t.find? (fun kv => kv.1 == bs) with
    | some (_, some v) => .val (.tok v)
    | _ => .bad

/-- the importer definitions of a schema (`String()`, `String(fixed_length)`, `Categorical(categories, allow_freetext)`,
    `Numeric(dtype, invalid_value, validation_mode)`, `DateTime()`, `Date()`) -/
inductive FieldKind where
  | indexed
  | fixed (n : Nat)
  | categorical (cats : List (Bytes × Int))
  | leaky (cats : List (Bytes × Int))
  | bool (mode : Transforms.Mode) (invalid : Bool)
  | numeric (p : NumParser) (mode : Transforms.Mode) (invalidText : Bytes) (invalidVal : NumVal)
  | datetime
  | date
  deriving Repr, DecidableEq, Inhabited

/-- the destination fields as the importer builds them.
    * indexed string: `idx`, `vals` (`acc` = `chunk_accumulated`)
    * fixed string: `data` (the flat `S<n>` buffer)
    * categorical: `codes`; leaky categorical: `codes` and the `_freetext` companion `idx`, `vals` (`acc` =
      `freetext_index_accumulated`)
    * bool: `bools`, `_valid` = `valids`; int / float: `nums`, `_valid` = `valids` (nothing in strict mode)
    * datetime / date: `codes` (µs since the epoch), `_day` = `days`, `_set` = `valids` -/
structure Imp where
  kind : FieldKind
  idx : List Nat := [0]
  vals : Bytes := []
  acc : Nat := 0
  data : Bytes := []
  codes : List Int := []
  nums : List NumVal := []
  bools : List Bool := []
  valids : List Bool := []
  days : List Bytes := []
  deriving Repr, DecidableEq, Inhabited

/-- what `import_part` of a schema-typed importer sees of the staging buffers -/
def chunkOf (r : List Nat) (vals : List Nat) (off cap n col ncols : Nat) : Transforms.Chunk :=
  { inds := r, vals := vals, off := off, cap := cap, rows := n, col := col, ncols := ncols }

/-- `import_part` of the schema-typed importers on their chunk: each is one step of the corresponding `…Import` fold of
    `Model/Transforms.lean` -/
def Imp.typedPart (imp : Imp) (ch : Transforms.Chunk) : Except Err Imp :=
  match imp.kind with
  | .indexed => .ok imp
  | .fixed strlen =>
    match Transforms.fixedStringTransform ch strlen with
    | .error e => .error e
    | .ok m => .ok { imp with data := imp.data ++ m }
  | .categorical cats =>
    -- fix NC06d: raises `ValueError` when a row of the chunk equals no category key; nothing is written then
    match Transforms.categoricalImportPart (Transforms.getByteMap cats) ch with
    | .error e => .error e
    | .ok chunk => .ok { imp with codes := imp.codes ++ chunk }
  | .leaky cats =>
    match Transforms.leakyImportPart (Transforms.getByteMap cats)
            { data := imp.codes, ftIndices := imp.idx, ftValues := imp.vals, acc := imp.acc } ch with
    | .error e => .error e
    | .ok st => .ok { imp with codes := st.data, idx := st.ftIndices, vals := st.ftValues, acc := st.acc }
  | .bool mode invalid =>
    -- `elements = np.zeros(written_row_count)`, `validity = np.ones(written_row_count)`
    match Transforms.boolTransform ch mode invalid ch.rows ch.rows with
    | .error e => .error e
    | .ok (el, va) => .ok { imp with bools := imp.bools ++ el, valids := imp.valids ++ va }
  | .numeric p mode invalidText invalidVal =>
    match Transforms.cellsE ch with
    | .error e => .error e
    | .ok cells =>
      match Transforms.transformNum p.parse mode invalidText invalidVal cells with
      | .error e => .error e
      | .ok (vs, fs) => .ok { imp with nums := imp.nums ++ vs, valids := imp.valids ++ fs.getD [] }
  | .datetime =>
    match Transforms.cellsE ch with
    | .error e => .error e
    | .ok cells =>
      match Transforms.cellsMapE Transforms.datetimeCell cells with
      | .error e => .error e
      | .ok rs => .ok { imp with codes := imp.codes ++ rs.map (·.1), days := imp.days ++ rs.map (·.2.1),
                                 valids := imp.valids ++ rs.map (·.2.2) }
  | .date =>
    match Transforms.cellsE ch with
    | .error e => .error e
    | .ok cells =>
      match Transforms.cellsMapE Transforms.dateCell cells with
      | .error e => .error e
      | .ok rs => .ok { imp with codes := imp.codes ++ rs.map (·.1), days := imp.days ++ rs.map (·.2.1),
                                 valids := imp.valids ++ rs.map (·.2.2) }

/-- `import_part(column_inds, column_vals, column_offsets, col_idx, written_row_count)` for `written_row_count = n ≥ 0` -/
def Imp.importPart (imp : Imp) (inds : List (List Nat)) (vals : List Nat) (offs : List Nat) (c n : Nat) : Except Err Imp :=
  match inds[c]?, getE offs c "column_offsets[col_idx]" with
  | none, _ => .error (.oob "column_inds[col_idx]")
  | _, .error e => .error e
  | some r, .ok off =>
    match imp.kind with
    | .indexed =>
      match getE r n "column_inds[col_idx,written_row_count]" with
      | .error e => .error e
      | .ok tot =>
        .ok { imp with idx := imp.idx ++ ((r.take (n + 1)).map (· + imp.acc)).drop 1, vals := imp.vals ++ slice vals off (off + tot), acc := imp.acc + tot }
    | .leaky _ =>
      -- `col_count = column_offsets[col_idx + 1] - column_offsets[col_idx]` sizes the free-text staging array
      match getE offs (c + 1) "column_offsets[col_idx+1]" with
      | .error e => .error e
      | .ok off1 => imp.typedPart (chunkOf r vals off (off1 - off) n c inds.length)
    -- (`cap` is read by the leaky importer only; the other transforms never look at it)
    | _ => imp.typedPart (chunkOf r vals off vals.length n c inds.length)

/-- `for ith, i_c in enumerate(index_map): field_importer_list[ith].import_part(…, i_c, written_row_count)` -/
def importAll (inds : List (List Nat)) (vals : List Nat) (offs : List Nat) (n : Nat) :
    List Nat → List Imp → Except Err (List Imp)
  | c :: cs, imp :: imps =>
    match imp.importPart inds vals offs c n with
    | .error e => .error e
    | .ok imp' =>
      match importAll inds vals offs n cs imps with
      | .error e => .error e
      | .ok rest => .ok (imp' :: rest)
  | [], _ => .ok []
  | _ :: _, [] => .error (.oob "field_importer_list[ith]")

/-! ### the window driver -/

def zeros2 (ncols rows : Nat) : List (List Nat) := List.replicate ncols (List.replicate rows 0)

/-- loop state of `read_file_using_fast_csv_reader` -/
structure DS where
  ci : Nat                 -- chunk_index
  hasHeader : Bool
  rows : Int               -- accumulated_written_rows
  inds : List (List Nat)
  vals : List Nat
  offs : List Nat
  indsFull : Bool
  valsFull : Bool
  content : Bytes
  start : Nat
  imps : List Imp
  calls : List Int         -- written_row_count of every kernel call (observable through a recording importer)
  stop : Bool              -- `break`
  deriving Repr, DecidableEq, Inhabited

/-- `column_offsets[:c+1] ++ (column_offsets[c+1:] + delta)` -/
def growOffs (offs : List Nat) (c delta : Nat) : List Nat :=
  offs.take (c + 1) ++ (offs.drop (c + 1)).map (· + delta)

/-- the window read: `np.fromfile(source, count=W, offset=chunk_index)` plus the newline appended at EOF -/
def readWindow (file : Bytes) (ci w : Nat) : Bytes :=
  let content := slice file ci (ci + w)
  if ci + content.length == file.length ∧ content.getLast? ≠ some NL then content ++ [NL] else content

/-- one iteration of `while chunk_index < total_byte_size:` (`w` = chunk_byte_size, `ncols` = count_columns) -/
def driverStep (file : Bytes) (w ncols : Nat) (indexMap : List Nat) (s : DS) : Except Err DS :=
  let fresh := !s.indsFull && !s.valsFull
  let content := if fresh then readWindow file s.ci w else s.content
  let start := if fresh then 0 else s.start
  if fresh && (slice file s.ci (s.ci + w)).length == 0 then .ok { s with stop := true }
  else
    match fastCsvReader content start s.inds s.vals s.offs s.hasHeader with
    | .error e => .error e
    | .ok o =>
      -- a negative `written_row_count` (header line not complete in the window) is rejected by the D26 guard below
      -- after the importers ran on `[:0]`; every importer either ignores it or raises ValueError itself
      if o.written < 0 then .error (.valueError "no complete record in window")
      else
        match importAll o.inds o.vals s.offs o.written.toNat indexMap s.imps with
        | .error e => .error e
        | .ok imps =>
          let inds := if o.indsFull then zeros2 ncols (((o.inds.headD []).length - 1) * Gen.Csv.LARGER_FACTOR + 1) else o.inds
          let grow := o.valsFull && o.vfc.isSome
          let c := o.vfc.getD 0
          match (if grow then getE s.offs c "column_offsets[val_full_col_idx]" else .ok 0),
                (if grow then getE s.offs (c + 1) "column_offsets[val_full_col_idx+1]" else .ok 0) with
          | .error e, _ => .error e
          | _, .error e => .error e
          | .ok a, .ok b =>
            let offs := if grow then growOffs s.offs c ((b - a) * (Gen.Csv.LARGER_FACTOR - 1)) else s.offs
            let vals := if grow then List.replicate (offs.getLastD 0) 0 else o.vals
            let full := o.indsFull || o.valsFull
            if !full && o.nextPos == 0 then .error (.valueError "no complete record in window")
            else
              .ok { s with ci := if full then s.ci else s.ci + o.nextPos, hasHeader := false, rows := s.rows + o.written, inds := inds, vals := vals, offs := offs, indsFull := o.indsFull, valsFull := o.valsFull, content := content, start := if full then o.nextPos else start, imps := imps, calls := s.calls ++ [o.written] }

structure DOut where
  rows : Int
  imps : List Imp
  calls : List Int
  deriving Repr, DecidableEq, Inhabited

/-- `read_file_using_fast_csv_reader(source, chunk_row_size, column_offsets, index_map, field_importer_list)`;
    `ncols` is `get_file_stat`'s column count (number of header names), `fuel` bounds the number of kernel calls -/
def readFile (file : Bytes) (crs ncols : Nat) (offs : List Nat) (indexMap : List Nat) (imps : List Imp) (fuel : Nat) :
    Except Err DOut :=
  let crs2 := crs * Gen.Csv.CHUNK_ROW_FACTOR
  let w := crs2 * ncols
  let s0 : DS := { ci := 0, hasHeader := true, rows := 0, inds := zeros2 ncols (crs2 + 1), vals := List.replicate (offs.getLastD 0) 0, offs := offs, indsFull := false, valsFull := false, content := [], start := 0, imps := imps, calls := [], stop := false }
  match whileE (fun s => decide (s.ci < file.length) && !s.stop) (driverStep file w ncols indexMap) fuel s0 with
  | .error e => .error e
  | .ok s => .ok ⟨s.rows, s.imps, s.calls⟩

/-! ### `read_csv_with_schema_dict` -/

/-- `len(k)` of a `str` key given as UTF-8 bytes: the number of code points -/
def utf8Len (bs : Bytes) : Nat := bs.countP (fun b => !(decide (128 ≤ b) && decide (b < 192)))

/-- `_field_size` of the importer definition -/
def FieldKind.fieldSize : FieldKind → Nat
  | .indexed => Gen.Csv.INDEXED_STRING_FIELD_SIZE
  | .fixed n => if n = 0 then Gen.Csv.INDEXED_STRING_FIELD_SIZE else n     -- `if fixed_length:`
  | .categorical cats => (cats.map (fun kv => utf8Len kv.1)).foldl max 0
  | .leaky cats => (cats.map (fun kv => utf8Len kv.1)).foldl max 0
  | .bool _ _ => 5
  | .numeric (.intRange _ _) _ _ _ => 20
  | .numeric (.table _) _ _ _ => 30
  | .datetime => 32
  | .date => 10

def kindOf (schema : List (String × FieldKind)) (name : String) : FieldKind :=
  match schema.lookup name with
  | some k => k
  | none => .indexed          -- `missing_names`: imported as indexed string

/-- `fields_to_use` -/
def fieldsToUse (names : List String) (incl excl : Option (List String)) : List String :=
  let a := match incl with
    | none => names
    | some i => names.filter (fun k => i.contains k)
  match excl with
  | none => a
  | some e => a.filter (fun k => !e.contains k)

/-- `column_offsets[i+1] = column_offsets[i] + max(field_size, 1) * chunk_row_size` (fix NC05b: never a zero budget) -/
def columnOffsets (sizes : List Nat) (crs : Nat) : List Nat :=
  sizes.foldl (fun acc sz => acc ++ [acc.getLastD 0 + max sz 1 * crs]) [0]

structure Field where
  name : String
  imp : Imp
  deriving Repr, DecidableEq, Inhabited

structure COut where
  rows : Int
  fields : List Field
  deriving Repr, DecidableEq, Inhabited

/-- `len(set(include).difference(set(csvf_fieldnames))) > 0` (likewise for exclude) -/
def unknownName (names : List String) : Option (List String) → Bool
  | none => false
  | some l => l.any (fun k => !names.contains k)

/-- `read_csv_with_schema_dict(csv_file, ddf, schema_dictionary, ts, include, exclude, chunk_row_size)`;
    `names` are the header names as `csv.DictReader` returns them (stripped) -/
def readCsv (file : Bytes) (names : List String) (schema : List (String × FieldKind))
    (incl excl : Option (List String)) (crs fuel : Nat) : Except Err COut :=
  if unknownName names incl then .error (.valueError "include fields are not part of the file")
  else if unknownName names excl then .error (.valueError "exclude fields are not part of the file")
  else
    let use := fieldsToUse names incl excl
    let indexMap := use.map (fun k => names.idxOf k)
    let imps := use.map (fun k => ({ kind := kindOf schema k } : Imp))
    let offs := columnOffsets (names.map (fun k => (kindOf schema k).fieldSize)) crs
    match readFile file crs names.length offs indexMap imps fuel with
    | .error e => .error e
    | .ok o => .ok ⟨o.rows, (use.zip o.imps).map (fun p => ⟨p.1, p.2⟩)⟩

end Exetera.Csv
