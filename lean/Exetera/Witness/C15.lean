import Exetera.Model.Catalogue
import Exetera.Spec.Catalogue
/-!
  C15 — what the code did before the fix commits (`Variant.asFound`), as kernel-checked facts about the model.
  The same histories are in `corpus/C15/defects.json` and run against the real code on every check.
-/
namespace Exetera.Witness.C15
open Exetera Exetera.Catalogue

def xab : List Op := [.createFrame 0 "x" none, .create 0 "x" "a" ⟨.numeric, 1⟩, .create 0 "x" "b" ⟨.numeric, 2⟩]

/-- D22: `rename({'a':'b','b':'b_'})` on columns {a,b} raised midway … -/
theorem d22_asFound_raises :
    (step .asFound (run .asFound State.init xab) (.rename 0 "x" [("a", "b"), ("b", "b_")])).isOk = false := by decide

/-- … leaving `_columns = [a, b]` while the file held `[b, b_]`: the invariant is broken. -/
theorem d22_asFound_splits :
    ¬ Inv (step .asFound (run .asFound State.init xab) (.rename 0 "x" [("a", "b"), ("b", "b_")])).state := by
  intro h
  have := (h.sameKeys (0, "a")).1 (by decide)
  revert this; decide

/-- the same call on the repaired code succeeds -/
theorem d22_repaired_ok :
    (step .repaired (run .repaired State.init xab) (.rename 0 "x" [("a", "b"), ("b", "b_")])).isOk = true := by decide

def xy : List Op := [.createFrame 0 "x" none, .create 0 "x" "a" ⟨.numeric, 1⟩, .createFrame 0 "y" none]

/-- D23: `ds['y'] = ds['x']` with `y` present raised after rewriting `_dataframes`: `keys()` lost `x`, the file kept both. -/
theorem d23_asFound_splits : ¬ Inv (step .asFound (run .asFound State.init xy) (.setFrame 0 "y" 0 "x")).state := by
  intro h
  have := (h.sameFrames ((0, "x"), 0)).2 (by decide)
  revert this; decide

theorem d23_repaired_unchanged :
    (step .repaired (run .repaired State.init xy) (.setFrame 0 "y" 0 "x")).state = run .repaired State.init xy := by decide

def xyi : List Op := [.createFrame 0 "x" none, .createFrame 0 "y" none, .create 0 "x" "a" ⟨.indexed, 1⟩]

/-- D24: moving an indexed string field to another frame copied it, raised AttributeError, kept the source and left the
    handle valid. -/
theorem d24_asFound :
    let r := step .asFound (run .asFound State.init xyi) (.moveField (.byHandle 0) 0 "y" "b")
    r.isOk = false ∧ (0, "a") ∈ keys r.state.cols ∧ (1, "b") ∈ keys r.state.cols ∧ viewHandle r.state 0 = .named "a" := by
  decide

theorem d24_repaired :
    let r := step .repaired (run .repaired State.init xyi) (.moveField (.byHandle 0) 0 "y" "b")
    r.isOk = true ∧ (0, "a") ∉ keys r.state.cols ∧ (1, "b") ∈ keys r.state.cols ∧ viewHandle r.state 0 = .invalid := by
  decide

def xyn : List Op := [.createFrame 0 "x" none, .createFrame 0 "y" none, .create 0 "x" "a" ⟨.numeric, 1⟩, .reopen 0]

/-- NC15a: after a reopen every loaded field had `dataframe = None`; a move across frames copied and raised … -/
theorem nc15a_asFound :
    let r := step .asFound (run .asFound State.init xyn) (.moveField (.byName 0 "x" "a") 0 "y" "a")
    r.isOk = false ∧ (0, "a") ∈ keys r.state.cols ∧ (1, "a") ∈ keys r.state.cols := by
  decide

theorem nc15a_repaired :
    let r := step .repaired (run .repaired State.init xyn) (.moveField (.byName 0 "x" "a") 0 "y" "a")
    r.isOk = true ∧ (0, "a") ∉ keys r.state.cols ∧ (1, "a") ∈ keys r.state.cols := by
  decide

end Exetera.Witness.C15
