import Exetera.Model.Basic
/-!
  Python's sequence indexing, as the SPEC of every `field.data[item]` read (C01: "through any in-range slice or index").

    * `sliceIndices n start stop step`  = `slice(start, stop, step).indices(n)`   (CPython `PySlice_Unpack` +
      `PySlice_AdjustIndices`: a missing step is 1, step 0 is a ValueError, a negative bound counts from the end, every bound
      is clamped to `[0, n]` (step > 0) or `[-1, n-1]` (step < 0), a missing bound is the end the step walks away from /
      towards)
    * `pyRange a b st`                  = `list(range(a, b, st))`
    * `pySliceG xs start stop step`     = `xs[start:stop:step]`  (a list)
    * `pyIndex xs i`                    = `xs[i]`  (negative `i` counts from the end; IndexError outside `-n ≤ i < n`)

  The harness compares these definitions with Python's own `list.__getitem__` on an exhaustive small scope (op `c01_pyslice`).
  `Spec.pySlice xs a b` (Spec/Storage.lean) is the special case `0 ≤ a`, `0 ≤ b`, no step (`pySliceG_nat`).
-/
namespace Exetera.Spec

open Exetera

/-- a missing step is 1 -/
def stepOf : Option Int → Int
  | none => 1
  | some s => s

/-- the smallest / largest value a bound may take: `[0, n]` walking up, `[-1, n-1]` walking down -/
def lowerB (st : Int) : Int := if st < 0 then -1 else 0
def upperB (n : Nat) (st : Int) : Int := if st < 0 then (n : Int) - 1 else (n : Int)

/-- a given bound: negative counts from the end, then clamp -/
def adjBound (n : Nat) (st b : Int) : Int := if b < 0 then max (b + (n : Int)) (lowerB st) else min b (upperB n st)

/-- a missing start is the end the step walks away from, a missing stop the end it walks towards -/
def startOf (n : Nat) (st : Int) : Option Int → Int
  | none => if st < 0 then upperB n st else lowerB st
  | some s => adjBound n st s
def stopOf (n : Nat) (st : Int) : Option Int → Int
  | none => if st < 0 then lowerB st else upperB n st
  | some s => adjBound n st s

/-- `slice(start, stop, step).indices(n)` -/
def sliceIndices (n : Nat) (start stop step : Option Int) : Except Err (Int × Int × Int) :=
  if stepOf step = 0 then .error (.valueError "slice step cannot be zero")
  else .ok (startOf n (stepOf step) start, stopOf n (stepOf step) stop, stepOf step)

/-- `len(range(a, b, st))` -/
def rangeLen (a b st : Int) : Nat :=
  if 0 < st then (if a < b then ((b - a - 1) / st + 1).toNat else 0)
  else if st < 0 then (if b < a then ((a - b - 1) / (-st) + 1).toNat else 0)
  else 0

/-- `list(range(a, b, st))` -/
def pyRange (a b st : Int) : List Int := (List.range (rangeLen a b st)).map (fun (k : Nat) => a + (k : Int) * st)

/-- the row a (non-negative, in-range) position names; `none` outside the rows -/
def rowOf {α} (xs : List α) (i : Int) : Option α := if 0 ≤ i then xs[i.toNat]? else none

/-- Python `xs[start:stop:step]`. No position `range(*slice.indices(n))` yields is ever outside the rows
    (`Lemmas.PySlice.pySliceG_length`: the result has exactly `len(range(…))` entries, nothing is dropped by `filterMap`). -/
def pySliceG {α} (xs : List α) (start stop step : Option Int) : Except Err (List α) :=
  match sliceIndices xs.length start stop step with
  | .error e => .error e
  | .ok (a, b, st) => .ok ((pyRange a b st).filterMap (rowOf xs))

/-- Python `xs[i]` -/
def pyIndex {α} (xs : List α) (i : Int) : Except Err α :=
  if i < -(xs.length : Int) ∨ (xs.length : Int) ≤ i then .error (.oob "list index out of range")
  else
    match rowOf xs (if i < 0 then i + (xs.length : Int) else i) with
    | some x => .ok x
    | none => .error (.oob "list index out of range")

end Exetera.Spec
