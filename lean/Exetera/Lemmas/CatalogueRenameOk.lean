import Exetera.Lemmas.CatalogueRename
import Exetera.Lemmas.CatalogueInv
/-! `rename` with the repaired choice of intermediate names: under the invariant a rename that passes the pre-check
    performs both passes without a refusal and leaves both catalogues re-keyed by the same map. -/
namespace Exetera.Catalogue

theorem mem_cur {s : State} {g : Nat} {n : Name} : n ∈ (ownedBy s.cols g).map (·.1) ↔ (g, n) ∈ keys s.cols := by
  simp only [List.mem_map, mem_keys]
  constructor
  · rintro ⟨⟨n', h⟩, hm, rfl⟩; exact ⟨h, mem_ownedBy.1 hm⟩
  · rintro ⟨h, hm⟩; exact ⟨(n, h), mem_ownedBy.2 hm, rfl⟩

variable {cur : List Name} {dict : List (Name × Name)} {cs : List (Name × Nat)} {p : List Step1}

theorem PlanFacts.step_of_cur (F : PlanFacts cur dict cs p) (hcur : cur = cs.map (·.1)) {n : Name} (hn : n ∈ cur) :
    ∃ st ∈ p, st.k = n := by
  have hk : p.map (·.k) = cur := by
    rw [hcur, ← F.shape]; simp [List.map_map, Function.comp]
  rw [← hk] at hn
  simpa using hn

theorem mem_frL {a b : Name} : (a, b) ∈ frL p ↔ ∃ st ∈ p, st.target = some b ∧ st.uname = a := by
  simp only [frL, List.mem_filterMap, Option.map_eq_some_iff, Prod.mk.injEq]
  constructor
  · rintro ⟨st, hst, t, ht, rfl, rfl⟩; exact ⟨st, hst, ht, rfl⟩
  · rintro ⟨st, hst, ht, rfl⟩; exact ⟨st, hst, b, ht, rfl, rfl⟩

/-- the second-pass moves that h5py really performs -/
def proper (ms : List (Name × Name)) : List (Name × Name) := ms.filter fun m => m.1 ≠ m.2

/-- first pass then second pass send every current column to its final name -/
theorem two_pass_key (F : PlanFacts cur dict cs p) (g : Nat) {st : Step1} (hst : st ∈ p) :
    moveKey g (proper (frL p)) (moveKey g (moves1 p) (g, st.k)) = (g, renOf dict st.k) := by
  have e1 : moveKey g (moves1 p) (g, st.k) = (g, st.uname) := by
    simp only [moveKey, if_true, look_moves1 F hst]
  rw [e1]
  simp only [moveKey, if_true, Prod.mk.injEq, true_and]
  rw [F.renOf_eq hst]
  have hl := F.look_frL hst
  cases ht : st.target with
  | none =>
    rw [ht] at hl
    unfold proper
    rw [lookN_filter_none _ hl]
  | some t =>
    rw [ht] at hl
    unfold proper
    rw [lookN_filter_some F.frL_keys_nodup _ hl]
    by_cases hut : st.uname = t
    · simp [hut]
    · simp [hut]

theorem renameFields_ok {s : State} (hI : InvCore s) (g : Nat) (dict : List (Name × Name))
    (hok : RenameOk dict ((ownedBy s.cols g).map (·.1))) :
    renameFields .repaired s g dict = .ok () (renamedState s g dict) := by
  have hcn : ((ownedBy s.cols g).map (·.1)).Nodup := ownedBy_keys_nodup hI.colsNodup g
  obtain ⟨p, hp⟩ := plan1_total ((ownedBy s.cols g).map (·.1)) dict (ownedBy s.cols g)
    ((ownedBy s.cols g).map (·.1) ++ dict.map (·.2))
  have F := planFacts rfl hcn hok.valsNodup hp
  have hfind : (dict.map (·.1)).find? (fun k => decide (k ∉ (ownedBy s.cols g).map (·.1))) = none := by
    rw [List.find?_eq_none]
    intro k hk
    simp [hok.keysPresent k hk]
  have hcl : clashes (((ownedBy s.cols g).map (·.1)).filter (fun k => decide (k ∉ dict.map (·.1)))) (dict.map (·.2)) = [] := by
    rw [clashes_nil]
    refine ⟨hok.valsNodup, ?_⟩
    intro v hv hm
    simp only [List.mem_filter, decide_eq_true_eq] at hm
    exact hm.2 (hok.noClash v hv hm.1)
  -- first pass
  have h1 : applyMoves g (moves1 p) s.links = .ok (s.links.map fun e => (moveKey g (moves1 p) e.1, e.2)) := by
    apply applyMoves_ok g _ _ (moves1_keys_nodup F) _ (moves1_vals_nodup F)
    · intro b hb
      simp only [List.mem_map] at hb
      obtain ⟨⟨a, b'⟩, hab, rfl⟩ := hb
      obtain ⟨st, hst, hne, _, rfl⟩ := mem_moves1.1 hab
      intro hm
      exact F.ufresh st hst hne (mem_cur.2 ((hI.sameKeys _).2 hm))
    · intro a ha
      simp only [List.mem_map] at ha
      obtain ⟨⟨a', b⟩, hab, rfl⟩ := ha
      obtain ⟨st, hst, _, rfl, _⟩ := mem_moves1.1 hab
      exact (hI.sameKeys _).1 (mem_cur.1 (F.kcur st hst))
  unfold renameFields
  simp only [hfind, hcl, ne_eq, not_true_eq_false, if_false, hp, h1, F.moves2_eq,
    F.finalCols_eq rfl hcn hok.keysNodup hok.valsNodup hok.noClash]
  have hstep : ∀ n, (g, n) ∈ keys s.links → ∃ st ∈ p, st.k = n := fun n hn =>
    F.step_of_cur rfl (mem_cur.2 ((hI.sameKeys _).2 hn))
  have h2 : applyMoves g (frL p) (s.links.map fun e => (moveKey g (moves1 p) e.1, e.2))
      = .ok (s.links.map fun e => (renKey g dict e.1, e.2)) := by
    rw [applyMoves_skip]
    have hsub : List.Sublist (proper (frL p)) (frL p) := List.filter_sublist
    rw [show (frL p).filter (fun m => m.1 ≠ m.2) = proper (frL p) from rfl]
    rw [applyMoves_ok g (proper (frL p)) _ ((hsub.map _).nodup F.frL_keys_nodup) _ ((hsub.map _).nodup F.frL_vals_nodup)]
    · congr 1
      rw [List.map_map]
      apply List.map_congr_left
      intro e he
      simp only [Function.comp, Prod.mk.injEq, and_true]
      by_cases hg : e.1.1 = g
      · obtain ⟨st, hst, hk⟩ := hstep e.1.2 (by rw [← hg]; exact mem_keys_of_mem he)
        have : e.1 = (g, st.k) := by rw [hk, ← hg]
        rw [this, two_pass_key F g hst]
        simp [renKey]
      · simp [moveKey, renKey, hg]
    · -- destinations are free after the first pass
      intro b hb
      simp only [List.mem_map] at hb
      obtain ⟨⟨a, b'⟩, hab, rfl⟩ := hb
      have hab' := List.mem_filter.1 hab
      obtain ⟨st, hst, ht, hu⟩ := mem_frL.1 hab'.1
      have hne : st.uname ≠ b' := by
        have := hab'.2; simp only [ne_eq, decide_eq_true_eq] at this; rw [hu]; exact this
      have hbcur := F.direct st hst b' ht hne
      intro hm
      simp only [keys, List.map_map, List.mem_map, Function.comp] at hm
      obtain ⟨e, he, heq⟩ := hm
      by_cases hg : e.1.1 = g
      · obtain ⟨st', hst', hk⟩ := hstep e.1.2 (by rw [← hg]; exact mem_keys_of_mem he)
        have e1 : moveKey g (moves1 p) e.1 = (g, st'.uname) := by
          have : e.1 = (g, st'.k) := by rw [hk, ← hg]
          rw [this]; simp only [moveKey, if_true, look_moves1 F hst']
        rw [e1] at heq
        have hu' : st'.uname = b' := (Prod.mk.inj heq).2
        have hnone : st'.target = none := by
          cases hts : st'.target with
          | none => rfl
          | some t' => exact absurd (hu' ▸ hbcur) (F.ufresh st' hst' (by simp [hts]))
        have hkb : st'.k = b' := by rw [← F.keep st' hst' hnone]; exact hu'
        have hbkey := hok.noClash b' (List.mem_map.2 ⟨(st.k, b'), lookN_mem ((F.target st hst) ▸ ht), rfl⟩) hbcur
        have : lookN dict st'.k ≠ none := by
          rw [hkb]; intro hn; exact (lookN_eq_none.1 hn) hbkey
        exact this ((F.target st' hst') ▸ hnone)
      · simp only [moveKey, hg, if_false] at heq
        exact hg (by rw [heq])
    · -- sources are present after the first pass
      intro a ha
      simp only [List.mem_map] at ha
      obtain ⟨⟨a', b⟩, hab, rfl⟩ := ha
      obtain ⟨st, hst, ht, hu⟩ := mem_frL.1 (List.mem_filter.1 hab).1
      have hkl : (g, st.k) ∈ keys s.links := (hI.sameKeys _).1 (mem_cur.1 (F.kcur st hst))
      obtain ⟨o, ho⟩ := mem_keys.1 hkl
      simp only [keys, List.map_map, List.mem_map, Function.comp]
      refine ⟨((g, st.k), o), ho, ?_⟩
      simp only [moveKey, if_true, look_moves1 F hst, hu]
  rw [h2]
  rfl

theorem renKey_frame (g : Nat) (dict : List (Name × Name)) (k : Key) : (renKey g dict k).1 = k.1 := by
  unfold renKey; split
  · next h => exact h.symm
  · rfl

theorem renKey_inj {s : State} {g : Nat} {dict : List (Name × Name)}
    (hok : RenameOk dict ((ownedBy s.cols g).map (·.1))) {a b : Key} (ha : a ∈ keys s.cols) (hb : b ∈ keys s.cols)
    (h : renKey g dict a = renKey g dict b) : a = b := by
  have hf : a.1 = b.1 := by rw [← renKey_frame g dict a, ← renKey_frame g dict b, h]
  obtain ⟨ga, na⟩ := a
  obtain ⟨gb, nb⟩ := b
  simp only at hf
  subst hf
  unfold renKey at h
  simp only at h
  split at h
  · next hg =>
    subst hg
    have := (Prod.mk.inj h).2
    rw [renOf_inj hok.keysNodup hok.valsNodup hok.noClash (mem_cur.2 ha) (mem_cur.2 hb) this]
  · exact h

theorem mem_renamed_cols {s : State} {g : Nat} {dict : List (Name × Name)} {e' : Key × Nat} :
    e' ∈ (renamedState s g dict).cols ↔ ∃ e ∈ s.cols, e' = (renKey g dict e.1, e.2) := by
  simp only [renamedState, setFrameCols, List.mem_append, mem_dropOwner, List.map_map, List.mem_map, Function.comp]
  constructor
  · rintro (⟨h1, h2⟩ | ⟨⟨n, h⟩, hm, rfl⟩)
    · exact ⟨e', h1, by simp [renKey, h2]⟩
    · exact ⟨((g, n), h), mem_ownedBy.1 hm, by simp [renKey]⟩
  · rintro ⟨e, he, rfl⟩
    by_cases hg : e.1.1 = g
    · right
      refine ⟨(e.1.2, e.2), mem_ownedBy.2 (by rw [← hg]; exact he), ?_⟩
      simp [renKey, hg]
    · left
      simp only [renKey, hg, if_false]
      exact ⟨he, hg⟩

theorem mem_renamed_links {s : State} {g : Nat} {dict : List (Name × Name)} {e' : Key × Nat} :
    e' ∈ (renamedState s g dict).links ↔ ∃ e ∈ s.links, e' = (renKey g dict e.1, e.2) := by
  simp only [renamedState, List.mem_map]
  constructor
  · rintro ⟨e, he, rfl⟩; exact ⟨e, he, rfl⟩
  · rintro ⟨e, he, rfl⟩; exact ⟨e, he, rfl⟩

theorem renamedState_core {s : State} (hI : InvCore s) (g : Nat) (dict : List (Name × Name))
    (hok : RenameOk dict ((ownedBy s.cols g).map (·.1))) : InvCore (renamedState s g dict) := by
  have hinj : ∀ a ∈ keys s.cols, ∀ b ∈ keys s.cols, renKey g dict a = renKey g dict b → a = b :=
    fun a ha b hb h => renKey_inj hok ha hb h
  have hinjL : ∀ a ∈ keys s.links, ∀ b ∈ keys s.links, renKey g dict a = renKey g dict b → a = b :=
    fun a ha b hb h => renKey_inj hok ((hI.sameKeys _).2 ha) ((hI.sameKeys _).2 hb) h
  have mkeysC : ∀ k', k' ∈ keys (renamedState s g dict).cols ↔ ∃ k ∈ keys s.cols, k' = renKey g dict k := by
    intro k'
    simp only [mem_keys, mem_renamed_cols]
    constructor
    · rintro ⟨v, e, he, heq⟩; exact ⟨e.1, ⟨e.2, he⟩, (Prod.mk.inj heq).1⟩
    · rintro ⟨k, ⟨v, hv⟩, rfl⟩; exact ⟨v, (k, v), hv, rfl⟩
  have mkeysL : ∀ k', k' ∈ keys (renamedState s g dict).links ↔ ∃ k ∈ keys s.links, k' = renKey g dict k := by
    intro k'
    simp only [mem_keys, mem_renamed_links]
    constructor
    · rintro ⟨v, e, he, heq⟩; exact ⟨e.1, ⟨e.2, he⟩, (Prod.mk.inj heq).1⟩
    · rintro ⟨k, ⟨v, hv⟩, rfl⟩; exact ⟨v, (k, v), hv, rfl⟩
  refine { colsNodup := ?_, linksNodup := ?_, sameKeys := ?_, sameObj := ?_, handleInj := ?_, oidInj := ?_, oidLt := ?_,
           fileNodup := hI.fileNodup, frameInj := hI.frameInj, frameName := hI.frameName, frameDs := hI.frameDs,
           fdsLen := hI.fdsLen, linkFrame := ?_, handleLink := ?_, handleOidLt := hI.handleOidLt }
  · -- keys of the new `_columns`
    show (keys (setFrameCols s.cols g ((ownedBy s.cols g).map fun e => (renOf dict e.1, e.2)))).Nodup
    simp only [setFrameCols, keys_append]
    rw [List.nodup_append]
    refine ⟨keys_dropOwner_nodup _ hI.colsNodup, ?_, ?_⟩
    · have : keys (((ownedBy s.cols g).map fun e => (renOf dict e.1, e.2)).map fun e => ((g, e.1), e.2))
          = ((ownedBy s.cols g).map (·.1)).map (fun n => (g, renOf dict n)) := by
        simp [keys, List.map_map, Function.comp]
      rw [this]
      refine nodup_map_on ?_ (ownedBy_keys_nodup hI.colsNodup g)
      intro a ha b hb hab
      exact renOf_inj hok.keysNodup hok.valsNodup hok.noClash ha hb (Prod.mk.inj hab).2
    · intro a ha b hb heq
      subst heq
      have h1 := (mem_keys_dropOwner.1 ha).2
      simp only [keys, List.map_map, List.mem_map, Function.comp] at hb
      obtain ⟨e, _, rfl⟩ := hb
      exact h1 rfl
  · show (keys (s.links.map fun e => (renKey g dict e.1, e.2))).Nodup
    have : keys (s.links.map fun e => (renKey g dict e.1, e.2)) = (keys s.links).map (renKey g dict) := by
      simp [keys, List.map_map, Function.comp]
    rw [this]
    exact nodup_map_on hinjL hI.linksNodup
  · intro k'
    rw [mkeysC, mkeysL]
    constructor
    · rintro ⟨k, hk, rfl⟩; exact ⟨k, (hI.sameKeys k).1 hk, rfl⟩
    · rintro ⟨k, hk, rfl⟩; exact ⟨k, (hI.sameKeys k).2 hk, rfl⟩
  · intro k' h hk'
    obtain ⟨e, he, heq⟩ := mem_renamed_cols.1 hk'
    obtain ⟨rfl, rfl⟩ := Prod.mk.inj heq
    obtain ⟨hd, h1, h2, h3, h4, h5, h6⟩ := hI.sameObj e.1 e.2 he
    refine ⟨hd, h1, h2, h3, by rw [renKey_frame]; exact h4, by rw [renKey_frame]; exact h5, ?_⟩
    exact mem_renamed_links.2 ⟨(e.1, hd.oid), h6, rfl⟩
  · -- one field object per column
    show ((setFrameCols s.cols g ((ownedBy s.cols g).map fun e => (renOf dict e.1, e.2))).map (·.2)).Nodup
    simp only [setFrameCols, List.map_append, List.map_map]
    rw [List.nodup_append]
    refine ⟨vals_dropOwner_nodup _ hI.handleInj, ?_, ?_⟩
    · have : (ownedBy s.cols g).map ((fun x : Key × Nat => x.2) ∘ (fun e : Name × Nat => ((g, e.1), e.2)) ∘ fun e => (renOf dict e.1, e.2))
          = (s.cols.filter (fun e => e.1.1 = g)).map (·.2) := by
        simp only [ownedBy, List.map_filterMap]
        rw [← List.filterMap_eq_map, List.filterMap_filter]
        apply filterMap_congr'
        intro e _
        by_cases hg : e.1.1 = g <;> simp [hg]
      rw [this]
      exact (List.Sublist.map _ List.filter_sublist).nodup hI.handleInj
    · intro a ha b hb heq
      subst heq
      simp only [List.mem_map, mem_dropOwner] at ha
      obtain ⟨e1, ⟨he1, hg1⟩, rfl⟩ := ha
      simp only [List.mem_map, Function.comp] at hb
      obtain ⟨⟨n, h⟩, hm, heq⟩ := hb
      simp only at heq
      have he2 := mem_ownedBy.1 hm
      rw [heq] at he2
      have := injective hI.handleInj (k := e1.1) (k' := (g, n)) (v := e1.2) he1 he2
      exact hg1 (by rw [this])
  · show ((s.links.map fun e => (renKey g dict e.1, e.2)).map (·.2)).Nodup
    have : (s.links.map fun e => (renKey g dict e.1, e.2)).map (·.2) = s.links.map (·.2) := by
      simp [List.map_map, Function.comp]
    rw [this]; exact hI.oidInj
  · intro k' o hk'
    obtain ⟨e, he, heq⟩ := mem_renamed_links.1 hk'
    obtain ⟨rfl, rfl⟩ := Prod.mk.inj heq
    exact hI.oidLt e.1 e.2 he
  · intro k' o hk'
    obtain ⟨e, he, heq⟩ := mem_renamed_links.1 hk'
    obtain ⟨rfl, rfl⟩ := Prod.mk.inj heq
    rw [renKey_frame]
    exact hI.linkFrame e.1 e.2 he
  · intro h hd hh hc k' hk'
    obtain ⟨e, he, heq⟩ := mem_renamed_links.1 hk'
    obtain ⟨rfl, ho⟩ := Prod.mk.inj heq
    have := hI.handleLink h hd hh hc e.1 (by rw [ho]; exact he)
    rw [renKey_frame]; exact this

/-- a rename that does not pass the pre-check raises and changes nothing -/
theorem renameFields_fail (v : Variant) (s : State) (g : Nat) (dict : List (Name × Name)) (hkn : (dict.map (·.1)).Nodup)
    (hbad : ¬ RenameOk dict ((ownedBy s.cols g).map (·.1))) : ∃ e, renameFields v s g dict = .err e s := by
  unfold renameFields
  dsimp only
  split
  · exact ⟨_, rfl⟩
  · next hfind =>
    split
    · exact ⟨_, rfl⟩
    · next hcl =>
      exfalso
      apply hbad
      rw [List.find?_eq_none] at hfind
      have hcl' := clashes_nil.1 (Decidable.not_not.1 hcl)
      refine ⟨hkn, ?_, hcl'.1, ?_⟩
      · intro k hk
        have := hfind k hk
        simpa using this
      · intro t ht htc
        have := hcl'.2 t ht
        simp only [List.mem_filter, decide_eq_true_eq, not_and, Decidable.not_not] at this
        exact this htc

theorem renameFields_frames (v : Variant) (s : State) (g : Nat) (dict : List (Name × Name)) :
    SameFrames s (renameFields v s g dict).state := by
  unfold renameFields
  dsimp only
  split
  · exact SameFrames.refl s
  split
  · exact SameFrames.refl s
  split
  · exact SameFrames.refl s
  split
  · exact ⟨rfl, rfl, rfl, rfl⟩
  split <;> exact ⟨rfl, rfl, rfl, rfl⟩

/-- `rename` is all or nothing and keeps the core invariant -/
theorem renameFields_core {s : State} (hI : InvCore s) (g : Nat) (dict : List (Name × Name)) (hkn : (dict.map (·.1)).Nodup) :
    InvCore (renameFields .repaired s g dict).state := by
  by_cases hok : RenameOk dict ((ownedBy s.cols g).map (·.1))
  · rw [renameFields_ok hI g dict hok]; exact renamedState_core hI g dict hok
  · obtain ⟨e, he⟩ := renameFields_fail .repaired s g dict hkn hok
    rw [he]; exact hI

theorem invalidate_frames (s : State) (h : Nat) : SameFrames s (invalidate s h) := ⟨rfl, rfl, rfl, rfl⟩

theorem moveField_core {s : State} (hI : InvCore s) (h g : Nat) (n : Name) (hg : g ∈ s.file.map (·.2)) :
    InvCore (moveField .repaired s h g n).state := by
  unfold moveField
  split
  · exact hI
  · next hd hv =>
    split
    · split
      · exact hI
      · exact renameFields_core hI g _ (by simp)
    · exact moveField_cross_inv hI h g n hd hg hv

theorem moveField_frames (s : State) (h g : Nat) (n : Name) : SameFrames s (moveField .repaired s h g n).state := by
  unfold moveField
  split
  · exact SameFrames.refl s
  · next hd hv =>
    split
    · split
      · exact SameFrames.refl s
      · exact renameFields_frames ..
    · have h1 := copyField_frames .repaired s h g n
      cases hc : copyField .repaired s h g n with
      | err e s1 => rw [hc] at h1; exact h1
      | ok a s1 =>
        rw [hc] at h1
        simp only [Res.andThen]
        split
        · exact h1
        · next og _ =>
          split
          · exact h1
          · next k _ =>
            have h2 := dropField_frames s1 og k
            cases hdrop : dropField s1 og k with
            | err e s2 => rw [hdrop] at h2; exact h1.trans h2
            | ok a s2 => rw [hdrop] at h2; exact (h1.trans h2).trans (invalidate_frames s2 h)

end Exetera.Catalogue
