import Exetera.Lemmas.ConcatKernel
import Exetera.Lemmas.While
/-! C16, session level: the batch loop of `Session.apply_spans_concat` (repaired variant) terminates and stores the
    offsets and bytes of `concatSpec`, whatever the batch boundaries are. -/
set_option linter.unusedSectionVars false
set_option linter.unusedSimpArgs false
namespace Exetera.Concat

open Exetera Exetera.Spec.CsvLine

variable {α : Type} [DecidableEq α]

/-- loop invariant of the batch loop: everything up to span `st.s` has been stored -/
structure BatchInv (outs : List (List α)) (st : S α) : Prop where
  le : st.s ≤ outs.length
  indices : st.dest.indices = if st.s = 0 then [] else offsets (outs.take st.s)
  values : st.dest.values = (outs.take st.s).flatten
  total : st.total = (outs.take st.s).flatten.length

theorem offsets_append (xs ys : List (List α)) :
    offsets (xs ++ ys) = offsets xs ++ offsetsFrom xs.flatten.length ys := by
  simp [offsets, offsetsFrom_append]

/-- one batch: the invariant is kept and the number of spans left decreases -/
theorem batchBody_step (sep delim : α) (spans : List Nat) (entries : List (List α)) (srcChunk valueCap : Nat)
    (hb : ∀ p ∈ spans, p ≤ entries.length) (hsc : 1 ≤ srcChunk) (M : Nat)
    (hM : ∀ o ∈ concatSpec sep delim entries spans, o.length ≤ M)
    (hMV : M ≤ valueCap) (hV : valueCap / 2 - 1 + M ≤ valueCap)
    (st : S α) (hinv : BatchInv (concatSpec sep delim entries spans) st)
    (hg : batchGuard spans st = true) :
    ∃ st', batchBody .repaired sep delim spans (offsets entries) entries.flatten srcChunk valueCap st = .ok st' ∧
      BatchInv (concatSpec sep delim entries spans) st' ∧
      (concatSpec sep delim entries spans).length - st'.s < (concatSpec sep delim entries spans).length - st.s := by
  generalize houts : concatSpec sep delim entries spans = outs at *
  have hlen : outs.length = spans.length - 1 := by rw [← houts]; exact concatSpec_length _ _ _ _
  have hlt : st.s < spans.length - 1 := by simpa [batchGuard] using hg
  let P := batchParams .repaired sep delim spans (offsets entries) entries.flatten srcChunk valueCap st
  have hc : Col P entries := ⟨rfl, rfl, hb⟩
  obtain ⟨k, hk, hle, hker⟩ := kernel_spec P entries hc M
    (by simpa [P, batchParams, houts] using hM) (Nat.le_refl _)
    (by simp only [P, batchParams]; omega) (by simp only [P, batchParams]; omega) st.s hlt
    (by simp only [P, batchParams, indexCap]; split <;> omega)
  have hle' : st.s + k ≤ spans.length - 1 := hle
  have hker' : kernel (batchParams .repaired sep delim spans (offsets entries) entries.flatten srcChunk valueCap st)
      st.s = _ := hker
  simp only [P, batchParams, houts] at hker'
  generalize hT : (outs.drop st.s).take k = T at hker'
  have htake : outs.take (st.s + k) = outs.take st.s ++ T := by
    rw [← hT, List.take_add]
  have hTlen : T.length = k := by
    rw [← hT, List.length_take, List.length_drop]; omega
  refine ⟨_, by simp only [batchBody, batchParams, hker']; rfl, ?_, ?_⟩
  · have hnz : ((if st.s = 0 then [0] else []) ++ offsetsFrom st.total T).length > 0 := by
      simp [offsetsFrom_length, hTlen]; omega
    constructor
    · simp only []; omega
    · simp only [hnz, decide_true, Bool.true_or, if_true]
      have hne : st.s + k ≠ 0 := by omega
      rw [if_neg hne, htake, offsets_append, hinv.indices, hinv.total]
      by_cases h0 : st.s = 0
      · simp [h0, offsets, offsetsFrom]
      · simp [h0]
    · simp only [hnz, decide_true, Bool.true_or, if_true]
      rw [htake, hinv.values]
      simp
    · simp only []
      rw [htake, hinv.total]
      simp
  · simp only []
    omega

/-- the batch loop terminates without error and stores the specification's offsets and bytes -/
theorem runBatches_spec (sep delim : α) (spans : List Nat) (entries : List (List α)) (srcChunk valueCap : Nat)
    (hb : ∀ p ∈ spans, p ≤ entries.length) (hsc : 1 ≤ srcChunk) (M : Nat)
    (hM : ∀ o ∈ concatSpec sep delim entries spans, o.length ≤ M)
    (hMV : M ≤ valueCap) (hV : valueCap / 2 - 1 + M ≤ valueCap) :
    ∃ st, runBatches .repaired sep delim spans (offsets entries) entries.flatten srcChunk valueCap = .ok st ∧
      st.dest = ⟨storedIndices (concatSpec sep delim entries spans), (concatSpec sep delim entries spans).flatten⟩ := by
  have hlen := concatSpec_length sep delim entries spans
  obtain ⟨st, hrun, hinv, hguard⟩ := whileE_rule (batchGuard spans)
    (batchBody .repaired sep delim spans (offsets entries) entries.flatten srcChunk valueCap)
    (BatchInv (concatSpec sep delim entries spans))
    (fun st => (concatSpec sep delim entries spans).length - st.s)
    (fun st hinv hg => batchBody_step sep delim spans entries srcChunk valueCap hb hsc M hM hMV hV st hinv hg)
    spans.length {} ⟨by simp, by simp, by simp, by simp⟩ (by simp only []; omega)
  refine ⟨st, hrun, ?_⟩
  have hs : st.s = (concatSpec sep delim entries spans).length := by
    have h1 := hinv.le
    have h2 : ¬ st.s < spans.length - 1 := by simpa [batchGuard] using hguard
    omega
  have hi := hinv.indices
  have hv := hinv.values
  rw [hs, List.take_length] at hi hv
  cases hd : st.dest with
  | mk i v =>
    rw [hd] at hi hv
    simp only [] at hi hv
    rw [hi, hv]
    simp only [storedIndices, Dest.mk.injEq, and_true]
    cases h : concatSpec sep delim entries spans with
    | nil => simp
    | cons o os => simp

end Exetera.Concat
