import Exetera.Lemmas.SpansApply
import Exetera.Lemmas.SpansScan
import Exetera.Lemmas.SpansLex
/-! Helper lemmas for C08, part 7: `apply_spans_index_of_min_indexed` / `…_max_indexed` (with fix D18) return, for every
    span, the first lexicographically minimal / maximal row — and never read outside `indices` / `values`. -/
namespace Exetera.Spans

open Exetera Exetera.Spec

/-- relational form of the span loop: one result per span, each related to its span by `P` -/
theorem forPairs_rel {β} (f : Nat → Nat → Except Err β) (P : Nat × Nat → β → Prop) :
    ∀ sp : List Nat, (∀ p ∈ pairs sp, ∃ v, f p.1 p.2 = .ok v ∧ P p v) →
      ∃ r, forPairs f sp = .ok r ∧ r.length = (pairs sp).length ∧ ∀ pv ∈ (pairs sp).zip r, P pv.1 pv.2
  | [], _ => ⟨[], rfl, rfl, by simp⟩
  | [_], _ => ⟨[], rfl, rfl, by simp⟩
  | a :: b :: rest, hyp => by
    obtain ⟨v, hv, hh⟩ := hyp (a, b) (by simp)
    obtain ⟨r, hr, hl, hm⟩ := forPairs_rel f P (b :: rest) (fun p hp => hyp p (by simp [hp]))
    refine ⟨v :: r, ?_, ?_, ?_⟩
    · simp only [forPairs]
      simp only [] at hv
      rw [hv, hr]; rfl
    · simp [hl]
    · intro pv hpv
      rw [pairs_cons_cons, List.zip_cons_cons, List.mem_cons] at hpv
      rcases hpv with rfl | hpv
      · exact hh
      · exact hm pv hpv

/-- facts about row `j` of a validly indexed string column -/
theorem row_facts (indices values : List Nat) (hv : ValidIndex indices values) (j : Nat) (hj : j + 1 < indices.length) :
    indices[j] ≤ indices[j + 1] ∧ indices[j + 1] ≤ values.length ∧
    (decodeRows indices values)[j]? = some (slice values indices[j] indices[j + 1]) ∧
    (slice values indices[j] indices[j + 1]).length = indices[j + 1] - indices[j] := by
  have h1 : indices[j] ≤ indices[j + 1] :=
    (List.pairwise_iff_getElem.1 hv.1) j (j + 1) (by omega) hj (by omega)
  have h2 : indices[j + 1] ≤ values.length := hv.2 _ (List.getElem_mem hj)
  refine ⟨h1, h2, getElem?_decodeRows indices values j hj, ?_⟩
  rw [slice_length]; omega

/-- the byte loop on two rows decides `cmpPrefix` of the rows, reading only inside `values` -/
theorem cmpLoop_rows (values : List Nat) (cs cl ms ml : Nat) (hc : cs + cl ≤ values.length) (hm : ms + ml ≤ values.length) :
    cmpLoop values cs ms (min cl ml) 0 = .ok (cmpPrefix (slice values cs (cs + cl)) (slice values ms (ms + ml))) := by
  rw [cmpLoop_eq values cs ms (min cl ml) 0 (by omega) (by omega)]
  simp only [Nat.add_zero]
  rw [← slice_take values cs cl (min cl ml) (by omega), ← slice_take values ms ml (min cl ml) (by omega)]
  have l1 : (slice values cs (cs + cl)).length = cl := by rw [slice_length]; omega
  have l2 : (slice values ms (ms + ml)).length = ml := by rw [slice_length]; omega
  have := cmpPrefix_take (slice values cs (cs + cl)) (slice values ms (ms + ml))
  rw [l1, l2] at this
  rw [this]

/-! ### min -/

/-- invariant of the `for j in range(cur+1, next)` loop: the state describes row `minind`, the first minimum of `[cur, j)` -/
def MinInv (indices values : List Nat) (cur j : Nat) (st : MinSt) : Prop :=
  indices[st.minind]? = some st.minstart ∧ indices[st.minind + 1]? = some (st.minstart + st.minlen) ∧
  IsFirstMinIn (decodeRows indices values) cur j st.minind

theorem isFirstMinIn_single (rows : List (List Nat)) (cur : Nat) (row : List Nat) (h : rows[cur]? = some row) :
    IsFirstMinIn rows cur (cur + 1) cur := by
  refine ⟨Nat.le_refl _, by omega, row, h, ?_, ?_⟩
  · intro t s h1 h2 hs
    have : t = cur := by omega
    subst this; rw [h] at hs; injection hs with hs; subst hs; exact lexLt_irrefl _
  · intro t s h1 h2; omega

theorem isFirstMinIn_update (rows : List (List Nat)) (cur j mi : Nat) (c m : List Nat) (hcur : cur ≤ j)
    (hinv : IsFirstMinIn rows cur j mi) (hm : rows[mi]? = some m) (hc : rows[j]? = some c) (hlt : lexLt c m = true) :
    IsFirstMinIn rows cur (j + 1) j := by
  obtain ⟨_, _, row, hrow, hall, _⟩ := hinv
  rw [hm] at hrow; injection hrow with hrow; subst hrow
  refine ⟨hcur, by omega, c, hc, ?_, ?_⟩
  · intro t s h1 h2 hs
    by_cases htj : t = j
    · subst htj; rw [hc] at hs; injection hs with hs; subst hs; exact lexLt_irrefl _
    · exact lexLt_not_below hlt (hall t s h1 (by omega) hs)
  · intro t s h1 h2 hs
    exact lexLt_of_lt_of_not_lt hlt (hall t s h1 h2 hs)

theorem isFirstMinIn_keep (rows : List (List Nat)) (cur j mi : Nat) (c m : List Nat)
    (hinv : IsFirstMinIn rows cur j mi) (hm : rows[mi]? = some m) (hc : rows[j]? = some c) (hlt : lexLt c m = false) :
    IsFirstMinIn rows cur (j + 1) mi := by
  obtain ⟨h1, h2, row, hrow, hall, hbefore⟩ := hinv
  rw [hm] at hrow; injection hrow with hrow; subst hrow
  refine ⟨h1, by omega, m, hm, ?_, hbefore⟩
  intro t s ht1 ht2 hs
  by_cases htj : t = j
  · subst htj; rw [hc] at hs; injection hs with hs; subst hs; exact hlt
  · exact hall t s ht1 (by omega) hs

theorem minIdxLoop_spec (indices values : List Nat) (hv : ValidIndex indices values) (cur : Nat) :
    ∀ n j st, j + n + 1 ≤ indices.length → cur ≤ j → MinInv indices values cur j st →
      ∃ r, minIdxLoop .repaired indices values n j st = .ok r ∧ IsFirstMinIn (decodeRows indices values) cur (j + n) r
  | 0, j, st, _, _, hinv => ⟨st.minind, rfl, hinv.2.2⟩
  | n + 1, j, st, hlen, hcj, hinv => by
    obtain ⟨hms, hme, hfirst⟩ := hinv
    have hj : j + 1 < indices.length := by omega
    obtain ⟨hle, hbound, hrowj, hlenj⟩ := row_facts indices values hv j hj
    -- the current minimum's row
    have hmi_lt : st.minind + 1 < indices.length := by
      have := (List.getElem?_eq_some_iff.1 hme).1; exact this
    obtain ⟨hle', hbound', hrowm, hlenm⟩ := row_facts indices values hv st.minind hmi_lt
    have e1 : indices[st.minind] = st.minstart := by
      have := List.getElem?_eq_getElem (by omega : st.minind < indices.length); rw [this] at hms; injection hms
    have e2 : indices[st.minind + 1] = st.minstart + st.minlen := by
      have := List.getElem?_eq_getElem hmi_lt; rw [this] at hme; injection hme
    rw [e1, e2] at hrowm hlenm
    rw [e2] at hbound'
    -- unfold one iteration
    rw [minIdxLoop, getE_of_lt _ (by omega : j < indices.length), getE_of_lt _ hj]
    simp only []
    have hce : indices[j] + (indices[j + 1] - indices[j]) = indices[j + 1] := by omega
    have hcmp := cmpLoop_rows values indices[j] (indices[j + 1] - indices[j]) st.minstart st.minlen (by omega) hbound'
    rw [hce] at hcmp
    rw [hcmp]
    have hlex := lexLt_eq_cmpPrefix (slice values indices[j] indices[j + 1]) (slice values st.minstart (st.minstart + st.minlen))
    have hnext : j + 1 + n = j + (n + 1) := by omega
    have hmlen : (slice values st.minstart (st.minstart + st.minlen)).length = st.minlen := by rw [hlenm]; omega
    have upd : ∀ (_ : lexLt (slice values indices[j] indices[j + 1]) (slice values st.minstart (st.minstart + st.minlen)) = true),
        MinInv indices values cur (j + 1) ⟨j, indices[j], indices[j + 1] - indices[j]⟩ := fun hlt =>
      ⟨(List.getElem?_eq_getElem (by omega : j < indices.length) : indices[j]? = some indices[j]),
        (by rw [List.getElem?_eq_getElem hj, hce] : indices[j + 1]? = some (indices[j] + (indices[j + 1] - indices[j]))),
        isFirstMinIn_update _ cur j st.minind _ _ hcj hfirst hrowm hrowj hlt⟩
    have keep : ∀ (_ : lexLt (slice values indices[j] indices[j + 1]) (slice values st.minstart (st.minstart + st.minlen)) = false),
        MinInv indices values cur (j + 1) st := fun hlt =>
      ⟨hms, hme, isFirstMinIn_keep _ cur j st.minind _ _ hfirst hrowm hrowj hlt⟩
    cases hcp : cmpPrefix (slice values indices[j] indices[j + 1]) (slice values st.minstart (st.minstart + st.minlen)) with
    | curLess =>
      rw [hcp] at hlex
      simp only [beq_self_eq_true, if_true]
      rw [← hnext]
      exact minIdxLoop_spec indices values hv cur n (j + 1) _ (by omega) (by omega) (upd hlex)
    | curGreater =>
      rw [hcp] at hlex
      simp only []
      rw [← hnext]
      exact minIdxLoop_spec indices values hv cur n (j + 1) _ (by omega) (by omega) (keep hlex)
    | notFound =>
      rw [hcp] at hlex
      simp only [hlenj, hmlen] at hlex
      simp only [beq_self_eq_true, if_true]
      by_cases hsh : indices[j + 1] - indices[j] < st.minlen
      · simp only [hsh, if_true]
        rw [← hnext]
        exact minIdxLoop_spec indices values hv cur n (j + 1) _ (by omega) (by omega) (upd (by simpa [hsh] using hlex))
      · simp only [hsh, if_false]
        rw [← hnext]
        exact minIdxLoop_spec indices values hv cur n (j + 1) _ (by omega) (by omega) (keep (by simpa [hsh] using hlex))

theorem spanIndexOfMinIndexed_spec (indices values : List Nat) (hv : ValidIndex indices values) (cur next : Nat)
    (h1 : cur < next) (h2 : next + 1 ≤ indices.length) :
    ∃ v, spanIndexOfMinIndexed .repaired indices values cur next = .ok v ∧
      ∃ k : Nat, v = (k : Int) ∧ IsFirstMinIn (decodeRows indices values) cur next k := by
  obtain ⟨hle, hbound, hrow, hlen⟩ := row_facts indices values hv cur (by omega)
  unfold spanIndexOfMinIndexed
  by_cases hn : next = cur + 1
  · subst hn
    simp only [beq_self_eq_true, if_true]
    exact ⟨_, rfl, cur, rfl, isFirstMinIn_single _ cur _ hrow⟩
  · have : (next == cur + 1) = false := by simp [hn]
    simp only [this, Bool.false_eq_true, if_false]
    rw [getE_of_lt _ (by omega : cur < indices.length), getE_of_lt _ (by omega : cur + 1 < indices.length)]
    simp only []
    have hinv : MinInv indices values cur (cur + 1) ⟨cur, indices[cur], indices[cur + 1] - indices[cur]⟩ := by
      refine ⟨?_, ?_, isFirstMinIn_single _ cur _ hrow⟩
      · show indices[cur]? = some indices[cur]
        exact List.getElem?_eq_getElem (by omega)
      · show indices[cur + 1]? = some (indices[cur] + (indices[cur + 1] - indices[cur]))
        rw [List.getElem?_eq_getElem (by omega : cur + 1 < indices.length)]
        congr 1; omega
    obtain ⟨r, hr, hfirst⟩ := minIdxLoop_spec indices values hv cur (next - (cur + 1)) (cur + 1) _ (by omega) (by omega) hinv
    rw [hr]
    have : cur + 1 + (next - (cur + 1)) = next := by omega
    rw [this] at hfirst
    exact ⟨_, rfl, r, rfl, hfirst⟩

/-! ### max (same shape with the order reversed) -/

def MaxInv (indices values : List Nat) (cur j : Nat) (st : MinSt) : Prop :=
  indices[st.minind]? = some st.minstart ∧ indices[st.minind + 1]? = some (st.minstart + st.minlen) ∧
  IsFirstMaxIn (decodeRows indices values) cur j st.minind

theorem isFirstMaxIn_single (rows : List (List Nat)) (cur : Nat) (row : List Nat) (h : rows[cur]? = some row) :
    IsFirstMaxIn rows cur (cur + 1) cur := by
  refine ⟨Nat.le_refl _, by omega, row, h, ?_, ?_⟩
  · intro t s h1 h2 hs
    have : t = cur := by omega
    subst this; rw [h] at hs; injection hs with hs; subst hs; exact lexLt_irrefl _
  · intro t s h1 h2; omega

/-- `m < c` and `¬ m < s` give `¬ c < s` -/
theorem lexLt_not_above {c m s : List Nat} (hmc : lexLt m c = true) (hms : lexLt m s = false) : lexLt c s = false := by
  cases h : lexLt c s with
  | false => rfl
  | true => have := lexLt_trans m c s hmc h; rw [hms] at this; exact absurd this (by simp)

/-- `m < c` and `¬ m < s` give `s < c` -/
theorem lexLt_of_not_lt_of_lt {c m s : List Nat} (hmc : lexLt m c = true) (hms : lexLt m s = false) : lexLt s c = true := by
  rcases lexLt_total s c with h | h | h
  · exact h
  · subst h; rw [hmc] at hms; exact absurd hms (by simp)
  · have := lexLt_trans m c s hmc h; rw [hms] at this; exact absurd this (by simp)

theorem isFirstMaxIn_update (rows : List (List Nat)) (cur j mi : Nat) (c m : List Nat) (hcur : cur ≤ j)
    (hinv : IsFirstMaxIn rows cur j mi) (hm : rows[mi]? = some m) (hc : rows[j]? = some c) (hlt : lexLt m c = true) :
    IsFirstMaxIn rows cur (j + 1) j := by
  obtain ⟨_, _, row, hrow, hall, _⟩ := hinv
  rw [hm] at hrow; injection hrow with hrow; subst hrow
  refine ⟨hcur, by omega, c, hc, ?_, ?_⟩
  · intro t s h1 h2 hs
    by_cases htj : t = j
    · subst htj; rw [hc] at hs; injection hs with hs; subst hs; exact lexLt_irrefl _
    · exact lexLt_not_above hlt (hall t s h1 (by omega) hs)
  · intro t s h1 h2 hs
    exact lexLt_of_not_lt_of_lt hlt (hall t s h1 h2 hs)

theorem isFirstMaxIn_keep (rows : List (List Nat)) (cur j mi : Nat) (c m : List Nat)
    (hinv : IsFirstMaxIn rows cur j mi) (hm : rows[mi]? = some m) (hc : rows[j]? = some c) (hlt : lexLt m c = false) :
    IsFirstMaxIn rows cur (j + 1) mi := by
  obtain ⟨h1, h2, row, hrow, hall, hbefore⟩ := hinv
  rw [hm] at hrow; injection hrow with hrow; subst hrow
  refine ⟨h1, by omega, m, hm, ?_, hbefore⟩
  intro t s ht1 ht2 hs
  by_cases htj : t = j
  · subst htj; rw [hc] at hs; injection hs with hs; subst hs; exact hlt
  · exact hall t s ht1 (by omega) hs

theorem maxIdxLoop_spec (indices values : List Nat) (hv : ValidIndex indices values) (cur : Nat) :
    ∀ n j st, j + n + 1 ≤ indices.length → cur ≤ j → MaxInv indices values cur j st →
      ∃ r, maxIdxLoop indices values n j st = .ok r ∧ IsFirstMaxIn (decodeRows indices values) cur (j + n) r
  | 0, j, st, _, _, hinv => ⟨st.minind, rfl, hinv.2.2⟩
  | n + 1, j, st, hlen, hcj, hinv => by
    obtain ⟨hms, hme, hfirst⟩ := hinv
    have hj : j + 1 < indices.length := by omega
    obtain ⟨hle, hbound, hrowj, hlenj⟩ := row_facts indices values hv j hj
    have hmi_lt : st.minind + 1 < indices.length := by
      have := (List.getElem?_eq_some_iff.1 hme).1; exact this
    obtain ⟨hle', hbound', hrowm, hlenm⟩ := row_facts indices values hv st.minind hmi_lt
    have e1 : indices[st.minind] = st.minstart := by
      have := List.getElem?_eq_getElem (by omega : st.minind < indices.length); rw [this] at hms; injection hms
    have e2 : indices[st.minind + 1] = st.minstart + st.minlen := by
      have := List.getElem?_eq_getElem hmi_lt; rw [this] at hme; injection hme
    rw [e1, e2] at hrowm hlenm
    rw [e2] at hbound'
    rw [maxIdxLoop, getE_of_lt _ (by omega : j < indices.length), getE_of_lt _ hj]
    simp only []
    have hce : indices[j] + (indices[j + 1] - indices[j]) = indices[j + 1] := by omega
    have hcmp := cmpLoop_rows values indices[j] (indices[j + 1] - indices[j]) st.minstart st.minlen (by omega) hbound'
    rw [hce] at hcmp
    rw [hcmp]
    have hlex := lexLt_eq_cmpPrefix' (slice values indices[j] indices[j + 1]) (slice values st.minstart (st.minstart + st.minlen))
    have hnext : j + 1 + n = j + (n + 1) := by omega
    have hmlen : (slice values st.minstart (st.minstart + st.minlen)).length = st.minlen := by rw [hlenm]; omega
    have upd : ∀ (_ : lexLt (slice values st.minstart (st.minstart + st.minlen)) (slice values indices[j] indices[j + 1]) = true),
        MaxInv indices values cur (j + 1) ⟨j, indices[j], indices[j + 1] - indices[j]⟩ := fun hlt =>
      ⟨(List.getElem?_eq_getElem (by omega : j < indices.length) : indices[j]? = some indices[j]),
        (by rw [List.getElem?_eq_getElem hj, hce] : indices[j + 1]? = some (indices[j] + (indices[j + 1] - indices[j]))),
        isFirstMaxIn_update _ cur j st.minind _ _ hcj hfirst hrowm hrowj hlt⟩
    have keep : ∀ (_ : lexLt (slice values st.minstart (st.minstart + st.minlen)) (slice values indices[j] indices[j + 1]) = false),
        MaxInv indices values cur (j + 1) st := fun hlt =>
      ⟨hms, hme, isFirstMaxIn_keep _ cur j st.minind _ _ hfirst hrowm hrowj hlt⟩
    cases hcp : cmpPrefix (slice values indices[j] indices[j + 1]) (slice values st.minstart (st.minstart + st.minlen)) with
    | curGreater =>
      rw [hcp] at hlex
      simp only []
      rw [← hnext]
      exact maxIdxLoop_spec indices values hv cur n (j + 1) _ (by omega) (by omega) (upd hlex)
    | curLess =>
      rw [hcp] at hlex
      simp only []
      rw [← hnext]
      exact maxIdxLoop_spec indices values hv cur n (j + 1) _ (by omega) (by omega) (keep hlex)
    | notFound =>
      rw [hcp] at hlex
      simp only [hlenj, hmlen] at hlex
      simp only []
      by_cases hsh : indices[j + 1] - indices[j] > st.minlen
      · simp only [hsh, if_true]
        rw [← hnext]
        exact maxIdxLoop_spec indices values hv cur n (j + 1) _ (by omega) (by omega) (upd (by simpa [hsh] using hlex))
      · simp only [hsh, if_false]
        rw [← hnext]
        exact maxIdxLoop_spec indices values hv cur n (j + 1) _ (by omega) (by omega)
          (keep (by have : ¬ st.minlen < indices[j + 1] - indices[j] := hsh; simpa [this] using hlex))

theorem spanIndexOfMaxIndexed_spec (indices values : List Nat) (hv : ValidIndex indices values) (cur next : Nat)
    (h1 : cur < next) (h2 : next + 1 ≤ indices.length) :
    ∃ v, spanIndexOfMaxIndexed indices values cur next = .ok v ∧
      ∃ k : Nat, v = (k : Int) ∧ IsFirstMaxIn (decodeRows indices values) cur next k := by
  obtain ⟨hle, hbound, hrow, hlen⟩ := row_facts indices values hv cur (by omega)
  unfold spanIndexOfMaxIndexed
  by_cases hn : next = cur + 1
  · subst hn
    simp only [beq_self_eq_true, if_true]
    exact ⟨_, rfl, cur, rfl, isFirstMaxIn_single _ cur _ hrow⟩
  · have : (next == cur + 1) = false := by simp [hn]
    simp only [this, Bool.false_eq_true, if_false]
    rw [getE_of_lt _ (by omega : cur < indices.length), getE_of_lt _ (by omega : cur + 1 < indices.length)]
    simp only []
    have hinv : MaxInv indices values cur (cur + 1) ⟨cur, indices[cur], indices[cur + 1] - indices[cur]⟩ := by
      refine ⟨?_, ?_, isFirstMaxIn_single _ cur _ hrow⟩
      · show indices[cur]? = some indices[cur]
        exact List.getElem?_eq_getElem (by omega)
      · show indices[cur + 1]? = some (indices[cur] + (indices[cur + 1] - indices[cur]))
        rw [List.getElem?_eq_getElem (by omega : cur + 1 < indices.length)]
        congr 1; omega
    obtain ⟨r, hr, hfirst⟩ := maxIdxLoop_spec indices values hv cur (next - (cur + 1)) (cur + 1) _ (by omega) (by omega) hinv
    rw [hr]
    have : cur + 1 + (next - (cur + 1)) = next := by omega
    rw [this] at hfirst
    exact ⟨_, rfl, r, rfl, hfirst⟩

end Exetera.Spans
