/-!
  C10 — DOC Csv
-/
namespace Exetera.KernelPaths

/-- the CSV reader kernel (C05): path condition of every subscript occurrence -/
def csvPaths : List (String × List (String × List String)) := [
  ("fast_csv_reader", [
    ("R Union[str, StringIO]", []),
    ("R column_inds.shape[0]", []),
    ("R column_inds.shape[1]", []),
    ("R column_inds[col_index, row_index]", ["not (index == len(source))", "while True", "end_cell"]),
    ("R column_inds[col_index, row_index]", ["row_index >= 0"]),
    ("R column_offsets[1]", []),
    ("R column_offsets[col_index + 1]", ["not (index == len(source))", "while True", "end_cell", "end_line"]),
    ("R column_offsets[col_index + 1]", ["not (index == len(source))", "while True", "end_cell", "not (end_line)"]),
    ("R column_offsets[col_index]", ["not (index == len(source))", "while True", "end_cell", "end_line"]),
    ("R column_offsets[col_index]", ["not (index == len(source))", "while True", "end_cell", "not (end_line)"]),
    ("R source[index + 1]", ["not (index == len(source))", "while True", "end_cell", "index + 1 < len(source)"]),
    ("R source[index + 1]", ["not (index == len(source))", "while True", "not (c == separator_value)", "not (c == newline_value)", "c == escape_value", "not (not escaped)", "not (escaped_literal_candidate)", "index + 1 < len(source)"]),
    ("R source[index + 1]", ["not (index == len(source))", "while True", "not (c == separator_value)", "not (c == newline_value)", "c == escape_value", "not (not escaped)", "not (escaped_literal_candidate)", "not (index + 1 < len(source) and source[index + 1] == escape_value)", "index + 1 < len(source)"]),
    ("R source[index + 1]", ["not (index == len(source))", "while True", "not (c == separator_value)", "not (c == newline_value)", "c == escape_value", "not (not escaped)", "not (escaped_literal_candidate)", "not (index + 1 < len(source) and source[index + 1] == escape_value)", "index + 1 < len(source)", "not (source[index + 1] == separator_value)"]),
    ("R source[index]", ["index < len(source)"]),
    ("R source[index]", ["not (index == len(source))", "while True"]),
    ("W column_inds[col_index, row_index + 1]", ["not (index == len(source))", "while True", "end_cell", "row_index >= 0"]),
    ("W column_vals[col_offset + cur_cell_start + cur_cell_char_count]", ["not (index == len(source))", "while True", "write_char and row_index >= 0"])])
]

end Exetera.KernelPaths
