import Exetera.Lemmas.JoinBU
/-! The both-unique kernels: one iteration of the model code, and the whole `_partial` call. -/
namespace Exetera.Join
open Exetera Exetera.Spec

variable {emit : Bool} {L R : List Int} {cs : Nat} {inv : Int}

theorem partialBody_bu (emit : Bool) (p : P) (s : K) :
    partialBody (bvariant emit) p s = uniqueBody (bvariant emit) p s := by
  cases emit <;> rfl

/-- with untrimmed chunks (`len(left_) = i_max`) the two kernels have the same loop guard -/
theorem partialGuard_bu (emit : Bool) (d : D) (s : K)
    (hl : d.lch.data.length = d.lch.hi - d.lch.lo) (hr : d.rch.data.length = d.rch.hi - d.rch.lo) :
    partialGuard (bvariant emit) (mkP L R cs inv d) s =
      (decide (s.i < d.lch.hi - d.lch.lo) && decide (s.j < d.rch.hi - d.rch.lo) && decide (s.rb.length < cs)) := by
  cases emit <;> simp only [bvariant, partialGuard, mkP, D.iMax, D.jMax, K.r, hl, hr] <;> rfl

theorem bvariant_ltrim (emit : Bool) : (bvariant emit).ltrim = false := by cases emit <;> rfl
theorem bvariant_rtrim (emit : Bool) : (bvariant emit).rtrim = false := by cases emit <;> rfl
theorem bvariant_isLeft (emit : Bool) : (bvariant emit).isLeft = emit := by cases emit <;> rfl

/-- one iteration of a both-unique kernel preserves the global invariant and decreases both variants -/
theorem bu_step (hL : L.Pairwise (· < ·)) (hR : R.Pairwise (· < ·)) (d : D) (hinv : BInv emit L R cs inv d)
    (hg : partialGuard (bvariant emit) (mkP L R cs inv d) d.k = true) :
    ∃ s', uniqueBody (bvariant emit) (mkP L R cs inv d) d.k = .ok s' ∧ BInv emit L R cs inv { d with k := s' } ∧
      bkmu { d with k := s' } < bkmu d ∧ bgmu L R { d with k := s' } < bgmu L R d := by
  rw [partialGuard_bu emit d d.k hinv.llen hinv.rlen] at hg
  simp only [Bool.and_eq_true] at hg
  have hi := of_decide_eq_true hg.1.1
  have hj := of_decide_eq_true hg.1.2
  have hr := of_decide_eq_true hg.2
  obtain ⟨a, ha, hga⟩ := chunk_access hinv.lok hi "left[i]"
  obtain ⟨b, hb, hgb⟩ := chunk_access hinv.rok hj "right[j]"
  rcases Int.lt_trichotomy a b with hab | hab | hab
  · -- a < b
    cases emit with
    | true =>
      refine ⟨{ d.k with lb := d.k.lb ++ [↑(d.k.i + d.lch.lo)], rb := d.k.rb ++ [inv], i := d.k.i + 1 }, ?_, ?_⟩
      · simp [uniqueBody, bvariant, Variant.isLeft, mkP, hga, hgb, hab, push, hr, bind, Except.bind, pure, Except.pure]
      · exact bstep_lt (Strict.sorted hL) (Strict.sorted hR) hinv hi hr ha hb hab rfl rfl rfl rfl rfl rfl
          (by simp [D.I, Nat.add_comm]) (by simp)
    | false =>
      refine ⟨{ d.k with i := d.k.i + 1 }, ?_, ?_⟩
      · simp [uniqueBody, bvariant, Variant.isLeft, mkP, hga, hgb, hab, bind, Except.bind, pure, Except.pure]
      · exact bstep_lt (Strict.sorted hL) (Strict.sorted hR) hinv hi hr ha hb hab rfl rfl rfl rfl rfl rfl
          (by simp) (by simp)
  · -- a = b
    subst hab
    refine ⟨{ d.k with lb := d.k.lb ++ [↑(d.k.i + d.lch.lo)], rb := d.k.rb ++ [↑(d.k.j + d.rch.lo)],
                       i := d.k.i + 1, j := d.k.j + 1 }, ?_, ?_⟩
    · cases emit <;>
        simp [uniqueBody, bvariant, mkP, hga, hgb, push, hr, bind, Except.bind, pure, Except.pure]
    · exact bstep_eq hL hR hinv hi hj hr ha hb rfl rfl rfl rfl rfl rfl
        (by simp [D.I, Nat.add_comm]) (by simp [D.J, Nat.add_comm])
  · -- a > b
    refine ⟨{ d.k with j := d.k.j + 1 }, ?_, ?_⟩
    · have h1 : ¬ a < b := by omega
      simp [uniqueBody, mkP, hga, hgb, h1, hab, bind, Except.bind, pure, Except.pure]
    · exact bstep_gt hinv hj ha hb hab rfl rfl rfl rfl rfl rfl rfl rfl

theorem bkmu_le_fuel (d : D) : bkmu d ≤ partialFuel (mkP L R cs inv d) := by
  simp only [bkmu, partialFuel, mkP, D.iMax, D.jMax]
  omega

/-- a whole `_partial` call: returns normally (no out-of-bounds access, within its fuel), keeps the global invariant,
    leaves its loop guard false, never increases the global variant and decreases it if it ran at all -/
theorem bu_partial (hL : L.Pairwise (· < ·)) (hR : R.Pairwise (· < ·)) (d : D) (hinv : BInv emit L R cs inv d) :
    ∃ k', runPartial (bvariant emit) (mkP L R cs inv d) d.k = .ok k' ∧ BInv emit L R cs inv { d with k := k' } ∧
      partialGuard (bvariant emit) (mkP L R cs inv d) k' = false ∧
      bgmu L R { d with k := k' } ≤ bgmu L R d ∧
      (partialGuard (bvariant emit) (mkP L R cs inv d) d.k = true → bgmu L R { d with k := k' } < bgmu L R d) := by
  have hmk : ∀ s : K, mkP L R cs inv { d with k := s } = mkP L R cs inv d := fun s => rfl
  have key := whileE_rule (partialGuard (bvariant emit) (mkP L R cs inv d)) (partialBody (bvariant emit) (mkP L R cs inv d))
    (fun s => BInv emit L R cs inv { d with k := s } ∧ bgmu L R { d with k := s } ≤ bgmu L R d ∧
      (s ≠ d.k → bgmu L R { d with k := s } < bgmu L R d))
    (fun s => bkmu { d with k := s })
    (by
      intro s ⟨hI, hle, hne⟩ hg
      have := bu_step hL hR { d with k := s } hI (by rw [hmk]; exact hg)
      obtain ⟨s', h1, h2, h3, h4⟩ := this
      rw [hmk] at h1
      refine ⟨s', by rw [partialBody_bu]; exact h1, ⟨h2, ?_, ?_⟩, h3⟩
      · exact Nat.le_of_lt (Nat.lt_of_lt_of_le h4 hle)
      · intro _; exact Nat.lt_of_lt_of_le h4 hle)
    (partialFuel (mkP L R cs inv d)) d.k ⟨hinv, Nat.le_refl _, fun h => absurd rfl h⟩ (bkmu_le_fuel d)
  obtain ⟨k', h1, ⟨h2, h3, h4⟩, h5⟩ := key
  refine ⟨k', h1, h2, h5, h3, ?_⟩
  intro hg
  apply h4
  intro heq
  rw [heq] at h5
  rw [h5] at hg
  cases hg

end Exetera.Join
