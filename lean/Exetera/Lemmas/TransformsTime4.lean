import Exetera.Lemmas.TransformsTime3
/-! C06: `parse_timestamp_bytes` on the seven accepted layouts. -/
namespace Exetera.Transforms
open Exetera Exetera.Spec.Transforms

variable (Y M D h mi s : Nat)

/-- `YYYY-MM-DD HH:MM:SS` (19 bytes) -/
theorem parse_plain (hb : FieldBounds Y M D h mi s) :
    parseTimestamp (L19 Y M D h mi s) = mkTimestamp Y M D h mi s 0 0 := by
  have := stampWith_L19 Y M D h mi s hb [] 0 0 0 0 0 (.ok 0) rfl rfl
  simp only [List.append_nil, Int.mul_zero] at this
  rw [← this]; rfl

/-- `YYYY-MM-DD HH:MM:SS UTC` (23 bytes) -/
theorem parse_utc (hb : FieldBounds Y M D h mi s) :
    parseTimestamp (L19 Y M D h mi s ++ utcSuffix) = mkTimestamp Y M D h mi s 0 0 := by
  have := stampWith_L19 Y M D h mi s hb utcSuffix 0 0 0 0 0 (.ok 0) rfl rfl
  simp only [Int.mul_zero] at this
  rw [← this]; rfl

/-- `YYYY-MM-DD HH:MM:SS.f UTC` (25 bytes) -/
theorem parse_utc1 (hb : FieldBounds Y M D h mi s) (f : Nat) (hf : f < 10) :
    parseTimestamp (L19 Y M D h mi s ++ (46 :: d1 f ++ utcSuffix)) = mkTimestamp Y M D h mi s ((f : Int) * 100000) 0 := by
  have hfr : (if (20 : Nat) == 22 then Except.ok 0 else intAt (L19 Y M D h mi s ++ (46 :: d1 f ++ utcSuffix)) 20 22) = .ok (f : Int) := by
    have hs : slice (L19 Y M D h mi s ++ (46 :: d1 f ++ utcSuffix)) 20 22 = d1' f ++ [32] := rfl
    simp only [intAt, hs, parseIntPy_digit_blank f hf]; rfl
  have := stampWith_L19 Y M D h mi s hb (46 :: d1 f ++ utcSuffix) 20 22 100000 f 0 (.ok 0) hfr rfl
  rw [← this]; rfl

/-- `YYYY-MM-DD HH:MM:SS.ff UTC` (26 bytes) -/
theorem parse_utc2 (hb : FieldBounds Y M D h mi s) (f : Nat) (hf : f < 100) :
    parseTimestamp (L19 Y M D h mi s ++ (46 :: d2 f ++ utcSuffix)) = mkTimestamp Y M D h mi s ((f : Int) * 10000) 0 := by
  have hfr : (if (20 : Nat) == 22 then Except.ok 0 else intAt (L19 Y M D h mi s ++ (46 :: d2 f ++ utcSuffix)) 20 22) = .ok (f : Int) := by
    have := intAt_digits (L19 Y M D h mi s ++ (46 :: d2 f ++ utcSuffix)) 20 22 (d2 f) rfl (d2_ok f hf).1 (by simp [d2])
    rw [(d2_ok f hf).2] at this
    simpa using this
  have := stampWith_L19 Y M D h mi s hb (46 :: d2 f ++ utcSuffix) 20 22 10000 f 0 (.ok 0) hfr rfl
  rw [← this]; rfl

/-- `YYYY-MM-DD HH:MM:SS.fff UTC` (27 bytes) -/
theorem parse_utc3 (hb : FieldBounds Y M D h mi s) (f : Nat) (hf : f < 1000) :
    parseTimestamp (L19 Y M D h mi s ++ (46 :: d3 f ++ utcSuffix)) = mkTimestamp Y M D h mi s ((f : Int) * 1000) 0 := by
  have hfr : (if (20 : Nat) == 23 then Except.ok 0 else intAt (L19 Y M D h mi s ++ (46 :: d3 f ++ utcSuffix)) 20 23) = .ok (f : Int) := by
    have := intAt_digits (L19 Y M D h mi s ++ (46 :: d3 f ++ utcSuffix)) 20 23 (d3 f) rfl (d3_ok f hf).1 (by simp [d3])
    rw [(d3_ok f hf).2] at this
    simpa using this
  have := stampWith_L19 Y M D h mi s hb (46 :: d3 f ++ utcSuffix) 20 23 1000 f 0 (.ok 0) hfr rfl
  rw [← this]; rfl

/-- `YYYY-MM-DD HH:MM:SS±HH:MM` (25 bytes): the written offset is honoured (D29) -/
theorem parse_offset (hb : FieldBounds Y M D h mi s) (neg : Bool) (oh om : Nat) (hoh : oh < 100) (hom : om < 100)
    (hlt : oh * 60 + om < 1440) :
    parseTimestamp (L19 Y M D h mi s ++ offText neg oh om) = mkTimestamp Y M D h mi s 0 (offMinutes neg oh om) := by
  have ho := utcOffsetMin_spec (L19 Y M D h mi s) neg oh om hoh hom hlt
  have := stampWith_L19 Y M D h mi s hb (offText neg oh om) 0 0 0 0 (offMinutes neg oh om) _ rfl ho
  simp only [Int.mul_zero] at this
  rw [← this]
  cases neg <;> rfl

/-- `YYYY-MM-DD HH:MM:SS.ffffff±HH:MM` (32 bytes): microseconds and the written offset -/
theorem parse_frac_offset (hb : FieldBounds Y M D h mi s) (f : Nat) (hf : f < 1000000) (neg : Bool) (oh om : Nat)
    (hoh : oh < 100) (hom : om < 100) (hlt : oh * 60 + om < 1440) :
    parseTimestamp (L19 Y M D h mi s ++ (46 :: d6 f ++ offText neg oh om))
      = mkTimestamp Y M D h mi s (f : Int) (offMinutes neg oh om) := by
  have hfr : (if (20 : Nat) == 26 then Except.ok 0 else intAt (L19 Y M D h mi s ++ (46 :: d6 f ++ offText neg oh om)) 20 26) = .ok (f : Int) := by
    have := intAt_digits (L19 Y M D h mi s ++ (46 :: d6 f ++ offText neg oh om)) 20 26 (d6 f) rfl (d6_ok f hf).1 (by simp [d6])
    rw [(d6_ok f hf).2] at this
    simpa using this
  have e : L19 Y M D h mi s ++ (46 :: d6 f ++ offText neg oh om) = (L19 Y M D h mi s ++ 46 :: d6 f) ++ offText neg oh om := by
    simp only [List.append_assoc, List.cons_append]
  have ho := utcOffsetMin_spec (L19 Y M D h mi s ++ 46 :: d6 f) neg oh om hoh hom hlt
  rw [← e] at ho
  have := stampWith_L19 Y M D h mi s hb (46 :: d6 f ++ offText neg oh om) 20 26 1 f (offMinutes neg oh om) _ hfr ho
  simp only [Int.mul_one] at this
  rw [← this]
  cases neg <;> rfl

end Exetera.Transforms

namespace Exetera.Transforms
open Exetera Exetera.Spec.Transforms

/-- `YYYY-MM-DD` -/
def L10 (Y M D : Nat) : Bytes := d4 Y ++ 45 :: d2 M ++ 45 :: d2 D

theorem strptimeMonth_d2 (M : Nat) (h1 : 1 ≤ M) (h12 : M ≤ 12) (r : Bytes) :
    strptimeMonth (d2 M ++ 45 :: r) = some ((M : Int), r) := by
  have : M = 1 ∨ M = 2 ∨ M = 3 ∨ M = 4 ∨ M = 5 ∨ M = 6 ∨ M = 7 ∨ M = 8 ∨ M = 9 ∨ M = 10 ∨ M = 11 ∨ M = 12 := by omega
  rcases this with rfl | rfl | rfl | rfl | rfl | rfl | rfl | rfl | rfl | rfl | rfl | rfl <;> rfl

theorem strptimeDay_d2 (D : Nat) (h1 : 1 ≤ D) (h31 : D ≤ 31) : strptimeDay (d2 D) = some (D : Int) := by
  have : D = 1 ∨ D = 2 ∨ D = 3 ∨ D = 4 ∨ D = 5 ∨ D = 6 ∨ D = 7 ∨ D = 8 ∨ D = 9 ∨ D = 10 ∨ D = 11 ∨ D = 12 ∨ D = 13 ∨
      D = 14 ∨ D = 15 ∨ D = 16 ∨ D = 17 ∨ D = 18 ∨ D = 19 ∨ D = 20 ∨ D = 21 ∨ D = 22 ∨ D = 23 ∨ D = 24 ∨ D = 25 ∨
      D = 26 ∨ D = 27 ∨ D = 28 ∨ D = 29 ∨ D = 30 ∨ D = 31 := by omega
  rcases this with rfl | rfl | rfl | rfl | rfl | rfl | rfl | rfl | rfl | rfl | rfl | rfl | rfl | rfl | rfl | rfl | rfl |
    rfl | rfl | rfl | rfl | rfl | rfl | rfl | rfl | rfl | rfl | rfl | rfl | rfl | rfl <;> rfl

theorem strptimeYmd_L10 (Y M D : Nat) (hY : Y < 10000) (hM : 1 ≤ M ∧ M ≤ 12) (hD : 1 ≤ D ∧ D ≤ 31) :
    strptimeYmd (L10 Y M D) = some ((Y : Int), (M : Int), (D : Int)) := by
  have e : L10 Y M D = (48 + Y / 1000 % 10) :: (48 + Y / 100 % 10) :: (48 + Y / 10 % 10) :: (48 + Y % 10) :: 45 ::
      (d2 M ++ 45 :: d2 D) := rfl
  rw [e]
  simp only [strptimeYmd, isDigit_mod, Bool.and_self, if_true, strptimeMonth_d2 M hM.1 hM.2, strptimeDay_d2 D hD.1 hD.2]
  congr 2
  omega

theorem stripSpace_L10 (Y M D : Nat) : stripSpace (L10 Y M D) = L10 Y M D := by
  apply stripSpace_id
  intro d hd
  apply isSpace_of_isDigit_or_dash
  simp only [L10, d4, d2, List.cons_append, List.nil_append, List.mem_cons, List.not_mem_nil, or_false] at hd
  rcases hd with rfl | rfl | rfl | rfl | rfl | rfl | rfl | rfl | rfl | rfl <;>
    first | exact Or.inr rfl | exact Or.inl (isDigit_mod _)

end Exetera.Transforms
