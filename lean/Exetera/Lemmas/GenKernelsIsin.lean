import Exetera.Gen.Kernels
import Exetera.Model.Unique
import Exetera.Lemmas.While
import Exetera.Lemmas.GenKernels
import Exetera.Lemmas.GenKernelsJoin
import Exetera.Lemmas.GenKernelsCompareArrays
import Exetera.Lemmas.GenKernelsUnique
/-!
  The TRANSLATED `isin_indexed_string_speedup` (row loop around a binary search `while start <= end` with `break`, the tuple
  assignment `start, end = 0, len_test_eles - 1`, a call of the translated `compare_arrays`, `np.asarray([False] * n)`) against
  `Unique.isinSpeedup` — transfer: every `.ok` run of the model is a run of the translated kernel with the same flags, for any
  fuel ≥ len(test_elements).
-/
namespace Exetera.GenK

open Exetera Exetera.PyRt Exetera.Unique Exetera.Gen.Kernels

namespace ISN

open isin_indexed_string_speedup GU

abbrev St := isin_indexed_string_speedup.St

/-- the binary search: loop variables equal, `break` raised exactly when `is_equal` was set -/
def RB (tests : List Bytes) (v : Bytes) (F : St) (s : St) (t : BS) : Prop :=
  s.p0 = tests.map ints8 ∧ s.v3 = ints8 v ∧ s.v5 = t.start ∧ s.v6 = t.stop ∧ s.v4 = t.found ∧ s.brk2 = t.found ∧
  s.p1 = F.p1 ∧ s.p2 = F.p2 ∧ s.v0 = F.v0 ∧ s.v1 = F.v1 ∧ s.v2 = F.v2

theorem bs_guard (tests : List Bytes) (v : Bytes) (F : St) (s : St) (t : BS) (h : RB tests v F s t) :
    guard_L2 s = bsGuard t := by
  obtain ⟨_, _, h5, h6, _, hb, _⟩ := h
  simp only [guard_L2, bsGuard, h5, h6, hb, Bool.and_comm]

theorem bs_step (tests : List Bytes) (v : Bytes) (F : St) (s : St) (t t' : BS) (hR : RB tests v F s t)
    (hg : bsGuard t = true) (hb : bsBody tests v t = .ok t') : ∃ s', body_L2 s = .ok s' ∧ RB tests v F s' t' := by
  obtain ⟨q0, q1, q2, w0, w1, w2, w3, w4, w5, w6, w7, w8, bk⟩ := s
  obtain ⟨st, sp, fd⟩ := t
  obtain ⟨h0, h3, h5, h6, h4, hbk, f1, f2, f3, f4, f5⟩ := hR
  simp only at h0 h3 h5 h6 h4 hbk f1 f2 f3 f4 f5
  subst h0 h3 h5 h6 h4 hbk
  simp only [bsGuard, Bool.and_eq_true, Bool.not_eq_true', decide_eq_true_eq] at hg
  obtain ⟨_, hfd⟩ := hg
  subst hfd
  simp only [bsBody] at hb
  have h2 : (2 : Int) ≠ 0 := by omega
  have hdiv : Int.fdiv (w5 + w6) 2 = (w5 + w6) / 2 := Int.fdiv_eq_ediv_of_nonneg _ (by omega)
  simp only [body_L2, floorDivE, h2, if_false, bindE_ok, hdiv]
  by_cases hneg : (w5 + w6) / 2 < 0
  · simp [hneg] at hb
  · simp only [hneg, if_false] at hb
    have hnn : 0 ≤ (w5 + w6) / 2 := by omega
    cases hgt : getE tests ((w5 + w6) / 2).toNat "isin:test_elements[mid]" with
    | error e => simp [hgt] at hb
    | ok u =>
      simp only [hgt] at hb
      cases hcmp : compareArrays v u with
      | error e => simp [hcmp] at hb
      | ok c =>
        simp only [hcmp] at hb
        have gidx : idxE (tests.map ints8) ((w5 + w6) / 2) "p0[v7]" = .ok (ints8 u) := by
          simp only [idxE, hnn, if_true]
          have := getE_eq_ok.mp hgt
          simp [getE, List.getElem?_map, this]
        simp only [gidx, bindE_ok, compare_arrays_ok v u c hcmp]
        by_cases hc0 : c = 0
        · subst hc0
          simp only [beq_self_eq_true, if_true, Except.ok.injEq] at hb ⊢
          subst hb
          exact ⟨_, rfl, rfl, rfl, rfl, rfl, rfl, rfl, f1, f2, f3, f4, f5⟩
        · have hc0' : (c == 0) = false := by simp [hc0]
          simp only [hc0', Bool.false_eq_true, if_false, bindE_ok] at hb ⊢
          by_cases hc1 : c = 1
          · subst hc1
            simp only [beq_self_eq_true, if_true, Except.ok.injEq] at hb ⊢
            subst hb
            exact ⟨_, rfl, rfl, rfl, rfl, rfl, rfl, rfl, f1, f2, f3, f4, f5⟩
          · have hc1' : (c == 1) = false := by simp [hc1]
            simp only [hc1', Bool.false_eq_true, if_false, Except.ok.injEq] at hb ⊢
            subst hb
            exact ⟨_, rfl, rfl, rfl, rfl, rfl, rfl, rfl, f1, f2, f3, f4, f5⟩

/-- writing position `i` of the preallocated flags that are "flags so far ++ untouched False" -/
theorem write_flag (acc : List Bool) (cap i : Nat) (b : Bool) (hi : acc.length = i) (h : i < cap) (site : String) :
    setIdxE (acc ++ List.replicate (cap - i) false) (i : Int) b site
      = .ok ((acc ++ [b]) ++ List.replicate (cap - (i + 1)) false) := by
  subst hi
  have e : cap - acc.length = (cap - (acc.length + 1)) + 1 := by omega
  rw [setIdxE_nat, setE, if_pos (by simp; omega)]
  rw [e, List.replicate_succ]
  simp

/-- the row loop -/
def RL (tests : List Bytes) (indices : List Nat) (values : Bytes) (cap i : Nat) (acc : List Bool) (s : St) : Prop :=
  s.p0 = tests.map ints8 ∧ s.p1 = natsI indices ∧ s.p2 = ints8 values ∧ s.v1 = (tests.length : Int) ∧ s.brk2 = false ∧
  acc.length = i ∧ s.v0 = acc ++ List.replicate (cap - i) false

theorem row (tests : List Bytes) (indices : List Nat) (values : Bytes) (cap fuel : Nat) (hfuel : tests.length ≤ fuel)
    (i lo hi : Nat) (acc : List Bool) (b : Bool) (s : St) (hR : RL tests indices values cap i acc s)
    (hlo : getE indices i "isin:indices[i]" = .ok lo) (hhi : getE indices (i + 1) "isin:indices[i+1]" = .ok hi)
    (hrow : isinRow tests (slice values lo hi) = .ok b) (hcap : i < cap) :
    ∃ s', body_L1 fuel { s with v2 := (i : Int) } = .ok s' ∧ RL tests indices values cap (i + 1) (acc ++ [b]) s' := by
  obtain ⟨q0, q1, q2, w0, w1, w2, w3, w4, w5, w6, w7, w8, bk⟩ := s
  obtain ⟨h0, h1, h2, hv1, hbk, hlen, hv0⟩ := hR
  simp only at h0 h1 h2 hv1 hbk hlen hv0
  subst h0 h1 h2 hv1 hbk hv0
  have e1 : (i : Int) + 1 = ((i + 1 : Nat) : Int) := by omega
  have r1 : ∀ site, idxE (natsI indices) (i : Int) site = .ok (lo : Int) := fun site => by
    rw [idxE_nat]; exact getE_natsI _ _ _ (getE_eq_ok.mp hlo)
  have r2 : ∀ site, idxE (natsI indices) ((i : Int) + 1) site = .ok (hi : Int) := fun site => by
    rw [e1, idxE_nat]; exact getE_natsI _ _ _ (getE_eq_ok.mp hhi)
  unfold isinRow at hrow
  cases hw : whileE bsGuard (bsBody tests (slice values lo hi)) tests.length ⟨0, (tests.length : Int) - 1, false⟩ with
  | error e => simp [hw] at hrow
  | ok tb =>
    simp only [hw, Except.ok.injEq] at hrow
    obtain ⟨sb, hsb, hRB⟩ := whileE_sim
      (RB tests (slice values lo hi) ⟨tests.map ints8, natsI indices, ints8 values, acc ++ List.replicate (cap - i) false,
        (tests.length : Int), (i : Int), ints8 (slice values lo hi), false, 0, (tests.length : Int) - 1, w7, w8, false⟩)
      guard_L2 body_L2 bsGuard
      (bsBody tests (slice values lo hi)) (bs_guard tests _ _) (bs_step tests _ _) tests.length
      ⟨tests.map ints8, natsI indices, ints8 values, acc ++ List.replicate (cap - i) false, (tests.length : Int), (i : Int),
        ints8 (slice values lo hi), false, 0, (tests.length : Int) - 1, w7, w8, false⟩ _ tb
      ⟨rfl, rfl, rfl, rfl, rfl, rfl, rfl, rfl, rfl, rfl, rfl⟩ hw
    have hsb' := whileE_mono _ _ _ _ _ hsb fuel hfuel
    obtain ⟨q0', q1', q2', w0', w1', w2', w3', w4', w5', w6', w7', w8', bk'⟩ := sb
    obtain ⟨g0, g3, g5, g6, g4, gb, k1, k2, k3, k4, k5⟩ := hRB
    simp only at g0 g3 g5 g6 g4 gb k1 k2 k3 k4 k5
    subst g0 g3 g5 g6 g4 gb k1 k2 k3 k4 k5 hrow
    simp only [body_L1, r1, r2, bindE_ok, pySlice_nat, ints8_slice, hsb', write_flag acc cap i _ hlen hcap]
    exact ⟨_, rfl, rfl, rfl, rfl, rfl, rfl, by simp [hlen], rfl⟩

theorem rows (tests : List Bytes) (indices : List Nat) (values : Bytes) (cap fuel : Nat) (hfuel : tests.length ≤ fuel) :
    ∀ (n i : Nat) (acc r : List Bool) (s : St), RL tests indices values cap i acc s →
      isinLoop tests indices values cap n i acc = .ok r →
      ∃ s', forRangeAux (fun _ => false) (fun k s => body_L1 fuel { s with v2 := k }) n (i : Int) s = .ok s' ∧
        RL tests indices values cap (i + n) r s' := by
  intro n
  induction n with
  | zero =>
    intro i acc r s hR h
    simp only [isinLoop, Except.ok.injEq] at h
    subst h
    exact ⟨s, rfl, hR⟩
  | succ n ih =>
    intro i acc r s hR h
    simp only [isinLoop] at h
    cases hlo : getE indices i "isin:indices[i]" with
    | error e => simp [hlo] at h
    | ok lo =>
      cases hhi : getE indices (i + 1) "isin:indices[i+1]" with
      | error e => simp [hlo, hhi] at h
      | ok hi =>
        simp only [hlo, hhi] at h
        cases hrow : isinRow tests (slice values lo hi) with
        | error e => simp [hrow] at h
        | ok b =>
          simp only [hrow] at h
          by_cases hcap : i < cap
          · simp only [hcap, if_true] at h
            obtain ⟨s1, hb1, hR1⟩ := row tests indices values cap fuel hfuel i lo hi acc b s hR hlo hhi hrow hcap
            obtain ⟨s', hl, hR'⟩ := ih (i + 1) (acc ++ [b]) r s1 hR1 h
            have e1 : (i : Int) + 1 = ((i + 1 : Nat) : Int) := by omega
            refine ⟨s', ?_, by rw [show i + (n + 1) = i + 1 + n by omega]; exact hR'⟩
            simp only [forRangeAux, hb1, Bool.false_eq_true, if_false, e1]
            exact hl
          · simp [hcap] at h

end ISN

open ISN GU in
/-- every `.ok` run of the model is a run of the translated kernel with the same flags; any fuel ≥ len(test_elements) -/
theorem isin_indexed_string_speedup_ok (tests : List Bytes) (indices : List Nat) (values : Bytes) (r : List Bool) (fuel : Nat)
    (hfuel : tests.length ≤ fuel) (h : isinSpeedup tests indices values = .ok r) :
    isin_indexed_string_speedup.run (tests.map ints8) (natsI indices) (ints8 values) fuel = .ok r := by
  unfold isinSpeedup at h
  have hn : ((pyLen (natsI indices)) - 1).toNat = indices.length - 1 := by
    simp only [pyLen, natsI, List.length_map]; omega
  have hn' : ((pyLen (natsI indices)) - 1 - 0).toNat = indices.length - 1 := by
    simp only [pyLen, natsI, List.length_map]; omega
  obtain ⟨s', hrun, hR⟩ := rows tests indices values (indices.length - 1) fuel hfuel (indices.length - 1) 0 [] r
    ⟨tests.map ints8, natsI indices, ints8 values, List.replicate (indices.length - 1) false, (tests.length : Int), 0, [], false, 0, 0,
      0, 0, false⟩ ⟨rfl, rfl, rfl, rfl, rfl, rfl, by simp⟩ h
  rw [show ((0 : Nat) : Int) = 0 from rfl] at hrun
  have hv0 := hR.2.2.2.2.2.2
  unfold isin_indexed_string_speedup.run
  simp only [forRangeE, hn, hn']
  have hl : pyLen (tests.map ints8) = (tests.length : Int) := by simp [pyLen]
  simp only [hl]
  rw [hrun]
  simp only [bindE_ok, hv0]
  simp

end Exetera.GenK
