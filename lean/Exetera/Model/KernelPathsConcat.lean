/-!
  C10 — path conditions of the array subscripts of the span-concatenation kernel `_apply_spans_concat_2` that `Model/Concat.lean` models (owning property C16), frozen from the source the model
  was written against. `Props/C10/Concat.lean` (`access_paths_covered_concat`) proves that the table regenerated from the CURRENT
  source (`Gen/KernelPaths.lean`) is this one: a test that dominates a subscript cannot be dropped, weakened or moved in the
  source without breaking the build.

  Each entry is (site, path condition): the tests passed on the way to that occurrence of the subscript, outermost first —
  `for …` / `while …` = an enclosing loop guard (the same strings as in `KernelSitesConcat`), a bare test = the `if` / `elif`
  branch taken or an `and` operand to the left of the subscript, `not (…)` = an `else` branch, the code after an early exit
  `if …: break | continue | return | raise`, or an `or` operand to the left. A condition is the text of a test that held
  when it was passed (a syntactic path, not an invariant). A site reached on several paths has one entry per path.
  Regenerate with `python3 tools/translate_kernels.py --paths /repo <kernel> …`.

  Which conjunct of the path condition the model's checked accessor relies on (accessor names as in `KernelSitesConcat`):
  * `dest_values[d_index_v + delta]` (eight occurrences, seven distinct paths) = `pushV`, capacity check `length < capV`, and
    `dest_index[d_index_i]` = the capacity check `st.ib.length < P.capI` of `oneSpan`: NO test of the kernel bounds either
    write position — every path consists of loop guards over the SOURCE (`for s`, `for e`, `for i_c`) and of content tests
    (`non_empties == 1`, `comma or quotes`, `src_values[i_c] == delimiter`, …). They are in range because the batch driver
    sizes the buffers from the span bound (`spanBound`, fix NC16a/b) and stops the batch early: `no_oob_concat_batches`.
    The table pins that absence: a test added in front of a write changes the path and is looked at.
  * `spans[s]`, `spans[s + 1]` rely on `for s in range(sp_start, sp_end)`; `src_index[e]`, `src_index[e + 1]` on
    `for e in range(sp_cur, sp_next)` (reached on `non_empties > 1` / `sp_next - sp_cur > 1`: `countNonEmpty`, `multiLoop`);
    `src_values[i_c]` on `for i_c in range(…)` (`scanFlags`, `copyEsc`).
-/
namespace Exetera.KernelPaths

/-- the span-concatenation kernel (C16): path condition of every subscript occurrence -/
def concatPaths : List (String × List (String × List String)) := [
  ("_apply_spans_concat_2", [
    ("R spans[s + 1]", ["for s in range(sp_start, sp_end)"]),
    ("R spans[s]", ["for s in range(sp_start, sp_end)"]),
    ("R src_index[e + 1]", ["for s in range(sp_start, sp_end)", "not (non_empties == 1)", "non_empties > 1", "for e in range(sp_cur, sp_next)"]),
    ("R src_index[e + 1]", ["for s in range(sp_start, sp_end)", "not (sp_next - sp_cur == 1)", "sp_next - sp_cur > 1", "for e in range(sp_cur, sp_next)"]),
    ("R src_index[e]", ["for s in range(sp_start, sp_end)", "not (non_empties == 1)", "non_empties > 1", "for e in range(sp_cur, sp_next)"]),
    ("R src_index[e]", ["for s in range(sp_start, sp_end)", "not (sp_next - sp_cur == 1)", "sp_next - sp_cur > 1", "for e in range(sp_cur, sp_next)"]),
    ("R src_index[sp_cur]", ["for s in range(sp_start, sp_end)"]),
    ("R src_index[sp_next]", ["for s in range(sp_start, sp_end)"]),
    ("R src_values[i_c]", ["for s in range(sp_start, sp_end)", "non_empties == 1", "for i_c in range(cur_src_i, next_src_i)"]),
    ("R src_values[i_c]", ["for s in range(sp_start, sp_end)", "non_empties == 1", "for i_c in range(cur_src_i, next_src_i)", "not (src_values[i_c] == separator)"]),
    ("R src_values[i_c]", ["for s in range(sp_start, sp_end)", "not (non_empties == 1)", "non_empties > 1", "for e in range(sp_cur, sp_next)", "for i_c in range(src_start, src_end)"]),
    ("R src_values[i_c]", ["for s in range(sp_start, sp_end)", "not (non_empties == 1)", "non_empties > 1", "for e in range(sp_cur, sp_next)", "for i_c in range(src_start, src_end)", "not (src_values[i_c] == separator)"]),
    ("W dest_index[d_index_i]", ["for s in range(sp_start, sp_end)"]),
    ("W dest_values[d_index_v + delta]", ["for s in range(sp_start, sp_end)", "non_empties == 1", "comma or quotes"]),
    ("W dest_values[d_index_v + delta]", ["for s in range(sp_start, sp_end)", "non_empties == 1", "for i_c in range(cur_src_i, next_src_i)"]),
    ("W dest_values[d_index_v + delta]", ["for s in range(sp_start, sp_end)", "non_empties == 1", "for i_c in range(cur_src_i, next_src_i)", "src_values[i_c] == delimiter"]),
    ("W dest_values[d_index_v + delta]", ["for s in range(sp_start, sp_end)", "not (non_empties == 1)", "non_empties > 1", "for e in range(sp_cur, sp_next)", "comma or quotes"]),
    ("W dest_values[d_index_v + delta]", ["for s in range(sp_start, sp_end)", "not (non_empties == 1)", "non_empties > 1", "for e in range(sp_cur, sp_next)", "for i_c in range(src_start, src_end)"]),
    ("W dest_values[d_index_v + delta]", ["for s in range(sp_start, sp_end)", "not (non_empties == 1)", "non_empties > 1", "for e in range(sp_cur, sp_next)", "for i_c in range(src_start, src_end)", "src_values[i_c] == delimiter"]),
    ("W dest_values[d_index_v + delta]", ["for s in range(sp_start, sp_end)", "not (non_empties == 1)", "non_empties > 1", "for e in range(sp_cur, sp_next)", "prev_empty == False and cur_empty == False", "e > sp_cur"])])
]

end Exetera.KernelPaths
