import Driver.Util
import Exetera.Model.Catalogue
open Lean Exetera Exetera.Catalogue
namespace Driver.C15

def kindOf : String → Except String Kind
  | "numeric" => pure .numeric | "indexed" => pure .indexed | "fixed" => pure .fixed
  | "categorical" => pure .categorical | "timestamp" => pure .timestamp
  | k => throw s!"bad kind {k}"

def kindStr : Kind → String
  | .numeric => "numeric" | .indexed => "indexed" | .fixed => "fixed" | .categorical => "categorical"
  | .timestamp => "timestamp"

def fref (j : Json) : Except String FRef :=
  match j.getObjValAs? Nat "h" with
  | .ok h => pure (.byHandle h)
  | .error _ => do
    let d ← get? Nat j "d"; let f ← get? String j "f"; let c ← get? String j "c"
    pure (.byName d f c)

def pairs (j : Json) : Except String (List (String × String)) := do
  let arr ← j.getArr?
  arr.toList.mapM fun p => do
    let a ← p.getArrVal? 0; let b ← p.getArrVal? 1
    pure (← a.getStr?, ← b.getStr?)

/-- One client call of the harness. `"w": true` on a call that takes a held field object `{"h": i}` means the client hands in a
    fresh writeable view of it: `w = handles[i].writeable(); call(w, …)` — two model operations, `Op.view (.byHandle i)` and
    then the call on the new field object (whose id is the number of field objects so far); see `runObs`. -/
structure Call where
  view : Option Nat        -- take a writeable view of this held object first …
  op : FRef → Op           -- … and hand it to the call (the argument is ignored by calls decoded without `"w"`)

def viewFlag (j : Json) : Option Nat :=
  match j.getObjValAs? Bool "w" with
  | .ok true =>
    match j.getObjVal? "r" with
    | .ok rj => (rj.getObjValAs? Nat "h").toOption
    | .error _ => none
  | _ => none

def opOf (j : Json) (viaView : Option FRef := none) : Except String Op := do
  let o ← get? String j "o"
  let d := (j.getObjValAs? Nat "d").toOption.getD 0
  let f := (j.getObjValAs? String "f").toOption.getD ""
  let n := (j.getObjValAs? String "n").toOption.getD ""
  let r := fun (_ : Unit) => match viaView with
    | some w => pure w
    | none => do fref (← j.getObjVal? "r")
  let sd := (j.getObjValAs? Nat "sd").toOption.getD 0
  let sf := (j.getObjValAs? String "sf").toOption.getD ""
  match o with
  | "create" => do
    let k ← kindOf (← get? String j "k"); let v ← get? Nat j "v"
    pure (.create d f n ⟨k, v⟩)
  | "setItem" => do pure (.setItem d f n (← r ()))
  | "add" => do pure (.add d f (← r ()))
  | "delItem" => pure (.delItem d f n)
  | "drop" => pure (.drop d f n)
  | "deleteField" => do pure (.deleteField d f (← r ()))
  | "rename" => do pure (.rename d f (← pairs (← j.getObjVal? "m")))
  | "copyField" => do pure (.copyField (← r ()) d f n)
  | "moveField" => do pure (.moveField (← r ()) d f n)
  | "createFrame" =>
    match j.getObjValAs? String "sf" with
    | .ok sf' => pure (.createFrame d f (some (sd, sf')))
    | .error _ => pure (.createFrame d f none)
  | "requireFrame" => pure (.requireFrame d f)
  | "copyFrame" => pure (.copyFrame sd sf d f)
  | "setFrame" => pure (.setFrame d f sd sf)
  | "delFrame" => pure (.delFrame d f)
  | "dropFrame" => pure (.dropFrame d f)
  | "deleteFrame" => pure (.deleteFrame d sd sf)
  | "moveFrame" => pure (.moveFrame sd sf d f)
  | "reopen" => pure (.reopen d)
  | "view" => do pure (.view (← r ()))
  | _ => throw s!"bad op {o}"

def callOf (j : Json) : Except String Call := do
  match viewFlag j with
  | some h =>
    let _ ← opOf j (some (.byHandle 0))      -- decode errors surface here
    pure ⟨some h, fun w => match opOf j (some w) with | .ok op => op | .error _ => .reopen 0⟩
  | none =>
    let op ← opOf j
    pure ⟨none, fun _ => op⟩

def errTag : Err → String
  | .other m => m
  | e => e.tag

def contentJson (s : State) (oid : Nat) : Json :=
  match s.objs[oid]? with
  | some c => Json.arr #[Json.str (kindStr c.kind), toJson c.data]
  | none => Json.null

def handleObs (s : State) (h : Nat) : Json :=
  match s.handles[h]? with
  | none => Json.str "?"
  | some hd =>
    if hd.closed then Json.str "closed"
    else if !hd.valid then Json.str "invalid"
    else match nameOfVal s.links hd.oid with
      | some n => Json.str ("name:" ++ n)
      | none => Json.str "attribute_error"

def strLe (a b : String) : Bool := a ≤ b

/-- what the client can see of dataset `d` -/
def dsObs (s : State) (d : Nat) : Json :=
  let py := (ownedBy s.dfs d).map fun (fn, g) =>
    Json.arr #[Json.str fn, Json.str (s.fname[g]?.getD "?"),
      Json.arr ((ownedBy s.cols g).map fun (c, h) =>
        Json.arr #[Json.str c, toJson h, (match s.handles[h]? with | some hd => contentJson s hd.oid | none => Json.null)]).toArray]
  let h5 := (sortBy (fun a b => strLe a.1 b.1) (ownedBy s.file d)).map fun (fn, g) =>
    Json.arr #[Json.str fn,
      Json.arr ((sortBy (fun a b => strLe a.1 b.1) (ownedBy s.links g)).map fun (c, oid) =>
        Json.arr #[Json.str c, contentJson s oid]).toArray]
  Json.mkObj [("py", Json.arr py.toArray), ("h5", Json.arr h5.toArray)]

def obs (nds : Nat) (res : String) (s : State) : Json :=
  Json.mkObj [("res", Json.str res),
    ("ds", Json.arr ((List.range nds).map (dsObs s)).toArray),
    ("handles", Json.arr ((List.range s.handles.length).map (handleObs s)).toArray)]

/-- one harness step: the optional view (if `writeable()` raises, that is the outcome of the step and the call is not made),
    then the call; one observation after both -/
def callStep (v : Variant) (s : State) (c : Call) : Res Unit :=
  match c.view with
  | none => step v s (c.op (.byHandle 0))
  | some h =>
    match step v s (.view (.byHandle h)) with
    | .err e s1 => .err e s1
    | .ok _ s1 => step v s1 (c.op (.byHandle s.handles.length))

def runObs (v : Variant) (nds : Nat) : State → List Call → List Json
  | _, [] => []
  | s, c :: cs =>
    let r := callStep v s c
    let tag := match r with | .ok _ _ => "ok" | .err e _ => errTag e
    obs nds tag r.state :: runObs v nds r.state cs

def handle : Driver.Handler := fun op j =>
  match op with
  | "catalogue" => some do
    let opsJ ← j.getObjVal? "ops"
    let arr ← opsJ.getArr?
    let ops ← arr.toList.mapM callOf
    let nds := (j.getObjValAs? Nat "nds").toOption.getD 2
    let v := match j.getObjValAs? String "variant" with | .ok "asFound" => Variant.asFound | _ => Variant.repaired
    pure <| Driver.okJson (Json.arr (runObs v nds State.init ops).toArray)
  | _ => none

end Driver.C15
