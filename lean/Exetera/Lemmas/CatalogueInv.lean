import Exetera.Spec.Catalogue
import Exetera.Lemmas.CatalogueTables
/-! Every building block of the catalogue model preserves `InvCore`/`Inv` (whether it returns or raises). -/
namespace Exetera.Catalogue

theorem getElem?_snoc_lt {α} {l : List α} {i : Nat} {x y : α} (h : l[i]? = some x) : (l ++ [y])[i]? = some x := by
  have := (List.getElem?_eq_some_iff.1 h).1
  rw [List.getElem?_append_left this]; exact h

theorem getElem?_snoc {α} {l : List α} {y x : α} {i : Nat} (h : (l ++ [y])[i]? = some x) :
    (i < l.length ∧ l[i]? = some x) ∨ (i = l.length ∧ x = y) := by
  rcases Nat.lt_or_ge i l.length with hlt | hge
  · rw [List.getElem?_append_left hlt] at h; exact Or.inl ⟨hlt, h⟩
  · rw [List.getElem?_append_right hge] at h
    rcases Nat.eq_zero_or_pos (i - l.length) with h0 | h0
    · rw [h0] at h; simp only [List.getElem?_cons_zero, Option.some.injEq] at h
      exact Or.inr ⟨by omega, h.symm⟩
    · rw [List.getElem?_eq_none (by simp; omega)] at h; cases h

theorem addField_inv {s : State} (hI : InvCore s) (g : Nat) (n : Name) (c : Content) (hg : g ∈ s.file.map (·.2)) :
    InvCore (addField .repaired s g n c).state := by
  unfold addField
  split
  · exact hI
  split
  · exact hI
  next h1 h2 =>
  simp only [Res.state]
  refine { colsNodup := ?_, linksNodup := ?_, sameKeys := ?_, sameObj := ?_, handleInj := ?_, oidInj := ?_, oidLt := ?_,
           fileNodup := hI.fileNodup, frameInj := hI.frameInj,
           frameName := hI.frameName, frameDs := hI.frameDs, fdsLen := hI.fdsLen, linkFrame := ?_,
           handleLink := ?_, handleOidLt := ?_ }
  · exact keys_snoc_nodup _ hI.colsNodup h1
  · exact keys_snoc_nodup _ hI.linksNodup h2
  · intro k; simp only [keys_append, List.mem_append, hI.sameKeys k, keys_cons, keys_nil]
  · intro k h hk
    simp only [List.mem_append, List.mem_singleton] at hk
    rcases hk with hk | hk
    · obtain ⟨hd, h1, h2, h3, h4, h5, h6⟩ := hI.sameObj k h hk
      exact ⟨hd, getElem?_snoc_lt h1, h2, h3, h4, h5, List.mem_append_left _ h6⟩
    · obtain ⟨rfl, rfl⟩ := Prod.mk.inj hk
      refine ⟨_, List.getElem?_concat_length, rfl, rfl, by simp, rfl, by simp⟩
  · apply vals_snoc_nodup _ hI.handleInj
    intro e he heq
    obtain ⟨hd, h1, _⟩ := hI.sameObj e.1 e.2 he
    have := (List.getElem?_eq_some_iff.1 h1).1
    omega
  · apply vals_snoc_nodup _ hI.oidInj
    intro e he heq
    have := hI.oidLt e.1 e.2 he
    omega
  · intro k o hk
    simp only [List.mem_append, List.mem_singleton] at hk
    simp only [List.length_append, List.length_cons, List.length_nil]
    rcases hk with hk | hk
    · have := hI.oidLt k o hk; omega
    · obtain ⟨rfl, rfl⟩ := Prod.mk.inj hk; omega
  · intro k o hk
    simp only [List.mem_append, List.mem_singleton] at hk
    rcases hk with hk | hk
    · exact hI.linkFrame k o hk
    · obtain ⟨rfl, rfl⟩ := Prod.mk.inj hk; exact hg
  · intro h hd hh hc k hk
    simp only [List.mem_append, List.mem_singleton] at hk
    rcases getElem?_snoc hh with ⟨_, hh'⟩ | ⟨rfl, rfl⟩
    · have hlt' := hI.handleOidLt h hd hh'
      rcases hk with hk | hk
      · exact hI.handleLink h hd hh' hc k hk
      · have := (Prod.mk.inj hk).2; omega
    · rcases hk with hk | hk
      · have := hI.oidLt k _ hk; simp at this
      · rw [(Prod.mk.inj hk).1]; exact ⟨rfl, by simp, rfl⟩
  · intro h hd hh
    simp only [List.length_append, List.length_cons, List.length_nil]
    rcases getElem?_snoc hh with ⟨_, hh'⟩ | ⟨rfl, rfl⟩
    · have := hI.handleOidLt h hd hh'; omega
    · simp

/-- removing a column from both catalogues -/
theorem removeBoth_inv {s : State} (hI : InvCore s) (k : Key) :
    InvCore { s with links := erase s.links k, cols := erase s.cols k } := by
  refine { colsNodup := keys_erase_nodup _ hI.colsNodup, linksNodup := keys_erase_nodup _ hI.linksNodup,
           sameKeys := ?_, sameObj := ?_, handleInj := vals_erase_nodup _ hI.handleInj,
           oidInj := vals_erase_nodup _ hI.oidInj, oidLt := ?_,
           fileNodup := hI.fileNodup, frameInj := hI.frameInj,
           frameName := hI.frameName, frameDs := hI.frameDs, fdsLen := hI.fdsLen, linkFrame := ?_,
           handleLink := ?_, handleOidLt := hI.handleOidLt }
  · intro x; simp only [mem_keys_erase, hI.sameKeys x]
  · intro x h hx
    rw [mem_erase] at hx
    obtain ⟨hd, h1, h2, h3, h4, h5, h6⟩ := hI.sameObj x h hx.1
    exact ⟨hd, h1, h2, h3, h4, h5, mem_erase.2 ⟨h6, hx.2⟩⟩
  · intro x o hx; exact hI.oidLt x o (mem_erase.1 hx).1
  · intro x o hx; exact hI.linkFrame x o (mem_erase.1 hx).1
  · intro h hd hh hc x hx
    exact hI.handleLink h hd hh hc x (mem_erase.1 hx).1

theorem delItem_inv {s : State} (hI : InvCore s) (g : Nat) (n : Name) : InvCore (delItem s g n).state := by
  unfold delItem
  split
  · exact hI
  split
  · exact hI
  exact removeBoth_inv hI (g, n)

theorem dropField_inv {s : State} (hI : InvCore s) (g : Nat) (n : Name) : InvCore (dropField s g n).state := by
  unfold dropField
  split
  · exact hI
  next h1 =>
  simp only
  split
  · next h2 => exact absurd ((hI.sameKeys _).1 (Decidable.not_not.1 h1)) h2
  · exact removeBoth_inv hI (g, n)

/-- under the invariant `drop` cannot stop half way -/
theorem dropField_ok {s : State} (hI : InvCore s) {g : Nat} {n : Name} (h : (g, n) ∈ keys s.cols) :
    dropField s g n = .ok () { s with links := erase s.links (g, n), cols := erase s.cols (g, n) } := by
  unfold dropField
  simp only [h, not_true_eq_false, if_false, (hI.sameKeys _).1 h]

theorem invalidate_handle {s : State} {h j : Nat} {hd : Handle} (hh : (invalidate s h).handles[j]? = some hd) :
    ∃ hd0, s.handles[j]? = some hd0 ∧ hd.oid = hd0.oid ∧ hd.closed = hd0.closed ∧ hd.owner = hd0.owner ∧ hd.home = hd0.home ∧
      (j ≠ h → hd = hd0) := by
  simp only [invalidate, List.getElem?_modify] at hh
  cases hj : s.handles[j]? with
  | none => rw [hj] at hh; simp at hh
  | some hd0 =>
    rw [hj] at hh
    simp only [Option.map_eq_map, Option.map_some, Option.some.injEq] at hh
    refine ⟨hd0, rfl, ?_⟩
    subst hh
    split
    · next he => exact ⟨rfl, rfl, rfl, rfl, fun hne => absurd he.symm hne⟩
    · exact ⟨rfl, rfl, rfl, rfl, fun _ => rfl⟩

theorem invalidate_inv {s : State} (hI : InvCore s) {h : Nat}
    (hh : ∀ hd, s.handles[h]? = some hd → ∀ e ∈ s.links, e.2 ≠ hd.oid) : InvCore (invalidate s h) := by
  refine { colsNodup := hI.colsNodup, linksNodup := hI.linksNodup, sameKeys := hI.sameKeys, sameObj := ?_,
           handleInj := hI.handleInj, oidInj := hI.oidInj, oidLt := hI.oidLt,
           fileNodup := hI.fileNodup, frameInj := hI.frameInj,
           frameName := hI.frameName, frameDs := hI.frameDs, fdsLen := hI.fdsLen, linkFrame := hI.linkFrame,
           handleLink := ?_, handleOidLt := ?_ }
  · intro k j hk
    obtain ⟨hd, h1, h2⟩ := hI.sameObj k j hk
    have hne : j ≠ h := by
      intro he; subst he; exact hh hd h1 _ h2.2.2.2.2 rfl
    refine ⟨hd, ?_, h2⟩
    simp only [invalidate, List.getElem?_modify, h1]
    simp [Ne.symm hne]
  · intro j hd hj hc k hk
    obtain ⟨hd0, h0, ho, hcl, how, hhm, hsame⟩ := invalidate_handle hj
    have hne : j ≠ h := by
      intro he; subst he; exact hh hd0 h0 _ hk ho
    rw [hsame hne]
    exact hI.handleLink j hd0 h0 (by rw [← hcl]; exact hc) k (by rw [← ho]; exact hk)
  · intro j hd hj
    obtain ⟨hd0, h0, ho, _⟩ := invalidate_handle hj
    have := hI.handleOidLt j hd0 h0
    show hd.oid < s.objs.length
    omega

theorem copyField_inv {s : State} (hI : InvCore s) (h g : Nat) (n : Name) (hg : g ∈ s.file.map (·.2)) :
    InvCore (copyField .repaired s h g n).state := by
  unfold copyField
  split
  · exact hI
  · exact addField_inv hI g n _ hg

theorem addCopy_inv {s : State} (hI : InvCore s) (h g : Nat) (hg : g ∈ s.file.map (·.2)) :
    InvCore (addCopy .repaired s g h).state := by
  unfold addCopy
  split
  · exact hI
  · exact copyField_inv hI h g _ hg

theorem deleteField_inv {s : State} (hI : InvCore s) (h g : Nat) : InvCore (deleteField s g h).state := by
  unfold deleteField
  split
  · exact hI
  split
  · exact hI
  split
  · exact hI
  · exact delItem_inv hI g _

/-- what `addField` leaves untouched / how it extends the state -/
theorem addField_ok_shape {v : Variant} {s s1 : State} {g : Nat} {n : Name} {c : Content} {a : Nat}
    (h : addField v s g n c = .ok a s1) :
    s1.file = s.file ∧ s1.dfs = s.dfs ∧ s1.fname = s.fname ∧ s1.fds = s.fds ∧
    (∀ (j : Nat) (hd : Handle), s.handles[j]? = some hd → s1.handles[j]? = some hd) ∧
    (∀ e, e ∈ s.links → e ∈ s1.links) ∧ (∀ e, e ∈ s.cols → e ∈ s1.cols) ∧
    (∀ e, e ∈ s1.links → e ∈ s.links ∨ e.1 = (g, n)) ∧ (∀ e, e ∈ s1.cols → e ∈ s.cols ∨ e.1 = (g, n)) := by
  unfold addField at h
  split at h
  · cases h
  split at h
  · cases h
  simp only [Res.ok.injEq] at h
  obtain ⟨_, rfl⟩ := h
  refine ⟨rfl, rfl, rfl, rfl, ?_, ?_, ?_, ?_, ?_⟩
  · intro j hd hj; exact getElem?_snoc_lt hj
  · intro e he; exact List.mem_append_left _ he
  · intro e he; exact List.mem_append_left _ he
  · intro e he
    simp only [List.mem_append, List.mem_singleton] at he
    rcases he with he | he
    · exact Or.inl he
    · right; rw [he]
  · intro e he
    simp only [List.mem_append, List.mem_singleton] at he
    rcases he with he | he
    · exact Or.inl he
    · right; rw [he]

theorem ensureValid_ok {s : State} {h : Nat} {hd : Handle} (hv : ensureValid s h = .ok hd) :
    s.handles[h]? = some hd ∧ hd.closed = false ∧ hd.valid = true := by
  unfold ensureValid at hv
  split at hv
  · cases hv
  · next hd' hh =>
    split at hv
    · cases hv
    · split at hv
      · next hc hvv => cases hv; exact ⟨hh, by simpa using hc, hvv⟩
      · cases hv

theorem fieldName_ok {s : State} (hI : InvCore s) {h : Nat} {k : Name} (hn : fieldName s h = .ok k) :
    ∃ hd g, s.handles[h]? = some hd ∧ hd.owner = some g ∧ ((g, k), hd.oid) ∈ s.links := by
  unfold fieldName at hn
  split at hn
  · cases hn
  · next hd hv =>
    obtain ⟨hh, hc, _⟩ := ensureValid_ok hv
    split at hn
    · next n hnm =>
      cases hn
      obtain ⟨g, hg⟩ := (nameOfVal_eq_some hI.oidInj).1 hnm
      exact ⟨hd, g, hh, (hI.handleLink h hd hh hc _ hg).2.1, hg⟩
    · cases hn

/-- `field.writeable()`: one more field object around the same group -/
theorem viewField_inv {s : State} (hI : InvCore s) (h : Nat) : InvCore (viewField .repaired s h).state := by
  unfold viewField
  split
  · exact hI
  next hd hv =>
  obtain ⟨hh, hc, hvv⟩ := ensureValid_ok hv
  simp only [Res.state, Bool.false_eq_true, if_false]
  refine { colsNodup := hI.colsNodup, linksNodup := hI.linksNodup, sameKeys := hI.sameKeys, sameObj := ?_,
           handleInj := hI.handleInj, oidInj := hI.oidInj, oidLt := hI.oidLt,
           fileNodup := hI.fileNodup, frameInj := hI.frameInj,
           frameName := hI.frameName, frameDs := hI.frameDs, fdsLen := hI.fdsLen, linkFrame := hI.linkFrame,
           handleLink := ?_, handleOidLt := ?_ }
  · intro k j hk
    obtain ⟨hd', h1, h2⟩ := hI.sameObj k j hk
    exact ⟨hd', getElem?_snoc_lt h1, h2⟩
  · intro j hd' hj hcl k hk
    rcases getElem?_snoc hj with ⟨_, hj'⟩ | ⟨_, rfl⟩
    · exact hI.handleLink j hd' hj' hcl k hk
    · have := hI.handleLink h hd hh hc k hk
      exact ⟨rfl, this.2.1, this.2.2⟩
  · intro j hd' hj
    rcases getElem?_snoc hj with ⟨_, hj'⟩ | ⟨_, rfl⟩
    · exact hI.handleOidLt j hd' hj'
    · exact hI.handleOidLt h hd hh

theorem viewField_frames (v : Variant) (s : State) (h : Nat) : s.dfs = (viewField v s h).state.dfs ∧ s.file = (viewField v s h).state.file := by
  unfold viewField; split <;> exact ⟨rfl, rfl⟩

theorem moveField_cross_inv {s : State} (hI : InvCore s) (h g : Nat) (n : Name) (hd : Handle) (hg : g ∈ s.file.map (·.2))
    (hv : ensureValid s h = .ok hd) :
    InvCore ((copyField .repaired s h g n).andThen fun _ s1 =>
        match hd.owner with
        | none => .err attrErr s1
        | some og =>
          match fieldName s1 h with
          | .error e => .err e s1
          | .ok k => (dropField s1 og k).andThen fun _ s2 => .ok () (invalidate s2 h)).state := by
  have hI1 := copyField_inv hI h g n hg
  cases hc : copyField .repaired s h g n with
  | err e s1 => simp only [Res.andThen, Res.state]; rw [hc] at hI1; exact hI1
  | ok a s1 =>
    rw [hc] at hI1
    simp only [Res.state] at hI1
    simp only [Res.andThen]
    split
    · exact hI1
    · next og hog =>
      split
      · exact hI1
      · next k hk =>
        obtain ⟨hd1, g', hh1, ho1, hlk⟩ := fieldName_ok hI1 hk
        -- the handle is the same object as before the copy
        have hsame : hd1 = hd := by
          have h0 := (ensureValid_ok hv).1
          unfold copyField at hc
          split at hc
          · cases hc
          · have := (addField_ok_shape hc).2.2.2.2.1 h hd h0
            rw [hh1] at this; exact Option.some.inj this
        subst hsame
        rw [hog] at ho1
        cases ho1
        rw [dropField_ok hI1 ((hI1.sameKeys _).2 (mem_keys_of_mem hlk))]
        simp only [Res.andThen, Res.state]
        apply invalidate_inv (removeBoth_inv hI1 (og, k))
        intro hd2 hh2 e he heq
        have hh2' : s1.handles[h]? = some hd2 := hh2
        rw [hh1] at hh2'; cases hh2'
        have he' : e ∈ erase s1.links (og, k) := he
        rw [mem_erase] at he'
        have : e.1 = (og, k) := injective hI1.oidInj (k := e.1) (k' := (og, k)) (v := hd1.oid) (by rw [← heq]; exact he'.1) hlk
        exact he'.2 this

/-- the dataset-level tables are untouched -/
def SameFrames (s s' : State) : Prop := s'.dfs = s.dfs ∧ s'.file = s.file ∧ s'.fname = s.fname ∧ s'.fds = s.fds

theorem SameFrames.refl (s : State) : SameFrames s s := ⟨rfl, rfl, rfl, rfl⟩
theorem SameFrames.trans {a b c : State} (h1 : SameFrames a b) (h2 : SameFrames b c) : SameFrames a c :=
  ⟨h2.1.trans h1.1, h2.2.1.trans h1.2.1, h2.2.2.1.trans h1.2.2.1, h2.2.2.2.trans h1.2.2.2⟩

theorem addField_frames (v : Variant) (s : State) (g : Nat) (n : Name) (c : Content) : SameFrames s (addField v s g n c).state := by
  unfold addField; split
  · exact SameFrames.refl s
  split
  · exact SameFrames.refl s
  · exact ⟨rfl, rfl, rfl, rfl⟩

theorem copyField_frames (v : Variant) (s : State) (h g : Nat) (n : Name) : SameFrames s (copyField v s h g n).state := by
  unfold copyField; split
  · exact SameFrames.refl s
  · exact addField_frames ..

theorem addCopy_frames (v : Variant) (s : State) (g h : Nat) : SameFrames s (addCopy v s g h).state := by
  unfold addCopy; split
  · exact SameFrames.refl s
  · exact copyField_frames ..

theorem delItem_frames (s : State) (g : Nat) (n : Name) : SameFrames s (delItem s g n).state := by
  unfold delItem; split
  · exact SameFrames.refl s
  split
  · exact SameFrames.refl s
  · exact ⟨rfl, rfl, rfl, rfl⟩

theorem dropField_frames (s : State) (g : Nat) (n : Name) : SameFrames s (dropField s g n).state := by
  unfold dropField; split
  · exact SameFrames.refl s
  simp only
  split <;> exact ⟨rfl, rfl, rfl, rfl⟩

theorem deleteField_frames (s : State) (g h : Nat) : SameFrames s (deleteField s g h).state := by
  unfold deleteField
  split
  · exact SameFrames.refl s
  split
  · exact SameFrames.refl s
  split
  · exact SameFrames.refl s
  · exact delItem_frames ..

theorem copyAll_frames (v : Variant) (g : Nat) (cs : List (Name × Nat)) (s : State) : SameFrames s (copyAll v g cs s).state := by
  induction cs generalizing s with
  | nil => exact SameFrames.refl s
  | cons e cs ih =>
    obtain ⟨n, h⟩ := e
    simp only [copyAll]
    have h1 := copyField_frames v s h g n
    split
    · next e s' heq => rw [heq] at h1; exact h1
    · next a s' heq => rw [heq] at h1; exact h1.trans (ih s')

theorem copyAll_core (g : Nat) (cs : List (Name × Nat)) (s : State) (hI : InvCore s) (hg : g ∈ s.file.map (·.2)) :
    InvCore (copyAll .repaired g cs s).state := by
  induction cs generalizing s with
  | nil => exact hI
  | cons e cs ih =>
    obtain ⟨n, h⟩ := e
    simp only [copyAll]
    have h1 := copyField_inv hI h g n hg
    have h2 := copyField_frames .repaired s h g n
    split
    · next e s' heq => rw [heq] at h1; exact h1
    · next a s' heq =>
      rw [heq] at h1 h2
      exact ih s' h1 (by have := h2.2.1; simp only [Res.state] at this; rw [this]; exact hg)

/-! dataset-level blocks -/

theorem newGroup_core {s : State} (hI : InvCore s) (d : Nat) (fn : Name) : InvCore (newGroup s d fn).state := by
  unfold newGroup
  split
  · exact hI
  next hfresh =>
  simp only [Res.state]
  have hlt : ∀ k g, (k, g) ∈ s.file → g < s.fname.length := by
    intro k g hk
    exact (List.getElem?_eq_some_iff.1 (hI.frameName k g hk)).1
  refine { colsNodup := hI.colsNodup, linksNodup := hI.linksNodup, sameKeys := hI.sameKeys, sameObj := hI.sameObj,
           handleInj := hI.handleInj, oidInj := hI.oidInj, oidLt := hI.oidLt,
           fileNodup := keys_snoc_nodup _ hI.fileNodup hfresh, frameInj := ?_, frameName := ?_, frameDs := ?_, fdsLen := ?_,
           linkFrame := ?_, handleLink := hI.handleLink, handleOidLt := hI.handleOidLt }
  · apply vals_snoc_nodup _ hI.frameInj
    intro e he heq
    have := hlt e.1 e.2 he
    omega
  · intro k g hk
    simp only [List.mem_append, List.mem_singleton] at hk
    rcases hk with hk | hk
    · exact getElem?_snoc_lt (hI.frameName k g hk)
    · obtain ⟨rfl, rfl⟩ := Prod.mk.inj hk; simp
  · intro k g hk
    simp only [List.mem_append, List.mem_singleton] at hk
    rcases hk with hk | hk
    · exact getElem?_snoc_lt (hI.frameDs k g hk)
    · obtain ⟨rfl, rfl⟩ := Prod.mk.inj hk
      rw [← hI.fdsLen]; simp
  · simp [hI.fdsLen]
  · intro k o hk
    simp only [List.map_append, List.mem_append]
    exact Or.inl (hI.linkFrame k o hk)

theorem fieldContent_ok {s : State} (hI : InvCore s) {k : Key} {h : Nat} (hk : (k, h) ∈ s.cols) :
    ∃ c, fieldContent s h = .ok c := by
  obtain ⟨hd, h1, h2, h3, _, _, _⟩ := hI.sameObj k h hk
  have hlt := hI.handleOidLt h hd h1
  unfold fieldContent ensureValid
  simp only [h1, h3, h2, Bool.false_eq_true, if_false, if_true]
  rw [List.getElem?_eq_getElem hlt]
  exact ⟨_, rfl⟩

theorem addField_ok {v : Variant} {s : State} (hI : InvCore s) {g : Nat} {n : Name} (c : Content) (hn : (g, n) ∉ keys s.cols) :
    ∃ a s', addField v s g n c = .ok a s' ∧ s'.cols = s.cols ++ [((g, n), a)] := by
  have hl : (g, n) ∉ keys s.links := fun h => hn ((hI.sameKeys _).2 h)
  unfold addField
  simp only [hn, hl, if_false]
  exact ⟨_, _, rfl, rfl⟩

theorem copyAll_ok (g sg : Nat) (cs : List (Name × Nat)) (s : State) (hI : InvCore s) (hg : g ∈ s.file.map (·.2))
    (hsrc : ∀ e ∈ cs, ((sg, e.1), e.2) ∈ s.cols) (hnd : (cs.map (·.1)).Nodup) (hfresh : ∀ n ∈ cs.map (·.1), (g, n) ∉ keys s.cols) :
    ∃ s', copyAll .repaired g cs s = .ok () s' := by
  induction cs generalizing s with
  | nil => exact ⟨s, rfl⟩
  | cons e cs ih =>
    obtain ⟨n, h⟩ := e
    simp only [List.map_cons, List.nodup_cons, List.mem_cons, forall_eq_or_imp] at hnd hfresh hsrc
    simp only [copyAll]
    obtain ⟨c, hc⟩ := fieldContent_ok hI hsrc.1
    obtain ⟨a, s', hs', hcols⟩ := addField_ok (v := .repaired) hI c hfresh.1
    have hcf : copyField .repaired s h g n = .ok a s' := by
      unfold copyField; rw [hc]; exact hs'
    have hI' := copyField_inv hI h g n hg
    have hfr := copyField_frames .repaired s h g n
    rw [hcf] at hI' hfr ⊢
    simp only [Res.state] at hI' hfr
    apply ih s' hI' (by rw [hfr.2.1]; exact hg)
    · intro e he; rw [hcols]; exact List.mem_append_left _ (hsrc.2 e he)
    · exact hnd.2
    · intro n' hn'
      rw [hcols]
      simp only [keys_append, keys_cons, keys_nil, List.mem_append, List.mem_singleton, not_or, Prod.mk.injEq, true_and]
      refine ⟨hfresh.2 n' hn', ?_⟩
      intro heq; subst heq; exact hnd.1 hn'

theorem ownedBy_keys_nodup {t : Table} (hn : (keys t).Nodup) (g : Nat) : ((ownedBy t g).map (·.1)).Nodup := by
  induction t with
  | nil => simp [ownedBy]
  | cons e t ih =>
    obtain ⟨⟨g', n⟩, v⟩ := e
    simp only [keys_cons, List.nodup_cons] at hn
    have ih' := ih hn.2
    unfold ownedBy at ih' ⊢
    by_cases hg : g' = g
    · subst hg
      simp only [List.filterMap_cons, if_true, List.map_cons, List.nodup_cons]
      refine ⟨?_, ih'⟩
      intro hmem
      simp only [List.mem_map] at hmem
      obtain ⟨⟨n', v'⟩, hm, rfl⟩ := hmem
      exact hn.1 (mem_keys_of_mem (mem_ownedBy.1 hm))
    · simp only [List.filterMap_cons, hg, if_false]
      exact ih'

theorem createFrame_inv {s : State} (hI : Inv s) (d : Nat) (fn : Name) (src : Option Nat) :
    Inv (createFrame .repaired s d fn src).state := by
  unfold createFrame
  have hng := newGroup_core hI.toInvCore d fn
  cases hn : newGroup s d fn with
  | err e s1 =>
    simp only [Res.andThen, Res.state]
    unfold newGroup at hn; split at hn
    · cases hn; exact hI
    · cases hn
  | ok g s1 =>
    rw [hn] at hng
    simp only [Res.state] at hng
    have hshape : (d, fn) ∉ keys s.file ∧ g = s.fname.length ∧ s1.file = s.file ++ [((d, fn), g)] ∧ s1.dfs = s.dfs ∧ s1.cols = s.cols := by
      unfold newGroup at hn; split at hn
      · cases hn
      · next hf => simp only [Res.ok.injEq] at hn; obtain ⟨rfl, rfl⟩ := hn; exact ⟨hf, rfl, rfl, rfl, rfl⟩
    obtain ⟨hfresh, hgdef, hfile, hdfs, hcols⟩ := hshape
    have hg1 : g ∈ s1.file.map (·.2) := by rw [hfile]; simp
    have hgnew : ∀ k h, (k, h) ∈ s.cols → k.1 ≠ g := by
      intro k h hk heq
      obtain ⟨o, ho⟩ := mem_keys.1 ((hI.sameKeys k).1 (mem_keys_of_mem hk))
      have := hI.linkFrame k o ho
      simp only [List.mem_map] at this
      obtain ⟨e, he, hee⟩ := this
      have := (List.getElem?_eq_some_iff.1 (hI.frameName e.1 e.2 he)).1
      omega
    simp only [Res.andThen]
    -- the fill cannot fail and keeps the core invariant and the dataset tables
    have hfill : ∃ s2, fillFrame .repaired g src s1 = .ok () s2 ∧ InvCore s2 ∧ s2.dfs = s1.dfs ∧ s2.file = s1.file := by
      cases src with
      | none => exact ⟨s1, rfl, hng, rfl, rfl⟩
      | some sg =>
        simp only [fillFrame]
        obtain ⟨s2, hs2⟩ := copyAll_ok g sg (ownedBy s1.cols sg) s1 hng hg1
          (by intro e he; exact mem_ownedBy.1 he) (ownedBy_keys_nodup hng.colsNodup sg)
          (by intro n _ hmem
              rw [hcols] at hmem
              obtain ⟨h, hh⟩ := mem_keys.1 hmem
              exact hgnew _ h hh rfl)
        have hc := copyAll_core g (ownedBy s1.cols sg) s1 hng hg1
        have hf := copyAll_frames .repaired g (ownedBy s1.cols sg) s1
        rw [hs2] at hc hf
        exact ⟨s2, hs2, hc, hf.1, hf.2.1⟩
    obtain ⟨s2, hs2, hc2, hd2, hf2⟩ := hfill
    rw [hs2]
    simp only [Res.state]
    have hk : (d, fn) ∉ keys s2.dfs := by
      rw [hd2, hdfs]
      intro hmem
      obtain ⟨v, hv⟩ := mem_keys.1 hmem
      exact hfresh (mem_keys_of_mem ((hI.sameFrames _).1 hv))
    rw [dictSet_fresh _ hk]
    refine { toInvCore := ?_, dfsNodup := ?_, sameFrames := ?_ }
    · exact { hc2 with }
    · exact keys_snoc_nodup _ (by rw [hd2, hdfs]; exact hI.dfsNodup) hk
    · intro e
      show e ∈ s2.dfs ++ [((d, fn), g)] ↔ e ∈ s2.file
      rw [hd2, hdfs, hf2, hfile]
      simp only [List.mem_append, hI.sameFrames e]

theorem mem_dictSet_self (t : Table) (k : Key) (v : Nat) : (k, v) ∈ dictSet t k v := by
  unfold dictSet
  split
  · next h =>
    obtain ⟨w, hw⟩ := mem_keys.1 h
    simp only [List.mem_map]
    exact ⟨(k, w), hw, by simp⟩
  · simp

theorem createFrame_ok_mem {v : Variant} {s s1 : State} {d : Nat} {fn : Name} {src : Option Nat} {g : Nat}
    (h : createFrame v s d fn src = .ok g s1) : ((d, fn), g) ∈ s1.dfs := by
  unfold createFrame Res.andThen at h
  split at h
  · next g' s' _ =>
    simp only at h
    split at h
    · simp only [Res.ok.injEq] at h
      obtain ⟨rfl, rfl⟩ := h
      exact mem_dictSet_self _ _ _
    · cases h
  · cases h

theorem copyFrame_inv {s : State} (hI : Inv s) (sg d : Nat) (fn : Name) : Inv (copyFrame .repaired s sg d fn).state := by
  unfold copyFrame
  split
  · exact hI
  have h1 := createFrame_inv hI d fn none
  cases hc : createFrame .repaired s d fn none with
  | err e s1 => rw [hc] at h1; exact h1
  | ok g s1 =>
    rw [hc] at h1
    simp only [Res.state] at h1
    have hmem := createFrame_ok_mem hc
    have hg : g ∈ s1.file.map (·.2) := List.mem_map.2 ⟨_, (h1.sameFrames _).1 hmem, rfl⟩
    have hcore := copyAll_core g (ownedBy s1.cols sg) s1 h1.toInvCore hg
    have hfr := copyAll_frames .repaired g (ownedBy s1.cols sg) s1
    have h2 : Inv (copyAll .repaired g (ownedBy s1.cols sg) s1).state := h1.lift hcore hfr.1 hfr.2.1
    simp only [Res.andThen]
    cases hca : copyAll .repaired g (ownedBy s1.cols sg) s1 with
    | err e s2 => rw [hca] at h2; exact h2
    | ok a s2 =>
      rw [hca] at h2 hfr
      simp only [Res.state] at h2 hfr ⊢
      rw [dictSet_same h2.dfsNodup (by rw [hfr.1]; exact hmem)]
      exact h2

/-- a frame disappears from both catalogues, with everything in it -/
theorem removeFrame_inv {s : State} (hI : Inv s) {d : Nat} {fn : Name} {g : Nat} (hg : ((d, fn), g) ∈ s.file) :
    Inv { s with dfs := erase s.dfs (d, fn), file := erase s.file (d, fn), links := dropOwner s.links g, cols := dropOwner s.cols g } := by
  refine { colsNodup := keys_dropOwner_nodup _ hI.colsNodup, linksNodup := keys_dropOwner_nodup _ hI.linksNodup,
           sameKeys := ?_, sameObj := ?_, handleInj := vals_dropOwner_nodup _ hI.handleInj,
           oidInj := vals_dropOwner_nodup _ hI.oidInj, oidLt := ?_,
           fileNodup := keys_erase_nodup _ hI.fileNodup, frameInj := vals_erase_nodup _ hI.frameInj,
           frameName := ?_, frameDs := ?_, fdsLen := hI.fdsLen, linkFrame := ?_, handleLink := ?_,
           handleOidLt := hI.handleOidLt, dfsNodup := keys_erase_nodup _ hI.dfsNodup, sameFrames := ?_ }
  · intro k; simp only [mem_keys_dropOwner, hI.sameKeys k]
  · intro k h hk
    rw [mem_dropOwner] at hk
    obtain ⟨hd, h1, h2, h3, h4, h5, h6⟩ := hI.sameObj k h hk.1
    exact ⟨hd, h1, h2, h3, h4, h5, mem_dropOwner.2 ⟨h6, hk.2⟩⟩
  · intro k o hk; exact hI.oidLt k o (mem_dropOwner.1 hk).1
  · intro k g' hk; exact hI.frameName k g' (mem_erase.1 hk).1
  · intro k g' hk; exact hI.frameDs k g' (mem_erase.1 hk).1
  · intro k o hk
    rw [mem_dropOwner] at hk
    have := hI.linkFrame k o hk.1
    simp only [List.mem_map] at this ⊢
    obtain ⟨e, he, hee⟩ := this
    refine ⟨e, mem_erase.2 ⟨he, ?_⟩, hee⟩
    intro heq
    have : e.2 = g := functional hI.fileNodup (k := (d, fn)) (by rw [← heq]; exact he) hg
    exact hk.2 (by rw [← hee, this])
  · intro h hd hh hc k hk
    exact hI.handleLink h hd hh hc k (mem_dropOwner.1 hk).1
  · intro e; simp only [mem_erase, hI.sameFrames e]

theorem unlink_after_erase {s : State} (hI : Inv s) {d : Nat} {fn : Name} (hk : (d, fn) ∈ keys s.dfs) :
    Inv (unlinkGroup { s with dfs := erase s.dfs (d, fn) } d fn).state := by
  obtain ⟨g, hg⟩ := mem_keys.1 hk
  have hf := (hI.sameFrames _).1 hg
  unfold unlinkGroup
  simp only [(look_eq_some hI.fileNodup).2 hf, Res.state]
  exact removeFrame_inv hI hf

theorem dropFrame_inv {s : State} (hI : Inv s) (d : Nat) (fn : Name) : Inv (dropFrame s d fn).state := by
  unfold dropFrame
  split
  · exact hI
  · next h => exact unlink_after_erase hI (Decidable.not_not.1 h)

theorem delFrame_inv {s : State} (hI : Inv s) (d : Nat) (fn : Name) : Inv (delFrame s d fn).state := by
  unfold delFrame
  split
  · exact hI
  · next h => exact unlink_after_erase hI (Decidable.not_not.1 h)

theorem moveFrame_inv {s : State} (hI : Inv s) (sd sg d : Nat) (fn : Name) : Inv (moveFrame .repaired s sd sg d fn).state := by
  unfold moveFrame
  have h1 := copyFrame_inv hI sg d fn
  cases hc : copyFrame .repaired s sg d fn with
  | err e s1 => rw [hc] at h1; exact h1
  | ok a s1 =>
    rw [hc] at h1
    simp only [Res.andThen]
    split
    · exact h1
    · exact dropFrame_inv h1 sd _

/-- renaming a frame in both catalogues -/
theorem renameFrame_inv {s : State} (hI : Inv s) {d : Nat} {old fn : Name} {g : Nat} (hg : ((d, old), g) ∈ s.file)
    (hfresh : (d, fn) ∉ keys s.file) :
    Inv { s with file := rekey s.file (d, old) (d, fn), dfs := erase s.dfs (d, old) ++ [((d, fn), g)], fname := s.fname.set g fn } := by
  have hglt : g < s.fname.length := (List.getElem?_eq_some_iff.1 (hI.frameName _ _ hg)).1
  have hfreshD : (d, fn) ∉ keys s.dfs := by
    intro h; obtain ⟨v, hv⟩ := mem_keys.1 h; exact hfresh (mem_keys_of_mem ((hI.sameFrames _).1 hv))
  refine { colsNodup := hI.colsNodup, linksNodup := hI.linksNodup, sameKeys := hI.sameKeys, sameObj := hI.sameObj,
           handleInj := hI.handleInj, oidInj := hI.oidInj, oidLt := hI.oidLt,
           fileNodup := keys_rekey_nodup hI.fileNodup hfresh, frameInj := by rw [vals_rekey]; exact hI.frameInj,
           frameName := ?_, frameDs := ?_, fdsLen := by simp [hI.fdsLen], linkFrame := ?_, handleLink := hI.handleLink,
           handleOidLt := hI.handleOidLt, dfsNodup := ?_, sameFrames := ?_ }
  · intro k g' hk
    rw [mem_rekey] at hk
    rcases hk with ⟨h1, h2⟩ | ⟨h1, h2⟩
    · have : g' = g := functional hI.fileNodup h2 hg
      subst this
      simp only at h1
      rw [h1]
      simp [hglt]
    · have hne : g ≠ g' := by
        intro heq; subst heq
        exact h2 (injective hI.frameInj h1 hg)
      simp only [List.getElem?_set_ne hne]
      exact hI.frameName k g' h1
  · intro k g' hk
    rw [mem_rekey] at hk
    rcases hk with ⟨h1, h2⟩ | ⟨h1, _⟩
    · have := hI.frameDs _ _ h2; simp only at h1 this; rw [h1]; exact this
    · exact hI.frameDs k g' h1
  · intro k o hk
    show k.1 ∈ (rekey s.file (d, old) (d, fn)).map (·.2)
    rw [vals_rekey]; exact hI.linkFrame k o hk
  · apply keys_snoc_nodup _ (keys_erase_nodup _ hI.dfsNodup)
    intro h; exact hfreshD (mem_keys_erase.1 h).1
  · intro e
    simp only [List.mem_append, List.mem_singleton, mem_erase, mem_rekey, hI.sameFrames e]
    constructor
    · rintro (⟨h1, h2⟩ | h)
      · exact Or.inr ⟨h1, h2⟩
      · subst h; exact Or.inl ⟨rfl, hg⟩
    · rintro (⟨h1, h2⟩ | ⟨h1, h2⟩)
      · right
        have : e.2 = g := functional hI.fileNodup h2 hg
        obtain ⟨k, v⟩ := e
        simp only at h1 this
        rw [h1, this]
      · exact Or.inl ⟨h1, h2⟩

theorem setFrame_inv {s : State} (hI : Inv s) (d : Nat) (fn : Name) (sd sg : Nat) (sfn : Name)
    (hsg : ((sd, sfn), sg) ∈ s.dfs) : Inv (setFrame .repaired s d fn sd sg).state := by
  unfold setFrame
  split
  · next hsd =>
    subst hsd
    have hf := (hI.sameFrames _).1 hsg
    have hname : nameOfVal s.file sg = some sfn := (nameOfVal_eq_some hI.frameInj).2 ⟨sd, hf⟩
    simp only [moveGroup, hname]
    split
    · exact hI
    · next hfresh =>
      simp only [Res.andThen, renameEntry, hI.frameName _ _ hf]
      have hk : (sd, sfn) ∈ keys s.dfs := mem_keys_of_mem hsg
      simp only [hk, not_true_eq_false, if_false, Res.state]
      have hfreshD : (sd, fn) ∉ keys (erase s.dfs (sd, sfn)) := by
        intro h
        obtain ⟨v, hv⟩ := mem_keys.1 (mem_keys_erase.1 h).1
        exact hfresh (mem_keys_of_mem ((hI.sameFrames _).1 hv))
      rw [dictSet_fresh _ hfreshD]
      exact renameFrame_inv hI hf hfresh
  · exact copyFrame_inv hI sg d fn

end Exetera.Catalogue
