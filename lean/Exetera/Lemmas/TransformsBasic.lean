import Exetera.Spec.Transforms
/-! Basic list facts for the C06 proofs: `slice`, `offsets`, in-place prefixes, `EncFrom`. Core Lean only. -/
namespace Exetera.Transforms
open Exetera Exetera.Spec.Transforms

theorem slice_nil_of_eq {α} (xs : List α) (a : Nat) : slice xs a a = [] := by simp [slice]

theorem slice_succ {α} (xs : List α) (p n : Nat) (h : p < xs.length) :
    slice xs p (p + (n + 1)) = xs[p] :: slice xs (p + 1) (p + 1 + n) := by
  simp only [slice]
  have e1 : p + (n + 1) - p = n + 1 := by omega
  have e2 : p + 1 + n - (p + 1) = n := by omega
  rw [e1, e2, List.drop_eq_getElem_cons h, List.take_succ_cons]

theorem slice_length_of_le {α} (xs : List α) (a n : Nat) (h : a + n ≤ xs.length) : (slice xs a (a + n)).length = n := by
  simp [slice]; omega

/-- the slice of an append that is exactly the middle part -/
theorem slice_append_mid {α} (pre mid post : List α) :
    slice (pre ++ mid ++ post) pre.length (pre.length + mid.length) = mid := by
  simp [slice, List.append_assoc]

theorem getE_append_left {α} (xs ys : List α) (i : Nat) (site : String) (h : i < xs.length) :
    getE (xs ++ ys) i site = .ok xs[i] := by
  rw [getE_of_lt site (by simp; omega)]; simp [List.getElem_append_left h]

/-- writing the first not-yet-written slot of an in-place buffer -/
theorem setE_prefix {α} (d : List α) (k : Nat) (z v : α) (site : String) :
    setE (d ++ List.replicate (k + 1) z) d.length v site = .ok ((d ++ [v]) ++ List.replicate k z) := by
  simp [setE, List.replicate_succ]

theorem getE_prefix_last {α} (pre : List α) (f : α) (rest : List α) (site : String) :
    getE (pre ++ f :: rest) pre.length site = .ok f := by
  simp [getE]

theorem setE_prefix_next {α} (pre : List α) (f : α) (k : Nat) (z v : α) (site : String) :
    setE (pre ++ f :: List.replicate (k + 1) z) (pre.length + 1) v site = .ok ((pre ++ [f]) ++ v :: List.replicate k z) := by
  have : pre ++ f :: List.replicate (k + 1) z = (pre ++ [f]) ++ List.replicate (k + 1) z := by simp
  rw [this]
  have h := setE_prefix (pre ++ [f]) k z v site
  simp only [List.length_append, List.length_cons, List.length_nil] at h
  rw [h]; simp

/-! ### offsets -/

theorem offsets_length (b : Nat) (ls : List Nat) : (offsets b ls).length = ls.length + 1 := by
  induction ls generalizing b with
  | nil => rfl
  | cons l ls ih => simp [offsets, ih]

theorem offsets_getElem? (b : Nat) (ls : List Nat) (i : Nat) (h : i ≤ ls.length) :
    (offsets b ls)[i]? = some (b + (ls.take i).sum) := by
  induction ls generalizing b i with
  | nil => simp at h; subst h; simp [offsets]
  | cons l ls ih =>
    cases i with
    | zero => simp [offsets]
    | succ i =>
      simp only [offsets, List.getElem?_cons_succ, List.take_succ_cons, List.sum_cons]
      rw [ih (b + l) i (by simpa using h)]; simp; omega

theorem offsets_append (b : Nat) (xs ys : List Nat) :
    offsets b (xs ++ ys) = offsets b xs ++ (offsets (b + xs.sum) ys).tail := by
  induction xs generalizing b with
  | nil => cases ys <;> simp [offsets]
  | cons x xs ih => simp [offsets, ih, Nat.add_assoc]

theorem offsets_map_add (b a : Nat) (ls : List Nat) : (offsets b ls).map (· + a) = offsets (b + a) ls := by
  induction ls generalizing b with
  | nil => simp [offsets]
  | cons l ls ih =>
    simp only [offsets, List.map_cons, ih]
    rw [Nat.add_right_comm]

theorem offsets_getLast (b : Nat) (ls : List Nat) : (offsets b ls)[ls.length]? = some (b + ls.sum) := by
  rw [offsets_getElem? b ls ls.length (Nat.le_refl _)]; simp

end Exetera.Transforms

/-! ### EncFrom -/
namespace Exetera.Spec.Transforms
open Exetera Exetera.Transforms

theorem EncFrom.start {c : Chunk} {i s : Nat} {cells : List Bytes} (h : EncFrom c i s cells) : c.inds[i]? = some s := by
  cases cells with
  | nil => exact h
  | cons _ _ => exact h.1

theorem EncFrom.next {c : Chunk} {i s : Nat} {cell : Bytes} {rest : List Bytes} (h : EncFrom c i s (cell :: rest)) :
    c.inds[i + 1]? = some (s + cell.length) := h.2.2.2.start

theorem EncFrom.lt_inds {c : Chunk} {i s : Nat} {cells : List Bytes} (h : EncFrom c i s cells) :
    i + cells.length < c.inds.length := by
  induction cells generalizing i s with
  | nil =>
    have := h.start
    simp only [List.length_nil, Nat.add_zero]
    exact (List.getElem?_eq_some_iff.mp this).1
  | cons cell rest ih => have := ih h.2.2.2; simp only [List.length_cons]; omega

/-- a byte of the cell, read in place -/
theorem EncFrom.byte {c : Chunk} {i s : Nat} {cell : Bytes} {rest : List Bytes} (h : EncFrom c i s (cell :: rest))
    (j : Nat) (hj : j < cell.length) : c.vals[c.off + s + j]? = cell[j]? := by
  obtain ⟨_, hlen, hsl, _⟩ := h
  have : cell[j]? = (slice c.vals (c.off + s) (c.off + s + cell.length))[j]? := by rw [hsl]
  rw [this]
  simp only [slice, List.getElem?_take, List.getElem?_drop]
  have : j < c.off + s + cell.length - (c.off + s) := by omega
  simp only [this, if_true]

/-- for a column of the staging arrays the column-subscript checks pass and the kernel body runs -/
theorem withCol_ok {α} (c : Chunk) (b : Bool) (site : String) (k : Except Err α) (h : c.col < c.ncols) :
    withCol c b site k = k := by
  unfold withCol
  have h1 : ¬ c.ncols < c.col := by omega
  have h2 : ¬ c.ncols ≤ c.col := by omega
  simp [h1, h2]

end Exetera.Spec.Transforms
