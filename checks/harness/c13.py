"""C13 — field arithmetic / comparison / logic equal numpy's element-wise result on the underlying arrays.
Tie: (T) the dispatch tables are regenerated from fields.py into Gen/OperatorTable.lean and the theorems are re-checked
against them; (C) for every (class, operator, operand kind, dtype pair) the real operator is executed and compared with
(a) numpy applied directly to the underlying arrays (the property's own oracle) and (b) the symbol + operand order the Lean
model resolves from the regenerated tables, applied by numpy."""
import operator

PROPERTY = "C13"
LEVEL = "proof"
LEAN_MODULES = ["Exetera.Props.C13"]
EXHAUSTIVE = {"quick": False, "thorough": True}
TECHNIQUE = "Lean 4 theorems (decide +kernel over the regenerated dispatch tables, numpy opaque) + translator + differential run against numpy"
LEVEL_TEXT = ("Proof over the regenerated operator tables: for every field class and every operator it supports, for every numpy, "
              "the forward form applies the documented symbol to (self, other), the reflected form to (other, self), the result is a "
              "fresh in-memory field, and its declared dtype is numpy's: the regenerated `dtype_to_str` chain names each of the 11 result "
              "dtypes exactly, is injective, and refuses anything else. numpy's arithmetic itself is the property's right-hand side and "
              "stays opaque.")
LEVEL_NOTE = ("Trusted: Lean kernel; tools/translate.py (AST extraction of the 128-row dunder table, the 18 FieldDataOps methods and "
              "the two helpers; tools/translate_dtype.py: the dtype_to_str chain); the differential run (all operators x operand kinds x dtype pairs in thorough, a seeded sample in quick) "
              "for everything not table shaped (unwrap of Field operands, that numpy's `==` identifies a dtype with its scalar type, write of the result, DataFrame.__setitem__).")
RULE = ("cases = (class in 6 field classes) x (each operator the class supports) x (other operand: NumericMemField / ndarray / scalar) x "
        "(dtype pairs incl. bool, mixed widths, float with inf, negative divisors) x (data: empty, zeros, mixed signs); quick runs a seeded "
        "sample stratified so that every (class, operator) is hit at least twice; non-trivial = non-empty operands whose result differs "
        "between the forward and the reflected operand order or a unary operator; distinct = distinct case dict.")
ASSUMPTIONS = ["numpy element-wise arithmetic and promotion (opaque: the property's right-hand side is numpy)",
               "h5py stores and returns arrays faithfully"]
TRUSTED = ["Lean 4.33 kernel", "axioms propext/Classical.choice/Quot.sound only", "tools/translate.py", "checks/harness/c13.py"]

ARITH10 = ["__add__", "__radd__", "__sub__", "__rsub__", "__mul__", "__rmul__", "__truediv__", "__rtruediv__",
           "__floordiv__", "__rfloordiv__"]
MODDIV = ["__mod__", "__rmod__", "__divmod__", "__rdivmod__"]
BITWISE = ["__and__", "__rand__", "__xor__", "__rxor__", "__or__", "__ror__", "__invert__", "logical_not"]
COMPARE = ["__lt__", "__le__", "__eq__", "__ne__", "__gt__", "__ge__"]
SUPPORTED = {
    "NumericMemField": ARITH10 + MODDIV + BITWISE + COMPARE, "NumericField": ARITH10 + MODDIV + BITWISE + COMPARE,
    "TimestampMemField": ARITH10 + MODDIV + COMPARE, "TimestampField": ARITH10 + MODDIV + COMPARE,
    "CategoricalMemField": ARITH10 + COMPARE, "CategoricalField": ARITH10 + COMPARE,
}
SYNTAX = {
    "__add__": lambda f, o: f + o, "__radd__": lambda f, o: o + f, "__sub__": lambda f, o: f - o, "__rsub__": lambda f, o: o - f,
    "__mul__": lambda f, o: f * o, "__rmul__": lambda f, o: o * f, "__truediv__": lambda f, o: f / o,
    "__rtruediv__": lambda f, o: o / f, "__floordiv__": lambda f, o: f // o, "__rfloordiv__": lambda f, o: o // f,
    "__mod__": lambda f, o: f % o, "__rmod__": lambda f, o: o % f, "__divmod__": lambda f, o: divmod(f, o),
    "__rdivmod__": lambda f, o: divmod(o, f), "__and__": lambda f, o: f & o, "__rand__": lambda f, o: o & f,
    "__xor__": lambda f, o: f ^ o, "__rxor__": lambda f, o: o ^ f, "__or__": lambda f, o: f | o, "__ror__": lambda f, o: o | f,
    "__lt__": lambda f, o: f < o, "__le__": lambda f, o: f <= o, "__eq__": lambda f, o: f == o, "__ne__": lambda f, o: f != o,
    "__gt__": lambda f, o: f > o, "__ge__": lambda f, o: f >= o, "__invert__": lambda f, o: ~f,
    "logical_not": lambda f, o: f.logical_not(),
}
INT_DTYPES = ["int8", "uint8", "int16", "int32", "uint32", "int64"]
DATASETS = {"mixed": [3, -7, 0, 12, -1, 5], "pos": [1, 2, 3, 4, 5, 6], "empty": [], "zeros": [0, 0, 0, 0, 0, 0]}


def self_dtypes(cls):
    if cls.startswith("Numeric"):
        return ["int32", "int64", "uint8", "bool", "float32", "float64", "int8", "uint32"]
    if cls.startswith("Timestamp"):
        return ["float64"]
    return ["int8"]


def other_dtypes(d):
    if d in BITWISE:
        return ["int32", "bool", "uint8", "int64"]
    return ["int32", "int64", "float64", "uint8", "bool", "float32", "int16"]


def gen_cases(tier, rng):
    from checks import corpus
    cases = list(corpus.load("C13"))
    allc = []
    n = 0
    for cls, ds in SUPPORTED.items():
        for d in ds:
            unary = d in ("__invert__", "logical_not")
            for sd in self_dtypes(cls):
                if d in BITWISE and sd.startswith("float"):
                    continue
                for kind in (["none"] if unary else ["field", "array", "scalar", "pyint", "pyfloat"]):
                    for od in (["int32"] if unary else other_dtypes(d)):
                        for sname in ("mixed", "empty", "pos"):
                            for oname in (["mixed"] if unary else ["mixed", "pos"]):
                                if sname == "empty" and oname != "mixed":
                                    continue
                                n += 1
                                allc.append({"op": "c13_resolve", "cls": cls, "dunder": d, "sdtype": sd, "odtype": od,
                                             "kind": kind, "self": sname, "other": oname, "inf": n % 7 == 0,
                                             "setitem": n % 11 == 0, "_n": n})
    if tier == "quick":
        # stratified seeded sample: every (class, operator) at least twice
        by = {}
        for c in allc:
            by.setdefault((c["cls"], c["dunder"]), []).append(c)
        for k in sorted(by):
            cases.extend(rng.sample(by[k], min(len(by[k]), 6)))
    else:
        cases.extend(allc)
    return cases


# ---------------------------------------------------------------------------------------------------------------
_S = {}


def _env():
    if not _S:
        import io
        import numpy as np
        import h5py  # noqa
        from exetera.core import fields
        from exetera.core.session import Session
        s = Session()
        ds = s.open_dataset(io.BytesIO(), "w", "ds")
        _S.update(np=np, fields=fields, s=s, ds=ds, k=0)
    return _S


def arr(np, name, dtype, inf=False):
    xs = DATASETS[name]
    if dtype == "bool":
        a = np.array([x % 2 == 1 for x in xs], dtype=bool)
    elif dtype.startswith("uint"):
        a = np.array([abs(x) for x in xs], dtype=dtype)
    else:
        a = np.array(xs, dtype=dtype)
    if inf and dtype.startswith("float") and len(a):
        a[0] = np.inf
        a[-1] = -np.inf
    return a


def make_self(e, case, data):
    np, fields, s = e["np"], e["fields"], e["s"]
    cls = case["cls"]
    e["k"] += 1
    if cls.endswith("MemField"):
        if cls == "NumericMemField":
            f = fields.NumericMemField(s, case["sdtype"])
        elif cls == "TimestampMemField":
            f = fields.TimestampMemField(s)
        else:
            f = fields.CategoricalMemField(s, "int8", {"a": 0, "b": 1})
        f.data.write(data)
        return f, None
    df = e["ds"].create_dataframe(f"df{e['k']}")
    if cls == "NumericField":
        f = df.create_numeric("x", case["sdtype"])
    elif cls == "TimestampField":
        f = df.create_timestamp("x")
    else:
        f = df.create_categorical("x", "int8", {"a": 0, "b": 1})
    f.data.write(data)
    return f, df


def tohex(a):
    return a.tobytes().hex()


def impl(case):
    import warnings
    warnings.simplefilter("ignore")
    e = _env()
    np, fields, s = e["np"], e["fields"], e["s"]
    sdata = arr(np, case["self"], case["sdtype"], case.get("inf"))
    if len(sdata) == 0:
        odata = arr(np, "empty", case["odtype"])
    else:
        odata = arr(np, case["other"], case["odtype"], case.get("inf"))
    f, df = make_self(e, case, sdata)
    kind = case["kind"]
    if kind == "field":
        other = fields.NumericMemField(s, case["odtype"])
        other.data.write(odata)
        other_raw = odata
    elif kind == "array":
        other = odata.copy()
        other_raw = odata
    elif kind == "scalar":
        other = odata.dtype.type(odata[1]) if len(odata) > 1 else odata.dtype.type(3)
        other_raw = other
    elif kind == "pyint":      # a plain Python int: numpy treats it as a weak scalar (no promotion of narrow dtypes)
        other = [10, -7, 3][case.get("_n", 0) % 3]
        other_raw = other
    elif kind == "pyfloat":
        other = [2.5, -0.5][case.get("_n", 0) % 2]
        other_raw = other
    else:
        other, other_raw = None, None
    with np.errstate(all="ignore"):
        got = SYNTAX[case["dunder"]](f, other)
    gots = list(got) if isinstance(got, tuple) else [got]
    out = {"res": [{"dtype": str(g.data[:].dtype), "data": tohex(g.data[:]), "cls": type(g).__name__,
                    "n": len(g.data[:])} for g in gots]}
    out["self_unchanged"] = tohex(f.data[:]) == tohex(sdata) and str(f.data[:].dtype) == str(sdata.dtype) or len(sdata) == 0
    if kind == "field":
        out["other_unchanged"] = tohex(other.data[:]) == tohex(odata)
    elif kind == "array":
        out["other_unchanged"] = tohex(other) == tohex(odata)
    else:
        out["other_unchanged"] = True
    out["sdata"], out["odata"] = tohex(sdata), (tohex(np.asarray(other_raw)) if other_raw is not None else None)
    out["sdt"], out["odt"] = str(sdata.dtype), (str(np.asarray(other_raw).dtype) if other_raw is not None else None)
    out["scalar"] = kind == "scalar"
    out["py"] = other_raw if kind in ("pyint", "pyfloat") else None
    if case.get("setitem") and df is not None:
        df["r"] = gots[0]
        out["stored"] = {"dtype": str(df["r"].data[:].dtype), "data": tohex(df["r"].data[:])}
    return out


NP_SYMS = {"operator.add": operator.add, "operator.sub": operator.sub, "operator.mul": operator.mul,
           "operator.truediv": operator.truediv, "operator.floordiv": operator.floordiv, "operator.mod": operator.mod,
           "operator.and_": operator.and_, "operator.xor": operator.xor, "operator.or_": operator.or_,
           "operator.invert": operator.invert, "operator.lt": operator.lt, "operator.le": operator.le,
           "operator.eq": operator.eq, "operator.ne": operator.ne, "operator.gt": operator.gt, "operator.ge": operator.ge}


def numpy_apply(io, sym, order):
    import numpy as np
    import warnings
    warnings.simplefilter("ignore")
    a = np.frombuffer(bytes.fromhex(io["sdata"]), dtype=io["sdt"])
    if io.get("py") is not None:
        b = io["py"]
    elif io["odata"] is not None:
        b = np.frombuffer(bytes.fromhex(io["odata"]), dtype=io["odt"])
        if io["scalar"]:
            b = b[0]
    else:
        b = None
    args = [a if k == 0 else b for k in order]
    mod, _, name = sym.partition(".")
    fn = getattr(np if mod == "np" else operator, name)     # whatever symbol the regenerated table names
    with np.errstate(all="ignore"):
        r = fn(*args)
    rs = list(r) if isinstance(r, tuple) else [r]
    return [{"dtype": str(np.asarray(x).dtype), "data": np.asarray(x).tobytes().hex()} for x in rs]


SPEC = {}
for _d, _sym in [("add", "operator.add"), ("sub", "operator.sub"), ("mul", "operator.mul"), ("truediv", "operator.truediv"),
                 ("floordiv", "operator.floordiv"), ("mod", "operator.mod"), ("divmod", "np.divmod"), ("and", "operator.and_"),
                 ("xor", "operator.xor"), ("or", "operator.or_")]:
    SPEC[f"__{_d}__"] = (_sym, [0, 1])
    SPEC[f"__r{_d}__"] = (_sym, [1, 0])
for _d in ["lt", "le", "eq", "ne", "gt", "ge"]:
    SPEC[f"__{_d}__"] = ("operator." + _d, [0, 1])
SPEC["__invert__"] = ("operator.invert", [0])
SPEC["logical_not"] = ("np.logical_not", [0])


def same(res, want):
    return len(res) == len(want) and all(r["dtype"] == w["dtype"] and r["data"] == w["data"] for r, w in zip(res, want))


def numpy_outcome(case, io, sym, order):
    """numpy's own result on the underlying arrays: ('ok', results) or ('err', error tag)"""
    try:
        return "ok", numpy_apply(io, sym, order)
    except OverflowError:
        return "err", "overflow_error"
    except TypeError:
        return "err", "type_error"
    except ValueError:
        return "err", "value_error"


def operands_of(case):
    """the operands as the worker built them (needed when the field operator raised and returned no operand dump)"""
    import numpy as np
    sdata = arr(np, case["self"], case["sdtype"], case.get("inf"))
    odata = arr(np, "empty" if len(sdata) == 0 else case["other"], case["odtype"], case.get("inf"))
    io = {"sdata": tohex(sdata), "sdt": str(sdata.dtype), "scalar": case["kind"] == "scalar", "py": None,
          "odata": None, "odt": None}
    k = case["kind"]
    if k in ("field", "array"):
        io["odata"], io["odt"] = tohex(odata), str(odata.dtype)
    elif k == "scalar":
        o = odata.dtype.type(odata[1]) if len(odata) > 1 else odata.dtype.type(3)
        io["odata"], io["odt"] = tohex(np.asarray(o)), str(np.asarray(o).dtype)
    elif k == "pyint":
        io["py"] = [10, -7, 3][case.get("_n", 0) % 3]
    elif k == "pyfloat":
        io["py"] = [2.5, -0.5][case.get("_n", 0) % 2]
    return io


def check_spec(case, io, mode):
    sym, order = SPEC[case["dunder"]]
    if "err" in io:
        kind, res = numpy_outcome(case, operands_of(case), sym, order)
        if kind == "err" and res == io["err"]:
            return None          # numpy rejects this operand pair in the same way: the field operator must too
        return f"operator raised {io['err']}: {io.get('msg')} (numpy: {kind} {res if kind == 'err' else ''})"
    kind, want = numpy_outcome(case, io, sym, order)
    if kind == "err":
        return f"numpy raises {want} but the field operator returned a value"
    if not same(io["res"], want):
        return f"result differs from numpy {sym}{order}: got {io['res']} want {want}"
    if any(r["cls"] != "NumericMemField" for r in io["res"]):
        return f"result is not a new in-memory numeric field: {[r['cls'] for r in io['res']]}"
    if not io["self_unchanged"] or not io["other_unchanged"]:
        return "an operand was modified"
    if "stored" in io and (io["stored"]["dtype"] != want[0]["dtype"] or io["stored"]["data"] != want[0]["data"]):
        return "df['r'] = result stored different values"
    return None


def compare(case, io, mo, mode):
    if "err" in mo:
        return None if "err" in io else f"model: {mo['err']}, impl returned a value"
    sym, order = mo["ok"]["sym"], mo["ok"]["ord"]
    if "err" in io:
        kind, res = numpy_outcome(case, operands_of(case), sym, order)
        return None if (kind == "err" and res == io["err"]) else f"impl raised {io['err']} ({io.get('msg')}), model-resolved numpy call: {kind}"
    kind, want = numpy_outcome(case, io, sym, order)
    if kind == "err":
        return f"model-resolved numpy call raises {want}, impl returned a value"
    return None if same(io["res"], want) else f"impl {io['res']} vs model-resolved {mo['ok']} -> {want}"


def to_model(case):
    return {"op": "c13_resolve", "cls": case["cls"], "dunder": case["dunder"]}


def nontrivial(case, mo):
    return case["self"] != "empty"


def classify(case, mo):
    return [case["cls"], case["dunder"], "kind:" + case["kind"]]


def select_for_mode(case, mode, tier):
    return case.get("_n", 0) % 9 == 0
