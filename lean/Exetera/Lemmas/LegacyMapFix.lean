import Exetera.Model.LegacyMapFix
import Exetera.Lemmas.WhileFuel
import Exetera.Lemmas.MapValidBasic
/-! C12, `ordered_map_valid_stream_old` with NC12a repaired: on EVERY input (any map — in range or not, ordered or not) and
    every chunk size ≥ 1 the run ends in `.ok` or in an error other than `outOfFuel`, within the budget `|map| + |data| + 1`. -/
namespace Exetera.JoinOld.Term
open Exetera

theorem partialOldMapFrom_not_fuel {α} (d : Nat) (dfc : List α) (inv : Int) (zero : α) (cap : Nat) :
    ∀ (vs : List Int) (acc : List α) (last : Int) (e : Err),
      partialOldMapFrom d dfc inv zero cap vs acc last = .error e → e ≠ .outOfFuel := by
  intro vs
  induction vs with
  | nil => intro acc last e h; simp [partialOldMapFrom] at h
  | cons v vs ih =>
    intro acc last e h
    unfold partialOldMapFrom at h
    split at h
    · split at h
      · cases h
      · split at h
        · rename_i e' hg
          simp only [Except.error.injEq] at h
          subst h
          unfold MapValid.getI at hg
          split at hg
          · unfold getE at hg; split at hg <;> simp at hg; subst hg; simp
          · split at hg
            · unfold getE at hg; split at hg <;> simp at hg; subst hg; simp
            · simp at hg; subst hg; simp
        · split at h
          · exact ih _ _ _ h
          · simp only [Except.error.injEq] at h; subst h; simp
    · exact ih _ _ _ h

theorem partialOldMap_not_fuel {α} (d : Nat) (dfc : List α) (mfc : List Int) (inv : Int) (zero : α) (cap : Nat) (e : Err)
    (h : partialOldMap d dfc mfc inv zero cap = .error e) : e ≠ .outOfFuel := by
  unfold partialOldMap at h
  split at h
  · simp only [Except.error.injEq] at h; subst h; simp
  · exact partialOldMapFrom_not_fuel d dfc inv zero cap _ _ _ e h

/-- the measure of the driver loop: map rows left plus source rows beyond the chunk generator's position -/
def mapMu {α} (data : List α) (map_ : List Int) (s : MO α) : Nat := (map_.length - s.m) + (data.length - s.dcur)

/-- one iteration of the repaired driver: an error other than `outOfFuel`, or `.ok` with a strictly smaller measure -/
theorem mapOldBodyR_step {α} (data : List α) (map_ : List Int) (inv : Int) (cs : Nat) (zero : α) (hcs : 1 ≤ cs) (s : MO α)
    (hg : s.m < map_.length) :
    (∃ s', mapOldBodyR data map_ inv cs zero s = .ok s' ∧ mapMu data map_ s' < mapMu data map_ s) ∨
    (∃ e, mapOldBodyR data map_ inv cs zero s = .error e ∧ e ≠ .outOfFuel ∧ 0 < mapMu data map_ s) := by
  have hpos : 0 < mapMu data map_ s := by unfold mapMu; omega
  unfold mapOldBodyR
  cases hp : partialOldMap s.dlo s.dfc s.mfc inv zero cs with
  | error e => exact Or.inr ⟨e, rfl, partialOldMap_not_fuel _ _ _ _ _ _ e hp, hpos⟩
  | ok r =>
    obtain ⟨buf, dd⟩ := r
    simp only []
    split
    · exact Or.inr ⟨_, rfl, by simp, hpos⟩
    · rename_i hprog
      simp only [Bool.and_eq_true, beq_iff_eq, Bool.not_eq_true', not_and, Bool.not_eq_false] at hprog
      simp only [mapOldBody, hp]
      -- the two refills
      cases hm : (if (s.m + buf.length == s.mhi && decide (s.m + buf.length < map_.length)) = true then
          match nextRange s.mcur map_.length cs with
          | some rg => (Except.ok (rg.2, rg.2, slice map_ rg.1 rg.2) : Except Err (Nat × Nat × List Int))
          | none => Except.error (Err.other "StopIteration")
        else Except.ok (s.mcur, s.mhi, s.mfc.drop buf.length)) with
      | error e =>
        refine Or.inr ⟨e, ?_, ?_, hpos⟩
        · simp only []
        · split at hm
          · split at hm
            · cases hm
            · simp only [Except.error.injEq] at hm; subst hm; simp
          · cases hm
      | ok a =>
        by_cases hf : (decide (dd ≥ (s.dhi : Int)) && decide (dd < (data.length : Int))) = true
        · -- a new data chunk is fetched
          cases hn : nextRange s.dcur data.length cs with
          | none =>
            refine Or.inr ⟨.other "StopIteration", ?_, by simp, hpos⟩
            simp only [hf, if_true, hn]
          | some rg =>
            have hlt : s.dcur < data.length ∧ rg = (s.dcur, min data.length (s.dcur + cs)) := by
              unfold nextRange at hn
              split at hn
              · simp only [Option.some.injEq] at hn; exact ⟨by assumption, hn.symm⟩
              · cases hn
            refine Or.inl ⟨_, by simp only [hf, if_true, hn]; rfl, ?_⟩
            obtain ⟨h1, h2⟩ := hlt
            subst h2
            simp only [mapMu]
            omega
        · -- no fetch: a map entry was consumed
          have hbl : 0 < buf.length := by
            rcases Nat.eq_zero_or_pos buf.length with h0 | h0
            · have := hprog h0
              simp only [Bool.and_eq_true, decide_eq_true_eq] at this hf
              exact absurd this hf
            · exact h0
          refine Or.inl ⟨_, by simp only [hf, Bool.false_eq_true, if_false]; rfl, ?_⟩
          simp only [mapMu]
          omega

end Exetera.JoinOld.Term

namespace Exetera.JoinOld.Term
open Exetera

/-- **the repaired legacy map stream never runs out of fuel**: every input, every chunk size ≥ 1 -/
theorem mapValidStreamOldR_not_fuel {α} (data : List α) (map_ : List Int) (inv : Int) (cs : Nat) (zero : α) (hcs : 1 ≤ cs) :
    mapValidStreamOldR data map_ inv cs zero ≠ .error .outOfFuel := by
  have h := MapValid.whileE_rule_err (fun s : MO α => decide (s.m < map_.length)) (mapOldBodyR data map_ inv cs zero)
    (fun _ => True) (fun e => e ≠ .outOfFuel) (mapMu data map_)
    (by
      intro s _ hg
      simp only [decide_eq_true_eq] at hg
      rcases mapOldBodyR_step data map_ inv cs zero hcs s hg with ⟨s', h1, h2⟩ | ⟨e, h1, h2, h3⟩
      · exact Or.inl ⟨s', h1, trivial, h2⟩
      · exact Or.inr ⟨e, h1, h2, h3⟩)
    (map_.length + data.length + 1)
    { dcur := ((nextRange 0 data.length cs).getD (0, 0)).2, dlo := ((nextRange 0 data.length cs).getD (0, 0)).1,
      dhi := ((nextRange 0 data.length cs).getD (0, 0)).2, mcur := ((nextRange 0 map_.length cs).getD (0, 0)).2,
      mhi := ((nextRange 0 map_.length cs).getD (0, 0)).2,
      dfc := slice data ((nextRange 0 data.length cs).getD (0, 0)).1 ((nextRange 0 data.length cs).getD (0, 0)).2,
      mfc := slice map_ ((nextRange 0 map_.length cs).getD (0, 0)).1 ((nextRange 0 map_.length cs).getD (0, 0)).2 }
    trivial (by simp only [mapMu]; omega)
  rcases h with ⟨s', hrun, _, _⟩ | ⟨e, hrun, he⟩
  · simp only [mapValidStreamOldR, hrun]
    intro h'; cases h'
  · simp only [mapValidStreamOldR, hrun]
    intro h'
    simp only [Except.error.injEq] at h'
    exact he h'

end Exetera.JoinOld.Term
