#!/usr/bin/env python3
"""Source-to-Lean translator for compiled kernels (`@exetera_njit` functions of exetera/core/operations.py).

Run as a plug-in of tools/translate.py (`run(repo, out)`) on EVERY check run; writes lean/Exetera/Gen/Kernels.lean.
For each kernel of WHITELIST it parses the CURRENT source with `ast` and emits an executable Lean definition that is a
mechanical rendering of the Python body.  The theorems of Lemmas/GenKernels*.lean / Props/*Gen.lean are stated about
these generated definitions, so `lake build` re-checks them against what the code says now.

DESIGN DECISION: a SHALLOW embedding.
  A deep embedding (an AST datatype + an interpreter in Lean) would make the translator trivial but every proof would
  go through the interpreter's big-step relation.  Instead each kernel becomes ordinary Lean code in the framework's own
  conventions (Model/Basic.lean, Model/PyRt.lean), which the existing proof machinery (`whileE_rule`, `simp`, `omega`,
  structural induction on the trip count) applies to directly:

    namespace <kernel>
      structure St            one field per parameter and local (Int / Bool / List Int / List Bool), one `brk<k>` flag
                              per loop that contains `break`, one `<v>_def` flag per local that Python may read unbound
      def guard_L<k>          `St → Bool` of `while` loop k (conjunct for conjunct as written; `St → Except Err Bool`,
                              named guardE_L<k>, when the condition contains a subscript)
      def body_L<k>           `St → Except Err St`: one iteration of loop k (a `for` body receives the loop variable already
                              stored in the state)
      def run                 parameters (→ fuel, when the kernel has a `while`) → Except Err <result>
    end <kernel>

  Statements are rendered in state-passing style: `let s := { s with v := e }`, fallible sub-expressions (subscripts,
  `np.zeros`, `//`, …) are bound first, in Python's evaluation order, with `bindE`; `if/elif/else` is a Lean `if` whose
  value is the state; `for k in range(a, b)` is `forRangeE a b (fun k s => body_L { s with v := k }) s` (a fold over the
  range, bounds evaluated once); `while` is `whileE guard body fuel s`; `break` raises the loop's flag, the rest of every
  enclosing block is skipped under `if s.brk then .ok s else …`, and the loop stops on the flag; `raise IndexError` /
  `ValueError` are `.error`; `return` is only accepted as the last statement.

  Independence of layout: comments, blank lines and docstrings never reach the output (only doc comments, which Lean
  ignores, quote the loop headers).  Parameters are renamed p0, p1, … and locals v0, v1, … in order of first binding, and
  subscript sites are named after the renamed expression, so a consistent renaming of variables regenerates the identical
  file.  Everything else (operators, constants, order of statements, loop bounds, subscripts) is rendered as written.

  Anything outside the supported subset raises `Unsupported` for THAT kernel: its definitions are then left out of the
  generated file and out of `dispatch`, a `TRANSLATE-NJIT-FAIL` line is printed, and the theorems about it (and the driver
  op for it) no longer check — a broken tie of the owning property, never a silent approximation.

See tools/translate_njit.md for the supported subset, the trusted base and the list of tied kernels."""
import argparse
import ast
import sys
from pathlib import Path

SRC = "exetera/core/operations.py"

# kernel -> positional parameter types (the Python source is untyped; numba infers these from the call sites).
#   int | bool | arr (integer array / typed list) | barr (boolean array) | opt_arr (array or None) |
#   arr2 (2-D integer array: the list of its rows; `a[k]` is row k, `for row in a`, `len(a)` the number of rows)
#   oarr (KT4B: an array / typed list or None, tested with `is None` / `is not None` ANYWHERE: a value and a presence flag, like
#         opt_int; a typed list of arrays is an arr2)
#   arr2w (a 2-D integer array whose subscripts follow numpy's WRAP-AROUND of a negative index, `-len ≤ i < 0` is `len + i`:
#          `fast_csv_reader` reads `column_inds[col_index, -1]` while it is on the header line)
#   str (a Python str; only `==` / `!=` against string literals)
WHITELIST = [
    ("apply_spans_count", ["arr", "opt_arr"]),
    ("apply_spans_first", ["arr", "arr", "opt_arr"]),
    ("apply_spans_last", ["arr", "arr", "opt_arr"]),
    ("apply_spans_max", ["arr", "arr", "opt_arr"]),
    ("apply_spans_min", ["arr", "arr", "opt_arr"]),
    ("apply_spans_index_of_first", ["arr", "opt_arr"]),
    ("apply_spans_index_of_last", ["arr", "opt_arr"]),
    ("apply_spans_index_of_min", ["arr", "arr", "opt_arr"]),
    ("apply_spans_index_of_max", ["arr", "arr", "opt_arr"]),
    ("_get_spans_for_2_fields_by_spans", ["arr", "arr"]),
    ("apply_filter_to_index_values", ["barr", "arr", "arr"]),
    ("apply_indices_to_index_values", ["arr", "arr", "arr"]),
    ("next_map_subchunk", ["arr", "int", "int", "int"]),
    ("get_valid_value_extents", ["arr", "int", "int", "int"]),
    ("map_valid", ["arr", "arr", "opt_arr", "int"]),
    ("ordered_map_valid_partial", ["arr", "arr", "int", "int", "int", "arr", "int", "int"]),
    ("generate_ordered_map_to_left_both_unique_partial", ["arr", "arr", "arr", "int", "int", "int", "int", "int"]),
    ("generate_ordered_map_to_left_remaining", ["int", "arr", "arr", "int", "int", "int", "int"]),
    ("generate_ordered_map_to_left_right_unique_remaining", ["int", "arr", "int", "int", "int"]),
    ("generate_ordered_map_to_left_partial", ["arr", "int", "arr", "int", "arr", "arr"] + ["int"] * 10 + ["bool"]),
    ("generate_ordered_map_to_left_left_unique_partial", ["arr", "arr", "int", "arr", "arr"] + ["int"] * 6),
    ("generate_ordered_map_to_left_right_unique_partial", ["arr", "int", "arr", "arr"] + ["int"] * 5),
    ("generate_ordered_map_to_inner_partial", ["arr", "int", "arr", "int", "arr", "arr"] + ["int"] * 9 + ["bool"]),
    ("generate_ordered_map_to_inner_left_unique_partial", ["arr", "int", "arr", "int", "arr", "arr"] + ["int"] * 5),
    ("generate_ordered_map_to_inner_right_unique_partial", ["arr", "int", "arr", "int", "arr", "arr"] + ["int"] * 5),
    ("generate_ordered_map_to_inner_both_unique_partial", ["arr", "int", "arr", "int", "arr", "arr"] + ["int"] * 5),
    ("apply_spans_index_of_first_filter", ["arr", "arr", "barr"]),
    ("apply_spans_index_of_last_filter", ["arr", "arr", "barr"]),
    ("apply_spans_index_of_min_filter", ["arr", "arr", "arr", "barr"]),
    ("apply_spans_index_of_max_filter", ["arr", "arr", "arr", "barr"]),
    ("_get_spans_for_2_fields_njit", ["arr", "arr", "arr"]),
    ("_get_spans_for_multi_fields_njit", ["arr2", "arr"]),
    ("_get_spans_for_index_string_field", ["arr", "arr"]),
    ("compare_rows_for_journalling", ["arr", "arr", "arr", "arr", "barr"]),
    ("generate_ordered_map_to_left_both_unique", ["arr", "arr", "arr", "int"]),
    ("generate_ordered_map_to_left_right_unique", ["arr", "arr", "arr", "int"]),
    ("ordered_inner_map_both_unique", ["arr", "arr", "arr", "arr"]),
    ("apply_spans_index_of_min_indexed", ["arr", "arr", "arr", "opt_arr"]),
    ("apply_spans_index_of_max_indexed", ["arr", "arr", "arr", "opt_arr"]),
    ("merge_journalled_entries", ["arr", "arr", "barr", "arr", "arr", "arr"]),
    ("merge_indexed_journalled_entries_count", ["arr", "arr", "barr", "arr", "arr"]),
    ("compare_indexed_rows_for_journalling", ["arr", "arr", "arr", "arr", "arr", "arr", "barr"]),
    ("categorical_transform", ["arr", "int", "arr2", "arr", "arr", "arr", "arr", "arr"]),
    ("leaky_categorical_transform", ["arr", "arr", "arr", "int", "arr2", "arr", "arr", "arr", "arr", "arr"]),
    ("fixed_string_transform", ["arr2", "arr", "arr", "int", "int", "int", "arr"]),
    ("merge_indexed_journalled_entries", ["arr", "arr", "barr", "arr", "arr", "arr", "arr", "arr", "arr"]),
    ("ordered_map_valid_indexed_partial", ["arr", "int", "int", "arr", "int", "int", "arr", "int", "arr", "arr"] + ["int"] * 5),
    ("_apply_spans_concat_2", ["arr", "arr", "arr", "arr", "arr"] + ["int"] * 6),
    ("ordered_inner_map_result_size", ["arr", "arr"]),
    ("compare_arrays", ["arr", "arr"]),
    ("safe_map_values", ["arr", "arr", "barr", "opt_int"]),
    ("ordered_inner_map_left_unique", ["arr", "arr", "arr", "arr"]),
    ("ordered_inner_map", ["arr", "arr", "arr", "arr"]),
    # KT4C
    ("generate_ordered_map_to_left_right_unique_partial_old", ["int", "arr", "arr", "arr", "int"]),
    ("ordered_map_valid_partial_old", ["int", "arr", "arr", "arr", "int"]),
    ("ordered_left_map_result_size", ["arr", "arr"]),
    ("ordered_outer_map_result_size_both_unique", ["arr", "arr"]),
    ("ordered_inner_map_left_unique_partial", ["int", "int", "arr", "arr", "arr", "arr"]),
    ("ordered_get_last_as_filter", ["arr"]),
    ("chunks", ["int", "int"]),
    ("streaming_sort_partial", ["arr", "arr", "arr2", "arr2", "arr", "arr"]),
    # KT4B
    ("ordered_generate_journalling_indices", ["arr", "arr"]),
    ("get_indexed_string_unique", ["arr", "arr", "arr2", "oarr", "oarr", "oarr"]),
    ("isin_indexed_string_speedup", ["arr2", "arr", "arr"]),
    ("safe_map_indexed_values", ["arr", "arr", "arr", "barr", "oarr"]),
    # KT4A  (a third component gives per-kernel options: "src" = the source file of the kernel when it is not SRC)
    ("fast_csv_reader", ["arr", "int", "arr2w", "arr", "arr", "bool", "int", "int", "int", "int"],
     {"src": "exetera/core/csv_reader_speedup.py"}),
    ("transform_to_values", ["arr2", "arr", "arr", "int", "int"]),
    # elements / validity are the bool arrays NumericImporter.import_part allocates (np.zeros(n, 'bool'), np.ones(n, bool)),
    # invalid_value its integer default (0), validation_mode a Python str, field_name the bytes of the name (a uint8 array)
    ("numeric_bool_transform", ["barr", "barr", "arr2", "arr", "arr", "int", "int", "int", "str", "arr"]),
]

LEAN_T = {"int": "Int", "bool": "Bool", "arr": "List Int", "barr": "List Bool", "opt_arr": "Option (List Int)",
          "arr2": "List (List Int)", "opt_int": "Option Int", "oarr": "Option (List Int)", "set": "List Int",
          "arr2w": "List (List Int)"}
DEFAULT = {"int": "0", "bool": "false", "arr": "[]", "barr": "[]", "arr2": "[]", "set": "[]", "arr2w": "[]"}
PRESENT = {"opt_int": "int", "oarr": "arr"}      # optional parameters carried as a value and a presence flag
TRANSLATED = {}                                  # kernels translated so far in this run (a later kernel may call them)
KT4A_KERNELS = ("fast_csv_reader", "transform_to_values", "numeric_bool_transform")   # rendered by the KT4A branches where two builders added the same syntax independently
ELEM = {"arr": "int", "barr": "bool", "arr2": "arr"}        # arr2: a 2-D integer array, passed as the list of its rows
ELEM["arr2w"] = "arr"
LEAN_T["str"] = "String"        # a Python str parameter: only compared (`==` / `!=`) with string literals
DEFAULT["str"] = '""'           # (a local bound to a string literal: its slot before the binding)


class Unsupported(Exception):
    pass


class Untyped(Exception):
    """raised during type inference when an expression mentions a local whose type is not known yet"""


def lean_str(s):
    return '"' + s.replace("\\", "\\\\").replace('"', '\\"') + '"'


def ind(text, k):
    pad = " " * k
    return "\n".join(pad + ln if ln else ln for ln in text.split("\n"))


def is_njit(fn):
    for d in fn.decorator_list:
        name = d.func if isinstance(d, ast.Call) else d
        if ast.unparse(name).split(".")[-1] in ("exetera_njit", "njit", "jit"):
            return True
    return False


def ordered_nodes(node):
    """all nodes below `node` in source order (depth first, fields in declaration order)"""
    yield node
    for c in ast.iter_child_nodes(node):
        yield from ordered_nodes(c)


def strip_doc(body):
    if body and isinstance(body[0], ast.Expr) and isinstance(body[0].value, ast.Constant) and isinstance(body[0].value.value, str):
        return body[1:]
    return body


def is_none(n):
    return isinstance(n, ast.Constant) and n.value is None


def drop_message_strings(body):
    """`msg = "text"` whose only uses are the arguments of `raise …(msg)` carries no behaviour: drop the assignment"""
    strs = set()
    for b in body:
        for n in ordered_nodes(b):
            if isinstance(n, ast.Assign) and len(n.targets) == 1 and isinstance(n.targets[0], ast.Name) and \
                    isinstance(n.value, ast.Constant) and isinstance(n.value.value, str):
                strs.add(n.targets[0].id)
    in_raise = set()
    for b in body:
        for n in ordered_nodes(b):
            if isinstance(n, ast.Raise):
                in_raise |= {id(m) for m in ordered_nodes(n)}
    for b in body:
        for n in ordered_nodes(b):
            if isinstance(n, ast.Name) and n.id in strs and id(n) not in in_raise and isinstance(n.ctx, ast.Load):
                strs.discard(n.id)
            if isinstance(n, ast.Assign) and any(isinstance(t, ast.Name) and t.id in strs for t in n.targets) and \
                    not (isinstance(n.value, ast.Constant) and isinstance(n.value.value, str)):
                strs.discard(n.targets[0].id)

    def strip(stmts):
        out = []
        for st in stmts:
            if isinstance(st, ast.Assign) and len(st.targets) == 1 and isinstance(st.targets[0], ast.Name) and \
                    st.targets[0].id in strs:
                continue
            for f in ("body", "orelse"):
                if hasattr(st, f) and isinstance(getattr(st, f), list):
                    setattr(st, f, strip(getattr(st, f)) or ([ast.Pass()] if f == "body" else []))
            out.append(st)
        return out
    return strip(body)


def rewrite_continue(stmts, in_loop=False):
    """`if c: A; continue` directly in a loop body, followed by `rest`  ≡  `if c: A else: rest` (the only form of `continue`
    that is accepted; any other `continue` is rejected later by `number_loops`)"""
    out = []
    for k, st in enumerate(stmts):
        if isinstance(st, (ast.For, ast.While)):
            st.body = rewrite_continue(st.body, True)
        elif isinstance(st, ast.If):
            if in_loop and not st.orelse and st.body and isinstance(st.body[-1], ast.Continue) and \
                    not any(isinstance(n, (ast.Continue, ast.Break)) for b in st.body[:-1] for n in ordered_nodes(b)):
                st.body = rewrite_continue(st.body[:-1], False) or [ast.Pass()]
                st.orelse = rewrite_continue(stmts[k + 1:], in_loop)
                out.append(st)
                return out
            st.body = rewrite_continue(st.body, False)
            st.orelse = rewrite_continue(st.orelse, False)
        out.append(st)
    return out


class Kernel:
    def __init__(self, fn, ptypes):
        self.fn = fn
        self.name = fn.name
        a = fn.args
        if a.vararg or a.kwarg or a.kwonlyargs or a.posonlyargs:
            raise Unsupported("parameter list with * / ** / keyword-only parameters")
        self.src_params = [x.arg for x in a.args]
        if len(self.src_params) != len(ptypes):
            raise Unsupported(f"{len(self.src_params)} parameters in the source, {len(ptypes)} in the whitelist")
        for d in a.defaults:
            if not (isinstance(d, ast.Constant) or (isinstance(d, ast.UnaryOp) and isinstance(d.operand, ast.Constant))) and \
                    not (isinstance(d, ast.BinOp) and isinstance(d.left, ast.Constant) and isinstance(d.right, ast.Constant)):
                raise Unsupported("non-constant default value")
        self.ptypes = list(ptypes)
        self.body = rewrite_continue(drop_message_strings(strip_doc(fn.body)))
        self.rename()
        self.env = {f"p{k}": ({"opt_arr": "arr", "opt_int": "int", "oarr": "arr"}.get(t, t)) for k, t in enumerate(ptypes)}
        self.opt = {f"p{k}" for k, t in enumerate(ptypes) if t == "opt_arr"}    # optional parameters (static)
        # optional scalars (`x=None`, tested with `x is None` / `x is not None` anywhere): a value and a presence flag
        self.optint = {f"p{k}" for k, t in enumerate(ptypes) if t in PRESENT}
        self.loops = {}          # id(node) -> (k, has_break)
        self.number_loops()
        self.find_yields()
        self.find_mutated()
        self.flagged = set()
        self.tmp = 0
        self.defs = []
        self.ret_type = None
        self.arr2_locals = set()     # locals that are lists of arrays (`x = []` … `x.append(array)`)

    # ------------------------------------------------------------------------------------------------------------
    # canonical names
    # ------------------------------------------------------------------------------------------------------------
    def rename(self):
        names = {p: f"p{k}" for k, p in enumerate(self.src_params)}
        self.orig = {v: k for k, v in names.items()}
        nloc = 0
        for b in self.body:
            for n in ordered_nodes(b):
                if isinstance(n, (ast.FunctionDef, ast.Lambda, ast.ClassDef, ast.Global, ast.Nonlocal, ast.ListComp,
                                  ast.GeneratorExp, ast.DictComp, ast.SetComp, ast.NamedExpr, ast.With, ast.Try)):
                    raise Unsupported(type(n).__name__)
                if isinstance(n, ast.Name) and isinstance(n.ctx, ast.Store) and n.id not in names:
                    names[n.id] = f"v{nloc}"
                    self.orig[f"v{nloc}"] = n.id
                    nloc += 1
        self.locals = [f"v{k}" for k in range(nloc)]
        self.src_loop_text = {}
        for b in self.body:
            for n in ordered_nodes(b):
                if isinstance(n, ast.While):
                    self.src_loop_text[id(n)] = "while " + ast.unparse(n.test)
                elif isinstance(n, ast.For):
                    self.src_loop_text[id(n)] = "for " + ast.unparse(n.target) + " in " + ast.unparse(n.iter)
        for b in self.body:
            for n in ordered_nodes(b):
                if isinstance(n, ast.Name) and n.id in names:
                    n.id = names[n.id]

    def find_mutated(self):
        """array parameters the kernel stores into (`p[i] = …`, `p[a:b] = …`): the caller sees the stores, so their final
        contents are part of the result (appended to the returned value unless the parameter itself is returned)"""
        params = {f"p{k}" for k in range(len(self.ptypes))}
        stored, rebound = set(), set()
        for b in self.body:
            for n in ordered_nodes(b):
                if isinstance(n, ast.Subscript) and isinstance(n.ctx, ast.Store) and isinstance(n.value, ast.Name) \
                        and n.value.id in params:
                    stored.add(n.value.id)
                if isinstance(n, ast.Name) and isinstance(n.ctx, ast.Store) and n.id in params:
                    rebound.add(n.id)
                if isinstance(n, ast.Expr) and isinstance(n.value, ast.Call) and isinstance(n.value.func, ast.Attribute) \
                        and n.value.func.attr in ("append", "extend") and isinstance(n.value.func.value, ast.Name) \
                        and n.value.func.value.id in params:
                    stored.add(n.value.func.value.id)           # a typed-list parameter the kernel appends to
        rebound -= self.opt_params_static()
        if stored & rebound:
            raise Unsupported("store into a parameter that is also re-assigned")
        rets = [n.value for b in self.body for n in ordered_nodes(b) if isinstance(n, ast.Return) and n.value is not None]
        returned = None                     # parameters returned by name in EVERY return statement
        for ret in rets:
            names = {e.id for e in (ret.elts if isinstance(ret, ast.Tuple) else [ret]) if isinstance(e, ast.Name)}
            returned = names if returned is None else returned & names
        returned = returned or set()
        self.mutated = sorted((p for p in stored if p not in returned), key=lambda x: int(x[1:]))

    def find_yields(self):
        """a GENERATOR (`yield a, b` of integers as a statement): rendered as the function that returns the lists of the values
        yielded until exhaustion (one list per component, `y<j>`); exact for a generator without side effects, which is what the
        supported subset admits (no stores into parameters, no `return` with a value)"""
        ys = [n for b in self.body for n in ordered_nodes(b) if isinstance(n, (ast.Yield, ast.YieldFrom))]
        self.yield_n = None
        if not ys:
            return
        if any(isinstance(n, ast.YieldFrom) or n.value is None for n in ys):
            raise Unsupported("yield from / yield without a value")
        ns = {len(n.value.elts) if isinstance(n.value, ast.Tuple) else 1 for n in ys}
        if len(ns) != 1:
            raise Unsupported("yield statements of different arity")
        if any(isinstance(n, ast.Return) for b in self.body for n in ordered_nodes(b)):
            raise Unsupported("return in a generator")
        self.yield_n = ns.pop()
    def only_empty_init(self, v):
        """the local `v` is bound by `v = []` only (then the element type of the list is that of what is appended)"""
        if v not in self.locals:
            return False
        ok = False
        for b in self.body:
            for n in ordered_nodes(b):
                if isinstance(n, ast.Name) and n.id == v and isinstance(n.ctx, ast.Store):
                    ok = None if ok is None else True
                if isinstance(n, (ast.For, ast.AugAssign)) and isinstance(n.target, ast.Name) and n.target.id == v:
                    return False
                if isinstance(n, ast.Assign) and any(isinstance(t, ast.Name) and t.id == v for t in n.targets) and \
                        not (len(n.targets) == 1 and isinstance(n.value, ast.List) and not n.value.elts):
                    return False
        return bool(ok)

    def opt_params_static(self):
        return {f"p{k}" for k, t in enumerate(self.ptypes) if t == "opt_arr"}

    def number_loops(self):
        """loops[id(node)] = [k, has_break, contains a while, contains a `return` (at any depth), has a flagged `continue`]"""
        k = 0
        for b in self.body:
            for n in ordered_nodes(b):
                if isinstance(n, (ast.For, ast.While)):
                    k += 1
                    self.loops[id(n)] = [k, False, self.has_while(n.body), False, False]
                    if n.orelse:
                        raise Unsupported("loop with an else clause")

        def mark(stmts, stack):
            for st in stmts:
                if isinstance(st, ast.Break):
                    if not stack:
                        raise Unsupported("break outside a loop")
                    self.loops[id(stack[-1])][1] = True
                elif isinstance(st, ast.Continue):
                    # (the form `if c: …; continue` directly in a loop body was rewritten to if/else by `rewrite_continue`)
                    if not stack:
                        raise Unsupported("continue outside a loop")
                    self.loops[id(stack[-1])][4] = True
                elif isinstance(st, ast.Return):
                    for lp in stack:
                        self.loops[id(lp)][3] = True
                elif isinstance(st, (ast.For, ast.While)):
                    mark(st.body, stack + [st])
                elif isinstance(st, ast.If):
                    mark(st.body, stack)
                    mark(st.orelse, stack)
        mark(self.body, [])
        self.loop_return = any(v[3] for v in self.loops.values())

    def is_forever(self, st):
        """`while True:` without a `break` of its own and with a `return` inside"""
        return isinstance(st, ast.While) and isinstance(st.test, ast.Constant) and st.test.value is True and \
            not self.loops[id(st)][1] and self.loops[id(st)][3]

    @staticmethod
    def has_while(stmts):
        return any(isinstance(n, ast.While) for st in stmts for n in ordered_nodes(st))

    @staticmethod
    def may_break(st):
        """does executing `st` possibly raise the break flag of the loop it sits in?"""
        if isinstance(st, ast.Break):
            return True
        if isinstance(st, ast.If):
            return any(Kernel.may_break(x) for x in st.body + st.orelse)
        return False

    @staticmethod
    def may_continue(st):
        """does executing `st` possibly raise the continue flag of the loop it sits in?"""
        if isinstance(st, ast.Continue):
            return True
        if isinstance(st, ast.If):
            return any(Kernel.may_continue(x) for x in st.body + st.orelse)
        return False

    @staticmethod
    def may_return(st):
        """does `st` contain a `return` (at any depth, nested loops included)?"""
        return any(isinstance(n, ast.Return) for n in ordered_nodes(st))

    def skip_cond(self, st, loop):
        """the flags that, once `st` has run inside `loop`, make the rest of the enclosing block be skipped"""
        if loop is None:
            return []
        k = self.loops[id(loop)][0]
        return ([f"s.brk{k}"] if self.may_break(st) else []) + ([f"s.cnt{k}"] if self.may_continue(st) else []) + \
            (["s.ret"] if self.may_return(st) else [])

    # ------------------------------------------------------------------------------------------------------------
    # expressions: returns (type, lean term, binds) — binds = [(tmp, fallible lean term)] to be bound first, in order
    # ------------------------------------------------------------------------------------------------------------
    def fresh(self):
        self.tmp += 1
        return f"t{self.tmp}"

    def var(self, name, defined):
        if name not in self.env:
            if name in self.locals:
                raise Untyped(name)
            raise Unsupported(f"unknown name `{name}`")
        if name in self.maybe_none:
            raise Unsupported(f"use of the optional parameter `{self.orig[name]}` before it is given a default")
        t = self.env[name]
        if name in self.optint:
            tmp = self.fresh()
            return t, tmp, [(tmp, f"readOptE s.{name}_some s.{name} {lean_str(name)}")]
        if name in self.locals and name not in defined:
            self.read_unbound.add(name)
            if name in self.flagged:
                tmp = self.fresh()
                return t, tmp, [(tmp, f"readDefE s.{name}_def s.{name} {lean_str(name)}")]
        return t, f"s.{name}", []

    def expr(self, n, defined):
        if isinstance(n, ast.Constant):
            if isinstance(n.value, bool):
                return "bool", "true" if n.value else "false", []
            if isinstance(n.value, int):
                return "int", str(n.value), []
            if isinstance(n.value, str) and all(32 <= ord(ch) < 127 and ch not in '"\\' for ch in n.value):
                return "str", lean_str(n.value), []                 # a string literal (printable ASCII only)
            raise Unsupported(f"constant {n.value!r}")
        if isinstance(n, ast.Name):
            return self.var(n.id, defined)
        if isinstance(n, ast.UnaryOp):
            t, x, b = self.expr(n.operand, defined)
            if isinstance(n.op, ast.USub) and t == "int":
                return "int", f"(-{x})", b
            if isinstance(n.op, ast.Not) and t == "bool":
                return "bool", f"(!{x})", b
            raise Unsupported(f"unary {type(n.op).__name__} on {t}")
        if isinstance(n, ast.BinOp):
            tl, xl, bl = self.expr(n.left, defined)
            tr, xr, br = self.expr(n.right, defined)
            op = type(n.op)
            if tl == "int" and tr == "int":
                if op in (ast.Add, ast.Sub, ast.Mult):
                    return "int", f"({xl} {({ast.Add: '+', ast.Sub: '-', ast.Mult: '*'})[op]} {xr})", bl + br
                if op in (ast.FloorDiv, ast.Mod):
                    tmp = self.fresh()
                    f = "floorDivE" if op is ast.FloorDiv else "floorModE"
                    return "int", tmp, bl + br + [(tmp, f"{f} {xl} {xr}")]
            if tl == "arr" and tr == "int" and op in (ast.Add, ast.Sub):
                return "arr", f"({xl}.map (· {'+' if op is ast.Add else '-'} {xr}))", bl + br
            raise Unsupported(f"binary {op.__name__} on {tl}, {tr}")
        if isinstance(n, ast.BoolOp):
            parts = [self.expr(v, defined) for v in n.values]
            if any(p[0] != "bool" for p in parts):
                raise Unsupported("and/or on non-boolean operands (truthiness of numbers is not supported)")
            is_and = isinstance(n.op, ast.And)
            t, x, b = parts[-1]
            for (_, xl, bl) in reversed(parts[:-1]):
                if not b:
                    x, b = (f"({xl} && {x})" if is_and else f"({xl} || {x})"), bl
                else:
                    # the right operand contains a subscript: it is only evaluated when the left one does not decide
                    tmp = self.fresh()
                    inner = self.wrap(b, f".ok {x}")
                    if is_and:
                        cond = f"if {xl} then\n{ind(inner, 4)}\n  else .ok false"
                    else:
                        cond = f"if {xl} then .ok true else\n{ind(inner, 4)}"
                    x, b = tmp, bl + [(tmp, cond)]
            return "bool", x, b
        if isinstance(n, ast.Compare) and len(n.ops) == 1 and isinstance(n.ops[0], (ast.Is, ast.IsNot)) and \
                isinstance(n.left, ast.Name) and n.left.id in self.optint and is_none(n.comparators[0]):
            flag = f"s.{n.left.id}_some"
            return "bool", (f"(!{flag})" if isinstance(n.ops[0], ast.Is) else flag), []
        if isinstance(n, ast.Compare) and len(n.ops) == 1 and isinstance(n.ops[0], ast.In) and \
                isinstance(n.comparators[0], ast.Tuple):
            # `x in (c1, c2, …)` against a non-empty tuple of integer literals: Python compares with c1, c2, … in order
            cs = []
            for e in n.comparators[0].elts:
                neg = isinstance(e, ast.UnaryOp) and isinstance(e.op, ast.USub)
                c = e.operand if neg else e
                if not (isinstance(c, ast.Constant) and isinstance(c.value, int) and not isinstance(c.value, bool)):
                    raise Unsupported("`in` against a tuple with an element that is not an integer literal")
                cs.append(f"(-{c.value})" if neg else str(c.value))
            if not cs:
                raise Unsupported("`in` against an empty tuple")
            t, x, b = self.expr(n.left, defined)
            if t == "int":
                return "bool", "(" + " || ".join(f"{x} == {c}" for c in cs) + ")", b        # a disjunction of equalities
            if t == "arr":
                # an ARRAY on the left: `bool(c1 == a) or …` — the truth value of an array of length ≠ 1 is a ValueError
                tmp = self.fresh()
                return "bool", tmp, b + [(tmp, f"arrInTupleE {x} [{', '.join(cs)}]")]
            raise Unsupported(f"`in` with a {t} on the left")
        if isinstance(n, ast.Compare) and len(n.ops) == 1 and isinstance(n.ops[0], (ast.In, ast.NotIn)):
            (tl, xl, bl), (tr, xr, br) = self.expr(n.left, defined), self.expr(n.comparators[0], defined)
            if tl != "int" or tr != "set":
                raise Unsupported(f"membership test of a {tl} in a {tr}")
            mem = f"({xr}.contains {xl})"
            return "bool", (mem if isinstance(n.ops[0], ast.In) else f"(!{mem})"), bl + br
        if isinstance(n, ast.Compare):
            operands = [n.left] + list(n.comparators)
            parts = [self.expr(o, defined) for o in operands]
            # `x is None` on an optional parameter only inside the default idiom (handled by the statement translator)
            terms, binds = [], []
            for k, op in enumerate(n.ops):
                (tl, xl, _), (tr, xr, _) = parts[k], parts[k + 1]
                o = type(op)
                if tl == "int" and tr == "int" and o in (ast.Lt, ast.LtE, ast.Gt, ast.GtE):
                    terms.append(f"(decide ({xl} {({ast.Lt: '<', ast.LtE: '≤', ast.Gt: '>', ast.GtE: '≥'})[o]} {xr}))")
                elif tl == tr and tl in ("int", "bool") and o in (ast.Eq, ast.NotEq):
                    terms.append(f"({xl} {'==' if o is ast.Eq else '!='} {xr})")
                elif tl == "str" and tr == "str" and o in (ast.Eq, ast.NotEq):
                    terms.append(f"({xl} {'==' if o is ast.Eq else '!='} {xr})")
                elif tl == "bool" and tr == "bool" and o in (ast.Is, ast.IsNot) and xr in ("true", "false"):
                    terms.append(f"({xl} {'==' if o is ast.Is else '!='} {xr})")
                else:
                    raise Unsupported(f"comparison {o.__name__} on {tl}, {tr}")
            if len(n.ops) > 1 and any(p[2] for p in parts[1:]):
                raise Unsupported("comparison chain with a subscript in a later operand")
            for p in parts:
                binds += p[2]
            return "bool", terms[0] if len(terms) == 1 else "(" + " && ".join(terms) + ")", binds
        if isinstance(n, ast.IfExp):
            tc, xc, bc = self.expr(n.test, defined)
            ta, xa, ba = self.expr(n.body, defined)
            tb, xb, bb = self.expr(n.orelse, defined)
            if tc != "bool" or ta != tb:
                raise Unsupported("conditional expression with non-boolean test or branches of different type")
            if not ba and not bb:
                return ta, f"(if {xc} then {xa} else {xb})", bc
            tmp = self.fresh()
            return ta, tmp, bc + [(tmp, f"if {xc} then\n{ind(self.wrap(ba, '.ok ' + xa), 4)}\n  else\n{ind(self.wrap(bb, '.ok ' + xb), 4)}")]
        if isinstance(n, ast.Attribute) and n.attr == "size":
            t, x, b = self.expr(n.value, defined)
            if t not in ("arr", "barr"):
                raise Unsupported(f".size of a {t}")
            return "int", f"(pyLen {x})", b
        if isinstance(n, ast.Subscript) and isinstance(n.value, ast.Attribute) and n.value.attr == "shape" and \
                isinstance(n.slice, ast.Constant) and n.slice.value == 0:
            t, x, b = self.expr(n.value.value, defined)             # `a.shape[0]`: the length of the first dimension
            if t not in ELEM:
                raise Unsupported(f".shape of a {t}")
            return "int", f"(pyLen {x})", b
        if isinstance(n, ast.Subscript) and isinstance(n.value, ast.Attribute) and n.value.attr == "shape" and \
                isinstance(n.slice, ast.Constant) and n.slice.value == 1:
            t, x, b = self.expr(n.value.value, defined)             # `a.shape[1]` of a 2-D array: the length of its rows
            if t not in ("arr2", "arr2w"):                          # (IndexError-class error for an array without rows: the
                raise Unsupported(f".shape[1] of a {t}")            #  list of rows does not carry the second dimension then)
            tmp = self.fresh()
            return "int", tmp, b + [(tmp, f"shape1E {x} {lean_str(ast.unparse(n))}")]
        if isinstance(n, ast.Subscript):
            tb_, xb_, bb_ = self.expr(n.value, defined)
            if tb_ not in ELEM:
                raise Unsupported(f"subscript of a {tb_}")
            site = lean_str(ast.unparse(n))
            sl = n.slice
            if tb_ == "arr2w" and isinstance(sl, ast.Tuple) and len(sl.elts) == 2:
                # `a[i, j]` with numpy's wrap-around of a negative index, in both dimensions
                (ti, xi, bi), (tj, xj, bj) = self.expr(sl.elts[0], defined), self.expr(sl.elts[1], defined)
                if ti != "int" or tj != "int":
                    raise Unsupported("2-D subscript with a non-integer index")
                row, tmp = self.fresh(), self.fresh()
                return "int", tmp, bb_ + bi + bj + [(row, f"idxWE {xb_} {xi} {site}"), (tmp, f"idxWE {row} {xj} {site}")]
            if tb_ == "arr2w" and not isinstance(sl, (ast.Slice, ast.Tuple)) and self.neg_const(sl) is None:
                ti, xi, bi = self.expr(sl, defined)
                if ti != "int":
                    raise Unsupported(f"subscript with an index of type {ti}")
                tmp = self.fresh()
                return "arr", tmp, bb_ + bi + [(tmp, f"idxWE {xb_} {xi} {site}")]
            if isinstance(sl, ast.Slice):
                if sl.step is not None:
                    raise Unsupported("slice with a step")
                binds = list(bb_)
                bounds = []
                for bnd in (sl.lower, sl.upper):
                    if bnd is None:
                        bounds.append("none")
                    else:
                        t, x, b = self.expr(bnd, defined)
                        if t != "int":
                            raise Unsupported("slice bound that is not an integer")
                        binds += b
                        bounds.append(f"(some {x})")
                return tb_, f"(pySlice {xb_} {bounds[0]} {bounds[1]})", binds
            if isinstance(sl, ast.Tuple):
                # `a[i, j]` on a 2-D array (the list of its rows): row `i`, then entry `j`, both checked
                if tb_ != "arr2" or len(sl.elts) != 2:
                    raise Unsupported(f"tuple subscript of a {tb_}")
                (ti, xi, bi), (tj, xj, bj) = self.expr(sl.elts[0], defined), self.expr(sl.elts[1], defined)
                if ti != "int" or tj != "int":
                    raise Unsupported("2-D subscript with a non-integer index")
                row, tmp = self.fresh(), self.fresh()
                return "int", tmp, bb_ + bi + bj + [(row, f"idxE {xb_} {xi} {site}"), (tmp, f"idxE {row} {xj} {site}")]
            c = self.neg_const(sl)
            if c is not None:
                tmp = self.fresh()
                return ELEM[tb_], tmp, bb_ + [(tmp, f"idxNegE {xb_} {c} {site}")]
            ti, xi, bi = self.expr(sl, defined)
            tmp = self.fresh()
            if ti == "int":
                return ELEM[tb_], tmp, bb_ + bi + [(tmp, f"idxE {xb_} {xi} {site}")]
            if ti == "arr":
                return tb_, tmp, bb_ + bi + [(tmp, f"takeE {xb_} {site} {xi}")]
            raise Unsupported(f"subscript with an index of type {ti}")
        if isinstance(n, ast.Call):
            return self.call(n, defined)
        if isinstance(n, ast.Set):
            # a set of integers, only ever tested for membership / added to: the list of its elements (`in` is `contains`)
            parts = [self.expr(e, defined) for e in n.elts]
            if any(p[0] != "int" for p in parts):
                raise Unsupported("set literal with non-integer elements")
            return "set", "[" + ", ".join(p[1] for p in parts) + "]", [b for p in parts for b in p[2]]
        if isinstance(n, ast.List):
            # a list literal of integers (`[]` is taken to be a list of integers: a later append of anything else fails)
            parts = [self.expr(e, defined) for e in n.elts]
            if parts and all(p[0] == "arr" for p in parts):
                # a list literal of arrays: a list of arrays (like a 2-D array, the list of its rows)
                return "arr2", "[" + ", ".join(p[1] for p in parts) + "]", [b for p in parts for b in p[2]]
            if any(p[0] != "int" for p in parts):
                raise Unsupported("list literal with non-integer elements")
            return "arr", "[" + ", ".join(p[1] for p in parts) + "]", [b for p in parts for b in p[2]]
        raise Unsupported(f"expression {type(n).__name__}")

    @staticmethod
    def neg_const(sl):
        """`-c` for a literal c > 0 (a constant negative subscript) → c"""
        if isinstance(sl, ast.UnaryOp) and isinstance(sl.op, ast.USub) and isinstance(sl.operand, ast.Constant) and \
                isinstance(sl.operand.value, int) and not isinstance(sl.operand.value, bool) and sl.operand.value > 0:
            return sl.operand.value
        return None

    def call(self, n, defined):
        f = ast.unparse(n.func)
        if f == "len" and len(n.args) == 1 and not n.keywords:
            t, x, b = self.expr(n.args[0], defined)
            if t not in ELEM:
                raise Unsupported(f"len of a {t}")
            return "int", f"(pyLen {x})", b
        if f in ("int", "np.int64", "numpy.int64") and len(n.args) == 1 and not n.keywords:
            t, x, b = self.expr(n.args[0], defined)
            if t != "int":
                raise Unsupported(f"{f} of a {t}")
            return "int", x, b                    # ints are unbounded: the cast is the identity (fixed width is not modelled)
        if f in ("np.int8", "numpy.int8") and len(n.args) == 1 and not n.keywords:
            t, x, b = self.expr(n.args[0], defined)
            if t != "int":
                raise Unsupported(f"{f} of a {t}")
            return "int", f"(pyInt8 {x})", b      # the one narrowing cast that is modelled: the value as a signed byte
        if f in ("min", "max") and len(n.args) == 2 and not n.keywords:
            (ta, xa, ba), (tb, xb, bb) = self.expr(n.args[0], defined), self.expr(n.args[1], defined)
            if ta != "int" or tb != "int":
                raise Unsupported(f"{f} of non-integers")
            return "int", f"({f} {xa} {xb})", ba + bb
        if f in ("np.zeros", "numpy.zeros") and 1 <= len(n.args) <= 2:
            t, x, b = self.expr(n.args[0], defined)
            if t != "int":
                raise Unsupported("np.zeros with a non-integer shape")
            dt = n.args[1] if len(n.args) == 2 else None
            for kw in n.keywords:
                if kw.arg != "dtype" or dt is not None:
                    raise Unsupported("np.zeros keyword")
                dt = kw.value
            isb = dt is not None and ast.unparse(dt) in ("bool", "np.bool_", "numpy.bool_", "np.bool", "numba_bool")
            tmp = self.fresh()
            return ("barr" if isb else "arr"), tmp, b + [(tmp, f"{'npZerosB' if isb else 'npZeros'} {x}")]
        if f in ("np.full", "numpy.full") and len(n.args) == 2:
            (tn, xn, bn), (tv, xv, bv) = self.expr(n.args[0], defined), self.expr(n.args[1], defined)
            if tn != "int" or tv != "int" or any(kw.arg != "dtype" for kw in n.keywords):
                raise Unsupported("np.full")
            tmp = self.fresh()
            return "arr", tmp, bn + bv + [(tmp, f"npFull {xn} {xv}")]
        if f in ("np.zeros_like", "numpy.zeros_like") and len(n.args) == 1:
            t, x, b = self.expr(n.args[0], defined)
            if t != "arr" or any(kw.arg != "dtype" for kw in n.keywords):
                raise Unsupported("np.zeros_like")
            return "arr", f"(List.replicate {x}.length 0)", b
        if f in ("np.array_equal", "numpy.array_equal") and len(n.args) == 2 and not n.keywords:
            (ta, xa, ba), (tb, xb, bb) = self.expr(n.args[0], defined), self.expr(n.args[1], defined)
            if ta != tb or ta not in ("arr", "barr"):
                raise Unsupported(f"np.array_equal of a {ta} and a {tb}")
            return "bool", f"({xa} == {xb})", ba + bb
        if isinstance(n.func, ast.Attribute) and n.func.attr == "astype" and len(n.args) == 1 and not n.keywords and \
                ast.unparse(n.args[0]) in ("np.int64", "numpy.int64", "np.int32", "numpy.int32", "'int64'", "'int32'"):
            # an integer array converted to a signed integer dtype: ints are unbounded in the translation, so the conversion
            # is the identity (fixed width is not modelled; DESIGN 1.4)
            t, x, b = self.expr(n.func.value, defined)
            if t != "arr":
                raise Unsupported(f"astype of a {t}")
            return "arr", x, b
        if isinstance(n.func, ast.Attribute) and n.func.attr == "sum" and not n.args and not n.keywords:
            t, x, b = self.expr(n.func.value, defined)             # `a.sum()` of a 1-D integer array (unbounded: no wrap-around)
            if t != "arr":
                raise Unsupported(f"sum of a {t}")
            return "int", f"({x}.foldl (· + ·) 0)", b
        if isinstance(n.func, ast.Attribute) and n.func.attr in ("argmin", "argmax") and not n.args and not n.keywords:
            t, x, b = self.expr(n.func.value, defined)
            if t != "arr":
                raise Unsupported(f"{n.func.attr} of a {t}")
            tmp = self.fresh()
            return "int", tmp, b + [(tmp, f"{n.func.attr}E {x}")]
        if f in ("np.asarray", "numpy.asarray") and len(n.args) == 1 and len(n.keywords) == 1 and n.keywords[0].arg == "dtype" \
                and ast.unparse(n.keywords[0].value) in ("'bool'", "bool", "np.bool_", "numpy.bool_") \
                and isinstance(n.args[0], ast.BinOp) and isinstance(n.args[0].op, ast.Mult) \
                and isinstance(n.args[0].left, ast.List) and len(n.args[0].left.elts) == 1 \
                and isinstance(n.args[0].left.elts[0], ast.Constant) and isinstance(n.args[0].left.elts[0].value, bool):
            # `np.asarray([False] * n, dtype='bool')`: n copies (none for n ≤ 0, as Python's list repetition)
            t, x, b = self.expr(n.args[0].right, defined)
            if t != "int":
                raise Unsupported("list repetition by a non-integer")
            v = "true" if n.args[0].left.elts[0].value else "false"
            return "barr", f"(List.replicate ({x}).toNat {v})", b
        if f in TRANSLATED and f != self.name and not n.keywords:
            # a call of another translated kernel (no `while` loop, stores into none of its arguments, one result)
            callee = TRANSLATED[f]
            if callee.has_fuel or callee.mutated or len(callee.ret_types) != 1 or len(n.args) != len(callee.ptypes) or \
                    any(t not in ("int", "bool", "arr", "barr", "arr2") for t in callee.ptypes):
                raise Unsupported(f"call of the kernel `{f}` (it has a while loop / writes into its arguments / optional parameters)")
            parts = [self.expr(a, defined) for a in n.args]
            if [p[0] for p in parts] != list(callee.ptypes):
                raise Unsupported(f"call of the kernel `{f}` with arguments of type {[p[0] for p in parts]}")
            tmp = self.fresh()
            return callee.ret_types[0], tmp, [b for p in parts for b in p[2]] + \
                [(tmp, f"{f}.run " + " ".join(p[1] if p[1].startswith("(") or p[1].replace(".", "").replace("_", "").isalnum()
                                              else f"({p[1]})" for p in parts))]
        raise Unsupported(f"call of `{f}`")

    @staticmethod
    def wrap(binds, inner):
        """bind the fallible terms in order, then `inner`"""
        binds = list(binds)
        if binds and inner == f".ok {binds[-1][0]}":
            inner = binds.pop()[1]
        out = []
        for tmp, term in binds:
            out.append(f"bindE ({term}) fun {tmp} =>")
        out.append(inner)
        return "\n".join(out)

    # ------------------------------------------------------------------------------------------------------------
    # statements.  `block` returns (lean term of type Except Err St with `s` in scope, defined-after)
    # ------------------------------------------------------------------------------------------------------------
    def assign_name(self, v, t, x):
        if v in self.opt and v in self.maybe_none:
            raise Unsupported(f"assignment to the optional parameter `{self.orig[v]}` outside the default idiom")
        if v in self.env and self.env[v] != t:
            raise Unsupported(f"`{self.orig[v]}` is assigned values of type {self.env[v]} and {t}")
        self.env[v] = t
        flag = f", {v}_def := true" if v in self.flagged else ""
        return f"let s := {{ s with {v} := {x}{flag} }}"

    def opt_idiom(self, st):
        """`if p is None: p = E`  /  `p = E if p is None else p`  →  (p, E) for an optional parameter p"""
        def test_is_none(t):
            return (isinstance(t, ast.Compare) and len(t.ops) == 1 and isinstance(t.ops[0], ast.Is) and
                    isinstance(t.left, ast.Name) and t.left.id in self.opt and is_none(t.comparators[0]))
        if (isinstance(st, ast.If) and test_is_none(st.test) and not st.orelse and len(st.body) == 1 and
                isinstance(st.body[0], ast.Assign) and len(st.body[0].targets) == 1 and
                isinstance(st.body[0].targets[0], ast.Name) and st.body[0].targets[0].id == st.test.left.id):
            return st.test.left.id, st.body[0].value
        if (isinstance(st, ast.Assign) and len(st.targets) == 1 and isinstance(st.targets[0], ast.Name) and
                isinstance(st.value, ast.IfExp) and test_is_none(st.value.test) and
                st.value.test.left.id == st.targets[0].id and isinstance(st.value.orelse, ast.Name) and
                st.value.orelse.id == st.targets[0].id):
            return st.targets[0].id, st.value.body
        return None

    def simple(self, st, defined, top):
        """a statement without nested blocks → (lines that rebind `s`, defined-after, terminal?)"""
        oi = self.opt_idiom(st)
        if oi is not None:
            p, e = oi
            if not top or p not in self.maybe_none:
                raise Unsupported("default idiom of an optional parameter away from the top of the function")
            t, x, b = self.expr(e, defined)
            if t != "arr":
                raise Unsupported("default of an optional array parameter is not an array")
            self.maybe_none.discard(p)
            tmp = self.fresh()
            k = int(p[1:])
            inner = self.wrap(b, f".ok {x}")
            term = f"match {p} with\n  | some a => .ok a\n  | none =>\n{ind(inner, 4)}"
            return [f"bindE ({term}) fun {tmp} =>", f"let s := {{ s with {p} := {tmp} }}"], defined, False
        if isinstance(st, ast.Pass):
            return [], defined, False
        if isinstance(st, ast.Assign):
            if len(st.targets) != 1:
                raise Unsupported("chained assignment")
            tg = st.targets[0]
            if isinstance(tg, ast.Tuple) and self.name in KT4A_KERNELS:
                # `a, b = x, y`: the right-hand sides are evaluated first, left to right, then bound left to right
                if not (isinstance(st.value, ast.Tuple) and len(st.value.elts) == len(tg.elts) and
                        all(isinstance(e, ast.Name) for e in tg.elts)):
                    raise Unsupported("tuple assignment that is not `name, … = expr, …` of equal lengths")
                if any(isinstance(e, ast.List) and not e.elts for e in st.value.elts):
                    raise Unsupported("tuple assignment of an empty list")
                parts = [self.expr(e, defined) for e in st.value.elts]
                lines, binds = [], []
                for e, (t, x, b) in zip(tg.elts, parts):
                    binds += b
                    tmp = self.fresh()
                    lines.append((e.id, t, tmp, x))
                out = [f"let {tmp} : {LEAN_T[t]} := {x}" for (_, t, tmp, x) in lines]
                for (v, t, tmp, _) in lines:
                    out.append(self.assign_name(v, t, tmp))
                    defined = defined | {v}
                return self.wrap(binds, "\n".join(out)).split("\n"), defined, False
            if isinstance(tg, ast.Tuple) and isinstance(st.value, ast.Tuple) and len(tg.elts) == len(st.value.elts) and \
                    all(isinstance(e, ast.Name) for e in tg.elts) and len({e.id for e in tg.elts}) == len(tg.elts):
                # `a, b = e1, e2`: every right-hand side is evaluated (in the old state) before any name is bound
                parts = [self.expr(e, defined) for e in st.value.elts]
                upd = []
                for e, (t, x, _) in zip(tg.elts, parts):
                    self.assign_name(e.id, t, x)
                    upd.append(f"{e.id} := {x}" + (f", {e.id}_def := true" if e.id in self.flagged else ""))
                line = f"let s := {{ s with {', '.join(upd)} }}"
                return self.wrap([b for p in parts for b in p[2]], line).split("\n"), defined | {e.id for e in tg.elts}, False
            t, x, b = self.expr(st.value, defined)
            if isinstance(tg, ast.Name) and tg.id in self.arr2_locals and isinstance(st.value, ast.List) and not st.value.elts:
                t = "arr2"                                          # `[]` of a list of arrays (see `append`)
            if isinstance(tg, ast.Name):
                line = self.assign_name(tg.id, t, x)
                return self.wrap(b, line).split("\n"), defined | {tg.id}, False
            if isinstance(tg, ast.Subscript) and isinstance(tg.value, ast.Name):
                tb_, xb_, bb_ = self.var(tg.value.id, defined)
                if tb_ not in ELEM or (bb_ and tg.value.id not in self.optint):
                    raise Unsupported("store into something that is not a bound array")
                a = tg.value.id
                site = lean_str(ast.unparse(tg))
                tmp = self.fresh()
                if isinstance(tg.slice, ast.Slice):
                    if tg.slice.step is not None:
                        raise Unsupported("slice with a step")
                    if t != tb_:
                        raise Unsupported(f"slice assignment of a {t} into a {tb_}")
                    bounds = []
                    for bnd in (tg.slice.lower, tg.slice.upper):
                        if bnd is None:
                            bounds.append("none")
                        else:
                            ti, xi, bi = self.expr(bnd, defined)
                            if ti != "int":
                                raise Unsupported("slice bound that is not an integer")
                            b = b + bi
                            bounds.append(f"(some {xi})")
                    b = b + bb_ + [(tmp, f"setSliceE {xb_} {bounds[0]} {bounds[1]} {x}")]
                elif isinstance(tg.slice, ast.Tuple):
                    # `a[i, j] = v` on a 2-D array (the list of its rows): row `i`, then entry `j`, both checked
                    if tb_ not in ("arr2", "arr2w") or len(tg.slice.elts) != 2 or t != "int":
                        raise Unsupported(f"tuple-subscript store of a {t} into a {tb_}")
                    (ti, xi, bi), (tj, xj, bj) = self.expr(tg.slice.elts[0], defined), self.expr(tg.slice.elts[1], defined)
                    if ti != "int" or tj != "int":
                        raise Unsupported("2-D subscript with a non-integer index")
                    b = b + bi + bj + [(tmp, f"{'setIdx2WE' if tb_ == 'arr2w' else 'setIdx2E'} {xb_} {xi} {xj} {x} {site}")]
                elif self.neg_const(tg.slice) is not None:
                    if t != ELEM[tb_]:
                        raise Unsupported(f"store of a {t} into a {tb_}")
                    b = b + bb_ + [(tmp, f"setIdxNegE {xb_} {self.neg_const(tg.slice)} {x} {site}")]
                else:
                    ti, xi, bi = self.expr(tg.slice, defined)
                    if ti == "int" and t == "int" and tb_ == "barr":
                        t, x = "bool", f"({x} != 0)"                # an integer stored into a bool array: nonzero ↦ True
                    if ti != "int" or t != ELEM[tb_]:
                        raise Unsupported(f"store of a {t} at an index of type {ti} into a {tb_}")
                    b = b + bi + bb_ + [(tmp, f"setIdxE {xb_} {xi} {x} {site}")]
                return self.wrap(b, f"let s := {{ s with {a} := {tmp} }}").split("\n"), defined, False
            raise Unsupported(f"assignment target {type(tg).__name__}")
        if isinstance(st, ast.AugAssign) and isinstance(st.target, ast.Subscript) and isinstance(st.target.value, ast.Name) and \
                isinstance(st.target.slice, ast.Name) and isinstance(st.op, (ast.Add, ast.Sub)):
            # `a[k] += e` with a plain variable `k`: `a[k] = a[k] + e` (the index is a variable, so reading it twice is the same)
            load = ast.Subscript(value=ast.Name(id=st.target.value.id, ctx=ast.Load()),
                                 slice=ast.Name(id=st.target.slice.id, ctx=ast.Load()), ctx=ast.Load())
            store = ast.Subscript(value=ast.Name(id=st.target.value.id, ctx=ast.Load()),
                                  slice=ast.Name(id=st.target.slice.id, ctx=ast.Load()), ctx=ast.Store())
            return self.simple(ast.Assign(targets=[store], value=ast.BinOp(left=load, op=st.op, right=st.value)), defined, top)
        if isinstance(st, ast.AugAssign):
            if isinstance(st.target, ast.Subscript) and isinstance(st.target.value, ast.Name) and \
                    not isinstance(st.target.slice, (ast.Slice, ast.Tuple)) and self.neg_const(st.target.slice) is None and \
                    isinstance(st.op, (ast.Add, ast.Sub, ast.Mult)):
                # `a[j] += e`: `a`, `j` evaluated once, `a[j]` loaded, then `e`, then the store
                a = st.target.value.id
                tb_, xb_, bb_ = self.var(a, defined)
                if tb_ != "arr" or (bb_ and a not in self.optint):
                    raise Unsupported("augmented assignment to an entry of something that is not a bound integer array")
                ti, xi, bi = self.expr(st.target.slice, defined)
                te, xe, be = self.expr(st.value, defined)
                if ti != "int" or te != "int":
                    raise Unsupported("augmented assignment to a subscript with non-integer index / operand")
                site = lean_str(ast.unparse(st.target))
                old, new = self.fresh(), self.fresh()
                o = {ast.Add: "+", ast.Sub: "-", ast.Mult: "*"}[type(st.op)]
                binds = bb_ + bi + [(old, f"idxE {xb_} {xi} {site}")] + be + [(new, f"setIdxE {xb_} {xi} ({old} {o} {xe}) {site}")]
                return self.wrap(binds, f"let s := {{ s with {a} := {new} }}").split("\n"), defined, False
            if not isinstance(st.target, ast.Name):
                raise Unsupported("augmented assignment to a subscript")
            load = ast.Name(id=st.target.id, ctx=ast.Load())
            t, x, b = self.expr(ast.BinOp(left=load, op=st.op, right=st.value), defined)
            return self.wrap(b, self.assign_name(st.target.id, t, x)).split("\n"), defined | {st.target.id}, False
        if isinstance(st, ast.Expr) and isinstance(st.value, ast.Yield):
            v = st.value.value
            parts = [self.expr(e, defined) for e in (v.elts if isinstance(v, ast.Tuple) else [v])]
            if any(p[0] != "int" for p in parts):
                raise Unsupported("yield of a non-integer")
            upd = ", ".join(f"y{j} := (s.y{j} ++ [{p[1]}])" for j, p in enumerate(parts))
            return self.wrap([b for p in parts for b in p[2]], f"let s := {{ s with {upd} }}").split("\n"), defined, False
        if isinstance(st, ast.Expr):
            c = st.value
            if (isinstance(c, ast.Call) and isinstance(c.func, ast.Attribute) and isinstance(c.func.value, ast.Name) and
                    c.func.attr in ("append", "extend") and len(c.args) == 1 and not c.keywords):
                a = c.func.value.id
                ta, xa, ba = self.var(a, defined)
                if ba and a in self.optint and ta in ELEM:
                    # a typed-list parameter that may be None: `None.append` is an AttributeError, raised before the argument
                    # is evaluated
                    ba = [(xa, f"if s.{a}_some then .ok s.{a} else .error (.other {lean_str('AttributeError')})")]
                t, x, b = self.expr(c.args[0], defined)
                want = ELEM.get(ta) if c.func.attr == "append" else ta
                if ta == "arr" and t == "arr" and c.func.attr == "append" and self.only_empty_init(a):
                    # a list that starts as `[]` and receives ARRAYS: a list of arrays (rendered like a 2-D array, the list
                    # of its rows); the type is fixed now and the rendering pass restarted
                    self.arr2_locals.add(a)
                    self.env[a] = "arr2"
                    raise Untyped(a)
                if ta not in ELEM or t != want or (ba and a not in self.optint):
                    raise Unsupported(f"{c.func.attr} of a {t} to a {ta}")
                b = ba + b
                rhs = f"({xa} ++ [{x}])" if c.func.attr == "append" else f"({xa} ++ {x})"
                return self.wrap(b, f"let s := {{ s with {a} := {rhs} }}").split("\n"), defined, False
            if (isinstance(c, ast.Call) and isinstance(c.func, ast.Attribute) and isinstance(c.func.value, ast.Name) and
                    c.func.attr == "add" and len(c.args) == 1 and not c.keywords):
                a = c.func.value.id
                ta, xa, ba = self.var(a, defined)
                t, x, b = self.expr(c.args[0], defined)
                if ta != "set" or t != "int" or ba:
                    raise Unsupported(f"add of a {t} to a {ta}")
                return self.wrap(b, f"let s := {{ s with {a} := ({x} :: {xa}) }}").split("\n"), defined, False
            raise Unsupported("expression statement " + ast.unparse(c)[:40])
        if isinstance(st, ast.Raise):
            exc = st.exc.func if isinstance(st.exc, ast.Call) else st.exc
            name = ast.unparse(exc) if exc is not None else ""
            if name == "IndexError":
                return [f".error (.oob {lean_str('raise IndexError')})"], defined, True
            if name == "ValueError":
                return [f".error (.valueError {lean_str('raise ValueError')})"], defined, True
            if name == "Exception":
                return [f".error (.other {lean_str('Exception')})"], defined, True
            raise Unsupported(f"raise {name}")
        raise Unsupported(f"statement {type(st).__name__}")

    def block(self, stmts, defined, loop, top=False, final=None):
        """→ (lean term : Except Err St, defined-after).  `loop` is the innermost enclosing loop node (for `break`).
        `final(defined)` renders what follows the last statement (default `.ok s`; the `return` at the top level)."""
        if not stmts:
            return (".ok s" if final is None else final(defined)), defined
        st, rest = stmts[0], stmts[1:]
        if isinstance(st, ast.Return):
            if loop is None:
                raise Unsupported("return that is not the last statement of the function")
            if rest:
                raise Unsupported("statements after return")
            return self.loop_return_term(st, defined), defined
        if isinstance(st, ast.Break):
            if rest:
                raise Unsupported("statements after break")
            k = self.loops[id(loop)][0]
            return f"let s := {{ s with brk{k} := true }}\n.ok s", defined
        if isinstance(st, ast.Continue):
            if rest:
                raise Unsupported("statements after continue")
            k = self.loops[id(loop)][0]
            return f"let s := {{ s with cnt{k} := true }}\n.ok s", defined
        if isinstance(st, ast.Assert):
            # `assert c`: the rest of the block runs when `c` holds, AssertionError otherwise
            t, x, b = self.expr(st.test, defined)
            if t != "bool":
                raise Unsupported("assert on a non-boolean")
            rterm, d2 = self.block(rest, defined, loop, top, final)
            return self.wrap(b, f"if {x} then\n{ind(rterm, 2)}\nelse\n  .error (.other {lean_str('AssertionError')})"), d2
        if isinstance(st, ast.If) and loop is None and final is not None and self.opt_idiom(st) is None and \
                self.direct_return(st):
            # `if c: …; return E` at function level: each branch is continued separately (a branch that ends in `return`
            # yields the result, the other one runs the rest of the function); at most one branch may fall through
            t, x, b = self.expr(st.test, defined)
            if t != "bool":
                raise Unsupported("if on a non-boolean (truthiness of numbers / arrays is not supported)")
            branches = [st.body, st.orelse]
            if sum(1 for br in branches if not (br and isinstance(br[-1], ast.Return))) > 1:
                raise Unsupported("return nested below a branch that falls through")
            terms = []
            for br in branches:
                if br and isinstance(br[-1], ast.Return):
                    ret = br[-1]
                    if ret.value is None:
                        raise Unsupported("return without a value")
                    tm, _ = self.block(br[:-1], defined, None, False, lambda d, ret=ret: self.ret_final(ret, d))
                else:
                    tm, _ = self.block(br + rest, defined, None, top, final)
                terms.append(tm)
            return self.wrap(b, f"if {x} then\n{ind(terms[0], 2)}\nelse\n{ind(terms[1], 2)}"), defined
        if isinstance(st, (ast.If, ast.For, ast.While)) and self.opt_idiom(st) is None:
            term, d1 = self.compound(st, defined, loop)
            if not rest and final is None:
                return term, d1
            rterm, d2 = self.block(rest, d1, loop, top, final)
            conds = self.skip_cond(st, loop)
            if loop is None and self.may_return(st):
                # a loop that contains `return` has run: when it returned, the function's result is in the result slots
                conds = ["s.ret"]
            if conds:
                skip = ".ok s" if final is None else self.ret_from_slots()
                if skip == ".ok s":
                    rterm = f"if {' || '.join(conds)} then .ok s else\n{rterm}"
                else:
                    rterm = f"if {' || '.join(conds)} then\n{ind(skip, 2)}\nelse\n{ind(rterm, 2)}"
            return f"bindE ({ind(term, 2).lstrip()}) fun s =>\n{rterm}", d2
        lines, d1, terminal = self.simple(st, defined, top)
        if terminal:
            if rest:
                raise Unsupported("statements after raise")
            return "\n".join(lines), d1
        rterm, d2 = self.block(rest, d1, loop, top, final)
        return "\n".join(lines + [rterm]), d2

    @staticmethod
    def direct_return(st):
        """a `return` of this `if` statement that is not inside a loop nested in it"""
        if isinstance(st, ast.Return):
            return True
        if isinstance(st, ast.If):
            return any(Kernel.direct_return(x) for x in st.body + st.orelse)
        return False

    def ret_parts(self, ret, d):
        if ret.value is None:
            raise Unsupported("return without a value")
        elts = ret.value.elts if isinstance(ret.value, ast.Tuple) else [ret.value]
        parts = [self.expr(e, d) for e in elts]
        types = [p[0] for p in parts] + [self.mut_part(p, d)[0] for p in self.mutated]
        if self.ret_types is not None and self.ret_types != types:
            raise Unsupported("return statements of different types")
        self.ret_types = types
        return parts

    def mut_part(self, p, d):
        """final contents of a parameter the kernel wrote into; a parameter that may be None is returned as an Option"""
        if p in self.optint:
            return "oarr", f"(if s.{p}_some then some s.{p} else none)", []
        return self.var(p, d)

    def loop_return_term(self, ret, d):
        """`return E` inside a loop: the value goes into the result slots `rv<j>`, the flag `ret` stops every enclosing loop
        and makes the rest of every enclosing block be skipped"""
        parts = self.ret_parts(ret, d)
        binds = [b for p in parts for b in p[2]]
        slots = "".join(f", rv{j} := {p[1]}" for j, p in enumerate(parts))
        return self.wrap(binds, f"let s := {{ s with ret := true{slots} }}\n.ok s")

    def ret_from_slots(self):
        n = len(self.ret_types) - len(self.mutated)
        vals = [f"s.rv{j}" for j in range(n)] + [f"s.{p}" for p in self.mutated]
        return ".ok " + (vals[0] if len(vals) == 1 else "(" + ", ".join(vals) + ")")

    def compound(self, st, defined, loop):
        if isinstance(st, ast.If):
            t, x, b = self.expr(st.test, defined)
            if t != "bool":
                raise Unsupported("if on a non-boolean (truthiness of numbers / arrays is not supported)")
            a, da = self.block(st.body, defined, loop)
            if len(st.orelse) == 1 and isinstance(st.orelse[0], ast.If):
                e, de = self.compound(st.orelse[0], defined, loop)        # elif
            else:
                e, de = self.block(st.orelse, defined, loop)
            term = f"if {x} then\n{ind(a, 2)}\nelse\n{ind(e, 2)}"
            return self.wrap(b, term), da & de
        k, has_break, inner_while, has_ret, has_cont = self.loops[id(st)]
        stops = ([f"s.brk{k}"] if has_break else []) + (["s.ret"] if has_ret else [])
        stop_fn = f"(fun s => {' || '.join(stops)})"
        fuel_p = " (fuel : Nat)" if inner_while else ""
        fuel_a = " fuel" if inner_while else ""
        doc = f"/-- loop L{k}: `{self.src_loop_text[id(st)]}` -/"
        if isinstance(st, ast.For) and isinstance(st.target, ast.Tuple) and len(st.target.elts) == 2 and \
                all(isinstance(e, ast.Name) for e in st.target.elts) and st.target.elts[0].id != st.target.elts[1].id and \
                isinstance(st.iter, ast.Call) and ast.unparse(st.iter.func) == "enumerate" and len(st.iter.args) == 1 and \
                not st.iter.keywords and isinstance(st.iter.args[0], ast.Name):
            # `for j, x in enumerate(xs)`: the pairs (x, j) of the array as it is when the loop starts; the body must not
            # touch `xs` (otherwise Python would iterate over the changed list)
            xs = st.iter.args[0].id
            for b_ in st.body:
                for m in ordered_nodes(b_):
                    if (isinstance(m, ast.Name) and m.id == xs and isinstance(m.ctx, ast.Store)) or \
                            (isinstance(m, ast.Subscript) and isinstance(m.ctx, ast.Store) and isinstance(m.value, ast.Name)
                             and m.value.id == xs) or \
                            (isinstance(m, ast.Attribute) and isinstance(m.value, ast.Name) and m.value.id == xs):
                        raise Unsupported("the body of an enumerate loop changes the list it iterates over")
            t, x, binds = self.expr(st.iter.args[0], defined)
            if t not in ELEM:
                raise Unsupported("enumerate of something that is not an array")
            vj, vx = st.target.elts[0].id, st.target.elts[1].id
            for v, vt in ((vj, "int"), (vx, ELEM[t])):
                if v in self.env and self.env[v] != vt:
                    raise Unsupported(f"`{self.orig[v]}` is assigned values of type {self.env[v]} and {vt}")
                self.env[v] = vt
            head = f"forEachB (List.zipIdx {x}) {stop_fn}" if stops else f"forEachE (List.zipIdx {x})"
            body, _ = self.block(st.body, defined | {vj, vx}, st)
            self.defs.append(f"{doc}\ndef body_L{k}{fuel_p} (s : St) : Except Err St :=\n{ind(body, 2)}")
            flag = "".join(f", {v}_def := true" for v in (vj, vx) if v in self.flagged) + (f", cnt{k} := false" if has_cont else "")
            term = f"{head} (fun k s => body_L{k}{fuel_a} {{ s with {vj} := (k.2 : Int), {vx} := k.1{flag} }}) s"
            if has_break:
                term = f"bindE ({term}) fun s =>\n.ok {{ s with brk{k} := false }}"
            return self.wrap(binds, term), defined
        if isinstance(st, ast.For):
            if not isinstance(st.target, ast.Name):
                raise Unsupported("for with a tuple target")
            v = st.target.id
            it = st.iter
            binds = []
            if isinstance(it, ast.Call) and ast.unparse(it.func) in ("range", "np.arange", "numpy.arange") and \
                    1 <= len(it.args) <= 2 and not it.keywords:
                parts = [self.expr(a, defined) for a in it.args]
                if any(p[0] != "int" for p in parts):
                    raise Unsupported("range over non-integers")
                for p in parts:
                    binds += p[2]
                lo, hi = ("0", parts[0][1]) if len(parts) == 1 else (parts[0][1], parts[1][1])
                head = f"forRangeB {lo} {hi} {stop_fn}" if stops else f"forRangeE {lo} {hi}"
                vt = "int"
            else:
                t, x, b = self.expr(it, defined)
                if t not in ELEM:
                    raise Unsupported("for over something that is neither range(...) nor an array")
                binds += b
                head = f"forEachB {x} {stop_fn}" if stops else f"forEachE {x}"
                vt = ELEM[t]
            if v in self.env and self.env[v] != vt:
                raise Unsupported(f"`{self.orig[v]}` is assigned values of type {self.env[v]} and {vt}")
            self.env[v] = vt
            body, _ = self.block(st.body, defined | {v}, st)
            self.defs.append(f"{doc}\ndef body_L{k}{fuel_p} (s : St) : Except Err St :=\n{ind(body, 2)}")
            flag = (f", {v}_def := true" if v in self.flagged else "") + (f", cnt{k} := false" if has_cont else "")
            term = f"{head} (fun k s => body_L{k}{fuel_a} {{ s with {v} := k{flag} }}) s"
            if has_break:
                term = f"bindE ({term}) fun s =>\n.ok {{ s with brk{k} := false }}"
            return self.wrap(binds, term), defined
        # while
        t, x, b = self.expr(st.test, defined)
        if t != "bool":
            raise Unsupported("while on a non-boolean")
        body, _ = self.block(st.body, defined, st)
        if has_cont:
            body = f"let s := {{ s with cnt{k} := false }}\n{body}"
        if b:
            g = self.wrap(b, f".ok {x}")
            if stops:
                g = f"if {' || '.join(stops)} then .ok false else\n{g}"
            self.defs.append(f"{doc}\ndef guardE_L{k} (s : St) : Except Err Bool :=\n{ind(g, 2)}")
            loopterm = f"whileG guardE_L{k} (body_L{k}{fuel_a}) fuel s"
        else:
            g = "(" + "".join(f"!{c} && " for c in stops) + f"{x})" if stops else x
            self.defs.append(f"{doc}\ndef guard_L{k} (s : St) : Bool :=\n  {g}")
            loopterm = f"whileE guard_L{k} (body_L{k}{fuel_a}) fuel s"
        self.defs.append(f"def body_L{k}{fuel_p} (s : St) : Except Err St :=\n{ind(body, 2)}")
        if has_break:
            loopterm = f"bindE ({loopterm}) fun s =>\n.ok {{ s with brk{k} := false }}"
        return loopterm, defined

    # ------------------------------------------------------------------------------------------------------------
    # the kernel
    # ------------------------------------------------------------------------------------------------------------
    def render(self):
        """one rendering pass; returns the Lean text of the kernel's namespace"""
        self.tmp = 0
        self.defs = []
        self.read_unbound = set()
        self.maybe_none = set(self.opt)
        body = list(self.body)
        if body and isinstance(body[-1], ast.Return):
            if body[-1].value is None:
                raise Unsupported("return without a value")
            ret = body.pop()
        elif body and self.is_forever(body[-1]):
            # the function ends in `while True:` that is only left by `return` (no `break`): nothing follows the loop; the
            # loop combinator can only hand back a state whose `ret` flag is raised, the other branch is an explicit error
            ret = None
        else:
            # the function falls off its end (returns None): its result is what it stored into its array parameters
            if any(isinstance(n, ast.Return) for b in body for n in ordered_nodes(b)):
                # the last statement is `while True:` without a `break` of its own: the loop is left by `return` only (or by an
                # error), the end of the function is unreachable and is rendered as an error branch that no run takes
                last = body[-1] if body else None
                if not (isinstance(last, ast.While) and isinstance(last.test, ast.Constant) and last.test.value is True
                        and not self.loops[id(last)][1]):
                    raise Unsupported("a function that returns a value on some paths only")
                ret = None
            elif self.yield_n is not None:
                if self.mutated:
                    raise Unsupported("a generator that stores into its parameters")
                ret = "yield"
            elif not self.mutated:
                raise Unsupported("the function returns nothing and stores into none of its parameters")
            else:
                ret = ast.Return(value=ast.Tuple(elts=[], ctx=ast.Load()))
        if self.yield_n is not None and ret != "yield":
            raise Unsupported("return in a generator")
        defined = {f"p{k}" for k in range(len(self.ptypes))}
        self.ret_types = None
        if self.name in KT4A_KERNELS:
            unreachable = f".error (.other {lean_str('while True left without return')})"
        else:
            unreachable = f".error (.other {lean_str('unreachable: end of a function that ends in `while True`')})"
        main, d = self.block(body, defined, None, top=True,
                             final=(lambda d: self.ret_final(ret, d)) if ret is not None else (lambda d: unreachable))
        rtype = LEAN_T[self.ret_types[0]] if len(self.ret_types) == 1 else \
            "(" + " × ".join(LEAN_T[t] for t in self.ret_types) + ")"
        missing = [v for v in self.locals if v not in self.env]
        if missing:
            raise Untyped(",".join(missing))
        fuel = self.has_while(self.body)
        fields = []
        for k, t in enumerate(self.ptypes):
            fields.append(f"  p{k} : {LEAN_T[{'opt_arr': 'arr', 'opt_int': 'int', 'oarr': 'arr'}.get(t, t)]}")
            if t in PRESENT:
                fields.append(f"  p{k}_some : Bool")
        for v in self.locals:
            fields.append(f"  {v} : {LEAN_T[self.env[v]]}")
            if v in self.flagged:
                fields.append(f"  {v}_def : Bool")
        for j in range(self.yield_n or 0):
            fields.append(f"  y{j} : List Int")
        for node_id, (k, hb, _, _, _) in sorted(self.loops.items(), key=lambda kv: kv[1][0]):
            if hb:
                fields.append(f"  brk{k} : Bool")
        for node_id, (k, _, _, _, hc) in sorted(self.loops.items(), key=lambda kv: kv[1][0]):
            if hc:
                fields.append(f"  cnt{k} : Bool")
        nslots = len(self.ret_types) - len(self.mutated) if self.loop_return else 0
        if self.loop_return:
            fields.append("  ret : Bool")
            for j in range(nslots):
                fields.append(f"  rv{j} : {LEAN_T[self.ret_types[j]]}")
        init = []
        for k, t in enumerate(self.ptypes):
            init.append(f"p{k} := " + (f"p{k}.getD []" if t == "opt_arr" else f"p{k}.getD 0, p{k}_some := p{k}.isSome"
                                       if t == "opt_int" else f"p{k}.getD [], p{k}_some := p{k}.isSome" if t == "oarr"
                                       else f"p{k}"))
        for v in self.locals:
            init.append(f"{v} := {DEFAULT[self.env[v]]}")
            if v in self.flagged:
                init.append(f"{v}_def := false")
        for j in range(self.yield_n or 0):
            init.append(f"y{j} := []")
        for node_id, (k, hb, _, _, _) in sorted(self.loops.items(), key=lambda kv: kv[1][0]):
            if hb:
                init.append(f"brk{k} := false")
        for node_id, (k, _, _, _, hc) in sorted(self.loops.items(), key=lambda kv: kv[1][0]):
            if hc:
                init.append(f"cnt{k} := false")
        if self.loop_return:
            init.append("ret := false")
            for j in range(nslots):
                init.append(f"rv{j} := {DEFAULT[self.ret_types[j]]}")
        params = " ".join(f"(p{k} : {LEAN_T[t]})" for k, t in enumerate(self.ptypes)) + (" (fuel : Nat)" if fuel else "")
        names = " ".join(f"{c}={self.orig[c]}" for c in [f"p{k}" for k in range(len(self.ptypes))] + self.locals)
        run_body = f"let s : St := {{ {', '.join(init)} }}\n{main}"
        mut = ("; result = returned value" + "".join(", final " + self.orig[p] for p in self.mutated)) if self.mutated else ""
        L = [f"/-! ### `{self.name}`  ({names}{mut}) -/", f"namespace {self.name}", "",
             "structure St where"] + fields + ["", *[d + "\n" for d in self.defs],
             f"/-- `{self.name}({', '.join(self.src_params)})` -/",
             f"def run {params} : Except Err ({rtype}) :=", ind(run_body, 2), "", f"end {self.name}", ""]
        self.has_fuel = fuel
        return "\n".join(L)

    def ret_final(self, ret, d):
        """`return E` (E a tuple: a product); the final contents of the arrays the kernel wrote into are appended"""
        if ret == "yield":
            self.ret_types = ["arr"] * self.yield_n
            vals = [f"s.y{j}" for j in range(self.yield_n)]
            return ".ok " + (vals[0] if len(vals) == 1 else "(" + ", ".join(vals) + ")")
        if isinstance(ret.value, ast.Tuple) and not ret.value.elts:
            parts = []                                              # a function without `return`
            types = [self.mut_part(p, d)[0] for p in self.mutated]
            if self.ret_types is not None and self.ret_types != types:
                raise Unsupported("return statements of different types")
            self.ret_types = types
        else:
            parts = self.ret_parts(ret, d)
        parts = parts + [self.mut_part(p, d) for p in self.mutated]
        binds = [b for p in parts for b in p[2]]
        rterm = parts[0][1] if len(parts) == 1 else "(" + ", ".join(p[1] for p in parts) + ")"
        return self.wrap(binds, f".ok {rterm}")

    def translate(self):
        # pass 1..n: type inference (a local is typed by the first assignment whose right-hand side is typed)
        self.flagged = set(self.locals)
        for _ in range(len(self.locals) + 2):
            before = dict(self.env)
            try:
                self.render()
                break
            except Untyped:
                if self.env == before:
                    raise Unsupported("cannot infer the types of the locals")
        else:
            raise Unsupported("cannot infer the types of the locals")
        # locals that are read where Python may not have bound them get a definedness flag
        self.flagged = set(self.read_unbound)
        return self.render()

    def dispatch_arm(self):
        n = len(self.ptypes)
        conv = {"int": "asInt?", "bool": "asBool?", "arr": "asArr?", "barr": "asBArr?", "opt_arr": "asOptArr?",
                "arr2": "asArr2?", "opt_int": "asOptInt?", "oarr": "asOptArr?", "arr2w": "asArr2?", "str": "asStr?"}
        mk = {"int": "Val.int", "bool": "Val.bool", "arr": "Val.arr", "barr": "Val.barr", "arr2": "Val.arr2", "arr2w": "Val.arr2",
              "str": "Val.str"}
        pats = ", ".join(f"a{k}" for k in range(n))
        scrut = ", ".join(f"a{k}.{conv[t]}" for k, t in enumerate(self.ptypes))
        somes = ", ".join(f"some x{k}" for k in range(n))
        args = " ".join(f"x{k}" for k in range(n)) + (" fuel" if self.has_fuel else "")
        def mkv(t, e):
            return f"(match {e} with | some a => Val.arr a | none => Val.none)" if t == "oarr" else f"{mk[t]} {e}"
        if len(self.ret_types) == 1:
            out = mkv(self.ret_types[0], "r")
        else:
            proj = []
            for k, t in enumerate(self.ret_types):
                path = ".2" * k + (".1" if k < len(self.ret_types) - 1 else "")
                proj.append(mkv(t, f"r{path}"))
            out = "Val.tup [" + ", ".join(proj) + "]"
        wild = ", ".join("_" for _ in range(n))
        return (f"  | {lean_str(self.name)}, [{pats}] =>\n    match {scrut} with\n    | {somes} =>\n"
                f"      some (match {self.name}.run {args} with | .ok r => .ok ({out}) | .error e => .error e)\n"
                f"    | {wild} => none")


def translate_all(repo):
    """→ (lean text, [(kernel, reason)] of kernels that could not be translated)"""
    trees = {}

    def functions_of(src):
        if src not in trees:
            try:
                tree = ast.parse((Path(repo) / src).read_text())
            except OSError:
                raise Unsupported("source file not found: " + src)
            trees[src] = {n.name: n for n in tree.body if isinstance(n, ast.FunctionDef)}
        return trees[src]
    done, failed = [], []
    TRANSLATED.clear()
    for entry in WHITELIST:
        name, ptypes = entry[0], entry[1]
        src = (entry[2] if len(entry) > 2 else {}).get("src", SRC)
        try:
            fns = functions_of(src)
            if name not in fns:
                raise Unsupported("function not found in " + src)
            if not is_njit(fns[name]):
                raise Unsupported("function is not decorated @exetera_njit")
            k = Kernel(fns[name], ptypes)
            text = k.translate()
            done.append((k, text))
            TRANSLATED[name] = k
        except Unsupported as e:
            failed.append((name, str(e)))
    L = ["-- generated by tools/translate.py (tools/translate_njit.py) from " + SRC + "; do not edit",
         "import Exetera.Model.PyRt",
         "set_option linter.unusedVariables false",
         "namespace Exetera.Gen.Kernels",
         "open Exetera Exetera.PyRt", ""]
    for k, text in done:
        L.append(text)
    L += ["/-- kernels translated in this run -/",
          "def translated : List String := [" + ", ".join(lean_str(k.name) for k, _ in done) + "]", "",
          "/-- whitelisted kernels the translator could NOT render (unsupported syntax): their ties are broken -/",
          "def failed : List (String × String) := [" + ", ".join(f"({lean_str(n)}, {lean_str(r)})" for n, r in failed) + "]", "",
          "/-- entry point of the driver op `gen_kernel` -/",
          "def dispatch (name : String) (args : List Val) (fuel : Nat) : Option (Except Err Val) :=",
          "  match name, args with"]
    for k, _ in done:
        L.append(k.dispatch_arm())
    L += ["  | _, _ => none", "", "end Exetera.Gen.Kernels", ""]
    return "\n".join(L), failed


def run(repo, out):
    text, failed = translate_all(repo)
    (Path(out) / "Kernels.lean").write_text(text)
    for n, r in failed:
        print(f"TRANSLATE-NJIT-FAIL kernel={n}: {r}")
    print(f"[translate_njit] {len(WHITELIST) - len(failed)}/{len(WHITELIST)} kernels translated")


if __name__ == "__main__":
    ap = argparse.ArgumentParser()
    ap.add_argument("--repo", default="/repo")
    ap.add_argument("--stdout", action="store_true")
    a = ap.parse_args()
    if a.stdout:
        t, f = translate_all(a.repo)
        print(t)
        for n, r in f:
            print(f"TRANSLATE-NJIT-FAIL kernel={n}: {r}", file=sys.stderr)
        sys.exit(1 if f else 0)
    run(a.repo, Path(__file__).resolve().parent.parent / "lean" / "Exetera" / "Gen")
