/-!
  C10 — access sites of `check_if_sorted_for_multi_fields`, the one compiled kernel that only `Model/GroupBy.lean`
  models (owning property C07; group-by also runs `_get_spans_for_multi_fields_njit` and the `apply_spans_*` kernels,
  see `KernelSitesSpans`). `Props/C10/GroupBy.lean` proves that the shape regenerated from the CURRENT source is this.

  Model ↔ site map: `fields_data[0]` = the `[]` case of `checkIfSorted` (`.oob "fields_data[0]"`); `fields_data[:, 0]`,
  `fields_data[:, i]` (a column of the stacked 2-D key array) = the `getE f (i - 1)`, `getE f i` of `rowLe`, one per
  field; `pre_row[j]`, `cur_row[j]` = structural recursion of `rowLe` on the list of fields (in range by
  `for j in range(field_count)`, in the table below).
-/
namespace Exetera.KernelSites

/-- the group-by kernel (C07) -/
def groupBySites : List (String × List String × List String) := [
  ("check_if_sorted_for_multi_fields",
    ["for i in range(1, total_row)", "for j in range(field_count)"],
    ["R cur_row[j]", "R fields_data[0]", "R fields_data[:, 0]", "R fields_data[:, i]", "R pre_row[j]"])
]


end Exetera.KernelSites
