"""Shared machinery of the /verif checks: Lean build + audit, model driver, implementation worker pools,
verdict pipeline, evidence writer.  Runs under /venv/bin/python (the interpreter ExeTera is installed for)."""
import fcntl
import json
import os
import re
import subprocess
import sys
import time
from pathlib import Path

VERIF = Path(__file__).resolve().parent.parent
LEAN = VERIF / "lean"
REPO = os.environ.get("EXETERA_REPO", "/repo")
PY = "/venv/bin/python"
DRIVER = LEAN / ".lake" / "build" / "bin" / "exetera_model"
ALLOWED_AXIOMS = {"propext", "Classical.choice", "Quot.sound"}
FORBIDDEN = re.compile(r"\b(sorry|admit|native_decide|bv_decide|implemented_by)\b|^\s*axiom\s|\bunsafe\s|maxHeartbeats\s+0\b")


def log(*a):
    print(*a, file=sys.stderr, flush=True)


# ----------------------------------------------------------------------------------------------------------------
# Lean side
# ----------------------------------------------------------------------------------------------------------------

class BuildLock:
    def __enter__(self):
        self.f = open(LEAN / ".verif-build.lock", "w")
        fcntl.flock(self.f, fcntl.LOCK_EX)
        return self

    def __exit__(self, *a):
        fcntl.flock(self.f, fcntl.LOCK_UN)
        self.f.close()


def repo_state():
    """(HEAD revision, digest of the working-tree difference) of REPO — a check whose workers may import the library at different
    moments is only meaningful if this did not move between its start and its end (DESIGN 8, two-mode run on a moving /repo)"""
    import hashlib
    try:
        h = subprocess.run(["git", "-C", REPO, "rev-parse", "--short", "HEAD"], stdout=subprocess.PIPE, stderr=subprocess.DEVNULL, text=True).stdout.strip()
        d = subprocess.run(["git", "-C", REPO, "diff", "HEAD", "--", "exetera"], stdout=subprocess.PIPE, stderr=subprocess.DEVNULL).stdout
        return h, hashlib.sha1(d).hexdigest()[:12]
    except Exception:
        return None, None


def translate():
    """Regenerate lean/Exetera/Gen/*.lean from the current source of REPO. Returns (ok, message)."""
    p = subprocess.run([PY, str(VERIF / "tools" / "translate.py"), "--repo", REPO],
                       stdout=subprocess.PIPE, stderr=subprocess.STDOUT, text=True)
    return p.returncode == 0, p.stdout


def failed_gen_files(translate_out):
    """the Gen modules left stale by failed translator steps (None = could not tell: treat every property as affected)"""
    gens = []
    for line in translate_out.splitlines():
        if line.startswith("TRANSLATE-FAIL"):
            m = re.search(r"gen=([\w,?]+)", line)
            if not m or "?" in m.group(1):
                return None
            gens += ["Exetera.Gen." + g for g in m.group(1).split(",")]
    return gens


def lean_imports(modules):
    """transitive `import Exetera.…` closure of the given modules (by reading the sources)"""
    seen, todo = set(), list(modules)
    while todo:
        m = todo.pop()
        if m in seen:
            continue
        seen.add(m)
        f = LEAN / (m.replace(".", "/") + ".lean")
        if not f.exists():
            continue
        for line in f.read_text().splitlines():
            mm = re.match(r"\s*import\s+((?:Exetera|Driver)[\w.]*)", line)
            if mm:
                todo.append(mm.group(1))
            elif line.strip() and not line.startswith(("import", "--", "/-")) and not line.startswith(" "):
                break
    return seen


def lake_build(targets, timeout=3000):
    """lake build of the given targets. Returns (ok, log)."""
    with BuildLock():
        p = subprocess.run(["lake", "build"] + list(targets), cwd=LEAN, stdout=subprocess.PIPE,
                           stderr=subprocess.STDOUT, text=True, timeout=timeout)
    return p.returncode == 0, p.stdout


def strip_comments(src):
    """remove Lean block comments (nested) and line comments"""
    out, i, depth = [], 0, 0
    n = len(src)
    while i < n:
        if src.startswith("/-", i):
            depth += 1
            i += 2
        elif depth and src.startswith("-/", i):
            depth -= 1
            i += 2
        elif depth:
            if src[i] == "\n":
                out.append("\n")
            i += 1
        elif src.startswith("--", i):
            while i < n and src[i] != "\n":
                i += 1
        else:
            out.append(src[i])
            i += 1
    return "".join(out)


def forbidden_scan():
    hits = []
    for f in sorted(LEAN.rglob("*.lean")):
        if ".lake" in f.parts:
            continue
        for ln, line in enumerate(strip_comments(f.read_text()).split("\n"), 1):
            if FORBIDDEN.search(line):
                hits.append(f"{f.relative_to(VERIF)}:{ln}: {line.strip()}")
    return hits


def audit(modules, theorems, timeout=1200):
    """`#print axioms` for every listed theorem. Returns {theorem: {'ok': bool, 'axioms': [...], 'msg': str}}."""
    res = {}
    if not theorems:
        return res
    src = "".join(f"import {m}\n" for m in modules) + "".join(f"#print axioms {t}\n" for t in theorems)
    tmp = LEAN / f".audit_{os.getpid()}.lean"
    tmp.write_text(src)
    try:
        with BuildLock():
            p = subprocess.run(["lake", "env", "lean", str(tmp)], cwd=LEAN, stdout=subprocess.PIPE,
                               stderr=subprocess.STDOUT, text=True, timeout=timeout)
    finally:
        tmp.unlink(missing_ok=True)
    out = p.stdout
    for t in theorems:
        short = t
        m = re.search(r"'" + re.escape(short) + r"' depends on axioms: \[([^\]]*)\]", out, re.S)
        if m:
            ax = [a.strip() for a in m.group(1).replace("\n", " ").split(",") if a.strip()]
            bad = [a for a in ax if a not in ALLOWED_AXIOMS]
            res[t] = {"ok": not bad, "axioms": ax, "msg": "" if not bad else f"non-standard axioms {bad}"}
        elif re.search(r"'" + re.escape(short) + r"' does not depend on any axioms", out):
            res[t] = {"ok": True, "axioms": [], "msg": ""}
        else:
            res[t] = {"ok": False, "axioms": [], "msg": "theorem missing or module failed to load"}
    if p.returncode != 0:
        for t in theorems:
            if res[t]["ok"] and "error" in out:
                pass
    missing = [t for t in theorems if not res[t]["ok"] and "missing" in res[t]["msg"]]
    if missing and len(modules) > 1:
        # one module that no longer builds makes the combined import fail and hides every theorem: audit the theorems of
        # each module (by name prefix) separately, so that only the obligations of the broken module are reported broken
        for m in sorted(modules, key=len, reverse=True):
            mine = [t for t in missing if t.startswith(m + ".")]
            missing = [t for t in missing if t not in mine]
            if mine:
                sub, sub_out = audit([m], mine, timeout)
                res.update(sub)
                out += sub_out
    return res, out


def run_model(cases, timeout=1800):
    """Pipe the case dicts through the compiled Lean driver; returns the list of parsed outputs."""
    if not cases:
        return []
    inp = "".join(json.dumps(c, separators=(",", ":")) + "\n" for c in cases)
    p = subprocess.run([str(DRIVER)], input=inp, stdout=subprocess.PIPE, stderr=subprocess.PIPE, text=True,
                       timeout=timeout)
    lines = p.stdout.split("\n")
    if lines and lines[-1] == "":
        lines.pop()
    if p.returncode != 0 or len(lines) != len(cases):
        raise RuntimeError(f"model driver failed rc={p.returncode} lines={len(lines)}/{len(cases)} {p.stderr[:500]}")
    return [json.loads(l) for l in lines]


# ----------------------------------------------------------------------------------------------------------------
# implementation side: sharded worker processes, each long-lived (numba compiles per process)
# ----------------------------------------------------------------------------------------------------------------

SKIPPED = {"err": "skipped-after-hangs"}      # not evaluated: the batch was cut short after VERIF_HANG_LIMIT hangs

MODE_ENV = {
    "jit": {},
    "nojit": {"USE_NUMBA": "false"},
    "bounds": {"NUMBA_BOUNDSCHECK": "1"},
}


def run_impl(harness, cases, mode="jit", nproc=None, stall_s=90, fn="impl", _retry=True):
    """Run `harness.<fn>(case)` for every case in worker subprocesses started in `mode`.
    A worker that makes no progress for `stall_s` seconds is killed and its current case reported as {'err':'hang'}.
    A small number (≤ 4) of reported hangs is only believed after the cases hung a second time in a fresh worker (on a
    loaded machine the first case of a worker can exceed the limit while numba compiles).
    Returns the list of results in case order."""
    n = len(cases)
    if n == 0:
        return []
    if _retry:
        res = run_impl(harness, cases, mode, nproc, stall_s, fn, _retry=False)
        hung = [i for i, r in enumerate(res) if isinstance(r, dict) and r.get("err") in ("hang",) or
                isinstance(r, dict) and str(r.get("err", "")).startswith("other:worker-exit")]
        if hung and len(hung) <= 4:
            # few enough to be an artefact of load (many hangs are a property of the code): once more, each in a fresh worker
            log(f"re-running {len(hung)} case(s) reported as hang/worker-exit, each in a fresh worker")
            again = [None] * len(hung)

            def one(k):
                again[k] = run_impl(harness, [cases[hung[k]]], mode, 1, stall_s, fn, _retry=False)[0]
            import threading as _th
            ts = [_th.Thread(target=one, args=(k,), daemon=True) for k in range(len(hung))]
            for t in ts:
                t.start()
            for t in ts:
                t.join()
            for i, r in zip(hung, again):
                res[i] = r
        return res
    nproc = max(1, min(nproc or int(os.environ.get("VERIF_NPROC", "0") or 0) or os.cpu_count() or 4, (n + 7) // 8))
    shards = [list(range(k, n, nproc)) for k in range(nproc)]
    results = [None] * n
    env = dict(os.environ)
    env.update(MODE_ENV[mode])
    env["EXETERA_REPO"] = REPO
    env["EXETERA_VERIF"] = "1"
    env["PYTHONWARNINGS"] = "ignore"
    env.setdefault("NUMBA_NUM_THREADS", "1")

    def start(idx_list):
        p = subprocess.Popen([PY, str(VERIF / "checks" / "worker.py"), harness, fn], stdin=subprocess.PIPE,
                             stdout=subprocess.PIPE, stderr=subprocess.DEVNULL, text=True, env=env, bufsize=1)
        payload = "".join(json.dumps(cases[i], separators=(",", ":")) + "\n" for i in idx_list)
        return p, payload

    import threading
    hang_limit = int(os.environ.get("VERIF_HANG_LIMIT", "3") or 3)
    hangs = [0]
    abort = threading.Event()

    def note_hang():
        # a hang is already a reportable result; many of them are a property of the code under test and every one costs a
        # full stall limit, so after `hang_limit` of them the rest of this batch is not run (SKIPPED results)
        hangs[0] += 1
        if hangs[0] >= hang_limit and n > hang_limit:
            abort.set()

    def drive(idx_list):
        pos = 0
        while pos < len(idx_list) and not abort.is_set():
            todo = idx_list[pos:]
            p, payload = start(todo)
            state = {"last": time.time(), "got": 0}

            def feeder():
                try:
                    p.stdin.write(payload)
                    p.stdin.close()
                except Exception:
                    pass

            def reader():
                for line in p.stdout:
                    line = line.strip()
                    if not line.startswith("{"):
                        continue
                    try:
                        results[todo[state["got"]]] = json.loads(line)
                    except Exception:
                        results[todo[state["got"]]] = {"err": "other:bad-worker-line"}
                    if isinstance(results[todo[state["got"]]], dict) and results[todo[state["got"]]].get("err") == "hang":
                        note_hang()
                    state["got"] += 1
                    state["last"] = time.time()

            tf = threading.Thread(target=feeder, daemon=True)
            tr = threading.Thread(target=reader, daemon=True)
            tf.start()
            tr.start()
            first = True
            while tr.is_alive():
                tr.join(timeout=1.0)
                limit = stall_s * (3 if first and state["got"] == 0 else 1)
                if tr.is_alive() and (abort.is_set() or time.time() - state["last"] > limit):
                    p.kill()
                    tr.join(timeout=5)
                    break
                if state["got"]:
                    first = False
            p.wait()
            got = state["got"]
            pos += got
            if pos < len(idx_list) and not abort.is_set():
                # the worker died or stalled on case idx_list[pos]
                rc = p.returncode
                results[idx_list[pos]] = {"err": "hang"} if rc in (-9, None) else {"err": f"other:worker-exit-{rc}"}
                if rc in (-9, None):
                    note_hang()
                pos += 1

    threads = [threading.Thread(target=drive, args=(s,), daemon=True) for s in shards if s]
    for t in threads:
        t.start()
    for t in threads:
        t.join()
    if abort.is_set():
        skipped = sum(1 for r in results if r is None)
        log(f"{hangs[0]} hangs in mode {mode}: the remaining {skipped} case(s) of this batch are skipped")
        results = [SKIPPED if r is None else r for r in results]
    return results


# ----------------------------------------------------------------------------------------------------------------
# anchor-function fingerprints (advisory: they never gate a verdict, they only deepen the correspondence run)
# ----------------------------------------------------------------------------------------------------------------

def changed_functions(prop):
    """anchor functions of `prop` whose normalised AST differs from the recorded fingerprint (or that disappeared)"""
    f = VERIF / "checks" / "fingerprints.json"
    if not f.exists():
        return []
    try:
        rec = json.load(open(f))
        if rec.get("python") != list(sys.version_info[:2]):
            return []
        sys.path.insert(0, str(VERIF / "tools"))
        import gen_fingerprints
        cur = gen_fingerprints.current(REPO, rec.get("files", []))
        return sorted(k for k in rec["by_property"].get(prop, []) if cur.get(k) != rec["functions"].get(k))
    except Exception as e:  # noqa  (advisory only)
        log("fingerprints unavailable:", e)
        return []


# ----------------------------------------------------------------------------------------------------------------
# known findings
# ----------------------------------------------------------------------------------------------------------------

def load_findings(prop):
    f = VERIF / "known_findings.json"
    if not f.exists():
        return []
    return [e for e in json.load(open(f))["findings"] if prop in e["properties"]]


# ----------------------------------------------------------------------------------------------------------------
# evidence
# ----------------------------------------------------------------------------------------------------------------

def write_evidence(prop, tier, seed, level, coverage, assumptions, wall_s, violations, scratch=False):
    # evidence/ only ever holds records of complete runs (build + audit + correspondence) against /repo itself; a run against
    # another checkout (EXETERA_REPO, e.g. a seeded change) or without the Lean steps leaves its record under replay/
    d = VERIF / ("replay" if scratch or os.path.realpath(REPO) != "/repo" else "evidence")
    d.mkdir(exist_ok=True)
    ev = {"property_id": prop, "tier": tier, "seed": seed, "level": level, "coverage": coverage,
          "assumptions": assumptions, "wall_s": round(wall_s, 2), "violations": violations}
    tmp = d / f".{prop}.json.tmp"
    tmp.write_text(json.dumps(ev, indent=1, default=str))
    tmp.replace(d / f"{prop}.json")


def canon(x):
    return json.dumps(x, sort_keys=True, separators=(",", ":"))
