import Exetera.Model.JoinOld
/-!
  `ordered_map_valid_stream_old` with the repair NC12a (fixes/NC12a_map_valid_stream_old_unmapped_row.patch) applied.

  As found (`JoinOld.mapOldBody`, the model C19 runs): when `ordered_map_valid_partial_old` returns without having consumed a
  map entry (`mm == 0`: the first entry of the view refers to a row at or beyond the end of the current data chunk) and there is
  no further data chunk to move to (`dd >= len(data_field)`: the entry is not a row of the source at all), the driver calls it
  again with the same views — forever. The repair raises a `ValueError` in exactly that situation:

      if dd >= df_range[1] and dd < len(data_field.data): …next data chunk…
      elif mm == 0: raise ValueError(…)

  The repaired body is the as-found body behind that test, so the two agree wherever the test does not fire.
-/
namespace Exetera.JoinOld
open Exetera

/-- one iteration of `while m < len(map_field.data)`, NC12a repaired -/
def mapOldBodyR {α} (data : List α) (map_ : List Int) (inv : Int) (cs : Nat) (zero : α) (s : MO α) : Except Err (MO α) :=
  match partialOldMap s.dlo s.dfc s.mfc inv zero cs with
  | .error e => .error e
  | .ok (buf, dd) =>
    if buf.length == 0 && !(dd ≥ (s.dhi : Int) && dd < (data.length : Int)) then
      .error (.valueError "map entry is not a row of data_field")
    else mapOldBody data map_ inv cs zero s

/-- `ordered_map_valid_stream_old`, NC12a repaired (same initial state and budget as `mapValidStreamOld`) -/
def mapValidStreamOldR {α} (data : List α) (map_ : List Int) (inv : Int) (cs : Nat) (zero : α) : Except Err (List α) :=
  let dr := (nextRange 0 data.length cs).getD (0, 0)
  let mr := (nextRange 0 map_.length cs).getD (0, 0)
  let s0 : MO α := { dcur := dr.2, dlo := dr.1, dhi := dr.2, mcur := mr.2, mhi := mr.2,
                     dfc := slice data dr.1 dr.2, mfc := slice map_ mr.1 mr.2 }
  match whileE (fun s : MO α => decide (s.m < map_.length)) (mapOldBodyR data map_ inv cs zero)
      (map_.length + data.length + 1) s0 with
  | .error e => .error e
  | .ok s => .ok s.out

end Exetera.JoinOld
