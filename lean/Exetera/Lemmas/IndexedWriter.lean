import Exetera.Model.IndexedWriter
import Exetera.Lemmas.Storage
import Exetera.Lemmas.Offsets
/-!
  The invariant of `WriteableIndexedFieldArray.write_part`:

    stored bytes ++ staged bytes   = all bytes consumed so far
    stored offsets ++ staged offsets = offsets of the entries finished so far   (the leading 0 counted as stored
                                                                                 as soon as anything is stored)
    `_accumulated`                 = number of bytes consumed so far
    both fill levels are strictly below the chunk size, both staging buffers have exactly chunk-size places

  It is kept by one byte (`putByte`), by the end of an entry (`endEntry`), hence by `putEntry`, `writePart` and any list
  of `write_part` calls; `complete` turns it into the round-trip statement.
-/
namespace Exetera.IndexedWriter

open Exetera Exetera.Storage Exetera.Spec

/-- the offsets that count as stored: the first flush also writes the leading `0` -/
def storedOffsets (ix : Arr Nat) : List Nat := if ix.contents = [] then [0] else ix.contents

structure Inv (s : WState) (c : Nat) (es : List Bytes) (cur : Bytes) : Prop where
  hc : s.c = c
  rvLen : s.rawValues.length = c
  riLen : s.rawIndices.length = c
  vi : s.valueIndex < c
  ii : s.indexIndex < c
  vals : s.values.contents ++ s.rawValues.take s.valueIndex = es.flatten ++ cur
  acc : s.accumulated = es.flatten.length + cur.length
  idx : storedOffsets s.indices ++ s.rawIndices.take s.indexIndex = offsets es

theorem take_succ_set {α} (xs : List α) (i : Nat) (b : α) (h : i < xs.length) :
    (xs.set i b).take (i + 1) = xs.take i ++ [b] := by
  rw [List.set_eq_take_append_cons_drop, if_pos h, List.take_append]
  simp [List.length_take, Nat.min_eq_left (Nat.le_of_lt h), List.take_take]

theorem setE_ok {α} (xs : List α) (i : Nat) (b : α) (site : String) (h : i < xs.length) :
    setE xs i b site = .ok (xs.set i b) := by simp [setE, h]

theorem putByte_inv {s : WState} {c : Nat} {es : List Bytes} {cur : Bytes} (h : Inv s c es cur) (b : Byte) :
    ∃ s', putByte .repaired s b = .ok s' ∧ Inv s' c es (cur ++ [b]) := by
  obtain ⟨hc, rvLen, riLen, vi, ii, vals, acc, idx⟩ := h
  have hlt : s.valueIndex < s.rawValues.length := by omega
  have hset := setE_ok s.rawValues s.valueIndex b "raw_values" hlt
  have htake := take_succ_set s.rawValues s.valueIndex b hlt
  unfold putByte
  simp only [hset]
  by_cases hfull : s.valueIndex + 1 = s.c
  · have hb : (s.valueIndex + 1 == s.c) = true := by simp [hfull]
    simp only [hb, if_true, Arr.writePart_repaired]
    refine ⟨_, rfl, ⟨hc, ?_, riLen, ?_, ii, ?_, ?_, idx⟩⟩
    · simp [rvLen]
    · simp; omega
    · simp only [Arr.contents_appended, List.take_zero, List.append_nil, htake]
      rw [← List.append_assoc, vals, List.append_assoc]
    · simp [acc]; omega
  · have hb : (s.valueIndex + 1 == s.c) = false := by simp [hfull]
    simp only [hb, Bool.false_eq_true, if_false]
    refine ⟨_, rfl, ⟨hc, ?_, riLen, ?_, ii, ?_, ?_, idx⟩⟩
    · simp [rvLen]
    · simp; omega
    · simp only [htake]
      rw [← List.append_assoc, vals, List.append_assoc]
    · simp [acc]; omega

theorem putBytes_inv {c : Nat} {es : List Bytes} (bs : Bytes) :
    ∀ (s : WState) (cur : Bytes), Inv s c es cur →
      ∃ s', foldE (putByte .repaired) s bs = .ok s' ∧ Inv s' c es (cur ++ bs) :=
  foldE_rule (putByte .repaired) (fun s cur => Inv s c es cur) (fun _ _ b h => putByte_inv h b) bs

theorem storedOffsets_ne_nil (ix : Arr Nat) : storedOffsets ix ≠ [] := by
  unfold storedOffsets; split <;> simp_all

theorem sentinel_repaired (ix : Arr Nat) :
    ∃ ix0, sentinel .repaired ix = .ok ix0 ∧ ix0.contents = storedOffsets ix := by
  unfold sentinel storedOffsets Arr.len
  by_cases h : ix.contents = []
  · simp [h, Arr.writePart_repaired]
  · have : ix.contents.length ≠ 0 := by simpa using h
    simp [h, this]

theorem storedOffsets_of_ne_nil {ix : Arr Nat} (h : ix.contents ≠ []) : storedOffsets ix = ix.contents := by
  simp [storedOffsets, h]

theorem endEntry_inv {s : WState} {c : Nat} {es : List Bytes} {cur : Bytes} (h : Inv s c es cur) :
    ∃ s', endEntry .repaired s = .ok s' ∧ Inv s' c (es ++ [cur]) [] := by
  obtain ⟨hc, rvLen, riLen, vi, ii, vals, acc, idx⟩ := h
  have hlt : s.indexIndex < s.rawIndices.length := by omega
  have hset := setE_ok s.rawIndices s.indexIndex s.accumulated "raw_indices" hlt
  have htake := take_succ_set s.rawIndices s.indexIndex s.accumulated hlt
  have hvals : s.values.contents ++ s.rawValues.take s.valueIndex = (es ++ [cur]).flatten ++ [] := by
    simp [vals]
  have hacc : s.accumulated = (es ++ [cur]).flatten.length + ([] : Bytes).length := by simp [acc]
  have hoff : offsets (es ++ [cur]) = offsets es ++ [s.accumulated] := by rw [offsets_snoc, acc]
  unfold endEntry
  simp only [hset]
  by_cases hfull : s.indexIndex + 1 = s.c
  · have hb : (s.indexIndex + 1 == s.c) = true := by simp [hfull]
    obtain ⟨ix0, hs, hix0⟩ := sentinel_repaired s.indices
    simp only [hb, if_true, hs, Arr.writePart_repaired]
    refine ⟨_, rfl, ⟨hc, rvLen, ?_, vi, ?_, hvals, hacc, ?_⟩⟩
    · simp [riLen]
    · simp; omega
    · simp only [htake, List.take_zero, List.append_nil, hoff]
      have hne : (ix0.appended (List.take s.indexIndex s.rawIndices ++ [s.accumulated])).contents ≠ [] := by simp
      rw [storedOffsets_of_ne_nil hne, Arr.contents_appended, hix0, ← List.append_assoc, idx]
  · have hb : (s.indexIndex + 1 == s.c) = false := by simp [hfull]
    simp only [hb, Bool.false_eq_true, if_false]
    refine ⟨_, rfl, ⟨hc, rvLen, ?_, vi, ?_, hvals, hacc, ?_⟩⟩
    · simp [riLen]
    · simp; omega
    · simp only [htake, hoff]
      rw [← List.append_assoc, idx]

theorem putEntry_inv {s : WState} {c : Nat} {es : List Bytes} (h : Inv s c es []) (e : Bytes) :
    ∃ s', putEntry .repaired s e = .ok s' ∧ Inv s' c (es ++ [e]) [] := by
  obtain ⟨s1, h1, hI1⟩ := putBytes_inv e s [] h
  obtain ⟨s2, h2, hI2⟩ := endEntry_inv hI1
  refine ⟨s2, ?_, by simpa using hI2⟩
  simp [putEntry, h1, h2]

theorem writePart_inv {c : Nat} (part : List Bytes) :
    ∀ (s : WState) (es : List Bytes), Inv s c es [] →
      ∃ s', writePart .repaired s part = .ok s' ∧ Inv s' c (es ++ part) [] :=
  foldE_rule (putEntry .repaired) (fun s es => Inv s c es []) (fun _ _ e h => putEntry_inv h e) part

theorem writeParts_inv {c : Nat} (parts : List (List Bytes)) :
    ∀ (s : WState) (es : List Bytes), Inv s c es [] →
      ∃ s', foldE (writePart .repaired) s parts = .ok s' ∧ Inv s' c (es ++ parts.flatten) [] := by
  intro s es h
  have := foldE_rule (writePart .repaired) (fun (s : WState) (done : List (List Bytes)) => Inv s c (es ++ done.flatten) [])
    (by
      intro s done p hI
      obtain ⟨s', h1, h2⟩ := writePart_inv p s _ hI
      exact ⟨s', h1, by simpa [List.append_assoc] using h2⟩)
    parts s [] (by simpa using h)
  simpa using this

/-- what `complete()` establishes -/
structure Completed (s : WState) (es : List Bytes) : Prop where
  values : s.values.contents = es.flatten
  indices : s.indices.contents = offsets es
  valueIndex : s.valueIndex = 0
  indexIndex : s.indexIndex = 0

theorem flushValues_inv {s : WState} {c : Nat} {es : List Bytes} (h : Inv s c es []) :
    ∃ s1, flushValues .repaired s = .ok s1 ∧ Inv s1 c es [] ∧ s1.values.contents = es.flatten ∧ s1.valueIndex = 0 := by
  obtain ⟨hc, rvLen, riLen, vi, ii, vals, acc, idx⟩ := h
  have vals' := vals
  simp only [List.append_nil] at vals'
  unfold flushValues
  by_cases h0 : s.valueIndex = 0
  · refine ⟨s, by simp [h0], ⟨hc, rvLen, riLen, vi, ii, vals, acc, idx⟩, ?_, h0⟩
    simpa [h0] using vals'
  · have hb : (s.valueIndex != 0) = true := by simp [h0]
    simp only [hb, if_true, Arr.writePart_repaired]
    refine ⟨_, rfl, ⟨hc, rvLen, riLen, by simp; omega, ii, ?_, acc, idx⟩, by simpa using vals', rfl⟩
    simpa using vals'

theorem flushIndices_inv {s1 : WState} {c : Nat} {es : List Bytes} (h : Inv s1 c es []) :
    ∃ s', flushIndices .repaired s1 = .ok s' ∧ Inv s' c es [] ∧ s'.indices.contents = offsets es ∧ s'.indexIndex = 0 ∧
      s'.values = s1.values ∧ s'.valueIndex = s1.valueIndex := by
  obtain ⟨hc, rvLen, riLen, vi, ii, vals, acc, idx⟩ := h
  have hstored : ∀ ix : Arr Nat, ix.contents = offsets es → storedOffsets ix ++ List.take 0 s1.rawIndices = offsets es := by
    intro ix hix
    rw [storedOffsets_of_ne_nil (by rw [hix]; exact offsets_ne_nil es), hix]; simp
  unfold flushIndices
  by_cases hi0 : s1.indexIndex = 0
  · -- nothing staged: the repaired code writes the leading 0 when the index is still empty
    have hidx : storedOffsets s1.indices = offsets es := by simpa [hi0] using idx
    have hb : (s1.indexIndex != 0) = false := by simp [hi0]
    simp only [hb, Bool.false_eq_true, if_false]
    by_cases hemp : s1.indices.contents = []
    · have hlen : (s1.indices.len == 0) = true := by simp [Arr.len, hemp]
      simp only [hlen, if_true, Arr.writePart_repaired]
      have hnew : (s1.indices.appended [0]).contents = offsets es := by simp [hemp, ← hidx, storedOffsets]
      refine ⟨_, rfl, ⟨hc, rvLen, riLen, vi, ii, vals, acc, ?_⟩, hnew, hi0, rfl, rfl⟩
      simpa [hi0] using hstored _ hnew
    · have hlen : (s1.indices.len == 0) = false := by simpa [Arr.len] using hemp
      simp only [hlen, Bool.false_eq_true, if_false]
      refine ⟨_, rfl, ⟨hc, rvLen, riLen, vi, ii, vals, acc, idx⟩, ?_, hi0, rfl, rfl⟩
      rw [← hidx, storedOffsets_of_ne_nil hemp]
  · have hb : (s1.indexIndex != 0) = true := by simp [hi0]
    obtain ⟨ix0, hs, hix0⟩ := sentinel_repaired s1.indices
    simp only [hb, if_true, hs, Arr.writePart_repaired]
    have hnew : (ix0.appended (List.take s1.indexIndex s1.rawIndices)).contents = offsets es := by
      simp only [Arr.contents_appended, hix0, idx]
    refine ⟨_, rfl, ⟨hc, rvLen, riLen, vi, by simp; omega, vals, acc, ?_⟩, hnew, rfl, rfl, rfl⟩
    exact hstored _ hnew

/-- `complete()` drains both buffers, establishes the round-trip equations and keeps the invariant (so the same writer
    object can go on with further `write_part` calls) -/
theorem complete_inv {s : WState} {c : Nat} {es : List Bytes} (h : Inv s c es []) :
    ∃ s', complete .repaired s = .ok s' ∧ Completed s' es ∧ Inv s' c es [] := by
  obtain ⟨s1, hs1, hI1, hv1, hvi1⟩ := flushValues_inv h
  obtain ⟨s2, hs2, hI2, hi2, hii2, hv2, hvi2⟩ := flushIndices_inv hI1
  exact ⟨s2, by simp [complete, hs1, hs2], ⟨by rw [hv2, hv1], hi2, by rw [hvi2, hvi1], hii2⟩, hI2⟩

theorem writeRound_inv {s : WState} {c : Nat} {es : List Bytes} (h : Inv s c es []) (parts : List (List Bytes)) :
    ∃ s', writeRound .repaired s parts = .ok s' ∧ Completed s' (es ++ parts.flatten) ∧ Inv s' c (es ++ parts.flatten) [] := by
  obtain ⟨s1, h1, hI⟩ := writeParts_inv parts s es h
  obtain ⟨s2, h2, hC, hI2⟩ := complete_inv hI
  exact ⟨s2, by simp [writeRound, h1, h2], hC, hI2⟩

/-- the initial state of a writer on a field that holds the entries `xs0` satisfies the invariant -/
theorem init_inv (c : Nat) (hc : 1 ≤ c) (ix : Arr Nat) (vals : Arr Byte) (xs0 : List Bytes)
    (hv : vals.contents = xs0.flatten) (hi : ix.contents = offsets xs0 ∨ (ix.contents = [] ∧ xs0 = [])) :
    Inv (WState.init c ix vals) c xs0 [] := by
  refine ⟨rfl, by simp [WState.init], by simp [WState.init], by simp [WState.init]; omega,
    by simp [WState.init]; omega, by simp [WState.init, hv], ?_, ?_⟩
  · cases hi with
    | inl h => simp [WState.init, h, offsets_getLast?]
    | inr h => simp [WState.init, h.1, h.2]
  · cases hi with
    | inl h => simp [WState.init, storedOffsets, h, offsets_ne_nil]
    | inr h => simp [WState.init, storedOffsets, h.1, h.2]

/-- what holds between rounds: the invariant, and the stored arrays are those of the entries written so far (a field
    nothing was completed on yet may still have no offsets at all) -/
structure Stored (s : WState) (c : Nat) (es : List Bytes) : Prop where
  inv : Inv s c es []
  values : s.values.contents = es.flatten
  indices : s.indices.contents = offsets es ∨ (s.indices.contents = [] ∧ es = [])

theorem writeRounds_inv (c : Nat) (hc : 1 ≤ c) (h5 rewrap : Bool) (rounds : List (List (List Bytes))) :
    ∃ s, writeRounds .repaired c h5 rewrap rounds = .ok s ∧ Stored s c (rounds.map List.flatten).flatten ∧
      (rounds ≠ [] → Completed s (rounds.map List.flatten).flatten) := by
  have h0 : Inv (WState.init c (Arr.fresh h5) (Arr.fresh h5)) c [] [] :=
    init_inv c hc _ _ [] (by simp) (Or.inr ⟨by simp, rfl⟩)
  have := foldE_rule
    (fun s parts => writeRound .repaired (if rewrap then WState.init c s.indices s.values else s) parts)
    (fun (s : WState) (done : List (List (List Bytes))) =>
      Stored s c (done.map List.flatten).flatten ∧ (done ≠ [] → Completed s (done.map List.flatten).flatten))
    (by
      intro s done parts hP
      obtain ⟨⟨hI, hv, hi⟩, _⟩ := hP
      have hI0 : Inv (if rewrap then WState.init c s.indices s.values else s) c (done.map List.flatten).flatten [] := by
        cases rewrap with
        | false => simpa using hI
        | true => simpa using init_inv c hc s.indices s.values _ hv hi
      obtain ⟨s', h1, hC, hI'⟩ := writeRound_inv hI0 parts
      refine ⟨s', h1, ?_⟩
      have he : ((done ++ [parts]).map List.flatten).flatten = (done.map List.flatten).flatten ++ parts.flatten := by simp
      rw [he]
      exact ⟨⟨hI', hC.values, Or.inl hC.indices⟩, fun _ => hC⟩)
    rounds (WState.init c (Arr.fresh h5) (Arr.fresh h5)) []
    ⟨⟨by simpa using h0, by simp [WState.init], Or.inr ⟨by simp [WState.init], by simp⟩⟩, by simp⟩
  simpa [writeRounds] using this

end Exetera.IndexedWriter
