import Exetera.Model.Dates
import Exetera.Spec.Dates
/-! Lemmas about `Dates.offsetMap` and `Dates.getPeriodOffsets` (C20). Core Lean only. -/
namespace Exetera.Dates
open Exetera Exetera.Spec.Dates

/-! ### half-open intervals of ascending boundaries -/

theorem inPeriod_succ {a : Int} {bs : List Int} {j : Nat} {x : Int} :
    InPeriod (a :: bs) (j + 1) x ↔ InPeriod bs j x := by
  simp [InPeriod]

theorem inPeriod_zero {a b : Int} {bs : List Int} {x : Int} :
    InPeriod (a :: b :: bs) 0 x ↔ a ≤ x ∧ x < b := by
  simp [InPeriod]

theorem not_inPeriod_single (a : Int) (j : Nat) (x : Int) : ¬ InPeriod [a] j x := by
  rintro ⟨lo, hi, _, h2, _⟩
  simp at h2

theorem ascending_head_le {a : Int} {bs : List Int} (h : Ascending (a :: bs)) {x : Int} (hx : x ∈ a :: bs) : a ≤ x := by
  rcases List.mem_cons.mp hx with rfl | hx
  · exact Int.le_refl _
  · exact (List.pairwise_cons.mp h).1 x hx

theorem ascending_tail {a : Int} {bs : List Int} (h : Ascending (a :: bs)) : Ascending bs :=
  (List.pairwise_cons.mp h).2

/-- below the first boundary no interval contains `x` -/
theorem not_inPeriod_below {a : Int} {bs : List Int} (h : Ascending (a :: bs)) {x : Int} (hx : x < a) (j : Nat) :
    ¬ InPeriod (a :: bs) j x := by
  rintro ⟨lo, hi, h1, _, h3, _⟩
  have := ascending_head_le h (List.mem_of_getElem? h1)
  omega

theorem ascending_le_getLast : ∀ (bs : List Int) (a : Int), Ascending (a :: bs) →
    ∀ l, (a :: bs).getLast? = some l → ∀ x ∈ a :: bs, x ≤ l := by
  intro bs
  induction bs with
  | nil =>
    intro a _ l hl x hx
    simp at hl hx
    omega
  | cons b bs ih =>
    intro a h l hl x hx
    have hl' : (b :: bs).getLast? = some l := by simpa [List.getLast?_cons_cons] using hl
    have hb := ih b (ascending_tail h) l hl'
    rcases List.mem_cons.mp hx with rfl | hx
    · have h1 := ascending_head_le h (List.mem_cons_of_mem x (List.mem_cons_self))
      have h2 := hb b List.mem_cons_self
      omega
    · exact hb x hx

/-- between the first and the last boundary some interval contains `x` -/
theorem exists_inPeriod : ∀ (bs : List Int) (a : Int), Ascending (a :: bs) →
    ∀ l, (a :: bs).getLast? = some l → ∀ x, a ≤ x → x < l → ∃ j, InPeriod (a :: bs) j x := by
  intro bs
  induction bs with
  | nil =>
    intro a _ l hl x h1 h2
    simp at hl
    omega
  | cons b bs ih =>
    intro a h l hl x h1 h2
    have hl' : (b :: bs).getLast? = some l := by simpa [List.getLast?_cons_cons] using hl
    by_cases hxb : x < b
    · exact ⟨0, inPeriod_zero.mpr ⟨h1, hxb⟩⟩
    · obtain ⟨j, hj⟩ := ih b (ascending_tail h) l hl' x (by omega) h2
      exact ⟨j + 1, inPeriod_succ.mpr hj⟩

/-- the containing interval is unique -/
theorem inPeriod_unique {bs : List Int} (h : Ascending bs) {j j' : Nat} {x : Int}
    (h1 : InPeriod bs j x) (h2 : InPeriod bs j' x) : j = j' := by
  obtain ⟨lo, hi, a1, a2, a3, a4⟩ := h1
  obtain ⟨lo', hi', b1, b2, b3, b4⟩ := h2
  have key : ∀ (i i' : Nat) (u v : Int), bs[i]? = some u → bs[i']? = some v → i ≤ i' → u ≤ v := by
    intro i i' u v hu hv hle
    obtain ⟨hi1, rfl⟩ := List.getElem?_eq_some_iff.mp hu
    obtain ⟨hi2, rfl⟩ := List.getElem?_eq_some_iff.mp hv
    rcases Nat.lt_or_eq_of_le hle with hlt | rfl
    · exact (List.pairwise_iff_getElem.mp h) i i' hi1 hi2 hlt
    · exact Int.le_refl _
  rcases Nat.lt_trichotomy j j' with hlt | heq | hgt
  · have := key (j + 1) j' hi lo' a2 b1 (by omega); omega
  · exact heq
  · have := key (j' + 1) j hi' lo b2 a1 (by omega); omega

/-! ### slice assignment -/

theorem normIdx_of_range {n : Nat} {a : Int} (h0 : 0 ≤ a) (hn : a ≤ n) : normIdx n a = a.toNat := by
  unfold normIdx
  rw [if_neg (by omega)]
  omega

theorem sliceAssign_length (buf : List Int) (a b v : Int) : (sliceAssign buf a b v).length = buf.length := by
  simp [sliceAssign]

theorem sliceAssign_get {buf : List Int} {a b : Int} (v : Int) (ha0 : 0 ≤ a) (ha : a ≤ buf.length) (hb0 : 0 ≤ b)
    (hb : b ≤ buf.length) (d : Nat) (hd : d < buf.length) :
    (sliceAssign buf a b v)[d]? = if a ≤ d ∧ (d : Int) < b then some v else buf[d]? := by
  simp only [sliceAssign, List.getElem?_mapIdx, normIdx_of_range ha0 ha, normIdx_of_range hb0 hb,
    List.getElem?_eq_getElem hd, Option.map_some]
  by_cases h : a ≤ d ∧ (d : Int) < b
  · rw [if_pos h, if_pos (by omega)]
  · rw [if_neg h, if_neg (by omega)]

/-! ### the fill loop -/

theorem fillLoop_spec : ∀ (rest : List Int) (a : Int) (i : Nat) (buf : List Int), Ascending (a :: rest) → 0 ≤ a →
    (∀ x ∈ a :: rest, x ≤ (buf.length : Int)) →
    (fillLoop (a :: rest) i buf).length = buf.length ∧ ∀ d : Nat, d < buf.length →
      (∀ j, InPeriod (a :: rest) j d → (fillLoop (a :: rest) i buf)[d]? = some ((i + j : Nat) : Int)) ∧
      ((∀ j, ¬ InPeriod (a :: rest) j d) → (fillLoop (a :: rest) i buf)[d]? = buf[d]?) := by
  intro rest
  induction rest with
  | nil =>
    intro a i buf _ _ _
    refine ⟨rfl, fun d _ => ⟨fun j hj => absurd hj (not_inPeriod_single a j d), fun _ => rfl⟩⟩
  | cons b rest ih =>
    intro a i buf hasc ha0 hbound
    have hab : a ≤ b := ascending_head_le hasc (List.mem_cons_of_mem a List.mem_cons_self)
    have ha : a ≤ (buf.length : Int) := hbound a List.mem_cons_self
    have hb : b ≤ (buf.length : Int) := hbound b (List.mem_cons_of_mem a List.mem_cons_self)
    have hlen' := sliceAssign_length buf a b (i : Int)
    have hstep : fillLoop (a :: b :: rest) i buf = fillLoop (b :: rest) (i + 1) (sliceAssign buf a b (i : Int)) := rfl
    obtain ⟨hl, hget⟩ := ih b (i + 1) (sliceAssign buf a b (i : Int)) (ascending_tail hasc) (by omega)
      (by intro x hx; rw [hlen']; exact hbound x (List.mem_cons_of_mem a hx))
    rw [hstep]
    refine ⟨by rw [hl, hlen'], ?_⟩
    intro d hd
    obtain ⟨h1, h2⟩ := hget d (by rw [hlen']; exact hd)
    have hsl := sliceAssign_get (i : Int) ha0 ha (by omega) hb d hd
    constructor
    · intro j hj
      cases j with
      | zero =>
        obtain ⟨hlo, hhi⟩ := inPeriod_zero.mp hj
        rw [h2 (fun j' => not_inPeriod_below (ascending_tail hasc) hhi j'), hsl, if_pos ⟨hlo, hhi⟩]
        simp
      | succ j =>
        rw [h1 j (inPeriod_succ.mp hj)]
        congr 2
        omega
    · intro hno
      have hno0 : ¬(a ≤ (d : Int) ∧ (d : Int) < b) := fun h => hno 0 (inPeriod_zero.mpr h)
      rw [h2 (fun j hj => hno (j + 1) (inPeriod_succ.mpr hj)), hsl, if_neg hno0]

/-! ### generate_period_offset_map on ascending boundaries -/

theorem periodDeltas_cons (p0 : Int) (rest : List Int) :
    periodDeltas (p0 :: rest) = 0 :: rest.map (fun p => (p - p0) / 86400) := by
  simp [periodDeltas]

theorem periodDeltas_ascending {ps : List Int} (h : Ascending ps) : Ascending (periodDeltas ps) := by
  cases ps with
  | nil => simp [periodDeltas, Ascending]
  | cons p0 rest =>
    unfold periodDeltas Ascending
    refine List.Pairwise.map _ ?_ h
    intro a b hab
    omega

theorem periodDeltas_getLast? (p0 : Int) (rest : List Int) :
    (periodDeltas (p0 :: rest)).getLast? = ((p0 :: rest).getLast?).map (fun p => (p - p0) / 86400) := by
  simp only [periodDeltas, List.getLast?_map]

/-- the map produced for ascending boundaries -/
theorem offsetMap_spec (p0 : Int) (rest : List Int) (hasc : Ascending (p0 :: rest)) :
    ∃ m l, (p0 :: rest).getLast? = some l ∧ offsetMap (p0 :: rest) = .ok m ∧
      (m.length : Int) = (l - p0) / 86400 ∧
      ∀ d : Nat, d < m.length → ∃ k : Nat, m[d]? = some (k : Int) ∧ InPeriod (periodDeltas (p0 :: rest)) k d := by
  obtain ⟨l, hl⟩ : ∃ l, (p0 :: rest).getLast? = some l := by
    cases h : (p0 :: rest).getLast? with
    | none => simp at h
    | some l => exact ⟨l, rfl⟩
  have hp0l : p0 ≤ l := ascending_head_le hasc (List.mem_of_getLast? hl)
  have hdl : (periodDeltas (p0 :: rest)).getLast? = some ((l - p0) / 86400) := by
    rw [periodDeltas_getLast?, hl]; rfl
  have hlast0 : 0 ≤ (l - p0) / 86400 := by omega
  have hdasc := periodDeltas_ascending hasc
  rw [periodDeltas_cons] at hdasc hdl
  have hbound : ∀ x ∈ (0 : Int) :: rest.map (fun p => (p - p0) / 86400),
      x ≤ ((List.replicate ((l - p0) / 86400).toNat (0 : Int)).length : Int) := by
    intro x hx
    have := ascending_le_getLast _ _ hdasc _ hdl x hx
    simp only [List.length_replicate]
    omega
  obtain ⟨hlen, hget⟩ := fillLoop_spec (rest.map (fun p => (p - p0) / 86400)) 0 0
    (List.replicate ((l - p0) / 86400).toNat 0) hdasc (Int.le_refl 0) hbound
  refine ⟨fillLoop (periodDeltas (p0 :: rest)) 0 (List.replicate ((l - p0) / 86400).toNat 0), l, hl, ?_, ?_, ?_⟩
  · unfold offsetMap
    simp only [periodDeltas_cons] at hdl ⊢
    rw [hdl]
    simp only []
    rw [if_neg (by omega)]
  · rw [periodDeltas_cons, hlen]
    simp only [List.length_replicate]
    omega
  · rw [periodDeltas_cons, hlen]
    intro d hd
    have hd' : (d : Int) < (l - p0) / 86400 := by
      simp only [List.length_replicate] at hd
      omega
    obtain ⟨j, hj⟩ := exists_inPeriod _ _ hdasc _ hdl (d : Int) (by omega) hd'
    refine ⟨j, ?_, hj⟩
    have := (hget d hd).1 j hj
    simpa using this

/-! ### get_period_offsets -/

theorem fancyGet_of_range {pbd : List Int} {d : Int} (h0 : 0 ≤ d) (h1 : d < pbd.length) :
    ∃ v, fancyGet pbd d = .ok v ∧ pbd[d.toNat]? = some v := by
  have hlt : d.toNat < pbd.length := by omega
  refine ⟨pbd[d.toNat], ?_, List.getElem?_eq_getElem hlt⟩
  unfold fancyGet
  rw [if_pos h0]
  exact getE_of_lt _ hlt

/-- the masked lookup: every flagged day inside the map ⇒ `.ok`, flagged rows get the map entry, the others −1 -/
theorem lookupMasked_spec (pbd : List Int) : ∀ (days : List Int) (flags : List Bool), flags.length = days.length →
    (∀ (i : Nat) (d : Int), days[i]? = some d → flags[i]? = some true → 0 ≤ d ∧ d < pbd.length) →
    ∃ out, lookupMasked pbd days flags = .ok out ∧ out.length = days.length ∧
      ∀ (i : Nat) (d : Int), days[i]? = some d →
        out[i]? = if flags[i]? = some true then pbd[d.toNat]? else some (-1) := by
  intro days
  induction days with
  | nil =>
    intro flags hl _
    have : flags = [] := List.eq_nil_of_length_eq_zero (by simpa using hl)
    subst this
    exact ⟨[], rfl, rfl, by simp⟩
  | cons d ds ih =>
    intro flags hl hin
    cases flags with
    | nil => simp at hl
    | cons b bs =>
      obtain ⟨outs, ho, hlo, hgo⟩ := ih bs (by simpa using hl)
        (fun i d' h1 h2 => hin (i + 1) d' (by simpa using h1) (by simpa using h2))
      cases b with
      | false =>
        refine ⟨-1 :: outs, by simp [lookupMasked, ho], by simp [hlo], ?_⟩
        intro i d' hd'
        cases i with
        | zero => simp
        | succ i => simpa using hgo i d' (by simpa using hd')
      | true =>
        obtain ⟨h0, h1⟩ := hin 0 d (by simp) (by simp)
        obtain ⟨v, hv, hpv⟩ := fancyGet_of_range h0 h1
        refine ⟨v :: outs, by simp [lookupMasked, hv, ho], by simp [hlo], ?_⟩
        intro i d' hd'
        cases i with
        | zero =>
          simp only [List.getElem?_cons_zero, Option.some.injEq] at hd'
          subst hd'
          simp [hpv]
        | succ i => simpa using hgo i d' (by simpa using hd')

/-- the unmasked lookup -/
theorem lookupAll_spec (pbd : List Int) : ∀ (days : List Int),
    (∀ (i : Nat) (d : Int), days[i]? = some d → 0 ≤ d ∧ d < pbd.length) →
    ∃ out, lookupAll pbd days = .ok out ∧ out.length = days.length ∧
      ∀ (i : Nat) (d : Int), days[i]? = some d → out[i]? = pbd[d.toNat]? := by
  intro days
  induction days with
  | nil => intro _; exact ⟨[], rfl, rfl, by simp⟩
  | cons d ds ih =>
    intro hin
    obtain ⟨outs, ho, hlo, hgo⟩ := ih (fun i d' h1 => hin (i + 1) d' (by simpa using h1))
    obtain ⟨h0, h1⟩ := hin 0 d (by simp)
    obtain ⟨v, hv, hpv⟩ := fancyGet_of_range h0 h1
    refine ⟨v :: outs, by simp [lookupAll, hv, ho], by simp [hlo], ?_⟩
    intro i d' hd'
    cases i with
    | zero =>
      simp only [List.getElem?_cons_zero, Option.some.injEq] at hd'
      subst hd'
      simp [hpv]
    | succ i => simpa using hgo i d' (by simpa using hd')

end Exetera.Dates
