import Exetera.Gen.Kernels
import Exetera.Lemmas.GenKernels
import Exetera.Lemmas.GenKernelsSpans
/-!
  The TRANSLATED `_get_spans_for_2_fields_by_spans` (a `for` loop around a `while` loop whose guard subscripts, appending
  to a list) refines the hand-written model `Spans.getSpansFor2FieldsBySpans` (= `mergeLoop`, a recursion on the two
  remaining suffixes) for every fuel ≥ len(span1).
-/
namespace Exetera.GenK

open Exetera Exetera.PyRt Exetera.Spans Exetera.Gen.Kernels

namespace Merge

abbrev St := _get_spans_for_2_fields_by_spans.St

/-- the `if j < len(span1)` block of one iteration, once `j < len(span1)` is known: the `while`, then the `==` test -/
def advBlock (fuel : Nat) (s : St) : Except Err St :=
  bindE (whileG _get_spans_for_2_fields_by_spans.guardE_L2 _get_spans_for_2_fields_by_spans.body_L2 fuel s) fun s =>
  bindE (idxE s.p1 s.v1 "p1[v1]") fun t4 =>
  bindE (idxE s.p0 s.v2 "p0[v2]") fun t5 =>
  if (t4 == t5) then .ok { s with v1 := (s.v1 + 1) } else .ok s

theorem adv (s0 s1 : List Nat) (i x : Nat) (hx : s0[i]? = some x) :
    ∀ (fuel j : Nat) (s : St), s.p0 = ints s0 → s.p1 = ints s1 → s.v1 = (j : Int) → s.v2 = (i : Int) →
      s1.length - j ≤ fuel →
      match mergeAdvance x (s1.drop j) with
      | .ok (app, r) => ∃ (s' : St) (j' : Nat), advBlock fuel s = .ok s' ∧ s'.v0 = s.v0 ++ ints app ∧ s'.v1 = (j' : Int) ∧
          r = s1.drop j' ∧ s'.p0 = ints s0 ∧ s'.p1 = ints s1 ∧ s'.v2 = (i : Int)
      | .error e => ∃ e', advBlock fuel s = .error e' ∧ e'.tag = e.tag := by
  intro fuel
  induction fuel with
  | zero =>
    intro j s h0 h1 hj hi hf
    have hjl : s1.length ≤ j := by omega
    rw [List.drop_eq_nil_of_le hjl]
    simp only [mergeAdvance, advBlock, whileG, _get_spans_for_2_fields_by_spans.guardE_L2, h1, hj, idxE_nat]
    have : getE (ints s1) j "p1[v1]" = .error (.oob "p1[v1]") := by
      simp [getE, List.getElem?_eq_none (show (ints s1).length ≤ j by simpa using hjl)]
    simp [this]
  | succ fuel ih =>
    intro j s h0 h1 hj hi hf
    by_cases hjl : s1.length ≤ j
    · rw [List.drop_eq_nil_of_le hjl]
      simp only [mergeAdvance, advBlock, whileG, _get_spans_for_2_fields_by_spans.guardE_L2, h1, hj, idxE_nat]
      have : getE (ints s1) j "p1[v1]" = .error (.oob "p1[v1]") := by
        simp [getE, List.getElem?_eq_none (show (ints s1).length ≤ j by simpa using hjl)]
      simp [this]
    · have hjl' : j < s1.length := by omega
      rw [List.drop_eq_getElem_cons hjl']
      have hy : s1[j]? = some s1[j] := List.getElem?_eq_getElem hjl'
      simp only [mergeAdvance]
      by_cases hlt : s1[j] < x
      · -- the guard holds: append span1[j], j += 1, go round again
        simp only [hlt, if_true]
        let s2 : St := { p0 := ints s0, p1 := ints s1, v0 := s.v0 ++ [(s1[j] : Int)], v1 := ((j + 1 : Nat) : Int), v2 := (i : Int) }
        have hstep : advBlock (fuel + 1) s = advBlock fuel s2 := by
          have hd : decide ((s1[j] : Int) < (x : Int)) = true := by simp; exact hlt
          have hc : ((j : Int) + 1) = ((j + 1 : Nat) : Int) := by omega
          simp only [advBlock, whileG, _get_spans_for_2_fields_by_spans.guardE_L2,
            _get_spans_for_2_fields_by_spans.body_L2, h0, h1, hj, hi, idxE_nat, getE_ints _ _ _ hy, getE_ints _ _ _ hx,
            bindE_ok, hd, if_true, hc]
          rfl
        rw [hstep]
        have hrec := ih (j + 1) s2 rfl rfl rfl rfl (by omega)
        cases hm : mergeAdvance x (s1.drop (j + 1)) with
        | error e =>
          rw [hm] at hrec
          exact hrec
        | ok pr =>
          obtain ⟨app, r⟩ := pr
          rw [hm] at hrec
          obtain ⟨s', j', hb, hv0, hv1, hr, hp0, hp1, hv2⟩ := hrec
          refine ⟨s', j', hb, ?_, hv1, hr, hp0, hp1, hv2⟩
          rw [hv0]
          simp [s2, ints]
      · -- the guard fails: the loop is over; `if span1[j] == span0[i]: j += 1`
        simp only [hlt, if_false]
        have hd : decide ((s1[j] : Int) < (x : Int)) = false := by simp; omega
        have hw : whileG _get_spans_for_2_fields_by_spans.guardE_L2 _get_spans_for_2_fields_by_spans.body_L2 (fuel + 1) s
            = .ok s := by
          simp only [whileG, _get_spans_for_2_fields_by_spans.guardE_L2, h0, h1, hj, hi, idxE_nat, getE_ints _ _ _ hy,
            getE_ints _ _ _ hx, bindE_ok, hd, Bool.false_eq_true, if_false]
        simp only [advBlock, hw, bindE_ok, h0, h1, hj, hi, idxE_nat, getE_ints _ _ _ hy, getE_ints _ _ _ hx]
        by_cases heq : s1[j] = x
        · have h1' : (s1[j] == x) = true := by simp [heq]
          have h2' : ((s1[j] : Int) == (x : Int)) = true := by simp [heq]
          simp only [h1', h2', if_true]
          refine ⟨_, j + 1, rfl, by simp [ints], ?_, rfl, rfl, rfl, rfl⟩
          show (j : Int) + 1 = ((j + 1 : Nat) : Int)
          omega
        · have h1' : (s1[j] == x) = false := by simp [heq]
          have h2' : ((s1[j] : Int) == (x : Int)) = false := by
            rw [beq_eq_false_iff_ne]; omega
          simp only [h1', h2', Bool.false_eq_true, if_false]
          exact ⟨_, j, rfl, by simp [ints], hj, (List.drop_eq_getElem_cons hjl').symm, h0, h1, hi⟩

/-- the span loop against `mergeLoop`, trailing `extend` included -/
theorem loop (s0 s1 : List Nat) (fuel : Nat) (hf : s1.length ≤ fuel) :
    ∀ (n i j : Nat) (s : St), i + n = s0.length → s.p0 = ints s0 → s.p1 = ints s1 → s.v1 = (j : Int) →
      match mergeLoop (s0.drop i) (s1.drop j) with
      | .ok t => ∃ (s' : St) (j' : Nat), forRangeAux (fun _ => false)
            (fun k s => _get_spans_for_2_fields_by_spans.body_L1 fuel { s with v2 := k }) n (i : Int) s = .ok s' ∧
          s'.v0 ++ ints (s1.drop j') = s.v0 ++ ints t ∧ s'.v1 = (j' : Int) ∧ s'.p1 = ints s1
      | .error e => ∃ e', forRangeAux (fun _ => false)
            (fun k s => _get_spans_for_2_fields_by_spans.body_L1 fuel { s with v2 := k }) n (i : Int) s = .error e' ∧
          e'.tag = e.tag := by
  intro n
  induction n with
  | zero =>
    intro i j s hi h0 h1 hj
    rw [List.drop_eq_nil_of_le (by omega)]
    simp only [mergeLoop, forRangeAux]
    exact ⟨s, j, rfl, rfl, hj, h1⟩
  | succ n ih =>
    intro i j s hi h0 h1 hj
    have hil : i < s0.length := by omega
    have hx : s0[i]? = some s0[i] := List.getElem?_eq_getElem hil
    rw [List.drop_eq_getElem_cons hil]
    have hc : ((i : Int) + 1) = ((i + 1 : Nat) : Int) := by omega
    simp only [forRangeAux]
    by_cases hjl : s1.length ≤ j
    · -- span1 is exhausted: only `spans.append(span0[i])`
      rw [List.drop_eq_nil_of_le hjl]
      have hlt : decide ((j : Int) < pyLen (ints s1)) = false := by simp [pyLen]; omega
      let s2 : St := { p0 := ints s0, p1 := ints s1, v0 := s.v0 ++ [(s0[i] : Int)], v1 := (j : Int), v2 := (i : Int) }
      have hb : _get_spans_for_2_fields_by_spans.body_L1 fuel { s with v2 := (i : Int) } = .ok s2 := by
        simp only [_get_spans_for_2_fields_by_spans.body_L1, h0, h1, hj, hlt, Bool.false_eq_true, if_false, bindE_ok,
          idxE_nat, getE_ints _ _ _ hx]
        rfl
      simp only [hb, Bool.false_eq_true, if_false, hc, mergeLoop]
      have hrec := ih (i + 1) j s2 (by omega) rfl rfl rfl
      rw [List.drop_eq_nil_of_le hjl] at hrec
      cases hm : mergeLoop (s0.drop (i + 1)) [] with
      | error e => rw [hm] at hrec; simpa [consE] using hrec
      | ok t =>
        rw [hm] at hrec
        obtain ⟨s', j', hrun, hv0, hv1, hp1⟩ := hrec
        refine ⟨s', j', hrun, ?_, hv1, hp1⟩
        rw [hv0]; simp [s2, ints]
    · have hjl' : j < s1.length := by omega
      have hlt : decide ((j : Int) < pyLen (ints s1)) = true := by simp [pyLen]; omega
      have hdj : s1.drop j = s1[j] :: s1.drop (j + 1) := List.drop_eq_getElem_cons hjl'
      have hadv := adv s0 s1 i s0[i] hx fuel j { s with v2 := (i : Int) } h0 h1 hj rfl (by omega)
      have hbody : _get_spans_for_2_fields_by_spans.body_L1 fuel { s with v2 := (i : Int) } =
          bindE (Merge.advBlock fuel { s with v2 := (i : Int) }) fun s =>
            bindE (idxE s.p0 s.v2 "p0[v2]") fun t6 => .ok { s with v0 := (s.v0 ++ [t6]) } := by
        simp only [_get_spans_for_2_fields_by_spans.body_L1, hj, h1, hlt, if_true, Merge.advBlock]
      rw [hdj]
      simp only [mergeLoop]
      rw [← hdj, hbody]
      cases hm : mergeAdvance s0[i] (s1.drop j) with
      | error e =>
        rw [hm] at hadv
        obtain ⟨e', hb, ht⟩ := hadv
        simp only [hb, bindE_error]
        exact ⟨e', rfl, ht⟩
      | ok pr =>
        obtain ⟨app, r⟩ := pr
        rw [hm] at hadv
        obtain ⟨s1', j1, hb, hv0, hv1, hr, hp0, hp1, hv2⟩ := hadv
        simp only [hb, bindE_ok, hp0, hv2, idxE_nat, getE_ints _ _ _ hx, Bool.false_eq_true, if_false, hc]
        have hrec := ih (i + 1) j1 { p0 := ints s0, p1 := s1'.p1, v0 := s1'.v0 ++ [(s0[i] : Int)], v1 := s1'.v1, v2 := (i : Int) }
          (by omega) rfl hp1 hv1
        subst hr
        cases hm2 : mergeLoop (s0.drop (i + 1)) (s1.drop j1) with
        | error e => rw [hm2] at hrec; exact hrec
        | ok t =>
          rw [hm2] at hrec
          obtain ⟨s', j', hrun, hv0', hv1', hp1'⟩ := hrec
          refine ⟨s', j', hrun, ?_, hv1', hp1'⟩
          rw [hv0', hv0]
          simp [ints]

end Merge

/-- `xs[j:]` -/
theorem pySlice_drop {α} (xs : List α) (j : Nat) : pySlice xs (some (j : Int)) none = xs.drop j := by
  have ha : ¬ ((j : Int) < 0) := by omega
  simp only [pySlice, normBound, ha, if_false, Int.toNat_natCast, slice]
  by_cases h : j ≤ xs.length
  · have : min j xs.length = j := by omega
    rw [this, List.take_of_length_le (by simp)]
  · have : min j xs.length = xs.length := by omega
    rw [this]
    simp [List.drop_eq_nil_of_le (show xs.length ≤ j by omega)]

theorem get_spans_for_2_fields_by_spans_refines (s0 s1 : List Nat) (fuel : Nat) (hf : s1.length ≤ fuel) :
    Sim (_get_spans_for_2_fields_by_spans.run (ints s0) (ints s1) fuel)
      ((getSpansFor2FieldsBySpans s0 s1).map ints) := by
  unfold _get_spans_for_2_fields_by_spans.run getSpansFor2FieldsBySpans
  have h := Merge.loop s0 s1 fuel hf s0.length 0 0
    { p0 := ints s0, p1 := ints s1, v0 := [], v1 := 0, v2 := 0 } (by omega) rfl rfl rfl
  simp only [List.drop_zero] at h
  simp only [forRangeE, pyLen, ints_length, Int.sub_zero, Int.toNat_natCast]
  cases hm : mergeLoop s0 s1 with
  | error e =>
    rw [hm] at h
    obtain ⟨e', hrun, ht⟩ := h
    have : forRangeAux (fun _ => false) (fun k s => _get_spans_for_2_fields_by_spans.body_L1 fuel { s with v2 := k })
        s0.length (0 : Int) { p0 := ints s0, p1 := ints s1, v0 := [], v1 := 0, v2 := 0 } = .error e' := hrun
    simp [this, Sim, ht, Except.map]
  | ok t =>
    rw [hm] at h
    obtain ⟨s', j', hrun, hv0, hv1, hp1⟩ := h
    have : forRangeAux (fun _ => false) (fun k s => _get_spans_for_2_fields_by_spans.body_L1 fuel { s with v2 := k })
        s0.length (0 : Int) { p0 := ints s0, p1 := ints s1, v0 := [], v1 := 0, v2 := 0 } = .ok s' := hrun
    simp only [this, bindE_ok, hv1, hp1, ints_length, pySlice_drop, Except.map]
    simp only [List.nil_append] at hv0
    by_cases hj : j' < s1.length
    · have hd : decide ((j' : Int) < (s1.length : Int)) = true := by simp; exact hj
      simp only [hd, if_true, bindE_ok, Sim]
      rw [← hv0]
      simp [ints, List.map_drop]
    · have hd : decide ((j' : Int) < (s1.length : Int)) = false := by simp; omega
      simp only [hd, Bool.false_eq_true, if_false, bindE_ok, Sim]
      rw [← hv0, List.drop_eq_nil_of_le (by omega)]
      simp [ints]

end Exetera.GenK
