import Exetera.Lemmas.TransformsCat2
/-! C06: `leaky_categorical_transform` (row loop with the free-text offsets and bytes written in place) and the importer's
accumulation across chunks. -/
namespace Exetera.Transforms
open Exetera Exetera.Spec.Transforms

def scanLeaky (tbl : List (Bytes × Int)) (cell : Bytes) : Int := (lastMatch cell tbl none).getD (-1)
def scanFree (tbl : List (Bytes × Int)) (cell : Bytes) : Bytes := if (lastMatch cell tbl none).isSome then [] else cell

theorem scanFree_length_le (tbl : List (Bytes × Int)) (cell : Bytes) : (scanFree tbl cell).length ≤ cell.length := by
  unfold scanFree; split <;> simp

theorem sliceAssign_prefix (dt src : Bytes) (m : Nat) (h : src.length ≤ m) :
    sliceAssign (dt ++ List.replicate m 0) dt.length src = .ok (dt ++ src ++ List.replicate (m - src.length) 0) := by
  have hle : dt.length + src.length ≤ (dt ++ List.replicate m 0).length := by simp; omega
  simp only [sliceAssign, hle, if_true]
  congr 1
  rw [List.take_left' rfl]
  congr 1
  rw [List.drop_append]
  simp [List.drop_of_length_le, List.drop_replicate]

theorem sum_map_scanFree_le (tbl : List (Bytes × Int)) (cells : List Bytes) :
    ((cells.map (scanFree tbl)).map List.length).sum ≤ (cells.map List.length).sum := by
  induction cells with
  | nil => simp
  | cons c cs ih => simp only [List.map_cons, List.sum_cons]; have := scanFree_length_le tbl c; omega

theorem leakyRows_spec (tbl : List (Bytes × Int)) (c : Chunk) (rest : List Bytes) (i s n f m : Nat)
    (dc : List Int) (pre : List Nat) (dt : Bytes)
    (h : EncFrom c i s rest) (hn : rest.length ≤ n) (hdc : dc.length = i) (hpre : pre.length = i)
    (hdt : dt.length = f) (hm : (rest.map List.length).sum ≤ m) :
    leakyRows (packTable tbl) c n i
        { chunk := dc ++ List.replicate rest.length 0, ftIdx := pre ++ f :: List.replicate rest.length 0,
          ftVals := dt ++ List.replicate m 0 }
      = .ok { chunk := dc ++ rest.map (scanLeaky tbl)
              ftIdx := pre ++ offsets f (rest.map (fun x => (scanFree tbl x).length))
              ftVals := dt ++ (rest.map (scanFree tbl)).flatten
                          ++ List.replicate (m - ((rest.map (scanFree tbl)).map List.length).sum) 0 } := by
  induction rest generalizing i s n f m dc pre dt with
  | nil =>
    cases n with
    | zero => simp [leakyRows, offsets]
    | succ n => simp [leakyRows, hdc, offsets]
  | cons cell rest ih =>
    cases n with
    | zero => simp at hn
    | succ n =>
      have hlt : ¬ (i ≥ (dc ++ List.replicate (cell :: rest).length 0).length) := by simp; omega
      rw [leakyRows]
      simp only [hlt, if_false]
      rw [matchRow_spec tbl c i s cell rest h]
      have hrest := h.2.2.2
      obtain ⟨_, hlen, hsl, _⟩ := h
      have hget : getE (pre ++ f :: List.replicate (cell :: rest).length 0) i "freetext_indices[row_idx]" = .ok f := by
        rw [← hpre]; exact getE_prefix_last _ _ _ _
      simp only [hget]
      simp only [List.map_cons, List.sum_cons] at hm
      cases hmt : lastMatch cell tbl none with
      | some v =>
        simp only
        have h1 := setE_prefix dc rest.length 0 v "chunk[row_idx]"
        rw [hdc] at h1
        have h2 := setE_prefix_next pre f rest.length 0 f "freetext_indices[row_idx+1]"
        rw [hpre] at h2
        simp only [List.length_cons, h1, h2]
        have := ih (i + 1) (s + cell.length) n f m (dc ++ [v]) (pre ++ [f]) dt hrest (by simpa using hn)
          (by simp [hdc]) (by simp [hpre]) hdt (by omega)
        rw [this]
        simp [scanLeaky, scanFree, hmt, offsets]
      | none =>
        simp only
        have h1 := setE_prefix dc rest.length 0 (-1) "chunk[row_idx]"
        rw [hdc] at h1
        have h2 := setE_prefix_next pre f rest.length 0 (f + (s + cell.length - s)) "freetext_indices[row_idx+1]"
        rw [hpre] at h2
        have hs : sliceE c.vals (c.off + s) (c.off + (s + cell.length)) "column_vals[col_offset+key_start:col_offset+key_end]" = .ok cell := by
          have : c.off + (s + cell.length) = c.off + s + cell.length := by omega
          simp only [sliceE, this, hlen, if_true, hsl]
        have h3 := sliceAssign_prefix dt cell m (by omega)
        rw [hdt] at h3
        simp only [List.length_cons, h1, h2, hs, h3]
        have e : f + (s + cell.length - s) = f + cell.length := by omega
        rw [e]
        have := ih (i + 1) (s + cell.length) n (f + cell.length) (m - cell.length) (dc ++ [-1]) (pre ++ [f]) (dt ++ cell)
          hrest (by simpa using hn) (by simp [hdc]) (by simp [hpre]) (by simp [hdt]) (by omega)
        rw [this]
        simp [scanLeaky, scanFree, hmt, offsets, Nat.sub_sub]

theorem leakyTransform_packTable (tbl : List (Bytes × Int)) (c : Chunk) (cells : List Bytes) (h : Encodes c cells) :
    leakyTransform (packTable tbl) c
      = .ok { chunk := cells.map (scanLeaky tbl)
              ftIdx := offsets 0 (cells.map (fun x => (scanFree tbl x).length))
              ftVals := (cells.map (scanFree tbl)).flatten
                          ++ List.replicate (c.cap - ((cells.map (scanFree tbl)).map List.length).sum) 0 } := by
  obtain ⟨hr, ⟨s0, he, hcap⟩, hcol⟩ := h
  have hlt := he.lt_inds
  have := leakyRows_spec tbl c cells 0 s0 (c.inds.length - 1) 0 c.cap [] [] [] he (by omega) rfl rfl rfl (by omega)
  rw [leakyTransform, withCol_ok c _ _ _ hcol]
  simpa [hr, List.replicate_succ] using this

end Exetera.Transforms

namespace Exetera.Transforms
open Exetera Exetera.Spec.Transforms

/-- destination of a leaky column holding `cells`, in terms of the table scan -/
def scanColumn (tbl : List (Bytes × Int)) (cells : List Bytes) : LeakyState :=
  { data := cells.map (scanLeaky tbl)
    ftIndices := offsets 0 (cells.map (fun c => (scanFree tbl c).length))
    ftValues := (cells.map (scanFree tbl)).flatten
    acc := (cells.map (fun c => (scanFree tbl c).length)).sum }

theorem leakyImportPart_spec (tbl : List (Bytes × Int)) (done : List Bytes) (c : Chunk) (cells : List Bytes)
    (h : Encodes c cells) :
    leakyImportPart (packTable tbl) (scanColumn tbl done) c = .ok (scanColumn tbl (done ++ cells)) := by
  have hr := h.rows
  rw [leakyImportPart, leakyTransform_packTable tbl c cells h]
  simp only
  have hlast : (offsets 0 (cells.map (fun x => (scanFree tbl x).length)))[c.rows]?
      = some (0 + (cells.map (fun x => (scanFree tbl x).length)).sum) := by
    have := offsets_getLast 0 (cells.map (fun x => (scanFree tbl x).length))
    simpa [hr] using this
  simp only [getE, hlast]
  simp only [scanColumn, List.map_append, List.sum_append, Nat.zero_add]
  have e : (cells.map (fun x => (scanFree tbl x).length)).sum = ((cells.map (scanFree tbl)).flatten).length := by
    rw [flatten_length_eq_sum]; simp [List.map_map]; rfl
  have ht : List.take (cells.map (fun c => (scanFree tbl c).length)).sum
      ((cells.map (scanFree tbl)).flatten ++
        List.replicate (c.cap - (List.map (List.length ∘ scanFree tbl) cells).sum) 0) =
      (cells.map (scanFree tbl)).flatten := by
    rw [e, List.take_left' rfl]
  have ho : offsets 0 (List.map (fun c => (scanFree tbl c).length) done) ++
      (List.map (fun x => x + (List.map (fun c => (scanFree tbl c).length) done).sum)
        (offsets 0 (List.map (fun x => (scanFree tbl x).length) cells))).tail =
      offsets 0 (List.map (fun c => (scanFree tbl c).length) done ++ List.map (fun c => (scanFree tbl c).length) cells) := by
    rw [offsets_append, offsets_map_add]
  simp only [List.map_map] at ht ⊢
  rw [ho]
  simp only [List.flatten_append]
  first | rw [ht] | (simp only [Function.comp_def] at ht ⊢; rw [ht])

end Exetera.Transforms
