import Exetera.Model.MapValid
/-! C10 helper: the byte copy of `ordered_map_valid_indexed_partial` delivers exactly the requested number of bytes. -/
namespace Exetera.MapValid

theorem readRange_length {β} (values : List β) : ∀ (n : Nat) (v : Int) (bs : List β),
    readRange values v n = .ok bs → bs.length = n := by
  intro n
  induction n with
  | zero => intro v bs h; simp [readRange] at h; subst h; rfl
  | succ n ih =>
    intro v bs h
    simp only [readRange] at h
    split at h
    · cases h
    · split at h
      · cases h
      · rename_i bs' hbs'
        cases h
        simp [ih _ _ hbs']

end Exetera.MapValid
