import Exetera.Lemmas.CatalogueRefineStep
/-! When a call returns, part 1: success of the building blocks under the invariant, and the abstract tests on `absH5`. -/
namespace Exetera.Catalogue

/-! ### the abstract tests, read on the model -/

theorem hasFrame_eq {s : State} (hI : Inv s) (d : Nat) (fn : Name) : (absH5 s).hasFrame d fn = decide ((d, fn) ∈ keys s.dfs) := by
  simp only [Cat.hasFrame, absH5_apply]
  by_cases hk : (d, fn) ∈ keys s.dfs
  · obtain ⟨g, hg⟩ := mem_keys.1 hk
    simp [(look_eq_some hI.fileNodup).2 ((hI.sameFrames _).1 hg), hk]
  · have : look s.file (d, fn) = none := look_eq_none.2 (fun hm => hk (by
      obtain ⟨v, hv⟩ := mem_keys.1 hm
      exact mem_keys_of_mem ((hI.sameFrames _).2 hv)))
    simp [this, hk]

theorem dfs_file_keys {s : State} (hI : Inv s) (k : Key) : k ∈ keys s.dfs ↔ k ∈ keys s.file := by
  simp only [mem_keys]
  constructor
  · rintro ⟨v, hv⟩; exact ⟨v, (hI.sameFrames _).1 hv⟩
  · rintro ⟨v, hv⟩; exact ⟨v, (hI.sameFrames _).2 hv⟩

theorem frameH5_isSome {s : State} (hI : InvCore s) (g : Nat) (n : Name) : (frameH5 s g n).isSome = decide ((g, n) ∈ keys s.cols) := by
  by_cases hk : (g, n) ∈ keys s.cols
  · obtain ⟨c, hc⟩ := frameH5_some_of_col hI hk
    simp [hc, hk]
  · simp [frameH5_none_of_not_col hI hk, hk]

theorem hasCol_eq {s : State} (hI : Inv s) {d : Nat} {fn : Name} {g : Nat} (hf : ((d, fn), g) ∈ s.file) (n : Name) :
    (absH5 s).hasCol d fn n = decide ((g, n) ∈ keys s.cols) := by
  simp only [Cat.hasCol, Cat.col, absH5_frame hI hf, Option.bind_some]
  exact frameH5_isSome hI.toInvCore g n

theorem hasCol_noframe {s : State} (hI : Inv s) {d : Nat} {fn : Name} (hk : (d, fn) ∉ keys s.dfs) (n : Name) :
    (absH5 s).hasCol d fn n = false := by
  have : look s.file (d, fn) = none := look_eq_none.2 (fun hm => hk ((dfs_file_keys hI _).2 hm))
  simp only [Cat.hasCol, Cat.col, absH5_apply, this, Option.map_none, Option.bind_none, Option.isSome_none]

theorem getFrame_err {s : State} {d : Nat} {fn : Name} {e : Err} (h : getFrame s d fn = .error e) : (d, fn) ∉ keys s.dfs := by
  unfold getFrame at h
  split at h
  · cases h
  · next hl => exact look_eq_none.1 hl

theorem getFrame_ok_key {s : State} {d : Nat} {fn : Name} {g : Nat} (h : getFrame s d fn = .ok g) : (d, fn) ∈ keys s.dfs := by
  unfold getFrame at h
  split at h
  · next g' hl => exact mem_keys_of_mem (look_mem hl)
  · cases h

theorem renameOkF_iff {s : State} (hI : InvCore s) (g : Nat) (dict : List (Name × Name)) :
    renameOkF dict (frameH5 s g) = true ↔ RenameOk dict ((ownedBy s.cols g).map (·.1)) := by
  have hsome : ∀ n, (frameH5 s g n).isSome = true ↔ n ∈ (ownedBy s.cols g).map (·.1) := by
    intro n; rw [frameH5_isSome hI, decide_eq_true_eq, mem_cur]
  simp only [renameOkF, Bool.and_eq_true, decide_eq_true_eq, List.all_eq_true, Bool.or_eq_true, Bool.not_eq_true']
  constructor
  · rintro ⟨⟨⟨h1, h2⟩, h3⟩, h4⟩
    refine ⟨h1, ?_, h3, ?_⟩
    · intro k hk
      obtain ⟨p, hp, rfl⟩ := List.mem_map.1 hk
      exact (hsome _).1 (h2 p hp)
    · intro t ht htc
      obtain ⟨p, hp, rfl⟩ := List.mem_map.1 ht
      rcases h4 p hp with h | h
      · have := (hsome _).2 htc; rw [h] at this; cases this
      · exact h
  · intro h
    refine ⟨⟨⟨h.keysNodup, ?_⟩, h.valsNodup⟩, ?_⟩
    · intro p hp
      exact (hsome _).2 (h.keysPresent _ (List.mem_map.2 ⟨p, hp, rfl⟩))
    · intro p hp
      by_cases hc : (frameH5 s g p.2).isSome = true
      · right; exact h.noClash _ (List.mem_map.2 ⟨p, hp, rfl⟩) ((hsome _).1 hc)
      · left; simpa using hc

/-! ### success of the building blocks -/

theorem addField_isOk {v : Variant} {s : State} (hI : InvCore s) (g : Nat) (n : Name) (c : Content) :
    (addField v s g n c).isOk = !decide ((g, n) ∈ keys s.cols) := by
  by_cases hk : (g, n) ∈ keys s.cols
  · unfold addField; simp [hk, Res.isOk]
  · obtain ⟨a, s', h, _⟩ := addField_ok (v := v) hI c hk
    simp [h, hk, Res.isOk]

theorem delItem_isOk {s : State} (hI : InvCore s) (g : Nat) (n : Name) :
    (delItem s g n).isOk = decide ((g, n) ∈ keys s.cols) := by
  unfold delItem
  by_cases hk : (g, n) ∈ keys s.cols
  · simp [hk, (hI.sameKeys _).1 hk, Res.isOk]
  · simp [hk, Res.isOk]

theorem dropField_isOk {s : State} (hI : InvCore s) (g : Nat) (n : Name) :
    (dropField s g n).isOk = decide ((g, n) ∈ keys s.cols) := by
  by_cases hk : (g, n) ∈ keys s.cols
  · rw [dropField_ok hI hk]; simp [hk, Res.isOk]
  · unfold dropField; simp [hk, Res.isOk]

theorem renameFields_isOk {s : State} (hI : InvCore s) (g : Nat) (dict : List (Name × Name)) (hkn : (dict.map (·.1)).Nodup) :
    (renameFields .repaired s g dict).isOk = renameOkF dict (frameH5 s g) := by
  by_cases hok : RenameOk dict ((ownedBy s.cols g).map (·.1))
  · rw [renameFields_ok hI g dict hok, (renameOkF_iff hI g dict).2 hok]; rfl
  · obtain ⟨e, he⟩ := renameFields_fail .repaired s g dict hkn hok
    have : renameOkF dict (frameH5 s g) = false := by
      cases h : renameOkF dict (frameH5 s g) with
      | false => rfl
      | true => exact absurd ((renameOkF_iff hI g dict).1 h) hok
    rw [he, this]; rfl

theorem isOk_void {α} (r : Res α) : r.void.isOk = r.isOk := by cases r <;> rfl

theorem createFrame_isOk {s : State} (hI : Inv s) (d : Nat) (fn : Name) (src : Option Nat) :
    (createFrame .repaired s d fn src).isOk = !decide ((d, fn) ∈ keys s.dfs) := by
  unfold createFrame
  by_cases hk : (d, fn) ∈ keys s.dfs
  · have : (d, fn) ∈ keys s.file := (dfs_file_keys hI _).1 hk
    simp [newGroup, this, Res.andThen, Res.isOk, hk]
  · have hf : (d, fn) ∉ keys s.file := fun h => hk ((dfs_file_keys hI _).2 h)
    cases hn : newGroup s d fn with
    | err e s1 => unfold newGroup at hn; simp [hf] at hn
    | ok g s1 =>
      obtain ⟨s2, hs2⟩ := fillFrame_ok hI src hn
      simp [Res.andThen, hs2, Res.isOk, hk]

theorem copyFrame_isOk {s : State} (hI : Inv s) (sg d : Nat) (fn : Name) :
    (copyFrame .repaired s sg d fn).isOk = !decide ((d, fn) ∈ keys s.dfs) := by
  by_cases hk : (d, fn) ∈ keys s.dfs
  · unfold copyFrame; simp [hk, Res.isOk]
  · have hck := copyFrame_errKeeps hI sg d fn
    cases hc : copyFrame .repaired s sg d fn with
    | ok u s' => simp [Res.isOk, hk]
    | err e s' =>
      exfalso
      -- after the guard nothing can fail (as in `copyFrame_errKeeps`)
      unfold copyFrame at hc
      simp only [hk, if_false] at hc
      have hcr := createFrame_isOk hI d fn none
      cases hcf : createFrame .repaired s d fn none with
      | err e1 s1 => rw [hcf] at hcr; simp [Res.isOk, hk] at hcr
      | ok g s1 =>
        rw [hcf] at hc
        simp only [Res.andThen] at hc
        have hI1 : Inv s1 := by have := createFrame_inv hI d fn none; rw [hcf] at this; exact this
        obtain ⟨hg, hcols, hfile, _, _⟩ := createFrame_none_shape hI hcf
        have hg1 : g ∈ s1.file.map (·.2) := by rw [hfile]; simp
        obtain ⟨s2, hs2⟩ := copyAll_ok g sg (ownedBy s1.cols sg) s1 hI1.toInvCore hg1
          (by intro e he; exact mem_ownedBy.1 he) (ownedBy_keys_nodup hI1.colsNodup sg)
          (by intro n _ hmem
              rw [hcols] at hmem
              obtain ⟨h, hh⟩ := mem_keys.1 hmem
              exact fresh_frame_empty hI hh (by rw [← hg]))
        rw [hs2] at hc
        cases hc

theorem dropFrame_isOk {s : State} (hI : Inv s) (d : Nat) (fn : Name) : (dropFrame s d fn).isOk = decide ((d, fn) ∈ keys s.dfs) := by
  unfold dropFrame
  by_cases hk : (d, fn) ∈ keys s.dfs
  · obtain ⟨s', hs'⟩ := unlink_ok hI hk
    simp [hk, hs', Res.isOk]
  · simp [hk, Res.isOk]

theorem delFrame_isOk {s : State} (hI : Inv s) (d : Nat) (fn : Name) : (delFrame s d fn).isOk = decide ((d, fn) ∈ keys s.dfs) := by
  unfold delFrame
  by_cases hk : (d, fn) ∈ keys s.dfs
  · obtain ⟨s', hs'⟩ := unlink_ok hI hk
    simp [hk, hs', Res.isOk]
  · simp [hk, Res.isOk]

theorem setFrame_isOk {s : State} (hI : Inv s) (d : Nat) (fn : Name) {sd sg : Nat} {sfn : Name} (hsg : ((sd, sfn), sg) ∈ s.dfs) :
    (setFrame .repaired s d fn sd sg).isOk = !decide ((d, fn) ∈ keys s.dfs) := by
  unfold setFrame
  split
  · next hsd =>
    subst hsd
    have hf := (hI.sameFrames _).1 hsg
    have hname : nameOfVal s.file sg = some sfn := (nameOfVal_eq_some hI.frameInj).2 ⟨sd, hf⟩
    simp only [moveGroup, hname]
    by_cases hk : (sd, fn) ∈ keys s.dfs
    · simp [(dfs_file_keys hI _).1 hk, hk, Res.andThen, Res.isOk]
    · have hf' : (sd, fn) ∉ keys s.file := fun h => hk ((dfs_file_keys hI _).2 h)
      simp only [hf', if_false, Res.andThen, renameEntry, hI.frameName _ _ hf]
      simp [mem_keys_of_mem hsg, hk, Res.isOk]
  · exact copyFrame_isOk hI sg d fn

theorem moveFrame_isOk {s : State} (hI : Inv s) (d : Nat) (fn : Name) {sd sg : Nat} {sfn : Name} (hsg : ((sd, sfn), sg) ∈ s.dfs) :
    (moveFrame .repaired s sd sg d fn).isOk = !decide ((d, fn) ∈ keys s.dfs) := by
  have hcp := copyFrame_isOk hI sg d fn
  unfold moveFrame
  cases hc : copyFrame .repaired s sg d fn with
  | err e s1 => rw [hc] at hcp; simp only [Res.andThen]; exact hcp
  | ok u s1 =>
    rw [hc] at hcp
    rw [← hcp]
    have hI1 : Inv s1 := by have := copyFrame_inv hI sg d fn; rw [hc] at this; exact this
    obtain ⟨hdfs, x, hfn⟩ := copyFrame_ok_shape hI hc
    have hname : s.fname[sg]? = some sfn := hI.frameName _ _ ((hI.sameFrames _).1 hsg)
    have hname1 : s1.fname[sg]? = some sfn := by
      rw [hfn, List.getElem?_append_left (List.getElem?_eq_some_iff.1 hname).1]; exact hname
    simp only [Res.andThen, hname1]
    rw [dropFrame_isOk hI1]
    simp [mem_keys_of_mem (hdfs _ hsg), Res.isOk]

end Exetera.Catalogue
