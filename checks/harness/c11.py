"""C11 — results identical with and without the JIT. Two-mode differential execution of the owning properties' cases
(JIT in-process vs USE_NUMBA=false), both also compared with the mode-independent Lean model; Lean range lemmas exclude the
one divergence the model can express (fixed-width wrap)."""
from checks.harness import meta

PROPERTY = "C11"
LEVEL = "other"
LEAN_MODULES = ["Exetera.Props.C11", "Exetera.Props.C11Ranges"]
BASES = ["c03", "c04", "c08", "c09", "c14", "c16", "c17", "c06", "c05", "c01", "c07", "c11x"]   # c11x: the mode-differential sweep of the public operations (no model)
MODES = {"quick": ["jit", "nojit"], "thorough": ["jit", "nojit"], "search": ["jit", "nojit"]}
MODE_DIFF_IS_VIOLATION = True
EXHAUSTIVE = {"quick": False, "thorough": False}
TECHNIQUE = ("two-mode differential execution (numba JIT vs USE_NUMBA=false): the owning properties' cases against a mode-independent Lean model, "
             "plus a systematic model-free sweep of the public operations over the dtypes / values on which the modes can part ways (c11x); "
             "Lean range lemmas (no fixed-width wrap)")
LEVEL_TEXT = ("Other: the Lean model is a third, mode-independent semantics; the implementation is run in both modes on the same cases, "
              "each compared with the model and with each other (values, dtypes, error kinds). Lean range lemmas prove, from the owning "
              "properties' functional theorems, that fixed-width wrap-around — the only JIT/interpreter divergence the model can "
              "express — cannot occur below the documented size limits: every value the join generators store is a row number or the "
              "marker (left_map_range, right_map_range, left_streamed_fits_int32); every offset ordered_map_valid_indexed_stream "
              "stores lies between 0 and the destination's byte count and the subscript map[sm]-d_start lies in [0, chunksize) "
              "(range_safe_map_indexed, range_safe_map_window); every span value is <= the row count, and fits int32 whenever an "
              "entry point chooses int32 (range_safe_spans, range_safe_spans_int32); the offsets stored by "
              "apply_filter_to_index_values / apply_indices_to_index_values and by Session.apply_spans_concat are <= the "
              "destination's byte count (range_safe_filter_indexed, range_safe_index_indexed, range_safe_concat); the journalling "
              "index maps hold -1 or a row number of their table (range_safe_journal_indices); the offsets of every CSV-imported "
              "indexed field are <= its byte count, under C05's no-regrowth hypotheses (range_safe_csv_offsets_partial). Each "
              "lemma ends in FitsInt32/FitsInt64 under 'rows < 2^31' resp. 'rows/bytes < 2^63'. "
              "What no Int-valued model can carry is decided by direct comparison of the two modes alone (base c11x, no model): 19 families "
              "of public entry points - span detection, every apply_spans_* (ops / Session / Field level, the _filter and _indexed forms), "
              "apply_spans_concat, apply_filter / apply_index (Field, Session, DataFrame; target, in-place, destination forms), sort_values / "
              "Session.sort_on / dataset_sort_index, the map_valid / safe_map / streamed mapping functions, DataFrame.merge (all four "
              "modes, truthful / absent hints, injected chunk sizes 1-3), the Session merge helpers with get_index and join, groupby / "
              "drop_duplicates, Session.aggregate_*, isin / unique per field type, journal.journal_table, read_csv_with_schema_dict (every "
              "importer kind and validation mode, small chunk_row_size), to_csv / to_pandas, every Field operator, date_time_helpers, and "
              "the module-level kernels nothing else calls - over every numeric dtype incl. bool and the unsigned ones at their bounds, "
              "float32 / float64 with NaN first / middle / last of a group, +-inf, -0.0 vs 0.0, subnormals and the largest finite value, "
              "fixed strings with trailing blanks / NUL / high bytes, indexed strings empty / multi-byte / with equal prefixes, empty and "
              "one-row columns, span / index / filter arrays of every integer dtype at their largest value, Python vs numpy scalars vs 0-d "
              "arrays, Field vs ndarray vs list arguments. Compared: class of the result, dtype, length, values (floats by repr, fixed "
              "strings as raw full-width bytes), error class.")
LEVEL_NOTE = ("Not a proof of mode equivalence: numba's type unification, typed lists, optional arguments and bytes comparison are runtime "
              "behaviour no model of mine exhibits; they are covered by the differential run only (generator quality bounds what it sees). "
              "The range lemmas speak about STORED values (the observable arrays); intermediate quantities are differences of two stored "
              "offsets / two row numbers of one window, and buffer positions are bounded by the capacities because every write of the "
              "models is a checked access — stated in the header of Props/C11Ranges.lean, not as separate theorems. Group-by, sort "
              "permutations, isin/unique and the numeric transforms have no range lemma (their stored integers are row numbers or "
              "counts <= the row count by the owners' specs, not restated here). The c11x sweep is sampling, not enumeration: the quick "
              "tier runs a seeded slice of the (family x entry point x dtype) grid (the distribution tags `x_<family>:<dtype class>`, "
              "`x_<family>/<entry point>` show what a run exercised), the thorough tier about 25 times as much. Inputs whose compiled "
              "behaviour is undefined (a subscript outside its array inside a kernel: spans that decrease or end beyond the column, an "
              "index beyond the column handed to an unchecked ops.* kernel, a destination that is too short, result[-1] of an empty "
              "array) are not generated; a difference only in the class of the exception raised for a call with an argument of a type the "
              "API does not accept is not generated either. c11x cases are BATCHES of up to 10 (quick) / 24 (thorough) sub-cases (6 / 8 for the families that compile many kernels per case) that "
              "call the same kernels at the same numba signatures, so that one worker compiles each signature; a batch differs iff one of "
              "its sub-cases does (`python -m checks.harness.c11x <replay.json>` prints the differing sub-cases).")
RULE = ("cases of the owning properties' generators (seeded sample per property) executed in both modes; a case counts as non-trivial "
        "by the owning harness's rule; distinct = distinct case dict. Base c11x: corpus/C11 first, then per family hand-written cases "
        "(NaN first / middle / last of a span or group, -0.0 / 0.0, narrow span / index dtypes whose largest value is used) and seeded "
        "cases over the dtype grid; a c11x case is a batch of sub-cases sharing kernels and signatures; a batch is non-trivial when a "
        "sub-case holds a value at a dtype bound / a float special / a blank, NUL, high or multi-byte string / a narrow index dtype; "
        "the distribution counts sub-cases (one tag per family x dtype class and per family x entry point)")
ASSUMPTIONS = ["the cases exercise the kernels decorated for compilation (each owning harness calls the public entry points)",
               "c11x: calls are valid (arguments of the documented types, truthful hints, well-formed spans / indices); an out-of-range "
               "subscript inside a compiled kernel is undefined behaviour and is not generated"]
TRUSTED = ["Lean 4.33 kernel (range lemmas)", "checks/harness/*.py"]
EXPLANATION = ("JIT-mode and interpreted-mode executions of the same seeded cases are diffed (values, dtypes, lengths, error kinds) and "
               "both are compared with the Lean model (the c11x sweep of the public operations over dtype bounds / float specials / "
               "string edge cases has no model: there the two modes are compared with each other only); Lean theorems left_map_range / right_map_range / left_streamed_fits_int32 and the "
               "range_safe_* lemmas of Props/C11Ranges.lean exclude fixed-width wrap in the join maps, the map-valid streams, the span, "
               "filter/index, concat, journalling and CSV-import kernels.")


def gen_cases(tier, rng):
    per = {"quick": 500, "thorough": 8000, "search": 4000}[tier]

    def keep(n, b, c):
        sel = getattr(b, "select_for_mode", None)
        return sel(c, "nojit", "thorough") if sel else True
    return meta.gen_cases(BASES, tier, rng, per, keep)


impl = meta.impl
to_model = meta.to_model
classify = meta.classify
nontrivial = meta.nontrivial
compare = meta.compare


def check_spec(case, io, mode):
    return None


def mode_diff_ok(case, jit_out, other_out, mode):
    """a difference between the modes that the owning base declares legitimate (with its reason, in that base)"""
    f = getattr(meta.base(case["_h"]), "mode_diff_ok", None)
    return bool(f and f(case, jit_out, other_out, mode))


def match_finding(case, io, mode):
    """only for bases that take part in the mode comparison themselves (they define mode_diff_ok): the other bases' matchers are
    about failures of THEIR property's oracle, not about a difference between the modes"""
    b = meta.base(case["_h"])
    return b.match_finding(case, io, mode) if hasattr(b, "mode_diff_ok") and hasattr(b, "match_finding") else None


def select_for_mode(case, mode, tier):
    return True


# ------------------------------------------------------------------------------------------------------------------
# worker warm-up: the owning harnesses are imported lazily by `meta.base` — inside the per-case alarm of checks/worker.py.
# Importing them here (ExeTera, pandas, and the bases' own kernel warm-ups) happens before the alarm is armed: an alarm
# firing inside an import or a numba compilation leaves the worker process broken for every following case.
# ------------------------------------------------------------------------------------------------------------------
import sys  # noqa: E402
if sys.argv and sys.argv[0].endswith("worker.py"):
    for _n in meta.available(BASES):
        try:
            _b = meta.base(_n)
            _w = getattr(_b, "warm_up", None)
            if _w:
                _w()
        except Exception:   # noqa
            pass
