import Exetera.Lemmas.CatalogueStep
/-! Closing and reopening a file rebuilds the in-memory catalogue from the link tables: the invariant is re-established. -/
namespace Exetera.Catalogue

theorem insertBy_perm {α} (le : α → α → Bool) (x : α) (l : List α) : (insertBy le x l).Perm (x :: l) := by
  induction l with
  | nil => exact List.Perm.refl _
  | cons y ys ih =>
    simp only [insertBy]
    split
    · exact List.Perm.refl _
    · exact (List.Perm.cons y ih).trans (List.Perm.swap x y ys)

theorem sortBy_perm {α} (le : α → α → Bool) (l : List α) : (sortBy le l).Perm l := by
  induction l with
  | nil => exact List.Perm.refl _
  | cons x xs ih =>
    simp only [sortBy]
    exact (insertBy_perm le x _).trans (List.Perm.cons x ih)

theorem mem_sortBy {α} {le : α → α → Bool} {l : List α} {x : α} : x ∈ sortBy le l ↔ x ∈ l :=
  (sortBy_perm le l).mem_iff

def mkLoaded (e : Key × Nat) : Handle := ⟨e.2, true, some e.1.1, e.1.1, false⟩

theorem loadCols_spec (L : List (Key × Nat)) (hs : List Handle) :
    (loadCols .repaired L hs).2 = hs ++ L.map mkLoaded ∧
    (loadCols .repaired L hs).1 = (L.zipIdx hs.length).map (fun p => (p.1.1, p.2)) := by
  induction L generalizing hs with
  | nil => simp [loadCols]
  | cons e L ih =>
    obtain ⟨⟨g, n⟩, oid⟩ := e
    simp only [loadCols]
    obtain ⟨i1, i2⟩ := ih (hs ++ [⟨oid, true, some g, g, false⟩])
    constructor
    · rw [i1]; simp [mkLoaded]
    · rw [i2]
      simp only [List.length_append, List.length_cons, List.length_nil, List.zipIdx_cons, List.map_cons]

theorem set_self {α} {l : List α} {i : Nat} {x : α} (h : l[i]? = some x) : l.set i x = l := by
  apply List.ext_getElem?
  intro j
  by_cases hij : i = j
  · subst hij
    have := (List.getElem?_eq_some_iff.1 h).1
    rw [List.getElem?_set_self this, h]
  · rw [List.getElem?_set_ne hij]

theorem loadNames_id (L : List (Key × Nat)) (fn : List Name) (h : ∀ k g, (k, g) ∈ L → fn[g]? = some k.2) :
    loadNames L fn = fn := by
  induction L generalizing fn with
  | nil => rfl
  | cons e L ih =>
    obtain ⟨⟨d, n⟩, g⟩ := e
    simp only [loadNames]
    rw [set_self (h (d, n) g List.mem_cons_self)]
    exact ih fn (fun k g' hk => h k g' (List.mem_cons_of_mem _ hk))


theorem loadCols_mem {L : List (Key × Nat)} {hs : List Handle} {k : Key} {h : Nat} :
    (k, h) ∈ (loadCols .repaired L hs).1 ↔ hs.length ≤ h ∧ ∃ e, L[h - hs.length]? = some e ∧ e.1 = k := by
  rw [(loadCols_spec L hs).2]
  simp only [List.mem_map]
  constructor
  · rintro ⟨⟨e, i⟩, hm, heq⟩
    obtain ⟨rfl, rfl⟩ := Prod.mk.inj heq
    have := List.mem_zipIdx_iff_le_and_getElem?_sub.1 hm
    exact ⟨this.1, e, this.2, rfl⟩
  · rintro ⟨hle, e, he, rfl⟩
    exact ⟨(e, h), List.mem_zipIdx_iff_le_and_getElem?_sub.2 ⟨hle, he⟩, rfl⟩

theorem loadCols_keys (L : List (Key × Nat)) (hs : List Handle) : keys (loadCols .repaired L hs).1 = keys L := by
  rw [(loadCols_spec L hs).2]
  simp only [keys, List.map_map]
  have : ((fun x : Key × Nat => x.1) ∘ fun p : (Key × Nat) × Nat => (p.1.1, p.2)) = (fun e : Key × Nat => e.1) ∘ Prod.fst := rfl
  rw [this, ← List.map_map, List.zipIdx_map_fst]

theorem loadCols_vals (L : List (Key × Nat)) (hs : List Handle) :
    (loadCols .repaired L hs).1.map (·.2) = List.range' hs.length L.length := by
  rw [(loadCols_spec L hs).2]
  simp only [List.map_map]
  have : ((fun x : Key × Nat => x.2) ∘ fun p : (Key × Nat) × Nat => (p.1.1, p.2)) = Prod.snd := rfl
  rw [this, List.zipIdx_map_snd]

theorem mem_keys_filter {t : Table} {q : Key → Bool} {k : Key} :
    k ∈ keys (t.filter fun e => q e.1) ↔ k ∈ keys t ∧ q k = true := by
  simp only [mem_keys, List.mem_filter]
  constructor
  · rintro ⟨v, h1, h2⟩; exact ⟨⟨v, h1⟩, h2⟩
  · rintro ⟨⟨v, h1⟩, h2⟩; exact ⟨v, h1, h2⟩

theorem reopen_inv {s : State} (hI : Inv s) (d : Nat) : Inv (reopen .repaired s d) := by
  -- names for the pieces of `reopen`
  let fileD := s.file.filter (fun e => e.1.1 = d)
  let mine := sortBy entryLe fileD
  let closedH := s.handles.map (fun hd => if inDs s d hd.home then { hd with closed := true } else hd)
  let toLoad := sortBy (loadLe s.file) (s.links.filter (fun l => l.1.1 ∈ mine.map (·.2)))
  have hmine : ∀ e, e ∈ mine ↔ e ∈ s.file ∧ e.1.1 = d := by
    intro e; rw [mem_sortBy]; simp [fileD]
  have hP1 : ∀ g, g ∈ mine.map (·.2) → inDs s d g = true := by
    intro g hg
    obtain ⟨e, he, rfl⟩ := List.mem_map.1 hg
    have := hI.frameDs e.1 e.2 ((hmine e).1 he).1
    simp [inDs, this, ((hmine e).1 he).2]
  have hP2 : ∀ k o, (k, o) ∈ s.links → inDs s d k.1 = true → k.1 ∈ mine.map (·.2) := by
    intro k o hk hin
    obtain ⟨e, he, hee⟩ := List.mem_map.1 (hI.linkFrame k o hk)
    have := hI.frameDs e.1 e.2 he
    rw [hee] at this
    simp only [inDs, this, beq_iff_eq, Option.some.injEq] at hin
    exact List.mem_map.2 ⟨e, (hmine e).2 ⟨he, hin⟩, hee⟩
  have hload : ∀ e, e ∈ toLoad ↔ e ∈ s.links ∧ e.1.1 ∈ mine.map (·.2) := by
    intro e; rw [mem_sortBy]; simp
  have hloadPerm : toLoad.Perm (s.links.filter (fun l => l.1.1 ∈ mine.map (·.2))) := sortBy_perm _ _
  have hlen : closedH.length = s.handles.length := by simp [closedH]
  have hclosed : ∀ (h : Nat) (hd' : Handle), closedH[h]? = some hd' → ∃ hd : Handle, s.handles[h]? = some hd ∧
      hd' = if inDs s d hd.home then { hd with closed := true } else hd := by
    intro h hd' hh
    simp only [closedH, List.getElem?_map, Option.map_eq_some_iff] at hh
    obtain ⟨hd, h1, h2⟩ := hh
    exact ⟨hd, h1, h2.symm⟩
  have hfname : loadNames mine s.fname = s.fname :=
    loadNames_id mine s.fname (fun k g hk => hI.frameName k g ((hmine _).1 hk).1)
  -- the new handle table
  have hH : (reopen .repaired s d).handles = closedH ++ toLoad.map mkLoaded := (loadCols_spec toLoad closedH).1
  have hC : (reopen .repaired s d).cols = s.cols.filter (fun e => !inDs s d e.1.1) ++ (loadCols .repaired toLoad closedH).1 := rfl
  have hnew : ∀ (h : Nat), closedH.length ≤ h → ∀ hd' : Handle, (closedH ++ toLoad.map mkLoaded)[h]? = some hd' →
      ∃ e, toLoad[h - closedH.length]? = some e ∧ hd' = mkLoaded e := by
    intro h hle hd' hh
    rw [List.getElem?_append_right hle, List.getElem?_map, Option.map_eq_some_iff] at hh
    obtain ⟨e, he, rfl⟩ := hh
    exact ⟨e, he, rfl⟩
  have hkeptlt : ∀ k h, (k, h) ∈ s.cols → h < closedH.length := by
    intro k h hk
    obtain ⟨hd, h1, _⟩ := hI.sameObj k h hk
    rw [hlen]; exact (List.getElem?_eq_some_iff.1 h1).1
  refine { colsNodup := ?_, linksNodup := hI.linksNodup, sameKeys := ?_, sameObj := ?_, handleInj := ?_,
           oidInj := hI.oidInj, oidLt := hI.oidLt, fileNodup := hI.fileNodup, frameInj := hI.frameInj,
           frameName := ?_, frameDs := hI.frameDs, fdsLen := ?_, linkFrame := hI.linkFrame,
           handleLink := ?_, handleOidLt := ?_, dfsNodup := ?_, sameFrames := ?_ }
  · -- colsNodup
    rw [hC, keys_append, List.nodup_append]
    refine ⟨(List.Sublist.map _ List.filter_sublist).nodup hI.colsNodup, ?_, ?_⟩
    · rw [loadCols_keys]
      exact (hloadPerm.map _).nodup_iff.2 ((List.Sublist.map _ List.filter_sublist).nodup hI.linksNodup)
    · intro a ha b hb heq
      subst heq
      rw [loadCols_keys] at hb
      have ha' := (mem_keys_filter (q := fun k => !inDs s d k.1)).1 ha
      obtain ⟨o, ho⟩ := mem_keys.1 hb
      have := hP1 _ ((hload _).1 ho).2
      simp [this] at ha'
  · -- sameKeys
    intro k
    rw [hC, keys_append, List.mem_append, loadCols_keys, mem_keys_filter (q := fun k => !inDs s d k.1)]
    constructor
    · rintro (⟨h1, _⟩ | h1)
      · exact (hI.sameKeys k).1 h1
      · obtain ⟨o, ho⟩ := mem_keys.1 h1
        exact mem_keys_of_mem ((hload _).1 ho).1
    · intro hk
      obtain ⟨o, ho⟩ := mem_keys.1 hk
      cases hin : inDs s d k.1 with
      | false => exact Or.inl ⟨(hI.sameKeys k).2 hk, by simp [hin]⟩
      | true => exact Or.inr (mem_keys_of_mem ((hload _).2 ⟨ho, hP2 k o ho hin⟩))
  · -- sameObj
    intro k h hk
    rw [hC, List.mem_append] at hk
    rw [hH]
    rcases hk with hk | hk
    · have hk' := List.mem_filter.1 hk
      obtain ⟨hd, h1, h2, h3, h4, h5, h6⟩ := hI.sameObj k h hk'.1
      have hlt : h < closedH.length := hkeptlt k h hk'.1
      refine ⟨hd, ?_, h2, h3, h4, h5, h6⟩
      rw [List.getElem?_append_left hlt]
      simp only [closedH, List.getElem?_map, h1, Option.map_some]
      have : inDs s d hd.home = false := by
        rw [h5]; simpa using hk'.2
      simp [this]
    · obtain ⟨hle, e, he, rfl⟩ := loadCols_mem.1 hk
      refine ⟨mkLoaded e, ?_, rfl, rfl, rfl, rfl, ?_⟩
      · rw [List.getElem?_append_right hle, List.getElem?_map, he]; rfl
      · exact ((hload e).1 (List.mem_of_getElem? he)).1
  · -- handleInj
    rw [hC, List.map_append, List.nodup_append]
    refine ⟨(List.Sublist.map _ List.filter_sublist).nodup hI.handleInj, ?_, ?_⟩
    · rw [loadCols_vals]; exact List.nodup_range' 1
    · intro a ha b hb heq
      subst heq
      rw [loadCols_vals, List.mem_range'] at hb
      obtain ⟨i, _, hi⟩ := hb
      obtain ⟨e, he, rfl⟩ := List.mem_map.1 ha
      have := hkeptlt e.1 e.2 (List.mem_filter.1 he).1
      omega
  · -- frameName
    intro k g hk
    show (loadNames mine s.fname)[g]? = some k.2
    rw [hfname]; exact hI.frameName k g hk
  · show s.fds.length = (loadNames mine s.fname).length
    rw [hfname]; exact hI.fdsLen
  · -- handleLink
    intro h hd' hh hc k hk
    rw [hH] at hh
    rcases Nat.lt_or_ge h closedH.length with hlt | hge
    · rw [List.getElem?_append_left hlt] at hh
      obtain ⟨hd, h1, h2⟩ := hclosed h hd' hh
      cases hin : inDs s d hd.home with
      | true => rw [hin] at h2; subst h2; simp at hc
      | false =>
        rw [hin] at h2
        simp only [Bool.false_eq_true, if_false] at h2
        subst h2
        exact hI.handleLink h hd' h1 hc k hk
    · obtain ⟨e, he, rfl⟩ := hnew h hge hd' hh
      have hel := ((hload e).1 (List.mem_of_getElem? he)).1
      have : k = e.1 := injective hI.oidInj hk hel
      subst this
      exact ⟨rfl, rfl, rfl⟩
  · -- handleOidLt
    intro h hd' hh
    rw [hH] at hh
    show hd'.oid < s.objs.length
    rcases Nat.lt_or_ge h closedH.length with hlt | hge
    · rw [List.getElem?_append_left hlt] at hh
      obtain ⟨hd, h1, h2⟩ := hclosed h hd' hh
      have := hI.handleOidLt h hd h1
      subst h2
      split <;> exact this
    · obtain ⟨e, he, rfl⟩ := hnew h hge hd' hh
      exact hI.oidLt e.1 e.2 ((hload e).1 (List.mem_of_getElem? he)).1
  · -- dfsNodup
    show (keys (s.dfs.filter (fun e => e.1.1 ≠ d) ++ mine)).Nodup
    rw [keys_append, List.nodup_append]
    refine ⟨(List.Sublist.map _ List.filter_sublist).nodup hI.dfsNodup, ?_, ?_⟩
    · exact ((sortBy_perm entryLe fileD).map _).nodup_iff.2 ((List.Sublist.map _ List.filter_sublist).nodup hI.fileNodup)
    · intro a ha b hb heq
      subst heq
      obtain ⟨v, hv⟩ := mem_keys.1 ha
      obtain ⟨w, hw⟩ := mem_keys.1 hb
      have h1 := (List.mem_filter.1 hv).2
      have h2 := ((hmine _).1 hw).2
      simp only [ne_eq, decide_eq_true_eq] at h1 h2
      exact h1 h2
  · -- sameFrames
    intro e
    show e ∈ s.dfs.filter (fun e => e.1.1 ≠ d) ++ mine ↔ e ∈ s.file
    rw [List.mem_append, hmine, List.mem_filter, hI.sameFrames e]
    simp only [ne_eq, decide_eq_true_eq]
    constructor
    · rintro (⟨h1, _⟩ | ⟨h1, _⟩) <;> exact h1
    · intro h1
      by_cases hd : e.1.1 = d
      · exact Or.inr ⟨h1, hd⟩
      · exact Or.inl ⟨h1, hd⟩

end Exetera.Catalogue
