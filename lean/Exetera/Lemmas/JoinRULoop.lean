import Exetera.Lemmas.JoinRU
/-! One iteration of the right-unique kernels and the whole `_partial` call. -/
namespace Exetera.Join.RU
open Exetera Exetera.Spec Exetera.Join

variable {emit : Bool} {L R : List Int} {cs : Nat} {inv : Int}

theorem partialBody_ru (emit : Bool) (p : P) (s : K) :
    partialBody (ruvariant emit) p s = uniqueBody (ruvariant emit) p s := by
  cases emit <;> rfl

/-- the two kernels' loop guards (`j < len(right)` resp. `j < j_max`) coincide on an untrimmed right chunk -/
theorem partialGuard_ru (emit : Bool) (d : D) (s : K) (hlen : d.rch.data.length = d.rch.hi - d.rch.lo) :
    partialGuard (ruvariant emit) (mkP L R cs inv d) s =
      (decide (s.i < d.lch.hi - d.lch.lo) && decide (s.j < d.rch.hi - d.rch.lo) && decide (s.rb.length < cs)) := by
  cases emit
  · simp [partialGuard, ruvariant, mkP, D.iMax, D.jMax, K.r]; rfl
  · simp [partialGuard, ruvariant, mkP, D.iMax, D.jMax, K.r, hlen]; rfl

/-- one iteration of a right-unique kernel preserves the invariant and decreases both variants -/
theorem ru_step (hL : Sorted L) (hR : R.Pairwise (· < ·)) (d : D) (hinv : UInv emit L R cs inv d)
    (hg : partialGuard (ruvariant emit) (mkP L R cs inv d) d.k = true) :
    ∃ s', uniqueBody (ruvariant emit) (mkP L R cs inv d) d.k = .ok s' ∧ UInv emit L R cs inv { d with k := s' } ∧
      ukmu { d with k := s' } < ukmu d ∧ ugmu L R { d with k := s' } < ugmu L R d := by
  rw [partialGuard_ru emit d d.k hinv.rlen] at hg
  simp only [Bool.and_eq_true] at hg
  have hi := of_decide_eq_true hg.1.1
  have hj := of_decide_eq_true hg.1.2
  have hr := of_decide_eq_true hg.2
  obtain ⟨a, ha, hga⟩ := chunk_access hinv.lok hi "left[i]"
  obtain ⟨b, hb, hgb⟩ := chunk_access hinv.rok hj "right[j]"
  rcases Int.lt_trichotomy a b with hab | hab | hab
  · -- a < b
    cases emit with
    | true =>
      refine ⟨{ d.k with lb := d.k.lb ++ [↑(d.k.i + d.lch.lo)], rb := d.k.rb ++ [inv], i := d.k.i + 1 }, ?_, ?_⟩
      · simp [uniqueBody, ruvariant, Variant.isLeft, mkP, hga, hgb, hab, push, hr, bind, Except.bind, pure, Except.pure]
      · exact ru_lt hL (sorted_of_strict hR) hinv hi hr ha hb hab rfl rfl rfl rfl rfl rfl (by simp [D.I, Nat.add_comm]) (by simp)
    | false =>
      refine ⟨{ d.k with i := d.k.i + 1 }, ?_, ?_⟩
      · simp [uniqueBody, ruvariant, Variant.isLeft, mkP, hga, hgb, hab, bind, Except.bind, pure, Except.pure]
      · exact ru_lt hL (sorted_of_strict hR) hinv hi hr ha hb hab rfl rfl rfl rfl rfl rfl (by simp) (by simp)
  · -- a = b
    subst hab
    have hlo := hinv.lok.lo_le
    have h1 : ¬ a < a := by omega
    by_cases hend : d.k.i + 1 ≥ d.lch.hi - d.lch.lo
    · -- the trimmed chunk ends here, so the run of `a` ends here
      refine ⟨{ d.k with lb := d.k.lb ++ [↑(d.k.i + d.lch.lo)], rb := d.k.rb ++ [↑(d.k.j + d.rch.lo)],
                         i := d.k.i + 1, j := d.k.j + 1 }, ?_, ?_⟩
      · cases emit <;>
          simp [uniqueBody, ruvariant, mkP, D.iMax, hga, hgb, h1, hend, push, hr, bind, Except.bind, pure, Except.pure]
      · refine ru_eq hL hR hinv hi hj hr ha hb rfl rfl rfl rfl rfl (Or.inr ⟨rfl, ?_⟩)
          (by simp [D.I, Nat.add_comm]) (by simp [D.J, Nat.add_comm])
        intro a' ha'
        exact boundary_gt hL hinv.lbd (I := d.I) (by simp only [D.I]; omega) ha ha'
    · have hi1 : d.k.i + 1 < d.lch.hi - d.lch.lo := by omega
      obtain ⟨a1, ha1, hga1⟩ := chunk_access hinv.lok hi1 "left[i+1]"
      have hnge : ¬ (d.lch.hi - d.lch.lo ≤ d.k.i + 1) := by omega
      by_cases hne : a1 = a
      · refine ⟨{ d.k with lb := d.k.lb ++ [↑(d.k.i + d.lch.lo)], rb := d.k.rb ++ [↑(d.k.j + d.rch.lo)],
                           i := d.k.i + 1 }, ?_, ?_⟩
        · cases emit <;>
            simp [uniqueBody, ruvariant, mkP, D.iMax, hga, hgb, h1, hnge, hga1, hne, push, hr, bind, Except.bind, pure, Except.pure]
        · exact ru_eq hL hR hinv hi hj hr ha hb rfl rfl rfl rfl rfl (Or.inl rfl)
            (by simp [D.I, Nat.add_comm]) (by simp [D.J, Nat.add_comm])
      · refine ⟨{ d.k with lb := d.k.lb ++ [↑(d.k.i + d.lch.lo)], rb := d.k.rb ++ [↑(d.k.j + d.rch.lo)],
                           i := d.k.i + 1, j := d.k.j + 1 }, ?_, ?_⟩
        · cases emit <;>
            simp [uniqueBody, ruvariant, mkP, D.iMax, hga, hgb, h1, hnge, hga1, hne, push, hr, bind, Except.bind, pure, Except.pure]
        · refine ru_eq hL hR hinv hi hj hr ha hb rfl rfl rfl rfl rfl (Or.inr ⟨rfl, ?_⟩)
            (by simp [D.I, Nat.add_comm]) (by simp [D.J, Nat.add_comm])
          intro a' ha'
          have e1 : d.I + 1 = d.lch.lo + (d.k.i + 1) := by simp only [D.I]; omega
          rw [e1, ha1] at ha'
          cases ha'
          have hle := Sorted.le_get? hL (i := d.I) (j := d.lch.lo + (d.k.i + 1)) (by simp only [D.I]; omega) ha ha1
          omega
  · -- a > b
    refine ⟨{ d.k with j := d.k.j + 1 }, ?_, ?_⟩
    · have h1 : ¬ a < b := by omega
      cases emit <;> simp [uniqueBody, mkP, hga, hgb, h1, hab, bind, Except.bind, pure, Except.pure]
    · exact ru_gt hinv hj ha hb hab rfl rfl rfl rfl rfl rfl rfl rfl

theorem ukmu_le_fuel (d : D) : ukmu d ≤ partialFuel (mkP L R cs inv d) := by
  simp only [ukmu, partialFuel, mkP, D.iMax, D.jMax]
  omega

/-- a whole `_partial` call: returns normally (no out-of-bounds access, within its fuel), keeps the invariant,
    leaves its loop guard false, never increases the global variant and decreases it if it ran at all -/
theorem ru_partial (hL : Sorted L) (hR : R.Pairwise (· < ·)) (d : D) (hinv : UInv emit L R cs inv d) :
    ∃ k', runPartial (ruvariant emit) (mkP L R cs inv d) d.k = .ok k' ∧ UInv emit L R cs inv { d with k := k' } ∧
      partialGuard (ruvariant emit) (mkP L R cs inv d) k' = false ∧
      ugmu L R { d with k := k' } ≤ ugmu L R d ∧
      (partialGuard (ruvariant emit) (mkP L R cs inv d) d.k = true → ugmu L R { d with k := k' } < ugmu L R d) := by
  have hmk : ∀ s : K, mkP L R cs inv { d with k := s } = mkP L R cs inv d := fun s => rfl
  have key := whileE_rule (partialGuard (ruvariant emit) (mkP L R cs inv d)) (partialBody (ruvariant emit) (mkP L R cs inv d))
    (fun s => UInv emit L R cs inv { d with k := s } ∧ ugmu L R { d with k := s } ≤ ugmu L R d ∧
      (s ≠ d.k → ugmu L R { d with k := s } < ugmu L R d))
    (fun s => ukmu { d with k := s })
    (by
      intro s ⟨hI, hle, hne⟩ hg
      have := ru_step hL hR { d with k := s } hI (by rw [hmk]; exact hg)
      obtain ⟨s', h1, h2, h3, h4⟩ := this
      rw [hmk] at h1
      refine ⟨s', by rw [partialBody_ru]; exact h1, ⟨h2, ?_, ?_⟩, h3⟩
      · exact Nat.le_of_lt (Nat.lt_of_lt_of_le h4 hle)
      · intro _; exact Nat.lt_of_lt_of_le h4 hle)
    (partialFuel (mkP L R cs inv d)) d.k ⟨hinv, Nat.le_refl _, fun h => absurd rfl h⟩ (ukmu_le_fuel d)
  obtain ⟨k', h1, ⟨h2, h3, h4⟩, h5⟩ := key
  refine ⟨k', h1, h2, h5, h3, ?_⟩
  intro hg
  apply h4
  intro heq
  rw [heq] at h5
  rw [h5] at hg
  cases hg

end Exetera.Join.RU
