import Exetera.Model.JoinOld
/-!
  C19, `Session.join(destination_pkey, fkey_indices, values_to_join)`: one value per run of `fkey_indices` is scattered
  into the space of the destination primary key. Core Lean only.
-/
namespace Exetera.JoinOld
open Exetera

/-- the key of every run of equal adjacent values (what `raw_fkey_indices[get_spans(fkey)[:-1]]` holds) -/
def runKeysFrom : Option Int → List Int → List Int
  | _, [] => []
  | prev, x :: xs => if prev == some x then runKeysFrom (some x) xs else x :: runKeysFrom (some x) xs

def runKeys (xs : List Int) : List Int := runKeysFrom none xs

theorem mapM_runStarts (fkey : List Int) : ∀ (xs pre : List Int) (prev : Option Int), fkey = pre ++ xs →
    mapM' (fun s => getE fkey s "raw_fkey_indices[spans]") (runStartsFrom prev xs pre.length) = .ok (runKeysFrom prev xs)
  | [], _, _, _ => rfl
  | x :: xs, pre, prev, h => by
    have ih := mapM_runStarts fkey xs (pre ++ [x]) (some x) (by simp [h])
    simp only [List.length_append, List.length_singleton] at ih
    simp only [runStartsFrom, runKeysFrom]
    split
    · exact ih
    · have hg : getE fkey pre.length "raw_fkey_indices[spans]" = .ok x := by
        apply getE_eq_ok.mpr
        rw [h]
        simp
      simp only [mapM', hg, ih]

theorem runKeysFrom_mem : ∀ (xs : List Int) (prev : Option Int) (k : Int), k ∈ runKeysFrom prev xs → k ∈ xs
  | [], _, _, h => by simp [runKeysFrom] at h
  | x :: xs, prev, k, h => by
    simp only [runKeysFrom] at h
    split at h
    · exact List.mem_cons_of_mem _ (runKeysFrom_mem xs _ k h)
    · rcases List.mem_cons.mp h with h | h
      · simp [h]
      · exact List.mem_cons_of_mem _ (runKeysFrom_mem xs _ k h)

theorem mem_runKeysFrom : ∀ (xs : List Int) (prev : Option Int) (k : Int), k ∈ xs → prev ≠ some k → k ∈ runKeysFrom prev xs
  | [], _, _, h, _ => by simp at h
  | x :: xs, prev, k, h, hp => by
    simp only [runKeysFrom]
    by_cases hkx : k = x
    · subst hkx
      have : (prev == some k) = false := by simpa using hp
      simp [this]
    · have hk : k ∈ xs := by
        rcases List.mem_cons.mp h with h | h
        · exact absurd h hkx
        · exact h
      have ih := mem_runKeysFrom xs (some x) k hk (by simpa using fun h => hkx h.symm)
      split
      · exact ih
      · exact List.mem_cons_of_mem _ ih

/-- scatter with pairwise distinct, in-range keys: every pair lands, every other cell is untouched -/
theorem scatter_spec : ∀ (kvs : List (Int × Int)) (dest : List Int),
    (kvs.map (·.1)).Nodup → (∀ p ∈ kvs, 0 ≤ p.1 ∧ p.1 < dest.length) →
    ∃ out, scatter dest kvs = .ok out ∧ out.length = dest.length ∧
      (∀ p ∈ kvs, out[p.1.toNat]? = some p.2) ∧
      (∀ d : Nat, (∀ p ∈ kvs, p.1 ≠ (d : Int)) → out[d]? = dest[d]?)
  | [], dest, _, _ => ⟨dest, rfl, rfl, fun p hp => by simp at hp, fun _ _ => rfl⟩
  | (k, v) :: rest, dest, hnd, hr => by
    obtain ⟨h0, h1⟩ := hr (k, v) (by simp)
    have hkt : k.toNat < dest.length := by omega
    simp only [List.map_cons, List.nodup_cons] at hnd
    obtain ⟨hk, hnd'⟩ := hnd
    obtain ⟨out, h2, h3, h4, h5⟩ := scatter_spec rest (dest.set k.toNat v) hnd'
      (fun p hp => by simpa using hr p (by simp [hp]))
    refine ⟨out, ?_, by simpa using h3, ?_, ?_⟩
    · simp only [scatter, setI, h0, if_true, setE, hkt, h2]
    · intro p hp
      rcases List.mem_cons.mp hp with hp | hp
      · subst hp
        have := h5 k.toNat (fun q hq hqk => hk (by
          have : q.1 = k := by omega
          rw [← this]
          exact List.mem_map_of_mem hq))
        rw [this]
        simp [hkt]
      · exact h4 p hp
    · intro d hd
      have hdk : k.toNat ≠ d := by
        have := hd (k, v) (by simp)
        simp only [] at this
        omega
      rw [h5 d (fun p hp => hd p (by simp [hp])), List.getElem?_set_ne hdk]

/-- **`Session.join`**: with one value per run of the foreign-key indices, every run key in range (or a marker
    `≥ INVALID_INDEX`, dropped) and every key's rows contiguous (one run per key), the destination holds at row `k` the
    value of the run with key `k`, and `0` at every row no foreign key points to -/
theorem join_spec (destLen : Nat) (fkey values : List Int) (hlen : (runKeys fkey).length = values.length)
    (hnd : (runKeys fkey).Nodup) (hr : ∀ k ∈ fkey, k < INVALID_INDEX → 0 ≤ k ∧ k < destLen) :
    ∃ out, join destLen fkey values = .ok out ∧ out.length = destLen ∧
      (∀ (r : Nat) (k v : Int), (runKeys fkey)[r]? = some k → values[r]? = some v → k < INVALID_INDEX →
        out[k.toNat]? = some v) ∧
      (∀ d : Nat, d < destLen → (d : Int) ∉ fkey → out[d]? = some 0) := by
  have huniq := mapM_runStarts fkey fkey [] none rfl
  have hkeys : ((((runKeys fkey).zip values).filter (fun p => decide (p.1 < INVALID_INDEX))).map (·.1)).Nodup := by
    apply List.Pairwise.sublist _ hnd
    have h1 : List.Sublist ((((runKeys fkey).zip values).filter (fun p => decide (p.1 < INVALID_INDEX))).map (·.1))
        (((runKeys fkey).zip values).map (·.1)) := List.Sublist.map _ List.filter_sublist
    have h2 : ((runKeys fkey).zip values).map (·.1) = runKeys fkey := by
      rw [List.map_fst_zip]
      omega
    rwa [h2] at h1
  obtain ⟨out, h1, h2, h3, h4⟩ := scatter_spec _ (List.replicate destLen 0) hkeys (by
    intro p hp
    obtain ⟨hp1, hp2⟩ := List.mem_filter.mp hp
    have hk : p.1 ∈ fkey := runKeysFrom_mem fkey none p.1 (List.of_mem_zip hp1).1
    simpa using hr p.1 hk (by simpa using hp2))
  refine ⟨out, ?_, by simpa using h2, ?_, ?_⟩
  · have hne : ((runKeys fkey).length != values.length) = false := by simp [hlen]
    simp only [List.length_nil] at huniq
    simp only [join, runStarts, huniq, runKeys] at hne ⊢
    simp only [hne, Bool.false_eq_true, if_false]
    exact h1
  · intro r k v hk hv hlt
    have hmem : (k, v) ∈ (runKeys fkey).zip values := by
      apply List.mem_of_getElem? (i := r)
      simp [List.getElem?_zip_eq_some, hk, hv]
    exact h3 (k, v) (List.mem_filter.mpr ⟨hmem, by simpa using hlt⟩)
  · intro d hd hnot
    rw [h4 d (fun p hp hpd => hnot (by
      rw [← hpd]
      exact runKeysFrom_mem fkey none p.1 (List.of_mem_zip (List.mem_filter.mp hp).1).1))]
    simp [hd]

end Exetera.JoinOld
