"""C08 — spans are the maximal runs of equal adjacent rows; reductions respect them.
Correspondence: ops.get_spans_for_field / _get_spans_for_2_fields(_by_spans) / _get_spans_for_multi_fields /
_get_spans_for_index_string_field / Session.get_spans / Field.get_spans / ops.apply_spans_* / Session.apply_spans_* /
Field.apply_spans_*   vs   Exetera.Spans.* (Lean, lean/Exetera/Model/Spans.lean)
Oracle for the property itself: the Python rendering of Spec/Spans.lean below (`spec_spans`, `spec_apply`)."""
import itertools
import os

PROPERTY = "C08"
LEVEL = "proof"
LEAN_MODULES = ["Exetera.Props.C08", "Exetera.Witness.C08"]
THEOREMS = []  # checks/obligations/C08.json
EXHAUSTIVE = {"quick": True, "thorough": True}
MODES = {"quick": ["jit", "nojit"], "thorough": ["jit", "nojit", "bounds"], "search": ["jit", "nojit"]}
CASE_TIMEOUT = 300   # generous: a SIGALRM landing inside a numba compilation on a loaded machine poisons the dispatcher
RULE = ("exhaustive: every column over a 3-letter alphabet up to length 6 (quick) / 7 (thorough) through the four single-column "
        "entry points (Field.get_spans, ops.get_spans_for_field, Session.get_spans(field|ndarray)) with dtypes int64/int32/"
        "float64/bool and utils.INT64_INDEX_LENGTH either untouched or lowered to len / len+1 (both span dtypes); every fixed-"
        "string and indexed-string column up to length 3 (4) over {'', a, 'a ', 'a  ', ab, b, 'a\\n', 'a\\0b', ['a\\0' indexed]}; "
        "every pair of 2-letter columns up to length 4 (5) and 3-letter columns up to 3 through _get_spans_for_2_fields and "
        "Session.get_spans(fields=arrays); every triple of 2-letter columns up to length 2 (3) through _get_spans_for_multi_fields; "
        "every pair of span partitions of n <= 5 (6) through _get_spans_for_2_fields_by_spans; Session.get_spans(fields=Fields) "
        "over mixed numeric/fixed/indexed columns; every (span partition, 3-letter column) with n <= 4 (5) through every "
        "apply_spans_* kernel at ops, Session and Field level with int32 and int64 span arrays, indexed-string min/max over "
        "every partition x 5-string column with n <= 3 (4); the four *_filter kernels; plus seeded random columns with planted "
        "runs up to 200 (3000) rows and a malformed stream (non-monotone spans, empty spans, spans beyond the column, empty span "
        "array, short destination buffers, ragged fields). Non-trivial = the column has a run of >= 2 equal rows and >= 2 spans "
        "(span ops) / some span with >= 2 rows that are not all equal (reductions); distinct = distinct canonical case. "
        "Where the model reports an out-of-bounds subscript the compiled code's result is undefined and is only compared in "
        "the interpreted and bounds-checked modes.")
ASSUMPTIONS = [
    "numpy `!=` on int/float(NaN-free)/bool/fixed-length byte-string arrays is element-wise inequality (byte-exact up to the trailing NUL padding of the S dtype)",
    "numba/numpy compare fixed-length byte strings as the unsigned lexicographic order, so a fixed-string column is order-isomorphic to its rank column (validated by running fixed-string cases, not proved)",
    "ndarray.argmin/argmax return the first extremal position; np.nonzero returns the set positions in increasing order; np.array_equal on uint8 slices is list equality",
    "apply_index_to_indexed_field selects the given rows (C09)",
    "hand-written Lean model validated by this differential run, not verified against the Python text",
]
TRUSTED = ["Lean 4.33 kernel", "axioms: propext, Classical.choice, Quot.sound only (audited per theorem)",
           "checks/harness/c08.py generators, oracle and comparison",
           "Lean model Exetera/Model/Spans.lean mirrors operations.py / session.py / fields.py by hand"]
TECHNIQUE = ("Lean 4 theorems about an executable model of the span kernels + differential correspondence of the compiled "
             "model with the real functions (JIT, interpreted and bounds-checked)")
LEVEL_TEXT = ""   # set at the bottom of the file
LEVEL_NOTE = ""
EXPLANATION = ""

DEFAULT_THR = (1 << 31) - 1
FIXED_ALPHA = ["", "a", "a ", "a  ", "ab", "b", "a\n", "a\x00b"]          # width 3; trailing NULs do not exist in 'S'
INDEXED_ALPHA = ["", "a", "a ", "ab", "b", "a\x00", "a\t", "ba"]
SMALL_STR = ["", "a", "ab", "b", "a "]
SRC_FNS = ["first", "last", "min", "max", "index_of_min", "index_of_max"]
NOSRC_FNS = ["count", "index_of_first", "index_of_last"]
FIELD_FNS = ["first", "last", "min", "max"]


# ------------------------------------------------------------------------------------------------------------------
# helpers shared by generators, model encoding and oracle
# ------------------------------------------------------------------------------------------------------------------

def sbytes(s):
    """bytes of a fixed-string row as numpy stores/returns them (width 3, trailing NULs dropped)"""
    return s.encode("latin-1")[:3].rstrip(b"\x00")


def ibytes(s):
    return s.encode("latin-1")


def ranks(strs):
    bs = sorted(set(sbytes(s) for s in strs))
    return {b: i for i, b in enumerate(bs)}


def col_values(col):
    """the rows of a column as comparable Python values (what 'equal rows' means for the property)"""
    k = col["kind"]
    if k == "numeric":
        return list(col["data"])
    if k == "fixed":
        return [sbytes(s) for s in col["data"]]
    return [ibytes(s) for s in col["data"]]


def col_len(col):
    return len(col["data"])


def indexed_raw(strs, no_index_when_empty=True):
    idx, vals = [0], []
    for s in strs:
        vals.extend(ibytes(s))
        idx.append(len(vals))
    if not strs and no_index_when_empty:
        idx = []            # an empty IndexedStringMemField has no index entries at all (D2)
    return idx, vals


def col_to_model(col):
    k = col["kind"]
    if k == "numeric":
        return {"kind": "numeric", "data": [int(x) for x in col["data"]]}
    if k == "fixed":
        return {"kind": "fixed", "data": [list(sbytes(s)) for s in col["data"]]}
    idx, vals = indexed_raw(col["data"], col.get("noidx", True))
    return {"kind": "indexed", "indices": idx, "values": vals}


def col_to_ints(col):
    """Int rendering of a numeric / fixed column for the kernels that only compare"""
    if col["kind"] == "numeric":
        return [int(x) for x in col["data"]]
    r = ranks(col["data"])
    return [r[sbytes(s)] for s in col["data"]]


def compositions(n):
    """all span arrays of a column with n rows (n >= 1): 0 = s0 < s1 < … = n"""
    out = []
    for bits in itertools.product([0, 1], repeat=max(n - 1, 0)):
        out.append([0] + [i + 1 for i, b in enumerate(bits) if b] + [n])
    return out


def all_cols(k, n, lo=0):
    out = []
    for ln in range(lo, n + 1):
        out.extend(list(c) for c in itertools.product(range(k), repeat=ln))
    return out


def num_col(data, dtype="int64"):
    return {"kind": "numeric", "data": list(data), "dtype": dtype}


def fixed_col(strs):
    return {"kind": "fixed", "data": list(strs)}


def indexed_col(strs, noidx=True):
    return {"kind": "indexed", "data": list(strs), "noidx": noidx}


# ------------------------------------------------------------------------------------------------------------------
# generators
# ------------------------------------------------------------------------------------------------------------------

def thr_for(k, n):
    return [DEFAULT_THR, n, n + 1, max(n - 1, 0)][k % 4]


def compile_class(c):
    """which numba specialisations a case needs (one worker process compiles each of them once)"""
    col = c.get("col") or (c.get("cols") or [{}])[0]
    return (c["op"], c.get("fn"), c.get("sdtype"), col.get("kind"), col.get("dtype"), c.get("entry"))


def lanes(cases, nlanes=16):
    """reorder so that the cases at positions = k (mod nlanes) — the shard of worker k in lib.run_impl — share their
    compile classes: every worker then JIT-compiles a sixteenth of the kernel/dtype combinations instead of all of them"""
    by = {}
    for c in cases:
        by.setdefault(compile_class(c), []).append(c)
    lane = [[] for _ in range(nlanes)]
    for key in sorted(by, key=lambda k: (-len(by[k]), str(k))):
        min(lane, key=len).extend(by[key])
    out = []
    pos = [0] * nlanes
    total = len(cases)
    while len(out) < total:
        for k in range(nlanes):
            if pos[k] < len(lane[k]):
                out.append(lane[k][pos[k]])
                pos[k] += 1
            else:                       # lane exhausted: borrow from the fullest one
                j = max(range(nlanes), key=lambda q: len(lane[q]) - pos[q])
                if pos[j] < len(lane[j]):
                    out.append(lane[j].pop())
    return out


def gen_cases(tier, rng):
    from checks import corpus
    head = list(corpus.load("C08"))
    return head + lanes(_gen_cases(tier, rng), os.cpu_count() or 16)


def _gen_cases(tier, rng):
    cases = []
    quick = tier == "quick"
    cases.append({"op": "int64_index_length"})
    cnt = 0

    # ---- single column --------------------------------------------------------------------------------------
    entries = ["field", "ndarray", "session_field", "session_ndarray"]
    for xs in all_cols(3, 6 if quick else 7):
        cnt += 1
        dt = ["int64", "int32", "float64", "bool"][cnt % 4]
        if dt == "bool" and max(xs + [0]) > 1:
            dt = "int64"
        cases.append({"op": "spans_field", "col": num_col(xs, dt), "entry": entries[(cnt // 4) % 4],
                      "thr": thr_for(cnt // 16, len(xs)), "_n": cnt})
    for ln in range(0, (3 if quick else 4) + 1):
        for t in itertools.product(range(len(FIXED_ALPHA)), repeat=ln):
            cnt += 1
            cases.append({"op": "spans_field", "col": fixed_col([FIXED_ALPHA[i] for i in t]), "entry": entries[cnt % 4],
                          "thr": thr_for(cnt // 4, ln), "_n": cnt})
        for t in itertools.product(range(len(INDEXED_ALPHA)), repeat=ln):
            cnt += 1
            cases.append({"op": "spans_field", "col": indexed_col([INDEXED_ALPHA[i] for i in t], noidx=cnt % 2 == 0),
                          "entry": ["field", "session_field", "raw"][cnt % 3], "thr": DEFAULT_THR, "_n": cnt})

    # ---- two arrays / several arrays ----------------------------------------------------------------------------
    def pairs_of(k, n):
        for ln in range(0, n + 1):
            cs = [list(c) for c in itertools.product(range(k), repeat=ln)]
            for a in cs:
                for b in cs:
                    yield a, b
    for k, n in ((2, 4 if quick else 5), (3, 3)):
        for a, b in pairs_of(k, n):
            cnt += 1
            fx = cnt % 5 == 0
            ca = fixed_col([SMALL_STR[i] for i in a]) if fx else num_col(a, ["int64", "int32"][cnt % 2])
            cb = fixed_col([FIXED_ALPHA[i + 1] for i in b]) if cnt % 10 == 0 else num_col(b, "int64")
            cases.append({"op": ["spans_2arrays", "spans_session_arrays"][(cnt // 2) % 2], "cols": [ca, cb],
                          "thr": thr_for(cnt // 4, len(a)), "_n": cnt})
    for ln in range(0, (2 if quick else 3) + 1):
        cs = [list(c) for c in itertools.product(range(2), repeat=ln)]
        for a in cs:
            for b in cs:
                for c in cs:
                    cnt += 1
                    cases.append({"op": "spans_multi", "cols": [num_col(a), num_col(b), num_col(c)],
                                  "thr": thr_for(cnt, ln), "_n": cnt})
    for ln in range(0, 5):
        for a in itertools.product(range(2), repeat=ln):
            cnt += 1
            cases.append({"op": "spans_multi", "cols": [num_col(a)], "thr": thr_for(cnt, ln), "_n": cnt})

    # ---- merge of two span arrays ----------------------------------------------------------------------------------
    cases.append({"op": "spans_by_spans", "span0": [0], "span1": [0]})
    for n in range(1, (5 if quick else 6) + 1):
        comps = compositions(n)
        for s0 in comps:
            for s1 in comps:
                cnt += 1
                cases.append({"op": "spans_by_spans", "span0": s0, "span1": s1, "sdtype": ["int32", "int64"][cnt % 2],
                              "_n": cnt})

    # ---- Session.get_spans(fields=(Field, Field, …)) ---------------------------------------------------------------
    def mixed_col(kind, xs):
        if kind == 0:
            return num_col(xs)
        if kind == 1:
            return fixed_col([FIXED_ALPHA[x] for x in xs])
        return indexed_col([INDEXED_ALPHA[x] for x in xs])
    for ln in range(0, 4):
        cs = [list(c) for c in itertools.product(range(2), repeat=ln)]
        for a in cs:
            for b in cs:
                for ka in range(3):
                    for kb in range(3):
                        cnt += 1
                        cases.append({"op": "spans_session_fields", "cols": [mixed_col(ka, a), mixed_col(kb, b)], "_n": cnt})
    for a, b, c in ([[0, 0, 1, 1], [0, 0, 1, 1], [0, 1, 1, 2]], [[0, 0], [0, 0], [0, 0]], [[0, 1], [0, 1], [0, 1]],
                    [[0, 0, 0], [0, 0, 0], [0, 0, 1]]):
        cases.append({"op": "spans_session_fields", "cols": [num_col(a), num_col(b), num_col(c)]})
        cases.append({"op": "spans_session_arrays", "cols": [num_col(a), num_col(b), num_col(c)], "thr": DEFAULT_THR})
    cases.append({"op": "spans_session_fields", "cols": [num_col([1, 1, 2])]})
    cases.append({"op": "spans_session_arrays", "cols": [num_col([1, 1, 2])], "thr": DEFAULT_THR})
    # any number of fields (fix NC08d): one field of every kind and length; every triple of 2-letter columns up to length 3
    # in rotating kinds; four fields
    for ln in range(0, 4):
        cs = [list(c) for c in itertools.product(range(2), repeat=ln)]
        for a in cs:
            for ka in range(3):
                cnt += 1
                cases.append({"op": "spans_session_fields", "cols": [mixed_col(ka, a)], "thr": thr_for(cnt, ln), "_n": cnt})
            cnt += 1
            cases.append({"op": "spans_session_arrays", "cols": [num_col(a)], "thr": thr_for(cnt, ln), "_n": cnt})
            for b in cs:
                for c in cs:
                    cnt += 1
                    ks = [(cnt // 3 ** j) % 3 for j in range(3)]
                    cases.append({"op": "spans_session_fields",
                                  "cols": [mixed_col(ks[0], a), mixed_col(ks[1], b), mixed_col(ks[2], c)], "_n": cnt})
                    if cnt % 4 == 0:
                        cases.append({"op": "spans_session_arrays", "cols": [num_col(a), num_col(b), num_col(c)],
                                      "thr": thr_for(cnt, ln), "_n": cnt})
                    if cnt % 16 == 0:
                        cases.append({"op": "spans_session_fields",
                                      "cols": [mixed_col(ks[0], a), mixed_col(ks[1], b), mixed_col(ks[2], c), mixed_col(ks[0], b)],
                                      "_n": cnt})

    # ---- columns longer than the library's fixed internal block size (1 << 20 rows): runs ending exactly at, one before and
    #      one after a multiple of it. Given run-length encoded; no Lean model run (a million-row list), the oracle decides.
    B = 1 << 20
    for runs in ([[0, B], [1, 5]], [[0, B - 1], [1, 6]], [[0, B + 1], [1, 4]], [[3, 7], [4, B - 7], [5, B], [5, 2], [6, 1]]):
        for ent in ("field", "session_field", "ndarray", "session_ndarray"):
            cnt += 1
            cases.append({"op": "spans_big", "runs": runs, "dtype": ["int64", "int32"][cnt % 2], "entry": ent, "_n": cnt})
    # ---- reductions ------------------------------------------------------------------------------------------------
    nmax = 4 if quick else 5
    for n in range(1, nmax + 1):
        comps = compositions(n)
        cols = [list(c) for c in itertools.product(range(3), repeat=n)]
        for sp in comps:
            for fn in NOSRC_FNS:
                cnt += 1
                cases.append(apply_case(fn, sp, None, cnt))
            for xs in cols:
                for fn in SRC_FNS:
                    cnt += 1
                    cases.append(apply_case(fn, sp, xs, cnt))
    for n in range(1, (3 if quick else 4) + 1):
        comps = compositions(n)
        for t in itertools.product(range(len(SMALL_STR)), repeat=n):
            strs = [SMALL_STR[i] for i in t]
            for sp in comps:
                for fn in ("index_of_min_indexed", "index_of_max_indexed"):
                    cnt += 1
                    cases.append({"op": "apply", "fn": fn, "level": ["ops", "field"][cnt % 2], "spans": sp,
                                  "sdtype": ["int32", "int64"][(cnt // 2) % 2], "col": indexed_col(strs), "_n": cnt})
    cases.append({"op": "apply", "fn": "count", "level": "ops", "spans": [0], "sdtype": "int32"})
    cases.append({"op": "apply", "fn": "first", "level": "ops", "spans": [0], "sdtype": "int32", "col": num_col([])})

    # ---- *_filter kernels ----------------------------------------------------------------------------------------
    for n in range(1, 4):
        for sp in compositions(n):
            for extra in (0, 1):
                sp2 = sp if not extra else sp[:1] + sp        # a leading empty span [0, 0, …]
                for xs in ([list(c) for c in itertools.product(range(2), repeat=n)]):
                    for fn in ("index_of_min", "index_of_max", "index_of_first", "index_of_last"):
                        cnt += 1
                        cases.append({"op": "apply_filter", "fn": fn, "spans": sp2, "sdtype": "int32",
                                      "col": num_col(xs), "dest": [7] * (len(sp2) - 1), "filt": [cnt % 2 == 0] * (len(sp2) - 1),
                                      "_n": cnt})

    # ---- seeded random larger cases -----------------------------------------------------------------------------
    nrand = 250 if quick else 20000
    big = 200 if quick else 3000
    for t in range(nrand):
        cnt += 1
        n = rng.choice([0, 1, 2, rng.randrange(3, 40), rng.randrange(3, big)])
        kind = rng.choice(["numeric", "numeric", "fixed", "indexed"])
        col = rand_col(rng, kind, n)
        what = rng.randrange(8)
        if what == 0:
            ent = rng.choice(["field", "session_field"] if kind == "indexed" else entries)
            cases.append({"op": "spans_field", "col": col, "entry": ent,
                          "thr": rng.choice([DEFAULT_THR, n, n + 1, max(n - 1, 0), 5]) if kind != "indexed" else DEFAULT_THR,
                          "_n": cnt})
        elif what == 1:
            a, b = rand_col(rng, rng.choice(["numeric", "fixed"]), n), rand_col(rng, "numeric", n)
            cases.append({"op": rng.choice(["spans_2arrays", "spans_session_arrays"]), "cols": [a, b],
                          "thr": rng.choice([DEFAULT_THR, n, n + 1, max(n - 1, 0)]), "_n": cnt})
        elif what == 2:
            k = rng.randrange(1, 5)
            cases.append({"op": "spans_multi", "cols": [rand_col(rng, "numeric", n, dtype="int64") for _ in range(k)],
                          "thr": rng.choice([DEFAULT_THR, n, n + 1, max(n - 1, 0)]), "_n": cnt})
        elif what == 3:
            k = rng.choice([1, 1, 1, 2, 3])          # further fields: 2 fields most often, up to 4
            if rng.random() < 0.25:
                cases.append({"op": "spans_session_arrays", "thr": rng.choice([DEFAULT_THR, n, n + 1, max(n - 1, 0)]),
                              "cols": [rand_col(rng, "numeric", n) for _ in range(rng.choice([1, 3, 4]))], "_n": cnt})
            else:
                cases.append({"op": "spans_session_fields",
                              "cols": [col] + [rand_col(rng, rng.choice(["numeric", "fixed", "indexed"]), n) for _ in range(k)],
                              "_n": cnt})
        elif what == 4:
            s0, s1 = rand_spans(rng, n), rand_spans(rng, n)
            cases.append({"op": "spans_by_spans", "span0": s0, "span1": s1, "sdtype": rng.choice(["int32", "int64"]), "_n": cnt})
        else:
            if n == 0:
                n = rng.randrange(1, 30)
                col = rand_col(rng, kind, n)
            sp = rand_spans(rng, n)
            if kind == "indexed":
                cases.append({"op": "apply", "fn": rng.choice(["index_of_min_indexed", "index_of_max_indexed"]),
                              "level": rng.choice(["ops", "field"]), "spans": sp, "sdtype": rng.choice(["int32", "int64"]),
                              "col": col, "_n": cnt})
            else:
                fn = rng.choice(SRC_FNS + NOSRC_FNS)
                c = apply_case(fn, sp, None, rng.randrange(1 << 20))
                if fn in SRC_FNS:
                    c["col"] = col
                    if kind == "fixed" and c["level"] == "session":
                        c["level"] = "ops"
                c["_n"] = cnt
                cases.append(c)

    # ---- malformed stream (error branches; nothing here is demanded by the property) ------------------------------
    nmal = 150 if quick else 4000
    for t in range(nmal):
        cnt += 1
        n = rng.randrange(0, 6)
        xs = [rng.randrange(3) for _ in range(n)]
        m = rng.randrange(0, 5)
        sp = [rng.randrange(0, n + 3) for _ in range(m)]
        if rng.random() < 0.5:
            sp = sorted(sp)
        what = rng.randrange(6)
        if what == 0:
            fn = rng.choice(SRC_FNS + NOSRC_FNS)
            c = apply_case(fn, sp, xs if fn in SRC_FNS else None, rng.randrange(1 << 20))
            c.update({"_malformed": True, "_n": cnt})
            cases.append(c)
        elif what == 1:
            strs = [rng.choice(SMALL_STR) for _ in range(n)]
            cases.append({"op": "apply", "fn": rng.choice(["index_of_min_indexed", "index_of_max_indexed"]),
                          "level": rng.choice(["ops", "field"]), "spans": sp, "sdtype": "int32",
                          "col": indexed_col(strs, noidx=False), "_malformed": True, "_n": cnt})
        elif what == 2:
            dl, fl = rng.randrange(0, m + 2), rng.randrange(0, m + 2)
            cases.append({"op": "apply_filter", "fn": rng.choice(["index_of_min", "index_of_max", "index_of_first", "index_of_last"]),
                          "spans": sp, "sdtype": "int32", "col": num_col(xs), "dest": [7] * dl, "filt": [False] * fl,
                          "_malformed": True, "_oobwrite": dl < m - 1 or fl < m - 1, "_n": cnt})
        elif what == 3:
            s1 = sorted(rng.randrange(0, n + 3) for _ in range(rng.randrange(0, 5)))
            cases.append({"op": "spans_by_spans", "span0": sp, "span1": s1, "sdtype": "int64", "_malformed": True, "_n": cnt})
        elif what == 4:
            ys = [rng.randrange(3) for _ in range(rng.randrange(0, 6))]
            cases.append({"op": "spans_2arrays", "cols": [num_col(xs), num_col(ys)], "thr": DEFAULT_THR,
                          "_malformed": True, "_n": cnt})
        else:
            idx = sorted(rng.randrange(0, 6) for _ in range(rng.randrange(0, 5)))
            vals = [rng.choice([97, 98, 32]) for _ in range(rng.randrange(0, 7))]
            cases.append({"op": "spans_indexed_raw", "indices": idx, "values": vals, "_malformed": True, "_n": cnt})
    return cases


def apply_case(fn, sp, xs, k):
    levels = ["ops", "session", "field"] if fn in FIELD_FNS else ["ops", "session"]
    c = {"op": "apply", "fn": fn, "level": levels[k % len(levels)], "spans": list(sp),
         "sdtype": ["int32", "int64"][(k // 3) % 2], "_n": k}
    if xs is not None:
        if (k // 6) % 4 == 3 and c["level"] != "session":
            c["col"] = fixed_col([SMALL_STR[x] if x < len(SMALL_STR) else "b" for x in xs])
        else:
            c["col"] = num_col(xs, ["int64", "int64", "float64"][(k // 6) % 3])
    return c


def rand_col(rng, kind, n, dtype=None):
    """column with planted runs"""
    alpha = {"numeric": [0, 1, 2, 5, -3], "fixed": FIXED_ALPHA + ["\xff", "A"], "indexed": INDEXED_ALPHA + ["", "\x7f", "abc"]}[kind]
    out = []
    while len(out) < n:
        v = rng.choice(alpha)
        out.extend([v] * rng.choice([1, 1, 1, 2, 3, 7]))
    out = out[:n]
    if kind == "numeric":
        return num_col(out, dtype or rng.choice(["int64", "int32", "float64"]))
    if kind == "fixed":
        return fixed_col(out)
    return indexed_col(out, noidx=rng.random() < 0.5)


def rand_spans(rng, n):
    if n == 0:
        return [0]
    p = rng.choice([0.05, 0.3, 0.7, 1.0])
    return [0] + [i for i in range(1, n) if rng.random() < p] + [n]


# ------------------------------------------------------------------------------------------------------------------
# the case as the Lean driver sees it
# ------------------------------------------------------------------------------------------------------------------

def to_model(case):
    op = case["op"]
    if op == "int64_index_length":
        return case
    if op == "spans_field":
        m = col_to_model(case["col"])
        if case["entry"] == "raw":
            return {"op": "spans_indexed_raw", "indices": m["indices"], "values": m["values"]}
        m.update({"op": "spans_field", "thr": case["thr"]})
        return m
    if op == "spans_2arrays":
        a, b = case["cols"]
        return {"op": op, "a": col_to_ints(a), "b": col_to_ints(b), "thr": case["thr"]}
    if op in ("spans_session_arrays", "spans_multi"):
        return {"op": op, "cols": [col_to_ints(c) for c in case["cols"]], "thr": case["thr"]}
    if op == "spans_session_fields":
        return {"op": op, "cols": [col_to_model(c) for c in case["cols"]], "thr": case.get("thr", DEFAULT_THR)}
    if op == "spans_big":
        return {"op": "int64_index_length"}      # no model run for million-row columns (the answer is ignored)
    if op in ("spans_by_spans", "spans_indexed_raw"):
        return {k: v for k, v in case.items() if not k.startswith("_")}
    if op == "apply":
        m = {"op": "apply", "fn": case["fn"], "level": case["level"], "spans": case["spans"]}
        col = case.get("col")
        if col is not None:
            if col["kind"] == "indexed":
                cm = col_to_model(col)
                m["indices"], m["values"] = cm["indices"], cm["values"]
            else:
                m["src"] = col_to_ints(col)
        return m
    if op == "apply_filter":
        return {"op": op, "fn": case["fn"], "spans": case["spans"], "src": col_to_ints(case["col"]),
                "dest": case["dest"], "filt": case["filt"]}
    raise ValueError(op)


# ------------------------------------------------------------------------------------------------------------------
# implementation (runs in worker processes)
# ------------------------------------------------------------------------------------------------------------------
_S = {}


def _env():
    if not _S:
        import numpy as np
        from exetera.core import operations as ops, fields, utils
        from exetera.core.session import Session
        _S.update(np=np, ops=ops, fields=fields, utils=utils, s=Session(), real_thr=utils.INT64_INDEX_LENGTH,
                  jit=os.environ.get("USE_NUMBA", "true").lower() not in ("false", "0") and not os.environ.get("NUMBA_BOUNDSCHECK"))
    return _S


def np_array(e, col):
    np = e["np"]
    if col["kind"] == "numeric":
        return np.array(col["data"], dtype=col.get("dtype", "int64"))
    if col["kind"] == "fixed":
        return np.array([s.encode("latin-1") for s in col["data"]], dtype="S3")
    raise ValueError("indexed columns have no ndarray form")


def mk_field(e, col):
    np, fields, s = e["np"], e["fields"], e["s"]
    if col["kind"] == "numeric":
        f = fields.NumericMemField(s, col.get("dtype", "int64"))
        f.data.write(np_array(e, col))
    elif col["kind"] == "fixed":
        f = fields.FixedStringMemField(s, 3)
        f.data.write(np_array(e, col))
    else:
        f = fields.IndexedStringMemField(s)
        idx, vals = indexed_raw(col["data"], col.get("noidx", True))
        if idx:
            f.indices.write(np.array(idx, dtype=np.int64))
        if vals:
            f.values.write(np.array(vals, dtype=np.uint8))
    return f


def spans_out(r):
    dt = str(r.dtype) if hasattr(r, "dtype") else None
    return {"spans": [int(x) for x in r], "dtype": dt}


def values_out(e, r):
    np = e["np"]
    r = np.asarray(r)
    if r.dtype.kind == "S":
        return [x.decode("latin-1") for x in r.tolist()]
    if r.dtype.kind == "f":
        return [int(x) if float(x).is_integer() else repr(float(x)) for x in r.tolist()]
    return [int(x) for x in r.tolist()]


def impl(case):
    e = _env()
    np, ops, utils, s = e["np"], e["ops"], e["utils"], e["s"]
    op = case["op"]
    if op == "int64_index_length":
        return {"value": int(e["real_thr"])}          # a dict: the worker protocol only carries JSON objects
    utils.INT64_INDEX_LENGTH = case.get("thr", e["real_thr"])
    try:
        return _impl(e, case, op)
    finally:
        utils.INT64_INDEX_LENGTH = e["real_thr"]


def _impl(e, case, op):
    np, ops, s = e["np"], e["ops"], e["s"]
    if op == "spans_big":
        a = np.repeat(np.array([r[0] for r in case["runs"]], dtype=case["dtype"]), [r[1] for r in case["runs"]])
        entry = case["entry"]
        if entry in ("field", "session_field"):
            f = e["fields"].NumericMemField(s, case["dtype"])
            f.data.write(a)
            return spans_out(f.get_spans() if entry == "field" else s.get_spans(f))
        return spans_out(ops.get_spans_for_field(a) if entry == "ndarray" else s.get_spans(field=a))
    if op == "spans_field":
        col, entry = case["col"], case["entry"]
        if entry == "field":
            return spans_out(mk_field(e, col).get_spans())
        if entry == "session_field":
            return spans_out(s.get_spans(mk_field(e, col)))
        if entry == "ndarray":
            return spans_out(ops.get_spans_for_field(np_array(e, col)))
        if entry == "session_ndarray":
            return spans_out(s.get_spans(field=np_array(e, col)))
        if entry == "raw":
            idx, vals = indexed_raw(col["data"], col.get("noidx", True))
            return spans_out(ops._get_spans_for_index_string_field(np.array(idx, dtype=np.int64), np.array(vals, dtype=np.uint8)))
    if op == "spans_indexed_raw":
        return spans_out(ops._get_spans_for_index_string_field(np.array(case["indices"], dtype=np.int64),
                                                              np.array(case["values"], dtype=np.uint8)))
    if op == "spans_2arrays":
        a, b = (np_array(e, c) for c in case["cols"])
        return spans_out(ops._get_spans_for_2_fields(a, b))
    if op == "spans_session_arrays":
        return spans_out(s.get_spans(fields=tuple(np_array(e, c) for c in case["cols"])))
    if op == "spans_session_fields":
        return spans_out(s.get_spans(fields=tuple(mk_field(e, c) for c in case["cols"])))
    if op == "spans_multi":
        data = np.array([np_array(e, c) for c in case["cols"]])
        if data.ndim != 2:
            raise ValueError("ragged")
        return spans_out(ops._get_spans_for_multi_fields(data))
    if op == "spans_by_spans":
        dt = case.get("sdtype", "int64")
        return spans_out(ops._get_spans_for_2_fields_by_spans(np.array(case["span0"], dtype=dt), np.array(case["span1"], dtype=dt)))
    if op == "apply":
        return _apply(e, case)
    if op == "apply_filter":
        if case.get("_oobwrite") and e["jit"]:
            return {"skipped": "out-of-bounds write is not executed in the compiled mode"}
        sp = np.array(case["spans"], dtype=case.get("sdtype", "int32"))
        dest = np.array(case["dest"], dtype=np.int64)
        filt = np.array(case["filt"], dtype=bool)
        fn = getattr(ops, "apply_spans_" + case["fn"] + "_filter")
        if case["fn"] in ("index_of_min", "index_of_max"):
            d, f = fn(sp, np_array(e, case["col"]), dest, filt)
        else:
            d, f = fn(sp, dest, filt)
        return {"dest": [int(x) for x in d], "filt": [bool(x) for x in f]}
    raise ValueError(op)


def _apply(e, case):
    np, ops, s = e["np"], e["ops"], e["s"]
    fn, level = case["fn"], case["level"]
    sp = np.array(case["spans"], dtype=case.get("sdtype", "int32"))
    col = case.get("col")
    if fn.endswith("_indexed"):
        f = mk_field(e, col)
        if level == "ops":
            idx, vals = indexed_raw(col["data"], col.get("noidx", True))
            r = getattr(ops, "apply_spans_" + fn)(sp, np.array(idx, dtype=np.int64), np.array(vals, dtype=np.uint8))
            return {"idx": [int(x) for x in r]}
        kw, tgt = _target_variant(case, f)
        g = f.apply_spans_min(sp, **kw) if fn == "index_of_min_indexed" else f.apply_spans_max(sp, **kw)
        if tgt is not None and g is not tgt:
            raise AssertionError("apply_spans_* did not return the field it was told to write to")
        gi, gv = g.indices[:], g.values[:]
        return {"rows": [bytes(gv[gi[i]:gi[i + 1]].tolist()).decode("latin-1") for i in range(len(gi) - 1)]}
    if level == "ops":
        k = getattr(ops, "apply_spans_" + fn)
        r = k(sp) if col is None else k(sp, np_array(e, col))
    elif level == "session":
        k = getattr(s, "apply_spans_" + fn)
        r = k(sp) if col is None else k(sp, np_array(e, col))
    else:
        f = mk_field(e, col)
        kw, tgt = _target_variant(case, f)
        g = getattr(f, "apply_spans_" + fn)(sp, **kw)
        if tgt is not None and g is not tgt:
            raise AssertionError("apply_spans_* did not return the field it was told to write to")
        r = g.data[:]
    return {"vals": values_out(e, r)}


def _target_variant(case, f):
    """where a field-level reduction writes (by case number; the expected rows are the same for all four): a new field (the
    default), a fresh `target=`, a `target=` that already holds rows (one summary field reused for successive reductions: it must
    end up holding exactly one row per span), or `in_place=True` → (keyword arguments, the object that must be returned)"""
    v = case.get("_n", 0) % 4
    if v == 1:
        t = f.create_like()
        return {"target": t}, t
    if v == 2:
        t = f.create_like()
        if hasattr(f, "indices"):
            t.data.write(["stale", "", "rows"])
        else:
            t.data.write(f.data[:])
            t.data.write(f.data[:])
        return {"target": t}, t
    if v == 3:
        return {"in_place": True}, f
    return {}, None


# ------------------------------------------------------------------------------------------------------------------
# the property's oracle (Python rendering of Spec/Spans.lean)
# ------------------------------------------------------------------------------------------------------------------

def spec_spans(rows):
    n = len(rows)
    if n == 0:
        return [0]
    return [0] + [i for i in range(1, n) if rows[i - 1] != rows[i]] + [n]


def wellformed(sp, n):
    return len(sp) >= 1 and sp[0] == 0 and sp[-1] == n and all(a < b for a, b in zip(sp, sp[1:]))


def spec_apply(fn, sp, rows):
    """expected result for well-formed spans; rows are comparable Python values"""
    out = []
    for a, b in zip(sp, sp[1:]):
        seg = rows[a:b] if rows is not None else None
        if fn == "count":
            out.append(b - a)
        elif fn == "index_of_first":
            out.append(a)
        elif fn == "index_of_last":
            out.append(b - 1)
        elif fn == "first":
            out.append(seg[0])
        elif fn == "last":
            out.append(seg[-1])
        elif fn == "min":
            out.append(min(seg))
        elif fn == "max":
            out.append(max(seg))
        elif fn in ("index_of_min", "index_of_min_indexed"):
            out.append(a + seg.index(min(seg)))
        elif fn in ("index_of_max", "index_of_max_indexed"):
            out.append(a + seg.index(max(seg)))
    return out


def joint_rows(cols):
    return list(zip(*[col_values(c) for c in cols])) if cols else []


def check_spec(case, io, mode):
    op = case["op"]
    if case.get("_malformed") or op in ("int64_index_length", "apply_filter"):
        return None                      # the property speaks about equal-length columns and well-formed spans only
    if isinstance(io, dict) and "skipped" in io:
        return None
    if op == "spans_big":
        exp, pos, prev = [0], 0, None
        for v, k in case["runs"]:
            if k and prev is not None and v != prev:
                exp.append(pos)
            if k:
                prev = v
            pos += k
        if pos:
            exp.append(pos)
        if "err" in io:
            return f"raised {io['err']} ({io.get('msg', '')}) on a column of {pos} rows"
        return None if io["spans"] == exp else f"spans {io['spans'][:8]} of a {pos}-row column are not the maximal runs {exp}"
    if op in ("spans_field", "spans_2arrays", "spans_session_arrays", "spans_session_fields", "spans_multi"):
        cols = [case["col"]] if op == "spans_field" else case["cols"]
        if len({col_len(c) for c in cols}) != 1:
            return None
        exp = spec_spans(joint_rows(cols))
        if "err" in io:
            return f"raised {io['err']} ({io.get('msg', '')}) instead of returning the spans {exp}"
        if io["spans"] != exp:
            return f"spans {io['spans']} are not the maximal runs of equal adjacent rows {exp}"
        if io.get("dtype") not in (None, "int32", "int64"):
            return f"span dtype {io.get('dtype')}"
        return None
    if op == "spans_by_spans":
        s0, s1 = case["span0"], case["span1"]
        n = s0[-1] if s0 else None
        if not (s0 and s1 and wellformed(s0, n) and wellformed(s1, n)):
            return None
        exp = sorted(set(s0) | set(s1))
        if "err" in io:
            return f"raised {io['err']} instead of merging {s0} and {s1}"
        return None if io["spans"] == exp else f"merged spans {io['spans']} != {exp}"
    if op == "apply":
        fn, sp, col = case["fn"], case["spans"], case.get("col")
        rows = col_values(col) if col is not None else None
        n = len(rows) if rows is not None else sp[-1] if sp else 0
        if not wellformed(sp, n) or n == 0:
            return None
        exp = spec_apply(fn, sp, rows)
        if "err" in io:
            return f"raised {io['err']} ({io.get('msg', '')}) instead of the per-span {fn} {exp}"
        if "idx" in io:
            got = io["idx"]
        elif "rows" in io:
            got, exp = [r.encode("latin-1") for r in io["rows"]], [rows[i] for i in exp]
        else:
            got = io["vals"]
            if col is not None and col["kind"] == "fixed" and fn in ("first", "last", "min", "max"):
                got = [sbytes(g) for g in got]
        return None if got == exp else f"per-span {fn} over spans {sp}: got {got} expected {exp}"
    return None


def match_finding(case, io, mode):
    # NC08d: Session.get_spans(fields=…) looks at fields[0] and fields[1] only
    if case["op"] in ("spans_session_fields", "spans_session_arrays") and len(case["cols"]) != 2:
        if len(case["cols"]) == 1 and io.get("err") == "index_error":
            return "NC08d"
        if len(case["cols"]) > 2 and "spans" in io and io["spans"] == spec_spans(joint_rows(case["cols"][:2])):
            return "NC08d"
    return None


def compare(case, io, mo, mode):
    if isinstance(io, dict) and "skipped" in io:
        return None
    if case["op"] == "spans_big":
        return None
    if case["op"] == "int64_index_length":
        return None if io.get("value") == mo.get("ok") else f"utils.INT64_INDEX_LENGTH={io} model={mo}"
    if "bad" in mo:
        return f"driver rejected the case: {mo['bad']}"
    if "err" in mo:
        if mo["err"] == "index_error" and mode == "jit":
            return None          # out-of-bounds subscript: undefined in compiled code, compared in nojit/bounds modes
        a = io.get("err") if isinstance(io, dict) else None
        return None if a == mo["err"] else f"impl {short(io)} model err={mo['err']}"
    m = mo["ok"]
    op = case["op"]
    if (op == "apply" and case["level"] == "field" and case["fn"].endswith("_indexed")
            and any(not 0 <= i < col_len(case["col"]) for i in m)):
        return None      # malformed spans: the kernel's row numbers lie outside the field; re-indexing them is C09's business
    if "err" in io:
        return f"impl err={io['err']} ({io.get('msg', '')}) model {short(mo)}"
    if op.startswith("spans"):
        if io["spans"] != m["spans"]:
            return f"impl spans={io['spans']} model spans={m['spans']}"
        if io.get("dtype") != m.get("dtype"):
            if m.get("dtype") is None and op in ("spans_session_fields", "spans_session_arrays") and io.get("dtype") == nc11a_dtype(case):
                return None      # fix NC11a (C11): the merged list is handed out as an array of the first field's span dtype
            return f"impl dtype={io.get('dtype')} model dtype={m.get('dtype')} (thr={case.get('thr')})"
        return None
    if op == "apply_filter":
        return None if (io["dest"], io["filt"]) == (m["dest"], m["filt"]) else f"impl {io} model {m}"
    if op == "apply":
        col = case.get("col")
        if "idx" in io:
            return None if io["idx"] == m else f"impl idx={io['idx']} model={m}"
        if "rows" in io:
            rows = col["data"]
            try:
                exp = [rows[i] for i in m]
            except IndexError:
                return f"model row numbers {m} outside the field"
            return None if io["rows"] == exp else f"impl rows={io['rows']} model rows={exp}"
        got = io["vals"]
        if col is not None and col["kind"] == "fixed" and case["fn"] in ("first", "last", "min", "max"):
            r = ranks(col["data"])
            got = [r.get(sbytes(g), -1) for g in got]
        return None if got == m else f"impl vals={got} model={m}"
    return f"unhandled op {op}"


def nc11a_dtype(case):
    """Session.get_spans(fields=...) in the forms that merge per-field spans (Field arguments; three or more ndarrays): as found
    the result is the merge kernel's python list (model dtype None); with fix NC11a it is np.asarray(list, dtype=<span dtype of
    the FIRST field>): int32 below the int64 threshold, int64 from it on, int64 when the first field is an indexed string
    (its get_spans() is a list of python ints)."""
    first = case["cols"][0]
    if first.get("kind") == "indexed":
        return "int64"
    thr = case.get("thr")
    return "int32" if col_len(first) < (DEFAULT_THR if thr is None else thr) else "int64"


def mode_diff_ok(case, jit_out, other_out, mode):
    """compiled code does not check subscripts: where the interpreted / bounds-checked run raises IndexError the compiled
    result is undefined (only the malformed stream gets there; the model's own verdict is compared in `compare`)"""
    if isinstance(jit_out, dict) and "skipped" in jit_out:
        return True
    return bool(case.get("_malformed")) and isinstance(other_out, dict) and other_out.get("err") == "index_error"


def short(x):
    s = str(x)
    return s if len(s) < 200 else s[:200] + "…"


def runs_info(rows):
    sp = spec_spans(rows)
    return len(sp) - 1, max([b - a for a, b in zip(sp, sp[1:])] + [0])


def nontrivial(case, mo):
    op = case["op"]
    if op == "spans_big":
        return True
    if case.get("_malformed") or op in ("int64_index_length",):
        return False
    if op in ("spans_field", "spans_2arrays", "spans_session_arrays", "spans_session_fields", "spans_multi"):
        cols = [case["col"]] if op == "spans_field" else case["cols"]
        if len({col_len(c) for c in cols}) != 1:
            return False
        k, longest = runs_info(joint_rows(cols))
        return k >= 2 and longest >= 2
    if op == "spans_by_spans":
        return set(case["span0"]) != set(case["span1"]) and len(case["span0"]) > 2 and len(case["span1"]) > 2
    if op in ("apply", "apply_filter"):
        col, sp = case.get("col"), case["spans"]
        if col is None:
            return len(sp) > 2
        rows = col_values(col)
        return any(b - a >= 2 and len(set(rows[a:b])) >= 2 for a, b in zip(sp, sp[1:]))
    return False


def classify(case, mo):
    op = case["op"]
    tags = [op if op != "apply" else "apply:" + case["fn"] + "@" + case["level"]]
    if op == "spans_field":
        tags.append("entry:" + case["entry"] + ":" + case["col"]["kind"])
        if col_len(case["col"]) == 0:
            tags.append("empty-column")
    if case.get("_malformed"):
        tags.append("malformed")
    if mo and "ok" in mo and isinstance(mo["ok"], dict) and mo["ok"].get("dtype"):
        tags.append("span-dtype:" + mo["ok"]["dtype"])
    if case.get("sdtype"):
        tags.append("spans-arg:" + case["sdtype"])
    if mo and "err" in mo:
        tags.append("model-err:" + mo["err"])
    return tags


def select_for_mode(case, mode, tier):
    if case.get("_malformed") or case.get("_corpus"):
        return True
    k = case.get("_n", 0)
    size = col_len(case["col"]) if "col" in case else 0
    if size > 400:
        return False
    if mode == "nojit":
        return k % (4 if tier == "quick" else 2) == 0
    return k % (16 if tier == "quick" else 5) == 0


LEVEL_TEXT = ("Kernel-checked Lean 4 theorems, for all columns / span arrays / index-value buffers of any length (no bounds), about the "
              "executable model the driver runs (Model/Spans.lean, mirroring operations.py with fixes D18, D19, NC08b, NC08c): "
              "get_spans_for_field = Spec.spans for every comparison function; the result is strictly increasing from 0 to the row "
              "count; adjacent rows are equal iff in the same span (and the run version); _get_spans_for_2_fields, "
              "_get_spans_for_multi_fields, _get_spans_for_index_string_field and _get_spans_for_2_fields_by_spans return .ok (no "
              "out-of-bounds subscript, termination) and equal the spans of the zipped / joint / decoded column, hence all entry "
              "points agree; apply_spans_count/first/last/min/max/index_of_first/index_of_last/index_of_min/index_of_max and the "
              "indexed-string index_of_min/max return .ok with one entry per span equal to the reduction over exactly that span's "
              "rows (first extremal row on ties, bytewise lexicographic order for strings); the four *_filter kernels mark exactly the "
              "non-empty spans and write only their entries; the Session/Field wrappers are "
              "transparent on well-formed spans; int32 is only chosen when every entry fits. The model is tied to the source by "
              "differential execution (JIT, interpreted, bounds-checked) over an exhaustive small scope plus seeded random and "
              "malformed cases.")
LEVEL_NOTE = ("Not proved, only validated by the correspondence run: the "
              "behaviour on malformed span arrays (error branches), and everything the model takes from numpy/numba as given (`!=` on "
              "arrays, np.nonzero, argmin/argmax tie rule, unsigned byte order of fixed strings, apply_index_to_indexed_field). "
              "session_get_spans_fields_eq_spec / session_get_spans_arrays_eq_spec cover ANY number of fields since fix NC08d (the "
              "as-found behaviour - fields after the second ignored, IndexError for a single one - is kept as witness theorem "
              "Witness.C08.nc08d_third_field_ignored). The theorems speak about the code WITH the five fix patches in fixes/ applied; "
              "on the unpatched tree the corpus cases D18/D19/NC08a/NC08b/NC08c/NC08d fail and are reported as VIOLATIONs with replay.")

# the TRANSLATED span kernels (Gen/Kernels.lean) are executed against the real kernels on cases derived from the ones above
from checks.harness import genkernels  # noqa: E402
genkernels.install(globals(), "C08")
