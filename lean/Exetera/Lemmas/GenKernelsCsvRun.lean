import Exetera.Lemmas.GenKernelsCsv
import Exetera.Lemmas.GenKernelsJoin
import Exetera.Lemmas.While
/-!
  The TRANSLATED `fast_csv_reader` against the hand model `Csv.fastCsvReader`, part 2: the simulation relation between the
  model's loop state `Csv.KS` and the translated state, one iteration of `while True:` (`step_sim`), the loop, the call.
-/
namespace Exetera.GenK.CsvK

open Exetera Exetera.PyRt Exetera.Csv Exetera.Gen.Kernels

/-- `val_full_col_idx`: `-1` for "none" -/
def vfcInt : Option Nat → Int
  | none => -1
  | some c => (c : Int)

/-- `row_index`: `-1` on the header line -/
def rowInt (hdr : Bool) (row : Nat) : Int := if hdr then (-1 : Int) else (row : Int)

/-- everything of the simulation relation except `index`, and the `return` slots -/
structure Rel0 (src : Bytes) (offs : List Nat) (L : Nat) (k : KS) (t : St) : Prop where
  p0 : t.p0 = ints src
  p4 : t.p4 = ints offs
  p6 : t.p6 = ((QUOTE : Nat) : Int)
  p7 : t.p7 = ((SEP : Nat) : Int)
  p8 : t.p8 = ((NL : Nat) : Int)
  p9 : t.p9 = ((WS : Nat) : Int)
  v1 : t.v1 = (L : Int)
  v3 : t.v3 = (k.nextPos : Int) - 1
  v4 : t.v4 = (k.col : Int)
  v5 : t.v5 = rowInt k.hdr k.row
  v6 : t.v6 = vfcInt k.vfc
  v7 : t.v7 = k.escaped
  v10 : t.v10 = k.cand
  v11 : t.v11 = (k.count : Int)
  v12 : t.v12 = (k.cstart : Int)
  v13 : t.v13 = k.indsFull
  v14 : t.v14 = k.valsFull
  v15 : t.v15 = (k.colOff : Int)
  v16 : k.colCnt = t.v16.toNat
  v17 : t.v17 = (k.ics : Int)
  p2 : t.p2 = ints2 k.inds
  p3 : t.p3 = ints k.vals
  rect : ∀ r ∈ k.inds, r.length = L + 1

structure Rel (src : Bytes) (offs : List Nat) (L : Nat) (k : KS) (t : St) : Prop extends Rel0 src offs L k t where
  v2 : t.v2 = (k.index : Int)
  ret : t.ret = k.done
  rv : k.done = true → t.rv0 = t.v3 + 1 ∧ t.rv1 = t.v5 ∧ t.rv2 = t.v13 ∧ t.rv3 = t.v14 ∧ t.rv4 = t.v6

/-! ### the model's `step`, in pieces -/

def k1 (k : KS) (lx : Lex) : KS :=
  { k with escaped := lx.escaped, cand := lx.cand, nextPos := if lx.ev = .endLine then k.index + 1 else k.nextPos }

def eff (src : Bytes) (offs : List Nat) (L : Nat) (k : KS) (lx : Lex) (c : Nat) : Except Err KS :=
  match lx.ev with
  | .write => writeChar (k1 k lx) c
  | .endCell => endCell src offs L (k1 k lx) false
  | .endLine => endCell src offs L (k1 k lx) true
  | .skip => .ok (k1 k lx)

def bump (src : Bytes) (k2 : KS) : KS :=
  { k2 with index := k2.index + 1, done := (k2.index + 1 == src.length) || k2.indsFull || k2.valsFull }

theorem step_eq (src : Bytes) (offs : List Nat) (L : Nat) (k : KS) : step src offs L k =
    (match getE src k.index "source[index]" with
     | .error e => .error e
     | .ok c =>
       match lexByte src[k.index + 1]? (k.index == k.ics) k.escaped k.cand c with
       | .error e => .error e
       | .ok lx =>
         match eff src offs L k lx c with
         | .error e => .error e
         | .ok k2 => .ok (bump src k2)) := rfl

theorem endCell_inv (src : Bytes) (offs : List Nat) (L : Nat) (s : KS) (el : Bool) (k2 : KS)
    (h : endCell src offs L s el = .ok k2) :
    ∃ inds' o o1 cs,
      (if s.hdr then Except.ok s.inds else set2 s.inds s.col (s.row + 1) (s.cstart + s.count) "column_inds[col_index,row_index+1]") = .ok inds' ∧
      offs[(if el then 0 else s.col + 1)]? = some o ∧ offs[(if el then 0 else s.col + 1) + 1]? = some o1 ∧
      get2 inds' (if el then 0 else s.col + 1)
        (if (if el then false else s.hdr) then L else (if el then (if s.hdr then 0 else s.row + 1) else s.row))
        "column_inds[col_index,row_index]" = .ok cs ∧
      k2 = { s with inds := inds', hdr := (if el then false else s.hdr),
                    row := (if el then (if s.hdr then 0 else s.row + 1) else s.row), col := (if el then 0 else s.col + 1),
                    colOff := o, colCnt := o1 - o,
                    indsFull := s.indsFull || (el && (if el then (if s.hdr then 0 else s.row + 1) else s.row) == L),
                    cstart := cs, count := 0, index := skipAfter src s.index, ics := skipAfter src s.index + 1 } := by
  unfold endCell at h
  split at h
  · cases h
  · rename_i inds' h1
    dsimp only at h
    split at h
    · cases h
    · rename_i o h2
      split at h
      · cases h
      · rename_i o1 h3
        split at h
        · cases h
        · rename_i cs h4
          simp only [Except.ok.injEq] at h
          exact ⟨inds', o, o1, cs, h1, getE_eq_ok.mp h2, getE_eq_ok.mp h3, h4, h.symm⟩

/-- phase 4 re-establishes the full relation -/
theorem fin_rel (src : Bytes) (offs : List Nat) (L : Nat) (k : KS) (t : St) (h : Rel0 src offs L k t)
    (h2 : t.v2 = (k.index : Int)) (hret : t.ret = false) :
    Rel src offs L (bump src k) (fin t) := by
  unfold bump
  have hc : (t.v2 + 1 == pyLen t.p0) = (k.index + 1 == src.length) := by
    rw [h2, h.p0, pyLen_ints]
    have : ((k.index : Int) + 1) = ((k.index + 1 : Nat) : Int) := by omega
    rw [this, beq_cast]
    by_cases hh : k.index + 1 = src.length <;> simp [hh]
  have hcond : ((t.v2 + 1 == pyLen t.p0) || (t.v13 || t.v14)) =
      ((k.index + 1 == src.length) || (k.indsFull || k.valsFull)) := by rw [hc, h.v13, h.v14]
  unfold fin
  rw [hcond]
  by_cases hd : ((k.index + 1 == src.length) || (k.indsFull || k.valsFull)) = true
  · have hd' : ((k.index + 1 == src.length) || k.indsFull || k.valsFull) = true := by rw [Bool.or_assoc]; exact hd
    simp only [hd, if_true]
    exact { p0 := h.p0, p4 := h.p4, p6 := h.p6, p7 := h.p7, p8 := h.p8, p9 := h.p9, v1 := h.v1, v3 := h.v3, v4 := h.v4, v5 := h.v5,
            v6 := h.v6, v7 := h.v7, v10 := h.v10, v11 := h.v11, v12 := h.v12, v13 := h.v13, v14 := h.v14, v15 := h.v15, v16 := h.v16,
            v17 := h.v17, p2 := h.p2, p3 := h.p3, rect := h.rect,
            v2 := by show t.v2 + 1 = _; rw [h2]; simp,
            ret := by show true = _; exact hd'.symm,
            rv := fun _ => ⟨rfl, rfl, rfl, rfl, rfl⟩ }
  · have hd' : ((k.index + 1 == src.length) || k.indsFull || k.valsFull) = false := by
      rw [Bool.or_assoc]; simpa using hd
    simp only [hd, Bool.false_eq_true, if_false]
    exact { p0 := h.p0, p4 := h.p4, p6 := h.p6, p7 := h.p7, p8 := h.p8, p9 := h.p9, v1 := h.v1, v3 := h.v3, v4 := h.v4, v5 := h.v5,
            v6 := h.v6, v7 := h.v7, v10 := h.v10, v11 := h.v11, v12 := h.v12, v13 := h.v13, v14 := h.v14, v15 := h.v15, v16 := h.v16,
            v17 := h.v17, p2 := h.p2, p3 := h.p3, rect := h.rect,
            v2 := by show t.v2 + 1 = _; rw [h2]; simp,
            ret := by show t.ret = _; rw [hret]; exact hd'.symm,
            rv := fun hh => by rw [hd'] at hh; cases hh }

theorem rect_after (inds inds' : List (List Nat)) (L col row v : Nat) (hdr : Bool) (site0 : String)
    (hrect : ∀ r ∈ inds, r.length = L + 1)
    (h : (if hdr then Except.ok inds else set2 inds col row v site0) = .ok inds') : ∀ r ∈ inds', r.length = L + 1 := by
  cases hdr with
  | true => simp only [if_true, Except.ok.injEq] at h; subst h; exact hrect
  | false => simp only [Bool.false_eq_true, if_false] at h; exact set2_rect inds inds' L col row v site0 hrect h

/-- one iteration of `while True:` follows the model's `step` -/
theorem step_sim (src : Bytes) (offs : List Nat) (L fuel : Nat) (hf : src.length ≤ fuel) (k k' : KS) (t : St)
    (hR : Rel src offs L k t) (hg : k.done = false) (hs : step src offs L k = .ok k') :
    ∃ t', fast_csv_reader.body_L2 fuel t = .ok t' ∧ Rel src offs L k' t' := by
  have hret : t.ret = false := by rw [hR.ret, hg]
  rw [step_eq] at hs
  cases hc : getE src k.index "source[index]" with
  | error e => rw [hc] at hs; cases hs
  | ok c =>
    rw [hc] at hs
    dsimp only at hs
    have hc' : src[k.index]? = some c := getE_eq_ok.mp hc
    cases hl : lexByte src[k.index + 1]? (k.index == k.ics) k.escaped k.cand c with
    | error e => rw [hl] at hs; cases hs
    | ok lx =>
      rw [hl] at hs
      dsimp only at hs
      cases hE : eff src offs L k lx c with
      | error e => rw [hE] at hs; cases hs
      | ok k2 =>
        rw [hE] at hs
        dsimp only at hs
        cases hs
        have hread : idxE t.p0 t.v2 "p0[v2]" = .ok (c : Int) := by rw [hR.p0, hR.v2]; exact idx_src src _ c hc' _
        have h1 := ph1_eq src k.index k.ics c (pre t (c : Int)) hR.p0 hR.v2 hR.v17 rfl hR.p6 hR.p7 hR.p8 hc' (lx := lx)
          (by show lexByte _ _ t.v7 t.v10 c = _; rw [hR.v7, hR.v10]; exact hl)
        rw [body_split, hread, bindE_ok, h1, bindE_ok]
        suffices h : ∃ s2 s3, ph2 (upd1 (pre t (c : Int)) lx) = .ok s2 ∧ ph3 fuel s2 = .ok s3 ∧ Rel0 src offs L k2 s3 ∧
            s3.v2 = (k2.index : Int) ∧ s3.ret = false by
          obtain ⟨s2, s3, e2, e3, hr0, hv2, hrt⟩ := h
          refine ⟨fin s3, ?_, fin_rel src offs L k2 s3 hr0 hv2 hrt⟩
          rw [e2, bindE_ok, e3, bindE_ok, ph4_eq]
        obtain ⟨ev, esc, cd⟩ := lx
        cases ev with
        | write =>
          simp only [eff] at hE
          unfold writeChar at hE
          cases hh : k.hdr with
          | true =>
            simp only [k1, hh, if_true, Except.ok.injEq] at hE
            subst hE
            refine ⟨_, _, ph2_skip _ (Or.inr ?_), ph3_skip _ _ rfl, ?_, hR.v2, hret⟩
            · show t.v5 < 0
              rw [hR.v5, hh]; simp [rowInt]
            · exact
              { p0 := hR.p0, p4 := hR.p4, p6 := hR.p6, p7 := hR.p7, p8 := hR.p8, p9 := hR.p9, v1 := hR.v1,
                v3 := (by first | exact hR.v3 | (simp [k1]; exact hR.v3)), v4 := hR.v4, v5 := (by have h5 := hR.v5; rw [hh] at h5; exact h5), v6 := hR.v6, v7 := rfl,
                v10 := rfl, v11 := hR.v11, v12 := hR.v12, v13 := hR.v13, v14 := hR.v14, v15 := hR.v15, v16 := hR.v16,
                v17 := hR.v17, p2 := hR.p2, p3 := hR.p3, rect := hR.rect }
          | false =>
            simp only [k1, hh, Bool.false_eq_true, if_false] at hE
            cases hset : setE k.vals (k.colOff + k.cstart + k.count) c "column_vals[col_offset+cur_cell_start+cur_cell_char_count]" with
            | error e => rw [hset] at hE; cases hE
            | ok vals' =>
              rw [hset] at hE
              simp only [Except.ok.injEq] at hE
              subst hE
              have hfull : decide (t.v16 ≤ ((k.cstart + k.count + 1 : Nat) : Int)) = decide (k.colCnt ≤ k.cstart + k.count + 1) := by
                rw [hR.v16]; simp [Int.toNat_le]
              refine ⟨_, _, ph2_write k.vals vals' k.colOff k.cstart k.count c _ rfl ?_ hR.p3 hR.v15 hR.v12 hR.v11 rfl hset,
                ph3_skip _ _ rfl, ?_, hR.v2, hret⟩
              · show 0 ≤ t.v5
                rw [hR.v5, hh]; simp [rowInt]
              · exact
                { p0 := hR.p0, p4 := hR.p4, p6 := hR.p6, p7 := hR.p7, p8 := hR.p8, p9 := hR.p9, v1 := hR.v1,
                  v3 := (by first | exact hR.v3 | (simp [k1]; exact hR.v3)), v4 := hR.v4, v5 := (by have h5 := hR.v5; rw [hh] at h5; exact h5),
                  v6 := (by show (if decide (t.v16 ≤ ((k.cstart + k.count + 1 : Nat) : Int)) then t.v4 else t.v6) = vfcInt (if decide (k.colCnt ≤ k.cstart + k.count + 1) then some k.col else k.vfc); rw [hfull]; cases decide (k.colCnt ≤ k.cstart + k.count + 1) <;> simp [vfcInt, hR.v4, hR.v6]),
                  v7 := rfl, v10 := rfl, v11 := rfl, v12 := hR.v12, v13 := hR.v13,
                  v14 := (by show (t.v14 || decide (t.v16 ≤ ((k.cstart + k.count + 1 : Nat) : Int))) = (k.valsFull || decide (k.colCnt ≤ k.cstart + k.count + 1)); rw [hfull, hR.v14]),
                  v15 := hR.v15, v16 := hR.v16, v17 := hR.v17, p2 := hR.p2, p3 := rfl, rect := hR.rect }
        | endCell =>
          simp only [eff] at hE
          obtain ⟨inds', o, o1, cs, e1, e2, e3, e4, rfl⟩ := endCell_inv _ _ _ _ _ _ hE
          simp only [k1, Bool.false_eq_true, if_false] at e1 e2 e3 e4
          refine ⟨_, _, ph2_skip _ (Or.inl rfl),
            ph3_cell src offs L fuel hf k.inds inds' k.hdr k.row k.col k.cstart k.count k.index o o1 cs _ rfl rfl hR.v5 hR.v4 hR.p2
              hR.v12 hR.v11 hR.p4 hR.p0 hR.p9 hR.v2 hR.rect e1 e2 e3 e4, ?_, rfl, hret⟩
          exact
            { p0 := hR.p0, p4 := hR.p4, p6 := hR.p6, p7 := hR.p7, p8 := hR.p8, p9 := hR.p9, v1 := hR.v1,
              v3 := (by first | exact hR.v3 | (simp [k1]; exact hR.v3)), v4 := rfl, v5 := hR.v5, v6 := hR.v6, v7 := rfl,
              v10 := rfl, v11 := rfl, v12 := rfl, v13 := (by simp [k1]; exact hR.v13), v14 := hR.v14, v15 := rfl,
              v16 := (by show o1 - o = ((o1 : Int) - (o : Int)).toNat; omega),
              v17 := (by show ((skipAfter src k.index : Nat) : Int) + 1 = ((skipAfter src k.index + 1 : Nat) : Int); omega),
              p2 := rfl, p3 := hR.p3, rect := (rect_after _ _ _ _ _ _ _ _ hR.rect e1) }
        | endLine =>
          simp only [eff] at hE
          obtain ⟨inds', o, o1, cs, e1, e2, e3, e4, rfl⟩ := endCell_inv _ _ _ _ _ _ hE
          simp only [k1, if_true, Bool.false_eq_true, if_false] at e1 e2 e3 e4
          refine ⟨_, _, ph2_skip _ (Or.inl rfl),
            ph3_line src offs L fuel hf k.inds inds' k.hdr k.row k.col k.cstart k.count k.index o o1 cs _ rfl rfl hR.v5 hR.v4 hR.v1
              hR.p2 hR.v12 hR.v11 hR.p4 hR.p0 hR.p9 hR.v2 e1 e2 e3 e4, ?_, rfl, hret⟩
          exact
            { p0 := hR.p0, p4 := hR.p4, p6 := hR.p6, p7 := hR.p7, p8 := hR.p8, p9 := hR.p9, v1 := hR.v1,
              v3 := (by show t.v2 = ((k.index + 1 : Nat) : Int) - 1; rw [hR.v2]; omega), v4 := rfl, v5 := rfl, v6 := hR.v6,
              v7 := rfl, v10 := rfl, v11 := rfl, v12 := rfl,
              v13 := (by show (t.v13 || decide ((if k.hdr then 0 else k.row + 1) = L)) = (k.indsFull || (true && ((if k.hdr then 0 else k.row + 1) == L))); rw [hR.v13]; cases hx : decide ((if k.hdr then 0 else k.row + 1) = L) <;> simp_all),
              v14 := hR.v14, v15 := rfl, v16 := (by show o1 - o = ((o1 : Int) - (o : Int)).toNat; omega),
              v17 := (by show ((skipAfter src k.index : Nat) : Int) + 1 = ((skipAfter src k.index + 1 : Nat) : Int); omega),
              p2 := rfl, p3 := hR.p3, rect := (rect_after _ _ _ _ _ _ _ _ hR.rect e1) }
        | skip =>
          simp only [eff, Except.ok.injEq] at hE
          subst hE
          refine ⟨_, _, ph2_skip _ (Or.inl rfl), ph3_skip _ _ rfl, ?_, hR.v2, hret⟩
          exact
            { p0 := hR.p0, p4 := hR.p4, p6 := hR.p6, p7 := hR.p7, p8 := hR.p8, p9 := hR.p9, v1 := hR.v1,
              v3 := (by first | exact hR.v3 | (simp [k1]; exact hR.v3)), v4 := hR.v4, v5 := hR.v5, v6 := hR.v6, v7 := rfl,
              v10 := rfl, v11 := hR.v11, v12 := hR.v12, v13 := hR.v13, v14 := hR.v14, v15 := hR.v15, v16 := hR.v16,
              v17 := hR.v17, p2 := hR.p2, p3 := hR.p3, rect := hR.rect }

/-- the loop `while True:` follows every successful run of the model's loop -/
theorem loop_sim (src : Bytes) (offs : List Nat) (L fuel : Nat) (hf : src.length + 1 ≤ fuel) (k k' : KS) (t : St)
    (hR : Rel src offs L k t)
    (h : whileE (fun s => !s.done) (step src offs L) (src.length + 1) k = .ok k') :
    ∃ t', whileE fast_csv_reader.guard_L2 (fast_csv_reader.body_L2 fuel) fuel t = .ok t' ∧ Rel src offs L k' t' ∧
      k'.done = true := by
  have hdone : k'.done = true := by
    have := whileE_guard_false (fun s : KS => !s.done) (step src offs L) _ _ _ h
    simpa using this
  obtain ⟨t', hw, hR'⟩ := whileE_sim (fun (t : St) (k : KS) => Rel src offs L k t)
    fast_csv_reader.guard_L2 (fast_csv_reader.body_L2 fuel) (fun s => !s.done) (step src offs L)
    (fun t k hR => by simp [fast_csv_reader.guard_L2, hR.ret])
    (fun t k k' hR hg hs => step_sim src offs L fuel (by omega) k k' t hR (by simpa using hg) hs)
    (src.length + 1) t k k' hR h
  exact ⟨t', whileE_mono _ _ _ _ _ hw _ hf, hR', hdone⟩

theorem get2W_plain00 (inds : List (List Nat)) (cs : Nat) (site0 site : String) (h : get2 inds 0 0 site0 = .ok cs) :
    bindE (idxWE (ints2 inds) 0 site) (fun t => idxWE t 0 site) = .ok (cs : Int) := by
  have this : bindE (idxWE (ints2 inds) 0 site) (fun t => bindE (idxWE t 0 site) fun x => Except.ok x) = .ok (cs : Int) :=
    get2W_nat0 inds 0 cs site0 site h (fun x => Except.ok x)
  cases h1 : idxWE (ints2 inds) 0 site with
  | error e => rw [h1] at this; simp at this
  | ok r =>
    rw [h1] at this
    simp only [bindE_ok] at this ⊢
    cases h2 : idxWE r 0 site with
    | error e => rw [h2] at this; simp at this
    | ok x => rw [h2] at this; simpa using this

/-- what the call returns once the loop has run -/
theorem after_loop (src : Bytes) (offs : List Nat) (L fuel : Nat) (hf : src.length + 1 ≤ fuel) (k kf : KS) (T0 : St)
    (hR : Rel src offs L k T0)
    (hw : whileE (fun s => !s.done) (step src offs L) (src.length + 1) k = .ok kf) :
    bindE (whileE fast_csv_reader.guard_L2 (fast_csv_reader.body_L2 fuel) fuel T0) (fun s =>
        if s.ret then Except.ok (s.rv0, s.rv1, s.rv2, s.rv3, s.rv4, s.p2, s.p3)
        else .error (.other "while True left without return")) =
      .ok ((kf.out.nextPos : Int), kf.out.written, kf.out.indsFull, kf.out.valsFull, vfcInt kf.out.vfc, ints2 kf.out.inds,
           ints kf.out.vals) := by
  obtain ⟨t', hw', hR', hdone⟩ := loop_sim src offs L fuel hf k kf T0 hR hw
  have hret : t'.ret = true := by rw [hR'.ret, hdone]
  obtain ⟨a, b, c, d, e⟩ := hR'.rv hdone
  rw [hw', bindE_ok]
  simp only [hret, if_true]
  rw [a, b, c, d, e, hR'.v3, hR'.v5, hR'.v13, hR'.v14, hR'.v6, hR'.p2, hR'.p3]
  simp [KS.out, rowInt]

/-! ### the call: `run` cut at the entry loop (so that no proof step ever copies the 38-field state literal) -/

/-- the state at the entry loop -/
def initSt (p0 : List Int) (p1 : Int) (p2 : List (List Int)) (p3 p4 : List Int) (p5 : Bool) (p6 p7 p8 p9 t1 t4 t5 : Int) : St :=
  { p0 := p0, p1 := p1, p2 := p2, p3 := p3, p4 := p4, p5 := p5, p6 := p6, p7 := p7, p8 := p8, p9 := p9, v0 := pyLen p2,
    v1 := t1 - 1, v2 := p1, v3 := p1 - 1, v4 := 0, v5 := (if p5 then (-1) else 0), v6 := (-1), v7 := false, v8 := false,
    v9 := false, v10 := false, v11 := 0, v12 := t4, v13 := false, v14 := false, v15 := 0, v16 := t5, v17 := 0, v18 := false,
    v19 := 0, v20 := 0, v21 := 0, ret := false, rv0 := 0, rv1 := 0, rv2 := false, rv3 := false, rv4 := 0 }

/-- what follows the entry loop -/
def tailRun (fuel : Nat) (s : St) : Except Err (Int × Int × Bool × Bool × Int × List (List Int) × List Int) :=
  if (s.v2 == (pyLen s.p0)) then
    .ok (s.p1, s.v5, s.v13, s.v14, s.v6, s.p2, s.p3)
  else
    let s := { s with v17 := s.v2 }
    bindE (whileE fast_csv_reader.guard_L2 (fast_csv_reader.body_L2 fuel) fuel s) fun s =>
    if s.ret then
      .ok (s.rv0, s.rv1, s.rv2, s.rv3, s.rv4, s.p2, s.p3)
    else
      .error (.other "while True left without return")

theorem run_split (p0 : List Int) (p1 : Int) (p2 : List (List Int)) (p3 p4 : List Int) (p5 : Bool) (p6 p7 p8 p9 : Int)
    (fuel : Nat) : fast_csv_reader.run p0 p1 p2 p3 p4 p5 p6 p7 p8 p9 fuel =
      bindE (shape1E p2 "p2.shape[1]") fun t1 =>
      bindE (if (decide ((if p5 then (-1 : Int) else 0) ≥ 0)) then
          bindE (idxWE p2 0 "p2[v4, v5]") fun t2 =>
          idxWE t2 (if p5 then (-1 : Int) else 0) "p2[v4, v5]"
        else
          .ok 0) fun t4 =>
      bindE (idxE p4 1 "p4[1]") fun t5 =>
      bindE (whileG fast_csv_reader.guardE_L1 fast_csv_reader.body_L1 fuel (initSt p0 p1 p2 p3 p4 p5 p6 p7 p8 p9 t1 t4 t5))
        (tailRun fuel) := rfl

theorem tailRun_done (fuel : Nat) (s : St) (h : (s.v2 == (pyLen s.p0)) = true) :
    tailRun fuel s = .ok (s.p1, s.v5, s.v13, s.v14, s.v6, s.p2, s.p3) := by
  unfold tailRun; simp only [h, if_true]

theorem tailRun_loop (fuel : Nat) (s : St) (h : (s.v2 == (pyLen s.p0)) = false) :
    tailRun fuel s = bindE (whileE fast_csv_reader.guard_L2 (fast_csv_reader.body_L2 fuel) fuel { s with v17 := s.v2 }) (fun s =>
        if s.ret then Except.ok (s.rv0, s.rv1, s.rv2, s.rv3, s.rv4, s.p2, s.p3)
        else .error (.other "while True left without return")) := by
  unfold tailRun; simp only [h, Bool.false_eq_true, if_false]

/-- **call-level transfer.**  On rectangular staging arrays (every row of `column_inds` has `L + 1` slots — what
    `np.zeros((count_columns, count_rows + 1))` gives), every successful run of the hand model `Csv.fastCsvReader` is the run
    of the TRANSLATED `fast_csv_reader` on the same bytes, with any fuel ≥ `len(source) + 1`: same resume position, row count,
    the two "full" flags, `val_full_col_idx` (`-1` for none) and the same final contents of `column_inds` / `column_vals`. -/
theorem fast_csv_reader_ok (src : Bytes) (start : Nat) (inds : List (List Nat)) (vals offs : List Nat) (hdr : Bool) (L : Nat)
    (hrect : ∀ r ∈ inds, r.length = L + 1) (o : KOut) (h : fastCsvReader src start inds vals offs hdr = .ok o)
    (fuel : Nat) (hf : src.length + 1 ≤ fuel) :
    fast_csv_reader.run (ints src) (start : Int) (ints2 inds) (ints vals) (ints offs) hdr ((QUOTE : Nat) : Int)
      ((SEP : Nat) : Int) ((NL : Nat) : Int) ((WS : Nat) : Int) fuel =
      .ok ((o.nextPos : Int), o.written, o.indsFull, o.valsFull, vfcInt o.vfc, ints2 o.inds, ints o.vals) := by
  unfold fastCsvReader at h
  cases hr0 : getE inds 0 "column_inds.shape" with
  | error e => rw [hr0] at h; cases h
  | ok r0 =>
    rw [hr0] at h
    dsimp only at h
    have hr0' : inds[0]? = some r0 := getE_eq_ok.mp hr0
    have hlen : r0.length = L + 1 := hrect r0 (List.mem_of_getElem? hr0')
    have hmax : r0.length - 1 = L := by omega
    rw [hmax] at h
    obtain ⟨tl, rfl⟩ : ∃ tl, inds = r0 :: tl := by
      cases inds with
      | nil => simp at hr0'
      | cons a b => simp at hr0'; exact ⟨b, by rw [hr0']⟩
    cases hcs : (if hdr then Except.ok 0 else get2 (r0 :: tl) 0 0 "column_inds[col_index,row_index]") with
    | error e => simp [hcs] at h
    | ok cs =>
      cases hcnt : getE offs 1 "column_offsets[1]" with
      | error e => simp [hcs, hcnt] at h
      | ok cnt =>
        simp only [hcs, hcnt] at h
        have hcnt' : offs[1]? = some cnt := getE_eq_ok.mp hcnt
        have hlen' : (((ints r0).length : Nat) : Int) - 1 = (L : Int) := by simp [hlen]
        have hpre : ∀ T : St, T.p0 = ints src → T.p9 = ((WS : Nat) : Int) → T.v2 = (start : Int) →
            whileG fast_csv_reader.guardE_L1 fast_csv_reader.body_L1 fuel T =
              .ok { T with v2 := ((skipFrom src start : Nat) : Int) } :=
          fun T a b c => skipFrom_loop src fuel start T a b c (by omega)
        have hidx1 : idxE (ints offs) 1 "p4[1]" = .ok (cnt : Int) := idx_src offs 1 cnt hcnt' _
        have hshape : shape1E (ints2 (r0 :: tl)) "p2.shape[1]" = .ok (((ints r0).length : Nat) : Int) := rfl
        by_cases hi : skipFrom src start = src.length
        · have hib : (skipFrom src start == src.length) = true := by simp [hi]
          have hd : decide (skipFrom src start = src.length) = true := by simp [hi]
          simp only [hib, if_true, Except.ok.injEq] at h
          subst h
          cases hdr with
          | true =>
            have hm : ¬ ((-1 : Int) ≥ 0) := by omega
            simp only [if_true] at hcs
            cases hcs
            rw [run_split, hshape, bindE_ok]
            simp only [if_true, hm, decide_false, Bool.false_eq_true, if_false]
            rw [bindE_ok, hidx1, bindE_ok, hpre _ rfl rfl rfl, bindE_ok]
            rw [tailRun_done _ _ (by show (((skipFrom src start : Nat) : Int) == pyLen (ints src)) = true; rw [pyLen_ints, beq_cast]; exact hd)]
            rfl
          | false =>
            have hm : ((0 : Int) ≥ 0) := by omega
            simp only [Bool.false_eq_true, if_false] at hcs
            rw [run_split, hshape, bindE_ok]
            simp only [Bool.false_eq_true, if_false, hm, decide_true, if_true, get2W_plain00 (r0 :: tl) cs _ _ hcs]
            rw [bindE_ok, hidx1, bindE_ok, hpre _ rfl rfl rfl, bindE_ok]
            rw [tailRun_done _ _ (by show (((skipFrom src start : Nat) : Int) == pyLen (ints src)) = true; rw [pyLen_ints, beq_cast]; exact hd)]
            rfl
        · have hib : (skipFrom src start == src.length) = false := by simp [hi]
          have hd : decide (skipFrom src start = src.length) = false := by simp [hi]
          simp only [hib, Bool.false_eq_true, if_false] at h
          cases hw : whileE (fun s => !s.done) (step src offs L) (src.length + 1)
              (initKS start (skipFrom src start) hdr cs cnt (r0 :: tl) vals) with
          | error e => simp [hw] at h
          | ok kf =>
            simp only [hw, Except.ok.injEq] at h
            subst h
            cases hdr with
            | true =>
              have hm : ¬ ((-1 : Int) ≥ 0) := by omega
              simp only [if_true] at hcs
              cases hcs
              rw [run_split, hshape, bindE_ok]
              simp only [if_true, hm, decide_false, Bool.false_eq_true, if_false]
              rw [bindE_ok, hidx1, bindE_ok, hpre _ rfl rfl rfl, bindE_ok]
              rw [tailRun_loop _ _ (by show (((skipFrom src start : Nat) : Int) == pyLen (ints src)) = false; rw [pyLen_ints, beq_cast]; exact hd)]
              refine after_loop src offs L fuel hf _ kf _ ?_ hw
              exact
                { p0 := rfl, p4 := rfl, p6 := rfl, p7 := rfl, p8 := rfl, p9 := rfl, v1 := hlen', v3 := rfl, v4 := rfl, v5 := rfl,
                  v6 := rfl, v7 := rfl, v10 := rfl, v11 := rfl, v12 := rfl, v13 := rfl, v14 := rfl, v15 := rfl,
                  v16 := (by show cnt = ((cnt : Nat) : Int).toNat; omega), v17 := rfl, p2 := rfl, p3 := rfl, rect := hrect,
                  v2 := rfl, ret := rfl, rv := fun hh => by cases hh }
            | false =>
              have hm : ((0 : Int) ≥ 0) := by omega
              simp only [Bool.false_eq_true, if_false] at hcs
              rw [run_split, hshape, bindE_ok]
              simp only [Bool.false_eq_true, if_false, hm, decide_true, if_true, get2W_plain00 (r0 :: tl) cs _ _ hcs]
              rw [bindE_ok, hidx1, bindE_ok, hpre _ rfl rfl rfl, bindE_ok]
              rw [tailRun_loop _ _ (by show (((skipFrom src start : Nat) : Int) == pyLen (ints src)) = false; rw [pyLen_ints, beq_cast]; exact hd)]
              refine after_loop src offs L fuel hf _ kf _ ?_ hw
              exact
                { p0 := rfl, p4 := rfl, p6 := rfl, p7 := rfl, p8 := rfl, p9 := rfl, v1 := hlen', v3 := rfl, v4 := rfl, v5 := rfl,
                  v6 := rfl, v7 := rfl, v10 := rfl, v11 := rfl, v12 := rfl, v13 := rfl, v14 := rfl, v15 := rfl,
                  v16 := (by show cnt = ((cnt : Nat) : Int).toNat; omega), v17 := rfl, p2 := rfl, p3 := rfl, rect := hrect,
                  v2 := rfl, ret := rfl, rv := fun hh => by cases hh }

end Exetera.GenK.CsvK
