import Exetera.Gen.Kernels
import Exetera.Lemmas.GenKernels
import Exetera.Lemmas.GenKernelsSpans
import Exetera.Lemmas.GenKernelsSpansIndex
/-!
  The TRANSLATED `_get_spans_for_index_string_field` (typed list built with `append`, early `return result`, `continue`,
  `np.array_equal` of two slices) refines the hand model `getSpansForIndexStringField .repaired` / `scanIndexed` of
  `Model/Spans.lean`, for every pair (indices, values) of arrays of naturals.
-/
namespace Exetera.GenK

open Exetera Exetera.PyRt Exetera.Spans Exetera.Gen.Kernels

theorem ints_injective : ∀ {x y : List Nat}, ints x = ints y ↔ x = y
  | [], [] => by simp
  | [], _ :: _ => by simp [ints]
  | _ :: _, [] => by simp [ints]
  | a :: x, b :: y => by
    have ih := @ints_injective x y
    simp only [ints, List.map_cons, List.cons.injEq, Int.ofNat_eq_natCast, Int.natCast_inj] at ih ⊢
    rw [ih]

theorem slice_ints (xs : List Nat) (a b : Nat) : slice (ints xs) a b = ints (slice xs a b) := by
  simp [slice, ints, List.map_take, List.map_drop]

theorem getElem?_ints (xs : List Nat) (i : Nat) : (ints xs)[i]? = xs[i]?.map Int.ofNat := by
  simp [ints]

namespace GIS

abbrev St := _get_spans_for_index_string_field.St

abbrev loop (k : Nat) (i : Int) (s : St) : Except Err St :=
  forRangeAux (fun _ => false) (fun k s => _get_spans_for_index_string_field.body_L1 { s with v1 := k }) k i s

theorem scan_sim (indices values : List Nat) :
    ∀ (k i : Nat) (s : St), 1 ≤ i → s.p0 = ints indices → s.p1 = ints values →
      match scanIndexed indices values k i with
      | .ok vs => ∃ s', loop k (i : Int) s = .ok s' ∧ s'.p0 = s.p0 ∧
          s'.v0 ++ [((indices.length - 1 : Nat) : Int)] = s.v0 ++ ints vs
      | .error e => ∃ e', loop k (i : Int) s = .error e' ∧ e'.tag = e.tag := by
  intro k
  induction k with
  | zero =>
    intro i s _ _ _
    simp only [scanIndexed, loop, forRangeAux]
    exact ⟨s, rfl, rfl, by simp [ints]⟩
  | succ k ih =>
    intro i s hi h0 h1
    obtain ⟨q0, q1, w0, w1, w2, w3, w4⟩ := s
    simp only at h0 h1
    subst h0 h1
    have ei : ((i : Int) - 1) = ((i - 1 : Nat) : Int) := by omega
    have ei1 : ((i : Int) + 1) = ((i + 1 : Nat) : Int) := by omega
    have hstep : ∀ s : St, loop (k + 1) (i : Int) s
        = bindE (_get_spans_for_index_string_field.body_L1 { s with v1 := (i : Int) })
            (fun s' => loop k ((i + 1 : Nat) : Int) s') := by
      intro s
      simp only [loop, forRangeAux, ei1]
      cases _get_spans_for_index_string_field.body_L1 { s with v1 := (i : Int) } <;> simp
    rw [hstep]
    generalize hL : (fun s' => loop k ((i + 1 : Nat) : Int) s') = L
    have keep := fun (v2 v3 v4 : Int) => ih (i + 1) ⟨ints indices, ints values, w0, (i : Int), v2, v3, v4⟩ (by omega) rfl rfl
    have adv := fun (v2 v3 v4 : Int) => ih (i + 1) ⟨ints indices, ints values, w0 ++ [(i : Int)], (i : Int), v2, v3, v4⟩
      (by omega) rfl rfl
    simp only [scanIndexed, _get_spans_for_index_string_field.body_L1, ei, ei1, idxE_nat, getE, getElem?_ints]
    cases hl : indices[i - 1]? with
    | none => simp only [Option.map_none, bindE_error]; exact ⟨_, rfl, rfl⟩
    | some last =>
      cases hc : indices[i]? with
      | none => simp only [Option.map_some, Option.map_none, bindE_ok, bindE_error]; exact ⟨_, rfl, rfl⟩
      | some current =>
        cases hn : indices[i + 1]? with
        | none => simp only [Option.map_some, Option.map_none, bindE_ok, bindE_error]; exact ⟨_, rfl, rfl⟩
        | some next =>
          simp only [Option.map_some, bindE_ok, Int.ofNat_eq_natCast]
          by_cases hlen : (next : Int) - (current : Int) = (current : Int) - (last : Int)
          · have hlen' : ((next : Int) - (current : Int) != (current : Int) - (last : Int)) = false := by simp [hlen]
            simp only [hlen', Bool.false_eq_true, if_false, pySlice_nat, slice_ints]
            by_cases hsl : slice values last current = slice values current next
            · have h1' : (slice values last current != slice values current next) = false := by simp [hsl]
              have h2' : (!(ints (slice values last current) == ints (slice values current next))) = false := by
                simp [hsl]
              simp only [h1', h2', Bool.false_eq_true, if_false, bindE_ok]
              subst hL
              exact keep _ _ _
            · have h1' : (slice values last current != slice values current next) = true := by simp [hsl]
              have h2' : (!(ints (slice values last current) == ints (slice values current next))) = true := by
                simp [ints_injective, hsl]
              simp only [h1', h2', if_true, bindE_ok]
              subst hL
              have := adv (last : Int) (current : Int) (next : Int)
              cases hs : scanIndexed indices values k (i + 1) with
              | error e => rw [hs] at this; simpa using this
              | ok vs =>
                rw [hs] at this
                obtain ⟨s', hb, hp, hv⟩ := this
                simp only [consE_ok]
                exact ⟨s', hb, hp, by rw [hv]; simp [ints]⟩
          · have hlen' : ((next : Int) - (current : Int) != (current : Int) - (last : Int)) = true := by simp [hlen]
            simp only [hlen', if_true, bindE_ok]
            subst hL
            have := adv (last : Int) (current : Int) (next : Int)
            cases hs : scanIndexed indices values k (i + 1) with
            | error e => rw [hs] at this; simpa using this
            | ok vs =>
              rw [hs] at this
              obtain ⟨s', hb, hp, hv⟩ := this
              simp only [consE_ok]
              exact ⟨s', hb, hp, by rw [hv]; simp [ints]⟩

end GIS

theorem get_spans_for_index_string_field_refines (indices values : List Nat) :
    Sim (_get_spans_for_index_string_field.run (ints indices) (ints values))
      ((getSpansForIndexStringField .repaired indices values).map ints) := by
  unfold _get_spans_for_index_string_field.run getSpansForIndexStringField
  by_cases hlt : indices.length < 2
  · have h1 : decide (pyLen (ints indices) < 2) = true := by simp [pyLen]; omega
    simp [h1, hlt, Sim, Except.map, ints]
  · have h1 : decide (pyLen (ints indices) < 2) = false := by simp [pyLen]; omega
    have h2 : (Variant.repaired == Variant.repaired && decide (indices.length < 2)) = false := by simp [hlt]
    simp only [h1, h2, Bool.false_eq_true, if_false]
    have h := GIS.scan_sim indices values (indices.length - 2) 1
      { p0 := ints indices, p1 := ints values, v0 := [] ++ [0], v1 := 0, v2 := 0, v3 := 0, v4 := 0 } (by omega) rfl rfl
    have hn : (pyLen (ints indices) - 1 - 1).toNat = indices.length - 2 := by simp [pyLen]; omega
    show Sim (bindE (GIS.loop (pyLen (ints indices) - 1 - 1).toNat ((1 : Nat) : Int)
      { p0 := ints indices, p1 := ints values, v0 := [] ++ [0], v1 := 0, v2 := 0, v3 := 0, v4 := 0 })
      (fun s => .ok (s.v0 ++ [pyLen s.p0 - 1]))) _
    rw [hn]
    cases hs : scanIndexed indices values (indices.length - 2) 1 with
    | error e =>
      rw [hs] at h
      obtain ⟨e', he, ht⟩ := h
      simp only [he, bindE_error, consE_error, Except.map, Sim, ht]
    | ok vs =>
      rw [hs] at h
      obtain ⟨s', hb, hp, hv⟩ := h
      have hlast : pyLen s'.p0 - 1 = ((indices.length - 1 : Nat) : Int) := by
        rw [hp]; simp only [pyLen, ints_length]; omega
      simp only [hb, bindE_ok, consE_ok, Except.map, Sim, hlast, hv]
      simp [ints]

end Exetera.GenK
