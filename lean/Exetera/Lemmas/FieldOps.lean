import Exetera.Model.FieldOps
/-!
  C13 helper lemmas: the association-list heap, and what each REGENERATED helper body (`Gen.helperProgs`) computes when
  interpreted by `FieldOps.runProg`. The three `lookup_*` facts pin the regenerated bodies; everything else is for all inputs.
-/
namespace Exetera.FieldOps
open Exetera
variable {α : Type}

@[simp] theorem World.get?_alloc (w : World α) (r : FieldRec α) (id : Nat) :
    (w.alloc r).get? id = if w.next = id then some r else w.get? id := by
  simp only [World.get?, World.alloc, List.find?_cons]
  by_cases h : w.next = id
  · simp [h]
  · have h' : (w.next == id) = false := by simp [h]
    simp [h, h']

@[simp] theorem World.get?_put (w : World α) (i : Nat) (r : FieldRec α) (id : Nat) :
    (w.put i r).get? id = if i = id then some r else w.get? id := by
  simp only [World.get?, World.put, List.find?_cons]
  by_cases h : i = id
  · simp [h]
  · have h' : (i == id) = false := by simp [h]
    simp [h, h']

@[simp] theorem World.next_alloc (w : World α) (r : FieldRec α) : (w.alloc r).next = w.next + 1 := rfl
@[simp] theorem World.next_put (w : World α) (i : Nat) (r : FieldRec α) : (w.put i r).next = w.next := rfl
@[simp] theorem World.frames_alloc (w : World α) (r : FieldRec α) : (w.alloc r).frames = w.frames := rfl
@[simp] theorem World.frames_put (w : World α) (i : Nat) (r : FieldRec α) : (w.put i r).frames = w.frames := rfl

theorem World.wf_alloc {w : World α} (h : w.wf) (r : FieldRec α) : (w.alloc r).wf := by
  intro c hc
  simp only [World.alloc, List.mem_cons] at hc ⊢
  rcases hc with rfl | hc
  · simp
  · have := h c hc; omega

theorem World.wf_put {w : World α} (h : w.wf) {i : Nat} (hi : i < w.next) (r : FieldRec α) : (w.put i r).wf := by
  intro c hc
  simp only [World.put, List.mem_cons] at hc ⊢
  rcases hc with rfl | hc
  · exact hi
  · exact h c hc

/-- an identity that has not been handed out yet names no object -/
theorem World.get?_none_of_wf {w : World α} (h : w.wf) {id : Nat} (hid : w.next ≤ id) : w.get? id = none := by
  simp only [World.get?, Option.map_eq_none_iff, List.find?_eq_none]
  intro c hc
  have := h c hc
  simp; omega

/-- a live object is older than `next` -/
theorem World.lt_next_of_get? {w : World α} (h : w.wf) {id : Nat} {r : FieldRec α} (hr : w.get? id = some r) : id < w.next := by
  rcases Nat.lt_or_ge id w.next with h1 | h1
  · exact h1
  · rw [World.get?_none_of_wf h h1] at hr; cases hr

/-! ### the regenerated bodies -/

/-- `_binary_op` as it is in the source today -/
def binaryProg : List Gen.FInstr :=
  [.unwrap 0, .unwrap 1, .apply none [2, 3] 1, .newField "NumericMemField" 4, .write 5 4, .ret [5]]
/-- `_unary_op` -/
def unaryProg : List Gen.FInstr := [.unwrap 0, .apply none [1] 1, .newField "NumericMemField" 2, .write 3 2, .ret [3]]
/-- `numeric_divmod` -/
def divmodProg : List Gen.FInstr :=
  [.unwrap 0, .unwrap 1, .apply (some "np.divmod") [2, 3] 2, .newField "NumericMemField" 4, .write 6 4,
   .newField "NumericMemField" 5, .write 7 5, .ret [6, 7]]

theorem lookup_binary : lookupProg "_binary_op" = some (2, binaryProg) := by decide
theorem lookup_unary : lookupProg "_unary_op" = some (1, unaryProg) := by decide
theorem lookup_divmod : lookupProg "numeric_divmod" = some (2, divmodProg) := by decide

/-- `_binary_op(session, a, b, sym)`: ONE new NumericMemField holding `sym(a', b')` under the name of numpy's result dtype;
    every other object, and every dataframe, is as it was -/
theorem run_binary (np : Numpy α) (sym : String) (w : World α) (a b : Val α) (x y : α) (n : String) (hw : w.wf)
    (ha : unwrapVal np w a = .ok x) (hb : unwrapVal np w b = .ok y)
    (hn : dtypeToStr (np.dtypeOf (np.call sym [x, y])) = some n) :
    ∃ w', runProg np sym binaryProg w [a, b] = .ok (w', [w.next]) ∧
      w'.get? w.next = some ⟨"NumericMemField", n, some (np.call sym [x, y])⟩ ∧
      (∀ id, id ≠ w.next → w'.get? id = w.get? id) ∧ w'.frames = w.frames ∧ w'.next = w.next + 1 ∧ w'.wf := by
  simp [binaryProg, runProg, step, getArrs, getFlds, ha, hb, hn]
  refine ⟨?_, World.wf_put (World.wf_alloc hw _) (by simp) _⟩
  intro id h
  have : ¬ w.next = id := fun e => h e.symm
  simp [this]

/-- when numpy's result dtype is one `dtype_to_str` refuses, `_binary_op` raises ValueError (and returns nothing) -/
theorem run_binary_unsupported (np : Numpy α) (sym : String) (w : World α) (a b : Val α) (x y : α)
    (ha : unwrapVal np w a = .ok x) (hb : unwrapVal np w b = .ok y)
    (hn : dtypeToStr (np.dtypeOf (np.call sym [x, y])) = none) :
    runProg np sym binaryProg w [a, b] = .error (.valueError "Unsupported dtype") := by
  simp [binaryProg, runProg, step, getArrs, ha, hb, hn]

theorem run_unary (np : Numpy α) (sym : String) (w : World α) (a : Val α) (x : α) (n : String) (hw : w.wf)
    (ha : unwrapVal np w a = .ok x)
    (hn : dtypeToStr (np.dtypeOf (np.call sym [x])) = some n) :
    ∃ w', runProg np sym unaryProg w [a] = .ok (w', [w.next]) ∧
      w'.get? w.next = some ⟨"NumericMemField", n, some (np.call sym [x])⟩ ∧
      (∀ id, id ≠ w.next → w'.get? id = w.get? id) ∧ w'.frames = w.frames ∧ w'.next = w.next + 1 ∧ w'.wf := by
  simp [unaryProg, runProg, step, getArrs, getFlds, ha, hn]
  refine ⟨?_, World.wf_put (World.wf_alloc hw _) (by simp) _⟩
  intro id h
  have : ¬ w.next = id := fun e => h e.symm
  simp [this]

/-- `numeric_divmod(session, a, b)`: TWO new NumericMemFields, quotient then remainder of ONE `np.divmod(a', b')` call -/
theorem run_divmod (np : Numpy α) (fn : String) (w : World α) (a b : Val α) (x y : α) (n1 n2 : String) (hw : w.wf)
    (ha : unwrapVal np w a = .ok x) (hb : unwrapVal np w b = .ok y)
    (hn1 : dtypeToStr (np.dtypeOf (np.call2 "np.divmod" [x, y]).1) = some n1)
    (hn2 : dtypeToStr (np.dtypeOf (np.call2 "np.divmod" [x, y]).2) = some n2) :
    ∃ w', runProg np fn divmodProg w [a, b] = .ok (w', [w.next, w.next + 1]) ∧
      w'.get? w.next = some ⟨"NumericMemField", n1, some (np.call2 "np.divmod" [x, y]).1⟩ ∧
      w'.get? (w.next + 1) = some ⟨"NumericMemField", n2, some (np.call2 "np.divmod" [x, y]).2⟩ ∧
      (∀ id, id < w.next → w'.get? id = w.get? id) ∧ w'.frames = w.frames ∧ w'.next = w.next + 2 ∧ w'.wf := by
  simp [divmodProg, runProg, step, getArrs, getFlds, ha, hb, hn1, hn2]
  refine ⟨?_, ?_⟩
  · intro id h
    have h1 : ¬ w.next = id := by omega
    have h2 : ¬ w.next + 1 = id := by omega
    simp [h1, h2]
  · exact World.wf_put (World.wf_alloc (World.wf_put (World.wf_alloc hw _) (by simp) _) _) (by simp) _

/-! ### whatever a helper body returns, it has written to no object that existed before the call -/

theorem run_binary_frame (np : Numpy α) (sym : String) (w w' : World α) (a b : Val α) (ids : List Nat)
    (h : runProg np sym binaryProg w [a, b] = .ok (w', ids)) :
    (∀ id, id < w.next → w'.get? id = w.get? id) ∧ w'.frames = w.frames := by
  cases ha : unwrapVal np w a with
  | error e => simp [binaryProg, runProg, step, ha] at h
  | ok x =>
    cases hb : unwrapVal np w b with
    | error e => simp [binaryProg, runProg, step, ha, hb] at h
    | ok y =>
      cases hn : dtypeToStr (np.dtypeOf (np.call sym [x, y])) with
      | none => simp [binaryProg, runProg, step, getArrs, ha, hb, hn] at h
      | some n =>
        simp [binaryProg, runProg, step, getArrs, getFlds, ha, hb, hn] at h
        obtain ⟨rfl, -⟩ := h
        refine ⟨?_, by simp⟩
        intro id hid
        have : ¬ w.next = id := by omega
        simp [this]

theorem run_unary_frame (np : Numpy α) (sym : String) (w w' : World α) (a : Val α) (ids : List Nat)
    (h : runProg np sym unaryProg w [a] = .ok (w', ids)) :
    (∀ id, id < w.next → w'.get? id = w.get? id) ∧ w'.frames = w.frames := by
  cases ha : unwrapVal np w a with
  | error e => simp [unaryProg, runProg, step, ha] at h
  | ok x =>
    cases hn : dtypeToStr (np.dtypeOf (np.call sym [x])) with
    | none => simp [unaryProg, runProg, step, getArrs, ha, hn] at h
    | some n =>
      simp [unaryProg, runProg, step, getArrs, getFlds, ha, hn] at h
      obtain ⟨rfl, -⟩ := h
      refine ⟨?_, by simp⟩
      intro id hid
      have : ¬ w.next = id := by omega
      simp [this]

theorem run_divmod_frame (np : Numpy α) (fn : String) (w w' : World α) (a b : Val α) (ids : List Nat)
    (h : runProg np fn divmodProg w [a, b] = .ok (w', ids)) :
    (∀ id, id < w.next → w'.get? id = w.get? id) ∧ w'.frames = w.frames := by
  cases ha : unwrapVal np w a with
  | error e => simp [divmodProg, runProg, step, ha] at h
  | ok x =>
    cases hb : unwrapVal np w b with
    | error e => simp [divmodProg, runProg, step, ha, hb] at h
    | ok y =>
      cases hn1 : dtypeToStr (np.dtypeOf (np.call2 "np.divmod" [x, y]).1) with
      | none => simp [divmodProg, runProg, step, getArrs, ha, hb, hn1] at h
      | some n1 =>
        cases hn2 : dtypeToStr (np.dtypeOf (np.call2 "np.divmod" [x, y]).2) with
        | none => simp [divmodProg, runProg, step, getArrs, ha, hb, hn1, hn2] at h
        | some n2 =>
          simp [divmodProg, runProg, step, getArrs, getFlds, ha, hb, hn1, hn2] at h
          obtain ⟨rfl, -⟩ := h
          refine ⟨?_, by simp⟩
          intro id hid
          have h1 : ¬ w.next = id := by omega
          have h2 : ¬ w.next + 1 = id := by omega
          simp [h1, h2]

theorem lookup_helperOf (op : String) :
    lookupProg (helperOf op) = some (2, if op = "divmod" then divmodProg else binaryProg) := by
  unfold helperOf
  by_cases h : op = "divmod"
  · simp [h, lookup_divmod]
  · simp [h, lookup_binary]

end Exetera.FieldOps
