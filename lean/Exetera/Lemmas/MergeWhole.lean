import Exetera.Lemmas.MergeFrame
import Exetera.Lemmas.MergeAuto
/-! Helper lemmas for C02, part 4: `merge` as a whole — the validating front end, and the destination frame of
    `orderedMerge` / `unorderedMerge` given what each column loop produces. -/
namespace Exetera.Merge

open Exetera Exetera.Spec Exetera.MapValid

/-- `left_fields_to_map = left.keys() if left_fields is None else left_fields` -/
def leftToMap (i : Input) : List String := i.leftFields.getD (names i.left)
def rightToMap (i : Input) : List String := i.rightFields.getD (names i.right)

/-- the documented naming: a left column keeps its name unless the right side maps a column of the same name -/
def leftName (i : Input) (k : String) : String := if (rightToMap i).contains k then k ++ i.leftSuffix else k
def rightName (i : Input) (k : String) : String := if (leftToMap i).contains k then k ++ i.rightSuffix else k

/-! ### the validating front end -/

theorem getCol_of_look {f : Frame} {n : String} {c : Col} (h : look f n = some c) : getCol f n = .ok c := by
  simp [getCol, h]

theorem validateKeyFields_ok (df : Frame) (n : Nat) : ∀ (on : List String),
    (∀ k ∈ on, ∃ c, look df k = some c ∧ c.isIndexed = false ∧ c.len = n) →
    ∃ cs, validateKeyFields df on = .ok cs ∧ cs.length = on.length ∧ ∀ c ∈ cs, c.len = n
  | [], _ => ⟨[], rfl, rfl, by simp⟩
  | k :: ks, h => by
    obtain ⟨c, hc, hi, hl⟩ := h k (by simp)
    obtain ⟨cs, h1, h2, h3⟩ := validateKeyFields_ok df n ks (fun x hx => h x (by simp [hx]))
    refine ⟨c :: cs, ?_, by simp [h2], ?_⟩
    · simp [validateKeyFields, getCol_of_look hc, hi, h1]
    · intro x hx
      rcases List.mem_cons.mp hx with hx | hx
      · subst hx; exact hl
      · exact h3 x hx

theorem foldl_addLen_same (n : Nat) : ∀ (cs : List Col), (∀ c ∈ cs, c.len = n) →
    cs.foldl (fun s c => addLen s c.len) [n] = [n]
  | [], _ => rfl
  | c :: cs, h => by
    have hc := h c (by simp)
    simp only [List.foldl_cons, hc]
    have : addLen [n] n = [n] := by simp [addLen]
    rw [this]
    exact foldl_addLen_same n cs (fun x hx => h x (by simp [hx]))

theorem validateKeyLengths_ok (cs : List Col) (n : Nat) (hne : cs ≠ []) (h : ∀ c ∈ cs, c.len = n) :
    validateKeyLengths cs = .ok [n] := by
  cases cs with
  | nil => exact absurd rfl hne
  | cons c rest =>
    have hc := h c (by simp)
    have h0 : addLen [] n = [n] := by simp [addLen]
    simp only [validateKeyLengths, List.foldl_cons, hc, h0]
    rw [foldl_addLen_same n rest (fun x hx => h x (by simp [hx]))]
    simp

theorem validateFieldLengths_ok (df : Frame) (n : Nat) : ∀ (ns : List String),
    (∀ k ∈ ns, ∃ c, look df k = some c ∧ c.len = n) → validateFieldLengths [n] df ns = .ok [n]
  | [], _ => by simp [validateFieldLengths]
  | k :: ks, h => by
    obtain ⟨c, hc, hl⟩ := h k (by simp)
    have : addLen [n] n = [n] := by simp [addLen]
    simp only [validateFieldLengths, getCol_of_look hc, hl, this]
    exact validateFieldLengths_ok df n ks (fun x hx => h x (by simp [hx]))

theorem allDistinct_iff : ∀ (l : List String), allDistinct l = true ↔ l.Nodup
  | [] => by simp [allDistinct]
  | x :: xs => by simp [allDistinct, allDistinct_iff xs]

/-- **the front end of `merge`**: arguments of the right shape pass every validator, `left_len` / `right_len` are the
    lengths of the key columns; a clash among the destination names is a `ValueError` before anything is written (fix
    NC02b) — whatever the hints; otherwise the call is handed to `_ordered_merge` exactly when both ordered hints are given,
    the key is single and the mode is left / right / inner -/
theorem merge_front' (pandas : String → List Int → List Int → Except Err Pairs) (i : Input) (cs vf fuel : Nat)
    (hhow : supportedModes.contains i.how = true)
    (htup : i.leftTuple = i.rightTuple) (htl : i.leftTuple = true → i.leftOn.length = i.rightOn.length)
    (hlne : i.leftOn ≠ []) (hrne : i.rightOn ≠ [])
    (hlk : ∀ k ∈ i.leftOn, ∃ c, look i.left k = some c ∧ c.isIndexed = false ∧ c.len = i.lk.length)
    (hrk : ∀ k ∈ i.rightOn, ∃ c, look i.right k = some c ∧ c.isIndexed = false ∧ c.len = i.rk.length)
    (hlc : ∀ k ∈ leftToMap i, ∃ c, look i.left k = some c ∧ c.len = i.lk.length)
    (hrc : ∀ k ∈ rightToMap i, ∃ c, look i.right k = some c ∧ c.len = i.rk.length) :
    merge pandas i cs vf fuel =
      if !(allDistinct (allDestNames i (leftToMap i) (rightToMap i))) then
        .error (.valueError "merge would write more than one destination field named …")
      else if isOrdered i then
        orderedMerge i (leftToMap i) (rightToMap i) i.lk.length i.rk.length (i.hintLU.getD false) (i.hintRU.getD false)
          cs vf fuel
      else unorderedMerge pandas i (leftToMap i) (rightToMap i) := by
  obtain ⟨lkf, a1, a2, a3⟩ := validateKeyFields_ok i.left i.lk.length i.leftOn hlk
  obtain ⟨rkf, b1, b2, b3⟩ := validateKeyFields_ok i.right i.rk.length i.rightOn hrk
  have a4 := validateKeyLengths_ok lkf i.lk.length (by intro h; rw [h] at a2; exact hlne (List.length_eq_zero_iff.mp a2.symm)) a3
  have b4 := validateKeyLengths_ok rkf i.rk.length (by intro h; rw [h] at b2; exact hrne (List.length_eq_zero_iff.mp b2.symm)) b3
  have a5 := validateFieldLengths_ok i.left i.lk.length (leftToMap i) hlc
  have b5 := validateFieldLengths_ok i.right i.rk.length (rightToMap i) hrc
  have hkc : validateKeyConsistency i.leftTuple i.rightTuple i.leftOn i.rightOn = .ok () := by
    simp only [validateKeyConsistency, htup, bne_self_eq_false, Bool.false_eq_true, if_false]
    cases ht : i.rightTuple with
    | false => simp
    | true =>
      have := htl (by rw [htup, ht])
      simp [this]
  simp only [leftToMap, rightToMap] at a5 b5
  simp only [merge, hhow, Bool.not_true, Bool.false_eq_true, if_false, hkc, a1, b1, a4, b4, a5, b5, List.head?_cons,
    leftToMap, rightToMap]
  rfl

theorem merge_front (pandas : String → List Int → List Int → Except Err Pairs) (i : Input) (cs vf fuel : Nat)
    (hhow : supportedModes.contains i.how = true)
    (htup : i.leftTuple = i.rightTuple) (htl : i.leftTuple = true → i.leftOn.length = i.rightOn.length)
    (hlne : i.leftOn ≠ []) (hrne : i.rightOn ≠ [])
    (hlk : ∀ k ∈ i.leftOn, ∃ c, look i.left k = some c ∧ c.isIndexed = false ∧ c.len = i.lk.length)
    (hrk : ∀ k ∈ i.rightOn, ∃ c, look i.right k = some c ∧ c.isIndexed = false ∧ c.len = i.rk.length)
    (hlc : ∀ k ∈ leftToMap i, ∃ c, look i.left k = some c ∧ c.len = i.lk.length)
    (hrc : ∀ k ∈ rightToMap i, ∃ c, look i.right k = some c ∧ c.len = i.rk.length)
    (hnd : (allDestNames i (leftToMap i) (rightToMap i)).Nodup) :
    merge pandas i cs vf fuel =
      if isOrdered i then
        orderedMerge i (leftToMap i) (rightToMap i) i.lk.length i.rk.length (i.hintLU.getD false) (i.hintRU.getD false)
          cs vf fuel
      else unorderedMerge pandas i (leftToMap i) (rightToMap i) := by
  rw [merge_front' pandas i cs vf fuel hhow htup htl hlne hrne hlk hrk hlc hrc, (allDistinct_iff _).mpr hnd]
  simp

/-! ### a destination frame from a list of produced columns -/

/-- every listed column was produced without error and has `N` rows, the names are pairwise distinct: `addAll` succeeds,
    the destination has exactly the listed names, each listed column is found under its name, all columns have `N` rows -/
theorem frame_of_entries (es : List (String × Except Err Col)) (N : Nat)
    (hok : ∀ e ∈ es, ∃ c, e.2 = .ok c ∧ c.len = N) (hnd : (es.map (·.1)).Nodup) :
    ∃ dest, addAll es [] = .ok dest ∧ names dest = es.map (·.1) ∧
      (∀ n c, (n, Except.ok c) ∈ es → look dest n = some c) ∧ (∀ n c, look dest n = some c → c.len = N) := by
  obtain ⟨dest, h1, h2, h3⟩ := addAll_nil_ok es (fun e he => by obtain ⟨c, hc, _⟩ := hok e he; exact ⟨c, hc⟩) hnd
  refine ⟨dest, h1, h2, ?_, ?_⟩
  · intro n c hm
    exact look_of_mem (by rw [h2]; exact hnd) ((h3 n c).mpr hm)
  · intro n c hl
    have := (h3 n c).mp (look_mem hl)
    obtain ⟨c', hc', hlen⟩ := hok _ this
    simp only [Except.ok.injEq] at hc'
    rw [hc']; exact hlen

theorem destName_left (k : String) (ltm rtm : List String) (ls rs : String) :
    destName "left" k ltm rtm ls rs = .ok (if rtm.contains k then k ++ ls else k) := rfl
theorem destName_right (k : String) (ltm rtm : List String) (ls rs : String) :
    destName "right" k ltm rtm ls rs = .ok (if ltm.contains k then k ++ rs else k) := rfl

/-- what a column loop lists for a field that exists -/
def loopEntry (src : Frame) (f : Col → Except Err Col) (name : String → String) (k : String) : String × Except Err Col :=
  (name k, match getCol src k with | .ok c => f c | .error e => .error e)

theorem loopCols_left (src : Frame) (toMap ltm rtm : List String) (ls rs : String) (f : Col → Except Err Col) :
    loopCols "left" src toMap ltm rtm ls rs f
      = toMap.map (loopEntry src f (fun k => if rtm.contains k then k ++ ls else k)) := by
  simp only [loopCols, destName_left]
  rfl

theorem loopCols_right (src : Frame) (toMap ltm rtm : List String) (ls rs : String) (f : Col → Except Err Col) :
    loopCols "right" src toMap ltm rtm ls rs f
      = toMap.map (loopEntry src f (fun k => if ltm.contains k then k ++ rs else k)) := by
  simp only [loopCols, destName_right]
  rfl

theorem loopEntry_names (src : Frame) (f : Col → Except Err Col) (name : String → String) (toMap : List String) :
    (toMap.map (loopEntry src f name)).map (·.1) = toMap.map name := by
  simp [List.map_map, Function.comp_def, loopEntry]

/-- a loop over fields that exist and map without error lists only good columns, and lists each field's column -/
theorem loop_good (src : Frame) (f : Col → Except Err Col) (name : String → String) (toMap : List String)
    (sel : List (Option Nat))
    (h : ∀ k ∈ toMap, ∃ c out, look src k = some c ∧ f c = .ok out ∧ selectCol c sel = some out) :
    (∀ e ∈ toMap.map (loopEntry src f name), ∃ c, e.2 = .ok c ∧ c.len = sel.length) ∧
    (∀ k ∈ toMap, ∀ c, look src k = some c →
      ∃ out, (name k, Except.ok out) ∈ toMap.map (loopEntry src f name) ∧ selectCol c sel = some out) := by
  constructor
  · intro e he
    obtain ⟨k, hk, rfl⟩ := List.mem_map.mp he
    obtain ⟨c, out, h1, h2, h3⟩ := h k hk
    exact ⟨out, by simp [loopEntry, getCol_of_look h1, h2], selectCol_len h3⟩
  · intro k hk c hc
    obtain ⟨c', out, h1, h2, h3⟩ := h k hk
    have : c' = c := by rw [h1] at hc; cases hc; rfl
    subst this
    refine ⟨out, List.mem_map.mpr ⟨k, hk, ?_⟩, h3⟩
    simp [loopEntry, getCol_of_look h1, h2]

/-! ### `_ordered_merge` as a whole frame -/

/-- the map fields `_ordered_merge` leaves in the destination -/
def mapColsOf (leftMap rightMap : Option (List Int)) : List (String × Except Err Col) :=
  (match leftMap with | some m => [("_left_map", Except.ok (intCol m))] | none => []) ++
  (match rightMap with | some m => [("_right_map", Except.ok (intCol m))] | none => [])

theorem mapColsOf_names_sublist (lm rm : Option (List Int)) :
    ((mapColsOf lm rm).map (·.1)).Sublist ["_left_map", "_right_map"] := by
  cases lm <;> cases rm <;> simp [mapColsOf]

/-- **the destination frame of `_ordered_merge`**, given what the dispatch, the generator and every column mapping
    produce (supplied by the C02 theorems): it exists, holds under the documented names the selected rows of every
    mapped column, all its columns (the map fields included) have the same number of rows, and it has no other columns -/
theorem orderedMerge_frame (i : Input) (ltm rtm : List String) (ll rl : Nat) (lu ru : Bool) (cs vf fuel : Nat)
    (inv : Int) (p : Plan) (o : Join.Out) (lsel rsel : List (Option Nat)) (N : Nat)
    (hhow : ["left", "right", "inner"].contains i.how = true)
    (hs : sentinel lu ru ll rl = .ok inv) (hp : plan i.how lu ru = .ok p)
    (ho : Join.streamed p.variant fuel cs inv (if p.aLeft then i.lk else i.rk) (if p.aLeft then i.rk else i.lk) = .ok o)
    (hlm : ∀ m, p.leftMap.map (fun isL => if isL then o.lout else o.rout) = some m → m.length = N)
    (hrm : ∀ m, p.rightMap.map (fun isL => if isL then o.lout else o.rout) = some m → m.length = N)
    (hln : lsel.length = N) (hrn : rsel.length = N)
    (hL : ∀ k ∈ ltm, ∃ c out, look i.left k = some c ∧
      mapColumn "left" c (p.leftMap.map (fun isL => if isL then o.lout else o.rout)) inv cs vf = .ok out ∧
      selectCol c lsel = some out)
    (hR : ∀ k ∈ rtm, ∃ c out, look i.right k = some c ∧
      mapColumn "right" c (p.rightMap.map (fun isL => if isL then o.lout else o.rout)) inv cs vf = .ok out ∧
      selectCol c rsel = some out)
    (hnd : (["_left_map", "_right_map"] ++ ltm.map (fun k => if rtm.contains k then k ++ i.leftSuffix else k)
      ++ rtm.map (fun k => if ltm.contains k then k ++ i.rightSuffix else k)).Nodup) :
    ∃ dest, orderedMerge i ltm rtm ll rl lu ru cs vf fuel = .ok dest ∧
      (∀ k ∈ ltm, ∀ c, look i.left k = some c → ∃ out,
        look dest (if rtm.contains k then k ++ i.leftSuffix else k) = some out ∧ selectCol c lsel = some out) ∧
      (∀ k ∈ rtm, ∀ c, look i.right k = some c → ∃ out,
        look dest (if ltm.contains k then k ++ i.rightSuffix else k) = some out ∧ selectCol c rsel = some out) ∧
      (∀ n c, look dest n = some c → c.len = N) ∧
      (∀ n ∈ names dest, n ∈ ["_left_map", "_right_map"] ∨
        n ∈ ltm.map (fun k => if rtm.contains k then k ++ i.leftSuffix else k) ∨
        n ∈ rtm.map (fun k => if ltm.contains k then k ++ i.rightSuffix else k)) := by
  let lmap := p.leftMap.map (fun isL => if isL then o.lout else o.rout)
  let rmap := p.rightMap.map (fun isL => if isL then o.lout else o.rout)
  let lname := fun k => if rtm.contains k then k ++ i.leftSuffix else k
  let rname := fun k => if ltm.contains k then k ++ i.rightSuffix else k
  let A := mapColsOf lmap rmap
  let L := ltm.map (loopEntry i.left (fun c => mapColumn "left" c lmap inv cs vf) lname)
  let R := rtm.map (loopEntry i.right (fun c => mapColumn "right" c rmap inv cs vf) rname)
  have hrun : orderedMerge i ltm rtm ll rl lu ru cs vf fuel = addAll (A ++ L ++ R) [] := by
    simp only [orderedMerge, hhow, Bool.not_true, Bool.false_eq_true, if_false, hs, hp, ho, loopCols_left, loopCols_right]
    rfl
  obtain ⟨gl1, gl2⟩ := loop_good i.left (fun c => mapColumn "left" c lmap inv cs vf) lname ltm lsel hL
  obtain ⟨gr1, gr2⟩ := loop_good i.right (fun c => mapColumn "right" c rmap inv cs vf) rname rtm rsel hR
  have hA : ∀ e ∈ A, ∃ c, e.2 = .ok c ∧ c.len = N := by
    intro e he
    simp only [A, mapColsOf, List.mem_append] at he
    rcases he with he | he
    · cases hm : lmap with
      | none => simp [hm] at he
      | some m =>
        simp only [hm, List.mem_singleton] at he
        subst he
        exact ⟨intCol m, rfl, by rw [intCol_len]; exact hlm m hm⟩
    · cases hm : rmap with
      | none => simp [hm] at he
      | some m =>
        simp only [hm, List.mem_singleton] at he
        subst he
        exact ⟨intCol m, rfl, by rw [intCol_len]; exact hrm m hm⟩
  have hok : ∀ e ∈ A ++ L ++ R, ∃ c, e.2 = .ok c ∧ c.len = N := by
    intro e he
    rcases List.mem_append.mp he with he | he
    · rcases List.mem_append.mp he with he | he
      · exact hA e he
      · rw [← hln]; exact gl1 e he
    · rw [← hrn]; exact gr1 e he
  have hnames : (A ++ L ++ R).map (·.1) = A.map (·.1) ++ ltm.map lname ++ rtm.map rname := by
    simp only [List.map_append, L, R, loopEntry_names]
  have hnd' : ((A ++ L ++ R).map (·.1)).Nodup := by
    rw [hnames]
    refine List.Nodup.sublist ?_ hnd
    exact ((mapColsOf_names_sublist lmap rmap).append (List.Sublist.refl _)).append (List.Sublist.refl _)
  obtain ⟨dest, d1, d2, d3, d4⟩ := frame_of_entries (A ++ L ++ R) N hok hnd'
  refine ⟨dest, by rw [hrun]; exact d1, ?_, ?_, d4, ?_⟩
  · intro k hk c hc
    obtain ⟨out, hm, hs⟩ := gl2 k hk c hc
    exact ⟨out, d3 _ _ (List.mem_append.mpr (Or.inl (List.mem_append.mpr (Or.inr hm)))), hs⟩
  · intro k hk c hc
    obtain ⟨out, hm, hs⟩ := gr2 k hk c hc
    exact ⟨out, d3 _ _ (List.mem_append.mpr (Or.inr hm)), hs⟩
  · intro n hn
    rw [d2, hnames] at hn
    rcases List.mem_append.mp hn with hn | hn
    · rcases List.mem_append.mp hn with hn | hn
      · exact Or.inl ((mapColsOf_names_sublist lmap rmap).subset hn)
      · exact Or.inr (Or.inl hn)
    · exact Or.inr (Or.inr hn)

/-! ### `_unordered_merge` as a whole frame -/

/-- **the destination frame of `_unordered_merge`** for the row pairs `pandas.merge` returns, when every pair names existing
    rows: every mapped column is the selected rows of its source under the documented name, `valid_l` / `valid_r` and all
    other columns have one row per pair, there are no other columns -/
theorem unorderedMerge_frame (pandas : String → List Int → List Int → Except Err Pairs) (i : Input)
    (ltm rtm : List String) (pairs : Pairs)
    (hpd : pandas i.how i.lk i.rk = .ok pairs)
    (hselL : ∀ x, some x ∈ pairs.map (·.1) → x < i.lk.length)
    (hselR : ∀ x, some x ∈ pairs.map (·.2) → x < i.rk.length)
    (hL : ∀ k ∈ ltm, ∃ c, look i.left k = some c ∧ ColWF c i.lk.length)
    (hR : ∀ k ∈ rtm, ∃ c, look i.right k = some c ∧ ColWF c i.rk.length)
    (hnd : (ltm.map (fun k => if rtm.contains k then k ++ i.leftSuffix else k) ++ ["valid" ++ i.leftSuffix]
      ++ rtm.map (fun k => if ltm.contains k then k ++ i.rightSuffix else k) ++ ["valid" ++ i.rightSuffix]).Nodup) :
    ∃ dest, unorderedMerge pandas i ltm rtm = .ok dest ∧
      (∀ k ∈ ltm, ∀ c, look i.left k = some c → ∃ out,
        look dest (if rtm.contains k then k ++ i.leftSuffix else k) = some out ∧ selectCol c (pairs.map (·.1)) = some out) ∧
      (∀ k ∈ rtm, ∀ c, look i.right k = some c → ∃ out,
        look dest (if ltm.contains k then k ++ i.rightSuffix else k) = some out ∧ selectCol c (pairs.map (·.2)) = some out) ∧
      (∀ n c, look dest n = some c → c.len = pairs.length) ∧
      (∀ n ∈ names dest, n ∈ ["valid" ++ i.leftSuffix, "valid" ++ i.rightSuffix] ∨
        n ∈ ltm.map (fun k => if rtm.contains k then k ++ i.leftSuffix else k) ∨
        n ∈ rtm.map (fun k => if ltm.contains k then k ++ i.rightSuffix else k)) := by
  let lsel := pairs.map (·.1)
  let rsel := pairs.map (·.2)
  let lname := fun k => if rtm.contains k then k ++ i.leftSuffix else k
  let rname := fun k => if ltm.contains k then k ++ i.rightSuffix else k
  let L := ltm.map (loopEntry i.left (fun c => safeMapColumn c lsel) lname)
  let R := rtm.map (loopEntry i.right (fun c => safeMapColumn c rsel) rname)
  let VL : List (String × Except Err Col) :=
    if (filtOf lsel).all id then [] else [("valid" ++ i.leftSuffix, .ok (boolCol (filtOf lsel)))]
  let VR : List (String × Except Err Col) :=
    if (filtOf rsel).all id then [] else [("valid" ++ i.rightSuffix, .ok (boolCol (filtOf rsel)))]
  have hrun : unorderedMerge pandas i ltm rtm = addAll (L ++ VL ++ R ++ VR) [] := by
    simp only [unorderedMerge, hpd]
    rfl
  have hL' : ∀ k ∈ ltm, ∃ c out, look i.left k = some c ∧ safeMapColumn c lsel = .ok out ∧ selectCol c lsel = some out := by
    intro k hk
    obtain ⟨c, h1, h2⟩ := hL k hk
    obtain ⟨out, g1, g2⟩ := safeMapColumn_spec_wf c i.lk.length lsel h2 hselL
    exact ⟨c, out, h1, g1, g2⟩
  have hR' : ∀ k ∈ rtm, ∃ c out, look i.right k = some c ∧ safeMapColumn c rsel = .ok out ∧ selectCol c rsel = some out := by
    intro k hk
    obtain ⟨c, h1, h2⟩ := hR k hk
    obtain ⟨out, g1, g2⟩ := safeMapColumn_spec_wf c i.rk.length rsel h2 hselR
    exact ⟨c, out, h1, g1, g2⟩
  obtain ⟨gl1, gl2⟩ := loop_good i.left (fun c => safeMapColumn c lsel) lname ltm lsel hL'
  obtain ⟨gr1, gr2⟩ := loop_good i.right (fun c => safeMapColumn c rsel) rname rtm rsel hR'
  have hlen1 : lsel.length = pairs.length := by simp [lsel]
  have hlen2 : rsel.length = pairs.length := by simp [rsel]
  have hVL : ∀ e ∈ VL, ∃ c, e.2 = .ok c ∧ c.len = pairs.length := by
    intro e he
    simp only [VL] at he
    split at he
    · simp at he
    · simp only [List.mem_singleton] at he
      subst he
      exact ⟨_, rfl, by simp [boolCol_len, filtOf, lsel]⟩
  have hVR : ∀ e ∈ VR, ∃ c, e.2 = .ok c ∧ c.len = pairs.length := by
    intro e he
    simp only [VR] at he
    split at he
    · simp at he
    · simp only [List.mem_singleton] at he
      subst he
      exact ⟨_, rfl, by simp [boolCol_len, filtOf, rsel]⟩
  have hok : ∀ e ∈ L ++ VL ++ R ++ VR, ∃ c, e.2 = .ok c ∧ c.len = pairs.length := by
    intro e he
    rcases List.mem_append.mp he with he | he
    · rcases List.mem_append.mp he with he | he
      · rcases List.mem_append.mp he with he | he
        · rw [← hlen1]; exact gl1 e he
        · exact hVL e he
      · rw [← hlen2]; exact gr1 e he
    · exact hVR e he
  have hVLn : (VL.map (·.1)).Sublist ["valid" ++ i.leftSuffix] := by
    simp only [VL]; split <;> simp
  have hVRn : (VR.map (·.1)).Sublist ["valid" ++ i.rightSuffix] := by
    simp only [VR]; split <;> simp
  have hnames : (L ++ VL ++ R ++ VR).map (·.1) = ltm.map lname ++ VL.map (·.1) ++ rtm.map rname ++ VR.map (·.1) := by
    simp only [List.map_append, L, R, loopEntry_names]
  have hnd' : ((L ++ VL ++ R ++ VR).map (·.1)).Nodup := by
    rw [hnames]
    refine List.Nodup.sublist ?_ hnd
    exact ((((List.Sublist.refl _).append hVLn).append (List.Sublist.refl _)).append hVRn)
  obtain ⟨dest, d1, d2, d3, d4⟩ := frame_of_entries (L ++ VL ++ R ++ VR) pairs.length hok hnd'
  refine ⟨dest, by rw [hrun]; exact d1, ?_, ?_, d4, ?_⟩
  · intro k hk c hc
    obtain ⟨out, hm, hs⟩ := gl2 k hk c hc
    refine ⟨out, d3 _ _ ?_, hs⟩
    simp only [List.mem_append]
    exact Or.inl (Or.inl (Or.inl hm))
  · intro k hk c hc
    obtain ⟨out, hm, hs⟩ := gr2 k hk c hc
    refine ⟨out, d3 _ _ ?_, hs⟩
    simp only [List.mem_append]
    exact Or.inl (Or.inr hm)
  · intro n hn
    rw [d2, hnames] at hn
    simp only [List.mem_append] at hn
    rcases hn with ((hn | hn) | hn) | hn
    · exact Or.inr (Or.inl hn)
    · have := hVLn.subset hn
      simp only [List.mem_singleton] at this
      exact Or.inl (by simp [this])
    · exact Or.inr (Or.inr hn)
    · have := hVRn.subset hn
      simp only [List.mem_singleton] at this
      exact Or.inl (by simp [this])

/-! ### name lists -/

/-- the names `_unordered_merge` may create are pairwise distinct when the reserved and the data names are -/
theorem nodup_unordered_names (L R : List String) (a b c d : String) :
    ([a, b, c, d] ++ L ++ R).Nodup → (L ++ [c] ++ R ++ [d]).Nodup := by
  intro h
  simp only [List.nodup_append, List.nodup_cons, List.mem_append, List.mem_cons] at h ⊢
  grind

/-- … and so are those `_ordered_merge` may create -/
theorem nodup_ordered_names (L R : List String) (a b c d : String) :
    ([a, b, c, d] ++ L ++ R).Nodup → ([a, b] ++ L ++ R).Nodup := by
  intro h
  simp only [List.nodup_append, List.nodup_cons, List.mem_append, List.mem_cons] at h ⊢
  grind

end Exetera.Merge
