import Exetera.Lemmas.JoinFlatSpec
/-!
  The flat left-map kernels `generate_ordered_map_to_left_right_unique` / `…_both_unique` (C19): loop invariant,
  one-iteration lemma, and the result: the `result` array is the right column of the relational left join.
-/
namespace Exetera.JoinFlat
open Exetera Exetera.Spec Exetera.Join

/-- invariant of both loops: what has been written plus the spec rows of the left rows not yet consumed is the join -/
structure LInv (L R : List Int) (inv : Int) (s : LS) : Prop where
  ile : s.i ≤ L.length
  jle : s.j ≤ R.length
  olen : s.out.length = s.i
  out : s.out ++ encR inv (rest L R s.i) = encR inv (leftJoin L R)
  below : Below L R s.i s.j

def lmu (L R : List Int) (s : LS) : Nat := (L.length - s.i) + (R.length - s.j)

theorem leftBody_step {bu : Bool} {L R : List Int} {inv : Int} {s : LS} (hL : Sorted L) (hR : R.Pairwise (· < ·))
    (hbu : bu = true → L.Pairwise (· < ·)) (hinv : LInv L R inv s) (hg : leftGuard L R s = true) :
    ∃ s', leftBody bu L R L.length inv s = .ok s' ∧ LInv L R inv s' ∧ lmu L R s' < lmu L R s := by
  simp only [leftGuard, Bool.and_eq_true, decide_eq_true_eq] at hg
  obtain ⟨hi, hj⟩ := hg
  have ha := get?_some_of_lt hi
  have hb := get?_some_of_lt hj
  have hout := hinv.out
  have holen := hinv.olen
  simp only [leftBody, getE_of_lt _ hi, getE_of_lt _ hj, hi, if_true]
  by_cases hlt : L[s.i] < R[s.j]
  · -- unmatched left row
    simp only [hlt, if_true]
    refine ⟨_, rfl, ⟨by simp only []; omega, hinv.jle, by simp [holen], ?_, Below.step_left hL hinv.below⟩, by simp only [lmu]; omega⟩
    have hr := rest_unmatched (RU.sorted_of_strict hR) hinv.below ha (by omega) (fun b hb' => by rw [hb] at hb'; cases hb'; exact hlt)
    rw [hr, encR_cons_none] at hout
    simpa using hout
  · simp only [hlt, if_false]
    by_cases hgt : L[s.i] > R[s.j]
    · simp only [hgt, if_true]
      refine ⟨_, rfl, ⟨hinv.ile, by simp only []; omega, holen, hout, ?_⟩, by simp only [lmu]; omega⟩
      apply Below.step_right hinv.below
      intro a b ha' hb'
      rw [ha] at ha'; rw [hb] at hb'; cases ha'; cases hb'; exact hgt
    · simp only [hgt, if_false]
      have heq : R[s.j] = L[s.i] := by omega
      have hb' : R[s.j]? = some L[s.i] := by rw [hb, heq]
      have hr := rest_matched_unique hR hinv.below ha hb'
      rw [hr, encR_cons_some] at hout
      have hout' : (s.out ++ [(s.j : Int)]) ++ encR inv (rest L R (s.i + 1)) = encR inv (leftJoin L R) := by simpa using hout
      have hboth : (∀ a', L[s.i + 1]? = some a' → L[s.i] < a') → Below L R (s.i + 1) (s.j + 1) :=
        fun h => Below.step_both hL hinv.below ha hb' h
      cases bu with
      | true =>
        simp only [if_true]
        refine ⟨_, rfl, ⟨by simp only []; omega, by simp only []; omega, by simp [holen], hout', ?_⟩, by simp only [lmu]; omega⟩
        apply hboth
        intro a' ha'
        exact RU.strict_get? (hbu rfl) (i := s.i) (j := s.i + 1) (by omega) ha ha'
      | false =>
        simp only [Bool.false_eq_true, if_false]
        by_cases hend : s.i + 1 ≥ L.length
        · simp only [hend, if_true]
          refine ⟨_, rfl, ⟨by simp only []; omega, by simp only []; omega, by simp [holen], hout', ?_⟩, by simp only [lmu]; omega⟩
          exact Below.of_ge (by simp only []; omega)
        · simp only [hend, if_false]
          have hi1 : s.i + 1 < L.length := by omega
          simp only [getE_of_lt _ hi1]
          have hle := Sorted.le_get? hL (i := s.i) (j := s.i + 1) (by omega) ha (get?_some_of_lt hi1)
          by_cases hne : L[s.i + 1] = L[s.i]
          · have : (L[s.i + 1] != L[s.i]) = false := by simp [hne]
            simp only [this, Bool.false_eq_true, if_false]
            exact ⟨_, rfl, ⟨by simp only []; omega, hinv.jle, by simp [holen], hout', Below.step_left hL hinv.below⟩,
              by simp only [lmu]; omega⟩
          · have : (L[s.i + 1] != L[s.i]) = true := by simp [hne]
            simp only [this, if_true]
            refine ⟨_, rfl, ⟨by simp only []; omega, by simp only []; omega, by simp [holen], hout', ?_⟩, by simp only [lmu]; omega⟩
            apply hboth
            intro a' ha'
            rw [get?_some_of_lt hi1] at ha'; cases ha'
            omega

/-- tail loop: the right column is exhausted (or the left one is), every remaining left row is unmatched -/
theorem leftTail_step {L R : List Int} {inv : Int} {s : LS} (hL : Sorted L) (hR : Sorted R)
    (hinv : LInv L R inv s ∧ (s.i = L.length ∨ s.j = R.length)) (hg : decide (s.i < L.length) = true) :
    ∃ s', leftTailBody L.length inv s = .ok s' ∧ (LInv L R inv s' ∧ (s'.i = L.length ∨ s'.j = R.length)) ∧
      L.length - s'.i < L.length - s.i := by
  have hi : s.i < L.length := by simpa using hg
  obtain ⟨hinv, hor⟩ := hinv
  have hj : s.j = R.length := by omega
  have ha := get?_some_of_lt hi
  have hout := hinv.out
  have holen := hinv.olen
  simp only [leftTailBody, hi, if_true]
  refine ⟨_, rfl, ⟨⟨by simp only []; omega, hinv.jle, by simp [holen], ?_, Below.step_left hL hinv.below⟩, Or.inr hj⟩,
    by simp only []; omega⟩
  have hr := rest_unmatched hR hinv.below ha (by omega) (fun b hb' => by
    have := (List.getElem?_eq_some_iff.mp hb').1; omega)
  rw [hr, encR_cons_none] at hout
  simpa using hout

/-- **the flat left-map kernels return the right column of the relational left join** (no out-of-bounds access, both
    loops terminate within their fuel) -/
theorem generateLeft_eq (bu : Bool) {L R : List Int} (result : List Int) (inv : Int) (hL : Sorted L)
    (hR : R.Pairwise (· < ·)) (hbu : bu = true → L.Pairwise (· < ·)) (hres : result.length = L.length) :
    ∃ u, generateLeft bu L R result inv = .ok (u, encR inv (leftJoin L R)) := by
  have h0 : LInv L R inv ({} : LS) :=
    ⟨by simp, by simp, rfl, by simp [rest_zero], Below.zero L R 0⟩
  obtain ⟨s1, hw1, hI1, hg1⟩ := whileE_rule (leftGuard L R) (leftBody bu L R L.length inv) (LInv L R inv) (lmu L R)
    (fun s hI hg => leftBody_step hL hR hbu hI hg) (L.length + R.length) {} h0 (by simp [lmu])
  have hor : s1.i = L.length ∨ s1.j = R.length := by
    have h1 := hI1.ile
    have h2 := hI1.jle
    simp only [leftGuard, Bool.and_eq_false_iff, decide_eq_false_iff_not] at hg1
    omega
  obtain ⟨s2, hw2, ⟨hI2, _⟩, hg2⟩ := whileE_rule (fun s : LS => decide (s.i < L.length)) (leftTailBody L.length inv)
    (fun s => LInv L R inv s ∧ (s.i = L.length ∨ s.j = R.length)) (fun s => L.length - s.i)
    (fun s hI hg => leftTail_step hL (RU.sorted_of_strict hR) hI hg) L.length s1 ⟨hI1, hor⟩ (by omega)
  have hi2 : s2.i = L.length := by
    have h1 := hI2.ile
    have : ¬ s2.i < L.length := by simpa using hg2
    omega
  have hout := hI2.out
  rw [hi2, rest_of_ge L R (Nat.le_refl _)] at hout
  have hlen : s2.out.length = result.length := by rw [hI2.olen, hi2, hres]
  refine ⟨decide (s2.unmapped > 0), ?_⟩
  simp only [generateLeft, hres, bne_self_eq_false, Bool.false_eq_true, if_false, hw1, hw2]
  rw [hlen, List.drop_length]
  simpa [encR] using hout
