import Exetera.Model.FieldOps
/-!
# C13 — field arithmetic, comparison and logic equal numpy's element-wise results

numpy is opaque (`np`), so the content of the theorems is the dispatch: which symbol, which operand order, and that the
result is a fresh field. They are stated over `Gen/OperatorTable.lean`, regenerated from `fields.py` on every run.
-/
namespace Exetera.Props.C13
open Exetera Exetera.FieldOps

/-- the regenerated tables route every supported (class, operator) to the symbol and operand order the property demands -/
theorem resolve_eq_spec : ∀ p ∈ allPairs, resolve p.1 p.2 = spec p.2 := by decide +kernel

/-- … and the property's list has no unknown operator -/
theorem spec_total : ∀ p ∈ allPairs, (spec p.2).isSome = true := by decide +kernel

/-- For every class and supported operator, for every numpy and all operands: the forward form computes
    `sym(self, other)`, the reflected form `sym(other, self)`, the unary form `sym(self)`. -/
theorem dunder_table_correct {α β} (np : String → List α → β) (cls d : String) (h : (cls, d) ∈ allPairs) (self other : α) :
    ∃ sym ord, spec d = some (sym, ord) ∧
      eval np cls d self other = some (np sym (ord.map (fun k => if k == 0 then self else other))) := by
  have h1 := resolve_eq_spec (cls, d) h
  have h2 := spec_total (cls, d) h
  simp only at h1 h2
  cases hs : spec d with
  | none => rw [hs] at h2; cases h2
  | some r =>
    refine ⟨r.1, r.2, rfl, ?_⟩
    simp [eval, h1, hs]

/-- reflected operators really swap: e.g. `3 - f` is `operator.sub(3, f)` for every class that supports `-` -/
theorem rsub_reflected {α β} (np : String → List α → β) (cls : String) (h : (cls, "__rsub__") ∈ allPairs) (self other : α) :
    eval np cls "__rsub__" self other = some (np "operator.sub" [other, self]) := by
  obtain ⟨sym, ord, h1, h2⟩ := dunder_table_correct np cls "__rsub__" h self other
  simp [spec] at h1
  obtain ⟨rfl, rfl⟩ := h1
  simpa using h2

/-- the result of `_binary_op` is a fresh in-memory field: every existing field keeps its data -/
theorem result_is_fresh {α} (s : Store α) (f : α → α → α) (a b : Operand α) (s' : Store α) (rid : Nat)
    (hfresh : ∀ c ∈ s.cells, c.1 < s.next) (h : binaryOp s f a b = some (s', rid)) :
    rid = s.next ∧ (∀ id, id ≠ rid → s'.get? id = s.get? id) ∧
      ∃ x y, a.data s = some x ∧ b.data s = some y ∧ s'.get? rid = some (f x y) := by
  simp only [binaryOp, bind, Option.bind] at h
  cases ha : a.data s with
  | none => simp [ha] at h
  | some x =>
    cases hb : b.data s with
    | none => simp [ha, hb] at h
    | some y =>
      simp only [ha, hb, pure, Option.some.injEq, Prod.mk.injEq] at h
      obtain ⟨rfl, rfl⟩ := h
      refine ⟨rfl, ?_, x, y, rfl, rfl, ?_⟩
      · intro id hne
        simp only [Store.get?, List.find?_cons]
        have : (s.next == id) = false := by simpa using fun h => hne h.symm
        simp [this]
      · simp [Store.get?]

/-- **The result field carries numpy's dtype.** For every dtype `n` a field operator can produce, `dtype_to_str` (as
    regenerated from the source) names the numpy type `n` exactly `n` — so `NumericMemField(session, dtype_to_str(r.dtype))`
    is declared with the dtype of numpy's result `r`, never a folded or widened one. -/
theorem dtype_to_str_faithful : ∀ n ∈ resultDtypes, dtypeToStr (npSymbol n) = some n := by decide +kernel

/-- no two rows of the chain answer for the same numpy type, and no two numpy types get the same name: the chain is a
    bijection between the types it tests and the names it returns (first-match order is therefore immaterial) -/
theorem dtype_to_str_injective :
    (Gen.dtypeToStrRows.map (·.1)).Nodup ∧ (Gen.dtypeToStrRows.map (·.2)).Nodup := by decide +kernel

/-- every answer is a row of the chain; a dtype outside the chain falls through to the final `raise ValueError` (it is
    refused, not silently renamed); a dtype already given as a string is passed through unchanged -/
theorem dtype_to_str_total_or_raises (ty : String) :
    ((∃ n, dtypeToStr ty = some n ∧ (ty, n) ∈ Gen.dtypeToStrRows) ∨ dtypeToStr ty = none) ∧
      Gen.dtypeToStrRaises = "ValueError" ∧ Gen.dtypeToStrPassthrough = true := by
  refine ⟨?_, by decide, by decide⟩
  unfold dtypeToStr
  cases h : Gen.dtypeToStrRows.find? (fun r => r.1 == ty) with
  | none => right; rfl
  | some r =>
    left
    refine ⟨r.2, rfl, ?_⟩
    have hm := List.mem_of_find?_eq_some h
    have he := List.find?_some h
    simp only [beq_iff_eq] at he
    rw [← he]; exact hm

-- non-vacuity: the table is non-empty and contains the interesting reflected rows
example : allPairs.length = 128 := by decide +kernel
example : ("TimestampField", "__rdivmod__") ∈ allPairs := by decide +kernel
example : eval (fun s (xs : List Int) => (s, xs)) "NumericField" "__rfloordiv__" 7 2 = some ("operator.floordiv", [2, 7]) := by
  decide +kernel

example : dtypeToStr "np.uint16" = some "uint16" := by decide +kernel
example : dtypeToStr "np.float16" = none := by decide +kernel

end Exetera.Props.C13
