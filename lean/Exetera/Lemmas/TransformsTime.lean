import Exetera.Lemmas.TransformsBasic
/-! C06: CPython's day-number arithmetic against plain counting; `int()` on digit groups; the timestamp layouts. -/
namespace Exetera.Transforms
open Exetera Exetera.Spec.Transforms

/-! ### calendar -/

theorem daysBeforeYear_succ (y : Int) (hy : 1 ≤ y) : daysBeforeYear (y + 1) = daysBeforeYear y + yearLength y := by
  unfold daysBeforeYear yearLength isLeap
  by_cases h4 : y % 4 = 0 <;> by_cases h100 : y % 100 = 0 <;> by_cases h400 : y % 400 = 0 <;>
    simp [h4, h100, h400] <;> omega

theorem daysToYear_eq (n : Nat) (hn : 1 ≤ n) : daysToYear n = daysBeforeYear n := by
  induction n with
  | zero => omega
  | succ n ih =>
    cases n with
    | zero => simp [daysToYear, daysBeforeYear]
    | succ n =>
      rw [daysToYear, ih (by omega)]
      have := daysBeforeYear_succ ((n : Int) + 1) (by omega)
      push_cast at this ⊢
      rw [this]

theorem daysToMonth_eq (y : Int) (m : Nat) (h1 : 1 ≤ m) (h12 : m ≤ 12) : daysToMonth y m = daysBeforeMonth y m := by
  have : m = 1 ∨ m = 2 ∨ m = 3 ∨ m = 4 ∨ m = 5 ∨ m = 6 ∨ m = 7 ∨ m = 8 ∨ m = 9 ∨ m = 10 ∨ m = 11 ∨ m = 12 := by omega
  rcases this with rfl | rfl | rfl | rfl | rfl | rfl | rfl | rfl | rfl | rfl | rfl | rfl <;>
    cases hl : isLeap y <;> simp [daysToMonth, daysBeforeMonth, daysInMonth, hl]

theorem ymd2ord_eq_count (y m d : Nat) (hy : 1 ≤ y) (h1 : 1 ≤ m) (h12 : m ≤ 12) :
    ymd2ord y m d - epochOrd = daysFromCivil y m d := by
  unfold ymd2ord daysFromCivil
  rw [daysToYear_eq y hy, daysToMonth_eq y m h1 h12, daysToYear_eq 1970 (by omega)]
  have : daysBeforeYear ((1970 : Nat) : Int) = 719162 := by decide
  rw [this]; unfold epochOrd; omega

/-- for a real date and time of day, `datetime(...).timestamp()` is the counted number of microseconds -/
theorem mkTimestamp_valid (Y M D h mi s us : Nat) (off : Int) (hY : 1 ≤ Y ∧ Y ≤ 9999) (hM : 1 ≤ M ∧ M ≤ 12)
    (hD : 1 ≤ D ∧ (D : Int) ≤ daysInMonth Y M) (hh : h ≤ 23) (hmi : mi ≤ 59) (hs : s ≤ 59) (hus : us ≤ 999999) :
    mkTimestamp Y M D h mi s us off = .ok (utcMicros Y M D h mi s us off) := by
  unfold mkTimestamp
  have e1 : (1 ≤ (Y : Int) && (Y : Int) ≤ 9999) = true := by simp; omega
  have e2 : (1 ≤ (M : Int) && (M : Int) ≤ 12) = true := by simp; omega
  have e3 : (1 ≤ (D : Int) && (D : Int) ≤ daysInMonth Y M) = true := by simp; omega
  have e4 : (0 ≤ (h : Int) && (h : Int) ≤ 23) = true := by simp; omega
  have e5 : (0 ≤ (mi : Int) && (mi : Int) ≤ 59) = true := by simp; omega
  have e6 : (0 ≤ (s : Int) && (s : Int) ≤ 59) = true := by simp; omega
  have e7 : (0 ≤ (us : Int) && (us : Int) ≤ 999999) = true := by simp; omega
  simp only [e1, e2, e3, e4, e5, e6, e7, Bool.not_true, Bool.false_eq_true, if_false]
  congr 1
  have := ymd2ord_eq_count Y M D hY.1 hM.1 hM.2
  unfold utcMicros
  rw [← this]
  push_cast
  omega

end Exetera.Transforms
