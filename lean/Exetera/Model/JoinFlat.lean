import Exetera.Model.Join
/-!
  Model of the flat (non-streamed) ordered-join kernels of exetera/core/operations.py that the `Session.ordered_merge_*`
  entry points call on whole arrays (C19):

    generate_ordered_map_to_left_right_unique, generate_ordered_map_to_left_both_unique,
    ordered_inner_map_result_size, ordered_inner_map, ordered_inner_map_left_unique, ordered_inner_map_both_unique.

  Conventions (as in `Model/Join.lean`): keys are `List Int` (the kernels only compare keys). Every kernel writes its
  result array(s) at a position that is incremented with each write (`result[i] = …; i += 1`, resp.
  `left_to_inner[cur_m] = …; cur_m += 1`), so the part of a result array written so far is modelled as the list `out` of
  the values written, a write being an append guarded by the capacity check `position < len(result)` (`.error (.oob _)`
  is numpy's IndexError / an out-of-bounds store under the JIT). The returned array is `out` followed by the untouched
  rest of the caller's array.
-/
namespace Exetera.JoinFlat
open Exetera

/-! ### left maps: `generate_ordered_map_to_left_right_unique` / `…_both_unique` -/

/-- loop state of the flat left-map kernels; `out = result[0:i]` -/
structure LS where
  i : Nat := 0
  j : Nat := 0
  unmapped : Nat := 0
  out : List Int := []
  deriving Repr, DecidableEq, Inhabited

/-- `while i < len(first) and j < len(second)` -/
def leftGuard (first second : List Int) (s : LS) : Bool := s.i < first.length && s.j < second.length

/-- one iteration of the main loop. `bu = true` is `…_left_both_unique` (`i += 1; j += 1` on a match), `bu = false` is
    `…_left_right_unique` (`if i+1 >= len(first) or first[i+1] != first[i]: j += 1` then `i += 1`). -/
def leftBody (bu : Bool) (first second : List Int) (cap : Nat) (inv : Int) (s : LS) : Except Err LS :=
  match getE first s.i "first[i]", getE second s.j "second[j]" with
  | .ok a, .ok b =>
    if a < b then
      if s.i < cap then .ok { s with out := s.out ++ [inv], i := s.i + 1, unmapped := s.unmapped + 1 }
      else .error (.oob "result[i]")
    else if a > b then .ok { s with j := s.j + 1 }
    else if s.i < cap then
      let s1 : LS := { s with out := s.out ++ [(s.j : Int)], i := s.i + 1 }
      if bu then .ok { s1 with j := s.j + 1 }
      else if s.i + 1 ≥ first.length then .ok { s1 with j := s.j + 1 }
      else
        match getE first (s.i + 1) "first[i+1]" with
        | .ok a1 => if a1 != a then .ok { s1 with j := s.j + 1 } else .ok s1
        | .error e => .error e
    else .error (.oob "result[i]")
  | .error e, _ => .error e
  | _, .error e => .error e

/-- `while i < len(first): result[i] = invalid; i += 1` -/
def leftTailBody (cap : Nat) (inv : Int) (s : LS) : Except Err LS :=
  if s.i < cap then .ok { s with out := s.out ++ [inv], i := s.i + 1 } else .error (.oob "result[i]")

/-- `generate_ordered_map_to_left_{right,both}_unique(first, second, result, invalid)`:
    returns (`unmapped > 0`, the `result` array afterwards) -/
def generateLeft (bu : Bool) (first second result : List Int) (inv : Int) : Except Err (Bool × List Int) :=
  if first.length != result.length then .error (.valueError "'first' and 'result' must be the same length")
  else
    match whileE (leftGuard first second) (leftBody bu first second result.length inv)
        (first.length + second.length) {} with
    | .error e => .error e
    | .ok s1 =>
      match whileE (fun s => decide (s.i < first.length)) (leftTailBody result.length inv) first.length s1 with
      | .error e => .error e
      | .ok s2 => .ok (decide (s2.unmapped > 0), s2.out ++ result.drop s2.out.length)

/-! ### inner maps -/

/-- the left column of a cartesian block: rows `I … I+n-1`, each repeated `m` times -/
def blockL (m : Nat) : Nat → Nat → List Int
  | _, 0 => []
  | I, n + 1 => List.replicate m (I : Int) ++ blockL m (I + 1) n

/-- the right column of a cartesian block: `n` times the rows `J … J+m-1` -/
def blockR (J m : Nat) : Nat → List Int
  | 0 => []
  | n + 1 => (List.range' J m).map (fun (j : Nat) => (j : Int)) ++ blockR J m n

/-- loop state of the inner-map kernels; `lo = left_to_inner[0:cur_m]`, `ro = right_to_inner[0:cur_m]` -/
structure IS where
  i : Nat := 0
  j : Nat := 0
  lo : List Int := []
  ro : List Int := []
  deriving Repr, DecidableEq, Inhabited

def innerGuard (left right : List Int) (s : IS) : Bool := s.i < left.length && s.j < right.length

/-- length of the run of equal keys starting at `k`, as the kernel computes it
    (`cur = k; while cur + 1 < len(xs) and xs[cur + 1] == xs[cur]: cur += 1`); a side asserted unique is not scanned -/
def runLen (scan : Bool) (xs : List Int) (k : Nat) : Except Err Nat :=
  if scan then Join.runCount xs xs.length xs.length k 1 else .ok 1

/-- one iteration of `ordered_inner_map` (`scanL = scanR = true`), `ordered_inner_map_left_unique`
    (`scanL = false, scanR = true`), `ordered_inner_map_both_unique` (`scanL = scanR = false`): on a match the block
    `[i, i+n) × [j, j+m)` is written in row-major order, then `i += n; j += m`. -/
def innerBody (scanL scanR : Bool) (left right : List Int) (cap : Nat) (s : IS) : Except Err IS :=
  match getE left s.i "left[i]", getE right s.j "right[j]" with
  | .ok a, .ok b =>
    if a < b then .ok { s with i := s.i + 1 }
    else if a > b then .ok { s with j := s.j + 1 }
    else
      match runLen scanL left s.i, runLen scanR right s.j with
      | .ok n, .ok m =>
        if s.lo.length + n * m ≤ cap then
          .ok { i := s.i + n, j := s.j + m, lo := s.lo ++ blockL m s.i n, ro := s.ro ++ blockR s.j m n }
        else .error (.oob "left_to_inner[cur_m]")
      | .error e, _ => .error e
      | _, .error e => .error e
  | .error e, _ => .error e
  | _, .error e => .error e

/-- `ordered_inner_map*(left, right, left_to_inner, right_to_inner)`: the two result arrays afterwards -/
def orderedInnerMap (scanL scanR : Bool) (left right l2i r2i : List Int) : Except Err (List Int × List Int) :=
  match whileE (innerGuard left right) (innerBody scanL scanR left right (min l2i.length r2i.length))
      (left.length + right.length) {} with
  | .error e => .error e
  | .ok s => .ok (s.lo ++ l2i.drop s.lo.length, s.ro ++ r2i.drop s.ro.length)

/-- loop state of `ordered_inner_map_result_size` -/
structure ZS where
  i : Nat := 0
  j : Nat := 0
  size : Nat := 0
  deriving Repr, DecidableEq, Inhabited

def sizeBody (left right : List Int) (s : ZS) : Except Err ZS :=
  match getE left s.i "left[i]", getE right s.j "right[j]" with
  | .ok a, .ok b =>
    if a < b then .ok { s with i := s.i + 1 }
    else if a > b then .ok { s with j := s.j + 1 }
    else
      match runLen true left s.i, runLen true right s.j with
      | .ok n, .ok m => .ok { i := s.i + n, j := s.j + m, size := s.size + n * m }
      | .error e, _ => .error e
      | _, .error e => .error e
  | .error e, _ => .error e
  | _, .error e => .error e

/-- `ordered_inner_map_result_size(left, right)` -/
def innerResultSize (left right : List Int) : Except Err Nat :=
  match whileE (fun s : ZS => s.i < left.length && s.j < right.length) (sizeBody left right)
      (left.length + right.length) {} with
  | .error e => .error e
  | .ok s => .ok s.size

end Exetera.JoinFlat
