import Exetera.Gen.Kernels
import Exetera.Model.JoinOld
import Exetera.Lemmas.While
import Exetera.Lemmas.GenKernels
import Exetera.Lemmas.GenKernelsJoin
import Exetera.Lemmas.GenKernelsJoinFlat
/-!
  The TRANSLATED kernel of the legacy streamed left map (`Session.ordered_merge_left`, streamed form) against its guard/body
  model `runPartialOld` of `Model/JoinOld.lean`:

    generate_ordered_map_to_left_right_unique_partial_old   ~  runPartialOld

  The model keeps the part of the scratch array `left_to_right` written so far as the list `buf` (`buf = left_to_right[0:i]`);
  the translated kernel, like the code, stores at position `i` of the caller's array. Relation: `left_to_right[:i]` = the model's
  `buf`, `left_to_right[i:]` still the caller's entries, loop variables equal (`FBU.R` of `GenKernelsJoinFlat` with `PO` in the
  place of `LS`). `whileE_sim` lifts the one-iteration lemma to the loop, `whileE_mono` lets it run on any larger fuel.
-/
namespace Exetera.GenK

open Exetera Exetera.PyRt Exetera.Gen.Kernels Exetera.JoinOld

namespace LRUOld

abbrev St := generate_ordered_map_to_left_right_unique_partial_old.St

abbrev mk (dj : Int) (left right buf : List Int) (inv i j u : Int) : St := ⟨dj, left, right, buf, inv, i, j, u⟩

def R (dj : Nat) (left right result : List Int) (inv : Int) (s : St) (t : PO) : Prop :=
  ∃ buf, s = mk dj left right buf inv t.i t.j t.unmapped ∧ buf.length = result.length ∧ t.buf.length = t.i ∧
    buf.take t.i = t.buf ∧ buf.drop t.i = result.drop t.i

theorem guard_eq (dj : Nat) (left right result : List Int) (inv : Int) (s : St) (t : PO) (h : R dj left right result inv s t) :
    generate_ordered_map_to_left_right_unique_partial_old.guard_L1 s
      = (decide (t.i < left.length) && decide (t.j < right.length)) := by
  obtain ⟨buf, rfl, _⟩ := h
  have h0 : generate_ordered_map_to_left_right_unique_partial_old.guard_L1 (mk dj left right buf inv t.i t.j t.unmapped)
      = (decide ((t.i : Int) < (left.length : Int)) && decide ((t.j : Int) < (right.length : Int))) := rfl
  rw [h0, Bool.eq_iff_iff]
  simp only [Bool.and_eq_true, decide_eq_true_eq]
  omega

theorem body_sim (dj : Nat) (left right result : List Int) (inv : Int) (s : St) (t t' : PO)
    (h : R dj left right result inv s t) (hb : partialOldBody dj left right result.length inv t = .ok t') :
    ∃ s', generate_ordered_map_to_left_right_unique_partial_old.body_L1 s = .ok s' ∧ R dj left right result inv s' t' := by
  obtain ⟨buf, rfl, hl, ho, ht, hd⟩ := h
  simp only [partialOldBody, getE] at hb
  have e_i : (t.i : Int) + 1 = ((t.i + 1 : Nat) : Int) := by omega
  have e_j : (t.j : Int) + 1 = ((t.j + 1 : Nat) : Int) := by omega
  have e_u : (t.unmapped : Int) + 1 = ((t.unmapped + 1 : Nat) : Int) := by omega
  have e_d : (t.j : Int) + (dj : Int) = ((t.j + dj : Nat) : Int) := by omega
  cases ha : left[t.i]? with
  | none => simp [ha] at hb
  | some a =>
    cases hbb : right[t.j]? with
    | none => simp [ha, hbb] at hb
    | some b =>
      simp only [ha, hbb] at hb
      simp only [generate_ordered_map_to_left_right_unique_partial_old.body_L1, idxE_nat, getE, ha, hbb, bindE_ok]
      by_cases hlt : a < b
      · simp only [hlt, if_true, decide_true] at hb ⊢
        by_cases hc : t.i < result.length
        · simp only [hc, if_true, Except.ok.injEq] at hb
          subst hb
          obtain ⟨q1, q2, q3, q4⟩ := store_at inv hl hc ho ht hd
          refine ⟨mk dj left right (buf.set t.i inv) inv ((t.i + 1 : Nat) : Int) t.j ((t.unmapped + 1 : Nat) : Int), ?_,
            _, rfl, q1, q2, q3, q4⟩
          simp only [setIdxE_nat, setE, show t.i < buf.length by omega, if_true, bindE_ok, e_i, e_u]
        · simp [hc] at hb
      · simp only [hlt, if_false, decide_false, Bool.false_eq_true] at hb ⊢
        by_cases hgt : a > b
        · simp only [hgt, if_true, decide_true, Except.ok.injEq] at hb ⊢
          subst hb
          exact ⟨mk dj left right buf inv t.i ((t.j + 1 : Nat) : Int) t.unmapped, by simp only [e_j], buf, rfl, hl, ho, ht, hd⟩
        · simp only [hgt, if_false, decide_false, Bool.false_eq_true] at hb ⊢
          by_cases hc : t.i < result.length
          · simp only [hc, if_true, Except.ok.injEq] at hb
            subst hb
            obtain ⟨q1, q2, q3, q4⟩ := store_at ((t.j + dj : Nat) : Int) hl hc ho ht hd
            refine ⟨mk dj left right (buf.set t.i ((t.j + dj : Nat) : Int)) inv ((t.i + 1 : Nat) : Int) t.j t.unmapped, ?_,
              _, rfl, q1, q2, q3, q4⟩
            simp only [setIdxE_nat, setE, show t.i < buf.length by omega, if_true, bindE_ok, e_i, e_d]
          · simp [hc] at hb

end LRUOld

/-- every `.ok` run of the model `runPartialOld` (capacity = the length of the caller's scratch array) is a run of the translated
    kernel, for every fuel ≥ len(left) + len(right): same `i`, `j`, `unmapped`, and the scratch array holds the model's written
    prefix followed by the caller's untouched entries -/
theorem lru_partial_old_ok (dj : Nat) (left right result : List Int) (inv : Int) (t : PO) (fuel : Nat)
    (hf : left.length + right.length ≤ fuel) (h : runPartialOld dj left right result.length inv = .ok t) :
    generate_ordered_map_to_left_right_unique_partial_old.run (dj : Int) left right result inv fuel
      = .ok ((t.i : Int), (t.j : Int), (t.unmapped : Int), t.buf ++ result.drop t.buf.length) := by
  unfold runPartialOld at h
  have h' := whileE_mono _ _ _ _ _ h fuel hf
  obtain ⟨s1, hw1, hR1⟩ := whileE_sim (LRUOld.R dj left right result inv)
    generate_ordered_map_to_left_right_unique_partial_old.guard_L1 generate_ordered_map_to_left_right_unique_partial_old.body_L1
    (fun s : PO => decide (s.i < left.length) && decide (s.j < right.length)) (partialOldBody dj left right result.length inv)
    (LRUOld.guard_eq dj left right result inv) (fun s t t' hR _ hb => LRUOld.body_sim dj left right result inv s t t' hR hb)
    fuel (LRUOld.mk dj left right result inv 0 0 0) {} t ⟨result, rfl, rfl, rfl, rfl, rfl⟩ h'
  obtain ⟨buf, rfl, _, ho, ht, hd⟩ := hR1
  unfold generate_ordered_map_to_left_right_unique_partial_old.run
  have hw1' : whileE generate_ordered_map_to_left_right_unique_partial_old.guard_L1
      generate_ordered_map_to_left_right_unique_partial_old.body_L1 fuel
      (LRUOld.mk dj left right result inv 0 0 0) = .ok (LRUOld.mk dj left right buf inv t.i t.j t.unmapped) := hw1
  simp only [LRUOld.mk] at hw1'
  simp only [hw1', bindE_ok]
  rw [← final_array ho ht hd]

end Exetera.GenK
