import Exetera.Gen.Kernels
import Exetera.Lemmas.GenKernels
import Exetera.Lemmas.GenKernelsSpans
/-!
  The TRANSLATED `apply_spans_index_of_min_indexed` (three nested `for` loops, the innermost with `break`) refines the hand
  model `Spans.applySpansIndexOfMinIndexed .repaired` for every span array, every value array and every offset array that
  NEVER DECREASES.

  The hypothesis is needed: the hand model computes `curlen = curend - curstart` in `Nat` (truncated at 0), the code in signed
  arithmetic; on offsets that decrease somewhere the code may prefer a row of negative "length", the model does not.  An
  `IndexedStringField` never has such offsets (`ValidIndex` implies `NonDecreasing`, `nonDecreasing_of_sorted`), and the
  property theorems of Props/C08 assume `ValidIndex`.
-/
namespace Exetera.GenK

open Exetera Exetera.PyRt Exetera.Spans Exetera.Gen.Kernels

/-- consecutive offsets never decrease (what the refinement of the indexed min / max kernels needs) -/
def NonDecreasing (indices : List Nat) : Prop :=
  ∀ j a b, indices[j]? = some a → indices[j + 1]? = some b → a ≤ b

theorem nonDecreasing_of_pairwise {indices : List Nat} (h : indices.Pairwise (· ≤ ·)) : NonDecreasing indices := by
  intro j a b ha hb
  obtain ⟨hj, rfl⟩ := List.getElem?_eq_some_iff.mp ha
  obtain ⟨hj1, rfl⟩ := List.getElem?_eq_some_iff.mp hb
  exact List.pairwise_iff_getElem.mp h j (j + 1) hj hj1 (by omega)

theorem forRangeAux_succ {σ} (stop : σ → Bool) (body : Int → σ → Except Err σ) (n : Nat) (k : Int) (s : σ) :
    forRangeAux stop body (n + 1) k s
      = bindE (body k s) (fun s' => if stop s' = true then .ok s' else forRangeAux stop body n (k + 1) s') := by
  simp only [forRangeAux]
  cases body k s <;> rfl

namespace MinIdx

abbrev St := apply_spans_index_of_min_indexed.St

abbrev loop3 (n : Nat) (k : Int) (s : St) : Except Err St :=
  forRangeAux (fun s => s.brk3) (fun k s => apply_spans_index_of_min_indexed.body_L3 { s with v13 := k }) n k s

abbrev loop2 (n : Nat) (j : Int) (s : St) : Except Err St :=
  forRangeAux (fun _ => false) (fun k s => apply_spans_index_of_min_indexed.body_L2 { s with v7 := k }) n j s

/-- the byte loop `for k in range(shortlen)` with its two `break`s against `cmpLoop` -/
theorem cmp_sim (values : List Nat) (cs ms : Nat) :
    ∀ (n k : Nat) (s : St), s.p2 = ints values → s.v8 = (cs : Int) → s.v4 = (ms : Int) → s.brk3 = false →
      match cmpLoop values cs ms n k with
      | .ok .curLess => ∃ k', loop3 n (k : Int) s
          = .ok { s with v3 := s.v7, v4 := s.v8, v5 := s.v9, v6 := s.v10, v12 := true, brk3 := true, v13 := k' }
      | .ok .curGreater => ∃ k', loop3 n (k : Int) s = .ok { s with v12 := true, brk3 := true, v13 := k' }
      | .ok .notFound => ∃ k', loop3 n (k : Int) s = .ok { s with v13 := k' }
      | .error e => ∃ e', loop3 n (k : Int) s = .error e' ∧ e'.tag = e.tag := by
  intro n
  induction n with
  | zero => intro k s _ _ _ _; exact ⟨s.v13, rfl⟩
  | succ n ih =>
    intro k s h2 h8 h4 hb
    have e1 : ((cs : Int) + (k : Int)) = ((cs + k : Nat) : Int) := by omega
    have e2 : ((ms : Int) + (k : Int)) = ((ms + k : Nat) : Int) := by omega
    have e3 : ((k : Int) + 1) = ((k + 1 : Nat) : Int) := by omega
    have ih' := ih (k + 1) { s with v13 := (k : Int) } h2 h8 h4 hb
    simp only at ih'
    rw [loop3, forRangeAux_succ, e3]
    generalize hL : (fun s' : St => if s'.brk3 = true then Except.ok s' else
      forRangeAux (fun s => s.brk3) (fun k s => apply_spans_index_of_min_indexed.body_L3 { s with v13 := k }) n
        ((k + 1 : Nat) : Int) s') = L
    simp only [cmpLoop, apply_spans_index_of_min_indexed.body_L3, h2, h8, h4, e1, e2, idxE_nat]
    cases hc : values[cs + k]? with
    | none => simp [getE, hc]
    | some c =>
      cases hm : values[ms + k]? with
      | none => simp [getE, hc, hm]
      | some m =>
        simp only [getE, List.getElem?_map, hc, hm, Option.map_some, bindE_ok, Int.ofNat_eq_natCast, Int.ofNat_lt, gt_iff_lt]
        by_cases h1 : c < m
        · simp only [h1, decide_true, if_true, bindE_ok]
          subst hL
          exact ⟨(k : Int), by simp⟩
        · by_cases h3 : m < c
          · simp only [h1, h3, decide_true, decide_false, if_true, Bool.false_eq_true, if_false, bindE_ok]
            subst hL
            exact ⟨(k : Int), by simp⟩
          · simp only [h1, h3, decide_false, Bool.false_eq_true, if_false, bindE_ok]
            subst hL
            simp only [hb, Bool.false_eq_true, if_false]
            simp only [h2, h8, h4, hb] at ih'
            exact ih'

/-- the row loop `for j in range(cur + 1, next)` against `minIdxLoop` (offsets that never decrease) -/
theorem idx_sim (indices values : List Nat) (hmono : NonDecreasing indices) :
    ∀ (n j : Nat) (st : MinSt) (s : St), s.p1 = ints indices → s.p2 = ints values → s.v3 = (st.minind : Int) →
      s.v4 = (st.minstart : Int) → s.v6 = (st.minlen : Int) → s.brk3 = false →
      match minIdxLoop .repaired indices values n j st with
      | .ok r => ∃ s', loop2 n (j : Int) s = .ok s' ∧ s'.v3 = (r : Int) ∧ s'.p0 = s.p0 ∧ s'.p1 = s.p1 ∧ s'.p2 = s.p2 ∧
          s'.p3 = s.p3 ∧ s'.v0 = s.v0 ∧ s'.brk3 = false
      | .error e => ∃ e', loop2 n (j : Int) s = .error e' ∧ e'.tag = e.tag := by
  intro n
  induction n with
  | zero =>
    intro j st s _ _ h3 _ _ hb
    exact ⟨s, rfl, h3, rfl, rfl, rfl, rfl, rfl, hb⟩
  | succ n ih =>
    intro j st s h1 h2 h3 h4 h6 hb
    obtain ⟨q0, q1, q2, q3, w0, w1, w2, w3, w4, w5, w6, w7, w8, w9, w10, w11, w12, w13, qb⟩ := s
    simp only at h1 h2 h3 h4 h6 hb
    subst h1 h2 h3 h4 h6 hb
    have e3 : ((j : Int) + 1) = ((j + 1 : Nat) : Int) := by omega
    rw [loop2, forRangeAux_succ, e3]
    generalize hL : (fun s' : St => if (fun _ : St => false) s' = true then Except.ok s' else
      forRangeAux (fun _ => false) (fun k s => apply_spans_index_of_min_indexed.body_L2 { s with v7 := k }) n
        ((j + 1 : Nat) : Int) s') = L
    simp only [minIdxLoop, apply_spans_index_of_min_indexed.body_L2, e3, idxE_nat]
    cases ha : indices[j]? with
    | none => simp [getE, ha]
    | some a =>
      cases hb' : indices[j + 1]? with
      | none => simp [getE, ha, hb']
      | some b =>
        have hab : a ≤ b := hmono j a b ha hb'
        have hlen : (b : Int) - (a : Int) = ((b - a : Nat) : Int) := by omega
        have hmin : min (((b - a : Nat)) : Int) (st.minlen : Int) = ((min (b - a) st.minlen : Nat) : Int) := by omega
        have hto : ∀ m : Nat, ((m : Int) - 0).toNat = m := by intro m; omega
        simp only [getE, List.getElem?_map, ha, hb', Option.map_some, bindE_ok, Int.ofNat_eq_natCast, hlen, hmin, forRangeB, hto,
          beq_self_eq_true, if_true]
        have hc := cmp_sim values a st.minstart (min (b - a) st.minlen) 0
          ⟨q0, ints indices, ints values, q3, w0, w1, w2, (st.minind : Int), (st.minstart : Int), w5, (st.minlen : Int), (j : Int),
            (a : Int), (b : Int), ((b - a : Nat) : Int), ((min (b - a) st.minlen : Nat) : Int), false, w13, false⟩ rfl rfl rfl rfl
        have z : ((0 : Nat) : Int) = 0 := rfl
        simp only [loop3, z] at hc
        cases hcm : cmpLoop values a st.minstart (min (b - a) st.minlen) 0 with
        | error e =>
          rw [hcm] at hc
          obtain ⟨e', he, ht⟩ := hc
          simp only [he, bindE_error]
          exact ⟨e', rfl, ht⟩
        | ok c =>
          rw [hcm] at hc
          cases c with
          | curLess =>
            obtain ⟨k', he⟩ := hc
            simp only [he, bindE_ok, Bool.not_true, Bool.false_and, Bool.false_eq_true, if_false]
            subst hL
            simp only [Bool.false_eq_true, if_false]
            have := ih (j + 1) ⟨j, a, b - a⟩
              ⟨q0, ints indices, ints values, q3, w0, w1, w2, (j : Int), (a : Int), (b : Int), ((b - a : Nat) : Int), (j : Int),
                (a : Int), (b : Int), ((b - a : Nat) : Int), ((min (b - a) st.minlen : Nat) : Int), true, k', false⟩
              rfl rfl rfl rfl rfl rfl
            simp only [loop2] at this
            exact this
          | curGreater =>
            obtain ⟨k', he⟩ := hc
            simp only [he, bindE_ok, Bool.not_true, Bool.false_and, Bool.false_eq_true, if_false]
            subst hL
            simp only [Bool.false_eq_true, if_false]
            have := ih (j + 1) st
              ⟨q0, ints indices, ints values, q3, w0, w1, w2, (st.minind : Int), (st.minstart : Int), w5, (st.minlen : Int), (j : Int),
                (a : Int), (b : Int), ((b - a : Nat) : Int), ((min (b - a) st.minlen : Nat) : Int), true, k', false⟩
              rfl rfl rfl rfl rfl rfl
            simp only [loop2] at this
            exact this
          | notFound =>
            obtain ⟨k', he⟩ := hc
            simp only [he, bindE_ok, Bool.not_false, Bool.true_and, Int.ofNat_lt]
            by_cases hlt : b - a < st.minlen
            · simp only [hlt, decide_true, if_true, bindE_ok]
              subst hL
              simp only [Bool.false_eq_true, if_false]
              have := ih (j + 1) ⟨j, a, b - a⟩
                ⟨q0, ints indices, ints values, q3, w0, w1, w2, (j : Int), (a : Int), (b : Int), ((b - a : Nat) : Int), (j : Int),
                  (a : Int), (b : Int), ((b - a : Nat) : Int), ((min (b - a) st.minlen : Nat) : Int), false, k', false⟩
                rfl rfl rfl rfl rfl rfl
              simp only [loop2] at this
              exact this
            · simp only [hlt, decide_false, Bool.false_eq_true, if_false, bindE_ok]
              subst hL
              simp only [Bool.false_eq_true, if_false]
              have := ih (j + 1) st
                ⟨q0, ints indices, ints values, q3, w0, w1, w2, (st.minind : Int), (st.minstart : Int), w5, (st.minlen : Int), (j : Int),
                  (a : Int), (b : Int), ((b - a : Nat) : Int), ((min (b - a) st.minlen : Nat) : Int), false, k', false⟩
                rfl rfl rfl rfl rfl rfl
              simp only [loop2] at this
              exact this

/-- one iteration of the span loop -/
theorem step (sp indices values : List Nat) (hmono : NonDecreasing indices) (k cur next : Nat) (dest : List Int) (s : St)
    (hc : sp[k]? = some cur) (hn : sp[k + 1]? = some next)
    (hR : s.p0 = ints sp ∧ s.p1 = ints indices ∧ s.p2 = ints values ∧ s.p3 = dest ∧ s.brk3 = false) (hk : k < dest.length) :
    match spanIndexOfMinIndexed .repaired indices values cur next with
    | .ok v => ∃ s', apply_spans_index_of_min_indexed.body_L1 { s with v0 := (k : Int) } = .ok s' ∧
        (s'.p0 = ints sp ∧ s'.p1 = ints indices ∧ s'.p2 = ints values ∧ s'.p3 = dest.set k v ∧ s'.brk3 = false)
    | .error e => ∃ e', apply_spans_index_of_min_indexed.body_L1 { s with v0 := (k : Int) } = .error e' ∧ e'.tag = e.tag := by
  obtain ⟨q0, q1, q2, q3, w0, w1, w2, w3, w4, w5, w6, w7, w8, w9, w10, w11, w12, w13, qb⟩ := s
  obtain ⟨h0, h1, h2, h3, hb⟩ := hR
  simp only at h0 h1 h2 h3 hb
  subst h0 h1 h2 h3 hb
  have hk1 : ((k : Int) + 1) = ((k + 1 : Nat) : Int) := by omega
  have hc1 : ((cur : Int) + 1) = ((cur + 1 : Nat) : Int) := by omega
  simp only [apply_spans_index_of_min_indexed.body_L1, hk1, hc1, idxE_nat, getE_ints _ _ _ hc, getE_ints _ _ _ hn, bindE_ok,
    spanIndexOfMinIndexed]
  by_cases hnc : next = cur + 1
  · subst hnc
    have h1' : ((((cur + 1 : Nat) : Int) - (cur : Int)) == 1) = true := by rw [beq_iff_eq]; omega
    simp only [h1', if_true, beq_self_eq_true, setIdxE_nat, setE, hk, bindE_ok]
    exact ⟨_, rfl, rfl, rfl, rfl, rfl, rfl⟩
  · have h1' : ((next : Int) - (cur : Int) == 1) = false := by rw [beq_eq_false_iff_ne]; omega
    have hb' : (next == cur + 1) = false := by simp [hnc]
    simp only [h1', hb', Bool.false_eq_true, if_false]
    cases ha : indices[cur]? with
    | none => simp [getE, ha]
    | some a =>
      cases hb2 : indices[cur + 1]? with
      | none => simp [getE, ha, hb2]
      | some b =>
        have hab : a ≤ b := hmono cur a b ha hb2
        have hlen : (b : Int) - (a : Int) = ((b - a : Nat) : Int) := by omega
        have hn' : ((next : Int) - ((cur + 1 : Nat) : Int)).toNat = next - (cur + 1) := by omega
        simp only [getE, List.getElem?_map, ha, hb2, Option.map_some, bindE_ok, Int.ofNat_eq_natCast, hlen, forRangeE, hn']
        have hin := idx_sim indices values hmono (next - (cur + 1)) (cur + 1) ⟨cur, a, b - a⟩
          ⟨ints sp, ints indices, ints values, q3, (k : Int), (cur : Int), (next : Int), (cur : Int), (a : Int), (b : Int),
            ((b - a : Nat) : Int), w7, w8, w9, w10, w11, w12, w13, false⟩ rfl rfl rfl rfl rfl rfl
        simp only [loop2] at hin
        cases hm : minIdxLoop .repaired indices values (next - (cur + 1)) (cur + 1) ⟨cur, a, b - a⟩ with
        | error e =>
          rw [hm] at hin
          obtain ⟨e', hrun, ht⟩ := hin
          simp only [hrun, bindE_error]
          exact ⟨e', rfl, ht⟩
        | ok m =>
          rw [hm] at hin
          obtain ⟨s', hrun, hv3, hp0, hp1, hp2, hp3, hv0, hbk⟩ := hin
          simp only [hrun, bindE_ok, hv0, hp3, hv3, setIdxE_nat, setE, hk, if_true]
          exact ⟨_, rfl, hp0, hp1, hp2, rfl, hbk⟩

end MinIdx

theorem apply_spans_index_of_min_indexed_refines (sp indices values : List Nat) (hmono : NonDecreasing indices) :
    Sim (apply_spans_index_of_min_indexed.run (ints sp) (ints indices) (ints values) none)
      (applySpansIndexOfMinIndexed .repaired sp indices values) := by
  unfold apply_spans_index_of_min_indexed.run applySpansIndexOfMinIndexed forSpans
  cases sp with
  | nil => simp [pyLen, npZeros, Sim]
  | cons a t =>
    have hlen : (pyLen (ints (a :: t)) - 1) = ((t.length : Nat) : Int) := by simp [pyLen]
    simp only [hlen, npZeros_nat, bindE_ok, List.isEmpty_cons, Bool.false_eq_true, if_false]
    have h := forRange_forPairs_run (a :: t) (by simp)
      (fun dest (s : MinIdx.St) => s.p0 = ints (a :: t) ∧ s.p1 = ints indices ∧ s.p2 = ints values ∧ s.p3 = dest ∧ s.brk3 = false)
      (fun k s => apply_spans_index_of_min_indexed.body_L1 { s with v0 := k }) (spanIndexOfMinIndexed .repaired indices values)
      (fun k cur next dest s hc hn hR hk => MinIdx.step (a :: t) indices values hmono k cur next dest s hc hn hR hk)
      { p0 := ints (a :: t), p1 := ints indices, p2 := ints values, p3 := List.replicate t.length 0, v0 := 0, v1 := 0, v2 := 0,
        v3 := 0, v4 := 0, v5 := 0, v6 := 0, v7 := 0, v8 := 0, v9 := 0, v10 := 0, v11 := 0, v12 := false, v13 := 0, brk3 := false }
      (List.replicate t.length 0) (by simp) ⟨rfl, rfl, rfl, rfl, rfl⟩
    have hl : (((a :: t).length : Nat) : Int) - 1 = ((t.length : Nat) : Int) := by simp
    rw [hl] at h
    cases hp : forPairs (spanIndexOfMinIndexed .repaired indices values) (a :: t) with
    | error e =>
      rw [hp] at h
      obtain ⟨e', hrun, ht⟩ := h
      simp only [hrun, bindE_error, Sim, ht]
    | ok vs =>
      rw [hp] at h
      obtain ⟨s', hrun, _, _, _, h3, _⟩ := h
      simp only [hrun, bindE_ok, Sim, h3]

end Exetera.GenK
