/-!
  C10 — path conditions of the array subscripts of the span kernels that `Model/Spans.lean` models (owning property C08), frozen from the source the model
  was written against. `Props/C10/Spans.lean` (`access_paths_covered_spans`) proves that the table regenerated from the CURRENT
  source (`Gen/KernelPaths.lean`) is this one: a test that dominates a subscript cannot be dropped, weakened or moved in the
  source without breaking the build.

  Each entry is (site, path condition): the tests passed on the way to that occurrence of the subscript, outermost first —
  `for …` / `while …` = an enclosing loop guard (the same strings as in `KernelSitesSpans`), a bare test = the `if` / `elif`
  branch taken or an `and` operand to the left of the subscript, `not (…)` = an `else` branch, the code after an early exit
  `if …: break | continue | return | raise`, or an `or` operand to the left. A condition is the text of a test that held
  when it was passed (a syntactic path, not an invariant). A site reached on several paths has one entry per path.
  Regenerate with `python3 tools/translate_kernels.py --paths /repo <kernel> …`.

  Which conjunct of the path condition the model's checked accessor relies on (accessor names as in `KernelSitesSpans`):
  * `_get_spans_for_2_fields_by_spans`: `span1[j]` (first read of an iteration) relies on `if j < len(span1)` — the model's
    case split `mergeLoop (x :: xs) []` (test false: only `span0[i]` is appended) versus `y :: rest` (test true); the further
    reads of `span1[j]` inside `while span1[j] < span0[i]` are NOT bounded by any test (entry `while span1[j] < span0[i]`
    only): the `[]` case of `mergeAdvance` is the model's `.oob "span1[j]"`, excluded by the validity predicate (both
    span arrays end with the row count). `span1[j:]` is behind the second `if j < len(span1)`.
  * `_get_spans_for_2_fields_njit` / `_get_spans_for_multi_fields_njit`: `spans[count]`, `spans[count + 1]` = the capacity
    tests `count + 1 < cap` of `scan2` / `scanMulti`: no test of the kernel bounds `count` (in range because the caller
    allocates `len(ndarray0) + 1` slots: C08); the early return `if len(ndarray0) == 0` (`length == 0`) — entries
    `not (len(ndarray0) == 0)` — is mirrored; `ndarray1[i]`, `ndarray1[i - 1]` sit to the right of `or` (entry
    `not (ndarray0[i] != ndarray0[i - 1])`): read only when the first field does not already differ, as in `scan2`.
  * `_get_spans_for_index_string_field`: the three `indices[…]` reads rely on `for i in range(1, len(indices) - 1)` after the
    early return `if len(indices) < 2`.
  * `apply_spans_*`: `spans[i]`, `spans[i + 1]`, `dest_array[i]` (`filter_array[i]`) rely on `for i in range(len(spans) - 1)`
    (`forPairs` / `filterLoop`); `src_array[cur]` / `src_array[cur:next]` / `src_array[idx]` are reached on
    `next - cur == 1` or its negation, `src_array[idx]` under `for idx in range(cur + 1, next)` — the span entries are the
    only bound on them (well-formed spans: the owner's hypothesis); the `_filter` forms reach the source only on
    `not (next - cur == 0)` (an empty span writes `filter_array[i] = False` and reads nothing), mirrored in `filterLoop`.
  * `apply_spans_index_of_min_indexed` / `…_max_indexed`: `src_values[curstart + k]`, `src_values[minstart + k]` rely on
    `for k in range(shortlen)` (`cmpLoop`), `src_indices[j]`, `src_indices[j + 1]` on `for j in range(cur + 1, next)`.
-/
namespace Exetera.KernelPaths

/-- the span kernels (C08): path condition of every subscript occurrence -/
def spansPaths : List (String × List (String × List String)) := [
  ("_get_spans_for_2_fields_by_spans", [
    ("R span0[i]", ["for i in range(len(span0))"]),
    ("R span0[i]", ["for i in range(len(span0))", "j < len(span1)"]),
    ("R span1[j:]", ["j < len(span1)"]),
    ("R span1[j]", ["for i in range(len(span0))", "j < len(span1)"]),
    ("R span1[j]", ["for i in range(len(span0))", "j < len(span1)", "while span1[j] < span0[i]"])]),
  ("_get_spans_for_2_fields_njit", [
    ("R ndarray0[i - 1]", ["not (len(ndarray0) == 0)", "for i in np.arange(1, len(ndarray0))"]),
    ("R ndarray0[i]", ["not (len(ndarray0) == 0)", "for i in np.arange(1, len(ndarray0))"]),
    ("R ndarray1[i - 1]", ["not (len(ndarray0) == 0)", "for i in np.arange(1, len(ndarray0))", "not (ndarray0[i] != ndarray0[i - 1])"]),
    ("R ndarray1[i]", ["not (len(ndarray0) == 0)", "for i in np.arange(1, len(ndarray0))", "not (ndarray0[i] != ndarray0[i - 1])"]),
    ("R spans[:1]", ["len(ndarray0) == 0"]),
    ("R spans[:count + 2]", ["not (len(ndarray0) == 0)"]),
    ("W spans[0]", []),
    ("W spans[count + 1]", ["not (len(ndarray0) == 0)"]),
    ("W spans[count]", ["not (len(ndarray0) == 0)", "for i in np.arange(1, len(ndarray0))", "ndarray0[i] != ndarray0[i - 1] or ndarray1[i] != ndarray1[i - 1]"])]),
  ("_get_spans_for_multi_fields_njit", [
    ("R f_d[i - 1]", ["not (length == 0)", "for i in np.arange(1, length)", "for f_d in fields_data"]),
    ("R f_d[i]", ["not (length == 0)", "for i in np.arange(1, length)", "for f_d in fields_data"]),
    ("R fields_data[0]", []),
    ("R spans[:1]", ["length == 0"]),
    ("R spans[:count + 2]", ["not (length == 0)"]),
    ("W spans[0]", []),
    ("W spans[count + 1]", ["not (length == 0)"]),
    ("W spans[count]", ["not (length == 0)", "for i in np.arange(1, length)", "not_equal"])]),
  ("_get_spans_for_index_string_field", [
    ("R indices[i + 1]", ["not (len(indices) < 2)", "for i in range(1, len(indices) - 1)"]),
    ("R indices[i - 1]", ["not (len(indices) < 2)", "for i in range(1, len(indices) - 1)"]),
    ("R indices[i]", ["not (len(indices) < 2)", "for i in range(1, len(indices) - 1)"]),
    ("R values[current:next]", ["not (len(indices) < 2)", "for i in range(1, len(indices) - 1)", "not (next - current != current - last)"]),
    ("R values[last:current]", ["not (len(indices) < 2)", "for i in range(1, len(indices) - 1)", "not (next - current != current - last)"])]),
  ("apply_spans_index_of_min", [
    ("R spans[i + 1]", ["for i in range(len(spans) - 1)"]),
    ("R spans[i]", ["for i in range(len(spans) - 1)"]),
    ("R src_array[cur:next]", ["for i in range(len(spans) - 1)", "not (next - cur == 1)"]),
    ("W dest_array[i]", ["for i in range(len(spans) - 1)", "next - cur == 1"]),
    ("W dest_array[i]", ["for i in range(len(spans) - 1)", "not (next - cur == 1)"])]),
  ("apply_spans_index_of_min_indexed", [
    ("R spans[i + 1]", ["for i in range(len(spans) - 1)"]),
    ("R spans[i]", ["for i in range(len(spans) - 1)"]),
    ("R src_indices[cur + 1]", ["for i in range(len(spans) - 1)", "not (next - cur == 1)"]),
    ("R src_indices[cur]", ["for i in range(len(spans) - 1)", "not (next - cur == 1)"]),
    ("R src_indices[j + 1]", ["for i in range(len(spans) - 1)", "not (next - cur == 1)", "for j in range(cur + 1, next)"]),
    ("R src_indices[j]", ["for i in range(len(spans) - 1)", "not (next - cur == 1)", "for j in range(cur + 1, next)"]),
    ("R src_values[curstart + k]", ["for i in range(len(spans) - 1)", "not (next - cur == 1)", "for j in range(cur + 1, next)", "for k in range(shortlen)"]),
    ("R src_values[curstart + k]", ["for i in range(len(spans) - 1)", "not (next - cur == 1)", "for j in range(cur + 1, next)", "for k in range(shortlen)", "not (src_values[curstart + k] < src_values[minstart + k])"]),
    ("R src_values[minstart + k]", ["for i in range(len(spans) - 1)", "not (next - cur == 1)", "for j in range(cur + 1, next)", "for k in range(shortlen)"]),
    ("R src_values[minstart + k]", ["for i in range(len(spans) - 1)", "not (next - cur == 1)", "for j in range(cur + 1, next)", "for k in range(shortlen)", "not (src_values[curstart + k] < src_values[minstart + k])"]),
    ("W dest_array[i]", ["for i in range(len(spans) - 1)", "next - cur == 1"]),
    ("W dest_array[i]", ["for i in range(len(spans) - 1)", "not (next - cur == 1)"])]),
  ("apply_spans_index_of_max_indexed", [
    ("R spans[i + 1]", ["for i in range(len(spans) - 1)"]),
    ("R spans[i]", ["for i in range(len(spans) - 1)"]),
    ("R src_indices[cur + 1]", ["for i in range(len(spans) - 1)", "not (next - cur == 1)"]),
    ("R src_indices[cur]", ["for i in range(len(spans) - 1)", "not (next - cur == 1)"]),
    ("R src_indices[j + 1]", ["for i in range(len(spans) - 1)", "not (next - cur == 1)", "for j in range(cur + 1, next)"]),
    ("R src_indices[j]", ["for i in range(len(spans) - 1)", "not (next - cur == 1)", "for j in range(cur + 1, next)"]),
    ("R src_values[curstart + k]", ["for i in range(len(spans) - 1)", "not (next - cur == 1)", "for j in range(cur + 1, next)", "for k in range(shortlen)"]),
    ("R src_values[curstart + k]", ["for i in range(len(spans) - 1)", "not (next - cur == 1)", "for j in range(cur + 1, next)", "for k in range(shortlen)", "not (src_values[curstart + k] > src_values[minstart + k])"]),
    ("R src_values[minstart + k]", ["for i in range(len(spans) - 1)", "not (next - cur == 1)", "for j in range(cur + 1, next)", "for k in range(shortlen)"]),
    ("R src_values[minstart + k]", ["for i in range(len(spans) - 1)", "not (next - cur == 1)", "for j in range(cur + 1, next)", "for k in range(shortlen)", "not (src_values[curstart + k] > src_values[minstart + k])"]),
    ("W dest_array[i]", ["for i in range(len(spans) - 1)", "next - cur == 1"]),
    ("W dest_array[i]", ["for i in range(len(spans) - 1)", "not (next - cur == 1)"])]),
  ("apply_spans_index_of_max", [
    ("R spans[i + 1]", ["for i in range(len(spans) - 1)"]),
    ("R spans[i]", ["for i in range(len(spans) - 1)"]),
    ("R src_array[cur:next]", ["for i in range(len(spans) - 1)", "not (next - cur == 1)"]),
    ("W dest_array[i]", ["for i in range(len(spans) - 1)", "next - cur == 1"]),
    ("W dest_array[i]", ["for i in range(len(spans) - 1)", "not (next - cur == 1)"])]),
  ("apply_spans_index_of_first", [
    ("R spans[:-1]", []),
    ("W dest_array[:]", [])]),
  ("apply_spans_index_of_last", [
    ("R spans[1:]", []),
    ("W dest_array[:]", [])]),
  ("apply_spans_index_of_min_filter", [
    ("R spans[i + 1]", ["for i in range(len(spans) - 1)"]),
    ("R spans[i]", ["for i in range(len(spans) - 1)"]),
    ("R src_array[cur:next]", ["for i in range(len(spans) - 1)", "not (next - cur == 0)", "not (next - cur == 1)"]),
    ("W dest_array[i]", ["for i in range(len(spans) - 1)", "not (next - cur == 0)", "next - cur == 1"]),
    ("W dest_array[i]", ["for i in range(len(spans) - 1)", "not (next - cur == 0)", "not (next - cur == 1)"]),
    ("W filter_array[i]", ["for i in range(len(spans) - 1)", "next - cur == 0"]),
    ("W filter_array[i]", ["for i in range(len(spans) - 1)", "not (next - cur == 0)", "next - cur == 1"]),
    ("W filter_array[i]", ["for i in range(len(spans) - 1)", "not (next - cur == 0)", "not (next - cur == 1)"])]),
  ("apply_spans_index_of_max_filter", [
    ("R spans[i + 1]", ["for i in range(len(spans) - 1)"]),
    ("R spans[i]", ["for i in range(len(spans) - 1)"]),
    ("R src_array[cur:next]", ["for i in range(len(spans) - 1)", "not (next - cur == 0)", "not (next - cur == 1)"]),
    ("W dest_array[i]", ["for i in range(len(spans) - 1)", "not (next - cur == 0)", "next - cur == 1"]),
    ("W dest_array[i]", ["for i in range(len(spans) - 1)", "not (next - cur == 0)", "not (next - cur == 1)"]),
    ("W filter_array[i]", ["for i in range(len(spans) - 1)", "next - cur == 0"]),
    ("W filter_array[i]", ["for i in range(len(spans) - 1)", "not (next - cur == 0)", "next - cur == 1"]),
    ("W filter_array[i]", ["for i in range(len(spans) - 1)", "not (next - cur == 0)", "not (next - cur == 1)"])]),
  ("apply_spans_index_of_first_filter", [
    ("R spans[i + 1]", ["for i in range(len(spans) - 1)"]),
    ("R spans[i]", ["for i in range(len(spans) - 1)"]),
    ("R spans[i]", ["for i in range(len(spans) - 1)", "not (next - cur == 0)"]),
    ("W dest_array[i]", ["for i in range(len(spans) - 1)", "not (next - cur == 0)"]),
    ("W filter_array[i]", ["for i in range(len(spans) - 1)", "next - cur == 0"]),
    ("W filter_array[i]", ["for i in range(len(spans) - 1)", "not (next - cur == 0)"])]),
  ("apply_spans_index_of_last_filter", [
    ("R spans[i + 1]", ["for i in range(len(spans) - 1)"]),
    ("R spans[i + 1]", ["for i in range(len(spans) - 1)", "not (next - cur == 0)"]),
    ("R spans[i]", ["for i in range(len(spans) - 1)"]),
    ("W dest_array[i]", ["for i in range(len(spans) - 1)", "not (next - cur == 0)"]),
    ("W filter_array[i]", ["for i in range(len(spans) - 1)", "next - cur == 0"]),
    ("W filter_array[i]", ["for i in range(len(spans) - 1)", "not (next - cur == 0)"])]),
  ("apply_spans_count", [
    ("R spans[i + 1]", ["for i in range(len(spans) - 1)"]),
    ("R spans[i]", ["for i in range(len(spans) - 1)"]),
    ("W dest_array[i]", ["for i in range(len(spans) - 1)"])]),
  ("apply_spans_first", [
    ("R spans[:-1]", []),
    ("R src_array[spans[:-1]]", []),
    ("W dest_array[:]", [])]),
  ("apply_spans_last", [
    ("R spans[1:]", []),
    ("R src_array[spans]", []),
    ("W dest_array[:]", [])]),
  ("apply_spans_max", [
    ("R spans[i + 1]", ["for i in range(len(spans) - 1)"]),
    ("R spans[i]", ["for i in range(len(spans) - 1)"]),
    ("R src_array[cur]", ["for i in range(len(spans) - 1)", "next - cur == 1"]),
    ("R src_array[cur]", ["for i in range(len(spans) - 1)", "not (next - cur == 1)"]),
    ("R src_array[idx]", ["for i in range(len(spans) - 1)", "not (next - cur == 1)", "for idx in range(cur + 1, next)"]),
    ("R src_array[idx]", ["for i in range(len(spans) - 1)", "not (next - cur == 1)", "for idx in range(cur + 1, next)", "src_array[idx] > max_val"]),
    ("W dest_array[i]", ["for i in range(len(spans) - 1)", "next - cur == 1"]),
    ("W dest_array[i]", ["for i in range(len(spans) - 1)", "not (next - cur == 1)"])]),
  ("apply_spans_min", [
    ("R spans[i + 1]", ["for i in range(len(spans) - 1)"]),
    ("R spans[i]", ["for i in range(len(spans) - 1)"]),
    ("R src_array[cur]", ["for i in range(len(spans) - 1)", "next - cur == 1"]),
    ("R src_array[cur]", ["for i in range(len(spans) - 1)", "not (next - cur == 1)"]),
    ("R src_array[idx]", ["for i in range(len(spans) - 1)", "not (next - cur == 1)", "for idx in range(cur + 1, next)"]),
    ("R src_array[idx]", ["for i in range(len(spans) - 1)", "not (next - cur == 1)", "for idx in range(cur + 1, next)", "src_array[idx] < min_val"]),
    ("W dest_array[i]", ["for i in range(len(spans) - 1)", "next - cur == 1"]),
    ("W dest_array[i]", ["for i in range(len(spans) - 1)", "not (next - cur == 1)"])])
]

end Exetera.KernelPaths
