import Lean.Data.Json
import Exetera.Model.Basic
/-! JSON line-protocol helpers shared by the per-property driver modules. -/
open Lean
namespace Driver

abbrev Handler := String → Json → Option (Except String Json)

def get? (α) [FromJson α] (j : Json) (k : String) : Except String α := j.getObjValAs? α k

def errJson (e : Exetera.Err) : Json := Json.mkObj [("err", Json.str e.tag)]
def okJson (j : Json) : Json := Json.mkObj [("ok", j)]

def outE {α} (f : α → Json) : Except Exetera.Err α → Json
  | .ok a => okJson (f a)
  | .error e => errJson e

def ints (xs : List Int) : Json := Json.arr (xs.map (fun (x : Int) => Json.num (JsonNumber.fromInt x))).toArray
def nats (xs : List Nat) : Json := Json.arr (xs.map (fun (x : Nat) => Json.num (JsonNumber.fromNat x))).toArray

end Driver
