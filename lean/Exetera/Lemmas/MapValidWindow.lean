import Exetera.Lemmas.MapValidBasic
/-! Helper lemmas for C04, part 9: the index span of a sub-chunk is smaller than the chunk size (the purpose of the
    splitter, and what D9 broke for the sentinels `DataFrame.merge` passes). Core Lean only. -/
namespace Exetera.MapValid

open Exetera Exetera.Spec

theorem scanWhile_all (p : Int → Bool) : ∀ (l : List Int) (sm j : Nat) (x : Int),
    sm ≤ j → j < scanWhile p l sm → l[j - sm]? = some x → p x = true
  | [], sm, j, x, h1, h2, _ => by simp [scanWhile] at h2; omega
  | y :: ys, sm, j, x, h1, h2, h3 => by
    simp only [scanWhile] at h2
    by_cases hp : p y = true
    · simp only [hp, if_true] at h2
      by_cases hj : j = sm
      · subst hj; simp at h3; subst h3; exact hp
      · have : j - sm = (j - (sm + 1)) + 1 := by omega
        rw [this] at h3
        simp only [List.getElem?_cons_succ] at h3
        exact scanWhile_all p ys (sm + 1) j x (by omega) h2 h3
    · simp only [hp] at h2
      simp at h2; omega

theorem scanWhile_stop (p : Int → Bool) : ∀ (l : List Int) (sm : Nat) (x : Int),
    l[scanWhile p l sm - sm]? = some x → p x = false
  | [], sm, x, h => by simp [scanWhile] at h
  | y :: ys, sm, x, h => by
    simp only [scanWhile] at h
    by_cases hp : p y = true
    · simp only [hp, if_true] at h
      have hge := scanWhile_ge p ys (sm + 1)
      have : scanWhile p ys (sm + 1) - sm = (scanWhile p ys (sm + 1) - (sm + 1)) + 1 := by omega
      rw [this] at h
      simp only [List.getElem?_cons_succ] at h
      exact scanWhile_stop p ys (sm + 1) x h
    · simp only [hp] at h
      simp at h; subst h
      simpa using hp

theorem drop_getElem?_sub {α} (m : List α) (sm j : Nat) (h : sm ≤ j) : (m.drop sm)[j - sm]? = m[j]? := by
  rw [List.getElem?_drop]; congr 1; omega

/-- inside one sub-chunk `[sm, next_map_subchunk(sm))` any two valid entries differ by less than `chunksize` -/
theorem nextMapSubchunk_span (m : List Int) (sm : Nat) (inv : Int) (cs : Nat) (hm : ValidMonotone m inv)
    (p q : Nat) (a b : Int) (hp1 : sm ≤ p) (hp2 : p < nextMapSubchunk m sm inv cs)
    (hq1 : sm ≤ q) (hq2 : q < nextMapSubchunk m sm inv cs)
    (hpa : m[p]? = some a) (hqb : m[q]? = some b) (ha : a ≠ inv) (hb : b ≠ inv) : b - a < cs := by
  have heq : nextMapSubchunk m sm inv cs =
      match m[scanWhile (fun x => x == inv) (m.drop sm) sm]? with
      | none => scanWhile (fun x => x == inv) (m.drop sm) sm
      | some start => scanWhile (fun x => decide (x - start < (cs : Int)))
          (m.drop (scanWhile (fun x => x == inv) (m.drop sm) sm)) (scanWhile (fun x => x == inv) (m.drop sm) sm) := rfl
  rw [heq] at hp2 hq2
  have hskip : ∀ (j : Nat) (x : Int), sm ≤ j → j < scanWhile (fun x => x == inv) (m.drop sm) sm → m[j]? = some x → x = inv := by
    intro j x h1 h2 h3
    have := scanWhile_all (fun x => x == inv) (m.drop sm) sm j x h1 h2 (by rw [drop_getElem?_sub m sm j h1]; exact h3)
    simpa using this
  have hstop : ∀ (x : Int), m[scanWhile (fun x => x == inv) (m.drop sm) sm]? = some x → x ≠ inv := by
    intro x hx
    have hge := scanWhile_ge (fun x => x == inv) (m.drop sm) sm
    have := scanWhile_stop (fun x => x == inv) (m.drop sm) sm x (by rw [drop_getElem?_sub m sm _ hge]; exact hx)
    simpa using this
  generalize scanWhile (fun x => x == inv) (m.drop sm) sm = sm1 at hp2 hq2 hskip hstop
  have hp3 : sm1 ≤ p := by
    by_cases h : p < sm1
    · exact absurd (hskip p a hp1 h hpa) ha
    · omega
  have hq3 : sm1 ≤ q := by
    by_cases h : q < sm1
    · exact absurd (hskip q b hq1 h hqb) hb
    · omega
  split at hp2
  · omega
  · rename_i start hstart
    have hsv := hstop start hstart
    have hall : ∀ (j : Nat) (x : Int), sm1 ≤ j →
        j < scanWhile (fun x => decide (x - start < (cs : Int))) (m.drop sm1) sm1 → m[j]? = some x → x - start < cs := by
      intro j x h1 h2 h3
      have := scanWhile_all (fun x => decide (x - start < (cs : Int))) (m.drop sm1) sm1 j x h1 h2
        (by rw [drop_getElem?_sub m sm1 j h1]; exact h3)
      simpa using this
    rw [hstart] at hq2
    simp only [] at hq2
    have h1 := hall q b hq3 hq2 hqb
    have h2 := hm sm1 p start a hp3 hstart hpa hsv ha
    omega

structure SCInv (m : List Int) (inv : Int) (cs : Nat) (s : SC) : Prop where
  tiles : Tiles s.acc 0 s.sm
  le : s.sm ≤ m.length
  made : ∀ t ∈ s.acc, t.2 = nextMapSubchunk m t.1 inv cs

/-- every piece returned by `get_map_subchunks_based_on_index_lengths` is `(sm, next_map_subchunk(sm))` -/
theorem subchunks_made (m : List Int) (inv : Int) (cs : Nat) (hcs : 1 ≤ cs) :
    ∃ subs, subchunks m inv cs = .ok subs ∧ Tiles subs 0 m.length ∧
      ∀ t ∈ subs, t.2 = nextMapSubchunk m t.1 inv cs := by
  have h := whileE_rule (fun s : SC => decide (s.sm < m.length)) (subchunksBody m inv cs)
    (SCInv m inv cs) (fun s => m.length - s.sm)
    (by
      intro s hI hg
      have hg' : s.sm < m.length := by simpa using hg
      have hb := nextMapSubchunk_bounds m s.sm inv cs hg' hcs
      refine ⟨_, rfl, ⟨Tiles.append_one hI.tiles hb.1, hb.2, ?_⟩, ?_⟩
      · intro t ht
        simp only [List.mem_append, List.mem_singleton] at ht
        rcases ht with ht | ht
        · exact hI.made t ht
        · subst ht; rfl
      · simp only []
        omega)
    m.length ⟨0, []⟩ ⟨by simp [Tiles], by simp, by simp⟩ (by simp)
  obtain ⟨s', hw, hI, hg⟩ := h
  have hge : m.length ≤ s'.sm := by simpa using hg
  have : s'.sm = m.length := by have := hI.le; omega
  refine ⟨s'.acc, ?_, ?_, hI.made⟩
  · simp only [subchunks, hw]
  · rw [← this]; exact hI.tiles

end Exetera.MapValid
