import Exetera.Lemmas.ConcatBatch
/-! C16, sizing of the value buffer (repair NC16b): `2·bytes + 3·rows` bounds the output of a span, so after
    `valueCap .repaired` every span output fits in half the buffer. -/
set_option linter.unusedSectionVars false
set_option linter.unusedSimpArgs false
namespace Exetera.Concat

open Exetera Exetera.Spec.CsvLine

variable {α : Type} [DecidableEq α]

theorem escape_length_le (delim : α) (x : List α) : (escape delim x).length ≤ 2 * x.length := by
  induction x with
  | nil => simp [escape]
  | cons c x ih => by_cases h : c = delim <;> simp [escape, h] <;> omega

theorem field_length_le (sep delim : α) (x : List α) : (field sep delim x).length ≤ 2 * x.length + 2 := by
  unfold field
  have := escape_length_le delim x
  split <;> simp <;> omega

/-- `2·|y| + 3` per entry -/
def cost (ys : List (List α)) : Nat := (ys.map (fun y => 2 * y.length + 3)).sum

theorem sepTail_length_le (sep delim : α) (ys : List (List α)) : (sepTail sep delim ys).length ≤ cost ys := by
  induction ys with
  | nil => simp [sepTail, cost]
  | cons y ys ih =>
    have := field_length_le sep delim y
    rw [sepTail_cons]
    simp only [cost, List.map_cons, List.sum_cons, List.length_cons, List.length_append] at ih ⊢
    omega

theorem joinCsv_length_le (sep delim : α) (ys : List (List α)) : (joinCsv sep delim ys).length ≤ cost ys := by
  cases ys with
  | nil => simp [joinCsv, joinWith, cost]
  | cons y ys =>
    have h1 := field_length_le sep delim y
    have h2 := sepTail_length_le sep delim ys
    rw [joinCsv_cons]
    simp only [cost, List.map_cons, List.sum_cons, List.length_append] at h2 ⊢
    omega

theorem cost_nonEmpty_le (zs : List (List α)) : cost (nonEmpty zs) ≤ 2 * zs.flatten.length + 3 * zs.length := by
  induction zs with
  | nil => simp [cost, nonEmpty]
  | cons z zs ih =>
    by_cases hz : z = []
    · subst hz
      rw [nonEmpty_cons_nil]
      simp only [List.flatten_cons, List.nil_append, List.length_cons]
      omega
    · rw [nonEmpty_cons_of_ne z zs hz]
      simp only [cost, List.map_cons, List.sum_cons, List.flatten_cons, List.length_append, List.length_cons] at ih ⊢
      omega

/-- the output of the span `[a, b)` has at most `2·bytes + 3·rows` bytes -/
theorem spanOut_length_le (sep delim : α) (entries : List (List α)) (a b : Nat) (hab : a ≤ b) :
    (spanOut sep delim entries a b).length + 2 * ((entries.take a).flatten).length + 3 * a
      ≤ 2 * ((entries.take b).flatten).length + 3 * b := by
  have h1 := joinCsv_length_le sep delim (nonEmpty (slice entries a b))
  have h2 := cost_nonEmpty_le (slice entries a b)
  have h3 := take_flatten_length_slice entries a b hab
  have h4 : (slice entries a b).length ≤ b - a := by simp [slice_length]; omega
  unfold spanOut
  omega

theorem spanOut_inverted (sep delim : α) (entries : List (List α)) (a b : Nat) (hab : b ≤ a) :
    spanOut sep delim entries a b = [] := by
  simp [spanOut, slice_eq_nil_of_le entries a b hab, nonEmpty, joinCsv, joinWith]

/-- the bound computed from the offsets -/
theorem spanBound_spec (entries : List (List α)) (p : Nat × Nat) (h1 : p.1 ≤ entries.length) (h2 : p.2 ≤ entries.length) :
    spanBound (offsets entries) p
      = .ok (2 * (((entries.take p.2).flatten.length : Nat) - ((entries.take p.1).flatten.length : Nat) : Int)
              + 3 * ((p.2 : Int) - (p.1 : Int))) := by
  simp only [spanBound, getE_offsets entries p.2 _ h2, getE_offsets entries p.1 _ h1]

theorem spanOut_le_spanBound (sep delim : α) (entries : List (List α)) (p : Nat × Nat) (w : Int)
    (h1 : p.1 ≤ entries.length) (h2 : p.2 ≤ entries.length) (hw : spanBound (offsets entries) p = .ok w) :
    ((spanOut sep delim entries p.1 p.2).length : Int) ≤ max 0 w := by
  rw [spanBound_spec entries p h1 h2] at hw
  have hw' := Except.ok.inj hw
  by_cases hab : p.1 ≤ p.2
  · have := spanOut_length_le sep delim entries p.1 p.2 hab
    omega
  · rw [spanOut_inverted sep delim entries p.1 p.2 (by omega)]
    simp
    omega

/-- `np.max`: the result dominates the start value and the bound of every span -/
theorem longestBound_spec (sep delim : α) (entries : List (List α)) :
    ∀ (ps : List (Nat × Nat)) (m : Int), (∀ p ∈ ps, p.1 ≤ entries.length ∧ p.2 ≤ entries.length) →
      ∃ m', longestBound (offsets entries) ps m = .ok m' ∧ m ≤ m' ∧
        ∀ p ∈ ps, ((spanOut sep delim entries p.1 p.2).length : Int) ≤ max 0 m' := by
  intro ps
  induction ps with
  | nil => intro m _; exact ⟨m, by simp [longestBound], Int.le_refl _, by simp⟩
  | cons p ps ih =>
    intro m hb
    have hp := hb p (by simp)
    have hw := spanBound_spec entries p hp.1 hp.2
    generalize hwd : (2 * (((entries.take p.2).flatten.length : Nat) - ((entries.take p.1).flatten.length : Nat) : Int)
              + 3 * ((p.2 : Int) - (p.1 : Int))) = w at hw
    obtain ⟨m', hrun, hle, hall⟩ := ih (if w > m then w else m) (fun q hq => hb q (by simp [hq]))
    refine ⟨m', by simp only [longestBound, hw, hrun], ?_, ?_⟩
    · split at hle <;> omega
    · intro q hq
      rcases List.mem_cons.mp hq with rfl | hq
      · have := spanOut_le_spanBound sep delim entries q w hp.1 hp.2 hw
        split at hle <;> omega
      · exact hall q hq

theorem mem_spanPairs_bound (spans : List Nat) (n : Nat) (hb : ∀ p ∈ spans, p ≤ n) :
    ∀ p ∈ spans.zip spans.tail, p.1 ≤ n ∧ p.2 ≤ n := by
  intro p hp
  have := List.of_mem_zip hp
  exact ⟨hb _ this.1, hb _ (List.mem_of_mem_tail this.2)⟩

/-- the repaired sizing: no error, at least the requested size, and every span output fits in half of it -/
theorem valueCap_spec (sep delim : α) (entries : List (List α)) (spans : List Nat) (destChunk mult : Nat)
    (hb : ∀ p ∈ spans, p ≤ entries.length) :
    ∃ cap, valueCap .repaired spans (offsets entries) destChunk mult = .ok cap ∧ destChunk * mult ≤ cap ∧
      ∀ o ∈ concatSpec sep delim entries spans, o.length ≤ cap / 2 := by
  have hpb := mem_spanPairs_bound spans entries.length hb
  unfold valueCap concatSpec spanPairs
  cases hz : spans.zip spans.tail with
  | nil => exact ⟨destChunk * mult, rfl, Nat.le_refl _, by simp⟩
  | cons p rest =>
    rw [hz] at hpb
    have hp := hpb p (by simp)
    have hw := spanBound_spec entries p hp.1 hp.2
    generalize hwd : (2 * (((entries.take p.2).flatten.length : Nat) - ((entries.take p.1).flatten.length : Nat) : Int)
              + 3 * ((p.2 : Int) - (p.1 : Int))) = w at hw
    obtain ⟨m', hrun, hle, hall⟩ := longestBound_spec sep delim entries rest w (fun q hq => hpb q (by simp [hq]))
    have hfirst := spanOut_le_spanBound sep delim entries p w hp.1 hp.2 hw
    have key : ∀ q ∈ p :: rest, ((spanOut sep delim entries q.1 q.2).length : Int) ≤ max 0 m' := by
      intro q hq
      rcases List.mem_cons.mp hq with rfl | hq
      · omega
      · exact hall q hq
    simp only [hw, hrun]
    by_cases hbig : 2 * m' > ((destChunk * mult : Nat) : Int)
    · refine ⟨(2 * m').toNat, by rw [if_pos hbig], by omega, ?_⟩
      intro o ho
      obtain ⟨q, hq, rfl⟩ := List.mem_map.mp ho
      have := key q hq
      omega
    · refine ⟨destChunk * mult, by rw [if_neg hbig], Nat.le_refl _, ?_⟩
      intro o ho
      obtain ⟨q, hq, rfl⟩ := List.mem_map.mp ho
      have := key q hq
      omega

end Exetera.Concat
