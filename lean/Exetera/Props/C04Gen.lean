import Exetera.Props.C04
import Exetera.Lemmas.GenKernelsMapValid
import Exetera.Lemmas.GenKernelsMapValidIndexed
import Exetera.Lemmas.GenKernelsSafeMap
import Exetera.Lemmas.GenKernelsSafeMapIndexed
import Exetera.Lemmas.MapValidIndexed
import Exetera.Lemmas.GenKernelsExtents
import Exetera.Lemmas.GenKernelsSubchunk
/-!
  C04 over the TRANSLATED kernels `map_valid` and `ordered_map_valid_partial` (`Gen/Kernels.lean`, regenerated from
  operations.py by tools/translate_njit.py on every run).

  * `gen_*_ok`: transfer — whenever the hand-written model returns `.ok r` and no valid map entry addresses a negative source
    position (a negative subscript is an error branch of the translation; the model, like Python, counts it from the end), the
    translated kernel returns the same `r`, for every fuel ≥ the trip count.
  * the remaining theorems are the statements of Props/C04 (and of the lemma the stream theorems rest on) for the translated
    kernels themselves.
-/
namespace Exetera.Props.C04Gen

open Exetera Exetera.MapValid Exetera.Spec Exetera.GenK Exetera.Gen.Kernels

theorem gen_map_valid_ok (data m : List Int) (result : Option (List Int)) (inv : Int) (r : List Int)
    (hpos : ∀ (i : Nat) (k : Int), m[i]? = some k → k ≠ inv → 0 ≤ k)
    (h : mapValid data m result inv 0 = .ok r) :
    map_valid.run data m result inv = .ok r := map_valid_ok data m result inv r hpos h

/-- the translated `map_valid`, allocating its result: for an in-range map it returns (no subscript out of range or negative)
    the specified column, 0 where the map holds the marker -/
theorem gen_map_valid_eq (data m : List Int) (inv : Int) (hr : InRange data.length m inv) :
    ∃ out, map_valid.run data m none inv = .ok out ∧ mapSpec data inv 0 m = some out := by
  obtain ⟨out, h1, h2⟩ := C04.map_valid_eq data m inv 0 hr
  exact ⟨out, map_valid_ok data m none inv out (fun i k hm hk => (hr i k hm hk).1) h1, h2⟩

/-- … writing into a caller-supplied array of the map's length: marker rows keep what the array held -/
theorem gen_map_valid_rows (data m result : List Int) (inv : Int) (hres : result.length = m.length)
    (hr : InRange data.length m inv) :
    ∃ out, map_valid.run data m (some result) inv = .ok out ∧ out.length = m.length ∧
      ∀ (i : Nat) (k : Int), m[i]? = some k → out[i]? = if k = inv then result[i]? else data[k.toNat]? := by
  obtain ⟨out, h1, h2, h3⟩ := C04.map_valid_rows data m result inv 0 hres hr
  exact ⟨out, map_valid_ok data m (some result) inv out (fun i k hm hk => (hr i k hm hk).1) h1, h2, h3⟩

example : map_valid.run [10, 20, 30] [2, -1, 0, 2] none (-1) = .ok [30, 0, 10, 30] := rfl
example : InRange 3 [2, -1, 0, 2] (-1) := by
  intro i k h hk
  rcases i with _ | _ | _ | _ | i <;> simp at h <;> omega

theorem gen_ordered_map_valid_partial_ok (values m : List Int) (smStart smEnd : Nat) (dStart : Int) (res : List Int)
    (inv empty : Int) (r : List Int) (fuel : Nat) (hse : smStart ≤ smEnd) (hf : smEnd - smStart ≤ fuel)
    (hpos : ∀ (sm : Nat) (k : Int), smStart ≤ sm → sm < smEnd → m[sm]? = some k → k ≠ inv → 0 ≤ k - dStart)
    (h : orderedMapValidPartial values m smStart smEnd dStart res inv empty = .ok r) :
    ordered_map_valid_partial.run values m smStart smEnd dStart res inv empty fuel = .ok ((smEnd : Int), r) :=
  ordered_map_valid_partial_ok values m smStart smEnd dStart res inv empty r fuel hse hf hpos h

/-- the translated partial kernel, called as `ordered_map_valid_stream` calls it (source window `[f, l]` holding every valid
    entry of the sub-chunk `[s, e)`): it returns `e`, finishes within `e - s` iterations, writes exactly positions `[s, e)` of
    the buffer, each with the specified row -/
theorem gen_ordered_map_valid_partial_spec (src m : List Int) (inv empty : Int) (f l : Int) (s e : Nat) (buf : List Int)
    (fuel : Nat) (hfu : e - s ≤ fuel)
    (hse : s ≤ e) (he : e ≤ m.length) (hb : e ≤ buf.length) (hf : 0 ≤ f) (hl : l < src.length)
    (hwin : ∀ p k, s ≤ p → p < e → m[p]? = some k → k ≠ inv → f ≤ k ∧ k ≤ l) :
    ∃ buf', ordered_map_valid_partial.run (pySlice src f (l + 1)) m s e f buf inv empty fuel = .ok ((e : Int), buf') ∧
      buf'.length = buf.length ∧
      (∀ q, q < s ∨ e ≤ q → buf'[q]? = buf[q]?) ∧
      (∀ p k, s ≤ p → p < e → m[p]? = some k → ∃ v, lookup src inv empty k = some v ∧ buf'[p]? = some v) := by
  obtain ⟨buf', h1, h2, h3, h4⟩ := partial_spec src m inv empty f l s e buf hse he hb hf hl hwin
  refine ⟨buf', ?_, h2, h3, h4⟩
  exact ordered_map_valid_partial_ok _ m s e f buf inv empty buf' fuel hse hfu
    (fun sm k h1' h2' hm hk => by have := (hwin sm k h1' h2' hm hk).1; omega) h1

example : ordered_map_valid_partial.run [20, 30] [2, -1, 1, 2] 0 4 1 [7, 7, 7, 7] (-1) 0 4 = .ok (4, [30, 0, 20, 30]) := rfl

/-! ## ordered_map_valid_indexed_partial (the `while` loop with two `break`s of the streamed indexed-string mapper) -/

/-- transfer by `whileE` simulation: every `.ok` run of the guard / body model `indexedPartial` is a run of the translated kernel on
    buffers that start with the model's written prefixes; it returns the model's five scalars and buffers that start with the
    model's new prefixes. Valid map entries of the window must not lie below `mv_start`, the offsets they read not below
    `indices[i_start]` (the model wraps a negative subscript, the translation rejects it) -/
theorem gen_indexed_partial_ok (map_ : List Int) (smStart : Int) (smEnd : Nat) (indices : List Int) (iStart iMax : Nat)
    (values : List Int) (mvStart : Int) (bufI bufV : List Int) (inv : Int) (sm : Nat) (ri rv : List Int) (accum : Int)
    (r : MapValid.IP Int) (fuel : Nat) (hfuel : smEnd - sm + 1 ≤ fuel)
    (hIt : bufI.take ri.length = ri) (hVt : bufV.take rv.length = rv)
    (hpos : ∀ (q : Nat) (k : Int), sm ≤ q → q < smEnd → map_[q]? = some k → k ≠ inv → 0 ≤ k - mvStart)
    (hvs : ∀ (vo : Int), indices[iStart]? = some vo → ∀ (q : Nat) (k a : Int), sm ≤ q → q < smEnd → map_[q]? = some k → k ≠ inv →
      indices[(k - mvStart).toNat]? = some a → vo ≤ a)
    (h : MapValid.indexedPartial map_ smEnd indices iStart iMax values mvStart bufI.length bufV.length inv sm ri rv accum = .ok r) :
    ∃ bI bV, ordered_map_valid_indexed_partial.run map_ smStart smEnd indices iStart iMax values mvStart bufI bufV inv sm ri.length
        rv.length accum fuel = .ok ((r.sm : Int), (r.ri.length : Int), (r.rv.length : Int), r.accum, r.need, bI, bV) ∧
      bI.length = bufI.length ∧ bI.take r.ri.length = r.ri ∧ bV.length = bufV.length ∧ bV.take r.rv.length = r.rv :=
  ordered_map_valid_indexed_partial_ok map_ smStart smEnd indices iStart iMax values mvStart bufI bufV inv sm ri rv accum r fuel
    hfuel hIt hVt hpos hvs h

/-- the statement of `MapValid.indexedPartial_spec` (the lemma the streamed indexed mapper's theorems rest on) for the TRANSLATED
    kernel: called on freshly flushed buffers (`ri = rv = 0`) for the window `[a, b)` of the offsets, it returns normally — no
    subscript out of range or negative, both loops finish — having consumed the map positions `[sm, r.sm)`; the first `ri` offsets
    and `rv` bytes of the buffers are the running sums and the concatenation of the entries consumed; when it stops early it says why -/
theorem gen_indexed_partial_spec (map_ : List Int) (smStart : Int) (sE : Nat) (ix : List Int) (a b : Nat) (values vals : List Int)
    (mv : Int) (bufI bufV : List Int) (inv : Int) (sm : Nat) (accum : Int) (esL : List (List Int)) (A B : Int) (fuel : Nat)
    (hfuel : sE - sm + 1 ≤ fuel)
    (hix : MapValid.WinOK ix values) (hab : a < b) (hb : b < ix.length)
    (hA : ix[a]? = some A) (hB : ix[b]? = some B) (hvals : vals = slice values A.toNat B.toNat)
    (hsE : sE ≤ map_.length) (hesLen : sE ≤ esL.length) (hsm : sm ≤ sE) (hcapI : sE - sm ≤ bufI.length)
    (hwin : ∀ (p : Nat) (k : Int), sm ≤ p → p < sE → map_[p]? = some k → k ≠ inv →
      (a : Int) ≤ k - mv ∧ k - mv + 1 < ix.length)
    (hes : ∀ (p : Nat) (k : Int), sm ≤ p → p < sE → map_[p]? = some k →
      esL[p]? = some (if k = inv then [] else MapValid.wentry ix values (k - mv).toNat)) :
    ∃ (r : MapValid.IP Int) (bI bV : List Int),
      ordered_map_valid_indexed_partial.run map_ smStart sE ix a b vals mv bufI bufV inv sm 0 0 accum fuel
        = .ok ((r.sm : Int), (r.ri.length : Int), (r.rv.length : Int), r.accum, r.need, bI, bV) ∧
      bI.take r.ri.length = r.ri ∧ bV.take r.rv.length = r.rv ∧
      sm ≤ r.sm ∧ r.sm ≤ sE ∧ MapValid.PartialPost esL sm accum bufV.length r ∧
      (r.sm < sE → MapValid.StopReason map_ ix values mv b bufV.length inv r) ∧ (r.sm = sE → r.need = false) := by
  obtain ⟨r, hr, h1, h2, h3, h4, h5⟩ := MapValid.indexedPartial_spec map_ sE ix a b values vals mv bufI.length bufV.length inv sm
    accum esL A B hix hab hb hA hB hvals hsE hesLen hsm hcapI hwin hes
  obtain ⟨bI, bV, hrun, _, hIt, _, hVt⟩ := ordered_map_valid_indexed_partial_ok map_ smStart sE ix a b vals mv bufI bufV inv sm
    [] [] accum r fuel hfuel (by simp) (by simp)
    (fun q k hq1 hq2 hm hk => by have := (hwin q k hq1 hq2 hm hk).1; omega)
    (fun vo hvo q k x hq1 hq2 hm hk hx => by
      have hw := (hwin q k hq1 hq2 hm hk).1
      exact hix.mono a (k - mv).toNat vo x (by omega) hvo hx)
    hr
  exact ⟨r, bI, bV, hrun, hIt, hVt, h1, h2, h3, h4, h5⟩

example : ordered_map_valid_indexed_partial.run [0, -1, 1] 0 3 [0, 2, 3] 0 2 [7, 8, 9] 0 [0, 0, 0] [0, 0, 0, 0] (-1) 0 0 0 0 4
    = .ok (3, 3, 3, 3, false, [2, 2, 3], [7, 8, 9, 0]) := by rfl

/-! ## safe_map_values (optional scalar parameter `empty_value`, tested inside the loop) -/

theorem gen_safe_map_values_ok (data m : List Int) (filt : List Bool) (e : Option Int) (r : List Int)
    (hpos : ∀ (i : Nat) (k : Int), filt[i]? = some true → m[i]? = some k → 0 ≤ k)
    (h : safeMapValues data m filt e 0 = .ok r) :
    safe_map_values.run data m filt e = .ok r :=
  safe_map_values_ok data m filt e r hpos h

/-- the statement of `C04.safe_map_values_rows` for the translated kernel: with a filter of the map's length whose set rows address
    the source, it returns normally (no subscript out of range or negative), one value per map entry — `data[map[i]]` where the
    filter is set, the empty value (the caller's, or 0) elsewhere -/
theorem gen_safe_map_values_rows (data m : List Int) (filt : List Bool) (e : Option Int) (hlen : filt.length = m.length)
    (hr : ∀ (i : Nat) (k : Int), m[i]? = some k → filt[i]? = some true → 0 ≤ k ∧ k < data.length) :
    ∃ out, safe_map_values.run data m filt e = .ok out ∧ out.length = m.length ∧
      ∀ (i : Nat) (k : Int) (b : Bool), m[i]? = some k → filt[i]? = some b →
        out[i]? = if b then data[k.toNat]? else some (e.getD 0) := by
  obtain ⟨out, h1, h2, h3⟩ := C04.safe_map_values_rows data m filt e 0 hlen hr
  exact ⟨out, safe_map_values_ok data m filt e out (fun i k hf hm => (hr i k hm hf).1) h1, h2, h3⟩

example : safe_map_values.run [10, 20, 30] [2, -1, 0] [true, false, true] none = .ok [30, 0, 10] ∧
    safe_map_values.run [10, 20, 30] [2, -1, 0] [true, false, true] (some 7) = .ok [30, 7, 10] := ⟨rfl, rfl⟩

/-! ## get_valid_value_extents -/

/-- for every fuel ≥ end − start the translated kernel and the model agree on EVERY input — same pair, or the same error class
    (an out-of-range subscript; Python's UnboundLocalError for `end ≤ start`, where the `while` condition reads the loop
    variable of a `for` that never ran) -/
theorem gen_get_valid_value_extents_refines (m : List Int) (start end_ : Nat) (inv : Int) (fuel : Nat)
    (hf : end_ - start ≤ fuel) :
    Sim (get_valid_value_extents.run m start end_ inv fuel) (getValidValueExtents m start end_ inv) :=
  get_valid_value_extents_refines m start end_ inv fuel hf

/-- the translated `get_valid_value_extents` on a non-empty range inside the chunk: reads in bounds, both loops end, and it
    returns the marker twice when the range holds no valid entry, else the first and the last valid entry -/
theorem gen_extents_correct (m : List Int) (s e : Nat) (inv : Int) (hse : s < e) (he : e ≤ m.length) (fuel : Nat)
    (hf : e - s ≤ fuel) :
    ∃ d, get_valid_value_extents.run m s e inv fuel = .ok d ∧
      ((d.1 = inv ∧ ∀ p, s ≤ p → p < e → m[p]? = some inv) ∨
       (d.1 ≠ inv ∧ d.2 ≠ inv ∧ ∃ p0 p1, s ≤ p0 ∧ p0 ≤ p1 ∧ p1 < e ∧ m[p0]? = some d.1 ∧ m[p1]? = some d.2 ∧
          ∀ q x, s ≤ q → q < e → m[q]? = some x → x ≠ inv → p0 ≤ q ∧ q ≤ p1)) := by
  obtain ⟨d, hd, hspec⟩ := C04.extents_correct m s e inv hse he
  exact ⟨d, (get_valid_value_extents_refines m s e inv fuel hf).ok_right hd, hspec⟩

example : get_valid_value_extents.run [-1, 4, -1, 6, -1] 0 5 (-1) 5 = .ok (4, 6) := rfl
example : get_valid_value_extents.run [-1, 4, -1, 6, -1] 3 3 (-1) 5 = .error (.other "UnboundLocalError") := rfl

/-! ## next_map_subchunk -/

/-- the translated `next_map_subchunk` never fails (every subscript sits behind `sm < len(map_)`), ends within
    `len(map_) − sm` iterations of either loop, and returns exactly the model function `nextMapSubchunk` that
    `get_map_subchunks_based_on_index_lengths` (`MapValid.subchunks`) iterates — so `subchunks_partition`,
    `subchunk_entries_ordered` and `source_window_bounded` of Props/C04 speak about the sub-chunk boundaries the translated
    kernel computes -/
theorem gen_next_map_subchunk_eq (m : List Int) (sm : Nat) (inv : Int) (cs : Nat) (fuel : Nat) (hf : m.length - sm ≤ fuel) :
    next_map_subchunk.run m sm inv cs fuel = .ok ((nextMapSubchunk m sm inv cs : Nat) : Int) :=
  next_map_subchunk_eq m sm inv cs fuel hf

/-- the NC02a shape: the sub-chunk ends where the map steps back -/
example : next_map_subchunk.run [0, 1, 2, 0, 1, 2] 0 4611686018427387904 1000 6 = .ok 3 := rfl
example : next_map_subchunk.run [-1, -1, 5, 6, 9] 0 (-1) 2 5 = .ok 4 := rfl

/-! ## safe_map_indexed_values (KT4B: two passes, optional ARRAY parameter `empty_value`, slices assigned to slices) -/

/-- transfer: every `.ok` run of the model `safeMapIndexedValues` is a run of the TRANSLATED `safe_map_indexed_values` with the
    same (offsets, bytes), provided that where the filter is set the row number is not negative (the model wraps a negative
    subscript, the translation rejects it) and the row's two offsets lie in order inside `data_values` (the model appends the
    slice whatever its length; the code assigns it to exactly `delta` slots of `v_result` — numpy's size check) -/
theorem gen_safe_map_indexed_values_ok (indices values m : List Int) (filt : List Bool) (e : Option (List Int))
    (r : List Int × List Int)
    (hpos : ∀ (i : Nat) (k : Int), filt[i]? = some true → m[i]? = some k → 0 ≤ k)
    (hwf : ∀ (i : Nat) (k a b : Int), filt[i]? = some true → m[i]? = some k → indices[k.toNat]? = some a →
      indices[k.toNat + 1]? = some b → 0 ≤ a ∧ a ≤ b ∧ b ≤ values.length)
    (h : safeMapIndexedValues indices values m filt (e.getD []) = .ok r) :
    safe_map_indexed_values.run indices values m filt e = .ok r :=
  safe_map_indexed_values_ok indices values m filt e r hpos hwf h

/-- the statement of `C04.safe_map_indexed_values_eq` for the translated kernel itself: on a well-formed indexed string column
    (`IndexedOK`) and an in-range map, with the filter "entry is not the marker" and no `empty_value` (how `dataframe.merge` and
    `session.merge_*` call it), it returns normally (no subscript out of range or negative, every slice assignment of matching
    size) the stored form of the specified column of entries -/
theorem gen_safe_map_indexed_values_eq (indices values m : List Int) (inv : Int) (hok : IndexedOK indices values)
    (hr : InRange (entries indices values).length m inv) :
    ∃ out, safe_map_indexed_values.run indices values m (m.map (fun k => k != inv)) none = .ok out ∧
      mapIndexedSpec indices values inv m = some out := by
  obtain ⟨out, h1, h2⟩ := C04.safe_map_indexed_values_eq indices values m inv hok hr
  have hw := winOK_of_indexedOK indices values hok
  refine ⟨out, safe_map_indexed_values_ok indices values m _ none out ?_ ?_ h1, h2⟩
  · intro i k hf hm
    simp only [List.getElem?_map, hm, Option.map_some, Option.some.injEq] at hf
    exact (hr i k hm (by simpa using hf)).1
  · intro i k a b _ _ ga gb
    exact ⟨hw.nonneg _ _ ga, hw.mono _ _ _ _ (Nat.le_succ _) ga gb, hw.le_len _ _ gb⟩

example : safe_map_indexed_values.run [0, 1, 3] [97, 98, 99] [1, -1, 0] ([1, -1, 0].map (fun k => k != -1)) none
    = .ok ([0, 2, 2, 3], [98, 99, 97]) := by rfl
example : safe_map_indexed_values.run [0, 1, 3] [97, 98, 99] [1, -1, 0] [true, false, true] (some [120, 121])
    = .ok ([0, 2, 4, 5], [98, 99, 120, 121, 97]) := by rfl
example : IndexedOK ([0, 1, 3] : List Int) ([97, 98, 99] : List Int) := by simp [IndexedOK]
/-- offsets beyond `data_values`: numpy's size check, an error of the translation too (the hand model appends the short slice —
    the reason for the well-formedness hypothesis of the transfer) -/
example : safe_map_indexed_values.run [0, 1, 5] [97, 98, 99] [1] [true] none
    = .error (.valueError "could not broadcast input array") := by rfl

end Exetera.Props.C04Gen
