import Driver.Util
import Exetera.Model.Journal
open Lean Exetera Exetera.Journal
namespace Driver.C17

def colOf (j : Json) : Except String Col := do
  let kind ← Driver.get? String j "kind"
  if kind == "num" then
    pure (.num (← Driver.get? (List Int) j "o") (← Driver.get? (List Int) j "n"))
  else if kind == "str" then
    pure (.str (← Driver.get? (List (List Int)) j "o") (← Driver.get? (List (List Int)) j "n"))
  else throw s!"bad column kind {kind}"

def outColJson : OutCol → Json
  | .num d => Json.mkObj [("kind", "num"), ("d", Driver.ints d)]
  | .str i v => Json.mkObj [("kind", "str"), ("i", Driver.nats i), ("v", Driver.ints v)]

def bools (xs : List Bool) : Json := Json.arr (xs.map (fun (b : Bool) => Json.bool b)).toArray

/-- the kernels called one after the other on already sorted columns, as tests/test_operations.py does -/
def kernels (ok nk : List Int) (cols : List SCol) : Except Err (List Int × List Int × List Bool × List OutCol) :=
  match journalIndices ok nk with
  | .error e => .error e
  | .ok (om, nm) =>
    match compareCols om nm cols (List.replicate om.length false) with
    | .error e => .error e
    | .ok tk =>
      match mergeCols om nm tk (ok.length + tk.count true) cols with
      | .error e => .error e
      | .ok out => .ok (om, nm, tk, out)

def handle : Driver.Handler := fun op j =>
  match op with
  | "journal_table" => some do
    let oi ← Driver.get? (List Int) j "old_ids"
    let ov ← Driver.get? (List Int) j "old_vf"
    let ni ← Driver.get? (List Int) j "new_ids"
    let cj ← Driver.get? (Array Json) j "cols"
    let cols ← cj.toList.mapM colOf
    pure <| Driver.outE (fun (o : List OutCol) => Json.mkObj [("cols", Json.arr (o.map outColJson).toArray)])
      (journalTable oi ov ni cols)
  | "journal_kernels" => some do
    let ok ← Driver.get? (List Int) j "old"
    let nk ← Driver.get? (List Int) j "new"
    let cj ← Driver.get? (Array Json) j "cols"
    let cols ← cj.toList.mapM colOf
    pure <| Driver.outE (fun (o : List Int × List Int × List Bool × List OutCol) =>
        Json.mkObj [("om", Driver.ints o.1), ("nm", Driver.ints o.2.1), ("tk", bools o.2.2.1),
                    ("cols", Json.arr (o.2.2.2.map outColJson).toArray)])
      (kernels ok nk (cols.map Col.enc))
  | _ => none

end Driver.C17
