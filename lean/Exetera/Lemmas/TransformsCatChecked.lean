import Exetera.Lemmas.TransformsCat2
/-! C06, fix NC06d: the row loop of `categorical_transform` that also reports the first row without a matching key,
    `CategoricalImporter.import_part` on top of it, and the column specification `catColumn`. -/
namespace Exetera.Transforms
open Exetera Exetera.Spec.Transforms

/-- number of the first cell that no entry of the table equals -/
def firstUnmatched (tbl : List (Bytes × Int)) : List Bytes → Option Nat
  | [] => none
  | cell :: rest => if (lastMatch cell tbl none).isNone then some 0 else (firstUnmatched tbl rest).map (· + 1)

theorem catRowsChecked_spec (tbl : List (Bytes × Int)) (c : Chunk) (rest : List Bytes) (i s n : Nat) (done : List Int)
    (fu : Option Nat) (h : EncFrom c i s rest) (hn : rest.length ≤ n) (hd : done.length = i) :
    catRowsChecked (packTable tbl) c n i (done ++ List.replicate rest.length 0) fu
      = .ok (done ++ rest.map (scanCode tbl), if fu.isNone then (firstUnmatched tbl rest).map (· + i) else fu) := by
  induction rest generalizing i s n done fu with
  | nil =>
    cases n with
    | zero => cases fu <;> simp [catRowsChecked, firstUnmatched]
    | succ n => cases fu <;> simp [catRowsChecked, hd, firstUnmatched]
  | cons cell rest ih =>
    cases n with
    | zero => simp at hn
    | succ n =>
      have hlt : ¬ (i ≥ (done ++ List.replicate (cell :: rest).length 0).length) := by simp; omega
      rw [catRowsChecked]
      simp only [hlt, if_false]
      rw [matchRow_spec tbl c i s cell rest h]
      have hrest := h.2.2.2
      cases hm : lastMatch cell tbl none with
      | none =>
        simp only
        have e : done ++ List.replicate (cell :: rest).length 0 = (done ++ [0]) ++ List.replicate rest.length 0 := by
          simp [List.replicate_succ]
        rw [e, ih (i + 1) (s + cell.length) n (done ++ [0]) _ hrest (by simpa using hn) (by simp [hd])]
        cases fu <;> simp [scanCode, hm, firstUnmatched]
      | some v =>
        simp only
        have := setE_prefix done rest.length 0 v "chunk[row_idx]"
        rw [hd] at this
        simp only [List.length_cons, this]
        rw [ih (i + 1) (s + cell.length) n (done ++ [v]) fu hrest (by simpa using hn) (by simp [hd])]
        cases fu with
        | some k => simp [scanCode, hm]
        | none =>
          simp only [scanCode, hm, firstUnmatched, Option.isNone_none, if_true, Option.isNone_some, Bool.false_eq_true,
            if_false, Option.map_map, List.map_cons, Option.getD_some, List.append_assoc, List.cons_append,
            List.nil_append]
          congr 2
          cases firstUnmatched tbl rest with
          | none => rfl
          | some k => simp; omega

/-- `categorical_transform` (fix NC06d) on a packed table: the staging array of the kernel as found, and the first row
    without a matching entry -/
theorem categoricalTransformChecked_packTable (tbl : List (Bytes × Int)) (c : Chunk) (cells : List Bytes)
    (h : Encodes c cells) :
    categoricalTransformChecked (packTable tbl) c = .ok (cells.map (scanCode tbl), firstUnmatched tbl cells) := by
  obtain ⟨hr, ⟨s0, he, _⟩, hcol⟩ := h
  have hlt := he.lt_inds
  have := catRowsChecked_spec tbl c cells 0 s0 (c.inds.length - 1) [] none he (by omega) rfl
  rw [categoricalTransformChecked, withCol_ok c _ _ _ hcol]
  simpa [hr] using this

theorem firstUnmatched_getByteMap (cats : List (Bytes × Int)) (hnd : (cats.map (·.1)).Nodup) (cells : List Bytes) :
    firstUnmatched (cats.mergeSort (fun a b => bytesLe a.1 b.1)) cells = firstNoKey cats cells := by
  induction cells with
  | nil => rfl
  | cons cell rest ih => simp only [firstUnmatched, firstNoKey, scanCode_getByteMap cats hnd cell, ih]

/-! ### the column specification -/

theorem firstNoKey_eq_none_iff (cats : List (Bytes × Int)) (cells : List Bytes) :
    firstNoKey cats cells = none ↔ ∀ cell ∈ cells, (lookup cats cell).isSome := by
  induction cells with
  | nil => simp [firstNoKey]
  | cons cell rest ih =>
    simp only [firstNoKey, List.mem_cons, forall_eq_or_imp]
    cases hl : lookup cats cell with
    | none => simp
    | some v => simp [ih]

/-- `firstNoKey` is the first such cell: it equals no key, every cell before it does -/
theorem firstNoKey_eq_some (cats : List (Bytes × Int)) (cells : List Bytes) (r : Nat) (h : firstNoKey cats cells = some r) :
    ∃ pre x post, cells = pre ++ x :: post ∧ pre.length = r ∧ lookup cats x = none ∧
      ∀ cell ∈ pre, (lookup cats cell).isSome := by
  induction cells generalizing r with
  | nil => simp [firstNoKey] at h
  | cons cell rest ih =>
    simp only [firstNoKey] at h
    cases hl : lookup cats cell with
    | none =>
      simp [hl] at h
      exact ⟨[], cell, rest, rfl, by simpa using h, hl, by simp⟩
    | some v =>
      simp only [hl, Option.isNone_some, Bool.false_eq_true, if_false, Option.map_eq_some_iff] at h
      obtain ⟨r', hr', rfl⟩ := h
      obtain ⟨pre, x, post, rfl, hlen, hx, hpre⟩ := ih r' hr'
      refine ⟨cell :: pre, x, post, rfl, by simp [hlen], hx, ?_⟩
      intro y hy
      rcases List.mem_cons.mp hy with rfl | hy
      · simp [hl]
      · exact hpre y hy

theorem catColumn_eq_map (cats : List (Bytes × Int)) (cells : List Bytes)
    (h : ∀ cell ∈ cells, (lookup cats cell).isSome) : catColumn cats cells = some (cells.map (catCode cats)) := by
  induction cells with
  | nil => rfl
  | cons cell rest ih =>
    have h1 := h cell (by simp)
    cases hl : lookup cats cell with
    | none => simp [hl] at h1
    | some v => simp [catColumn, hl, ih (fun x hx => h x (by simp [hx])), catCode]

theorem catColumn_eq_none (cats : List (Bytes × Int)) (cells : List Bytes)
    (h : ¬ ∀ cell ∈ cells, (lookup cats cell).isSome) : catColumn cats cells = none := by
  induction cells with
  | nil => exact absurd (by simp) h
  | cons cell rest ih =>
    cases hl : lookup cats cell with
    | none => simp [catColumn, hl]
    | some v =>
      have : ¬ ∀ x ∈ rest, (lookup cats x).isSome := by
        intro hr; apply h
        intro x hx
        rcases List.mem_cons.mp hx with rfl | hx
        · simp [hl]
        · exact hr x hx
      simp [catColumn, hl, ih this]

theorem catColumn_isSome_iff (cats : List (Bytes × Int)) (cells : List Bytes) :
    (catColumn cats cells).isSome ↔ ∀ cell ∈ cells, (lookup cats cell).isSome := by
  by_cases h : ∀ cell ∈ cells, (lookup cats cell).isSome
  · rw [catColumn_eq_map cats cells h]; simpa using h
  · rw [catColumn_eq_none cats cells h]; simpa using h

theorem catColumn_append (cats : List (Bytes × Int)) (a b : List Bytes) :
    catColumn cats (a ++ b) = match catColumn cats a, catColumn cats b with
      | some x, some y => some (x ++ y)
      | _, _ => none := by
  induction a with
  | nil => cases hb : catColumn cats b <;> simp [catColumn, hb]
  | cons cell rest ih =>
    simp only [List.cons_append, catColumn, ih]
    cases lookup cats cell <;> cases catColumn cats rest <;> cases catColumn cats b <;> rfl

/-- `CategoricalImporter.import_part` (fix NC06d) on one chunk -/
theorem categoricalImportPart_spec (cats : List (Bytes × Int)) (hnd : (cats.map (·.1)).Nodup) (c : Chunk)
    (cells : List Bytes) (h : Encodes c cells) :
    categoricalImportPart (getByteMap cats) c =
      match catColumn cats cells with
      | some codes => .ok codes
      | none => .error notACategory := by
  rw [categoricalImportPart, getByteMap, categoricalTransformChecked_packTable _ c cells h,
    firstUnmatched_getByteMap cats hnd]
  by_cases hall : ∀ cell ∈ cells, (lookup cats cell).isSome
  · rw [(firstNoKey_eq_none_iff cats cells).mpr hall, catColumn_eq_map cats cells hall]
    simp only
    congr 1
    apply List.map_congr_left
    intro cell _
    simp only [scanCode, catCode, scanCode_getByteMap cats hnd cell]
  · rw [catColumn_eq_none cats cells hall]
    cases hf : firstNoKey cats cells with
    | none => exact absurd ((firstNoKey_eq_none_iff cats cells).mp hf) hall
    | some r => rfl

end Exetera.Transforms
