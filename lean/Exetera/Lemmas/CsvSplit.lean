import Exetera.Lemmas.CsvDriverStep
/-! Cutting the text of a list of records after `W` bytes: complete records, then a strict prefix of the next one (C05). -/
namespace Exetera.Csv
open Exetera Spec

/-- number of leading records of `ls` that lie completely within the first `w` bytes of their text -/
def fitCount : List (List Cell) → Nat → Nat
  | [], _ => 0
  | r :: rs, w => if (renderCells r).length ≤ w then fitCount rs (w - (renderCells r).length) + 1 else 0

theorem fitCount_le (ls : List (List Cell)) : ∀ w, fitCount ls w ≤ ls.length := by
  induction ls with
  | nil => intro w; simp [fitCount]
  | cons r rs ih =>
    intro w
    simp only [fitCount]
    split
    · have := ih (w - (renderCells r).length); simp; omega
    · simp

theorem render_take_fit_length (ls : List (List Cell)) : ∀ w, (render (ls.take (fitCount ls w))).length ≤ w := by
  induction ls with
  | nil => intro w; simp [fitCount, render]
  | cons r rs ih =>
    intro w
    simp only [fitCount]
    split
    · rename_i h
      have := ih (w - (renderCells r).length)
      simp only [List.take_succ_cons, render, List.length_append]
      omega
    · simp [render]

/-- the first `w` bytes of the text of `ls`: the records that fit, then the beginning of the first one that does not -/
theorem take_render (ls : List (List Cell)) : ∀ w,
    (render ls).take w = render (ls.take (fitCount ls w)) ++
      (match ls[fitCount ls w]? with
       | some r => (renderCells r).take (w - (render (ls.take (fitCount ls w))).length)
       | none => []) ∧
    (∀ r, ls[fitCount ls w]? = some r → w - (render (ls.take (fitCount ls w))).length < (renderCells r).length) := by
  induction ls with
  | nil => intro w; simp [fitCount, render]
  | cons r rs ih =>
    intro w
    simp only [fitCount]
    split
    · rename_i h
      obtain ⟨w', rfl⟩ : ∃ w', w = (renderCells r).length + w' := ⟨w - (renderCells r).length, by omega⟩
      simp only [Nat.add_sub_cancel_left]
      obtain ⟨h1, h2⟩ := ih w'
      refine ⟨?_, ?_⟩
      · simp only [List.take_succ_cons, render, List.getElem?_cons_succ, List.length_append]
        rw [take_len_add, h1, List.append_assoc]
        congr 2
        cases hrs : rs[fitCount rs w']? with
        | none => rfl
        | some x =>
          simp only
          congr 1
          omega
      · intro x hx
        simp only [List.take_succ_cons, render, List.getElem?_cons_succ, List.length_append] at hx ⊢
        have := h2 x hx
        omega
    · rename_i h
      refine ⟨?_, ?_⟩
      · simp only [List.take_zero, render, List.nil_append, List.getElem?_cons_zero, List.length_nil, Nat.sub_zero]
        exact List.take_append_of_le_length (by omega)
      · intro x hx
        simp only [List.getElem?_cons_zero, Option.some.injEq] at hx
        subst hx
        simp [render]; omega

theorem fitCount_pos (ls : List (List Cell)) (w : Nat) (r : List Cell) (rs : List (List Cell)) (h : ls = r :: rs)
    (hfit : (renderCells r).length ≤ w) : 1 ≤ fitCount ls w := by
  subst h; simp [fitCount, hfit]

end Exetera.Csv
