import Exetera.Lemmas.ConcatSpan
/-! C16, kernel level: `oneSpan` appends `spanOut` and one offset; `spanLoop` processes a non-empty block of
    consecutive spans (how many is decided by the two budgets and is irrelevant for the result). -/
set_option linter.unusedSectionVars false
set_option linter.unusedSimpArgs false
namespace Exetera.Concat

open Exetera Exetera.Spec.CsvLine

variable {α : Type} [DecidableEq α]

theorem joinCsv_singleton (sep delim : α) (x : List α) : joinCsv sep delim [x] = field sep delim x := by
  simp [joinCsv, joinWith]

theorem joinCsv_nil (sep delim : α) : joinCsv sep delim ([] : List (List α)) = [] := by
  simp [joinCsv, joinWith]

/-- `non_empties` is the number of non-empty entries of the span -/
theorem spanNonEmpties_spec (P : Params α) (entries : List (List α)) (hi : P.idx = offsets entries)
    (a b : Nat) (ha : a ≤ entries.length) (hb : b ≤ entries.length) :
    spanNonEmpties P a b ((entries.take a).flatten.length) ((entries.take b).flatten.length)
      = .ok (nonEmpty (slice entries a b)).length := by
  unfold spanNonEmpties
  by_cases h1 : b = a + 1
  · subst h1
    have hlt : a < entries.length := by omega
    rw [if_pos rfl, take_succ_flatten_length entries a hlt, slice_one entries a hlt]
    by_cases hx : entries[a] = []
    · simp [hx, nonEmpty]
    · have := List.length_pos_iff.mpr hx
      have h2 : (entries.take a).flatten.length + entries[a].length > (entries.take a).flatten.length := by omega
      rw [if_pos h2, nonEmpty_cons_of_ne _ _ hx]
      simp [nonEmpty]
  · rw [if_neg h1]
    by_cases h2 : b > a + 1
    · rw [if_pos h2, hi]
      have := countNonEmpty_spec entries (b - a) a 0 (by omega)
      have hab : a + (b - a) = b := by omega
      rw [hab] at this
      simpa using this
    · rw [if_neg h2, slice_eq_nil_of_le entries a b (by omega)]
      simp [nonEmpty]

/-- the emission block appends the span's output -/
theorem spanEmit_spec (P : Params α) (entries : List (List α)) (hi : P.idx = offsets entries)
    (hv : P.vals = entries.flatten) (a b : Nat) (ha : a ≤ entries.length) (hb : b ≤ entries.length)
    (vb : List α) (hcap : vb.length + (spanOut P.sep P.delim entries a b).length ≤ P.capV) :
    spanEmit P a b ((entries.take a).flatten.length) ((entries.take b).flatten.length)
        (nonEmpty (slice entries a b)).length vb
      = .ok (vb ++ spanOut P.sep P.delim entries a b) := by
  unfold spanEmit
  by_cases h1 : (nonEmpty (slice entries a b)).length = 1
  · -- exactly one non-empty entry: it is the concatenation of the whole source range
    rw [if_pos h1]
    obtain ⟨x, hx⟩ := List.length_eq_one_iff.mp h1
    have hab : a ≤ b := by
      by_cases h : a ≤ b
      · exact h
      · rw [slice_eq_nil_of_le entries a b (by omega)] at hx
        simp [nonEmpty] at hx
    have hflat := flatten_of_nonEmpty_singleton _ _ hx
    have hsplit := flatten_split entries a b hab
    rw [hflat] at hsplit
    have hlen := take_flatten_length_slice entries a b hab
    rw [hflat] at hlen
    have hout : spanOut P.sep P.delim entries a b = field P.sep P.delim x := by
      simp [spanOut, hx, joinCsv_singleton]
    rw [hout] at hcap ⊢
    have hn : (entries.take b).flatten.length - (entries.take a).flatten.length = x.length := by omega
    obtain ⟨c', q', hscan, hflag⟩ := scanFlags_spec P.vals P.sep P.delim x
      (entries.take a).flatten (entries.drop b).flatten false false (by rw [hv]; exact hsplit)
    simp only [Bool.false_or] at hflag
    rw [hn, hscan]
    simp only [hflag]
    exact emitBody_spec P.vals P.sep P.delim P.capV x (entries.take a).flatten (entries.drop b).flatten vb _ _
      (by rw [hv]; exact hsplit) rfl (by omega) hcap
  · rw [if_neg h1]
    by_cases h2 : (nonEmpty (slice entries a b)).length > 1
    · rw [if_pos h2]
      have hab : a ≤ b := by
        by_cases h : a ≤ b
        · exact h
        · rw [slice_eq_nil_of_le entries a b (by omega)] at h2
          simp [nonEmpty] at h2
      have hab' : a + (b - a) = b := by omega
      have := multiLoop_spec entries P.sep P.delim P.capV a (b - a) a true vb (by omega) (Nat.le_refl _)
        (Or.inl rfl) (by rw [hab']; simpa [joinRest, spanOut] using hcap)
      rw [hab'] at this
      rw [hi, hv, this]
      simp [joinRest, spanOut]
    · rw [if_neg h2]
      have h0 : nonEmpty (slice entries a b) = [] := by
        apply List.eq_nil_of_length_eq_zero; omega
      simp [spanOut, h0, joinCsv_nil]

/-- one iteration of the kernel's span loop -/
theorem oneSpan_spec (P : Params α) (entries : List (List α)) (hi : P.idx = offsets entries)
    (hv : P.vals = entries.flatten) (s a b : Nat) (hs : P.spans[s]? = some a) (hs1 : P.spans[s + 1]? = some b)
    (ha : a ≤ entries.length) (hb : b ≤ entries.length) (st : Buf α) (hci : st.ib.length < P.capI)
    (hcv : st.vb.length + (spanOut P.sep P.delim entries a b).length ≤ P.capV) :
    oneSpan P s st = .ok ⟨st.ib ++ [(st.vb ++ spanOut P.sep P.delim entries a b).length + P.destStartV],
                          st.vb ++ spanOut P.sep P.delim entries a b⟩ := by
  have g1 : getE P.spans s "spans[s]" = .ok a := by simp [getE, hs]
  have g2 : getE P.spans (s + 1) "spans[s+1]" = .ok b := by simp [getE, hs1]
  have g3 : getE P.idx a "src_index[sp_cur]" = .ok ((entries.take a).flatten.length) := by
    rw [hi]; exact getE_offsets entries a _ ha
  have g4 : getE P.idx b "src_index[sp_next]" = .ok ((entries.take b).flatten.length) := by
    rw [hi]; exact getE_offsets entries b _ hb
  simp only [oneSpan, g1, g2, g3, g4, spanNonEmpties_spec P entries hi a b ha hb,
    spanEmit_spec P entries hi hv a b ha hb st.vb hcv, hci, if_true]

end Exetera.Concat

namespace Exetera.Concat

open Exetera Exetera.Spec.CsvLine

variable {α : Type} [DecidableEq α]

/-! ### the list of span outputs, addressed by span number -/

theorem concatSpec_length (sep delim : α) (entries : List (List α)) (spans : List Nat) :
    (concatSpec sep delim entries spans).length = spans.length - 1 := by
  simp [concatSpec, spanPairs]

theorem concatSpec_getElem? (sep delim : α) (entries : List (List α)) (spans : List Nat) (s a b : Nat)
    (hs : spans[s]? = some a) (hs1 : spans[s + 1]? = some b) :
    (concatSpec sep delim entries spans)[s]? = some (spanOut sep delim entries a b) := by
  have hz : (spans.zip spans.tail)[s]? = some (a, b) := by
    rw [List.getElem?_zip_eq_some]
    simp [hs, hs1]
  simp [concatSpec, spanPairs, hz]

theorem drop_of_getElem? {β} (xs : List β) (s : Nat) (x : β) (h : xs[s]? = some x) :
    xs.drop s = x :: xs.drop (s + 1) := by
  obtain ⟨hlt, rfl⟩ := List.getElem?_eq_some_iff.mp h
  exact List.drop_eq_getElem_cons hlt

/-- the kernel's view of the column: indices and values of `entries`, every span boundary inside the column -/
structure Col (P : Params α) (entries : List (List α)) : Prop where
  idx : P.idx = offsets entries
  vals : P.vals = entries.flatten
  bound : ∀ p ∈ P.spans, p ≤ entries.length

/-- The span loop, started at span `s` with `n` spans left, handles some `k` of them (`k ≥ 1` if `n ≥ 1`; how many
    depends on the budgets) and appends exactly their outputs and running offsets. `M` bounds the span outputs;
    `maxI ≤ capI` and `maxV - 1 + M ≤ capV` are what keeps every write inside the buffers. -/
theorem spanLoop_spec (P : Params α) (entries : List (List α)) (hc : Col P entries) (M : Nat)
    (hM : ∀ o ∈ concatSpec P.sep P.delim entries P.spans, o.length ≤ M)
    (hI : P.maxI ≤ P.capI) (hV : P.maxV - 1 + M ≤ P.capV) :
    ∀ (n s : Nat) (st : Buf α), s + n = P.spans.length - 1 → st.ib.length < P.capI →
      st.vb.length + M ≤ P.capV →
      ∃ k, k ≤ n ∧ (0 < n → 0 < k) ∧
        spanLoop P n s st = .ok (s + k,
          ⟨st.ib ++ offsetsFrom (st.vb.length + P.destStartV)
              (((concatSpec P.sep P.delim entries P.spans).drop s).take k),
           st.vb ++ (((concatSpec P.sep P.delim entries P.spans).drop s).take k).flatten⟩) := by
  intro n
  induction n with
  | zero =>
    intro s st _ _ _
    exact ⟨0, Nat.le_refl _, fun h => absurd h (by omega), by simp [spanLoop, offsetsFrom]⟩
  | succ n ih =>
    intro s st hsn hci hcv
    have h1 : s < P.spans.length := by omega
    have h2 : s + 1 < P.spans.length := by omega
    have hs : P.spans[s]? = some P.spans[s] := List.getElem?_eq_getElem h1
    have hs1 : P.spans[s + 1]? = some P.spans[s + 1] := List.getElem?_eq_getElem h2
    have ha := hc.bound _ (List.getElem_mem h1)
    have hb := hc.bound _ (List.getElem_mem h2)
    have ho := concatSpec_getElem? P.sep P.delim entries P.spans s _ _ hs hs1
    generalize hod : spanOut P.sep P.delim entries P.spans[s] P.spans[s + 1] = o at ho
    have hoM : o.length ≤ M := hM o (List.mem_of_getElem? ho)
    have hdrop := drop_of_getElem? _ s o ho
    have hone := oneSpan_spec P entries hc.idx hc.vals s _ _ hs hs1 ha hb st hci (by rw [hod]; omega)
    rw [hod] at hone
    simp only [spanLoop, hone]
    by_cases hbrk : ((st.ib ++ [(st.vb ++ o).length + P.destStartV]).length ≥ P.maxI
        || (st.vb ++ o).length ≥ P.maxV) = true
    · refine ⟨1, by omega, fun _ => by omega, ?_⟩
      rw [if_pos hbrk, hdrop]
      simp [offsetsFrom]
      omega
    · rw [if_neg hbrk]
      simp only [Bool.or_eq_true, decide_eq_true_eq, not_or, Nat.not_le, ge_iff_le] at hbrk
      obtain ⟨k, hk, _, hrun⟩ := ih (s + 1) ⟨st.ib ++ [(st.vb ++ o).length + P.destStartV], st.vb ++ o⟩
        (by omega) (by simp only []; omega) (by simp only []; omega)
      refine ⟨k + 1, by omega, fun _ => by omega, ?_⟩
      rw [hrun, hdrop]
      have e1 : s + 1 + k = s + (k + 1) := by omega
      simp only [List.take_succ_cons, offsetsFrom, List.flatten_cons, List.length_append, e1]
      have e2 : st.vb.length + P.destStartV + o.length = st.vb.length + o.length + P.destStartV := by omega
      simp [e2]

/-- `_apply_spans_concat_2` called with `sp_start` inside the span list: it returns without leaving its buffers,
    having handled `k ≥ 1` spans, and the written prefixes are the offsets and bytes of exactly those spans -/
theorem kernel_spec (P : Params α) (entries : List (List α)) (hc : Col P entries) (M : Nat)
    (hM : ∀ o ∈ concatSpec P.sep P.delim entries P.spans, o.length ≤ M)
    (hI : P.maxI ≤ P.capI) (hMV : M ≤ P.capV) (hV : P.maxV - 1 + M ≤ P.capV)
    (spStart : Nat) (hs : spStart < P.spans.length - 1) (hci : (if spStart = 0 then 1 else 0) < P.capI) :
    ∃ k, 0 < k ∧ spStart + k ≤ P.spans.length - 1 ∧
      kernel P spStart = .ok (spStart + k,
        ⟨(if spStart = 0 then [P.index0] else []) ++ offsetsFrom P.destStartV
            (((concatSpec P.sep P.delim entries P.spans).drop spStart).take k),
         (((concatSpec P.sep P.delim entries P.spans).drop spStart).take k).flatten⟩) := by
  obtain ⟨k, hk, hpos, hrun⟩ := spanLoop_spec P entries hc M hM hI hV (P.spans.length - 1 - spStart) spStart
    ⟨if spStart = 0 then [P.index0] else [], []⟩ (by omega)
    (by by_cases h : spStart = 0 <;> simp [h] at hci ⊢ <;> omega) (by simpa using hMV)
  refine ⟨k, hpos (by omega), by omega, ?_⟩
  simp only [kernel, hs, if_true, hrun]
  simp

end Exetera.Concat
