#!/usr/bin/env python3
"""Regenerate MANIFEST.json from the harness modules present in checks/harness (one per claimed property)."""
import ast
import json
import re
from pathlib import Path

V = Path(__file__).resolve().parent.parent
props = [json.loads(l) for l in open(V / "properties.jsonl")]


def attrs(path):
    out = {}
    for node in ast.parse(path.read_text()).body:
        if isinstance(node, ast.Assign) and len(node.targets) == 1 and isinstance(node.targets[0], ast.Name):
            try:
                out[node.targets[0].id] = ast.literal_eval(node.value)
            except Exception:
                pass
    return out


checks, na = [], []
for p in props:
    pid = p["id"]
    h = V / "checks" / "harness" / f"{pid.lower()}.py"
    ob = V / "checks" / "obligations" / f"{pid}.json"
    if not h.exists() or not ob.exists():
        # a property is claimed only when both its harness and its list of proof obligations exist
        na.append({"property_id": pid, "reason": "check not complete in this revision of /verif (no Lean proof obligations registered yet; planned, see DESIGN.md section 2) - not a claim that the technique cannot apply"})
        continue
    a = attrs(h)
    checks.append({
        "property_id": pid,
        "quick_cmd": f"/venv/bin/python checks/run.py {pid} --tier quick",
        "thorough_cmd": f"/venv/bin/python checks/run.py {pid} --tier thorough",
        "evidence_file": f"evidence/{pid}.json",
        "replay_cmd_template": f"/venv/bin/python checks/run.py {pid} --replay {{path}}",
        "engine": "lean4-proof+correspondence",
        "level_claimed": {"category": a.get("LEVEL", "proof"), "text": a.get("LEVEL_TEXT", ""),
                          "design_ref": a.get("DESIGN_REF", "DESIGN.md section 2, " + pid)},
        "level_note": a.get("LEVEL_NOTE", ""),
        "technique": a.get("TECHNIQUE", "Lean 4 theorems about an executable model + differential correspondence with the real code"),
    })
m = {
    "version": 1,
    "setup_cmd": "python3 tools/translate.py --repo /repo; cd lean && (lake build Exetera exetera_model || lake build exetera_model)",
    "hooks": {"guard": "EXETERA_VERIF", "enable": "no source hooks: the harness wraps module attributes of exetera.core.operations from outside (chunk sizes, call counters); EXETERA_VERIF=1 is set in worker processes but nothing in /repo reads it",
              "baseline_off_cmd": "python3 tools/baseline_check.py", "source_commits": [], "add_only": True},
    "engines": [{"name": "lean4-proof+correspondence", "path": "checks/run.py",
                 "serves_properties": [c["property_id"] for c in checks],
                 "kind_free_text": "Lean 4 theorems (lake build + #print axioms audit) about an executable model; model tied to /repo by a translator for table-shaped code (tools/translate.py -> lean/Exetera/Gen) and by a differential correspondence run of the compiled model driver against the real code"}],
    "checks": checks,
    "not_applicable": na,
    "notes": "See DESIGN.md. known_findings.json lists recorded defects (open) and repaired ones (fixed).",
}
(V / "MANIFEST.json").write_text(json.dumps(m, indent=1) + "\n")
print(f"{len(checks)} checks, {len(na)} not claimed")
