/-!
  C10 — path conditions of the array subscripts of the compiled import transforms that `Model/Transforms.lean` models (owning property C06), frozen from the source the model
  was written against. `Props/C10/Transforms.lean` (`access_paths_covered_transforms`) proves that the table regenerated from the CURRENT
  source (`Gen/KernelPaths.lean`) is this one: a test that dominates a subscript cannot be dropped, weakened or moved in the
  source without breaking the build.

  Each entry is (site, path condition): the tests passed on the way to that occurrence of the subscript, outermost first —
  `for …` / `while …` = an enclosing loop guard (the same strings as in `KernelSitesTransforms`), a bare test = the `if` / `elif`
  branch taken or an `and` operand to the left of the subscript, `not (…)` = an `else` branch, the code after an early exit
  `if …: break | continue | return | raise`, or an `or` operand to the left. A condition is the text of a test that held
  when it was passed (a syntactic path, not an invariant). A site reached on several paths has one entry per path.
  Regenerate with `python3 tools/translate_kernels.py --paths /repo <kernel> …`.

  Which conjunct of the path condition the model's checked accessor relies on (accessor names as in `KernelSitesTransforms`):
  * all five kernels: `column_offsets[i_c]` (`column_offsets[col_idx]`) and `column_inds[i_c]` are read on the EMPTY path, and
    no later path contains a test on the column subscript: nothing in a kernel bounds it. The model checks it against the
    number of columns (`Chunk.ncols`, `.oob "column_offsets[col_idx]"`), discharged by the importer's construction
    (`field_index < number of columns`, see `KernelSitesTransforms`).
  * `column_inds[c, r]`, `column_inds[c, r + 1]` = the two `getE c.inds`: rely on `for row_idx in range(written_row_count)`
    (`for row_idx in range(len(column_inds[i_c]) - 1)` in the two categorical kernels, which bound the row by the staging
    row itself).
  * `categorical_transform` / `leaky_categorical_transform`: `chunk[row_idx]` = `setE` in `catRows` / `leakyRows` relies on
    the early exit `if row_idx >= chunk.shape[0]: break` (entry `not (row_idx >= chunk.shape[0])`, second on every path),
    mirrored as `i ≥ chunk.length`; `cat_keys[entry_start + j]` and `column_vals[col_offset + key_start + j]` = `getE` in
    `keyEq` rely on `for j in range(key_len)` AFTER `not (key_len != sc_key_len)` (the lengths are compared before the
    bytes); `cat_values[index]` is reached only on `index != -1`; the free-text writes (`freetext_indices[row_idx + 1]`,
    `freetext_values[…] = …`) on `not is_found` — `sliceAssign` checks the destination range, no test of the kernel does.
  * `numeric_bool_transform`: `column_vals[… + byte_start_idx]` is behind the operand `byte_start_idx < length`,
    `column_vals[… + byte_end_idx]` behind `byte_end_idx >= 0` (the two blank-trimming `while` guards: `skipLead`,
    `skipTrail`); `val[0]` … `val[4]` are reached only under `actual_length == k` with `k` above the subscript
    (`rowAccepts`: `row.1 == val.length`), and `val[k]` sits to the right of `val[k - 1] in (…)` inside the `and` chains;
    `elements[row_idx]`, `validity[row_idx]` rely on `for row_idx in range(written_row_count)` and on the capacity the
    caller passes (`boolRows`: `.oob "elements[row_idx]"`).
  * `fixed_string_transform`: `column_vals[c]`, `memory[a]` rely on `for c in range(start_idx, end_idx)` (`copyBytes`).
-/
namespace Exetera.KernelPaths

/-- the import transforms (C06): path condition of every subscript occurrence -/
def transformsPaths : List (String × List (String × List String)) := [
  ("categorical_transform", [
    ("R cat_index[i + 1]", ["for row_idx in range(len(column_inds[i_c]) - 1)", "not (row_idx >= chunk.shape[0])", "for i in range(len(cat_index) - 1)"]),
    ("R cat_index[i]", ["for row_idx in range(len(column_inds[i_c]) - 1)", "not (row_idx >= chunk.shape[0])", "for i in range(len(cat_index) - 1)"]),
    ("R cat_index[i]", ["for row_idx in range(len(column_inds[i_c]) - 1)", "not (row_idx >= chunk.shape[0])", "for i in range(len(cat_index) - 1)", "not (key_len != sc_key_len)", "for j in range(key_len)"]),
    ("R cat_keys[int(entry_start + j)]", ["for row_idx in range(len(column_inds[i_c]) - 1)", "not (row_idx >= chunk.shape[0])", "for i in range(len(cat_index) - 1)", "not (key_len != sc_key_len)", "for j in range(key_len)"]),
    ("R cat_values[index]", ["for row_idx in range(len(column_inds[i_c]) - 1)", "not (row_idx >= chunk.shape[0])", "for i in range(len(cat_index) - 1)", "not (key_len != sc_key_len)", "index != -1"]),
    ("R chunk.shape[0]", ["for row_idx in range(len(column_inds[i_c]) - 1)"]),
    ("R column_inds[i_c, row_idx + 1]", ["for row_idx in range(len(column_inds[i_c]) - 1)", "not (row_idx >= chunk.shape[0])"]),
    ("R column_inds[i_c, row_idx]", ["for row_idx in range(len(column_inds[i_c]) - 1)", "not (row_idx >= chunk.shape[0])"]),
    ("R column_inds[i_c]", []),
    ("R column_offsets[i_c]", []),
    ("R column_vals[int(col_offset + key_start + j)]", ["for row_idx in range(len(column_inds[i_c]) - 1)", "not (row_idx >= chunk.shape[0])", "for i in range(len(cat_index) - 1)", "not (key_len != sc_key_len)", "for j in range(key_len)"]),
    ("W chunk[row_idx]", ["for row_idx in range(len(column_inds[i_c]) - 1)", "not (row_idx >= chunk.shape[0])", "for i in range(len(cat_index) - 1)", "not (key_len != sc_key_len)", "index != -1"])]),
  ("leaky_categorical_transform", [
    ("R cat_index[i + 1]", ["for row_idx in range(len(column_inds[i_c]) - 1)", "not (row_idx >= chunk.shape[0])", "for i in range(len(cat_index) - 1)"]),
    ("R cat_index[i]", ["for row_idx in range(len(column_inds[i_c]) - 1)", "not (row_idx >= chunk.shape[0])", "for i in range(len(cat_index) - 1)"]),
    ("R cat_index[i]", ["for row_idx in range(len(column_inds[i_c]) - 1)", "not (row_idx >= chunk.shape[0])", "for i in range(len(cat_index) - 1)", "not (key_len != sc_key_len)", "for j in range(key_len)"]),
    ("R cat_keys[entry_start + j]", ["for row_idx in range(len(column_inds[i_c]) - 1)", "not (row_idx >= chunk.shape[0])", "for i in range(len(cat_index) - 1)", "not (key_len != sc_key_len)", "for j in range(key_len)"]),
    ("R cat_values[index]", ["for row_idx in range(len(column_inds[i_c]) - 1)", "not (row_idx >= chunk.shape[0])", "for i in range(len(cat_index) - 1)", "not (key_len != sc_key_len)", "index != -1"]),
    ("R chunk.shape[0]", ["for row_idx in range(len(column_inds[i_c]) - 1)"]),
    ("R column_inds[i_c, row_idx + 1]", ["for row_idx in range(len(column_inds[i_c]) - 1)", "not (row_idx >= chunk.shape[0])"]),
    ("R column_inds[i_c, row_idx]", ["for row_idx in range(len(column_inds[i_c]) - 1)", "not (row_idx >= chunk.shape[0])"]),
    ("R column_inds[i_c]", []),
    ("R column_offsets[i_c]", []),
    ("R column_vals[col_offset + key_start + j]", ["for row_idx in range(len(column_inds[i_c]) - 1)", "not (row_idx >= chunk.shape[0])", "for i in range(len(cat_index) - 1)", "not (key_len != sc_key_len)", "for j in range(key_len)"]),
    ("R column_vals[col_offset + key_start:col_offset + key_end]", ["for row_idx in range(len(column_inds[i_c]) - 1)", "not (row_idx >= chunk.shape[0])", "not is_found"]),
    ("R freetext_indices[row_idx + 1]", ["for row_idx in range(len(column_inds[i_c]) - 1)", "not (row_idx >= chunk.shape[0])", "not is_found"]),
    ("R freetext_indices[row_idx]", ["for row_idx in range(len(column_inds[i_c]) - 1)", "not (row_idx >= chunk.shape[0])", "for i in range(len(cat_index) - 1)", "not (key_len != sc_key_len)", "index != -1"]),
    ("R freetext_indices[row_idx]", ["for row_idx in range(len(column_inds[i_c]) - 1)", "not (row_idx >= chunk.shape[0])", "not is_found"]),
    ("W chunk[row_idx]", ["for row_idx in range(len(column_inds[i_c]) - 1)", "not (row_idx >= chunk.shape[0])", "for i in range(len(cat_index) - 1)", "not (key_len != sc_key_len)", "index != -1"]),
    ("W chunk[row_idx]", ["for row_idx in range(len(column_inds[i_c]) - 1)", "not (row_idx >= chunk.shape[0])", "not is_found"]),
    ("W freetext_indices[row_idx + 1]", ["for row_idx in range(len(column_inds[i_c]) - 1)", "not (row_idx >= chunk.shape[0])", "for i in range(len(cat_index) - 1)", "not (key_len != sc_key_len)", "index != -1"]),
    ("W freetext_indices[row_idx + 1]", ["for row_idx in range(len(column_inds[i_c]) - 1)", "not (row_idx >= chunk.shape[0])", "not is_found"]),
    ("W freetext_values[freetext_indices[row_idx]:freetext_indices[row_idx + 1]]", ["for row_idx in range(len(column_inds[i_c]) - 1)", "not (row_idx >= chunk.shape[0])", "not is_found"])]),
  ("numeric_bool_transform", [
    ("R column_inds[col_idx, row_idx + 1]", ["for row_idx in range(written_row_count)"]),
    ("R column_inds[col_idx, row_idx]", ["for row_idx in range(written_row_count)"]),
    ("R column_offsets[col_idx]", []),
    ("R column_vals[col_offset + row_start_idx + byte_end_idx]", ["for row_idx in range(written_row_count)", "byte_end_idx >= 0"]),
    ("R column_vals[col_offset + row_start_idx + byte_start_idx:col_offset + row_start_idx + byte_start_idx + actual_length]", ["for row_idx in range(written_row_count)", "not (actual_length <= 0)"]),
    ("R column_vals[col_offset + row_start_idx + byte_start_idx]", ["for row_idx in range(written_row_count)", "byte_start_idx < length"]),
    ("R column_vals[col_offset + row_start_idx:col_offset + row_end_idx]", ["for row_idx in range(written_row_count)", "not valid_input", "not (validation_mode == 'strict')", "validation_mode == 'allow_empty'", "not empty"]),
    ("R column_vals[col_offset + row_start_idx:col_offset + row_end_idx]", ["for row_idx in range(written_row_count)", "not valid_input", "validation_mode == 'strict'", "not (empty)"]),
    ("R val[0]", ["for row_idx in range(written_row_count)", "not (actual_length <= 0)", "not (actual_length == 1)", "actual_length == 2"]),
    ("R val[0]", ["for row_idx in range(written_row_count)", "not (actual_length <= 0)", "not (actual_length == 1)", "actual_length == 2", "not (val[0] in (79, 111) and val[1] in (78, 110))"]),
    ("R val[0]", ["for row_idx in range(written_row_count)", "not (actual_length <= 0)", "not (actual_length == 1)", "not (actual_length == 2)", "actual_length == 3"]),
    ("R val[0]", ["for row_idx in range(written_row_count)", "not (actual_length <= 0)", "not (actual_length == 1)", "not (actual_length == 2)", "actual_length == 3", "not (val[0] in (89, 121) and val[1] in (69, 101) and (val[2] in (83, 115)))"]),
    ("R val[0]", ["for row_idx in range(written_row_count)", "not (actual_length <= 0)", "not (actual_length == 1)", "not (actual_length == 2)", "not (actual_length == 3)", "actual_length == 4"]),
    ("R val[0]", ["for row_idx in range(written_row_count)", "not (actual_length <= 0)", "not (actual_length == 1)", "not (actual_length == 2)", "not (actual_length == 3)", "not (actual_length == 4)", "actual_length == 5"]),
    ("R val[1]", ["for row_idx in range(written_row_count)", "not (actual_length <= 0)", "not (actual_length == 1)", "actual_length == 2", "not (val[0] in (79, 111) and val[1] in (78, 110))", "val[0] in (78, 110)"]),
    ("R val[1]", ["for row_idx in range(written_row_count)", "not (actual_length <= 0)", "not (actual_length == 1)", "actual_length == 2", "val[0] in (79, 111)"]),
    ("R val[1]", ["for row_idx in range(written_row_count)", "not (actual_length <= 0)", "not (actual_length == 1)", "not (actual_length == 2)", "actual_length == 3", "not (val[0] in (89, 121) and val[1] in (69, 101) and (val[2] in (83, 115)))", "val[0] in (79, 111)"]),
    ("R val[1]", ["for row_idx in range(written_row_count)", "not (actual_length <= 0)", "not (actual_length == 1)", "not (actual_length == 2)", "actual_length == 3", "val[0] in (89, 121)"]),
    ("R val[1]", ["for row_idx in range(written_row_count)", "not (actual_length <= 0)", "not (actual_length == 1)", "not (actual_length == 2)", "not (actual_length == 3)", "actual_length == 4", "val[0] in (84, 116)"]),
    ("R val[1]", ["for row_idx in range(written_row_count)", "not (actual_length <= 0)", "not (actual_length == 1)", "not (actual_length == 2)", "not (actual_length == 3)", "not (actual_length == 4)", "actual_length == 5", "val[0] in (70, 102)"]),
    ("R val[2]", ["for row_idx in range(written_row_count)", "not (actual_length <= 0)", "not (actual_length == 1)", "not (actual_length == 2)", "actual_length == 3", "not (val[0] in (89, 121) and val[1] in (69, 101) and (val[2] in (83, 115)))", "val[0] in (79, 111)", "val[1] in (70, 102)"]),
    ("R val[2]", ["for row_idx in range(written_row_count)", "not (actual_length <= 0)", "not (actual_length == 1)", "not (actual_length == 2)", "actual_length == 3", "val[0] in (89, 121)", "val[1] in (69, 101)"]),
    ("R val[2]", ["for row_idx in range(written_row_count)", "not (actual_length <= 0)", "not (actual_length == 1)", "not (actual_length == 2)", "not (actual_length == 3)", "actual_length == 4", "val[0] in (84, 116)", "val[1] in (82, 114)"]),
    ("R val[2]", ["for row_idx in range(written_row_count)", "not (actual_length <= 0)", "not (actual_length == 1)", "not (actual_length == 2)", "not (actual_length == 3)", "not (actual_length == 4)", "actual_length == 5", "val[0] in (70, 102)", "val[1] in (65, 97)"]),
    ("R val[3]", ["for row_idx in range(written_row_count)", "not (actual_length <= 0)", "not (actual_length == 1)", "not (actual_length == 2)", "not (actual_length == 3)", "actual_length == 4", "val[0] in (84, 116)", "val[1] in (82, 114)", "val[2] in (85, 117)"]),
    ("R val[3]", ["for row_idx in range(written_row_count)", "not (actual_length <= 0)", "not (actual_length == 1)", "not (actual_length == 2)", "not (actual_length == 3)", "not (actual_length == 4)", "actual_length == 5", "val[0] in (70, 102)", "val[1] in (65, 97)", "val[2] in (76, 108)"]),
    ("R val[4]", ["for row_idx in range(written_row_count)", "not (actual_length <= 0)", "not (actual_length == 1)", "not (actual_length == 2)", "not (actual_length == 3)", "not (actual_length == 4)", "actual_length == 5", "val[0] in (70, 102)", "val[1] in (65, 97)", "val[2] in (76, 108)", "val[3] in (83, 115)"]),
    ("W elements[row_idx]", ["for row_idx in range(written_row_count)"]),
    ("W validity[row_idx]", ["for row_idx in range(written_row_count)"])]),
  ("transform_to_values", [
    ("R column_inds[col_idx, row_idx + 1]", ["for row_idx in range(written_row_count)"]),
    ("R column_inds[col_idx, row_idx]", ["for row_idx in range(written_row_count)"]),
    ("R column_offsets[col_idx]", []),
    ("R column_vals[start_idx:end_idx]", ["for row_idx in range(written_row_count)"])]),
  ("fixed_string_transform", [
    ("R column_inds[col_idx, i + 1]", ["for i in range(written_row_count)"]),
    ("R column_inds[col_idx, i]", ["for i in range(written_row_count)"]),
    ("R column_offsets[col_idx]", []),
    ("R column_vals[c]", ["for i in range(written_row_count)", "for c in range(start_idx, end_idx)"]),
    ("W memory[a]", ["for i in range(written_row_count)", "for c in range(start_idx, end_idx)"])])
]

end Exetera.KernelPaths
