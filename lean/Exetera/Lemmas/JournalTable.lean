import Exetera.Lemmas.JournalDefs
import Exetera.Lemmas.JournalIndices
import Exetera.Lemmas.JournalCompare
import Exetera.Lemmas.JournalMerge
import Exetera.Lemmas.JournalMergeIndexed
import Exetera.Lemmas.JournalPlan
/-! `journal_table` after the sorts (`journalSorted`): index generation, the compare loop over all fields and the merge
    loop over all fields compose to the specification. -/
namespace Exetera.Journal
open Exetera Exetera.Spec.Journal

/-! ### the compare loop in slot-wise form -/

theorem compare_loop_map (ks : List Int) (f1 f2 : Int → Int) (g Dk : Int → Bool) (differs : Int → Int → Except Err Bool)
    (hD : ∀ k, k ∈ ks → f1 k ≠ -1 → f2 k ≠ -1 → differs (f1 k) (f2 k) = .ok (Dk k)) :
    forE (compareBody (ks.map f1) (ks.map f2) differs) (ks.map f1).length 0 (ks.map g) =
      .ok (ks.map (fun k => g k || slotKeep (f1 k) (f2 k) (Dk k))) := by
  obtain ⟨R, hR, hlen, hget⟩ := compare_loop (om := ks.map f1) (nm := ks.map f2) (tk := ks.map g) (differs := differs)
    (fun i => match ks[i]? with | some k => Dk k | none => false) (by simp) (by simp)
    (by
      intro i hi h1 h2
      have hi' : i < ks.length := by simpa using hi
      simp only [List.getElem_map] at h1 h2 ⊢
      rw [List.getElem?_eq_getElem hi']
      exact hD _ (List.getElem_mem hi') h1 h2)
  rw [hR]
  congr 1
  apply List.ext_getElem?
  intro i
  by_cases hi : i < ks.length
  · rw [hget i (by simpa using hi)]
    simp [List.getElem?_eq_getElem hi]
  · rw [List.getElem?_eq_none (by simp at hlen; omega), List.getElem?_eq_none (by simp; omega)]

/-- the verdict of field `c` on the slot of key `k` -/
def Dk (ok nk : List Int) (c : Col) (k : Int) : Bool :=
  match (positions k ok).getLast?, (positions k nk).head? with
  | some r, some j => c.differs r j
  | _, _ => false

theorem fOld_cases (ok : List Int) (k : Int) :
    ((positions k ok).getLast? = none ∧ fOld ok k = -1) ∨
    (∃ r, (positions k ok).getLast? = some r ∧ fOld ok k = (r : Int) ∧ r < ok.length) := by
  unfold fOld
  cases h : (positions k ok).getLast? with
  | none => exact Or.inl ⟨rfl, rfl⟩
  | some r => exact Or.inr ⟨r, rfl, rfl, (mem_positions (List.mem_of_getLast? h)).1⟩

theorem fNew_cases (nk : List Int) (k : Int) :
    ((positions k nk).head? = none ∧ fNew nk k = -1) ∨
    (∃ j, (positions k nk).head? = some j ∧ fNew nk k = (j : Int) ∧ j < nk.length) := by
  unfold fNew
  cases h : (positions k nk).head? with
  | none => exact Or.inl ⟨rfl, rfl⟩
  | some j => exact Or.inr ⟨j, rfl, rfl, (mem_positions (List.mem_of_mem_head? h)).1⟩

section cmp
variable (ok nk : List Int)

theorem compareCol_spec (c : Col) (hwf : c.WF ok.length nk.length) (g : Int → Bool) :
    compareCol ((keyUnion ok nk).map (fOld ok)) ((keyUnion ok nk).map (fNew nk)) ((keyUnion ok nk).map g) c.enc =
      .ok ((keyUnion ok nk).map (fun k => g k || slotKeep (fOld ok k) (fNew nk k) (Dk ok nk c k))) := by
  cases c with
  | num o n =>
    obtain ⟨ho, hn⟩ := hwf
    simp only [Col.enc, compareCol, compareRows]
    apply compare_loop_map
    intro k _ h1 h2
    rcases fOld_cases ok k with ⟨_, e⟩ | ⟨r, hr, er, hrl⟩
    · exact absurd e h1
    rcases fNew_cases nk k with ⟨_, e⟩ | ⟨j, hj, ej, hjl⟩
    · exact absurd e h2
    have hro : r < o.length := by omega
    have hjn : j < n.length := by omega
    simp only [numDiffers, er, ej, getI_of_nat _ hro, getI_of_nat _ hjn, bind, Except.bind, pure, Except.pure, Dk, hr, hj,
      Col.differs, List.getElem?_eq_getElem hro, List.getElem?_eq_getElem hjn]
    first | rfl | (congr 1; simp) | simp
  | str o n =>
    obtain ⟨ho, hn⟩ := hwf
    simp only [Col.enc, compareCol, compareIndexedRows]
    have hl1 : (((keyUnion ok nk).map (fOld ok)).length != ((keyUnion ok nk).map (fNew nk)).length) = false := by simp
    have hlo : (encode o).1.getLast? = some (encode o).2.length := by simp [encode, offsetsFrom_getLast?]
    have hln : (encode n).1.getLast? = some (encode n).2.length := by simp [encode, offsetsFrom_getLast?]
    rw [hlo, hln]
    simp only [hl1, bne_self_eq_false, Bool.false_eq_true, if_false]
    apply compare_loop_map
    intro k _ h1 h2
    rcases fOld_cases ok k with ⟨_, e⟩ | ⟨r, hr, er, hrl⟩
    · exact absurd e h1
    rcases fNew_cases nk k with ⟨_, e⟩ | ⟨j, hj, ej, hjl⟩
    · exact absurd e h2
    have hro : r < o.length := by omega
    have hjn : j < n.length := by omega
    simp only [strDiffers, er, ej, rowBytes_encode _ hro, rowBytes_encode _ hjn, bind, Except.bind, pure, Except.pure, Dk, hr, hj,
      Col.differs, List.getElem?_eq_getElem hro, List.getElem?_eq_getElem hjn]
    first | rfl | (congr 1; simp) | simp

theorem compareCols_spec : ∀ (cols : List Col) (_ : ∀ c, c ∈ cols → c.WF ok.length nk.length) (g : Int → Bool),
    compareCols ((keyUnion ok nk).map (fOld ok)) ((keyUnion ok nk).map (fNew nk)) (cols.map Col.enc) ((keyUnion ok nk).map g) =
      .ok ((keyUnion ok nk).map (fun k => g k || cols.any (fun c => slotKeep (fOld ok k) (fNew nk k) (Dk ok nk c k))))
  | [], _, g => by simp [compareCols]
  | c :: cs, hwf, g => by
    simp only [List.map_cons, compareCols, compareCol_spec ok nk c (hwf c (by simp)) g]
    rw [compareCols_spec cs (fun c' hc' => hwf c' (by simp [hc']))]
    congr 1
    apply List.map_congr_left
    intro k _
    simp only [List.any_cons, Bool.or_assoc]

/-- **to_keep**: after the compare loop over all compared fields (at least one), a slot is kept iff its key is new or
    the snapshot row differs from the last old version in some field -/
theorem compareCols_toKeep (cols : List Col) (hne : cols ≠ []) (hwf : ∀ c, c ∈ cols → c.WF ok.length nk.length) :
    compareCols (indices ok nk).1 (indices ok nk).2 (cols.map Col.enc) (List.replicate (indices ok nk).1.length false) =
      .ok (toKeep ok nk (differsAny cols)) := by
  have hrep : List.replicate (indices ok nk).1.length false = (keyUnion ok nk).map (fun _ => false) := by
    rw [(indices_length ok nk).1, List.map_const']
  rw [hrep, indices_eq_map]
  simp only
  rw [compareCols_spec ok nk cols hwf, toKeep_eq_map]
  congr 1
  apply List.map_congr_left
  intro k hk
  simp only [Bool.false_or, gKeep]
  rcases fOld_cases ok k with ⟨hr, er⟩ | ⟨r, hr, er, hrl⟩
  · rcases fNew_cases nk k with ⟨hj, ej⟩ | ⟨j, hj, ej, hjl⟩
    · exfalso
      rcases mem_keyUnion.1 hk with h | h
      · have := positions_ne_nil h
        rw [List.getLast?_eq_none_iff] at hr; exact this hr
      · have := positions_ne_nil h
        rw [List.head?_eq_none_iff] at hj; exact this hj
    · rw [hr, hj, er]
      simp only [keepFlag, slotKeep, beq_self_eq_true, if_true]
      cases cols with
      | nil => exact absurd rfl hne
      | cons c cs => simp
  · have hne1 : ((r : Int) == -1) = false := by
      rw [beq_eq_false_iff_ne]; omega
    rcases fNew_cases nk k with ⟨hj, ej⟩ | ⟨j, hj, ej, hjl⟩
    · rw [hr, hj, er, ej]
      simp [keepFlag, slotKeep, hne1]
    · have hne2 : ((j : Int) == -1) = false := by
        rw [beq_eq_false_iff_ne]; omega
      rw [hr, hj, er, ej]
      simp only [keepFlag, slotKeep, hne1, hne2, Bool.false_eq_true, if_false, Dk, hr, hj, differsAny]

end cmp


/-! ### the merge loop -/

section mrg
variable {ok nk : List Int} (hso : ok.Pairwise (· ≤ ·)) (hsn : nk.Pairwise (· < ·)) (d : Nat → Nat → Bool)

omit hso hsn in
theorem hold_fOld (len : Nat) (ho : len = ok.length) (k : Int) : (fOld ok k + 1).toNat ≤ len := by
  rcases fOld_cases ok k with ⟨_, e⟩ | ⟨r, _, e, hr⟩
  · rw [e]; simp
  · rw [e]; omega

omit hso hsn in
theorem hnew_fNew (len : Nat) (hn : len = nk.length) (k : Int) (hk : gKeep ok nk d k = true) :
    0 ≤ fNew nk k ∧ (fNew nk k).toNat < len := by
  rcases fNew_cases nk k with ⟨h, _⟩ | ⟨j, _, e, hj⟩
  · simp [gKeep, h, keepFlag] at hk
  · rw [e]; omega

include hso hsn

theorem column_plan_length {α} (o n : List α) (ho : o.length = ok.length) (hn : n.length = nk.length) :
    (column (plan ok nk d) o n).length = ok.length + (toKeep ok nk d).count true := by
  rw [column_length_of_valid, (plan_facts d hso hsn).2.2]
  intro x hx
  have := plan_valid d ok nk x hx
  cases x <;> simp only at this ⊢ <;> omega

theorem mergeCol_spec (c : Col) (hwf : c.WF ok.length nk.length) :
    mergeCol (indices ok nk).1 (indices ok nk).2 (toKeep ok nk d) (ok.length + (toKeep ok nk d).count true) c.enc =
      .ok (c.out (plan ok nk d)) := by
  have hplan := (plan_facts d hso hsn).1
  rw [indices_eq_map, toKeep_eq_map]
  cases c with
  | num o n =>
    obtain ⟨ho, hn⟩ := hwf
    have hlen := column_plan_length hso hsn d o n ho hn
    rw [toKeep_eq_map] at hlen
    simp only [Col.enc, mergeCol, Col.out]
    rw [mergeEntries_plan (keyUnion ok nk) (fOld ok) (fNew nk) (gKeep ok nk d) o n _
      (fun k _ => hold_fOld o.length ho k) (fun k _ hk => hnew_fNew d n.length hn k hk) (by rw [hplan, hlen]; exact Nat.le_refl _)]
    simp only [hplan, hlen, Nat.sub_self, List.replicate_zero, List.append_nil]
  | str o n =>
    obtain ⟨ho, hn⟩ := hwf
    have hlen := column_plan_length hso hsn d o n ho hn
    rw [toKeep_eq_map] at hlen
    simp only [Col.enc, mergeCol, Col.out]
    rw [mergeIndexedCount_plan (keyUnion ok nk) (fOld ok) (fNew nk) (gKeep ok nk d) o n
      (fun k _ => hold_fOld o.length ho k) (fun k _ hk => hnew_fNew d n.length hn k hk)]
    simp only
    have := mergeIndexedEntries_plan (keyUnion ok nk) (fOld ok) (fNew nk) (gKeep ok nk d) o n
      (fun k _ => hold_fOld o.length ho k) (fun k _ hk => hnew_fNew d n.length hn k hk)
    rw [hplan, hlen] at this
    rw [hplan, this]

theorem mergeCols_spec : ∀ (cols : List Col), (∀ c, c ∈ cols → c.WF ok.length nk.length) →
    mergeCols (indices ok nk).1 (indices ok nk).2 (toKeep ok nk d) (ok.length + (toKeep ok nk d).count true) (cols.map Col.enc) =
      .ok (cols.map (Col.out (plan ok nk d)))
  | [], _ => rfl
  | c :: cs, hwf => by
    simp only [List.map_cons, mergeCols, mergeCol_spec hso hsn d c (hwf c (by simp)),
      mergeCols_spec cs (fun c' hc' => hwf c' (by simp [hc']))]

/-- **journal_table on sorted tables**: the result fields are the compared fields read along the specification's plan -/
theorem journalSorted_eq (cols : List Col) (hwf : ∀ c, c ∈ cols → c.WF ok.length nk.length) :
    journalSorted ok nk (cols.map Col.enc) ok.length = .ok (cols.map (Col.out (plan ok nk (differsAny cols)))) := by
  unfold journalSorted
  rw [journalIndices_eq hso hsn]
  simp only
  by_cases hne : cols = []
  · subst hne; simp [compareCols, mergeCols]
  · rw [compareCols_toKeep ok nk cols hne hwf]
    simp only
    exact mergeCols_spec hso hsn (differsAny cols) cols hwf

end mrg

end Exetera.Journal
