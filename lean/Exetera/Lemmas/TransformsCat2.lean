import Exetera.Lemmas.TransformsCat
/-! C06: the row loop of `categorical_transform`, and the packed, sorted table against the plain `lookup`. -/
namespace Exetera.Transforms
open Exetera Exetera.Spec.Transforms

/-- the code the scan leaves in `chunk[row]` (the buffer is zero-initialised) -/
def scanCode (tbl : List (Bytes × Int)) (cell : Bytes) : Int := (lastMatch cell tbl none).getD 0

theorem catRows_spec (tbl : List (Bytes × Int)) (c : Chunk) (rest : List Bytes) (i s n : Nat) (done : List Int)
    (h : EncFrom c i s rest) (hn : rest.length ≤ n) (hd : done.length = i) :
    catRows (packTable tbl) c n i (done ++ List.replicate rest.length 0)
      = .ok (done ++ rest.map (scanCode tbl)) := by
  induction rest generalizing i s n done with
  | nil =>
    cases n with
    | zero => simp [catRows]
    | succ n => simp [catRows, hd]
  | cons cell rest ih =>
    cases n with
    | zero => simp at hn
    | succ n =>
      have hlt : ¬ (i ≥ (done ++ List.replicate (cell :: rest).length 0).length) := by simp; omega
      rw [catRows]
      simp only [hlt, if_false]
      rw [matchRow_spec tbl c i s cell rest h]
      have hrest := h.2.2.2
      cases hm : lastMatch cell tbl none with
      | none =>
        simp only
        have e : done ++ List.replicate (cell :: rest).length 0 = (done ++ [0]) ++ List.replicate rest.length 0 := by
          simp [List.replicate_succ]
        rw [e, ih (i + 1) (s + cell.length) n (done ++ [0]) hrest (by simpa using hn) (by simp [hd])]
        simp [scanCode, hm]
      | some v =>
        simp only
        have := setE_prefix done rest.length 0 v "chunk[row_idx]"
        rw [hd] at this
        simp only [List.length_cons, this]
        rw [ih (i + 1) (s + cell.length) n (done ++ [v]) hrest (by simpa using hn) (by simp [hd])]
        simp [scanCode, hm]

theorem categoricalTransform_packTable (tbl : List (Bytes × Int)) (c : Chunk) (cells : List Bytes)
    (h : Encodes c cells) : categoricalTransform (packTable tbl) c = .ok (cells.map (scanCode tbl)) := by
  obtain ⟨hr, ⟨s0, he, _⟩, hcol⟩ := h
  have hlt := he.lt_inds
  have := catRows_spec tbl c cells 0 s0 (c.inds.length - 1) [] he (by omega) rfl
  rw [categoricalTransform, withCol_ok c _ _ _ hcol]
  simpa [hr] using this

/-! ### `lastMatch` on a table with pairwise different keys is the whole-cell lookup, in any order -/

theorem lastMatch_of_not_mem (cell : Bytes) (l : List (Bytes × Int)) (acc : Option Int)
    (h : ∀ kv ∈ l, kv.1 ≠ cell) : lastMatch cell l acc = acc := by
  induction l generalizing acc with
  | nil => rfl
  | cons kv l ih =>
    have h1 : ¬ kv.1 = cell := h kv (by simp)
    rw [lastMatch]; simp only [h1, if_false]
    exact ih acc (fun kv' hk => h kv' (by simp [hk]))

theorem lastMatch_eq_lookup (cell : Bytes) (l : List (Bytes × Int)) (hnd : (l.map (·.1)).Nodup) :
    lastMatch cell l none = lookup l cell := by
  induction l with
  | nil => rfl
  | cons kv l ih =>
    simp only [List.map_cons, List.nodup_cons] at hnd
    rw [lastMatch, lookup, List.find?_cons]
    by_cases hk : kv.1 = cell
    · have hb : (kv.1 == cell) = true := by simp [hk]
      simp only [hk, if_true, hb, Option.map_some]
      have hcc : (cell == cell) = true := by simp
      simp only [hcc, Option.map_some]
      apply lastMatch_of_not_mem
      intro kv' hm hc
      apply hnd.1
      rw [hk, ← hc]
      exact List.mem_map_of_mem hm
    · have hb : (kv.1 == cell) = false := by simp [hk]
      simp only [hk, if_false, hb]
      exact ih hnd.2

theorem pair_eq_of_key_eq {l : List (Bytes × Int)} (hnd : (l.map (·.1)).Nodup) {a b : Bytes × Int}
    (ha : a ∈ l) (hb : b ∈ l) (hk : a.1 = b.1) : a = b := by
  induction l with
  | nil => cases ha
  | cons x l ih =>
    simp only [List.map_cons, List.nodup_cons] at hnd
    rcases List.mem_cons.mp ha with rfl | ha' <;> rcases List.mem_cons.mp hb with rfl | hb'
    · rfl
    · exact absurd (hk ▸ List.mem_map_of_mem hb') hnd.1
    · exact absurd (hk ▸ List.mem_map_of_mem ha') hnd.1
    · exact ih hnd.2 ha' hb'

theorem lookup_eq_some_iff {l : List (Bytes × Int)} (hnd : (l.map (·.1)).Nodup) (cell : Bytes) (v : Int) :
    lookup l cell = some v ↔ (cell, v) ∈ l := by
  constructor
  · intro h
    simp only [lookup, Option.map_eq_some_iff] at h
    obtain ⟨kv, hf, rfl⟩ := h
    have hm := List.mem_of_find?_eq_some hf
    have hp := List.find?_some hf
    have : kv.1 = cell := by simpa using hp
    rw [← this]; exact hm
  · intro hm
    cases hf : l.find? (fun kv => kv.1 == cell) with
    | none =>
      have := List.find?_eq_none.mp hf (cell, v) hm
      simp at this
    | some kv =>
      have hm' := List.mem_of_find?_eq_some hf
      have hp : kv.1 = cell := by simpa using List.find?_some hf
      have := pair_eq_of_key_eq hnd hm' hm hp
      simp [lookup, hf, this]

theorem lookup_eq_none_iff (l : List (Bytes × Int)) (cell : Bytes) :
    lookup l cell = none ↔ ∀ kv ∈ l, kv.1 ≠ cell := by
  simp [lookup, List.find?_eq_none]

/-- the lookup only depends on the set of (key, value) pairs -/
theorem lookup_perm {l₁ l₂ : List (Bytes × Int)} (hp : l₁.Perm l₂) (hnd : (l₁.map (·.1)).Nodup) (cell : Bytes) :
    lookup l₁ cell = lookup l₂ cell := by
  have hnd2 : (l₂.map (·.1)).Nodup := (hp.map _).nodup_iff.mp hnd
  cases h1 : lookup l₁ cell with
  | none =>
    symm
    rw [lookup_eq_none_iff] at h1 ⊢
    intro kv hk; exact h1 kv (hp.mem_iff.mpr hk)
  | some v =>
    symm
    rw [lookup_eq_some_iff hnd] at h1
    rw [lookup_eq_some_iff hnd2]
    exact hp.mem_iff.mp h1

theorem scanCode_getByteMap (cats : List (Bytes × Int)) (hnd : (cats.map (·.1)).Nodup) (cell : Bytes) :
    lastMatch cell (cats.mergeSort (fun a b => bytesLe a.1 b.1)) none = lookup cats cell := by
  have hp : (cats.mergeSort (fun a b => bytesLe a.1 b.1)).Perm cats := List.mergeSort_perm _ _
  have hnd' : ((cats.mergeSort (fun a b => bytesLe a.1 b.1)).map (·.1)).Nodup := (hp.map _).nodup_iff.mpr hnd
  rw [lastMatch_eq_lookup _ _ hnd', lookup_perm hp hnd']

end Exetera.Transforms
