import Exetera.Lemmas.MapValidIndexed2
/-! Helper lemmas for C04, part 6: one sub-chunk of the map, one map chunk and the whole indexed stream against
    `Spec.mapIndexedSpec`. Core Lean only. -/
namespace Exetera.MapValid

open Exetera Exetera.Spec

/-! ### stored indexed fields -/

theorem entries_length {β} (indices : List Int) (values : List β) :
    (entries indices values).length = indices.length - 1 := by
  simp only [entries, List.length_zipWith, List.length_tail]; omega

theorem entries_getElem? {β} (indices : List Int) (values : List β) (j : Nat) (a b : Int)
    (ha : indices[j]? = some a) (hb : indices[j + 1]? = some b) :
    (entries indices values)[j]? = some (slice values a.toNat b.toNat) := by
  simp only [entries, List.getElem?_zipWith, List.getElem?_tail, ha, hb, slice]

theorem winOK_of_indexedOK {β} (indices : List Int) (values : List β) (h : IndexedOK indices values) :
    WinOK indices values := by
  obtain ⟨hhead, hpw, hlast⟩ := h
  have mono : ∀ (i j : Nat) (x y : Int), i ≤ j → indices[i]? = some x → indices[j]? = some y → x ≤ y := by
    intro i j x y hij hi hj
    obtain ⟨hil, hix⟩ := List.getElem?_eq_some_iff.mp hi
    obtain ⟨hjl, hjy⟩ := List.getElem?_eq_some_iff.mp hj
    by_cases heq : i = j
    · subst heq; rw [hix] at hjy; omega
    · have := List.pairwise_iff_getElem.mp hpw i j hil hjl (by omega)
      rw [hix, hjy] at this; exact this
  refine ⟨mono, ?_, ?_⟩
  · intro i x hi
    have h0 : indices[0]? = some 0 := by
      cases indices with
      | nil => simp at hhead
      | cons a as => simpa using hhead
    exact mono 0 i 0 x (by omega) h0 hi
  · intro i x hi
    have hil := (List.getElem?_eq_some_iff.mp hi).1
    have hl : indices[indices.length - 1]? = some (values.length : Int) := by
      rw [List.getLast?_eq_getElem?] at hlast; exact hlast
    exact mono i (indices.length - 1) x _ (by omega) hi hl

theorem winOK_slice {β} (indices : List Int) (values : List β) (a b : Nat) (h : WinOK indices values) :
    WinOK (slice indices a b) values := by
  refine ⟨?_, ?_, ?_⟩
  · intro i j x y hij hi hj
    rw [slice_getElem?] at hi hj
    split at hi
    · split at hj
      · exact h.mono (a + i) (a + j) x y (by omega) hi hj
      · simp at hj
    · simp at hi
  · intro i x hi
    rw [slice_getElem?] at hi
    split at hi
    · exact h.nonneg _ x hi
    · simp at hi
  · intro i x hi
    rw [slice_getElem?] at hi
    split at hi
    · exact h.le_len _ x hi
    · simp at hi

/-- entry `j` of the window `indices[F : F+N+1]` is entry `F + j` of the field -/
theorem wentry_window {β} (indices : List Int) (values : List β) (F N j : Nat) (hj : j < N)
    (hlen : F + N + 1 ≤ indices.length) :
    (entries indices values)[F + j]? = some (wentry (slice indices F (F + N + 1)) values j) := by
  have h1 : F + j < indices.length := by omega
  have h2 : F + j + 1 < indices.length := by omega
  rw [entries_getElem? indices values (F + j) _ _ (List.getElem?_eq_getElem h1) (List.getElem?_eq_getElem h2)]
  simp only [wentry, List.getD_eq_getElem?_getD, slice_getElem?]
  have c1 : j < F + N + 1 - F := by omega
  have c2 : j + 1 < F + N + 1 - F := by omega
  simp only [c1, c2, if_true, List.getElem?_eq_getElem h1, Option.getD_some]
  have : indices[F + (j + 1)]? = some indices[F + j + 1] := by
    have : F + (j + 1) = F + j + 1 := by omega
    rw [this]; exact List.getElem?_eq_getElem h2
  rw [this]
  rfl

/-! ### one sub-chunk of the map -/

/-- what processing the map positions `[x, y)` adds to the destination -/
def Adds {β} (esL : List (List β)) (x y : Nat) (o o' : IO β) : Prop :=
  o'.accum = o.accum + sumLen (slice esL x y) ∧
  o'.outI = o.outI ++ runSums o.accum (slice esL x y) ∧
  o'.outV = o.outV ++ (slice esL x y).flatten

/-- the D5 error at the level of the stored field: raised, and only because some mapped entry exceeds the buffer -/
def OversizeE {β} (E : List (List β)) (map_ : List Int) (inv : Int) (cap : Nat) (e : Err) : Prop :=
  e = .valueError "entry does not fit the value buffer" ∧
  ∃ (p : Nat) (k : Int) (x : List β), map_[p]? = some k ∧ k ≠ inv ∧ 0 ≤ k ∧ E[k.toNat]? = some x ∧ cap < x.length

theorem indexedSubBody_spec {β} (indices : List Int) (values : List β) (map_ : List Int) (inv : Int) (cs vf : Nat)
    (sS sE : Nat) (o : IO β) (esL : List (List β))
    (hok : IndexedOK indices values) (hse : sS < sE) (hsE : sE ≤ map_.length) (hcs : map_.length ≤ cs)
    (hesLen : esL.length = map_.length)
    (hr : InRange (entries indices values).length map_ inv) (hm : MonoOn map_ inv sS sE)
    (hes : ∀ (p : Nat) (k : Int), map_[p]? = some k → esL[p]? = lookup (entries indices values) inv [] k) :
    (∃ o', indexedSubBody indices values map_ inv cs vf (sS, sE) o = .ok o' ∧ Adds esL sS sE o o' ∧
      ∀ x ∈ slice esL sS sE, x.length ≤ cs * vf) ∨
    (∃ e, indexedSubBody indices values map_ inv cs vf (sS, sE) o = .error e ∧
      OversizeE (entries indices values) map_ inv (cs * vf) e) := by
  obtain ⟨d, hd, hcase⟩ := extents_spec map_ sS sE inv hse hsE
  rcases hcase with ⟨hinv, hall⟩ | ⟨hne, hne2, p0, p1, hp0, hp01, hp1, hm0, hm1, hbetween⟩
  · -- every entry is the marker: `sE - sS` copies of the current offset
    have hnil : ∀ x ∈ slice esL sS sE, x = [] := by
      intro x hx
      obtain ⟨j, hj, hjx⟩ := List.getElem_of_mem hx
      have hjx' : (slice esL sS sE)[j]? = some x := by rw [List.getElem?_eq_getElem hj, hjx]
      rw [slice_getElem?] at hjx'
      split at hjx'
      · rename_i hjlt
        have hk := hall (sS + j) (by omega) (by omega)
        have := hes (sS + j) inv hk
        rw [hjx'] at this
        simpa [lookup] using this
      · simp at hjx'
    obtain ⟨g1, g2, g3⟩ := runSums_all_nil o.accum (slice esL sS sE) hnil
    have hlen : (slice esL sS sE).length = sE - sS := slice_length_le _ _ _ (by omega)
    refine Or.inl ⟨{ o with outI := o.outI ++ List.replicate (min (sE - sS) cs) o.accum }, ?_, ⟨?_, ?_, ?_⟩, ?_⟩
    · simp only [indexedSubBody, hd, hinv, beq_self_eq_true, if_true]
    · simp only [g2]; omega
    · have : min (sE - sS) cs = sE - sS := by omega
      simp only [g1, hlen, this]
    · simp only [g3, List.append_nil]
    · intro x hx
      rw [hnil x hx]; simp
  · have hne' : (d.1 == inv) = false := by simpa using hne
    obtain ⟨hf0, hfn⟩ := hr p0 d.1 hm0 hne
    obtain ⟨hl0, hln⟩ := hr p1 d.2 hm1 hne2
    have hfl : d.1 ≤ d.2 := hm p0 p1 d.1 d.2 hp0 hp01 hp1 hm0 hm1 hne hne2
    rw [entries_length] at hfn hln
    -- the offsets window
    have hN : (d.2 - d.1 + 1).toNat = d.2.toNat - d.1.toNat + 1 := by omega
    generalize hNdef : d.2.toNat - d.1.toNat = N0 at hN
    have hwinlen : d.1.toNat + (N0 + 1) + 1 ≤ indices.length := by omega
    have hix : pySlice indices d.1 (d.2 + 2) = slice indices d.1.toNat (d.1.toNat + (N0 + 1) + 1) := by
      rw [pySlice_nonneg indices d.1 (d.2 + 2) hf0 (by omega) (by omega) (by omega)]
      congr 1; omega
    have hwok : WinOK (slice indices d.1.toNat (d.1.toNat + (N0 + 1) + 1)) values :=
      winOK_slice _ _ _ _ (winOK_of_indexedOK _ _ hok)
    have hixlen : (slice indices d.1.toNat (d.1.toNat + (N0 + 1) + 1)).length = (N0 + 1) + 1 := by
      rw [slice_length_le _ _ _ hwinlen]; omega
    generalize hixdef : slice indices d.1.toNat (d.1.toNat + (N0 + 1) + 1) = ix at hix hwok hixlen
    obtain ⟨subs, hsubs, htiles⟩ := chunkDecomp_spec ix ((cs * vf : Nat) : Int) 0 (N0 + 1) (by omega) (by omega)
    obtain ⟨y0, hy0⟩ := Tiles.head htiles (by omega)
    obtain ⟨_, u2, u3, _⟩ := Tiles.getElem? htiles 0 0 y0 hy0
    have hg0 : ix[0]? = some ix[0] := List.getElem?_eq_getElem (by omega)
    have hgy : ix[y0]? = some ix[y0] := List.getElem?_eq_getElem (by omega)
    have hvw := valueWindow_spec ix values (0, y0) ix[0] ix[y0] hwok (by simp only []; omega) hg0 hgy
    have hgs : getE subs 0 "sub_chunks[0]" = .ok (0, y0) := by simp [getE, hy0]
    have hwe : ∀ (p : Nat) (k : Int), sS ≤ p → p < sE → map_[p]? = some k → k ≠ inv →
        0 ≤ k ∧ (entries indices values)[k.toNat]? = some (wentry ix values (k - d.1).toNat) := by
      intro p k hp1' hp2' hpk hki
      obtain ⟨b1, b2⟩ := hbetween p k hp1' hp2' hpk hki
      have c1 := hm p0 p d.1 k hp0 b1 hp2' hm0 hpk hne hki
      have c2 := hm p p1 k d.2 hp1' b2 hp1 hpk hm1 hki hne2
      have hk0 : 0 ≤ k := by omega
      have hj : (k - d.1).toNat < N0 + 1 := by omega
      have := wentry_window indices values d.1.toNat (N0 + 1) (k - d.1).toNat hj hwinlen
      rw [hixdef] at this
      have hkk : d.1.toNat + (k - d.1).toNat = k.toNat := by omega
      rw [hkk] at this
      exact ⟨hk0, this⟩
    have hloop := innerLoop_spec map_ sS sE ix values subs d.1 (N0 + 1) cs (cs * vf) inv esL
      o.accum o.outI o.outV hwok hixlen htiles hsE (by omega) (by omega)
      (by
        intro p k hp1' hp2' hpk hki
        obtain ⟨b1, b2⟩ := hbetween p k hp1' hp2' hpk hki
        have c1 := hm p0 p d.1 k hp0 b1 hp2' hm0 hpk hne hki
        have c2 := hm p p1 k d.2 hp1' b2 hp1 hpk hm1 hki hne2
        omega)
      hm
      (by
        intro p k hp1' hp2' hpk
        rw [hes p k hpk]
        by_cases hki : k = inv
        · simp [lookup, hki]
        · obtain ⟨hk0, hent⟩ := hwe p k hp1' hp2' hpk hki
          simp [lookup, hki, hk0, hent])
      (0, y0) (slice values ix[0].toNat ix[y0].toNat) (by omega) hy0 rfl ⟨ix[0], ix[y0], hg0, hgy, rfl⟩
    rcases hloop with ⟨w, hrun, hacc, hoI, hoV, hfit⟩ | ⟨e, hrun, herr, p, k, hp1', hp2', hpk, hki, hbig⟩
    · refine Or.inl ⟨⟨w.accum, w.outI, w.outV⟩, ?_, ⟨hacc, hoI, hoV⟩, hfit⟩
      simp only [indexedSubBody, hd, hne', hix, hN, hsubs, hgs, hvw, hrun]
      simp
    · obtain ⟨hk0, hent⟩ := hwe p k hp1' hp2' hpk hki
      refine Or.inr ⟨e, ?_, herr, p, k, _, hpk, hki, hk0, hent, hbig⟩
      simp only [indexedSubBody, hd, hne', hix, hN, hsubs, hgs, hvw, hrun]
      simp

end Exetera.MapValid
