import Exetera.Gen.Kernels
import Exetera.Model.Join
import Exetera.Lemmas.GenKernels
/-!
  The TRANSLATED join kernels (C03) against the guard/body models of `Model/Join.lean`:

    generate_ordered_map_to_left_both_unique_partial          ~  runPartial .leftBU
    generate_ordered_map_to_left_remaining                    ~  runRemaining            (both result buffers)
    generate_ordered_map_to_left_right_unique_remaining       ~  runRemaining            (r_result only)

  The model represents the two chunk-sized result buffers by the lists of values written so far (`lb`, `rb`, `r = rb.length`);
  the translated kernels, like the code, write position `r` of fixed-size arrays.  The simulation relation is
  "`buffer[:r]` = the model's list, `len(buffer)` = the capacity, loop variables equal"; `whileE_sim` lifts the
  one-iteration lemmas to the loops (same fuel on both sides), so every `.ok` result of the model is a result of the
  translated kernel.
-/
namespace Exetera.GenK

open Exetera Exetera.PyRt Exetera.Gen.Kernels Exetera.Join

/-- simulation of one `whileE` loop by another: equal guards and matching successful iterations on related states -/
theorem whileE_sim {σ τ} (R : σ → τ → Prop) (g1 : σ → Bool) (b1 : σ → Except Err σ) (g2 : τ → Bool) (b2 : τ → Except Err τ)
    (hg : ∀ s t, R s t → g1 s = g2 t)
    (hb : ∀ s t t', R s t → g2 t = true → b2 t = .ok t' → ∃ s', b1 s = .ok s' ∧ R s' t') :
    ∀ (n : Nat) (s : σ) (t t' : τ), R s t → whileE g2 b2 n t = .ok t' → ∃ s', whileE g1 b1 n s = .ok s' ∧ R s' t' := by
  intro n
  induction n with
  | zero =>
    intro s t t' hR h
    cases hgt : g2 t with
    | true => simp [whileE, hgt] at h
    | false =>
      simp only [whileE, hgt, Bool.false_eq_true, if_false, Except.ok.injEq] at h
      subst h
      exact ⟨s, by simp [whileE, hg s t hR, hgt], hR⟩
  | succ n ih =>
    intro s t t' hR h
    cases hgt : g2 t with
    | false =>
      simp only [whileE, hgt, Bool.false_eq_true, if_false, Except.ok.injEq] at h
      subst h
      exact ⟨s, by simp [whileE, hg s t hR, hgt], hR⟩
    | true =>
      simp only [whileE, hgt, if_true] at h
      cases hbt : b2 t with
      | error e => simp [hbt] at h
      | ok t1 =>
        simp only [hbt] at h
        obtain ⟨s1, hb1, hR1⟩ := hb s t t1 hR hgt hbt
        obtain ⟨s', hw, hR'⟩ := ih s1 t1 t' hR1 h
        exact ⟨s', by simp [whileE, hg s t hR, hgt, hb1, hw], hR'⟩

/-- writing position `r` extends the written prefix by one value -/
theorem take_set_succ {α} (xs : List α) (r : Nat) (v : α) (h : r < xs.length) :
    (xs.set r v).take (r + 1) = xs.take r ++ [v] := by
  rw [List.take_add_one]
  simp [h, List.take_set_of_le]

theorem push_inv {cap : Nat} {k k' : K} {a b : Int} {site : String} (h : push cap k a b site = .ok k') :
    k.rb.length < cap ∧ k' = { k with lb := k.lb ++ [a], rb := k.rb ++ [b] } := by
  unfold push at h
  split at h
  · rename_i hlt
    simp only [Except.ok.injEq] at h
    exact ⟨hlt, h.symm⟩
  · simp at h

/-! ### generate_ordered_map_to_left_remaining / …_right_unique_remaining -/

namespace Rem

abbrev St := generate_ordered_map_to_left_remaining.St

def R (p : P) (s : St) (k : K) : Prop :=
  s.p0 = (p.iMax : Int) ∧ s.p3 = (p.iOff : Int) ∧ s.p6 = p.inv ∧ s.p4 = (k.i : Int) ∧ s.p5 = (k.rb.length : Int) ∧
  s.p1.length = p.cap ∧ s.p2.length = p.cap ∧ k.lb.length = k.rb.length ∧
  s.p1.take k.rb.length = k.lb ∧ s.p2.take k.rb.length = k.rb

theorem guard_eq (p : P) (s : St) (k : K) (h : R p s k) :
    generate_ordered_map_to_left_remaining.guard_L1 s = (decide (k.i < p.iMax) && decide (k.r < p.cap)) := by
  obtain ⟨h0, _, _, h4, h5, h1l, _⟩ := h
  simp only [generate_ordered_map_to_left_remaining.guard_L1, h0, h4, h5, pyLen, h1l]
  rw [Bool.eq_iff_iff]
  simp only [Bool.and_eq_true, decide_eq_true_eq]
  have hr : k.r = k.rb.length := rfl
  omega

theorem body_sim (p : P) (s : St) (k k' : K) (h : R p s k) (hb : remainingBody p k = .ok k') :
    ∃ s', generate_ordered_map_to_left_remaining.body_L1 s = .ok s' ∧ R p s' k' := by
  obtain ⟨h0, h3, h6, h4, h5, h1l, h2l, hll, ht1, ht2⟩ := h
  simp only [remainingBody, bind, Except.bind, pure, Except.pure] at hb
  cases hp : push p.cap k ((p.iOff + k.i : Nat) : Int) p.inv "result[r]" with
  | error e => rw [hp] at hb; simp at hb
  | ok k1 =>
    rw [hp] at hb
    simp only [Except.ok.injEq] at hb
    obtain ⟨hlt, hk1⟩ := push_inv hp
    subst hk1
    subst hb
    have e2 : (k.i : Int) + 1 = ((k.i + 1 : Nat) : Int) := by omega
    have e3 : (k.rb.length : Int) + 1 = ((k.rb.length + 1 : Nat) : Int) := by omega
    have e1 : (p.iOff : Int) + (k.i : Int) = ((p.iOff + k.i : Nat) : Int) := by omega
    simp only [generate_ordered_map_to_left_remaining.body_L1, h3, h4, h5, h6, e1, setIdxE_nat, setE,
      show k.rb.length < s.p1.length by omega, show k.rb.length < s.p2.length by omega, if_true, bindE_ok, e2, e3]
    refine ⟨_, rfl, (by first | rfl | assumption), (by first | rfl | assumption), (by first | rfl | assumption), (by first | rfl | assumption), by simp, by simpa using h1l, by simpa using h2l, by simp [hll], ?_, ?_⟩
    · simp only [List.length_append, List.length_singleton]
      rw [take_set_succ _ _ _ (by omega), ht1]
    · simp only [List.length_append, List.length_singleton]
      rw [take_set_succ _ _ _ (by omega), ht2]

end Rem

/-- every `.ok` run of the model's `remaining` loop is a run of the translated kernel on buffers whose written prefixes are
    the model's lists; the returned buffers extend those prefixes accordingly -/
theorem left_remaining_ok (p : P) (k k' : K) (lbuf rbuf : List Int)
    (hl : lbuf.length = p.cap) (hr : rbuf.length = p.cap) (hlen : k.lb.length = k.rb.length)
    (h1 : lbuf.take k.rb.length = k.lb) (h2 : rbuf.take k.rb.length = k.rb)
    (h : runRemaining p k = .ok k') :
    ∃ lbuf' rbuf', generate_ordered_map_to_left_remaining.run p.iMax lbuf rbuf p.iOff k.i k.rb.length p.inv (p.iMax + 1)
        = .ok ((k'.i : Int), (k'.rb.length : Int), lbuf', rbuf') ∧
      lbuf'.length = p.cap ∧ rbuf'.length = p.cap ∧ lbuf'.take k'.rb.length = k'.lb ∧ rbuf'.take k'.rb.length = k'.rb := by
  unfold runRemaining at h
  obtain ⟨s', hw, hR⟩ := whileE_sim (Rem.R p) generate_ordered_map_to_left_remaining.guard_L1
    generate_ordered_map_to_left_remaining.body_L1 (fun s => decide (s.i < p.iMax) && decide (s.r < p.cap)) (remainingBody p)
    (Rem.guard_eq p) (fun s t t' hR _ hb => Rem.body_sim p s t t' hR hb) (p.iMax + 1)
    (⟨p.iMax, lbuf, rbuf, p.iOff, k.i, k.rb.length, p.inv⟩ : Rem.St) k k'
    ⟨rfl, rfl, rfl, rfl, rfl, hl, hr, hlen, h1, h2⟩ h
  obtain ⟨_, _, _, h4, h5, h1l, h2l, _, ht1, ht2⟩ := hR
  refine ⟨s'.p1, s'.p2, ?_, h1l, h2l, ht1, ht2⟩
  unfold generate_ordered_map_to_left_remaining.run
  have hw' : whileE generate_ordered_map_to_left_remaining.guard_L1 generate_ordered_map_to_left_remaining.body_L1 (p.iMax + 1)
      (⟨p.iMax, lbuf, rbuf, p.iOff, k.i, k.rb.length, p.inv⟩ : Rem.St) = .ok s' := hw
  simp only [hw', bindE_ok, h4, h5]

namespace RemRU

abbrev St := generate_ordered_map_to_left_right_unique_remaining.St

def R (p : P) (s : St) (k : K) : Prop :=
  s.p0 = (p.iMax : Int) ∧ s.p4 = p.inv ∧ s.p2 = (k.i : Int) ∧ s.p3 = (k.rb.length : Int) ∧
  s.p1.length = p.cap ∧ s.p1.take k.rb.length = k.rb

theorem guard_eq (p : P) (s : St) (k : K) (h : R p s k) :
    generate_ordered_map_to_left_right_unique_remaining.guard_L1 s = (decide (k.i < p.iMax) && decide (k.r < p.cap)) := by
  obtain ⟨h0, _, h2, h3, h1l, _⟩ := h
  simp only [generate_ordered_map_to_left_right_unique_remaining.guard_L1, h0, h2, h3, pyLen, h1l]
  rw [Bool.eq_iff_iff]
  simp only [Bool.and_eq_true, decide_eq_true_eq]
  have hr : k.r = k.rb.length := rfl
  omega

theorem body_sim (p : P) (s : St) (k k' : K) (h : R p s k) (hb : remainingBody p k = .ok k') :
    ∃ s', generate_ordered_map_to_left_right_unique_remaining.body_L1 s = .ok s' ∧ R p s' k' := by
  obtain ⟨h0, h4, h2, h3, h1l, ht⟩ := h
  simp only [remainingBody, bind, Except.bind, pure, Except.pure] at hb
  cases hp : push p.cap k ((p.iOff + k.i : Nat) : Int) p.inv "result[r]" with
  | error e => rw [hp] at hb; simp at hb
  | ok k1 =>
    rw [hp] at hb
    simp only [Except.ok.injEq] at hb
    obtain ⟨hlt, hk1⟩ := push_inv hp
    subst hk1
    subst hb
    have e2 : (k.i : Int) + 1 = ((k.i + 1 : Nat) : Int) := by omega
    have e3 : (k.rb.length : Int) + 1 = ((k.rb.length + 1 : Nat) : Int) := by omega
    simp only [generate_ordered_map_to_left_right_unique_remaining.body_L1, h2, h3, h4, setIdxE_nat, setE,
      show k.rb.length < s.p1.length by omega, if_true, bindE_ok, e2, e3]
    refine ⟨_, rfl, (by first | rfl | assumption), (by first | rfl | assumption), (by first | rfl | assumption), by simp, by simpa using h1l, ?_⟩
    simp only [List.length_append, List.length_singleton]
    rw [take_set_succ _ _ _ (by omega), ht]

end RemRU

theorem right_unique_remaining_ok (p : P) (k k' : K) (rbuf : List Int)
    (hr : rbuf.length = p.cap) (h2 : rbuf.take k.rb.length = k.rb) (h : runRemaining p k = .ok k') :
    ∃ rbuf', generate_ordered_map_to_left_right_unique_remaining.run p.iMax rbuf k.i k.rb.length p.inv (p.iMax + 1)
        = .ok ((k'.i : Int), (k'.rb.length : Int), rbuf') ∧
      rbuf'.length = p.cap ∧ rbuf'.take k'.rb.length = k'.rb := by
  unfold runRemaining at h
  obtain ⟨s', hw, hR⟩ := whileE_sim (RemRU.R p) generate_ordered_map_to_left_right_unique_remaining.guard_L1
    generate_ordered_map_to_left_right_unique_remaining.body_L1 (fun s => decide (s.i < p.iMax) && decide (s.r < p.cap))
    (remainingBody p) (RemRU.guard_eq p) (fun s t t' hR _ hb => RemRU.body_sim p s t t' hR hb) (p.iMax + 1)
    (⟨p.iMax, rbuf, k.i, k.rb.length, p.inv⟩ : RemRU.St) k k' ⟨rfl, rfl, rfl, rfl, hr, h2⟩ h
  obtain ⟨_, _, h2', h3', h1l, ht⟩ := hR
  refine ⟨s'.p1, ?_, h1l, ht⟩
  unfold generate_ordered_map_to_left_right_unique_remaining.run
  have hw' : whileE generate_ordered_map_to_left_right_unique_remaining.guard_L1
      generate_ordered_map_to_left_right_unique_remaining.body_L1 (p.iMax + 1)
      (⟨p.iMax, rbuf, k.i, k.rb.length, p.inv⟩ : RemRU.St) = .ok s' := hw
  simp only [hw', bindE_ok, h2', h3']

/-! ### generate_ordered_map_to_left_both_unique_partial -/

namespace BU

abbrev St := generate_ordered_map_to_left_both_unique_partial.St

def R (p : P) (s : St) (k : K) : Prop :=
  s.p0 = p.left ∧ s.p1 = p.right ∧ s.p3 = p.inv ∧ s.p4 = (p.jOff : Int) ∧
  s.v0 = (p.left.length : Int) ∧ s.v1 = (p.right.length : Int) ∧ s.v2 = (p.cap : Int) ∧
  s.p5 = (k.i : Int) ∧ s.p6 = (k.j : Int) ∧ s.p7 = (k.rb.length : Int) ∧
  s.p2.length = p.cap ∧ s.p2.take k.rb.length = k.rb

theorem guard_eq (p : P) (s : St) (k : K) (h : R p s k) :
    generate_ordered_map_to_left_both_unique_partial.guard_L1 s = partialGuard .leftBU p k := by
  obtain ⟨_, _, _, _, hv0, hv1, hv2, h5, h6, h7, _, _⟩ := h
  simp only [generate_ordered_map_to_left_both_unique_partial.guard_L1, hv0, hv1, hv2, h5, h6, h7, partialGuard]
  rw [Bool.eq_iff_iff]
  simp only [Bool.and_eq_true, decide_eq_true_eq]
  have hr : k.r = k.rb.length := rfl
  omega

theorem body_sim (p : P) (s : St) (k k' : K) (h : R p s k) (hb : partialBody .leftBU p k = .ok k') :
    ∃ s', generate_ordered_map_to_left_both_unique_partial.body_L1 s = .ok s' ∧ R p s' k' := by
  obtain ⟨h0, h1, h3, h4, hv0, hv1, hv2, h5, h6, h7, h2l, ht⟩ := h
  simp only [partialBody, uniqueBody, bind, Except.bind, pure, Except.pure, Variant.isLeft] at hb
  cases ha : getE p.left k.i "left[i]" with
  | error e => simp [ha] at hb
  | ok a =>
    cases hbb : getE p.right k.j "right[j]" with
    | error e => simp [ha, hbb] at hb
    | ok b =>
      simp only [ha, hbb] at hb
      have ha' : ∀ site, getE p.left k.i site = .ok a := fun site => by
        simp only [getE] at ha ⊢; cases hx : p.left[k.i]? <;> simp_all
      have hb' : ∀ site, getE p.right k.j site = .ok b := fun site => by
        simp only [getE] at hbb ⊢; cases hx : p.right[k.j]? <;> simp_all
      have e5 : (k.i : Int) + 1 = ((k.i + 1 : Nat) : Int) := by omega
      have e6 : (k.j : Int) + 1 = ((k.j + 1 : Nat) : Int) := by omega
      have e7 : (k.rb.length : Int) + 1 = ((k.rb.length + 1 : Nat) : Int) := by omega
      simp only [generate_ordered_map_to_left_both_unique_partial.body_L1, h0, h1, h5, h6, idxE_nat, ha', hb', bindE_ok]
      by_cases hlt : a < b
      · simp only [hlt, if_true, decide_true] at hb ⊢
        cases hp : push p.cap k ((k.i + p.iOff : Nat) : Int) p.inv "result[r]" with
        | error e => rw [hp] at hb; simp at hb
        | ok k1 =>
          rw [hp] at hb
          simp only [Except.ok.injEq] at hb
          obtain ⟨hcap, hk1⟩ := push_inv hp
          subst hk1
          subst hb
          simp only [h3, h7, setIdxE_nat, setE, show k.rb.length < s.p2.length by omega, if_true, bindE_ok, e5, e7]
          refine ⟨_, rfl, (by first | rfl | assumption), (by first | rfl | assumption), (by first | rfl | assumption), (by first | rfl | assumption), (by first | rfl | assumption), (by first | rfl | assumption), (by first | rfl | assumption), (by first | rfl | assumption), (by first | rfl | assumption), by simp, by simpa using h2l, ?_⟩
          simp only [List.length_append, List.length_singleton]
          rw [take_set_succ _ _ _ (by omega), ht]
      · simp only [hlt, if_false, decide_false, Bool.false_eq_true] at hb ⊢
        by_cases hgt : a > b
        · simp only [hgt, if_true, decide_true, Except.ok.injEq] at hb ⊢
          subst hb
          simp only [e6]
          exact ⟨_, rfl, (by first | rfl | assumption), (by first | rfl | assumption), (by first | rfl | assumption), (by first | rfl | assumption), (by first | rfl | assumption), (by first | rfl | assumption), (by first | rfl | assumption), (by first | rfl | assumption), (by first | rfl | assumption), (by first | rfl | assumption), h2l, ht⟩
        · simp only [hgt, if_false, decide_false, Bool.false_eq_true] at hb ⊢
          cases hp : push p.cap k ((k.i + p.iOff : Nat) : Int) ((k.j + p.jOff : Nat) : Int) "result[r]" with
          | error e => rw [hp] at hb; simp at hb
          | ok k1 =>
            rw [hp] at hb
            simp only [Except.ok.injEq] at hb
            obtain ⟨hcap, hk1⟩ := push_inv hp
            subst hk1
            subst hb
            have e4 : (k.j : Int) + (p.jOff : Int) = ((k.j + p.jOff : Nat) : Int) := by omega
            simp only [h4, h7, e4, setIdxE_nat, setE, show k.rb.length < s.p2.length by omega, if_true, bindE_ok, e5, e6, e7]
            refine ⟨_, rfl, (by first | rfl | assumption), (by first | rfl | assumption), (by first | rfl | assumption), (by first | rfl | assumption), (by first | rfl | assumption), (by first | rfl | assumption), (by first | rfl | assumption), (by first | rfl | assumption), (by first | rfl | assumption), by simp, by simpa using h2l, ?_⟩
            simp only [List.length_append, List.length_singleton]
            rw [take_set_succ _ _ _ (by omega), ht]

end BU

/-- every `.ok` run of the model's both-unique `_partial` kernel (with its own fuel `partialFuel p`) is a run of the translated
    kernel on a buffer whose written prefix is the model's list; indices, `r` and the written prefix agree afterwards -/
theorem both_unique_partial_ok (p : P) (k k' : K) (rbuf : List Int)
    (hr : rbuf.length = p.cap) (h2 : rbuf.take k.rb.length = k.rb) (h : runPartial .leftBU p k = .ok k') :
    ∃ rbuf', generate_ordered_map_to_left_both_unique_partial.run p.left p.right rbuf p.inv p.jOff k.i k.j k.rb.length
        (partialFuel p) = .ok ((k'.i : Int), (k'.j : Int), (k'.rb.length : Int), rbuf') ∧
      rbuf'.length = p.cap ∧ rbuf'.take k'.rb.length = k'.rb := by
  unfold runPartial at h
  obtain ⟨s', hw, hR⟩ := whileE_sim (BU.R p) generate_ordered_map_to_left_both_unique_partial.guard_L1
    generate_ordered_map_to_left_both_unique_partial.body_L1 (partialGuard .leftBU p) (partialBody .leftBU p)
    (BU.guard_eq p) (fun s t t' hR _ hb => BU.body_sim p s t t' hR hb) (partialFuel p)
    (⟨p.left, p.right, rbuf, p.inv, p.jOff, k.i, k.j, k.rb.length, p.left.length, p.right.length, rbuf.length⟩ : BU.St) k k'
    ⟨rfl, rfl, rfl, rfl, rfl, rfl, by simp [hr], rfl, rfl, rfl, hr, h2⟩ h
  obtain ⟨_, _, _, _, _, _, _, h5, h6, h7, h2l, ht⟩ := hR
  refine ⟨s'.p2, ?_, h2l, ht⟩
  unfold generate_ordered_map_to_left_both_unique_partial.run
  have hw' : whileE generate_ordered_map_to_left_both_unique_partial.guard_L1
      generate_ordered_map_to_left_both_unique_partial.body_L1 (partialFuel p)
      (⟨p.left, p.right, rbuf, p.inv, p.jOff, k.i, k.j, k.rb.length, p.left.length, p.right.length, rbuf.length⟩ : BU.St)
      = .ok s' := hw
  simp only [pyLen, hw', bindE_ok, h5, h6, h7]

end Exetera.GenK
