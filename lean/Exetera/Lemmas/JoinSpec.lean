import Exetera.Spec.Join
/-!
  Spec-side lemmas for C03: what the relational join of *sorted* key columns looks like at a merge position.
  Chunk-independent; used by every variant's kernel invariant.
-/
namespace Exetera.Spec

def Sorted (xs : List Int) : Prop := xs.Pairwise (· ≤ ·)

theorem Sorted.le_of_lt {xs : List Int} (h : Sorted xs) {i j : Nat} (hij : i ≤ j) (hj : j < xs.length) :
    xs[i]'(by omega) ≤ xs[j] := by
  rcases Nat.lt_or_eq_of_le hij with h1 | h1
  · exact (List.pairwise_iff_getElem.mp h) i j (by omega) hj h1
  · subst h1; exact Int.le_refl _

theorem Sorted.tail {a : Int} {xs : List Int} (h : Sorted (a :: xs)) : Sorted xs := (List.pairwise_cons.mp h).2

theorem Sorted.head_le {a : Int} {xs : List Int} (h : Sorted (a :: xs)) : ∀ x ∈ xs, a ≤ x := (List.pairwise_cons.mp h).1

/-- no element equal to `k` ⇒ no matches -/
theorem matchRows_eq_nil {k : Int} : ∀ {r : List Int} {base : Nat}, (∀ x ∈ r, x ≠ k) → matchRows k r base = []
  | [], _, _ => rfl
  | b :: bs, base, h => by
    have hb : b ≠ k := h b (by simp)
    simp only [matchRows, beq_iff_eq, hb, if_false]
    exact matchRows_eq_nil (fun x hx => h x (by simp [hx]))

/-- all elements equal to `k` ⇒ every row matches -/
theorem matchRows_all {k : Int} : ∀ {r : List Int} {base : Nat}, (∀ x ∈ r, x = k) →
    matchRows k r base = List.range' base r.length
  | [], _, _ => rfl
  | b :: bs, base, h => by
    have hb : b = k := h b (by simp)
    simp only [matchRows, beq_iff_eq, hb, if_true, List.length_cons, List.range'_succ]
    rw [matchRows_all (fun x hx => h x (by simp [hx]))]

theorem matchRows_append {k : Int} : ∀ (r s : List Int) (base : Nat),
    matchRows k (r ++ s) base = matchRows k r base ++ matchRows k s (base + r.length)
  | [], s, base => by simp [matchRows]
  | b :: bs, s, base => by
    simp only [List.cons_append, matchRows, List.length_cons]
    split
    · rw [matchRows_append bs s (base + 1)]; simp [Nat.add_assoc, Nat.add_comm 1]
    · rw [matchRows_append bs s (base + 1)]; simp [Nat.add_assoc, Nat.add_comm 1]

/-- The matches of `a` in a sorted column `r`, given a merge position `J` (everything before is smaller) and the length
    `m` of the run of `a` starting at `J` (`m = 0` when `a` does not occur). -/
theorem matchRows_sorted {r : List Int} (hs : Sorted r) {a : Int} {J m : Nat} (hJm : J + m ≤ r.length)
    (hlt : ∀ j (h : j < J), r[j]'(by omega) < a)
    (heq : ∀ t (h : t < m), r[J + t]'(by omega) = a)
    (hgt : ∀ (h : J + m < r.length), a < r[J + m]) :
    matchRows a r 0 = List.range' J m := by
  have hsplit : r = r.take J ++ ((r.drop J).take m ++ r.drop (J + m)) := by
    rw [← List.drop_drop, List.take_append_drop, List.take_append_drop]
  rw [hsplit, matchRows_append, matchRows_append]
  have h1 : matchRows a (r.take J) 0 = [] := by
    apply matchRows_eq_nil
    intro x hx
    obtain ⟨i, hi, rfl⟩ := List.getElem_of_mem hx
    simp only [List.length_take] at hi
    rw [List.getElem_take]
    exact Int.ne_of_lt (hlt i (by omega))
  have h2 : matchRows a ((r.drop J).take m) (0 + (r.take J).length) = List.range' J m := by
    rw [matchRows_all]
    · simp only [List.length_take, List.length_drop]
      congr 1 <;> omega
    · intro x hx
      obtain ⟨i, hi, rfl⟩ := List.getElem_of_mem hx
      simp only [List.length_take, List.length_drop] at hi
      rw [List.getElem_take, List.getElem_drop]
      exact heq i (by omega)
  have h3 : matchRows a (r.drop (J + m)) (0 + (r.take J).length + ((r.drop J).take m).length) = [] := by
    apply matchRows_eq_nil
    intro x hx
    obtain ⟨i, hi, rfl⟩ := List.getElem_of_mem hx
    simp only [List.length_drop] at hi
    rw [List.getElem_drop]
    have hlt' := hgt (by omega)
    have hle := hs.le_of_lt (i := J + m) (j := J + m + i) (by omega) (by omega)
    exact (Int.ne_of_lt (Int.lt_of_lt_of_le hlt' hle)).symm
  rw [h1, h2, h3]; simp

/-- the spec rows for left rows `≥ I` -/
def rest (l r : List Int) (I : Nat) : List (Nat × Option Nat) := leftJoinFrom r (l.drop I) I

theorem rest_zero (l r : List Int) : rest l r 0 = leftJoin l r := by simp [rest, leftJoin]

theorem rest_of_ge (l r : List Int) {I : Nat} (h : l.length ≤ I) : rest l r I = [] := by
  simp [rest, List.drop_eq_nil_of_le h, leftJoinFrom]

theorem rest_unfold (l r : List Int) {I : Nat} (h : I < l.length) :
    rest l r I = leftRow I (matchRows l[I] r 0) ++ rest l r (I + 1) := by
  simp only [rest]
  rw [List.drop_eq_getElem_cons h]
  simp [leftJoinFrom]

/-- unmatched left row: everything before `J` on the right is smaller, everything from `J` on is larger -/
theorem rest_lt {l r : List Int} (hr : Sorted r) {I J : Nat} (hI : I < l.length) (hJ : J ≤ r.length)
    (hlt : ∀ j (h : j < J), r[j]'(by omega) < l[I])
    (hgt : ∀ (h : J < r.length), l[I] < r[J]) :
    rest l r I = (I, none) :: rest l r (I + 1) := by
  rw [rest_unfold l r hI]
  have : matchRows l[I] r 0 = List.range' J 0 :=
    matchRows_sorted hr (m := 0) (by omega) hlt (fun t h => by omega) (by simpa using hgt)
  rw [this]; simp [leftRow]

/-- one row of a cartesian block: left row `I` against right rows `J … J+m-1` -/
def blockRow (I J m : Nat) : List (Nat × Option Nat) := (List.range' J m).map (fun j => (I, some j))

/-- rows `I … I+n-1` of a block -/
def blockRows (I J m : Nat) : Nat → List (Nat × Option Nat)
  | 0 => []
  | n + 1 => blockRow I J m ++ blockRows (I + 1) J m n

/-- matched run: left rows `I … I+n-1` all carry the key `a` whose right run is `J … J+m-1`, `m ≥ 1` -/
theorem rest_block {l r : List Int} (hr : Sorted r) {a : Int} {J m : Nat} (hm : 0 < m) (hJm : J + m ≤ r.length)
    (hlt : ∀ j (h : j < J), r[j]'(by omega) < a)
    (heq : ∀ t (h : t < m), r[J + t]'(by omega) = a)
    (hgt : ∀ (h : J + m < r.length), a < r[J + m]) :
    ∀ (n I : Nat) (hIn : I + n ≤ l.length), (∀ t (h : t < n), l[I + t]'(Nat.lt_of_lt_of_le (Nat.add_lt_add_left h I) hIn) = a) →
      rest l r I = blockRows I J m n ++ rest l r (I + n)
  | 0, I, _, _ => by simp [blockRows]
  | n + 1, I, hIn, hl => by
    rw [rest_unfold l r (I := I) (by omega)]
    have h0 : l[I] = a := by simpa using hl 0 (by omega)
    rw [h0, matchRows_sorted hr hJm hlt heq hgt]
    have ih := rest_block (l := l) hr hm hJm hlt heq hgt n (I + 1) (by omega)
      (fun t h => by have := hl (t + 1) (by omega); simpa [Nat.add_assoc, Nat.add_comm 1] using this)
    rw [ih]
    have hne : List.range' J m ≠ [] := by
      cases m with
      | zero => omega
      | succ k => simp [List.range'_succ]
    simp only [blockRows, blockRow]
    cases hc : List.range' J m with
    | nil => exact absurd hc hne
    | cons x xs => simp [leftRow, Nat.add_assoc, Nat.add_comm 1]

end Exetera.Spec
