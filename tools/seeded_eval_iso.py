#!/usr/bin/env python3
"""Evaluate a seeded breaking change in isolation (nothing in /repo or /verif's working tree is touched, so several
evaluations can run side by side and long sweeps against /repo are not disturbed).

usage: tools/seeded_eval_iso.py <slot> <seeded/<id>> <Cxx> [<Cyy> ...] [--tier quick] [--no-suite]

Slot k uses two scratch worktrees, created on demand and reused:
  /tmp/evalr<k>  a git worktree of /repo at its HEAD, to which patch.diff is applied (and removed afterwards)
  /tmp/evalv<k>  a git worktree of /verif at its HEAD (committed state!) with a copy of lean/.lake, in which the checks run with
                 EXETERA_REPO=/tmp/evalr<k>; the translator regenerates lean/Exetera/Gen there from the patched source.
Steps: demo.py exits 0 against the clean /repo; the patch applies; the package imports; demo.py exits 1 against the patched tree;
ExeTera's own test-suite on the patched tree fails no test outside the always-fail baseline (tools/always_fail.txt); the named
checks are run; meta.json is written into the seeded directory of the real /verif."""
import json
import os
import re
import shutil
import subprocess
import sys
import time
from pathlib import Path

V = Path(__file__).resolve().parent.parent
REPO = "/repo"


def sh(cmd, cwd=None, env=None, timeout=None):
    p = subprocess.run(cmd, shell=True, cwd=cwd, env=env, stdout=subprocess.PIPE, stderr=subprocess.STDOUT, text=True,
                       timeout=timeout)
    return p.returncode, p.stdout


def ensure_slot(k):
    r, v = Path(f"/tmp/evalr{k}"), Path(f"/tmp/evalv{k}")
    if not r.exists():
        rc, out = sh(f"git worktree add -q --detach {r}", cwd=REPO)
        assert rc == 0, out
    sh("git checkout -q --detach " + sh("git rev-parse HEAD", cwd=REPO)[1].strip(), cwd=r)
    sh("git checkout -- . && git clean -fdq", cwd=r)
    head = sh("git rev-parse HEAD", cwd=V)[1].strip()
    if not v.exists():
        rc, out = sh(f"git worktree add -q --detach {v} {head}", cwd=V)
        assert rc == 0, out
        shutil.copytree(V / "lean" / ".lake", v / "lean" / ".lake", symlinks=True)
    sh("git checkout -- . && git clean -fdq -e lean/.lake", cwd=v)
    was = sh("git rev-parse HEAD", cwd=v)[1].strip()
    rc, out = sh(f"git checkout -q --detach {head}", cwd=v)
    assert rc == 0, out
    if was != head:
        # /verif moved on: take its build output (built at HEAD) instead of rebuilding every Lean file in every slot
        sh(f"rsync -a --delete {V / 'lean' / '.lake'}/ {v / 'lean' / '.lake'}/")
    return r, v


def needs_from_notes(d):
    n = d / "notes.md"
    if not n.exists():
        return ""
    txt = n.read_text()
    m = re.search(r"(?is)(what[^\n]*manifest[^\n]*\n.*?)(\n\s*\n\*\*|\n#|\Z)", txt)
    return (m.group(1) if m else txt)[:1500].strip()


def main():
    k = sys.argv[1]
    d = Path(sys.argv[2]).resolve()
    rest = sys.argv[3:]
    tier = "quick"
    if "--tier" in rest:
        tier = rest[rest.index("--tier") + 1]
        rest = [a for a in rest if a not in ("--tier", tier)]
    suite = "--no-suite" not in rest
    props = [a for a in rest if not a.startswith("--")]
    meta_p = d / "meta.json"
    meta = json.loads(meta_p.read_text()) if meta_p.exists() else {}
    r, v = ensure_slot(k)
    env0 = dict(os.environ, PYTHONPATH=REPO, PYTHONWARNINGS="ignore", NUMBA_NUM_THREADS="1")
    env1 = dict(os.environ, PYTHONPATH=str(r), PYTHONWARNINGS="ignore", NUMBA_NUM_THREADS="1")
    rc0, o0 = sh(f"/venv/bin/python {d / 'demo.py'}", cwd="/tmp", env=env0, timeout=1800)
    rc, out = sh(f"git apply {d / 'patch.diff'}", cwd=r)
    if rc != 0:
        # the tree moved on (fix: commits near the edited lines): retry with less context, then with patch(1)'s fuzz
        rc, out2 = sh(f"git apply -C1 --recount {d / 'patch.diff'}", cwd=r)
        if rc != 0:
            sh("git checkout -- . && git clean -fdq", cwd=r)
            rc, out2 = sh(f"patch -p1 -F3 --no-backup-if-mismatch -i {d / 'patch.diff'}", cwd=r)
        if rc != 0:
            sh("git checkout -- . && git clean -fdq", cwd=r)
            sys.exit("patch does not apply: " + out)
        meta["applied_with_fuzz"] = True
    results, suite_res = {}, None
    try:
        rci, oi = sh("/venv/bin/python -c 'import exetera, exetera.core.session, exetera.core.operations'", cwd="/tmp", env=env1)
        rc1, o1 = sh(f"/venv/bin/python {d / 'demo.py'}", cwd="/tmp", env=env1, timeout=1800)
        sp = None
        if suite:
            sp = subprocess.Popen("/venv/bin/python -m pytest -q -p no:cacheprovider --timeout=900 --continue-on-collection-errors "
                                  "-ra tests", shell=True, cwd=r, env=dict(os.environ, NUMBA_NUM_THREADS="1", OMP_NUM_THREADS="1"),
                                  stdout=subprocess.PIPE, stderr=subprocess.STDOUT, text=True)
        for p in props:
            t0 = time.time()
            rcc, oc = sh(f"/venv/bin/python checks/run.py {p} --tier {tier}", cwd=v,
                         env=dict(os.environ, EXETERA_REPO=str(r)), timeout=7200)
            viol = [l for l in oc.splitlines() if l.startswith("VIOLATION")]
            results[p] = {"exit": rcc, "violation_lines": viol[:5], "wall_s": round(time.time() - t0, 1),
                          "tail": oc.splitlines()[-1:]}
            # keep the first replay for the record
            for l in viol[:1]:
                m = re.search(r"replay=(\S+)", l)
                if m and (v / m.group(1)).exists():
                    try:
                        rp = json.loads((v / m.group(1)).read_text())
                        results[p]["first_replay"] = {"what": str(rp.get("what", rp.get("broken", "")))[:600],
                                                      "case": str(rp.get("case", ""))[:800]}
                    except Exception:
                        pass
            print(d.name, p, "exit", rcc, viol[:2], flush=True)
        if sp is not None:
            so, _ = sp.communicate(timeout=3600)
            failed = sorted(set(re.sub(r" - .*", "", l) for l in so.splitlines() if l.startswith(("FAILED", "ERROR"))))
            base = sorted(l.strip() for l in (V / "tools" / "always_fail.txt").read_text().splitlines() if l.strip())
            tail = [l for l in so.splitlines() if " passed" in l or " failed" in l][-1:]
            suite_res = {"summary": tail, "new_failures": [f for f in failed if f not in base],
                         "baseline_failures_now_passing": [f for f in base if f not in failed]}
    finally:
        sh("git checkout -- . && git clean -fdq", cwd=r)
        sh("git checkout -- . && git clean -fdq -e lean/.lake", cwd=v)
    meta.update({
        "property": meta.get("property") or d.name.split("-")[0],
        "needs_to_manifest": meta.get("needs_to_manifest") or needs_from_notes(d),
        "package_imports_with_patch": rci == 0,
        "demo_on_clean_tree_exit": rc0, "demo_with_patch_exit": rc1,
        "demo_with_patch_output": o1[-600:],
        "existing_suite_with_patch": suite_res if suite_res is not None else meta.get("existing_suite_with_patch"),
        "checks_run": {**meta.get("checks_run", {}), **results} if meta.get("evaluated_at_verif_commit") ==
        sh("git rev-parse --short HEAD", cwd=V)[1].strip() else results,
        "caught_by": [p for p, x in results.items() if x["exit"] == 1 and x["violation_lines"]],
        "evaluated_at_repo_commit": sh("git rev-parse --short HEAD", cwd=REPO)[1].strip(),
        "evaluated_at_verif_commit": sh("git rev-parse --short HEAD", cwd=V)[1].strip(),
        "how_run": f"isolated: patch applied in scratch worktree {r} of /repo; checks run from a worktree of the committed /verif with "
                   f"EXETERA_REPO={r} (tools/seeded_eval_iso.py); tier {tier}",
        "tier": tier,
    })
    hist = meta.setdefault("history", [])
    hist.append({"verif": meta["evaluated_at_verif_commit"], "repo": meta["evaluated_at_repo_commit"], "tier": tier,
                 "checks": sorted(results), "caught_by": meta["caught_by"]})
    meta_p.write_text(json.dumps(meta, indent=1))
    print(d.name, "demo clean:", rc0, "demo patched:", rc1, "suite new failures:",
          None if suite_res is None else suite_res["new_failures"], "caught by:", meta["caught_by"], flush=True)


if __name__ == "__main__":
    main()
