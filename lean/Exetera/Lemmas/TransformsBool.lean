import Exetera.Lemmas.TransformsCat2
/-! C06: the regenerated bool literal table accepts exactly the documented spellings (`boolLit = boolValue`). -/
namespace Exetera.Transforms
open Exetera Exetera.Spec.Transforms

/-- all byte strings that take their `k`-th byte from the `k`-th alternative list -/
def expand : List (List Nat) → List Bytes
  | [] => [[]]
  | alts :: rest => alts.flatMap (fun a => (expand rest).map (a :: ·))

theorem mem_expand (alts : List (List Nat)) (val : Bytes) :
    val ∈ expand alts ↔
      (alts.length == val.length && (List.zip alts val).all (fun ab => ab.1.contains ab.2)) = true := by
  induction alts generalizing val with
  | nil => cases val <;> simp [expand]
  | cons a rest ih =>
    cases val with
    | nil => simp [expand]
    | cons b vs =>
      simp only [expand, List.mem_flatMap, List.mem_map, List.cons.injEq, List.length_cons, List.zip_cons_cons,
        List.all_cons]
      constructor
      · rintro ⟨x, hx, t, ht, rfl, rfl⟩
        have := (ih t).mp ht
        simp only [Bool.and_eq_true, beq_iff_eq] at this ⊢
        refine ⟨by omega, ?_, this.2⟩
        simpa using hx
      · intro h
        simp only [Bool.and_eq_true, beq_iff_eq] at h
        refine ⟨b, by simpa using h.2.1, vs, (ih vs).mpr ?_, rfl, rfl⟩
        simp only [Bool.and_eq_true, beq_iff_eq]
        exact ⟨by omega, h.2.2⟩

/-- lookup in a list that pairs every member of `L` with the same value -/
theorem lookup_map_const (L : List Bytes) (v : Int) (val : Bytes) :
    lookup (L.map (fun x => (x, v))) val = if val ∈ L then some v else none := by
  induction L with
  | nil => simp [lookup]
  | cons x L ih =>
    simp only [lookup, List.map_cons, List.find?_cons] at ih ⊢
    by_cases hx : x = val
    · subst hx; simp
    · have : (x == val) = false := by simp [hx]
      simp only [this, ih, List.mem_cons]
      have : ¬ val = x := fun h => hx h.symm
      simp [this]

theorem lookup_append (A B : List (Bytes × Int)) (val : Bytes) :
    lookup (A ++ B) val = match lookup A val with | some v => some v | none => lookup B val := by
  simp only [lookup, List.find?_append]
  cases List.find? (fun kv => kv.1 == val) A <;> simp

/-- the literals one row of the table accepts -/
def rowLits (row : Nat × List (List Nat) × Int) : List (Bytes × Int) :=
  if row.1 == row.2.1.length then (expand row.2.1).map (fun x => (x, row.2.2)) else []

theorem lookup_rowLits (row : Nat × List (List Nat) × Int) (val : Bytes) :
    lookup (rowLits row) val = if rowAccepts row val then some row.2.2 else none := by
  unfold rowLits rowAccepts
  by_cases hk : row.1 = row.2.1.length
  · have h1 : (row.1 == row.2.1.length) = true := by simp [hk]
    simp only [h1, if_true, lookup_map_const, mem_expand]
    by_cases hl : row.2.1.length = val.length
    · have h3 : (row.1 == val.length) = true := by simp [hk, hl]
      have h4 : (row.2.1.length == val.length) = true := by simp [hl]
      rw [h3, h4]; simp only [Bool.true_and]
    · have h4 : (row.2.1.length == val.length) = false := by simp [hl]
      rw [h4]; simp
  · have h1 : (row.1 == row.2.1.length) = false := by simp [hk]
    simp only [h1, lookup, List.find?_nil, Option.map_none]
    by_cases h2 : row.1 = val.length
    · have : (row.2.1.length == val.length) = false := by simp; omega
      simp [this]
    · have : (row.1 == val.length) = false := by simp [h2]
      simp [this]

theorem boolLitIn_eq_lookup (table : List (Nat × List (List Nat) × Int)) (val : Bytes) :
    boolLitIn table val = lookup (table.flatMap rowLits) val := by
  induction table with
  | nil => simp [boolLitIn, lookup]
  | cons row t ih =>
    simp only [List.flatMap_cons, lookup_append, lookup_rowLits]
    simp only [boolLitIn, List.find?_cons] at ih ⊢
    cases h : rowAccepts row val <;> simp [ih]

/-! ### the documented words, case-insensitively -/

/-- the spellings of one lower-case byte -/
def caseAlts (c : Nat) : List Nat := if 97 ≤ c ∧ c ≤ 122 then [c - 32, c] else [c]

/-- a byte that `lower` leaves alone (anything but an upper-case letter) -/
def plain (c : Nat) : Bool := !(65 ≤ c && c ≤ 90)

theorem mem_caseAlts (b c : Nat) (hc : plain c = true) : (caseAlts c).contains b = true ↔ lower b = c := by
  simp only [plain, Bool.not_eq_true', Bool.and_eq_false_iff, decide_eq_false_iff_not] at hc
  unfold caseAlts lower
  split <;> split <;> simp <;> omega

theorem mem_expand_word (w val : Bytes) (hw : ∀ c ∈ w, plain c = true) :
    val ∈ expand (w.map caseAlts) ↔ val.map lower = w := by
  induction w generalizing val with
  | nil => cases val <;> simp [expand]
  | cons c w ih =>
    cases val with
    | nil => simp [expand]
    | cons b vs =>
      have hc := hw c (by simp)
      have ih' := ih vs (fun x hx => hw x (by simp [hx]))
      simp only [List.map_cons, expand, List.mem_flatMap, List.mem_map, List.cons.injEq]
      constructor
      · rintro ⟨x, hx, t, ht, rfl, rfl⟩
        exact ⟨(mem_caseAlts x c hc).mp (by simpa using hx), ih'.mp ht⟩
      · rintro ⟨h1, h2⟩
        exact ⟨b, by simpa using (mem_caseAlts b c hc).mpr h1, vs, ih'.mpr h2, rfl, rfl⟩

def wordLits (wv : Bytes × Int) : List (Bytes × Int) := (expand (wv.1.map caseAlts)).map (fun x => (x, wv.2))

theorem lookup_wordLits (words : List (Bytes × Int)) (hw : ∀ wv ∈ words, ∀ c ∈ wv.1, plain c = true) (val : Bytes) :
    lookup (words.flatMap wordLits) val = lookup words (val.map lower) := by
  induction words with
  | nil => simp [lookup]
  | cons wv ws ih =>
    have ih' := ih (fun x hx => hw x (by simp [hx]))
    simp only [List.flatMap_cons, lookup_append, wordLits, lookup_map_const, mem_expand_word _ _ (hw wv (by simp))]
    rw [ih']
    simp only [lookup, List.find?_cons]
    by_cases h : List.map lower val = wv.1
    · have : (wv.1 == List.map lower val) = true := by simp [h]
      simp [h]
    · have : (wv.1 == List.map lower val) = false := by simp; exact fun e => h e.symm
      simp [h, this]

/-- two pair lists with pairwise different keys and the same members give the same lookups -/
theorem lookup_congr {l₁ l₂ : List (Bytes × Int)} (h1 : (l₁.map (·.1)).Nodup) (h2 : (l₂.map (·.1)).Nodup)
    (h12 : ∀ p ∈ l₁, p ∈ l₂) (h21 : ∀ p ∈ l₂, p ∈ l₁) (cell : Bytes) : lookup l₁ cell = lookup l₂ cell := by
  cases h : lookup l₁ cell with
  | none =>
    symm
    rw [lookup_eq_none_iff] at h ⊢
    intro kv hk; exact h kv (h21 kv hk)
  | some v =>
    symm
    rw [lookup_eq_some_iff h1] at h
    rw [lookup_eq_some_iff h2]
    exact h12 _ h

end Exetera.Transforms
