import Exetera.Spec.Storage
/-! Facts about the specification's `offsets`. -/
namespace Exetera.Spec

theorem offsetsFrom_append {β} (a : Nat) (xs ys : List (List β)) :
    offsetsFrom a (xs ++ ys) = offsetsFrom a xs ++ offsetsFrom (a + xs.flatten.length) ys := by
  induction xs generalizing a with
  | nil => simp [offsetsFrom]
  | cons x xs ih => simp [offsetsFrom, ih, Nat.add_assoc]

theorem offsets_snoc {β} (es : List (List β)) (e : List β) :
    offsets (es ++ [e]) = offsets es ++ [es.flatten.length + e.length] := by
  simp [offsets, offsetsFrom_append, offsetsFrom]

@[simp] theorem offsets_nil {β} : offsets ([] : List (List β)) = [0] := rfl

@[simp] theorem length_offsetsFrom {β} (a : Nat) (xs : List (List β)) : (offsetsFrom a xs).length = xs.length := by
  induction xs generalizing a with
  | nil => rfl
  | cons x xs ih => simp [offsetsFrom, ih]

@[simp] theorem length_offsets {β} (xs : List (List β)) : (offsets xs).length = xs.length + 1 := by
  simp [offsets]

theorem offsets_ne_nil {β} (xs : List (List β)) : offsets xs ≠ [] := by simp [offsets]

theorem offsetsFrom_getElem? {β} (a : Nat) (xs : List (List β)) (i : Nat) (h : i < xs.length) :
    (offsetsFrom a xs)[i]? = some (a + (xs.take (i + 1)).flatten.length) := by
  induction xs generalizing a i with
  | nil => simp at h
  | cons x xs ih =>
    cases i with
    | zero => simp [offsetsFrom]
    | succ i =>
      have h' : i < xs.length := by simpa using h
      simp [offsetsFrom, ih (a + x.length) i h', Nat.add_assoc]

/-- the `i`-th offset is the number of bytes of the first `i` entries -/
theorem offsets_getElem? {β} (xs : List (List β)) (i : Nat) (h : i ≤ xs.length) :
    (offsets xs)[i]? = some (xs.take i).flatten.length := by
  cases i with
  | zero => simp [offsets]
  | succ i =>
    have h' : i < xs.length := h
    simp [offsets, offsetsFrom_getElem? 0 xs i h']

theorem offsets_getLast? {β} (xs : List (List β)) : (offsets xs).getLast? = some xs.flatten.length := by
  rw [List.getLast?_eq_getElem?]
  simp only [length_offsets, Nat.add_sub_cancel]
  rw [offsets_getElem? xs xs.length (Nat.le_refl _)]
  simp

theorem take_flatten_length_mono {β} (xs : List (List β)) {i j : Nat} (h : i ≤ j) :
    (xs.take i).flatten.length ≤ (xs.take j).flatten.length := by
  obtain ⟨k, rfl⟩ := Nat.exists_eq_add_of_le h
  rw [List.take_add]
  simp

theorem offsets_pairwise {β} (xs : List (List β)) : (offsets xs).Pairwise (· ≤ ·) := by
  rw [List.pairwise_iff_getElem]
  intro i j hi hj hij
  have hi' : i ≤ xs.length := by simp at hi; omega
  have hj' : j ≤ xs.length := by simp at hj; omega
  have e1 := offsets_getElem? xs i hi'
  have e2 := offsets_getElem? xs j hj'
  rw [List.getElem?_eq_getElem hi] at e1
  rw [List.getElem?_eq_getElem hj] at e2
  injection e1 with e1
  injection e2 with e2
  rw [e1, e2]
  exact take_flatten_length_mono xs (Nat.le_of_lt hij)

theorem offsets_head? {β} (xs : List (List β)) : (offsets xs).head? = some 0 := rfl

end Exetera.Spec
