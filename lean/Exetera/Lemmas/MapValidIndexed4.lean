import Exetera.Lemmas.MapValidIndexed3
/-! Helper lemmas for C04, part 7: one map chunk and the whole indexed stream against `Spec.mapIndexedSpec`,
    including the D5 error outcome. -/
namespace Exetera.MapValid

open Exetera Exetera.Spec

theorem adds_trans {β} (esL : List (List β)) (x y z : Nat) (o1 o2 o3 : IO β) (hxy : x ≤ y) (hyz : y ≤ z)
    (h1 : Adds esL x y o1 o2) (h2 : Adds esL y z o2 o3) : Adds esL x z o1 o3 := by
  obtain ⟨a1, b1, c1⟩ := h1
  obtain ⟨a2, b2, c2⟩ := h2
  have hsl := (slice_append_slice esL x y z hxy hyz).symm
  refine ⟨?_, ?_, ?_⟩
  · rw [a2, a1, hsl, sumLen_append]; omega
  · rw [b2, b1, a1, hsl, runSums_append, List.append_assoc]
  · rw [c2, c1, hsl, List.flatten_append, List.append_assoc]

theorem adds_refl {β} (esL : List (List β)) (x : Nat) (o : IO β) : Adds esL x x o o := by
  simp [Adds, slice_self, sumLen, runSums]

/-- all sub-chunks of one map chunk -/
theorem indexed_chunk_fold_spec {β} (indices : List Int) (values : List β) (map_ : List Int) (inv : Int) (cs vf : Nat)
    (o : IO β) (esL : List (List β))
    (hok : IndexedOK indices values) (hcs1 : 1 ≤ cs) (hcs : map_.length ≤ cs) (hesLen : esL.length = map_.length)
    (hr : InRange (entries indices values).length map_ inv)
    (hes : ∀ (p : Nat) (k : Int), map_[p]? = some k → esL[p]? = lookup (entries indices values) inv [] k) :
    ∃ subs, subchunks map_ inv cs = .ok subs ∧
      ((∃ o', foldE (indexedSubBody indices values map_ inv cs vf) subs o = .ok o' ∧ Adds esL 0 map_.length o o' ∧
          ∀ x ∈ esL, x.length ≤ cs * vf) ∨
       (∃ e, foldE (indexedSubBody indices values map_ inv cs vf) subs o = .error e ∧
          OversizeE (entries indices values) map_ inv (cs * vf) e)) := by
  obtain ⟨subs, hsubs, htiles, hmono⟩ := subchunks_mono map_ inv cs hcs1
  refine ⟨subs, hsubs, ?_⟩
  have h := foldE_tiles_err_mem (indexedSubBody indices values map_ inv cs vf)
    (fun x o' => Adds esL 0 x o o' ∧ ∀ y ∈ slice esL 0 x, y.length ≤ cs * vf)
    (OversizeE (entries indices values) map_ inv (cs * vf)) map_.length subs 0 o htiles
    ⟨adds_refl esL 0 o, by simp [slice_self]⟩
    (by
      intro x y o1 hmem _ hxy hy ⟨hP, hF⟩
      rcases indexedSubBody_spec indices values map_ inv cs vf x y o1 esL hok hxy hy hcs hesLen hr (hmono (x, y) hmem) hes with
        ⟨o2, hrun, hadd, hfit⟩ | ⟨e, hrun, herr⟩
      · refine Or.inl ⟨o2, hrun, adds_trans esL 0 x y o o1 o2 (by omega) (by omega) hP hadd, ?_⟩
        intro z hz
        rw [← slice_append_slice esL 0 x y (by omega) (by omega), List.mem_append] at hz
        rcases hz with hz | hz
        · exact hF z hz
        · exact hfit z hz
      · exact Or.inr ⟨e, hrun, herr⟩)
  rcases h with ⟨o', hrun, hadds, hfit⟩ | ⟨e, hrun, herr⟩
  · refine Or.inl ⟨o', hrun, hadds, ?_⟩
    intro x hx
    apply hfit x
    have : slice esL 0 map_.length = esL := by
      rw [← hesLen]; simp [slice]
    rw [this]; exact hx
  · exact Or.inr ⟨e, hrun, herr⟩

/-- invariant of the map-chunk loop of the indexed stream -/
def IChunkInv {β} (m : List Int) (cs cap : Nat) (es : List (List β)) (s : ISt β) : Prop :=
  s.lo ≤ m.length ∧ s.hi = min (s.lo + cs) m.length ∧
  s.io.accum = sumLen (es.take s.lo) ∧ s.io.outI = 0 :: runSums 0 (es.take s.lo) ∧ s.io.outV = (es.take s.lo).flatten ∧
  ∀ x ∈ es.take s.lo, x.length ≤ cap

theorem indexedChunkBody_spec {β} (indices : List Int) (values : List β) (m : List Int) (inv : Int) (cs vf : Nat)
    (es : List (List β)) (s : ISt β)
    (hok : IndexedOK indices values) (hcs1 : 1 ≤ cs)
    (hr : InRange (entries indices values).length m inv)
    (hspec : mapSpec (entries indices values) inv [] m = some es)
    (hI : IChunkInv m cs (cs * vf) es s) (hg : s.lo < m.length) :
    (∃ s', indexedChunkBody indices values m inv cs vf s = .ok s' ∧ IChunkInv m cs (cs * vf) es s' ∧
      m.length - s'.lo < m.length - s.lo) ∨
    (∃ e, indexedChunkBody indices values m inv cs vf s = .error e ∧
      OversizeE (entries indices values) m inv (cs * vf) e ∧ 0 < m.length - s.lo) := by
  obtain ⟨hlo, hhi, hacc, hoI, hoV, hfit⟩ := hI
  have heslen : es.length = m.length := mapSpec_length _ _ _ _ _ hspec
  have hlen : (slice m s.lo s.hi).length = s.hi - s.lo := by simp only [slice_length]; omega
  have heslLen : (slice es s.lo s.hi).length = (slice m s.lo s.hi).length := by
    simp only [slice_length]; omega
  obtain ⟨subs, hsubs, hcase⟩ :=
    indexed_chunk_fold_spec indices values (slice m s.lo s.hi) inv cs vf s.io (slice es s.lo s.hi) hok hcs1
      (by rw [hlen]; omega) heslLen (inRange_slice hr _ _)
      (by
        intro p k hpk
        rw [slice_getElem?] at hpk ⊢
        split at hpk
        · rename_i hp
          simp only [hp, if_true]
          exact mapSpec_getElem? _ _ _ _ _ hspec _ k hpk
        · simp at hpk)
  rcases hcase with ⟨o', hfold, ⟨a1, a2, a3⟩, hfitL⟩ | ⟨e, hfold, herr, p, k, x, hpk, hki, hk0, hent, hbig⟩
  · rw [hlen] at a1 a2 a3
    have hss : slice (slice es s.lo s.hi) 0 (s.hi - s.lo) = slice es s.lo s.hi := by
      rw [slice_slice _ _ _ _ _ (by omega)]
      congr 1; omega
    rw [hss] at a1 a2 a3
    have htake : es.take s.hi = es.take s.lo ++ slice es s.lo s.hi := take_append_slice es s.lo s.hi (by omega)
    refine Or.inl ⟨⟨s.hi, min (s.hi + cs) m.length, o'⟩, ?_,
      ⟨by simp only []; omega, rfl, ?_, ?_, ?_, ?_⟩, by simp only []; omega⟩
    · simp only [indexedChunkBody, hsubs, hfold, nextChunk_eq]
    · simp only [htake, sumLen_append, a1, hacc]
    · simp only [htake, runSums_append, a2, hoI, hacc, List.cons_append]
      simp
    · simp only [htake, List.flatten_append, a3, hoV]
    · intro y hy
      simp only [htake, List.mem_append] at hy
      rcases hy with hy | hy
      · exact hfit y hy
      · exact hfitL y hy
  · refine Or.inr ⟨e, ?_, ⟨herr, s.lo + p, k, x, ?_, hki, hk0, hent, hbig⟩, by omega⟩
    · simp only [indexedChunkBody, hsubs, hfold]
    · rw [slice_getElem?] at hpk
      split at hpk
      · exact hpk
      · simp at hpk

/-- **Total characterisation of `ordered_map_valid_indexed_stream`** on well-formed sources and ordered in-range maps,
    for every chunk size ≥ 1, marker and value factor: either every mapped entry fits the value buffer and the result
    is the specified column, or some mapped entry does not fit and the result is the D5 `ValueError` — never
    `outOfFuel` (a spin), never an out-of-bounds access. -/
theorem indexed_stream_total_any {β} (indices : List Int) (values : List β) (m : List Int) (inv : Int) (cs vf : Nat)
    (hok : IndexedOK indices values) (hcs1 : 1 ≤ cs)
    (hr : InRange (entries indices values).length m inv) :
    (∃ out es, orderedMapValidIndexedStream indices values m inv cs vf = .ok out ∧
      mapSpec (entries indices values) inv [] m = some es ∧ out = encodeIndexed es ∧
      ∀ x ∈ es, x.length ≤ cs * vf) ∨
    (∃ e, orderedMapValidIndexedStream indices values m inv cs vf = .error e ∧
      OversizeE (entries indices values) m inv (cs * vf) e) := by
  obtain ⟨es, hspec⟩ : ∃ es, mapSpec (entries indices values) inv [] m = some es := by
    obtain ⟨out, _, h⟩ := stream_spec_any (entries indices values) m inv cs [] hcs1 hr
    exact ⟨out, h⟩
  have h := whileE_rule_err (fun s : ISt β => decide (s.lo < m.length)) (indexedChunkBody indices values m inv cs vf)
    (IChunkInv m cs (cs * vf) es) (OversizeE (entries indices values) m inv (cs * vf)) (fun s => m.length - s.lo)
    (by
      intro s hI hg
      have hg' : s.lo < m.length := by simpa using hg
      exact indexedChunkBody_spec indices values m inv cs vf es s hok hcs1 hr hspec hI hg')
    m.length ⟨0, min (0 + cs) m.length, ⟨0, List.replicate (min 1 cs) 0, []⟩⟩
    ⟨by simp, rfl, by simp [sumLen], by
      have : min 1 cs = 1 := by omega
      simp [this, runSums], by simp, by simp⟩ (by simp)
  rcases h with ⟨s', hrun, ⟨hlo, _, _, hoI, hoV, hfit⟩, hg⟩ | ⟨e, hrun, herr⟩
  · have hge : m.length ≤ s'.lo := by simpa using hg
    have heq : s'.lo = m.length := by omega
    have heslen : es.length = m.length := mapSpec_length _ _ _ _ _ hspec
    rw [heq, ← heslen, List.take_length] at hoI hoV hfit
    refine Or.inl ⟨(s'.io.outI, s'.io.outV), es, ?_, hspec, ?_, hfit⟩
    · simp only [orderedMapValidIndexedStream, nextChunk_eq, hrun]
    · simp only [encodeIndexed, offsetsFrom_eq, hoI, hoV]
  · refine Or.inr ⟨e, ?_, herr⟩
    simp only [orderedMapValidIndexedStream, nextChunk_eq, hrun]

/-- the mapped entries of an in-range map, row by row -/
theorem mapped_entry_row {β} (E : List (List β)) (m : List Int) (inv : Int) (es : List (List β))
    (hspec : mapSpec E inv [] m = some es) (r : Nat) (k : Int) (x : List β)
    (hk : m[r]? = some k) (hki : k ≠ inv) (h0 : 0 ≤ k) (hx : E[k.toNat]? = some x) : x ∈ es := by
  have := mapSpec_getElem? E inv [] m es hspec r k hk
  simp only [lookup, hki, h0, if_false, if_true, hx] at this
  exact List.mem_of_getElem? this

/-- `ordered_map_valid_indexed_stream` = `mapIndexedSpec` whenever every *mapped* entry fits the value buffer -/
theorem indexed_stream_spec_any {β} (indices : List Int) (values : List β) (m : List Int) (inv : Int) (cs vf : Nat)
    (hok : IndexedOK indices values) (hcs1 : 1 ≤ cs)
    (hr : InRange (entries indices values).length m inv)
    (hcap : ∀ (r : Nat) (k : Int) (x : List β), m[r]? = some k → k ≠ inv → (entries indices values)[k.toNat]? = some x →
      x.length ≤ cs * vf) :
    ∃ out, orderedMapValidIndexedStream indices values m inv cs vf = .ok out ∧
      mapIndexedSpec indices values inv m = some out := by
  rcases indexed_stream_total_any indices values m inv cs vf hok hcs1 hr with
    ⟨out, es, hrun, hspec, hout, _⟩ | ⟨e, _, _, p, k, x, hpk, hki, _, hent, hbig⟩
  · exact ⟨out, hrun, by simp [mapIndexedSpec, hspec, hout]⟩
  · have := hcap p k x hpk hki hent
    omega

/-- D5 as repaired, in full: a mapped entry longer than the value buffer makes the stream end with the `ValueError` -/
theorem indexed_stream_oversize_any {β} (indices : List Int) (values : List β) (m : List Int) (inv : Int) (cs vf : Nat)
    (hok : IndexedOK indices values) (hcs1 : 1 ≤ cs)
    (hr : InRange (entries indices values).length m inv)
    (r : Nat) (k : Int) (x : List β) (hk : m[r]? = some k) (hki : k ≠ inv)
    (hx : (entries indices values)[k.toNat]? = some x) (hbig : cs * vf < x.length) :
    orderedMapValidIndexedStream indices values m inv cs vf
      = .error (.valueError "entry does not fit the value buffer") := by
  rcases indexed_stream_total_any indices values m inv cs vf hok hcs1 hr with
    ⟨out, es, _, hspec, _, hfit⟩ | ⟨e, hrun, herr, _⟩
  · have hmem := mapped_entry_row _ m inv es hspec r k x hk hki (hr r k hk hki).1 hx
    have := hfit x hmem
    omega
  · rw [hrun, herr]

/-! the ordered-map forms (kept for their users; since the NC02a repair of the splitter the ordering hypothesis is not
    needed any more) -/

theorem indexed_stream_total {β} (indices : List Int) (values : List β) (m : List Int) (inv : Int) (cs vf : Nat)
    (hok : IndexedOK indices values) (hcs1 : 1 ≤ cs)
    (hr : InRange (entries indices values).length m inv) (_hm : ValidMonotone m inv) :
    (∃ out es, orderedMapValidIndexedStream indices values m inv cs vf = .ok out ∧
      mapSpec (entries indices values) inv [] m = some es ∧ out = encodeIndexed es ∧
      ∀ x ∈ es, x.length ≤ cs * vf) ∨
    (∃ e, orderedMapValidIndexedStream indices values m inv cs vf = .error e ∧
      OversizeE (entries indices values) m inv (cs * vf) e) :=
  indexed_stream_total_any indices values m inv cs vf hok hcs1 hr

theorem indexed_stream_spec {β} (indices : List Int) (values : List β) (m : List Int) (inv : Int) (cs vf : Nat)
    (hok : IndexedOK indices values) (hcs1 : 1 ≤ cs)
    (hr : InRange (entries indices values).length m inv) (_hm : ValidMonotone m inv)
    (hcap : ∀ (r : Nat) (k : Int) (x : List β), m[r]? = some k → k ≠ inv → (entries indices values)[k.toNat]? = some x →
      x.length ≤ cs * vf) :
    ∃ out, orderedMapValidIndexedStream indices values m inv cs vf = .ok out ∧
      mapIndexedSpec indices values inv m = some out :=
  indexed_stream_spec_any indices values m inv cs vf hok hcs1 hr hcap

theorem indexed_stream_oversize {β} (indices : List Int) (values : List β) (m : List Int) (inv : Int) (cs vf : Nat)
    (hok : IndexedOK indices values) (hcs1 : 1 ≤ cs)
    (hr : InRange (entries indices values).length m inv) (_hm : ValidMonotone m inv)
    (r : Nat) (k : Int) (x : List β) (hk : m[r]? = some k) (hki : k ≠ inv)
    (hx : (entries indices values)[k.toNat]? = some x) (hbig : cs * vf < x.length) :
    orderedMapValidIndexedStream indices values m inv cs vf
      = .error (.valueError "entry does not fit the value buffer") :=
  indexed_stream_oversize_any indices values m inv cs vf hok hcs1 hr r k x hk hki hx hbig

end Exetera.MapValid
