import Exetera.Lemmas.JoinGeneral
/-! Assembling the one-iteration lemmas into the kernel loop, the driver iteration and the whole driver. -/
namespace Exetera.Join
open Exetera Exetera.Spec

variable {emit : Bool} {L R : List Int} {cs : Nat} {inv : Int}

def gvariant (emit : Bool) : Variant := if emit then .left else .inner

theorem partialBody_general (emit : Bool) (p : P) (s : K) :
    partialBody (gvariant emit) p s = generalBody emit p s := by
  cases emit <;> rfl

theorem partialGuard_general (emit : Bool) (p : P) (s : K) :
    partialGuard (gvariant emit) p s = (decide (s.i < p.iMax) && decide (s.j < p.jMax) && decide (s.r < p.cap)) := by
  cases emit <;> rfl

/-- one iteration of the general FSM preserves the global invariant and decreases both variants -/
theorem general_step (hL : Sorted L) (hR : Sorted R) (d : D) (hinv : GInv emit L R cs inv d)
    (hg : partialGuard (gvariant emit) (mkP L R cs inv d) d.k = true) :
    ∃ s', generalBody emit (mkP L R cs inv d) d.k = .ok s' ∧ GInv emit L R cs inv { d with k := s' } ∧
      kmu cs { d with k := s' } < kmu cs d ∧ gmu emit L R { d with k := s' } < gmu emit L R d := by
  rw [partialGuard_general] at hg
  simp only [mkP, D.iMax, D.jMax, K.r, Bool.and_eq_true] at hg
  have hi := of_decide_eq_true hg.1.1
  have hj := of_decide_eq_true hg.1.2
  have hr := of_decide_eq_true hg.2
  cases hin : d.k.inner with
  | false =>
    obtain ⟨a, ha, hga⟩ := chunk_access hinv.lok hi "left[i]"
    obtain ⟨b, hb, hgb⟩ := chunk_access hinv.rok hj "right[j]"
    rcases Int.lt_trichotomy a b with hab | hab | hab
    · -- a < b
      cases emit with
      | true =>
        refine ⟨{ d.k with lb := d.k.lb ++ [↑(d.k.i + d.lch.lo)], rb := d.k.rb ++ [inv], i := d.k.i + 1 }, ?_, ?_⟩
        · simp [generalBody, hin, mkP, hga, hgb, hab, push, hr, bind, Except.bind, pure, Except.pure]
        · exact step_lt hL hR hinv hin hi hr ha hb hab rfl rfl rfl rfl rfl rfl hin (by simp [D.I, Nat.add_comm]) (by simp)
      | false =>
        refine ⟨{ d.k with i := d.k.i + 1 }, ?_, ?_⟩
        · simp [generalBody, hin, mkP, hga, hgb, hab, bind, Except.bind, pure, Except.pure]
        · exact step_lt hL hR hinv hin hi hr ha hb hab rfl rfl rfl rfl rfl rfl hin (by simp) (by simp)
    · -- a = b
      subst hab
      obtain ⟨n, hn1, hn2, hn3, hn4, hn5⟩ := run_global hL hinv.lok hinv.lbd hi ha
      obtain ⟨m, hm1, hm2, hm3, hm4, hm5⟩ := run_global hR hinv.rok hinv.rbd hj hb
      refine ⟨{ d.k with ii := 0, jj := 0, iiMax := n, jjMax := m, inner := true }, ?_, ?_⟩
      · simp [generalBody, hin, mkP, hga, hgb, D.iMax, D.jMax, hn1, hm1, bind, Except.bind, pure, Except.pure]
      · exact step_enter hL hR hinv hin ha hb hn2 hm2 hn3 hm3 hn4 hn5 hm4 hm5 rfl rfl rfl rfl rfl rfl rfl rfl rfl rfl rfl rfl rfl
    · -- a > b
      refine ⟨{ d.k with j := d.k.j + 1 }, ?_, ?_⟩
      · have h1 : ¬ a < b := by omega
        simp [generalBody, hin, mkP, hga, hgb, h1, hab, bind, Except.bind, pure, Except.pure]
      · exact step_gt hinv hin hj ha hb hab rfl rfl rfl rfl rfl rfl hin rfl rfl
  | true =>
    have hb := hinv.blk hin
    by_cases hjj : ((d.k.jj + 1 : Nat) : Int) = d.k.jjMax
    · have hjj2 : (d.k.jj : Int) + 1 = d.k.jjMax := by omega
      by_cases hii : ((d.k.ii + 1 : Nat) : Int) = d.k.iiMax
      · have hii2 : (d.k.ii : Int) + 1 = d.k.iiMax := by omega
        refine ⟨{ d.k with lb := d.k.lb ++ [↑(d.lch.lo + d.k.i + d.k.ii)], rb := d.k.rb ++ [↑(d.rch.lo + d.k.j + d.k.jj)], i := d.k.i + d.k.iiMax.toNat, j := d.k.j + d.k.jjMax.toNat, inner := false, ii := 0, jj := 0, iiMax := -1, jjMax := -1 }, ?_, ?_⟩
        · simp [generalBody, hin, mkP, push, hr, hjj2, hii2, bind, Except.bind, pure, Except.pure]
        · exact step_inner_end hL hR hinv hin hr hjj hii rfl rfl rfl rfl rfl rfl rfl (by simp [D.I]) (by simp [D.J])
      · refine ⟨{ d.k with lb := d.k.lb ++ [↑(d.lch.lo + d.k.i + d.k.ii)], rb := d.k.rb ++ [↑(d.rch.lo + d.k.j + d.k.jj)], jj := 0, ii := d.k.ii + 1 }, ?_, ?_⟩
        · have hii2 : ¬ (d.k.ii : Int) + 1 = d.k.iiMax := by omega
          simp [generalBody, hin, mkP, push, hr, hjj2, hii2, bind, Except.bind, pure, Except.pure]
        · exact step_inner_ii hinv hin hr hjj hii rfl rfl rfl rfl rfl rfl hin rfl rfl rfl rfl (by simp [D.I]) (by simp [D.J])
    · refine ⟨{ d.k with lb := d.k.lb ++ [↑(d.lch.lo + d.k.i + d.k.ii)], rb := d.k.rb ++ [↑(d.rch.lo + d.k.j + d.k.jj)], jj := d.k.jj + 1 }, ?_, ?_⟩
      · have hjj2 : ¬ (d.k.jj : Int) + 1 = d.k.jjMax := by omega
        simp [generalBody, hin, mkP, push, hr, hjj2, bind, Except.bind, pure, Except.pure]
      · exact step_inner_jj hinv hin hr hjj rfl rfl rfl rfl rfl rfl hin rfl rfl rfl rfl (by simp [D.I]) (by simp [D.J])

end Exetera.Join

namespace Exetera.Join
open Exetera Exetera.Spec

variable {emit : Bool} {L R : List Int} {cs : Nat} {inv : Int}

theorem kmu_le_fuel (d : D) (hl : ChunkOK L d.lch) (hr : ChunkOK R d.rch) :
    kmu cs d ≤ partialFuel (mkP L R cs inv d) := by
  simp only [kmu, partialFuel, mkP, D.iMax, D.jMax]
  split <;> omega

/-- a whole `_partial` call: returns normally (no out-of-bounds access, within its fuel), keeps the global invariant,
    leaves its loop guard false, never increases the global variant and decreases it if it ran at all -/
theorem general_partial (hL : Sorted L) (hR : Sorted R) (d : D) (hinv : GInv emit L R cs inv d) :
    ∃ k', runPartial (gvariant emit) (mkP L R cs inv d) d.k = .ok k' ∧ GInv emit L R cs inv { d with k := k' } ∧
      partialGuard (gvariant emit) (mkP L R cs inv d) k' = false ∧
      gmu emit L R { d with k := k' } ≤ gmu emit L R d ∧
      (partialGuard (gvariant emit) (mkP L R cs inv d) d.k = true → gmu emit L R { d with k := k' } < gmu emit L R d) := by
  have hmk : ∀ s : K, mkP L R cs inv { d with k := s } = mkP L R cs inv d := fun s => rfl
  have key := whileE_rule (partialGuard (gvariant emit) (mkP L R cs inv d)) (partialBody (gvariant emit) (mkP L R cs inv d))
    (fun s => GInv emit L R cs inv { d with k := s } ∧ gmu emit L R { d with k := s } ≤ gmu emit L R d ∧
      (s ≠ d.k → gmu emit L R { d with k := s } < gmu emit L R d))
    (fun s => kmu cs { d with k := s })
    (by
      intro s ⟨hI, hle, hne⟩ hg
      have := general_step hL hR { d with k := s } hI (by rw [hmk]; exact hg)
      obtain ⟨s', h1, h2, h3, h4⟩ := this
      rw [hmk] at h1
      refine ⟨s', by rw [partialBody_general]; exact h1, ⟨h2, ?_, ?_⟩, h3⟩
      · exact Nat.le_of_lt (Nat.lt_of_lt_of_le h4 hle)
      · intro _; exact Nat.lt_of_lt_of_le h4 hle)
    (partialFuel (mkP L R cs inv d)) d.k ⟨hinv, Nat.le_refl _, fun h => absurd rfl h⟩ (kmu_le_fuel d hinv.lok hinv.rok)
  obtain ⟨k', h1, ⟨h2, h3, h4⟩, h5⟩ := key
  refine ⟨k', h1, h2, h5, h3, ?_⟩
  intro hg
  apply h4
  intro heq
  rw [heq] at h5
  rw [h5] at hg
  cases hg

end Exetera.Join
