import Exetera.Props.C05
import Exetera.Props.C16
import Exetera.Props.C18
import Exetera.Lemmas.StreamFuelConcat
/-!
# C12 — span concatenation, CSV export, CSV reading

* `Session.apply_spans_concat`: the model of C16 runs the batch loop with the budget `len(spans)`; here the loop takes its fuel
  as a parameter (`Concat.applySpansConcatSF`, `applySpansConcatS_eq_F : … = …F len(spans)` by `rfl`) and any fuel `≥` the number
  of spans gives the specified result with at most one kernel call per span (= per output entry).
* `DataFrame.to_csv`: the chunk loop of C18 takes its fuel as a parameter already.
* `read_file_using_fast_csv_reader`: corollary of C05's driver theorem under its two no-regrowth hypotheses (`_partial`).
-/
namespace Exetera.Props.C12
open Exetera

/-! ## span concatenation -/
section Concat
open Exetera.Concat Exetera.Spec.CsvLine
variable {α : Type} [DecidableEq α]

/-- **concat_terminates_linear.** For every column, every list of span boundaries inside it, every `src_chunksize ≥ 1`, every
    `dest_chunksize`, `chunksize_mult` and EVERY fuel `≥ 1·(number of spans) + 0` (`= len(spans) - 1`, the number of output
    entries): the batch loop finishes, the destination holds exactly `concatSpec`, and at most one kernel call per span was
    made. -/
theorem concat_terminates_linear (sep delim : α) (entries : List (List α)) (spans : List Nat) (srcChunk destChunk mult : Nat)
    (hbound : ∀ p ∈ spans, p ≤ entries.length) (hsc : 1 ≤ srcChunk) (fuel : Nat)
    (hfuel : 1 * (spans.length - 1) + 0 ≤ fuel) :
    ∃ st, applySpansConcatSF fuel .repaired sep delim spans (offsets entries) entries.flatten srcChunk destChunk mult = .ok st ∧
      st.dest = ⟨storedIndices (concatSpec sep delim entries spans), (concatSpec sep delim entries spans).flatten⟩ ∧
      st.calls ≤ spans.length - 1 := by
  obtain ⟨cap, hcap, _, hroom⟩ := valueCap_spec sep delim entries spans destChunk mult hbound
  obtain ⟨st, hrun, hdest⟩ := runBatches_spec sep delim spans entries srcChunk cap hbound hsc (cap / 2) hroom
    (by omega) (by omega)
  obtain ⟨hF, hcalls⟩ := runBatches_fuel .repaired sep delim spans (offsets entries) entries.flatten srcChunk cap st hrun
    fuel (by omega)
  exact ⟨st, by simp only [applySpansConcatSF, hcap, hF], hdest, hcalls⟩

/-- **concat_never_spins.** Every successful iteration of the batch loop (either variant, any buffers) handles at least one
    span: the span position strictly advances and stays within the span list, exactly one kernel call is counted, and the
    destination is only appended to. -/
theorem concat_never_spins (v : Variant) (sep delim : α) (spans idx : List Nat) (vals : List α) (srcChunk valueCap : Nat)
    (st st' : S α) (h : batchBody v sep delim spans idx vals srcChunk valueCap st = .ok st') :
    (spans.length - 1) - st'.s < (spans.length - 1) - st.s ∧ st'.calls = st.calls + 1 ∧
      st.dest.indices <+: st'.dest.indices ∧ st.dest.values <+: st'.dest.values := by
  obtain ⟨h1, h2, h3, h4, h5⟩ := batchBody_advances v sep delim spans idx vals srcChunk valueCap st st' h
  exact ⟨by omega, h3, h4, h5⟩

-- three spans, `src_chunksize = 1` (two batches); fuel = number of spans; one fewer than the batches needed does not suffice
example : (∀ p ∈ [0, 1, 4, 5], p ≤ C16.exEntries.length) ∧
    (applySpansConcatSF 3 .repaired (44 : Nat) 34 [0, 1, 4, 5] (offsets C16.exEntries) C16.exEntries.flatten 1 1 1).map
      (fun st => (st.dest, st.calls))
      = .ok (⟨[0, 1, 13, 15], [97, 34, 98, 44, 99, 34, 44, 34, 100, 34, 34, 101, 34, 195, 169]⟩, 2) ∧
    (applySpansConcatSF 1 .repaired (44 : Nat) 34 [0, 1, 4, 5] (offsets C16.exEntries) C16.exEntries.flatten 1 1 1).map
      (fun st => st.calls) = .error .outOfFuel := by decide

end Concat

/-! ## CSV export -/
section Export
open Exetera.Export Exetera.Spec.Export

/-- **export_terminates.** The chunk loop of `to_csv`, for every `chunk_row_size ≥ 1` and every fuel
    `≥ 1·len(first column) + 1` (exactly `⌊n / crs⌋ + 1` iterations are needed, `C18.terminates`): the rows written are the
    specified rows. -/
theorem export_terminates (c0 : List Export.Cell) (rest : List (List Export.Cell)) (flt : Option (List Bool)) (crs : Nat)
    (hcrs : 1 ≤ crs) (fuel : Nat) (hfuel : 1 * c0.length + 1 ≤ fuel) :
    exportLoop (c0 :: rest) flt crs fuel = .ok (exportRows (c0 :: rest) flt) := by
  have : c0.length / crs ≤ c0.length := Nat.div_le_self _ _
  exact exportLoop_eq _ flt crs fuel (by simp) hcrs (by simp only [loopFuel]; omega)

/-- **export_clear_error.** A chunk size that cannot be processed (`chunk_row_size ≤ 0`) is rejected with a `ValueError`
    before the loop is entered — it is not left to spin on empty chunks. -/
theorem export_clear_error (writerow : List Export.Cell → List Char) (f : Frame) (rf : RowFilter) (cf : ColFilter) (crs : Int)
    (hcrs : crs ≤ 0) :
    toCsv writerow f rf cf crs = .error (.valueError "'chunk_row_size' must be larger than 0.") := by
  simp [toCsv, hcrs]

/-- **export_never_spins.** Every iteration of `while True:` (chunk size ≥ 1) either takes the `break` or consumes exactly `chunk_row_size`
    rows that exist in the first column; rows already written are never taken back. -/
theorem export_never_spins (c0 : List Export.Cell) (rest : List (List Export.Cell)) (flt : Option (List Bool)) (crs : Nat)
    (hcrs : 1 ≤ crs) (s s' : LoopSt) (h : loopBody (c0 :: rest) flt crs s = .ok s') :
    (s'.done = true ∨ (s'.startRow = s.startRow + crs ∧ s.startRow + crs ≤ c0.length)) ∧ s.written <+: s'.written := by
  simp only [loopBody, List.map_cons, List.getElem?_cons_zero] at h
  split at h
  · simp only [Except.ok.injEq] at h
    subst h
    exact ⟨Or.inl rfl, List.prefix_append _ _⟩
  · rename_i hlen
    simp only [Except.ok.injEq] at h
    subst h
    simp only [slice_length] at hlen
    exact ⟨Or.inr ⟨rfl, by omega⟩, List.prefix_append _ _⟩

-- 4 rows, chunk size 2: three iterations (the last one reads the empty chunk and breaks)
example : exportLoop [[['a'], ['b'], ['c'], ['d']]] none 2 5 = .ok [[['a']], [['b']], [['c']], [['d']]] ∧
    loopBody [[['a'], ['b'], ['c'], ['d']]] none 2 ⟨2, [[['a']], [['b']]], false⟩
      = .ok ⟨4, [[['a']], [['b']], [['c']], [['d']]], false⟩ := by decide

end Export

/-! ## CSV reading -/
section Csv
open Exetera.Csv Exetera.Csv.Spec

/-- **csv_driver_terminates** (full statement; the driver invariant across a regrowth step is `C05.window_chunking_unobservable`).
    In the supported regime (every line fits the byte window `2·crs·ncols`), for every `chunk_row_size ≥ 1`, EVERY starting value
    budgets ≥ 1 — whatever regrowth they force, any number of times, in any window — and every fuel ≥ `records + 2 + regrowthBound`:
    `read_file_using_fast_csv_reader` finishes with the file's columns — never `outOfFuel`. (What stays outside: a record longer
    than the byte window; the regime hypothesis `Regime.reg` excludes it, see DESIGN 6.6.) -/
theorem csv_driver_terminates {file : List Nat} {crs ncols : Nat} {offs : List Nat} {hrow : List Cell}
    {rows : List (List Cell)} (h : C05.Regime file crs ncols hrow rows) (hb : C05.Budgets ncols offs) (im : List Nat)
    (him : ∀ c ∈ im, c < ncols) (fuel : Nat)
    (hfuel : rows.length + 2 + regrowthBound rows ncols offs (crs * Gen.Csv.CHUNK_ROW_FACTOR) ≤ fuel) :
    (∃ calls, readFile file crs ncols offs im (im.map (fun _ => ({ kind := .indexed } : Imp))) fuel =
      .ok ⟨rows.length, im.map (fun c => fieldOf (column (values rows) c)), calls⟩) ∧
    readFile file crs ncols offs im (im.map (fun _ => ({ kind := .indexed } : Imp))) fuel ≠ .error .outOfFuel := by
  obtain ⟨calls, hrun⟩ := C05.window_chunking_unobservable h hb im him fuel hfuel
  exact ⟨⟨calls, hrun⟩, by rw [hrun]; intro h; cases h⟩

-- non-vacuity of `csv_driver_terminates`: `C05`'s examples `Regime (render (exHeader :: exRows)) 3 2 exHeader exRows` and
-- `Budgets 2 [0, 1, 2]` (one byte per column: regrowth in every window) are exactly its hypotheses

/-- **csv_driver_terminates_partial.** In the supported regime (every line fits the byte window `2·crs·ncols`) and under the two
    no-regrowth hypotheses of C05 (`min`, `fit`), for every `chunk_row_size ≥ 1` and every fuel `≥ 1·(number of records) + 2`:
    `read_file_using_fast_csv_reader` finishes with the file's columns — never `outOfFuel`. -/
theorem csv_driver_terminates_partial {file : List Nat} {crs ncols : Nat} {offs : List Nat} {hrow : List Cell}
    {rows : List (List Cell)} (h : C05.Supported file crs ncols offs hrow rows) (im : List Nat) (him : ∀ c ∈ im, c < ncols)
    (fuel : Nat) (hfuel : 1 * rows.length + 2 ≤ fuel) :
    (∃ calls, readFile file crs ncols offs im (im.map (fun _ => ({ kind := .indexed } : Imp))) fuel =
      .ok ⟨rows.length, im.map (fun c => fieldOf (column (values rows) c)), calls⟩) ∧
    readFile file crs ncols offs im (im.map (fun _ => ({ kind := .indexed } : Imp))) fuel ≠ .error .outOfFuel := by
  obtain ⟨calls, hrun⟩ := C05.window_chunking_unobservable_partial h im him fuel (by omega)
  exact ⟨⟨calls, hrun⟩, by rw [hrun]; intro h; cases h⟩

/-- the example file of C05 read with `chunk_row_size = 3` (windows of 12 bytes: three kernel calls) is in the regime -/
example : C05.Supported (render (C05.exHeader :: C05.exRows)) 3 2 [0, 100, 200] C05.exHeader C05.exRows ∧
    1 * C05.exRows.length + 2 ≤ 5 := by
  refine ⟨⟨Or.inl rfl, by decide, ⟨rfl, ?_⟩, ⟨by decide, ?_⟩, by decide, ?_, ?_, ⟨rfl, rfl, ?_⟩, ?_⟩, by decide⟩
  · intro c hc
    simp only [C05.exHeader, List.mem_cons, List.not_mem_nil, or_false] at hc
    rcases hc with h | h <;> subst h <;> simp [Cell.WF] <;> decide
  · intro r hr
    simp only [C05.exRows, List.mem_cons, List.not_mem_nil, or_false] at hr
    rcases hr with h | h | h <;> subst h <;> refine ⟨rfl, ?_⟩ <;> intro c hc <;>
      simp only [List.mem_cons, List.not_mem_nil, or_false] at hc <;> rcases hc with h | h <;> subst h <;>
      simp [Cell.WF] <;> decide
  · intro l hl
    simp only [C05.exHeader, C05.exRows, List.mem_cons, List.not_mem_nil, or_false] at hl
    rcases hl with h | h | h | h <;> subst h <;> decide
  · intro l hl
    simp only [C05.exHeader, C05.exRows, List.mem_cons, List.not_mem_nil, or_false] at hl
    rcases hl with h | h | h | h <;> subst h <;> decide
  · intro c hc
    have : c = 0 ∨ c = 1 := by omega
    rcases this with rfl | rfl <;> decide
  · intro c hc
    have : c = 0 ∨ c = 1 := by omega
    rcases this with rfl | rfl <;> decide

end Csv

end Exetera.Props.C12
