import Driver.Util
import Exetera.Model.FilterIndex
open Lean Exetera Exetera.FilterIndex
namespace Driver.C09

def variantOf (j : Json) : Variant :=
  match j.getObjValAs? String "variant" with
  | .ok "asFound" => .asFound
  | _ => .repaired

def optField (α) [FromJson α] (j : Json) (k : String) : Except String (Option α) :=
  match j.getObjVal? k with
  | .error _ => pure none
  | .ok .null => pure none
  | .ok v => do let a ← fromJson? v; pure (some a)

def keyOf (j : Json) : Except String (List (Int × String)) := do
  match j.getObjVal? "key" with
  | .error _ => pure []
  | .ok .null => pure []
  | .ok (.arr a) =>
    a.toList.mapM (fun e => do
      let k ← e.getArrVal? 0 >>= fun x => (fromJson? x : Except String Int)
      let s ← e.getArrVal? 1 >>= fun x => (fromJson? x : Except String String)
      pure (k, s))
  | .ok _ => throw "key: expected array"

def fieldOf (j : Json) : Except String Field := do
  let ftype ← get? String j "ftype"
  let nformat ← get? String j "nformat"
  let strlen ← get? Nat j "strlen"
  let key ← keyOf j
  let we := match j.getObjValAs? Bool "we" with
    | .ok b => b
    | .error _ => true
  let payload ← match j.getObjVal? "indices" with
    | .ok (.arr _) => do
      let i ← get? (List Nat) j "indices"
      let v ← get? (List Nat) j "values"
      pure (Payload.indexed i v)
    | _ => do
      let d ← get? (List Int) j "data"
      pure (Payload.plain d)
  pure { info := { ftype := ftype, nformat := nformat, strlen := strlen, key := key }, payload := payload, writeEnabled := we }

def fieldJson (f : Field) : Json :=
  let base : List (String × Json) :=
    [("ftype", Json.str f.info.ftype), ("nformat", Json.str f.info.nformat), ("strlen", toJson f.info.strlen),
     ("key", Json.arr (f.info.key.map (fun p => Json.arr #[Json.num (JsonNumber.fromInt p.1), Json.str p.2])).toArray)]
  match f.payload with
  | .plain d => Json.mkObj (base ++ [("data", Driver.ints d)])
  | .indexed i v => Json.mkObj (base ++ [("indices", Driver.nats i), ("values", Driver.nats v)])

def colOf (j : Json) : Except String (String × Field) := do
  let n ← get? String j "name"
  let f ← fieldOf j
  pure (n, f)

def frameOf (j : Json) : Except String (String × Frame) := do
  let n ← get? String j "name"
  let cols ← get? (Array Json) j "cols"
  let cs ← cols.toList.mapM colOf
  pure (n, cs)

def frameJson (p : String × Frame) : Json :=
  Json.mkObj [("name", Json.str p.1),
    ("cols", Json.arr (p.2.map (fun c => (fieldJson c.2).setObjVal! "name" (Json.str c.1))).toArray)]

def storeJson (st : Store) : Json := Json.arr (st.map frameJson).toArray

def filterOf (j : Json) : Except String Filter := do
  let kind ← get? String j "fkind"
  match kind with
  | "bool" => do
    let xs ← get? (List Int) j "flt"
    pure (.bool (xs.map (fun x => x != 0)))
  | "num" => do
    let xs ← get? (List Int) j "flt"
    pure (.num xs)
  | _ => pure .bad

/-- one step of a frame history -/
def runStep (v : Variant) (st : Store) (j : Json) : Except String (Except Err Store) := do
  let what ← get? String j "what"
  let src ← get? String j "src"
  let ddf ← optField String j "ddf"
  match what with
  | "filter" => do
    let f ← filterOf j
    pure (dfApplyFilter v st src f ddf)
  | "index" => do
    let idx ← get? (List Int) j "idx"
    pure (dfApplyIndex v st src idx ddf)
  | "sort" => do
    let by_ ← get? (List String) j "by"
    pure (dfSortValues v st src by_ ddf)
  | _ => throw s!"bad step {what}"

def runSteps (v : Variant) : List Json → Nat → Store → Except String Json
  | [], k, st => pure (Json.mkObj [("done", toJson k), ("err", Json.null), ("store", storeJson st)])
  | j :: js, k, st =>
    match runStep v st j with
    | .error e => .error e
    | .ok (.error e) => pure (Json.mkObj [("done", toJson k), ("err", Json.str e.tag), ("store", storeJson st)])
    | .ok (.ok st') => runSteps v js (k + 1) st'

def pairJson (p : List Nat × List Nat) : Json := Json.mkObj [("di", Driver.nats p.1), ("dv", Driver.nats p.2)]

def handle : Driver.Handler := fun op j =>
  match op with
  | "c09_kernel" => some do
    let kernel ← get? String j "kernel"
    let indices ← get? (List Nat) j "indices"
    let values ← get? (List Nat) j "values"
    let v := variantOf j
    match kernel with
    | "filter" => do
      let flt ← get? (List Int) j "flt"
      pure (Driver.outE pairJson (applyFilterToIndexValues v (flt.map (fun x => x != 0)) indices values))
    | _ => do
      let idx ← get? (List Int) j "idx"
      pure (Driver.outE pairJson (applyIndicesToIndexValues v idx indices values))
  | "c09_field" => some do
    let what ← get? String j "what"
    let src ← (j.getObjVal? "src") >>= fieldOf
    let target ← match j.getObjVal? "target" with
      | .ok (.obj o) => do let f ← fieldOf (.obj o); pure (some f)
      | _ => pure none
    let inplace ← get? Bool j "inplace"
    let v := variantOf j
    match what with
    | "filter" => do
      let f ← filterOf j
      pure (Driver.outE fieldJson (applyFilterField v src f target inplace))
    | _ => do
      let idx ← get? (List Int) j "idx"
      pure (Driver.outE fieldJson (applyIndexField v src idx target inplace))
  | "c09_frame" => some do
    let frames ← get? (Array Json) j "store"
    let st ← frames.toList.mapM frameOf
    let steps ← get? (Array Json) j "steps"
    let out ← runSteps (variantOf j) steps.toList 0 st
    pure (Driver.okJson out)
  | "c09_sortidx" => some do
    let keys ← get? (List (List Int)) j "keys"
    let index ← optField (List Nat) j "index"
    pure (Driver.outE Driver.nats (datasetSortIndex keys index))
  | "c09_sess_array" => some do
    let what ← get? String j "what"
    let src ← get? (List Int) j "src"
    let dest ← optField (List Int) j "dest"
    let enc := fun (p : List Int × Option (List Int)) =>
      Json.mkObj [("r", Driver.ints p.1), ("dest", match p.2 with | some d => Driver.ints d | none => Json.null)]
    match what with
    | "filter" => do
      let f ← filterOf j
      pure (Driver.outE enc (sessionFilterArray f src dest))
    | _ => do
      let idx ← get? (List Int) j "idx"
      pure (Driver.outE enc (sessionIndexArray idx src dest))
  | _ => none

end Driver.C09
