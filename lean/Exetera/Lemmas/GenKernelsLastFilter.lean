import Exetera.Gen.Kernels
import Exetera.Lemmas.GenKernels
/-!
  The TRANSLATED kernel `ordered_get_last_as_filter(field)` (`result[i] = field[i] != field[i+1]`, `result[-1] = True`).

  The kernel has NO caller in the library (only tests/ call it) and no hand model: the theorems below are NOT obligations of
  any property (an edit to dead code must not raise a semantic alarm); they document what the translated definition computes
  and are re-checked by `lake build Exetera` only. The translation itself is validated differentially under C10
  (checks/harness/genkernels.py).

  `lastFilterSpec`: flag `i` is set iff row `i` is the last row of the column or differs from row `i + 1` — the last row of every run
  of equal values. `last_as_filter_eq`: on every non-empty column the translated kernel returns it (no subscript out of range or
  negative); `last_as_filter_empty`: on the empty column `result[-1]` raises IndexError.
-/
namespace Exetera.GenK

open Exetera Exetera.PyRt Exetera.Gen.Kernels

/-- flag `i`: row `i` is the last row or differs from the next one -/
def lastFilterSpec (f : List Int) : List Bool :=
  (List.range f.length).map (fun i => if i + 1 < f.length then f[i]? != f[i + 1]? else true)

namespace LastFilter

abbrev St := ordered_get_last_as_filter.St

/-- the flags of the first `k` rows -/
def pre (f : List Int) (k : Nat) : List Bool := (List.range k).map (fun i => f[i]? != f[i + 1]?)

theorem pre_succ (f : List Int) (k : Nat) : pre f (k + 1) = pre f k ++ [f[k]? != f[k + 1]?] := by
  simp [pre, List.range_succ]

theorem pre_len (f : List Int) (k : Nat) : (pre f k).length = k := by simp [pre]

theorem loop (f : List Int) :
    ∀ (m k : Nat) (v1 : Int), k + m + 1 = f.length →
      ∃ v1', forRangeAux (fun _ => false) (fun j s => ordered_get_last_as_filter.body_L1 { s with v1 := j }) m (k : Int)
          (⟨f, pre f k ++ List.replicate (f.length - k) false, v1⟩ : St)
        = .ok ⟨f, pre f (k + m) ++ List.replicate (f.length - (k + m)) false, v1'⟩ := by
  intro m
  induction m with
  | zero => intro k v1 _; exact ⟨v1, by simp [forRangeAux]⟩
  | succ m ih =>
    intro k v1 h
    have hk : k < f.length := by omega
    have hk1 : k + 1 < f.length := by omega
    have e1 : (k : Int) + 1 = ((k + 1 : Nat) : Int) := by omega
    have hrep : f.length - k = (f.length - (k + 1)) + 1 := by omega
    obtain ⟨v1', hih⟩ := ih (k + 1) (k : Int) (by omega)
    refine ⟨v1', ?_⟩
    have hb : ordered_get_last_as_filter.body_L1 (⟨f, pre f k ++ List.replicate (f.length - k) false, (k : Int)⟩ : St)
        = .ok ⟨f, pre f (k + 1) ++ List.replicate (f.length - (k + 1)) false, (k : Int)⟩ := by
      have hlen : k < (pre f k ++ List.replicate (f.length - k) false).length := by simp [pre_len]; omega
      simp only [ordered_get_last_as_filter.body_L1, e1, idxE_nat, getE_of_lt _ hk, getE_of_lt _ hk1, bindE_ok, setIdxE_nat, setE,
        hlen, if_true]
      rw [pre_succ, hrep, List.replicate_succ]
      simp [pre_len, List.getElem?_eq_getElem hk, List.getElem?_eq_getElem hk1]
      cases hd : decide (f[k] = f[k + 1]) <;> simp_all [bne]
    rw [forRangeAux]
    simp only [hb]
    rw [e1, show k + (m + 1) = k + 1 + m by omega]
    exact hih

end LastFilter

/-- on every non-empty column the translated kernel returns `lastFilterSpec` -/
theorem last_as_filter_eq (f : List Int) (hne : f ≠ []) : ordered_get_last_as_filter.run f = .ok (lastFilterSpec f) := by
  have hpos : 0 < f.length := List.length_pos_iff.mpr hne
  obtain ⟨v1', hl⟩ := LastFilter.loop f (f.length - 1) 0 0 (by omega)
  unfold ordered_get_last_as_filter.run
  have hz : npZerosB (pyLen f) = .ok (List.replicate f.length false) := by
    have : ¬ ((f.length : Int) < 0) := by omega
    simp [npZerosB, pyLen, this]
  have hr : ((pyLen f - 1) - 0).toNat = f.length - 1 := by simp only [pyLen]; omega
  simp only [hz, bindE_ok, forRangeE, hr]
  simp only [LastFilter.pre, List.range_zero, List.map_nil, List.nil_append, Nat.sub_zero, Int.natCast_zero, Nat.zero_add] at hl
  rw [hl]
  have e : f.length - (f.length - 1) = 1 := by omega
  simp only [bindE_ok, e, setIdxNegE, setE]
  have hlen : ((List.range (f.length - 1)).map (fun i => f[i]? != f[i + 1]?) ++ List.replicate 1 false).length = f.length := by
    simp; omega
  rw [hlen]
  simp only [show 1 ≤ f.length by omega, if_true, show f.length - 1 < f.length by omega]
  unfold lastFilterSpec
  obtain ⟨n, hn⟩ : ∃ n, f.length = n + 1 := ⟨f.length - 1, by omega⟩
  simp only [hn, Nat.add_sub_cancel, List.range_succ, List.map_append, List.map_cons, List.map_nil, Nat.lt_irrefl, if_false]
  have hset : ((List.range n).map (fun i => f[i]? != f[i + 1]?) ++ List.replicate 1 false).set n true
      = (List.range n).map (fun i => f[i]? != f[i + 1]?) ++ [true] := by
    simp
  rw [hset]
  simp only [bindE_ok]
  congr 2
  apply List.map_congr_left
  intro i hi
  have : i < n := by simpa using hi
  simp [this]

/-- the empty column: `result[-1] = True` on an array without entries is an IndexError -/
theorem last_as_filter_empty : ordered_get_last_as_filter.run [] = .error (.oob "v0[-1]") := rfl

example : ordered_get_last_as_filter.run [1, 1, 2, 3, 3, 3] = .ok [false, true, true, false, false, true] := rfl
example : lastFilterSpec [1, 1, 2, 3, 3, 3] = [false, true, true, false, false, true] := by decide

end Exetera.GenK
