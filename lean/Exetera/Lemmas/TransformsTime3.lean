import Exetera.Lemmas.TransformsTime2
/-! C06: `parse_timestamp_bytes` on every accepted layout (texts rendered from field values with fixed-width decimals). -/
namespace Exetera.Transforms
open Exetera Exetera.Spec.Transforms

/-- `YYYY-MM-DD HH:MM:SS` -/
def L19 (Y M D h mi s : Nat) : Bytes :=
  d4 Y ++ 45 :: d2 M ++ 45 :: d2 D ++ 32 :: d2 h ++ 58 :: d2 mi ++ 58 :: d2 s

/-- `+HH:MM` / `-HH:MM` -/
def offText (neg : Bool) (oh om : Nat) : Bytes := (if neg then 45 else 43) :: d2 oh ++ 58 :: d2 om

def offMinutes (neg : Bool) (oh om : Nat) : Int := if neg then -((oh * 60 + om : Nat) : Int) else ((oh * 60 + om : Nat) : Int)

def utcSuffix : Bytes := [32, 85, 84, 67]

structure FieldBounds (Y M D h mi s : Nat) : Prop where
  hY : Y < 10000
  hM : M < 100
  hD : D < 100
  hh : h < 100
  hmi : mi < 100
  hs : s < 100

theorem ymdhms_L19 (Y M D h mi s : Nat) (hb : FieldBounds Y M D h mi s) (suf : Bytes) :
    ymdhms (L19 Y M D h mi s ++ suf) = .ok ((Y : Int), (M : Int), (D : Int), (h : Int), (mi : Int), (s : Int)) := by
  unfold ymdhms
  rw [intAt_digits _ 0 4 (d4 Y) rfl (d4_ok Y hb.hY).1 (by simp [d4]), (d4_ok Y hb.hY).2]
  simp only
  rw [intAt_digits _ 5 7 (d2 M) rfl (d2_ok M hb.hM).1 (by simp [d2]), (d2_ok M hb.hM).2]
  simp only
  rw [intAt_digits _ 8 10 (d2 D) rfl (d2_ok D hb.hD).1 (by simp [d2]), (d2_ok D hb.hD).2]
  simp only
  rw [intAt_digits _ 11 13 (d2 h) rfl (d2_ok h hb.hh).1 (by simp [d2]), (d2_ok h hb.hh).2]
  simp only
  rw [intAt_digits _ 14 16 (d2 mi) rfl (d2_ok mi hb.hmi).1 (by simp [d2]), (d2_ok mi hb.hmi).2]
  simp only
  rw [intAt_digits _ 17 19 (d2 s) rfl (d2_ok s hb.hs).1 (by simp [d2]), (d2_ok s hb.hs).2]

theorem L19_length (Y M D h mi s : Nat) : (L19 Y M D h mi s).length = 19 := rfl

theorem stampWith_L19 (Y M D h mi s : Nat) (hb : FieldBounds Y M D h mi s) (suf : Bytes) (a b : Nat) (scale f o : Int)
    (off : Except Err Int) (hf : (if a == b then Except.ok 0 else intAt (L19 Y M D h mi s ++ suf) a b) = .ok f)
    (ho : off = .ok o) :
    stampWith (L19 Y M D h mi s ++ suf) a b scale off = mkTimestamp Y M D h mi s (f * scale) o := by
  unfold stampWith
  rw [ymdhms_L19 Y M D h mi s hb suf]
  simp only [hf, ho]

theorem slice_append_right {α} (pre xs : List α) (a b : Nat) :
    slice (pre ++ xs) (pre.length + a) (pre.length + b) = slice xs a b := by
  simp only [slice]
  have : pre.length + b - (pre.length + a) = b - a := by omega
  rw [this]
  congr 1
  induction pre with
  | nil => simp
  | cons x pre ih => simpa [Nat.succ_add] using ih

/-- the written offset of a text ending in `±HH:MM` -/
theorem utcOffsetMin_spec (pre : Bytes) (neg : Bool) (oh om : Nat) (hoh : oh < 100) (hom : om < 100)
    (hlt : oh * 60 + om < 1440) :
    utcOffsetMin (pre ++ offText neg oh om) = .ok (offMinutes neg oh om) := by
  have hn : (pre ++ offText neg oh om).length = pre.length + 6 := by simp [offText, d2]
  unfold utcOffsetMin
  simp only [hn]
  have e6 : pre.length + 6 - 6 = pre.length := by omega
  have e5 : pre.length + 6 - 5 = pre.length + 1 := by omega
  have e3 : pre.length + 6 - 3 = pre.length + 3 := by omega
  have e2 : pre.length + 6 - 2 = pre.length + 4 := by omega
  rw [e6, e5, e3, e2]
  have s1 : slice (pre ++ offText neg oh om) pre.length (pre.length + 1) = [if neg then 45 else 43] := by
    have := slice_append_right pre (offText neg oh om) 0 1
    simp only [Nat.add_zero] at this
    rw [this]; rfl
  have s2 : slice (pre ++ offText neg oh om) (pre.length + 1) (pre.length + 3) = d2 oh := by
    rw [slice_append_right]; rfl
  have s3 : slice (pre ++ offText neg oh om) (pre.length + 4) (pre.length + 6) = d2 om := by
    rw [slice_append_right]; rfl
  rw [s1]
  rw [intAt_digits _ _ _ (d2 oh) s2 (d2_ok oh hoh).1 (by simp [d2]), (d2_ok oh hoh).2]
  rw [intAt_digits _ _ _ (d2 om) s3 (d2_ok om hom).1 (by simp [d2]), (d2_ok om hom).2]
  cases neg with
  | false =>
    have hc : (((oh : Int) * 60 + (om : Int)) > -1440 ∧ ((oh : Int) * 60 + (om : Int)) < 1440) := by omega
    simp [offMinutes]; omega
  | true =>
    simp [offMinutes]; omega

end Exetera.Transforms
