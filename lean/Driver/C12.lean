import Driver.Util
import Exetera.Model.ChunkedCopy
import Exetera.Model.LegacyMapFix
open Lean Exetera Exetera.ChunkedCopy
namespace Driver.C12

def outJson (o : Out Int) : Json :=
  match o.field with
  | .plain d => Json.mkObj [("data", Driver.ints d), ("calls", toJson o.writes)]
  | .indexed i v => Json.mkObj [("indices", Driver.ints i), ("values", Driver.ints v), ("calls", toJson o.writes)]

def handle : Driver.Handler := fun op j =>
  match op with
  | "chunked_copy" => some do
    let kind ← Driver.get? String j "kind"
    let cs ← Driver.get? Nat j "cs"
    let f : Field Int ←
      if kind == "indexed" then do
        let i ← Driver.get? (List Int) j "indices"
        let v ← Driver.get? (List Int) j "values"
        pure (Field.indexed i v)
      else do
        let d ← Driver.get? (List Int) j "data"
        pure (Field.plain d)
    -- the fuel of the theorem `chunked_copy_field_eq`: the length of the longest element array
    let n := match f with | .plain d => d.length | .indexed i v => max i.length v.length
    let fuel := (j.getObjValAs? Nat "fuel").toOption.getD n
    pure <| Driver.outE outJson (chunkedCopy f cs fuel)
  | "legacy_map_stream" => some do
    -- `ordered_map_valid_stream_old`: the model output is the variant with NC12a repaired; the as-found variant is reported
    -- next to it so that the code before the fix is recognised (and reported) instead of being called a disagreement
    let src ← Driver.get? (List Int) j "src"
    let m ← Driver.get? (List Int) j "map"
    let inv ← Driver.get? Int j "inv"
    let cs ← Driver.get? Nat j "cs"
    let rep := Driver.outE Driver.ints (JoinOld.mapValidStreamOldR src m inv cs (0 : Int))
    let asf := Driver.outE Driver.ints (JoinOld.mapValidStreamOld src m inv cs (0 : Int))
    pure <| rep.setObjVal! "as_found" asf
  | _ => none

end Driver.C12
