/-!
  C10 — DOC Concat
-/
namespace Exetera.KernelPaths

/-- the span-concatenation kernel (C16): path condition of every subscript occurrence -/
def concatPaths : List (String × List (String × List String)) := [
  ("_apply_spans_concat_2", [
    ("R spans[s + 1]", ["for s in range(sp_start, sp_end)"]),
    ("R spans[s]", ["for s in range(sp_start, sp_end)"]),
    ("R src_index[e + 1]", ["for s in range(sp_start, sp_end)", "not (non_empties == 1)", "non_empties > 1", "for e in range(sp_cur, sp_next)"]),
    ("R src_index[e + 1]", ["for s in range(sp_start, sp_end)", "not (sp_next - sp_cur == 1)", "sp_next - sp_cur > 1", "for e in range(sp_cur, sp_next)"]),
    ("R src_index[e]", ["for s in range(sp_start, sp_end)", "not (non_empties == 1)", "non_empties > 1", "for e in range(sp_cur, sp_next)"]),
    ("R src_index[e]", ["for s in range(sp_start, sp_end)", "not (sp_next - sp_cur == 1)", "sp_next - sp_cur > 1", "for e in range(sp_cur, sp_next)"]),
    ("R src_index[sp_cur]", ["for s in range(sp_start, sp_end)"]),
    ("R src_index[sp_next]", ["for s in range(sp_start, sp_end)"]),
    ("R src_values[i_c]", ["for s in range(sp_start, sp_end)", "non_empties == 1", "for i_c in range(cur_src_i, next_src_i)"]),
    ("R src_values[i_c]", ["for s in range(sp_start, sp_end)", "non_empties == 1", "for i_c in range(cur_src_i, next_src_i)", "not (src_values[i_c] == separator)"]),
    ("R src_values[i_c]", ["for s in range(sp_start, sp_end)", "not (non_empties == 1)", "non_empties > 1", "for e in range(sp_cur, sp_next)", "for i_c in range(src_start, src_end)"]),
    ("R src_values[i_c]", ["for s in range(sp_start, sp_end)", "not (non_empties == 1)", "non_empties > 1", "for e in range(sp_cur, sp_next)", "for i_c in range(src_start, src_end)", "not (src_values[i_c] == separator)"]),
    ("W dest_index[d_index_i]", ["for s in range(sp_start, sp_end)"]),
    ("W dest_values[d_index_v + delta]", ["for s in range(sp_start, sp_end)", "non_empties == 1", "comma or quotes"]),
    ("W dest_values[d_index_v + delta]", ["for s in range(sp_start, sp_end)", "non_empties == 1", "for i_c in range(cur_src_i, next_src_i)"]),
    ("W dest_values[d_index_v + delta]", ["for s in range(sp_start, sp_end)", "non_empties == 1", "for i_c in range(cur_src_i, next_src_i)", "src_values[i_c] == delimiter"]),
    ("W dest_values[d_index_v + delta]", ["for s in range(sp_start, sp_end)", "not (non_empties == 1)", "non_empties > 1", "for e in range(sp_cur, sp_next)", "comma or quotes"]),
    ("W dest_values[d_index_v + delta]", ["for s in range(sp_start, sp_end)", "not (non_empties == 1)", "non_empties > 1", "for e in range(sp_cur, sp_next)", "for i_c in range(src_start, src_end)"]),
    ("W dest_values[d_index_v + delta]", ["for s in range(sp_start, sp_end)", "not (non_empties == 1)", "non_empties > 1", "for e in range(sp_cur, sp_next)", "for i_c in range(src_start, src_end)", "src_values[i_c] == delimiter"]),
    ("W dest_values[d_index_v + delta]", ["for s in range(sp_start, sp_end)", "not (non_empties == 1)", "non_empties > 1", "for e in range(sp_cur, sp_next)", "prev_empty == False and cur_empty == False", "e > sp_cur"])])
]

end Exetera.KernelPaths
