import Exetera.Model.Concat
import Exetera.Spec.CsvLine
/-!
  C16 — counterexamples, checked by kernel evaluation (`decide`).

  * D25, NC16a and NC16b are *repaired* (fixes/*.patch); the as-found variant of the operation is kept
    in the model so that the defects stay documented by theorems and a regression can be named.
  * The last group shows that the hypotheses of `Props.C16.concat_eq_spec` are not superfluous: outside them the
    (repaired) model runs out of its buffers.
-/
namespace Exetera.Witness.C16

open Exetera Exetera.Concat Exetera.Spec.CsvLine

/-- eight one-character strings `a … h` -/
def letters : List (List Nat) := [[97], [98], [99], [100], [101], [102], [103], [104]]
def eachRow : List Nat := [0, 1, 2, 3, 4, 5, 6, 7, 8]

/-- D25 as found: eight one-row spans, `src_chunksize = 3` → batches of 2, 3, 3 spans; the third batch is given the
    size of the second batch (3) instead of the running total (5) as `dest_start_v`: offsets `…,5,4,5,6`. -/
theorem d25_asFound_third_batch :
    applySpansConcat .asFound (44 : Nat) 34 eachRow (offsets letters) letters.flatten 3 16 16
      = .ok ⟨[0, 1, 2, 3, 4, 5, 4, 5, 6], [97, 98, 99, 100, 101, 102, 103, 104]⟩ := by decide

/-- … which is not what the property demands -/
theorem d25_asFound_violates_spec :
    applySpansConcat .asFound (44 : Nat) 34 eachRow (offsets letters) letters.flatten 3 16 16
      ≠ .ok ⟨storedIndices (concatSpec 44 34 letters eachRow), (concatSpec 44 34 letters eachRow).flatten⟩ := by decide

/-- the repaired loop on the same input -/
theorem d25_repaired :
    applySpansConcat .repaired (44 : Nat) 34 eachRow (offsets letters) letters.flatten 3 16 16
      = .ok ⟨[0, 1, 2, 3, 4, 5, 6, 7, 8], [97, 98, 99, 100, 101, 102, 103, 104]⟩ := by decide

/-- NC16a as found: `src_chunksize = 1` allocates a one-slot `dest_index`, and the first batch writes `dest_index[1]` -/
theorem nc16a_asFound_index_overrun :
    applySpansConcat .asFound (44 : Nat) 34 [0, 1, 2, 3, 4] (offsets (letters.take 4)) (letters.take 4).flatten 1 16 16
      = .error (.oob "dest_index[d_index_i]") := by decide

theorem nc16a_repaired :
    applySpansConcat .repaired (44 : Nat) 34 [0, 1, 2, 3, 4] (offsets (letters.take 4)) (letters.take 4).flatten 1 16 16
      = .ok ⟨[0, 1, 2, 3, 4], [97, 98, 99, 100]⟩ := by decide

/-! ### the hypotheses of `concat_eq_spec` are needed -/

/-- NC16b as found: the value buffer (2·2 = 4 bytes) can hold the longest span output (4 bytes), but after the first
    span (1 byte, below the batch limit 4/2) the second one is written without any check of the room left -/
theorem nc16b_asFound_value_overrun :
    (∀ o ∈ concatSpec (44 : Nat) 34 [[97], [98, 99, 100, 101]] [0, 1, 2], o.length ≤ 2 * 2) ∧
    applySpansConcat .asFound (44 : Nat) 34 [0, 1, 2] (offsets [[97], [98, 99, 100, 101]]) [97, 98, 99, 100, 101] 4 2 2
      = .error (.oob "dest_values[copy]") := by decide

/-- the repaired operation grows the buffer (to 2·(2·4 + 3) = 22 bytes) -/
theorem nc16b_repaired :
    applySpansConcat .repaired (44 : Nat) 34 [0, 1, 2] (offsets [[97], [98, 99, 100, 101]]) [97, 98, 99, 100, 101] 4 2 2
      = .ok ⟨[0, 1, 5], [97, 98, 99, 100, 101]⟩ := by decide

/-- the room condition of `Props.C16.batches_eq_spec_room` is needed: the same column in a 4-byte buffer -/
theorem room_hypothesis_needed :
    (runBatches .repaired (44 : Nat) 34 [0, 1, 2] (offsets [[97], [98, 99, 100, 101]]) [97, 98, 99, 100, 101] 4 4).map
      (·.dest) = .error (.oob "dest_values[copy]") := by decide

/-- `src_chunksize = 0`: no room for the leading zero and one offset -/
theorem srcChunk_hypothesis_needed :
    applySpansConcat .repaired (44 : Nat) 34 [0, 1] (offsets [[97]]) [97] 0 16 16
      = .error (.oob "dest_index[d_index_i]") := by decide

/-- a span boundary beyond the column: `src_index[3]` does not exist (the sizing step already raises) -/
theorem bound_hypothesis_needed :
    applySpansConcat .repaired (44 : Nat) 34 [0, 3] (offsets [[97]]) [97] 4 16 16
      = .error (.oob "src_index[span_ends]") := by decide

/-- the empty line is the one list `parseCsvLine ∘ joinCsv` does not return -/
theorem roundtrip_exception : parseCsvLine (44 : Nat) 34 (joinCsv 44 34 [[]]) = [] := by decide

end Exetera.Witness.C16
