import Exetera.Model.Basic
import Exetera.Model.Spans
import Exetera.Model.SortIndex
/-!
  Model of `DataFrame.groupby` / `HDF5DataFrameGroupBy.count|min|max|first|last|distinct`, `DataFrame.drop_duplicates`
  (exetera/core/dataframe.py:693-753, 986-1259) and of `Session.aggregate_*` (session.py:636-756), on top of the span
  model (`Model/Spans.lean`, owned by C08) and the sort index (`Model/SortIndex.lean`).  The tree modelled is /repo with
  the `fix:` patches D18, NC08b (and D19, NC08c) and D20 applied (`Variant.repaired`); `Variant.asFound` is the tree before them.

  `DataFrame.groupby` exists twice (fix D20): `groupbyStacked` is the code as found — the key columns are stacked into ONE
  numpy array, which promotes columns of different dtypes (the per-column `cast` below) before the sortedness test and the
  span kernel look at them; `groupbyCols` is the repaired code — every key column stays an array of its own dtype, the
  sortedness test walks the columns with a mask of still undecided row pairs, the spans are the per-column spans merged
  (`get_spans_for_field` folded with `_get_spans_for_2_fields_by_spans`). `groupby v` selects by `v`.

  Conventions
  * a key column is `(cast, data)`: `data : List Int` are the field's values (numbers as they are; fixed strings coded by
    their rank in bytewise order, which is all the kernels look at), `cast` is what `np.asarray([col₀, col₁, …])` does to
    the values of this column when the key columns are stacked into ONE numpy array: the identity when all key dtypes
    agree, int64 → float64 rounding when a float column is present, decimal text when a string column is present (D20).
    As found, the sortedness test and the spans see the cast values; the sort index and the written keys use the field
    data. The repaired code never looks at `cast`: every column is compared in its own order, whatever its kind
    (numbers of any dtype as they are, fixed and indexed strings rank-coded in bytewise / code-point order).
  * a target is a plain column (numeric / rank-coded fixed string) or an indexed string `(indices, values)`.
  * all subscripts of compiled kernels are checked (`getE`), so `… = .ok _` carries memory safety.
-/
namespace Exetera.GroupBy

open Exetera Exetera.Spans

/-- one group-by key column -/
structure KeyCol where
  cast : Int → Int
  data : List Int

/-- a target column -/
inductive Target where
  | plain (data : List Int)
  | indexed (indices values : List Nat)
  deriving Repr, Inhabited

inductive Agg where
  | min | max | first | last
  deriving Repr, DecidableEq, Inhabited

/-- a result column -/
inductive Col where
  | ints (xs : List Int)
  | strs (rows : List (List Nat))
  deriving Repr, DecidableEq, Inhabited

/-! ## the casts numpy applies when key columns of different dtypes are stacked (externals, rendered for the driver
       and the witnesses; no theorem depends on their definition) -/

/-- int64 → float64: round to nearest, ties to even, 53-bit significand (exact below 2^53) -/
def castF64 (x : Int) : Int :=
  let n := x.natAbs
  if n < 2 ^ 53 then x
  else
    let shift := Nat.log2 n + 1 - 53
    let q := n >>> shift
    let r := n % 2 ^ shift
    let half := 2 ^ (shift - 1)
    let q' := if r > half || (r == half && q % 2 == 1) then q + 1 else q
    let m : Int := ((q' <<< shift : Nat) : Int)
    if x < 0 then -m else m

/-- non-negative integer → its decimal text, compared bytewise (left-aligned digits, shorter first on a common prefix);
    rendered as an order-isomorphic integer. Negative numbers are never generated for this cast. -/
def castDec (x : Int) : Int :=
  let n := x.natAbs
  let len := (toString n).length
  ((n * 10 ^ (24 - len) * 32 + len : Nat) : Int)

/-! ## check_if_sorted_for_multi_fields -/

/-- the inner `for j in range(field_count)` on rows `i-1`, `i` (remaining fields `fs`):
    `if pre_row[j] > cur_row[j]: return False  elif pre_row[j] < cur_row[j]: break`; `true` = carry on with the next row -/
def rowLe (i : Nat) : List (List Int) → Except Err Bool
  | [] => .ok true
  | f :: fs =>
    match getE f (i - 1) "fields_data[j, i - 1]", getE f i "fields_data[j, i]" with
    | .ok p, .ok c => if p > c then .ok false else if p < c then .ok true else rowLe i fs
    | .error e, _ => .error e
    | _, .error e => .error e

/-- `for i in range(1, total_row)` with `k` iterations left -/
def checkLoop (fs : List (List Int)) : (k i : Nat) → Except Err Bool
  | 0, _ => .ok true
  | k + 1, i =>
    match rowLe i fs with
    | .error e => .error e
    | .ok false => .ok false
    | .ok true => checkLoop fs k (i + 1)

/-- `ops.check_if_sorted_for_multi_fields(fields_data)` on the stacked (2-D) key array -/
def checkIfSorted (fs : List (List Int)) : Except Err Bool :=
  match fs with
  | [] => .error (.oob "fields_data[0]")
  | f0 :: _ => if f0.length == 0 then .ok true else checkLoop fs (f0.length - 1) 1

/-! ## DataFrame.groupby -/

/-- what `groupby` hands to `HDF5DataFrameGroupBy` -/
structure Grouping where
  sortedIndex : Option (List Nat)
  spans : List Nat
  deriving Repr, DecidableEq, Inhabited

/-- `np.asarray([col.data[:] for col in by])`: needs at least one key (`validate_selected_keys`), raises ValueError for
    columns of different lengths (inhomogeneous shape); the values of each column go through that column's cast -/
def stack (keys : List KeyCol) : Except Err (List (List Int)) :=
  match keys with
  | [] => .error (.valueError "Selected field names should not be empty list")
  | k0 :: ks =>
    if ks.all (fun k => k.data.length == k0.data.length) then .ok (keys.map (fun k => k.data.map k.cast))
    else .error (.valueError "inhomogeneous shape")

/-- `[col.data[:][sorted_index] for col in by]` (each column keeps its cast) -/
def gatherKeys (keys : List KeyCol) (idx : List Nat) : Except Err (List KeyCol) :=
  match keys with
  | [] => .ok []
  | k :: ks =>
    match SortIndex.gather k.data idx with
    | .error e => .error e
    | .ok g => SortIndex.consE ⟨k.cast, g⟩ (gatherKeys ks idx)

/-- `len(readers[0].data)` -/
def nrows : List KeyCol → Nat
  | [] => 0
  | k :: _ => k.data.length

/-- `DataFrame.groupby(by, hint_keys_is_sorted)` AS FOUND (finding D20): sortedness test and spans on the stacked array -/
def groupbyStacked (v : Variant) (keys : List KeyCol) (hint : Bool) : Except Err Grouping :=
  match stack keys with
  | .error e => .error e
  | .ok stacked =>
    match (if hint then (.ok true : Except Err Bool) else checkIfSorted stacked) with
    | .error e => .error e
    | .ok true =>
      match getSpansForMultiFields v stacked with
      | .error e => .error e
      | .ok sp => .ok ⟨none, sp⟩
    | .ok false =>
      match SortIndex.datasetSortIndex (keys.map (·.data)) (List.range (nrows keys)) with
      | .error e => .error e
      | .ok idx =>
        match gatherKeys keys idx with
        | .error e => .error e
        | .ok sortedKeys =>
          match stack sortedKeys with
          | .error e => .error e
          | .ok sortedStacked =>
            match getSpansForMultiFields v sortedStacked with
            | .error e => .error e
            | .ok sp => .ok ⟨some idx, sp⟩

/-! ## DataFrame.groupby with fix D20: the key columns are compared one by one, each in its own dtype -/

/-- `by_fields_data = [np.asarray(col.data[:]) for col in by]`: at least one key (`validate_selected_keys`); columns of
    different lengths are rejected (`raise ValueError`). No cast: every column keeps its dtype. -/
def readKeys (keys : List KeyCol) : Except Err (List (List Int)) :=
  match keys with
  | [] => .error (.valueError "Selected field names should not be empty list")
  | k0 :: ks =>
    if ks.all (fun k => k.data.length == k0.data.length) then .ok (keys.map (·.data))
    else .error (.valueError "The fields to group by must all have the same length")

/-- `d[:-1] <op> d[1:]` -/
def adjacent (op : Int → Int → Bool) (d : List Int) : List Bool := List.zipWith op d.dropLast d.tail

/-- `for d in by_fields_data:` of the sortedness test, `undecided[i]` = rows `i`, `i+1` agree on all columns seen so far:
    `if np.any(undecided & (d[:-1] > d[1:])): is_sorted = False; break` then `undecided &= ~(d[:-1] < d[1:])` -/
def sortedLoop : List Bool → List (List Int) → Bool
  | _, [] => true
  | undecided, d :: ds =>
    if (List.zipWith (fun u g => u && g) undecided (adjacent (fun a b => decide (a > b)) d)).any id then false
    else sortedLoop (List.zipWith (fun u l => u && !l) undecided (adjacent (fun a b => decide (a < b)) d)) ds

/-- the sortedness test of the repaired `groupby`: `undecided = np.ones(max(len(by_fields_data[0]) - 1, 0), bool)`, the loop -/
def keysSorted (cols : List (List Int)) : Bool :=
  match cols with
  | [] => true
  | d0 :: _ => sortedLoop (List.replicate (d0.length - 1) true) cols

/-- `[d[sorted_index] for d in by_fields_data]` -/
def gatherCols (cols : List (List Int)) (idx : List Nat) : Except Err (List (List Int)) :=
  match cols with
  | [] => .ok []
  | c :: cs =>
    match SortIndex.gather c idx with
    | .error e => .error e
    | .ok g => SortIndex.consE g (gatherCols cs idx)

/-- `spans = get_spans_for_field(by_fields_data[0]); for d in by_fields_data[1:]: spans = _get_spans_for_2_fields_by_spans(
    spans, get_spans_for_field(d))` -/
def colSpans (cols : List (List Int)) : Except Err (List Nat) :=
  match cols with
  | [] => .error (.oob "by_fields_data[0]")
  | d0 :: ds => foldArraySpans (getSpansForField (fun x y => x != y) d0) ds

/-- `DataFrame.groupby(by, hint_keys_is_sorted)` with fix D20 -/
def groupbyCols (keys : List KeyCol) (hint : Bool) : Except Err Grouping :=
  match readKeys keys with
  | .error e => .error e
  | .ok cols =>
    if hint || keysSorted cols then
      match colSpans cols with
      | .error e => .error e
      | .ok sp => .ok ⟨none, sp⟩
    else
      match SortIndex.datasetSortIndex cols (List.range (nrows keys)) with
      | .error e => .error e
      | .ok idx =>
        match gatherCols cols idx with
        | .error e => .error e
        | .ok sortedCols =>
          match colSpans sortedCols with
          | .error e => .error e
          | .ok sp => .ok ⟨some idx, sp⟩

/-- `DataFrame.groupby(by, hint_keys_is_sorted)`: as found (stacked, D20) or repaired (column by column) -/
def groupby (v : Variant) (keys : List KeyCol) (hint : Bool) : Except Err Grouping :=
  match v with
  | .asFound => groupbyStacked v keys hint
  | .repaired => groupbyCols keys hint

/-! ## HDF5DataFrameGroupBy -/

/-- `_write_groupby_keys`: each key field re-indexed by the sort index (if any), then by `spans[:-1]` -/
def writeKeys (g : Grouping) : List (List Int) → Except Err (List (List Int))
  | [] => .ok []
  | c :: cs =>
    let sorted : Except Err (List Int) := match g.sortedIndex with
      | none => .ok c
      | some idx => SortIndex.gather c idx
    match sorted with
    | .error e => .error e
    | .ok s =>
      match SortIndex.gather s g.spans.dropLast with
      | .error e => .error e
      | .ok ks => SortIndex.consE ks (writeKeys g cs)

/-- `count`: `counts = np.zeros(len(spans) - 1); apply_spans_count(spans, counts)` -/
def count (g : Grouping) : Except Err (List Int) := applySpansCount g.spans

/-- row `i` of an indexed string field the way `apply_indices_to_index_values` reads it: `next_[i] = indices[1:][i]`,
    `cur_[i] = indices[:-1][i]`, then the clamping slice `values[c:n]` -/
def rowAt (indices values : List Nat) (i : Nat) : Except Err (List Nat) :=
  match getE indices.tail i "next_[i]", getE indices.dropLast i "cur_[i]" with
  | .ok n, .ok c => .ok (slice values c n)
  | .error e, _ => .error e
  | _, .error e => .error e

/-- the rows `apply_indices_to_index_values(idx, indices, values)` copies, in order -/
def gatherRows (indices values : List Nat) : List Nat → Except Err (List (List Nat))
  | [] => .ok []
  | i :: is =>
    match rowAt indices values i with
    | .error e => .error e
    | .ok r => SortIndex.consE r (gatherRows indices values is)

/-- the running totals `dest_indices[count] = total` of `apply_indices_to_index_values`, starting at `total` -/
def offsets : Nat → List (List Nat) → List Nat
  | total, [] => [total]
  | total, r :: rs => total :: offsets (total + r.length) rs

/-- destination `(indices, values)` of `apply_indices_to_index_values`: running totals and the copied bytes -/
def encodeRows (rows : List (List Nat)) : List Nat × List Nat := (offsets 0 rows, rows.flatten)

/-- a span result used as a row number by `apply_index_to_indexed_field` (numpy would wrap a negative one) -/
def toRow (x : Int) : Except Err Nat := if 0 ≤ x then .ok x.toNat else .error (.oob "negative row number")

def toRows : List Int → Except Err (List Nat)
  | [] => .ok []
  | x :: xs =>
    match toRow x with
    | .error e => .error e
    | .ok r => SortIndex.consE r (toRows xs)

/-- the span kernel `FieldDataOps.apply_spans_<agg>` dispatches to for a non-indexed field -/
def plainKernel : Agg → List Nat → List Int → Except Err (List Int)
  | .min => applySpansMin
  | .max => applySpansMax
  | .first => applySpansFirst
  | .last => applySpansLast

/-- … and for an indexed field (row numbers; `first`/`last` do not look at the data) -/
def indexedKernel (v : Variant) (indices values : List Nat) : Agg → List Nat → Except Err (List Int)
  | .min => fun sp => applySpansIndexOfMinIndexed v sp indices values
  | .max => fun sp => applySpansIndexOfMaxIndexed sp indices values
  | .first => applySpansIndexOfFirst
  | .last => applySpansIndexOfLast

/-- `field.apply_index(sorted_index, target=newfld)` -/
def applyIndex (idx : List Nat) : Target → Except Err Target
  | .plain d =>
    match SortIndex.gather d idx with
    | .ok r => .ok (.plain r)
    | .error e => .error e
  | .indexed i vs =>
    match gatherRows i vs idx with
    | .ok rows => .ok (.indexed (encodeRows rows).1 (encodeRows rows).2)
    | .error e => .error e

/-- `apply_spans_<agg>(spans)` on a field: the guard against empty spans, the kernel, and for indexed fields the
    re-indexing by the row numbers the kernel returned -/
def applySpans (v : Variant) (agg : Agg) (spans : List Nat) : Target → Except Err Col
  | .plain d =>
    match fieldApplySpans (plainKernel agg) spans d with
    | .ok r => .ok (.ints r)
    | .error e => .error e
  | .indexed i vs =>
    match fieldApplySpansIndexed (indexedKernel v i vs agg) spans with
    | .error e => .error e
    | .ok rs =>
      match toRows rs with
      | .error e => .error e
      | .ok rows =>
        match gatherRows i vs rows with
        | .ok out => .ok (.strs out)
        | .error e => .error e

/-- one target of `min/max/first/last`: sort first if needed, then the span reduction -/
def aggTarget (v : Variant) (agg : Agg) (g : Grouping) (t : Target) : Except Err Col :=
  match g.sortedIndex with
  | none => applySpans v agg g.spans t
  | some idx =>
    match applyIndex idx t with
    | .error e => .error e
    | .ok t' => applySpans v agg g.spans t'

def aggTargets (v : Variant) (agg : Agg) (g : Grouping) : List Target → Except Err (List Col)
  | [] => .ok []
  | t :: ts =>
    match aggTarget v agg g t with
    | .error e => .error e
    | .ok c => SortIndex.consE c (aggTargets v agg g ts)

/-- result of one group-by call: the written key columns and the value columns -/
structure Out where
  keys : List (List Int)
  vals : List Col
  deriving Repr, DecidableEq, Inhabited

/-- `g.count(ddf)` for the group-by object `g` -/
def countOf (keys : List KeyCol) (g : Grouping) : Except Err Out :=
  match writeKeys g (keys.map (·.data)) with
  | .error e => .error e
  | .ok ks =>
    match count g with
    | .error e => .error e
    | .ok c => .ok ⟨ks, [.ints c]⟩

/-- `g.distinct(ddf)` -/
def distinctOf (keys : List KeyCol) (g : Grouping) : Except Err Out :=
  match writeKeys g (keys.map (·.data)) with
  | .error e => .error e
  | .ok ks => .ok ⟨ks, []⟩

/-- `g.<agg>(targets, ddf)` -/
def aggOf (v : Variant) (agg : Agg) (keys : List KeyCol) (g : Grouping) (targets : List Target) : Except Err Out :=
  match writeKeys g (keys.map (·.data)) with
  | .error e => .error e
  | .ok ks =>
    match aggTargets v agg g targets with
    | .error e => .error e
    | .ok cs => .ok ⟨ks, cs⟩

/-- `df.groupby(by, hint).count(ddf)` -/
def groupbyCount (v : Variant) (keys : List KeyCol) (hint : Bool) : Except Err Out :=
  match groupby v keys hint with
  | .error e => .error e
  | .ok g => countOf keys g

/-- `df.groupby(by, hint).distinct(ddf)` = `df.drop_duplicates(by, ddf, hint)` -/
def groupbyDistinct (v : Variant) (keys : List KeyCol) (hint : Bool) : Except Err Out :=
  match groupby v keys hint with
  | .error e => .error e
  | .ok g => distinctOf keys g

/-- `df.groupby(by, hint).<agg>(targets, ddf)` -/
def groupbyAgg (v : Variant) (agg : Agg) (keys : List KeyCol) (hint : Bool) (targets : List Target) : Except Err Out :=
  match groupby v keys hint with
  | .error e => .error e
  | .ok g => aggOf v agg keys g targets

/-! ## Session.aggregate_* -/

/-- `Session.aggregate_count(index)`: spans of `index`, then `apply_spans_count` -/
def aggregateCount (v : Variant) (index : Column) : Except Err (List Int) :=
  match columnSpans v index with
  | .error e => .error e
  | .ok sp => applySpansCount sp

/-- `Session.aggregate_<agg>(index, target)`: `target is None` is rejected first, then spans of `index`, then
    `Session._apply_spans_src` (length check `len(target) != spans[-1]`) around the kernel -/
def aggregate (v : Variant) (agg : Agg) (index : Column) (target : Option (List Int)) : Except Err (List Int) :=
  match target with
  | none => .error (.valueError "'src' must not be None")
  | some t =>
    match columnSpans v index with
    | .error e => .error e
    | .ok sp => sessionApplySpansSrc (plainKernel agg) sp t

end Exetera.GroupBy
