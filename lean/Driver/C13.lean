import Driver.Util
import Exetera.Model.FieldOps
open Lean Exetera
namespace Driver.C13

/-! `c13_run`: the whole operator (`FieldOps.opBinary` / `opUnary` / `opDivmod`, then optionally `setItem`) is run on a SYMBOLIC
    numpy: arrays are terms over the named inputs, `np.call sym args` builds a term, and the one thing the model really asks
    numpy for — the result dtype of a call, to hand it to `dtype_to_str` — is answered from the `oracle` object of the case
    (numpy's answers, computed by the harness on the same operands, keyed by the rendered call). The harness then evaluates the
    returned terms with the real numpy and compares them with what the real operator returned. -/

inductive Term where
  | inp (name : String)
  | call (sym : String) (args : List Term)
  | proj (k : Nat) (t : Term)
  | append (a b : Term)
  | zeros0 (dt : String)
  | cast (dt : String) (t : Term)
  deriving Inhabited

partial def Term.render : Term → String
  | .inp n => n
  | .call s args => s ++ "(" ++ ",".intercalate (args.map Term.render) ++ ")"
  | .proj k t => t.render ++ "#" ++ toString k
  | .append a b => "append(" ++ a.render ++ "," ++ b.render ++ ")"
  | .zeros0 dt => "zeros0(" ++ dt ++ ")"
  | .cast dt t => "cast(" ++ dt ++ "," ++ t.render ++ ")"

partial def Term.toJson : Term → Json
  | .inp n => Json.mkObj [("in", Json.str n)]
  | .call s args => Json.mkObj [("call", Json.str s), ("args", Json.arr (args.map Term.toJson).toArray)]
  | .proj k t => Json.mkObj [("proj", Json.num (JsonNumber.fromNat k)), ("of", t.toJson)]
  | .append a b => Json.mkObj [("append", Json.arr #[a.toJson, b.toJson])]
  | .zeros0 dt => Json.mkObj [("zeros0", Json.str dt)]
  | .cast dt t => Json.mkObj [("cast", Json.str dt), ("of", t.toJson)]

/-- numpy over terms; `oracle` answers `r.dtype` (as the source spells the type: `bool`, `np.int8`, …) -/
def symNp (oracle : Json) : FieldOps.Numpy Term where
  call := .call
  call2 s args := (.proj 0 (.call s args), .proj 1 (.call s args))
  dtypeOf t := match oracle.getObjValAs? String t.render with
    | .ok s => s
    | .error _ => "?" ++ t.render
  append := .append
  zeros0 := .zeros0
  cast := .cast

def recJson (id : Nat) (r : FieldOps.FieldRec Term) : Json :=
  Json.mkObj [("id", Json.num (JsonNumber.fromNat id)), ("cls", Json.str r.cls), ("dtype", Json.str r.dtype),
              ("data", match r.data with | some t => t.toJson | none => Json.null)]

def operandOf (j : Json) : Except String (FieldOps.Operand Term) := do
  let k ← get? String j "k"
  match k with
  | "field" => pure (.field (← get? Nat j "v"))
  | "array" => pure (.array (.inp (← get? String j "v")))
  | "scalar" => pure (.scalar (.inp (← get? String j "v")))
  | _ => throw s!"bad operand kind {k}"

def worldOf (j : Json) : Except String (FieldOps.World Term) := do
  let fs ← (← j.getObjVal? "fields") |>.getArr?
  let cells ← fs.toList.mapM fun f => do
    let id ← get? Nat f "id"
    let data := match f.getObjValAs? String "data" with
      | .ok n => some (Term.inp n)
      | .error _ => none
    pure (id, ({ cls := ← get? String f "cls", dtype := ← get? String f "dtype", data := data } : FieldOps.FieldRec Term))
  let next := cells.foldl (fun m c => max m (c.1 + 1)) 0
  -- dataframe 0: holds the column "x" when the self operand is an HDF5 field (`df_col` = its id), else it is empty
  let frames := match j.getObjValAs? Nat "df_col" with
    | .ok fid => [(0, [("x", fid)])]
    | .error _ => [(0, [])]
  pure { fields := cells, next := next, frames := frames }

def runJson (j : Json) : Except String Json := do
  let w ← worldOf j
  let np := symNp ((j.getObjVal? "oracle").toOption.getD (Json.mkObj []))
  let pyop ← get? String j "pyop"
  let (out, called) ← match FieldOps.pyUnary pyop with
    | some d => do
      let id ← get? Nat j "self"
      pure (FieldOps.opUnary np w pyop id, (w.classOf id, d, true))
    | none => do
      let l ← operandOf (← j.getObjVal? "left")
      let r ← operandOf (← j.getObjVal? "right")
      let ds := (FieldOps.pyDunders pyop).getD ("?", "?")
      let d := if l.isField then ds.1 else ds.2
      pure (FieldOps.opBinary np w pyop l r, (FieldOps.dispatchClass w l r, d, l.isField))
  -- the static route of the dunder Python ends up calling (what `c13_resolve` reports)
  -- `ord` is relative to the field Python dispatches on (0 = that field, 1 = the other operand); `disp_left`: it is the left one
  let route := match called with
    | (some cls, d, _) => FieldOps.resolve cls d
    | _ => none
  let routeJ := match route with
    | some (sym, ord) => [("sym", Json.str sym), ("ord", nats ord), ("disp_left", Json.bool called.2.2)]
    | none => [("sym", Json.null), ("ord", Json.null), ("disp_left", Json.bool called.2.2)]
  match out with
  | .error e => pure (okJson (Json.mkObj (routeJ ++ [("run_err", Json.str e.tag)])))
  | .ok (w', ids) =>
    let res := ids.map (fun id => match w'.get? id with | some r => recJson id r | none => Json.null)
    let pre := w.fields.map (fun c => match w'.get? c.1 with | some r => recJson c.1 r | none => Json.null)
    let base := [("res", Json.arr res.toArray), ("pre", Json.arr pre.toArray), ("frames_same", Json.bool (w'.frames == w.frames)),
                 ("fresh", Json.bool (ids.all (fun id => (w.get? id).isNone)))]
    let extra ← match j.getObjValAs? String "setitem", ids with
      | .ok name, rid :: _ =>
        (match FieldOps.setItem np w' 0 name rid with
         | .error e => pure [("setitem_err", Json.str e.tag)]
         | .ok w2 =>
           let col := match w2.frame? 0 with
             | some cols => (match cols.find? (fun c => c.1 == name) with
                 | some c => (match w2.get? c.2 with | some r => recJson c.2 r | none => Json.null)
                 | none => Json.null)
             | none => Json.null
           let names : List Json := match w2.frame? 0 with
             | some cols => cols.map (fun (c : String × Nat) => Json.str c.1)
             | none => []
           let after := (w.fields.map (·.1) ++ ids).map (fun id => match w2.get? id with | some r => recJson id r | none => Json.null)
           pure [("stored", col), ("cols", Json.arr names.toArray), ("after", Json.arr after.toArray)])
      | _, _ => pure []
    pure (okJson (Json.mkObj (routeJ ++ [("run", Json.mkObj (base ++ extra))])))

def handle : Driver.Handler := fun op j =>
  match op with
  | "c13_resolve" => some do
    let cls ← Driver.get? String j "cls"
    let d ← Driver.get? String j "dunder"
    pure <| match FieldOps.resolve cls d with
      | some (sym, ord) => Driver.okJson (Json.mkObj [("sym", Json.str sym), ("ord", Driver.nats ord)])
      | none => Json.mkObj [("err", Json.str "unsupported")]
  | "c13_run" => some (runJson j)
  | _ => none

end Driver.C13
