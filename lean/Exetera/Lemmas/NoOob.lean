import Exetera.Model.Basic
/-! C10 glue: a run that is known to end in `.ok` (or in one named non-`oob` error) is not an out-of-bounds error.
    Every `no_oob_*` theorem of `Props/C10/*.lean` is the owning property's `= .ok` theorem followed by one of these. -/
namespace Exetera

theorem ne_oob_of_ok {α} {x : Except Err α} {a : α} (h : x = .ok a) (site : String) : x ≠ .error (.oob site) := by
  rw [h]; intro h'; cases h'

theorem ne_oob_of_exists {α} {x : Except Err α} {P : α → Prop} (h : ∃ a, x = .ok a ∧ P a) (site : String) :
    x ≠ .error (.oob site) := by
  obtain ⟨a, ha, _⟩ := h; exact ne_oob_of_ok ha site

theorem ne_oob_of_exists' {α} {x : Except Err α} (h : ∃ a, x = .ok a) (site : String) : x ≠ .error (.oob site) := by
  obtain ⟨a, ha⟩ := h; exact ne_oob_of_ok ha site

theorem ne_oob_of_valueError {α} {x : Except Err α} {m : String} (h : x = .error (.valueError m)) (site : String) :
    x ≠ .error (.oob site) := by
  rw [h]; intro h'; cases h'

theorem ne_oob_of_other {α} {x : Except Err α} {m : String} (h : x = .error (.other m)) (site : String) :
    x ≠ .error (.oob site) := by
  rw [h]; intro h'; cases h'

/-- partial-correctness rule for `whileE`: an invariant kept by every successful iteration holds of every `.ok` result -/
theorem whileE_inv_of_ok {σ} (guard : σ → Bool) (body : σ → Except Err σ) (Inv : σ → Prop)
    (step : ∀ s s', Inv s → body s = .ok s' → Inv s') :
    ∀ (n : Nat) (s s' : σ), whileE guard body n s = .ok s' → Inv s → Inv s' := by
  intro n
  induction n with
  | zero =>
    intro s s' h hI
    cases hg : guard s with
    | true => simp [whileE, hg] at h
    | false => simp [whileE, hg] at h; subst h; exact hI
  | succ n ih =>
    intro s s' h hI
    cases hg : guard s with
    | false => simp [whileE, hg] at h; subst h; exact hI
    | true =>
      simp only [whileE, hg, if_true] at h
      cases hb : body s with
      | error e => simp [hb] at h
      | ok s1 => simp only [hb] at h; exact ih s1 s' h (step s s1 hI hb)

end Exetera
