import Exetera.Model.Basic
/-! Decidable equality of model results, so that concrete instances (`example … := by decide`, witnesses) can be evaluated
    by the kernel. -/
namespace Exetera

instance instDecidableEqExceptErr {α} [DecidableEq α] : DecidableEq (Except Err α)
  | .ok a, .ok b => if h : a = b then isTrue (by rw [h]) else isFalse (by intro h'; cases h'; exact h rfl)
  | .error a, .error b => if h : a = b then isTrue (by rw [h]) else isFalse (by intro h'; cases h'; exact h rfl)
  | .ok _, .error _ => isFalse (by intro h; cases h)
  | .error _, .ok _ => isFalse (by intro h; cases h)

end Exetera
