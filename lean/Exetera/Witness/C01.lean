import Exetera.Model.IndexedWriter
import Exetera.Model.Storage
import Exetera.Spec.Storage
import Exetera.Model.Reader
import Exetera.Spec.PySlice
/-!
  Counterexamples for the `asFound` variants of the C01 model: the four defects that the fix: patches in /verif/fixes
  repair (D1, D2, D32, NC01a). They stay in the tree so that a regression has its witness at hand
  (`corpus/C01/defects.json` holds the same inputs for the real code).
-/
namespace Exetera.Witness.C01

open Exetera Exetera.Storage Exetera.IndexedWriter Exetera.Spec Exetera.Reader

/-- D1: `MemoryFieldArray.write_part(empty)` after data: `new[-0:] = part` addresses the whole array → ValueError. -/
theorem d1_empty_part_raises :
    writeParts .asFound (0 : Int) (.mem none) [[1, 2], []] = .error (.valueError "could not broadcast input array") := rfl

/-- …whereas the repaired append stores `[1, 2]`. -/
theorem d1_repaired : (writeParts .repaired (0 : Int) (.mem none) [[1, 2], []]).toOption.map Arr.contents = some [1, 2] := rfl

/-- D2: an indexed field completed without any entry keeps `indices = []`: the offsets neither start at 0 nor number
    one more than the entries (`offsets [] = [0]`). -/
theorem d2_empty_field_has_no_offset :
    (writeField .asFound 2 true []).toOption.map (fun s => s.indices.contents) = some [] ∧
    offsets ([] : List Bytes) = [0] := ⟨rfl, rfl⟩

/-- D2, consequence: on that state the read-only reader's `data[:]` and `data[0:0]` fail on `index[0]`. -/
theorem d2_readonly_reader_raises :
    getAll false [] [] = .error (.oob "index[0]") ∧ getSlice false [] [] 0 0 = .error (.oob "index[0]") := ⟨rfl, rfl⟩

/-- D32: a categorical key value outside int8 cannot be stored, whatever the field's nformat. -/
theorem d32_key_overflow : storeKeyValues .asFound "int32" [1000] = .error (.other "overflow_error") := by simp [storeKeyValues, storeInts, intRange]

theorem d32_repaired : storeKeyValues .repaired "int32" [1000] = .ok [1000] := by simp [storeKeyValues, storeInts, intRange]

/-- NC01a: a memory field nothing was written to reads back as uint8, not as its declared dtype. -/
theorem nc01a_empty_read_dtype : readDtype .asFound false "int32" false = "uint8" := rfl

/-! ### NC01b — the indexed readers as found on items other than non-negative, ordered, unit-step ones.
    The field holds `['a', '', 'bc', 'def', 'g']`. -/

def rowsW : List Bytes := [[97], [], [98, 99], [100, 101, 102], [103]]
def ixW : List Nat := offsets rowsW          -- [0, 1, 1, 3, 6, 7]
def valsW : Bytes := rowsW.flatten

/-- `data[-1]` raises "not enough values to unpack" (`indices[-1:1]` is empty) instead of returning `'g'` -/
theorem nc01b_negative_index_raises :
    getIndexed .asFound true ixW valsW (.int (-1)) = .error (.valueError "not enough values to unpack") ∧
    pyIndex rowsW (-1) = .ok [103] := ⟨rfl, rfl⟩

/-- `data[-5]` silently returns row 1 (`''`) where Python names row 0 (`'a'`): the offsets array is one longer than the
    rows; and `data[-6]`, out of range, returns row 0 -/
theorem nc01b_negative_index_wrong_row :
    getIndexed .asFound false ixW valsW (.int (-5)) = .ok (.entry []) ∧ pyIndex rowsW (-5) = .ok [97] ∧
    getIndexed .asFound false ixW valsW (.int (-6)) = .ok (.entry [97]) ∧
    pyIndex rowsW (-6) = .error (.oob "list index out of range") := ⟨rfl, rfl, rfl, rfl⟩

/-- `data[-2:]` returns the last row only -/
theorem nc01b_negative_start_drops_row :
    getIndexed .asFound true ixW valsW (.slice (some (-2)) none none) = .ok (.rows [some [103]]) ∧
    pySliceG rowsW (some (-2)) none none = .ok [[100, 101, 102], [103]] := ⟨rfl, rfl⟩

/-- `data[:-1]` is empty through the writeable reader and an IndexError through the read-only one -/
theorem nc01b_negative_stop :
    getIndexed .asFound true ixW valsW (.slice none (some (-1)) none) = .ok (.rows []) ∧
    getIndexed .asFound false ixW valsW (.slice none (some (-1)) none) = .error (.oob "index[0]") ∧
    pySliceG rowsW none (some (-1)) none = .ok [[97], [], [98, 99], [100, 101, 102]] := ⟨rfl, rfl, rfl⟩

/-- every step is ignored: `data[::2]`, `data[::-1]` and even `data[::0]` return all rows in ascending order -/
theorem nc01b_step_ignored :
    getIndexed .asFound false ixW valsW (.slice none none (some 2)) = .ok (.rows (rowsW.map some)) ∧
    pySliceG rowsW none none (some 2) = .ok [[97], [98, 99], [103]] ∧
    getIndexed .asFound false ixW valsW (.slice none none (some (-1))) = .ok (.rows (rowsW.map some)) ∧
    pySliceG rowsW none none (some (-1)) = .ok rowsW.reverse ∧
    getIndexed .asFound true ixW valsW (.slice none none (some 0)) = .ok (.rows (rowsW.map some)) ∧
    pySliceG rowsW none none (some 0) = .error (.valueError "slice step cannot be zero") := ⟨rfl, rfl, rfl, rfl, rfl, rfl⟩

/-- `data[:-5]` through the writeable reader returns `[None]`: a place of the result list is never filled -/
theorem nc01b_unfilled_place :
    getIndexed .asFound true ixW valsW (.slice none (some (-5)) none) = .ok (.rows [none]) ∧
    pySliceG rowsW none (some (-5)) none = .ok [] := ⟨rfl, rfl⟩

/-- the read-only reader raises IndexError for the empty slices `data[3:1]`, `data[7:9]` -/
theorem nc01b_readonly_empty_slice_raises :
    getIndexed .asFound false ixW valsW (.slice (some 3) (some 1) none) = .error (.oob "index[0]") ∧
    getIndexed .asFound false ixW valsW (.slice (some 7) (some 9) none) = .error (.oob "index[0]") ∧
    pySliceG rowsW (some 3) (some 1) none = .ok [] ∧ pySliceG rowsW (some 7) (some 9) none = .ok [] := ⟨rfl, rfl, rfl, rfl⟩

/-- …all of which the repaired readers answer as Python does -/
theorem nc01b_repaired :
    getIndexed .repaired true ixW valsW (.int (-1)) = .ok (.entry [103]) ∧
    getIndexed .repaired false ixW valsW (.int (-5)) = .ok (.entry [97]) ∧
    getIndexed .repaired true ixW valsW (.slice (some (-2)) none none) = .ok (.rows [some [100, 101, 102], some [103]]) ∧
    getIndexed .repaired false ixW valsW (.slice none none (some 2)) = .ok (.rows [some [97], some [98, 99], some [103]]) ∧
    getIndexed .repaired false ixW valsW (.slice none none (some (-1))) = .ok (.rows (rowsW.reverse.map some)) ∧
    getIndexed .repaired false ixW valsW (.slice (some 3) (some 1) none) = .ok (.rows []) ∧
    getIndexed .repaired true ixW valsW (.slice none (some (-5)) none) = .ok (.rows []) := ⟨rfl, rfl, rfl, rfl, rfl, rfl, rfl⟩

/-! ### NC01c — an HDF5-backed plain array refuses a negative step -/

theorem nc01c_negative_step_refused :
    plainGet .asFound (.h5 [10, 20, 30]) (.slice none none (some (-1))) = .error (.valueError "Step must be >= 1") ∧
    plainGet .asFound (.mem (some [10, 20, 30])) (.slice none none (some (-1))) = .ok (.array [30, 20, 10]) ∧
    pySliceG [10, 20, 30] none none (some (-1)) = .ok [30, 20, 10] := ⟨rfl, rfl, rfl⟩

theorem nc01c_repaired :
    plainGet .repaired (.h5 [10, 20, 30, 40, 50]) (.slice (some (-1)) (some 0) (some (-2))) = .ok (.array [50, 30]) := rfl

end Exetera.Witness.C01
