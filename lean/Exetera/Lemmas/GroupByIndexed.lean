import Exetera.Lemmas.GroupByAggregate
import Exetera.Lemmas.GroupByLex
/-!
  C07 helper lemmas, part 9: indexed-string targets. An indexed field `(indices, values)` with a well-formed index
  behaves like the column `decodeRows indices values` of byte strings: re-indexing (`apply_indices_to_index_values`)
  gathers rows, and first / last / min / max pick the first / last / lexicographically smallest / largest row of a group.
-/
namespace Exetera.GroupBy
open Exetera Exetera.Spec Exetera.Spans Exetera.SortIndex List

/-- what each aggregate computes on the strings of one group -/
def aggSpecStr : Agg → List (List Nat) → Option (List Nat)
  | .min => lexMin?
  | .max => lexMax?
  | .first => List.head?
  | .last => List.getLast?

theorem rowAt_ok (indices values : List Nat) (i : Nat) (h : i + 1 < indices.length) :
    rowAt indices values i = .ok ((decodeRows indices values).getD i []) := by
  have h1 : i < indices.tail.length := by simp; omega
  have h2 : i < indices.dropLast.length := by simp; omega
  simp only [rowAt, getE_of_lt _ h1, getE_of_lt _ h2]
  rw [List.getD_eq_getElem?_getD, getElem?_decodeRows indices values i h]
  simp [List.getElem_tail, List.getElem_dropLast]

theorem gatherRows_ok (indices values : List Nat) : ∀ (idx : List Nat), (∀ i ∈ idx, i + 1 < indices.length) →
    gatherRows indices values idx = .ok (idx.map ((decodeRows indices values).getD · []))
  | [], _ => rfl
  | i :: is, h => by
    simp only [gatherRows, rowAt_ok indices values i (h i (by simp)),
      gatherRows_ok indices values is (fun j hj => h j (by simp [hj])), SortIndex.consE_ok, map_cons]

theorem offsets_length : ∀ (rows : List (List Nat)) (s : Nat), (offsets s rows).length = rows.length + 1
  | [], _ => rfl
  | r :: rs, s => by simp [offsets, offsets_length rs]

theorem offsets_head (rows : List (List Nat)) (s : Nat) : ∃ t, offsets s rows = s :: t := by
  cases rows <;> simp [offsets]

theorem decodeRows_cons_cons (a b : Nat) (t values : List Nat) :
    decodeRows (a :: b :: t) values = slice values a b :: decodeRows (b :: t) values := by
  simp [decodeRows, dropLast]

theorem decodeRows_offsets : ∀ (rows : List (List Nat)) (pre post : List Nat),
    decodeRows (offsets pre.length rows) (pre ++ rows.flatten ++ post) = rows
  | [], pre, post => by simp [offsets, decodeRows]
  | r :: rs, pre, post => by
    have ih := decodeRows_offsets rs (pre ++ r) post
    obtain ⟨t, ht⟩ := offsets_head rs (pre.length + r.length)
    simp only [length_append] at ih
    simp only [offsets]
    rw [ht, decodeRows_cons_cons, ← ht]
    have e : pre ++ (r :: rs).flatten ++ post = pre ++ r ++ rs.flatten ++ post := by simp
    rw [e, ih]
    congr 1
    simp [slice]

theorem offsets_bounds : ∀ (rows : List (List Nat)) (s : Nat),
    (offsets s rows).Pairwise (· ≤ ·) ∧ ∀ x ∈ offsets s rows, s ≤ x ∧ x ≤ s + rows.flatten.length
  | [], s => by simp [offsets]
  | r :: rs, s => by
    obtain ⟨h1, h2⟩ := offsets_bounds rs (s + r.length)
    simp only [offsets, pairwise_cons, mem_cons, flatten_cons, length_append]
    refine ⟨⟨?_, h1⟩, ?_⟩
    · intro x hx; have := h2 x hx; omega
    · rintro x (rfl | hx)
      · omega
      · have := h2 x hx; omega

theorem validIndex_encodeRows (rows : List (List Nat)) : ValidIndex (encodeRows rows).1 (encodeRows rows).2 := by
  obtain ⟨h1, h2⟩ := offsets_bounds rows 0
  refine ⟨h1, ?_⟩
  intro x hx
  have := h2 x hx
  simp only [encodeRows] at *
  omega

theorem decodeRows_encodeRows (rows : List (List Nat)) : decodeRows (encodeRows rows).1 (encodeRows rows).2 = rows := by
  have := decodeRows_offsets rows [] []
  simpa [encodeRows] using this

theorem toRows_natCast : ∀ (ks : List Nat), toRows (ks.map (fun (k : Nat) => (k : Int))) = .ok ks
  | [] => rfl
  | k :: ks => by
    simp only [map_cons, toRows, toRow, toRows_natCast ks, SortIndex.consE_ok]
    simp

/-- a list of integers each of which is a natural number related to its partner -/
theorem exists_nat_list {α} (Q : α → Nat → Prop) : ∀ (ps : List α) (r : List Int), r.length = ps.length →
    (∀ pv ∈ ps.zip r, ∃ k : Nat, pv.2 = (k : Int) ∧ Q pv.1 k) →
    ∃ ks : List Nat, r = ks.map (fun (k : Nat) => (k : Int)) ∧ ks.length = ps.length ∧ ∀ pk ∈ ps.zip ks, Q pk.1 pk.2
  | [], [], _, _ => ⟨[], rfl, rfl, by simp⟩
  | [], _ :: _, h, _ => by simp at h
  | _ :: _, [], h, _ => by simp at h
  | p :: ps, v :: r, hl, h => by
    obtain ⟨k, hk, hq⟩ := h (p, v) (by simp)
    obtain ⟨ks, h1, h2, h3⟩ := exists_nat_list Q ps r (by simpa using hl) (fun pv hpv => h pv (by simp [hpv]))
    refine ⟨k :: ks, by rw [map_cons, ← h1, show v = (k : Int) from hk], by simp [h2], ?_⟩
    intro pk hpk
    simp only [zip_cons_cons, mem_cons] at hpk
    rcases hpk with rfl | hpk
    · exact hq
    · exact h3 pk hpk

theorem map_eq_of_zip {α β γ} (F : α → γ) (G : β → γ) : ∀ (ps : List α) (ks : List β), ks.length = ps.length →
    (∀ pk ∈ ps.zip ks, F pk.1 = G pk.2) → ks.map G = ps.map F
  | [], [], _, _ => rfl
  | [], _ :: _, h, _ => by simp at h
  | _ :: _, [], h, _ => by simp at h
  | p :: ps, k :: ks, hl, h => by
    simp only [map_cons]
    rw [h (p, k) (by simp), map_eq_of_zip F G ps ks (by simpa using hl) (fun pk hpk => h pk (by simp [hpk]))]

theorem mem_zip_map_self {α β} (f : α → β) : ∀ (l : List α) (pk : α × β), pk ∈ l.zip (l.map f) → pk.2 = f pk.1 ∧ pk.1 ∈ l
  | [], _, h => by simp at h
  | a :: l, pk, h => by
    simp only [map_cons, zip_cons_cons, mem_cons] at h
    rcases h with rfl | h
    · simp
    · have := mem_zip_map_self f l pk h
      exact ⟨this.1, by simp [this.2]⟩

/-- the span reduction of an indexed-string target with a well-formed index: no error (kernel, re-indexing), one string
    per span: first / last / smallest / largest string of the span's rows -/
theorem applySpans_indexed (agg : Agg) (sp indices values : List Nat) (hv : ValidIndex indices values)
    (hw : Wellformed sp (indices.length - 1)) :
    ∃ out, applySpans .repaired agg sp (.indexed indices values) = .ok (.strs out) ∧
      out.map some = (pairs sp).map (fun p => aggSpecStr agg (slice (decodeRows indices values) p.1 p.2)) := by
  have ht := Exetera.Props.C08.field_apply_spans_indexed_transparent (indexedKernel .repaired indices values agg) sp _ hw
  have hne := wellformed_ne_nil hw
  have hpw := pairs_wellformed hw
  have hDlen := decodeRows_length indices values
  -- row numbers `ks` (one per span, inside the span) with the right semantics suffice
  have key : ∀ (ks : List Nat), indexedKernel .repaired indices values agg sp = .ok (ks.map (fun (k : Nat) => (k : Int))) →
      ks.length = (pairs sp).length →
      (∀ pk ∈ (pairs sp).zip ks, pk.2 < pk.1.2 ∧
        aggSpecStr agg (slice (decodeRows indices values) pk.1.1 pk.1.2) = (decodeRows indices values)[pk.2]?) →
      ∃ out, applySpans .repaired agg sp (.indexed indices values) = .ok (.strs out) ∧
        out.map some = (pairs sp).map (fun p => aggSpecStr agg (slice (decodeRows indices values) p.1 p.2)) := by
    intro ks hk hlen hsem
    have hlt : ∀ k ∈ ks, k + 1 < indices.length := by
      intro k hkm
      obtain ⟨j, hj, rfl⟩ := mem_iff_getElem.1 hkm
      have hj' : j < (pairs sp).length := by omega
      have hz : ((pairs sp)[j], ks[j]) ∈ (pairs sp).zip ks := by
        rw [mem_iff_getElem]
        exact ⟨j, by simp; omega, by simp⟩
      have h1 := (hsem _ hz).1
      have h2 := hpw _ (getElem_mem hj')
      simp only at h1
      omega
    refine ⟨ks.map ((decodeRows indices values).getD · []), ?_, ?_⟩
    · simp only [applySpans, ht, hk, toRows_natCast, gatherRows_ok indices values ks hlt]
    · rw [map_map]
      apply map_eq_of_zip _ _ _ _ hlen
      intro pk hpk
      obtain ⟨h1, h2⟩ := hsem pk hpk
      have h3 := hpw pk.1 (of_mem_zip hpk).1
      rw [h2]
      have : pk.2 < (decodeRows indices values).length := by rw [hDlen]; omega
      simp [List.getD_eq_getElem?_getD, List.getElem?_eq_getElem this]
  cases agg with
  | first =>
    apply key ((pairs sp).map (·.1))
    · simp only [indexedKernel, Exetera.Props.C08.apply_spans_index_of_first_eq sp hne, map_map]; rfl
    · simp
    · intro pk hpk
      obtain ⟨h1, h2⟩ := mem_zip_map_self _ _ pk hpk
      have h3 := hpw pk.1 h2
      rw [h1]
      exact ⟨h3.1, slice_head? _ _ _ h3.1⟩
  | last =>
    apply key ((pairs sp).map (fun p => p.2 - 1))
    · simp only [indexedKernel, Exetera.Props.C08.apply_spans_index_of_last_eq sp hne, map_map]
      congr 1
      apply map_congr_left
      intro p hp
      have := hpw p hp
      simp only [Function.comp]; omega
    · simp
    · intro pk hpk
      obtain ⟨h1, h2⟩ := mem_zip_map_self _ _ pk hpk
      have h3 := hpw pk.1 h2
      rw [h1]
      refine ⟨by omega, ?_⟩
      exact slice_getLast? _ _ _ h3.1 (by rw [hDlen]; exact h3.2)
  | min =>
    obtain ⟨r, hr, hlen, hall⟩ := Exetera.Props.C08.apply_spans_index_of_min_indexed_eq sp indices values hv hw
    obtain ⟨ks, h1, h2, h3⟩ := exists_nat_list
      (fun (p : Nat × Nat) k => IsFirstMinIn (decodeRows indices values) p.1 p.2 k) (pairs sp) r hlen hall
    apply key ks (by simp only [indexedKernel]; rw [hr, h1]) h2
    intro pk hpk
    have := h3 pk hpk
    exact ⟨this.2.1, lexMin?_of_isFirstMinIn this⟩
  | max =>
    obtain ⟨r, hr, hlen, hall⟩ := Exetera.Props.C08.apply_spans_index_of_max_indexed_eq sp indices values hv hw
    obtain ⟨ks, h1, h2, h3⟩ := exists_nat_list
      (fun (p : Nat × Nat) k => IsFirstMaxIn (decodeRows indices values) p.1 p.2 k) (pairs sp) r hlen hall
    apply key ks (by simp only [indexedKernel]; rw [hr, h1]) h2
    intro pk hpk
    have := h3 pk hpk
    exact ⟨this.2.1, lexMax?_of_isFirstMaxIn this⟩

end Exetera.GroupBy

namespace Exetera.GroupBy
open Exetera Exetera.Spec Exetera.Spans Exetera.SortIndex List

theorem map_getD_range' {α} (c : List α) (d : α) : (List.range c.length).map (c.getD · d) = c := by
  apply List.ext_getElem
  · simp
  · intro i h1 h2
    simp only [length_map, length_range] at h1
    simp [List.getD_eq_getElem?_getD, List.getElem?_eq_getElem h1]

/-- the value column of an indexed-string target along a grouping -/
theorem aggTarget_indexed_along (agg : Agg) (cols : List (List Int)) (indices values : List Nat) (n : Nat) (idx : List Nat)
    (si : Option (List Nat)) (hperm : idx.Perm (List.range n))
    (hsi : (si = none ∧ idx = List.range n) ∨ si = some idx)
    (hv : ValidIndex indices values) (hlen : indices.length = n + 1) :
    ∃ out, aggTarget .repaired agg ⟨si, spans neq (rowsBy (colsAlong cols idx) n)⟩ (.indexed indices values) = .ok (.strs out) ∧
      out.map some =
        ((groupAdj (frameAlong cols (decodeRows indices values) [] idx)).map (·.2)).map (aggSpecStr agg) := by
  have hidxlen := perm_range_length hperm
  have hlt := perm_range_lt hperm
  let D := decodeRows indices values
  have hD : D.length = n := by simp [D, decodeRows_length, hlen]
  let sp := spans neq (rowsBy (colsAlong cols idx) n)
  let Ds := idx.map (D.getD · [])
  have hDs : Ds.length = n := by simp [Ds, hidxlen]
  have hw : Wellformed sp n := by
    have := spans_wellformed' neq (rowsBy (colsAlong cols idx) n)
    rw [show (rowsBy (colsAlong cols idx) n).length = n from by simp [rowsBy]] at this
    exact this
  have hframe : (rowsBy (colsAlong cols idx) n).zip Ds = frameAlong cols D [] idx := by
    rw [← hidxlen, rowsBy_colsAlong]
    simp only [Ds, frameAlong]
    rw [zip_map']
  obtain ⟨_, hc2⟩ := frame_core (colsAlong cols idx) Ds n hDs
  rw [hframe] at hc2
  have hmain : ∃ out, aggTarget .repaired agg ⟨si, sp⟩ (.indexed indices values) = .ok (.strs out) ∧
      out.map some = (pairs sp).map (fun p => aggSpecStr agg (slice Ds p.1 p.2)) := by
    rcases hsi with ⟨rfl, hi⟩ | rfl
    · have hDsD : Ds = D := by simp only [Ds, hi]; rw [← hD]; exact map_getD_range' D []
      obtain ⟨out, h1, h2⟩ := applySpans_indexed agg sp indices values hv (by rw [hlen]; exact hw)
      exact ⟨out, by simpa [aggTarget] using h1, by rw [hDsD]; exact h2⟩
    · have hg := gatherRows_ok indices values idx (fun i hi => by rw [hlen]; have := hlt i hi; omega)
      have hv' := validIndex_encodeRows Ds
      have hl' : (encodeRows Ds).1.length - 1 = n := by simp [encodeRows, offsets_length, hDs]
      obtain ⟨out, h1, h2⟩ := applySpans_indexed agg sp (encodeRows Ds).1 (encodeRows Ds).2 hv' (by rw [hl']; exact hw)
      rw [decodeRows_encodeRows] at h2
      refine ⟨out, ?_, h2⟩
      simp only [aggTarget, applyIndex, hg]
      exact h1
  obtain ⟨out, h1, h2⟩ := hmain
  refine ⟨out, h1, ?_⟩
  rw [h2, ← hc2, map_map]; rfl

/-- `df.groupby(by, hint).min|max|first|last(target)` for an indexed-string target -/
theorem groupbyAgg_indexed_spec (agg : Agg) (k0 : KeyCol) (ks : List KeyCol) (hint : Bool) (indices values : List Nat) (n : Nat)
    (hrect : Rect n ((k0 :: ks).map (·.data))) (hv : ValidIndex indices values) (hlen : indices.length = n + 1)
    (hhint : hint = true → SortedRows ((k0 :: ks).map (·.data)) n) :
    ∃ kcols out outKeys, groupbyAgg .repaired agg (k0 :: ks) hint [.indexed indices values] = .ok ⟨kcols, [.strs out]⟩ ∧
      ColumnsOf kcols outKeys ∧
      IsGroupBy (rowsBy ((k0 :: ks).map (·.data)) n) (decodeRows indices values) (aggSpecStr agg) outKeys out := by
  obtain ⟨idx, si, hperm, hs, hsi, hg⟩ := groupbyCols_paths k0 ks hint n hrect hhint
  let T0 := List.replicate n (0 : Int)
  have hT0 : T0.length = n := by simp [T0]
  obtain ⟨kcols, _, hwk, _, hcols, _⟩ := outputs_along .first ((k0 :: ks).map (·.data)) T0 n idx si hperm hsi hrect hT0
  obtain ⟨hda0, _⟩ := groups_along_index ((k0 :: ks).map (·.data)) T0 0 n idx hperm hs hT0
  have hD : (decodeRows indices values).length = n := by simp [decodeRows_length, hlen]
  obtain ⟨hda, hsel⟩ := groups_along_index ((k0 :: ks).map (·.data)) (decodeRows indices values) [] n idx hperm hs hD
  obtain ⟨out, hag, hvals⟩ := aggTarget_indexed_along agg ((k0 :: ks).map (·.data)) indices values n idx si hperm hsi hv hlen
  have hk := distinctAscending_unique hda0 hda
  refine ⟨kcols, out, _, ?_, by rw [← hk]; exact hcols, hda, ?_⟩
  · simp only [groupbyAgg, groupby, aggOf, hg, hwk, aggTargets, hag, SortIndex.consE_ok]
  · rw [hvals, hsel, map_map]; rfl

end Exetera.GroupBy
