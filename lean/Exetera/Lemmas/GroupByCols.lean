import Exetera.Lemmas.GroupByFinal
import Exetera.Lemmas.SpansEntryN
/-!
  C07 helper lemmas, part 5b: `DataFrame.groupby` with fix D20 (`groupbyCols`: every key column compared in its own
  dtype). The vectorised sortedness test decides lexicographic order of the key rows; the fold of the per-column span
  arrays is the span array of the key rows; both paths of `groupbyCols` produce a stable sort index and the spans of the
  frame read along it — the statement `groupby_paths` makes about the stacked code, here WITHOUT any hypothesis on casts.
-/
namespace Exetera.GroupBy
open Exetera Exetera.Spec Exetera.Spans Exetera.SortIndex List

/-! ### the sortedness test -/

theorem adjacent_length (op : Int → Int → Bool) (d : List Int) : (adjacent op d).length = d.length - 1 := by
  simp [adjacent, length_zipWith]

theorem getElem?_adjacent (op : Int → Int → Bool) (d : List Int) (i : Nat) (h : i + 1 < d.length) :
    (adjacent op d)[i]? = some (op (d.getD i 0) (d.getD (i + 1) 0)) := by
  have h1 : d.dropLast[i]? = some (d.getD i 0) := by
    rw [getElem?_dropLast]
    simp [show i < d.length - 1 by omega, List.getD_eq_getElem?_getD, List.getElem?_eq_getElem (show i < d.length by omega)]
  have h2 : d.tail[i]? = some (d.getD (i + 1) 0) := by
    rw [getElem?_tail]
    simp [List.getD_eq_getElem?_getD, List.getElem?_eq_getElem h]
  simp only [adjacent, getElem?_zipWith, h1, h2]

theorem any_zipWith_iff (f : Bool → Bool → Bool) (us gs : List Bool) :
    (zipWith f us gs).any id = true ↔ ∃ (i : Nat) (u g : Bool), us[i]? = some u ∧ gs[i]? = some g ∧ f u g = true := by
  rw [any_eq_true]
  constructor
  · rintro ⟨x, hx, hxt⟩
    obtain ⟨i, hi⟩ := mem_iff_getElem?.1 hx
    rw [getElem?_zipWith] at hi
    cases hu : us[i]? with
    | none => simp [hu] at hi
    | some u =>
      cases hg : gs[i]? with
      | none => simp [hu, hg] at hi
      | some g =>
        simp only [hu, hg, Option.some.injEq] at hi
        exact ⟨i, u, g, hu, hg, by rw [hi]; exact hxt⟩
  · rintro ⟨i, u, g, hu, hg, hf⟩
    refine ⟨f u g, mem_iff_getElem?.2 ⟨i, ?_⟩, hf⟩
    rw [getElem?_zipWith, hu, hg]

/-- the loop over the key columns, started with any mask of `n - 1` row pairs: `True` exactly if every still undecided
    pair of adjacent rows is in non-decreasing lexicographic order on the remaining columns -/
theorem sortedLoop_spec (n : Nat) : ∀ (cols : List (List Int)) (und : List Bool), Rect n cols → und.length = n - 1 →
    (sortedLoop und cols = true ↔
      ∀ i, i + 1 < n → und[i]? = some true → tupleLt (keyAt cols (i + 1)) (keyAt cols i) = false)
  | [], und, _, _ => by simp [sortedLoop, keyAt, tupleLt]
  | d :: ds, und, hrect, hund => by
    have hd : d.length = n := hrect d (by simp)
    have hds : Rect n ds := fun c hc => hrect c (by simp [hc])
    have hadj : ∀ (op : Int → Int → Bool) (i : Nat), i + 1 < n →
        (adjacent op d)[i]? = some (op (d.getD i 0) (d.getD (i + 1) 0)) :=
      fun op i hi => getElem?_adjacent op d i (by omega)
    have hundi : ∀ i, i + 1 < n → ∃ u, und[i]? = some u := fun i hi =>
      ⟨und[i]'(by omega), List.getElem?_eq_getElem (by omega)⟩
    have hrange : ∀ {l : List Bool} {i : Nat} {x : Bool}, l.length = n - 1 → l[i]? = some x → i + 1 < n := by
      intro l i x hl hx
      have := (List.getElem?_eq_some_iff.1 hx).1
      omega
    unfold sortedLoop
    by_cases hany : (zipWith (fun u g => u && g) und (adjacent (fun a b => decide (a > b)) d)).any id = true
    · rw [if_pos hany]
      simp only [Bool.false_eq_true, false_iff]
      intro hall
      obtain ⟨i, u, g, hu, hg, hug⟩ := (any_zipWith_iff _ _ _).1 hany
      have hi : i + 1 < n := hrange hund hu
      rw [hadj _ i hi] at hg
      simp only [Option.some.injEq] at hg
      simp only [Bool.and_eq_true] at hug
      obtain ⟨rfl, rfl⟩ := hug
      have hgt : d.getD i 0 > d.getD (i + 1) 0 := by simpa using hg.symm
      have := hall i hi hu
      rw [keyAt_cons, keyAt_cons] at this
      have hlt := (tupleLt_cons_iff (d.getD (i + 1) 0) (d.getD i 0) (keyAt ds (i + 1)) (keyAt ds i)).2 (Or.inl hgt)
      rw [this] at hlt; cases hlt
    · rw [if_neg hany]
      have hno : ∀ i, i + 1 < n → und[i]? = some true → ¬ d.getD i 0 > d.getD (i + 1) 0 := by
        intro i hi hu hgt
        exact hany ((any_zipWith_iff _ _ _).2 ⟨i, true, _, hu, hadj _ i hi, by simpa using hgt⟩)
      have hlen' : (zipWith (fun u l => u && !l) und (adjacent (fun a b => decide (a < b)) d)).length = n - 1 := by
        rw [length_zipWith, adjacent_length, hund, hd]; omega
      rw [sortedLoop_spec n ds _ hds hlen']
      have hund' : ∀ i, i + 1 < n → ∀ u, und[i]? = some u →
          (zipWith (fun u l => u && !l) und (adjacent (fun a b => decide (a < b)) d))[i]? =
            some (u && !decide (d.getD i 0 < d.getD (i + 1) 0)) := by
        intro i hi u hu
        rw [getElem?_zipWith, hu, hadj _ i hi]
      constructor
      · intro h i hi hu
        have hng := hno i hi hu
        rw [keyAt_cons, keyAt_cons]
        cases hc : tupleLt (d.getD (i + 1) 0 :: keyAt ds (i + 1)) (d.getD i 0 :: keyAt ds i) with
        | false => rfl
        | true =>
          rcases (tupleLt_cons_iff _ _ _ _).1 hc with hlt | ⟨heq, hrest⟩
          · exact absurd hlt hng
          · have := h i hi (by rw [hund' i hi true hu, ← heq]; simp)
            rw [this] at hrest; cases hrest
      · intro h i hi hu'
        obtain ⟨u, hu⟩ := hundi i hi
        rw [hund' i hi u hu] at hu'
        simp only [Option.some.injEq, Bool.and_eq_true, Bool.not_eq_eq_eq_not, Bool.not_true,
          decide_eq_false_iff_not] at hu'
        obtain ⟨rfl, hnlt⟩ := hu'
        have hng := hno i hi hu
        have heq : d.getD (i + 1) 0 = d.getD i 0 := by omega
        have := h i hi hu
        rw [keyAt_cons, keyAt_cons] at this
        cases hc : tupleLt (keyAt ds (i + 1)) (keyAt ds i) with
        | false => rfl
        | true =>
          have hlt := (tupleLt_cons_iff (d.getD (i + 1) 0) (d.getD i 0) (keyAt ds (i + 1)) (keyAt ds i)).2
            (Or.inr ⟨heq, hc⟩)
          rw [this] at hlt; cases hlt

/-- **the sortedness test of the repaired `groupby`** answers `True` exactly if the key rows are in non-decreasing
    lexicographic order, every column compared in its own order -/
theorem keysSorted_spec (d0 : List Int) (ds : List (List Int)) (n : Nat) (h : Rect n (d0 :: ds)) :
    keysSorted (d0 :: ds) = true ↔ SortedRows (d0 :: ds) n := by
  have h0 : d0.length = n := h d0 (by simp)
  unfold keysSorted
  rw [sortedLoop_spec n (d0 :: ds) _ h (by simp [h0])]
  constructor
  · intro hadj i j hij hj
    refine sorted_of_adjacent (keyAt (d0 :: ds)) n (fun j h1 h2 => ?_) j i hij hj
    have := hadj (j - 1) (by omega) (by rw [List.getElem?_replicate]; simp; omega)
    rwa [show j - 1 + 1 = j by omega] at this
  · intro hs i hi _
    exact hs i (i + 1) (by omega) hi

/-! ### the spans -/

theorem any_congr_mem {α} {p q : α → Bool} : ∀ {l : List α}, (∀ a ∈ l, p a = q a) → l.any p = l.any q
  | [], _ => rfl
  | a :: l, h => by
    rw [any_cons, any_cons, h a (by simp), any_congr_mem (fun b hb => h b (by simp [hb]))]

theorem neq_keyAt (i j : Nat) : ∀ cols : List (List Int),
    neq (keyAt cols i) (keyAt cols j) = cols.any (fun c => c.getD i 0 != c.getD j 0)
  | [] => by simp [keyAt, neq]
  | c :: cs => by
    have ih := neq_keyAt i j cs
    simp only [neq] at ih
    rw [keyAt_cons, keyAt_cons, any_cons, ← ih]
    simp only [neq, bne, List.cons_beq_cons, Bool.not_and]

/-- the fold of the per-column span arrays = the span array of the joint column (the fold of `Session.get_spans`, NC08d) -/
theorem colSpans_joint (d0 : List Int) (ds : List (List Int)) (hl : ∀ a ∈ ds, a.length = d0.length) :
    colSpans (d0 :: ds) = .ok (spans neq (jointCols ((d0 :: ds).map .numeric) d0.length)) := by
  have h := sessionGetSpansFields_all (.numeric d0) (ds.map .numeric)
    (fun c hc => by
      rcases List.mem_cons.1 hc with h | h
      · subst h; trivial
      · obtain ⟨a, _, rfl⟩ := List.mem_map.1 h; trivial)
    (fun c hc => by
      obtain ⟨a, ha, rfl⟩ := List.mem_map.1 hc
      rw [numeric_rows_length, numeric_rows_length]; exact hl a ha)
  rw [numeric_rows_length] at h
  simp only [sessionGetSpansFields, columnSpans] at h
  simp only [colSpans]
  rw [foldArraySpans_eq]; exact h

/-- **the spans of the repaired `groupby`** are the spans of the key rows: a row starts a group iff SOME key column
    changes there -/
theorem colSpans_spec (d0 : List Int) (ds : List (List Int)) (n : Nat) (h : Rect n (d0 :: ds)) :
    colSpans (d0 :: ds) = .ok (spans neq (rowsBy (d0 :: ds) n)) := by
  have h0 : d0.length = n := h d0 (by simp)
  rw [colSpans_joint d0 ds (fun a ha => by rw [h0]; exact h a (by simp [ha])), h0]
  congr 1
  apply spans_congr
  · simp [jointCols_length, rowsBy]
  · intro i
    rw [isBoundary_jointCols _ n (by
      intro c hc
      obtain ⟨a, ha, rfl⟩ := List.mem_map.1 hc
      rw [numeric_rows_length]; exact h a ha)]
    rw [any_map]
    have hnum : ∀ c : List Int, isBoundary neq (Column.numeric c).rows i = isBoundary neq c i := fun c => by
      simp only [Column.rows]
      exact isBoundary_map Row.num (fun a b hab => by injection hab) c i
    simp only [Function.comp_def, hnum]
    cases i with
    | zero => simp [isBoundary_zero]
    | succ j =>
      by_cases hj : j + 1 < n
      · rw [isBoundary_succ, getElem?_rowsBy _ n j (by omega), getElem?_rowsBy _ n (j + 1) hj]
        simp only []
        rw [neq_keyAt]
        refine any_congr_mem (fun c hc => ?_)
        have hc' : c.length = n := h c hc
        rw [isBoundary_succ, List.getElem?_eq_getElem (show j < c.length by omega),
          List.getElem?_eq_getElem (show j + 1 < c.length by omega)]
        simp [neq, List.getD_eq_getElem?_getD, List.getElem?_eq_getElem (show j < c.length by omega),
          List.getElem?_eq_getElem (show j + 1 < c.length by omega)]
      · rw [isBoundary_false_of_ge _ _ _ (by simp [rowsBy]; omega), List.any_eq_false]
        intro c hc
        rw [isBoundary_false_of_ge _ _ _ (by have := h c hc; omega)]
        simp

/-! ### both paths -/

theorem readKeys_ok (k0 : KeyCol) (ks : List KeyCol) (n : Nat) (h : Rect n ((k0 :: ks).map (·.data))) :
    readKeys (k0 :: ks) = .ok ((k0 :: ks).map (·.data)) := by
  unfold readKeys
  have : ks.all (fun k => k.data.length == k0.data.length) = true := by
    rw [all_eq_true]
    intro k hk
    have h1 : k.data.length = n := h k.data (by simp; exact Or.inr ⟨k, hk, rfl⟩)
    have h2 : k0.data.length = n := h k0.data (by simp)
    simp [h1, h2]
  simp [this]

theorem gatherCols_ok (n : Nat) (idx : List Nat) (hidx : ∀ i ∈ idx, i < n) : ∀ (cols : List (List Int)),
    Rect n cols → gatherCols cols idx = .ok (colsAlong cols idx)
  | [], _ => rfl
  | c :: cs, h => by
    have hc : c.length = n := h c (by simp)
    have ih := gatherCols_ok n idx hidx cs (fun d hd => h d (by simp [hd]))
    simp only [gatherCols, gather_ok c 0 idx (fun i hi => by rw [hc]; exact hidx i hi), ih, SortIndex.consE_ok]
    rfl

/-- `DataFrame.groupby` with fix D20: never fails on a rectangular frame with at least one key; the result is
    `(None, spans)` with the frame already sorted, or `(sort index, spans)`; in both cases `idx` is a stable sort index of
    the frame and `spans` are the spans of the key rows read along it. No hypothesis on the key columns' dtypes. -/
theorem groupbyCols_paths (k0 : KeyCol) (ks : List KeyCol) (hint : Bool) (n : Nat)
    (hrect : Rect n ((k0 :: ks).map (·.data)))
    (hhint : hint = true → SortedRows ((k0 :: ks).map (·.data)) n) :
    ∃ idx si, idx.Perm (List.range n) ∧ idx.Pairwise (ltBy ((k0 :: ks).map (·.data))) ∧
      ((si = none ∧ idx = List.range n) ∨ si = some idx) ∧
      groupbyCols (k0 :: ks) hint =
        .ok ⟨si, spans neq (rowsBy (colsAlong ((k0 :: ks).map (·.data)) idx) n)⟩ := by
  have hk0 : k0.data.length = n := hrect k0.data (by simp)
  have hrect' : Rect n (k0.data :: ks.map (·.data)) := by simpa using hrect
  unfold groupbyCols
  rw [readKeys_ok k0 ks n hrect]
  simp only [map_cons]
  by_cases hb : (hint || keysSorted (k0.data :: ks.map (·.data))) = true
  · have hsorted : SortedRows (k0.data :: ks.map (·.data)) n := by
      rcases Bool.or_eq_true_iff.1 hb with h | h
      · simpa using hhint h
      · exact (keysSorted_spec k0.data (ks.map (·.data)) n hrect').1 h
    refine ⟨List.range n, none, Perm.refl _, range_sorted_index _ n hsorted, Or.inl ⟨rfl, rfl⟩, ?_⟩
    rw [if_pos hb, colSpans_spec k0.data (ks.map (·.data)) n hrect']
    rw [colsAlong_range _ n hrect']
  · rw [if_neg hb]
    obtain ⟨idx, hidx, hperm, hs⟩ := datasetSortIndex_spec k0.data (ks.map (·.data)) n (fun c hc => hrect' c hc)
    have hlen := perm_range_length hperm
    have hlt := perm_range_lt hperm
    refine ⟨idx, some idx, hperm, by simpa using hs, Or.inr rfl, ?_⟩
    simp only [nrows, hk0, hidx, gatherCols_ok n idx hlt _ hrect']
    have hra : Rect n (colsAlong (k0.data :: ks.map (·.data)) idx) := by
      rw [← hlen]; exact rect_colsAlong _ idx
    have e : colsAlong (k0.data :: ks.map (·.data)) idx =
        idx.map (k0.data.getD · 0) :: colsAlong (ks.map (·.data)) idx := rfl
    rw [e] at hra ⊢
    rw [colSpans_spec _ _ n hra]

/-- on a sorted frame the hint changes nothing: the sortedness test answers `True` itself -/
theorem groupbyCols_hint_irrelevant (k0 : KeyCol) (ks : List KeyCol) (n : Nat)
    (hrect : Rect n ((k0 :: ks).map (·.data))) (hsorted : SortedRows ((k0 :: ks).map (·.data)) n) :
    groupbyCols (k0 :: ks) true = groupbyCols (k0 :: ks) false := by
  have hrect' : Rect n (k0.data :: ks.map (·.data)) := by simpa using hrect
  have hs : keysSorted (k0.data :: ks.map (·.data)) = true :=
    (keysSorted_spec k0.data (ks.map (·.data)) n hrect').2 (by simpa using hsorted)
  unfold groupbyCols
  rw [readKeys_ok k0 ks n hrect]
  simp only [map_cons, hs, Bool.or_true]

end Exetera.GroupBy
