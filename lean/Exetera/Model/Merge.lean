import Exetera.Model.Join
import Exetera.Model.MapValid
import Exetera.Gen.MergeDispatch
import Exetera.Gen.Constants
/-!
  Model of `DataFrame.merge` (exetera/core/dataframe.py: `merge`, `_ordered_merge`, `_unordered_merge`) and of the
  validators it calls (exetera/core/validation.py). Core Lean only.

  * A frame is an association list `name ↦ column`; a column is either flat (numeric, bool, categorical, timestamp, fixed
    string — a list of cells plus the dtype's empty value) or an indexed string (`indices`, `values`).
  * The key columns enter twice: as ordinary columns of the frames, and as `lk`/`rk : List Int`, an order embedding of
    the key tuples (the join kernels only compare keys — DESIGN 1.4). `nKeys` is `len(left_on_fields)`.
  * `_ordered_merge` is NOT transcribed by hand: its dispatch (which generator, which key is its `left`, which of the
    created fields receives which output, whether `invalid` is passed), its renames and its column-mapping call sites are
    read from `Gen/MergeDispatch.lean`, regenerated from the source on every run, and interpreted here (`plan`,
    `mapPlan`): the arguments are bound to the callee's parameters the way Python binds them.
  * The streamed generators are `Join.streamed` (C03), the column mappers `MapValid.*` (C04) — reused, not duplicated.
  * `pandas.merge` is a parameter: a function returning the list of (left row | NaN, right row | NaN) pairs in pandas' order.
  * The destination frame is assumed empty on entry; creating a field whose name exists is the `ValueError` of `create_like`.
  * Fix NC02b is modelled: `merge` computes every destination name up front (`allDestNames`: the four names it reserves for
    fields of its own plus the suffixed names of the mapped fields) and raises `ValueError` on a clash, before either path runs.
-/
namespace Exetera.Merge

open Exetera Exetera.Gen.MergeDispatch

inductive Cell where
  | int (v : Int)
  | str (s : String)
  | bool (b : Bool)
  deriving Repr, DecidableEq, Inhabited

inductive Col where
  /-- `empty` is the zero of the dtype: `0`, `False` or `b''` (what `np.zeros` gives and what `ordered_map_valid_stream`
      chooses as `empty_value` for the dtype class) -/
  | flat (empty : Cell) (vals : List Cell)
  | indexed (indices : List Int) (values : List Int)
  deriving Repr, DecidableEq, Inhabited

abbrev Frame := List (String × Col)

def Col.isIndexed : Col → Bool
  | .indexed _ _ => true
  | _ => false

/-- `len(field.data)` -/
def Col.len : Col → Nat
  | .flat _ v => v.length
  | .indexed ix _ => ix.length - 1

def look (f : Frame) (n : String) : Option Col := (f.find? (fun e => e.1 == n)).map (·.2)

/-- `df[name]` -/
def getCol (f : Frame) (n : String) : Except Err Col :=
  match look f n with
  | some c => .ok c
  | none => .error (.valueError "There is no field named … in this dataframe")

def names (f : Frame) : List String := f.map (·.1)

/-! ### validation (validation.py) -/

/-- `validate_key_field_consistency` -/
def validateKeyConsistency (lTuple rTuple : Bool) (lOn rOn : List String) : Except Err Unit :=
  if lTuple != rTuple then .error (.valueError "Either none or both of 'left_on' and 'right_on' must be tuples")
  else if lTuple && lOn.length != rOn.length then .error (.valueError "'left_on' and 'right_on' must be the same length")
  else .ok ()

/-- `validate_and_get_key_fields`: every key exists and is not indexed -/
def validateKeyFields (df : Frame) : List String → Except Err (List Col)
  | [] => .ok []
  | k :: ks =>
    match getCol df k with
    | .error e => .error e
    | .ok c =>
      if c.isIndexed then .error (.valueError "field is indexed; indexed fields cannot be used as keys")
      else
        match validateKeyFields df ks with
        | .error e => .error e
        | .ok cs => .ok (c :: cs)

/-- insertion into the python `set` of observed lengths -/
def addLen (lens : List Nat) (n : Nat) : List Nat := if lens.contains n then lens else lens ++ [n]

/-- `validate_key_lengths` -/
def validateKeyLengths (keys : List Col) : Except Err (List Nat) :=
  let lens := keys.foldl (fun s c => addLen s c.len) []
  if lens.length > 1 then .error (.valueError "keys are inconsistent lengths") else .ok lens

/-- `validate_field_lengths(side, lens, df, names)` -/
def validateFieldLengths (lens : List Nat) (df : Frame) : List String → Except Err (List Nat)
  | [] => if lens.length > 1 then .error (.valueError "fields are inconsistent lengths") else .ok lens
  | n :: ns =>
    match getCol df n with
    | .error e => .error e
    | .ok c => validateFieldLengths (addLen lens c.len) df ns

/-! ### interpretation of the generated dispatch table -/

def assoc {β} (t : List (String × β)) (k : String) : Option β := (t.find? (fun e => e.1 == k)).map (·.2)

/-- Python argument binding: positional arguments to the parameters in order, then keywords; a missing parameter
    without default, an unknown or doubly bound keyword, or too many positionals is a `TypeError` -/
def bindPos : List (String × Bool) → List String → Except Err (List (String × String))
  | _, [] => .ok []
  | [], _ :: _ => .error (.typeError "too many positional arguments")
  | p :: ps, a :: as =>
    match bindPos ps as with
    | .error e => .error e
    | .ok r => .ok ((p.1, a) :: r)

def bindKw (params : List (String × Bool)) : List (String × String) → List (String × String) →
    Except Err (List (String × String))
  | [], acc => .ok acc
  | (k, v) :: rest, acc =>
    if !(params.any (fun p => p.1 == k)) then .error (.typeError "unexpected keyword argument")
    else if acc.any (fun b => b.1 == k) then .error (.typeError "multiple values for argument")
    else bindKw params rest (acc ++ [(k, v)])

def bindArgs (params : List (String × Bool)) (args : List String) (kwargs : List (String × String)) :
    Except Err (List (String × String)) :=
  match bindPos params args with
  | .error e => .error e
  | .ok pos =>
    match bindKw params kwargs pos with
    | .error e => .error e
    | .ok all =>
      if params.all (fun p => p.2 || all.any (fun b => b.1 == p.1)) then .ok all
      else .error (.typeError "missing required positional argument")

/-- the model's name for each streamed generator of operations.py -/
def variantOf : String → Option Join.Variant
  | "generate_ordered_map_to_left_streamed" => some .left
  | "generate_ordered_map_to_left_left_unique_streamed" => some .leftLU
  | "generate_ordered_map_to_left_right_unique_streamed" => some .leftRU
  | "generate_ordered_map_to_left_both_unique_streamed" => some .leftBU
  | "generate_ordered_map_to_inner_streamed" => some .inner
  | "generate_ordered_map_to_inner_left_unique_streamed" => some .innerLU
  | "generate_ordered_map_to_inner_right_unique_streamed" => some .innerRU
  | "generate_ordered_map_to_inner_both_unique_streamed" => some .innerBU
  | _ => none

/-- what `_ordered_merge` does for one (how, left unique, right unique), as far as the map fields are concerned -/
structure Plan where
  variant : Join.Variant
  /-- the generator's `left` parameter is the LEFT frame's key (its `right` parameter then is the right frame's) -/
  aLeft : Bool
  /-- the generator receives `invalid` (the general inner generator has no such parameter) -/
  passInv : Bool
  /-- `_left_map` after the renames: `some true` = the generator's `l_result`, `some false` = its `r_result`, `none` = absent -/
  leftMap : Option Bool
  rightMap : Option Bool
  deriving Repr, DecidableEq

def badTable : Err := .other "merge-dispatch-table"

/-- resolve a variable of `_ordered_merge` through the `a_… , b_… = …` assignments of this `how` -/
def resolve (asg : List (String × String)) (v : String) : String := (assoc asg v).getD v

def flagOf (lu ru : Bool) : String → Option Bool
  | "left_keys_unique" => some lu
  | "right_keys_unique" => some ru
  | _ => none

/-- `<var>[0]` ↦ `<var>` for the key-field variables of `_ordered_merge` (anything else is left alone and rejected later) -/
def stripSub0 (e : String) : String :=
  match ["a_on", "b_on", "left_on_fields", "right_on_fields"].find? (fun v => e == v ++ "[0]") with
  | some v => v
  | none => e

/-- apply the `dest.rename` calls to the list (field name ↦ which generator output it holds) -/
def applyRenames : List (Bool × String × String) → List (String × Bool) → Except Err (List (String × Bool))
  | [], fs => .ok fs
  | (guarded, a, b) :: rest, fs =>
    if fs.any (fun e => e.1 == a) then
      if fs.any (fun e => e.1 == b) then .error (.valueError "rename target exists")
      else applyRenames rest (fs.map (fun e => if e.1 == a then (b, e.2) else e))
    else if guarded then applyRenames rest fs
    else .error (.valueError "There is no field named … in this dataframe")

def plan (how : String) (lu ru : Bool) : Except Err Plan :=
  if !extracted then .error badTable else
  let group := if how == "left" || how == "right" then "leftright" else "inner"
  let asg := if group == "leftright" then (assoc sideAssign how).getD [] else []
  match assoc condVars group with
  | none => .error badTable
  | some (u, v) =>
    match flagOf lu ru (resolve asg u), flagOf lu ru (resolve asg v) with
    | some fu, some fv =>
      match genRows.find? (fun r => r.group == group && r.first == fu && r.second == fv) with
      | none => .error badTable
      | some row =>
        match assoc calleeParams row.callee, variantOf row.callee with
        | some params, some variant =>
          match bindArgs params row.args row.kwargs with
          | .error e => .error e
          | .ok b =>
            -- the two key arguments
            match (assoc b "left").map (fun e => resolve asg (stripSub0 e)),
                  (assoc b "right").map (fun e => resolve asg (stripSub0 e)) with
            | some "left_on_fields", some "right_on_fields" => finish row b variant true
            | some "right_on_fields", some "left_on_fields" => finish row b variant false
            | _, _ => .error badTable
        | _, _ => .error badTable
    | _, _ => .error badTable
where
  finish (row : GenRow) (b : List (String × String)) (variant : Join.Variant) (aLeft : Bool) : Except Err Plan :=
    -- `chunksize` must keep its default (the harness injects it from outside); `invalid`, when bound, must be `invalid`
    if (assoc b "chunksize").isSome then .error badTable
    else if (assoc b "invalid").isSome && assoc b "invalid" != some "invalid" then .error badTable
    else
      -- which created field receives which output
      let outOf (p : String) (isL : Bool) : List (String × Bool) :=
        match (assoc b p).bind (assoc row.creates) with
        | some field => [(field, isL)]
        | none => []
      let fields := outOf "l_result" true ++ outOf "r_result" false
      -- every result parameter must be bound to a created field, and every created field must be used
      if fields.length != row.creates.length || (variant.hasL && (outOf "l_result" true).isEmpty)
          || (outOf "r_result" false).isEmpty then .error badTable
      else
        let rn := if how == "left" || how == "right" then (assoc renames how) else some []
        match rn with
        | none => .error badTable
        | some rn =>
          match applyRenames rn fields with
          | .error e => .error e
          | .ok fs =>
            match assoc mapVars "left_map", assoc mapVars "right_map" with
            | some ln, some rname => .ok ⟨variant, aLeft, (assoc b "invalid").isSome, assoc fs ln, assoc fs rname⟩
            | _, _ => .error badTable

/-- how one column is produced -/
inductive MapPlan where
  | copy                          -- `ops.chunked_copy`
  | stream (passInv : Bool)       -- `ops.ordered_map_valid_stream`, with or without the `invalid` argument
  | istream (passInv : Bool)      -- `ops.ordered_map_valid_indexed_stream`
  deriving Repr, DecidableEq

/-- the mapping call site of a column loop (`side`) and branch, read from the table -/
def mapPlan (side branch : String) : Except Err MapPlan :=
  if !extracted then .error badTable else
  match mapCalls.find? (fun c => c.side == side && c.branch == branch) with
  | none => .error badTable
  | some c =>
    match assoc calleeParams c.callee with
    | none => .error badTable
    | some params =>
      match bindArgs params c.args [] with
      | .error e => .error e
      | .ok b =>
        if c.callee == "chunked_copy" then
          if assoc b "src_field" == some (side ++ "[k]") && assoc b "dest_field" == some "dest_f" then .ok .copy
          else .error badTable
        else if assoc b "data_field" == some (side ++ "[k]") && assoc b "map_field" == some (side ++ "_map")
            && assoc b "result_field" == some "dest_f" && (assoc b "chunksize").isNone
            && ((assoc b "invalid").isNone || assoc b "invalid" == some "invalid") then
          if c.callee == "ordered_map_valid_stream" then .ok (.stream (assoc b "invalid").isSome)
          else if c.callee == "ordered_map_valid_indexed_stream" && (assoc b "value_factor").isNone then
            .ok (.istream (assoc b "invalid").isSome)
          else .error badTable
        else .error badTable

/-- the name a column gets in the destination: `if k in <other list>: dest_k += <suffix>` -/
def destName (side : String) (k : String) (leftToMap rightToMap : List String) (lsuf rsuf : String) : Except Err String :=
  if !extracted then .error badTable else
  match (suffixRule.find? (fun e => e.1 == side)).map (·.2) with
  | some (otherList, suffix) =>
    let other := if otherList == "right_fields_to_map" then some rightToMap
      else if otherList == "left_fields_to_map" then some leftToMap else none
    let suf := if suffix == "left_suffix" then some lsuf else if suffix == "right_suffix" then some rsuf else none
    match other, suf with
    | some o, some s => .ok (if o.contains k then k ++ s else k)
    | _, _ => .error badTable
  | none => .error badTable

def constOf : String → Option Int
  | "INVALID_INDEX_32" => some Exetera.Gen.INVALID_INDEX_32
  | "INVALID_INDEX_64" => some Exetera.Gen.INVALID_INDEX_64
  | "INT64_INDEX_LENGTH" => some Exetera.Gen.INT64_INDEX_LENGTH
  | _ => none

/-- the `invalid` sentinel `_ordered_merge` chooses -/
def sentinel (lu ru : Bool) (leftLen rightLen : Nat) : Except Err Int :=
  if !extracted then .error badTable else
  if lu || ru then
    match constOf int32Below, constOf sentinelUnique32, constOf sentinelUnique64 with
    | some lim, some i32, some i64 => .ok (if (leftLen : Int) < lim && (rightLen : Int) < lim then i32 else i64)
    | _, _, _ => .error badTable
  else
    match constOf sentinelGeneral with
    | some i64 => .ok i64
    | none => .error badTable

/-! ### the column loops -/

/-- one column of the ordered path: `chunked_copy` when the side has no map, else the stream its type calls for, with
    exactly the `invalid` the call site passes (default `-1` when it passes none) -/
def mapColumn (side : String) (col : Col) (map_ : Option (List Int)) (inv : Int) (cs vf : Nat) : Except Err Col :=
  let branch := match map_ with
    | none => "nomap"
    | some _ => if col.isIndexed then "indexed" else "flat"
  match mapPlan side branch, map_, col with
  | .error e, _, _ => .error e
  | .ok .copy, none, c => .ok c
  | .ok (.stream p), some m, .flat empty vals =>
    match MapValid.orderedMapValidStream vals m (if p then inv else -1) cs empty with
    | .ok out => .ok (.flat empty out)
    | .error e => .error e
  | .ok (.istream p), some m, .indexed ix vs =>
    -- `_ordered_merge` passes no `value_factor`: the stream sizes its value buffer itself (fix NC02c), `vf` is its floor
    match MapValid.orderedMapValidIndexedStream ix vs m (if p then inv else -1) cs (MapValid.autoValueFactor vf ix cs) with
    | .ok out => .ok (.indexed out.1 out.2)
    | .error e => .error e
  | .ok _, _, _ => .error badTable

/-- `dest_f = src.create_like(dest, name)` then the mapping, for a list of (name, column or error), in order -/
def addAll : List (String × Except Err Col) → Frame → Except Err Frame
  | [], d => .ok d
  | (n, c) :: rest, d =>
    if d.any (fun e => e.1 == n) then .error (.valueError "Field already exists in group")
    else
      match c with
      | .error e => .error e
      | .ok col => addAll rest (d ++ [(n, col)])

/-- the entries of one column loop -/
def loopCols (side : String) (src : Frame) (toMap leftToMap rightToMap : List String) (lsuf rsuf : String)
    (f : Col → Except Err Col) : List (String × Except Err Col) :=
  toMap.map (fun k =>
    match destName side k leftToMap rightToMap lsuf rsuf with
    | .error _ => (k, .error badTable)
    | .ok dn => (dn, match getCol src k with | .ok c => f c | .error e => .error e))

def intCol (xs : List Int) : Col := .flat (.int 0) (xs.map Cell.int)

/-! ### `_ordered_merge` -/

structure Input where
  how : String
  left : Frame
  right : Frame
  leftOn : List String
  rightOn : List String
  leftTuple : Bool
  rightTuple : Bool
  leftFields : Option (List String)
  rightFields : Option (List String)
  leftSuffix : String := "_l"
  rightSuffix : String := "_r"
  hintLO : Option Bool := none
  hintLU : Option Bool := none
  hintRO : Option Bool := none
  hintRU : Option Bool := none
  /-- order embedding of the key tuples of the two frames -/
  lk : List Int
  rk : List Int
  deriving Repr

def orderedMerge (i : Input) (leftToMap rightToMap : List String) (leftLen rightLen : Nat) (lu ru : Bool)
    (cs vf fuel : Nat) : Except Err Frame :=
  if !(["left", "right", "inner"].contains i.how) then .error (.valueError "Unsupported mode for 'how'") else
  match sentinel lu ru leftLen rightLen, plan i.how lu ru with
  | .error e, _ => .error e
  | _, .error e => .error e
  | .ok inv, .ok p =>
    let a := if p.aLeft then i.lk else i.rk
    let b := if p.aLeft then i.rk else i.lk
    match Join.streamed p.variant fuel cs inv a b with
    | .error e => .error e
    | .ok o =>
      let pick (w : Option Bool) : Option (List Int) := w.map (fun isL => if isL then o.lout else o.rout)
      let leftMap := pick p.leftMap
      let rightMap := pick p.rightMap
      let mapCols : List (String × Except Err Col) :=
        (match leftMap with | some m => [("_left_map", .ok (intCol m))] | none => []) ++
        (match rightMap with | some m => [("_right_map", .ok (intCol m))] | none => [])
      addAll (mapCols
        ++ loopCols "left" i.left leftToMap leftToMap rightToMap i.leftSuffix i.rightSuffix
            (fun c => mapColumn "left" c leftMap inv cs vf)
        ++ loopCols "right" i.right rightToMap leftToMap rightToMap i.leftSuffix i.rightSuffix
            (fun c => mapColumn "right" c rightMap inv cs vf)) []

/-! ### `_unordered_merge` -/

/-- a pandas result row: (left row | NaN, right row | NaN) -/
abbrev Pairs := List (Option Nat × Option Nat)

/-- `df['l_i'].to_numpy(dtype=np.int32)`: the row number, or whatever the cast makes of NaN (never read: the filter is
    false there) — modelled as `-1` -/
def mapOf (xs : List (Option Nat)) : List Int := xs.map (fun o => match o with | some i => (i : Int) | none => -1)
def filtOf (xs : List (Option Nat)) : List Bool := xs.map Option.isSome

/-- `safe_map_values` / `safe_map_indexed_values` with the row map and the `notnull` filter -/
def safeMapColumn (col : Col) (sel : List (Option Nat)) : Except Err Col :=
  match col with
  | .flat empty vals =>
    match MapValid.safeMapValues vals (mapOf sel) (filtOf sel) none empty with
    | .ok out => .ok (.flat empty out)
    | .error e => .error e
  | .indexed ix vs =>
    match MapValid.safeMapIndexedValues ix vs (mapOf sel) (filtOf sel) [] with
    | .ok out => .ok (.indexed out.1 out.2)
    | .error e => .error e

def boolCol (xs : List Bool) : Col := .flat (.bool false) (xs.map Cell.bool)

def unorderedMerge (pandas : String → List Int → List Int → Except Err Pairs) (i : Input)
    (leftToMap rightToMap : List String) : Except Err Frame :=
  match pandas i.how i.lk i.rk with
  | .error e => .error e
  | .ok pairs =>
    let lsel := pairs.map (·.1)
    let rsel := pairs.map (·.2)
    let suffixed (k : String) (other : List String) (suf : String) := if other.contains k then k ++ suf else k
    let lcols : List (String × Except Err Col) := leftToMap.map (fun k =>
      (suffixed k rightToMap i.leftSuffix, match getCol i.left k with | .ok c => safeMapColumn c lsel | .error e => .error e))
    let rcols : List (String × Except Err Col) := rightToMap.map (fun k =>
      (suffixed k leftToMap i.rightSuffix, match getCol i.right k with | .ok c => safeMapColumn c rsel | .error e => .error e))
    let validL : List (String × Except Err Col) :=
      if (filtOf lsel).all id then [] else [("valid" ++ i.leftSuffix, .ok (boolCol (filtOf lsel)))]
    let validR : List (String × Except Err Col) :=
      if (filtOf rsel).all id then [] else [("valid" ++ i.rightSuffix, .ok (boolCol (filtOf rsel)))]
    addAll (lcols ++ validL ++ rcols ++ validR) []

/-! ### `merge` -/

def supportedModes : List String := ["left", "right", "inner", "outer", "cross"]

/-- does `merge` take the ordered path? -/
def isOrdered (i : Input) : Bool :=
  i.hintLO.getD false && i.hintRO.getD false && i.leftOn.length == 1 && i.rightOn.length == 1 &&
    ["left", "right", "inner"].contains i.how

/-- `len(set(names)) == len(names)` -/
def allDistinct : List String → Bool
  | [] => true
  | x :: xs => !xs.contains x && allDistinct xs

/-- `dest_names` of `merge` (fix NC02b): the four names `merge` reserves for fields of its own, then every mapped field under
    its (suffixed) destination name -/
def allDestNames (i : Input) (leftToMap rightToMap : List String) : List String :=
  ["_left_map", "_right_map", "valid" ++ i.leftSuffix, "valid" ++ i.rightSuffix]
    ++ leftToMap.map (fun k => if rightToMap.contains k then k ++ i.leftSuffix else k)
    ++ rightToMap.map (fun k => if leftToMap.contains k then k ++ i.rightSuffix else k)

def merge (pandas : String → List Int → List Int → Except Err Pairs) (i : Input) (cs vf fuel : Nat) : Except Err Frame :=
  if !(supportedModes.contains i.how) then .error (.valueError "'how' must be one of …") else
  match validateKeyConsistency i.leftTuple i.rightTuple i.leftOn i.rightOn with
  | .error e => .error e
  | .ok _ =>
  match validateKeyFields i.left i.leftOn, validateKeyFields i.right i.rightOn with
  | .error e, _ => .error e
  | _, .error e => .error e
  | .ok lkf, .ok rkf =>
  match validateKeyLengths lkf, validateKeyLengths rkf with
  | .error e, _ => .error e
  | _, .error e => .error e
  | .ok ll, .ok rl =>
  let leftToMap := i.leftFields.getD (names i.left)
  let rightToMap := i.rightFields.getD (names i.right)
  match validateFieldLengths ll i.left leftToMap, validateFieldLengths rl i.right rightToMap with
  | .error e, _ => .error e
  | _, .error e => .error e
  | .ok ll', .ok rl' =>
  match ll'.head?, rl'.head? with
  | some leftLen, some rightLen =>
    if !(allDistinct (allDestNames i leftToMap rightToMap)) then
      .error (.valueError "merge would write more than one destination field named …")
    else if isOrdered i then
      orderedMerge i leftToMap rightToMap leftLen rightLen (i.hintLU.getD false) (i.hintRU.getD false) cs vf fuel
    else unorderedMerge pandas i leftToMap rightToMap
  | _, _ => .error (.oob "list(left_lens)[0]")

end Exetera.Merge
