import Exetera.Lemmas.ChunkedCopy
/-!
# C12 — `element_chunked_copy` / `chunked_copy` (the column copy of `DataFrame.merge`)

The loop advances `i` by the length of the chunk just written. For every chunk size ≥ 1 it needs exactly `⌈n / cs⌉` iterations
(stated without division: `n ≤ w·cs < n + cs` for the number `w` of writes), so any fuel `≥ n` suffices; the destination is
the source appended to what it held. With `chunksize = 0` (outside the property: "any chunk size ≥ 1") the code spins — recorded
as a fixpoint example, not as a finding.
-/
namespace Exetera.Props.C12
open Exetera Exetera.ChunkedCopy

/-- **chunked_copy_eq.** For every chunk size ≥ 1 and every fuel with `n ≤ fuel · cs` (i.e. `fuel ≥ ⌈n/cs⌉`):
    `element_chunked_copy` finishes, the destination is its previous contents followed by exactly the source, and the number of
    `write` calls `w` is `⌈n/cs⌉` (`n ≤ w·cs < n + cs`). -/
theorem chunked_copy_eq {α} (src dest0 : List α) (cs fuel : Nat) (hcs : 1 ≤ cs) (hfuel : src.length ≤ fuel * cs) :
    ∃ st, elementChunkedCopy src dest0 cs fuel = .ok st ∧ st.dest = dest0 ++ src ∧ st.i = src.length ∧
      src.length ≤ st.writes * cs ∧ st.writes * cs < src.length + cs := by
  obtain ⟨s', hw, hI, hfin⟩ := loop_spec src dest0 cs hcs fuel _ (inv_init src dest0 cs hcs) (by simpa [init] using hfuel)
  refine ⟨s', hw, ?_, hfin, ?_, ?_⟩
  · rw [hI.dest, hfin, List.take_length]
  · have := hI.wlo; omega
  · have := hI.whi; omega

/-- **chunked_copy_terminates** (the linear bound made visible): `B = 1·|src| + 0·|dest| + 0`; every fuel `≥ B` suffices for
    every chunk size ≥ 1, and the number of iterations is at most `|src|`. -/
theorem chunked_copy_terminates {α} (src dest0 : List α) (cs fuel : Nat) (hcs : 1 ≤ cs)
    (hfuel : 1 * src.length + 0 * (dest0 ++ src).length + 0 ≤ fuel) :
    ∃ st, elementChunkedCopy src dest0 cs fuel = .ok st ∧ st.dest = dest0 ++ src ∧ st.writes ≤ src.length := by
  have h1 : src.length ≤ fuel := by omega
  have h2 : fuel ≤ fuel * cs := Nat.le_mul_of_pos_right _ hcs
  obtain ⟨st, hrun, hd, _, _, hhi⟩ := chunked_copy_eq src dest0 cs fuel hcs (by omega)
  refine ⟨st, hrun, hd, ?_⟩
  -- `w·cs < n + cs` and `cs ≥ 1` give `w ≤ n`
  rcases Nat.lt_or_ge src.length st.writes with hlt | hge
  · exfalso
    have : (src.length + 1) * cs ≤ st.writes * cs := Nat.mul_le_mul_right _ hlt
    have h3 : (src.length + 1) * cs = src.length * cs + cs := Nat.succ_mul _ _
    have h4 : src.length ≤ src.length * cs := Nat.le_mul_of_pos_right _ hcs
    omega
  · exact hge

/-- **chunked_copy_never_spins.** Every iteration of the loop (chunk size ≥ 1, from any state the loop reaches) strictly
    advances `i` — by `min cs (n - i)` — and writes exactly the elements `[i, i')` of the source: the measure `n - i` strictly
    decreases and the output grows by the same amount. -/
theorem chunked_copy_never_spins {α} (src dest0 : List α) (cs : Nat) (hcs : 1 ≤ cs) (s : St α)
    (hI : Inv src dest0 cs s) (hg : ChunkedCopy.guard src s = true) :
    ∃ s', body src cs s = .ok s' ∧ Inv src dest0 cs s' ∧ src.length - s'.i < src.length - s.i ∧
      s'.dest.length = s.dest.length + (s'.i - s.i) := by
  have hg' : s.i < src.length := by simpa [ChunkedCopy.guard] using hg
  obtain ⟨s', hb, hI', hi', hlt, _, hd⟩ := body_inv src dest0 cs hcs s hI hg'
  refine ⟨s', hb, hI', by have := hI'.le; omega, ?_⟩
  rw [hd, List.length_append, slice_length]
  have := hI'.le
  omega

/-- the whole-field form: a plain field and an indexed field are copied element array by element array -/
theorem chunked_copy_field_eq {α} (f : Field α) (cs fuel : Nat) (hcs : 1 ≤ cs)
    (hfuel : (match f with | .plain d => d.length | .indexed i v => max i.length v.length) ≤ fuel) :
    ∃ w, chunkedCopy f cs fuel = .ok ⟨f, w⟩ := by
  cases f with
  | plain d =>
    obtain ⟨st, hrun, hd, _⟩ := chunked_copy_terminates d [] cs fuel hcs (by simpa using hfuel)
    exact ⟨st.writes, by simp [chunkedCopy, hrun, hd]⟩
  | indexed i v =>
    simp only [] at hfuel
    obtain ⟨s1, hr1, hd1, _⟩ := chunked_copy_terminates i [] cs fuel hcs (by simp; omega)
    obtain ⟨s2, hr2, hd2, _⟩ := chunked_copy_terminates v [] cs fuel hcs (by simp; omega)
    exact ⟨s1.writes + s2.writes, by simp [chunkedCopy, hr1, hr2, hd1, hd2]⟩

-- non-vacuity: a source longer than the chunk (7 elements, chunk size 3: three writes), fuel exactly ⌈7/3⌉ = 3
example : (7 : Nat) ≤ 3 * 3 ∧
    elementChunkedCopy [1, 2, 3, 4, 5, 6, 7] ([0] : List Nat) 3 3 = .ok ⟨7, (7, 7), [0, 1, 2, 3, 4, 5, 6, 7], 3⟩ := ⟨by decide, by rfl⟩
-- one fewer iteration does not suffice
example : elementChunkedCopy [1, 2, 3, 4, 5, 6, 7] ([0] : List Nat) 3 2 = .error .outOfFuel := by rfl
-- a source exactly filling two chunks; the empty source (no iteration)
example : elementChunkedCopy [1, 2, 3, 4] ([] : List Nat) 2 4 = .ok ⟨4, (4, 4), [1, 2, 3, 4], 2⟩ ∧
    elementChunkedCopy ([] : List Nat) [9] 5 0 = .ok ⟨0, (0, 0), [9], 0⟩ := ⟨by rfl, by rfl⟩
example : Inv [1, 2, 3, 4, 5] ([0] : List Nat) 2 ⟨2, (2, 4), [0, 1, 2], 1⟩ ∧ ChunkedCopy.guard [1, 2, 3, 4, 5] (⟨2, (2, 4), [0, 1, 2], 1⟩ : St Nat) = true :=
  ⟨⟨by decide, by decide, by decide, by decide, by decide, by decide⟩, by decide⟩
example : chunkedCopy (.indexed [0, 1, 3] ([97, 98, 99] : List Int)) 2 3 = .ok ⟨.indexed [0, 1, 3] [97, 98, 99], 4⟩ := by rfl
/-- outside the property (chunk size 0): the loop body has a fixpoint with the guard true, so no fuel suffices -/
example : ∀ fuel, elementChunkedCopy [1, 2] ([] : List Nat) 0 fuel = .error .outOfFuel :=
  zero_chunk_fixpoint [1, 2] (by decide) _ rfl (by decide)

end Exetera.Props.C12
